(* C10 - property theorems only.  Each is closed by [exact] of a lemma from Proofs.v and
   followed by Print Assumptions.

   All theorems hold for EVERY value type [val], JSON normalisation [rt], encodings of the
   reserved values and route function [route]; [h] is ANY history of operations over any
   number of connections and back-session handles.  [fmap h sid] is the per-connection map as
   a function of the history alone (Spec.v): the fold of key-by-key merges of the writes
   addressed to [sid].  [live (final h) sid] is the map the model's front-end holds. *)
From Cell2V Require Import Common.Tac Common.ListX Common.AList C10.Model C10.Spec C10.Corr C10.Proofs.

(* The front-end's state after any history is exactly that per-connection fold ... *)
Theorem C10_refines_map : forall val rt vnet vfront vempty route kinst (h : list (op val)) sid,
  live val (final val rt vnet vfront vempty route kinst h) sid = fmap val rt vnet vfront h sid.
Proof. exact refines_map. Qed.
Print Assumptions C10_refines_map.

(* ... and so is every back-session (connection, NewData, dirty flag, queried snapshot) ... *)
Theorem C10_refines_back : forall val rt vnet vfront vempty route kinst (h : list (op val)) b,
  aget b (backs val (final val rt vnet vfront vempty route kinst h)) = bsess_of val rt vnet vfront vempty h b.
Proof. exact back_entry. Qed.
Print Assumptions C10_refines_back.

(* ... hence every observable result of every operation after every history is the one the
   history functions prescribe (Get / ToJson on both sides, push and query results, the
   forwarded envelope and the receiving instance). *)
Theorem C10_observations : forall val rt vnet vfront vempty route kinst (ops : list (op val)),
  run val rt vnet vfront vempty route kinst ops = spec_run val rt vnet vfront vempty route kinst ops.
Proof. exact run_spec. Qed.
Print Assumptions C10_observations.

(* The law of one merge: the written map wins per key, untouched keys persist. *)
Theorem C10_merge_law : forall val (m w : alist val) k, sorted w ->
  aget k (merge_into val m w) = match aget k w with Some v => Some v | None => aget k m end.
Proof. exact merge_law. Qed.
Print Assumptions C10_merge_law.

(* An effective push (something was Set on the handle since its last push / query): per key
   the pushed value, JSON-normalised, replaces the old one; all other keys keep their value.
   Later pushes therefore win per key. *)
Theorem C10_push_law : forall val rt vnet vfront (kinst : Z) (h : list (op val)) b sid m,
  bsid val h b = Some sid -> bdirty val h b = true -> fmap val rt vnet vfront h sid = Some m ->
  exists m', fmap val rt vnet vfront (h ++ [OBackPush b]) sid = Some m' /\
    forall k, aget k m' = match aget k (bnew val h b) with Some v => Some (rt v) | None => aget k m end.
Proof. exact push_law. Qed.
Print Assumptions C10_push_law.

Theorem C10_push_clean : forall val rt vnet vfront (h : list (op val)) b sid',
  bdirty val h b = false ->
  fmap val rt vnet vfront (h ++ [OBackPush b]) sid' = fmap val rt vnet vfront h sid'.
Proof. exact push_clean. Qed.
Print Assumptions C10_push_clean.

(* Frame: an operation changes only the map of the connection it writes to - every other
   connection's map is untouched, whatever the operation. *)
Theorem C10_frame : forall val rt vnet vfront (h : list (op val)) o sid,
  writes_to val h o <> Some sid ->
  fmap val rt vnet vfront (h ++ [o]) sid = fmap val rt vnet vfront h sid.
Proof. exact frame. Qed.
Print Assumptions C10_frame.

(* A query of a live connection succeeds and returns the WHOLE current map: every key of the
   front-end's map is in the snapshot with its normalised value (other snapshot keys persist). *)
Theorem C10_query_full : forall val rt vnet vfront vempty route kinst (h : list (op val)) b sid m,
  bsid val h b = Some sid -> fmap val rt vnet vfront h sid = Some m ->
  obs_at val rt vnet vfront vempty route kinst h (OBackQuery b) = BOk /\
  forall k, aget k (bdata val rt vnet vfront vempty (h ++ [OBackQuery b]) b) =
            match aget k m with Some v => Some (rt v) | None => aget k (bdata val rt vnet vfront vempty h b) end.
Proof. exact query_law. Qed.
Print Assumptions C10_query_full.

(* What the handler then reads with Get: its own locally Set value if there is one, else the
   queried one. *)
Theorem C10_get_after_query : forall val rt vnet vfront vempty route kinst (h : list (op val)) b sid m k,
  bsid val h b = Some sid -> fmap val rt vnet vfront h sid = Some m ->
  obs_at val rt vnet vfront vempty route kinst (h ++ [OBackQuery b]) (OBackGet b k) =
  BVal (match aget k (bnew val h b) with
        | Some v => Some v
        | None => match aget k m with Some v => Some (rt v) | None => aget k (bdata val rt vnet vfront vempty h b) end
        end).
Proof. exact get_after_query. Qed.
Print Assumptions C10_get_after_query.

(* Every forwarded request: the instance is chosen by the route function applied to the
   CURRENT map; the envelope carries the currently bound user id (key _ID of that map), the
   front-end's name and the connection id. *)
Theorem C10_forward_stamp : forall val rt vnet vfront vempty route kinst (h : list (op val)) sid,
  obs_at val rt vnet vfront vempty route kinst h (OForward sid) =
  match fmap val rt vnet vfront h sid with
  | Some m => match route m with
              | Some i => BFwd i (id_of val vempty m) (vfront sid) sid
              | None => BFwdNone
              end
  | None => BIgnored
  end.
Proof. exact forward_stamp. Qed.
Print Assumptions C10_forward_stamp.

(* A connection that no longer exists: a push changes no map at all (and reports no error),
   a query reports an error and changes neither any map nor the back-session. *)
Theorem C10_dead_session : forall val rt vnet vfront vempty route kinst (h : list (op val)) b sid,
  bsid val h b = Some sid -> fmap val rt vnet vfront h sid = None ->
  (forall sid', fmap val rt vnet vfront (h ++ [OBackPush b]) sid' = fmap val rt vnet vfront h sid') /\
  obs_at val rt vnet vfront vempty route kinst h (OBackPush b) = BOk /\
  obs_at val rt vnet vfront vempty route kinst h (OBackQuery b) = BErr /\
  (forall sid', fmap val rt vnet vfront (h ++ [OBackQuery b]) sid' = fmap val rt vnet vfront h sid') /\
  bdata val rt vnet vfront vempty (h ++ [OBackQuery b]) b = bdata val rt vnet vfront vempty h b /\
  bdirty val (h ++ [OBackQuery b]) b = bdirty val h b.
Proof. exact dead_session. Qed.
Print Assumptions C10_dead_session.

(* Set on one back-end, pushed, queried from another back-end: the value's normal form
   (uses idempotence of the JSON round trip). *)
Theorem C10_set_push_query : forall val rt vnet vfront vempty (route : alist val -> option Z) (kinst : Z),
  (forall v, rt (rt v) = rt v) ->
  forall (h : list (op val)) b b2 sid m k v,
  bsid val h b = Some sid -> bsid val h b2 = Some sid -> fmap val rt vnet vfront h sid = Some m ->
  aget k (bdata val rt vnet vfront vempty (h ++ [OBackSet b k v; OBackPush b; OBackQuery b2]) b2) = Some (rt v).
Proof. exact set_push_query. Qed.
Print Assumptions C10_set_push_query.

(* A handler that sets and pushes on one BackSession WITHOUT waiting for acknowledgements, in
   any order and number ([OBackScript]: sets / pushes, no step awaited), and finally pushes once
   more: every key it set has, on the front-end, the normal form of the last value it set.
   Nothing set between sending a push and its acknowledgement is lost (the dirty flag is cleared
   when the push is SENT). *)
Theorem C10_pipelined_pushes : forall val rt vnet vfront (route : alist val -> option Z) (kinst : Z) (h : list (op val)) b sid m acts,
  bsid val h b = Some sid -> fmap val rt vnet vfront h sid = Some m ->
  has_query val acts = false -> has_kick val acts = false ->
  exists m', fmap val rt vnet vfront ((h ++ [OBackScript b acts]) ++ [OBackPush b]) sid = Some m' /\
    forall k, set_in val k acts = true ->
      exists v, aget k (bnew val ((h ++ [OBackScript b acts]) ++ [OBackPush b]) b) = Some v /\
                aget k m' = Some (rt v).
Proof. exact script_then_push. Qed.
Print Assumptions C10_pipelined_pushes.

(* THE CLOSING WINDOW.  A script that kicks its connection ([AKick]: the front closes the socket
   when it handles sys.kick; the session stays registered until the posted RemoveSession has run,
   i.e. after the script's remaining pushes / queries): every push of the script - before AND
   after the kick - is merged, its queries return the data (no error), the OnClose handler's view
   of the session ([BAcksClosed _ view]) contains all of it, and only then is the connection gone.
   [no_kicks acts] = the same script without the kicks: the kick is invisible to data. *)
Theorem C10_closing_window : forall val rt vnet vfront vempty route kinst (h : list (op val)) b sid m acts,
  bsid val h b = Some sid -> fmap val rt vnet vfront h sid = Some m -> has_kick val acts = true ->
  obs_at val rt vnet vfront vempty route kinst h (OBackScript b acts) =
    BAcksClosed (script_acks val true acts)
                (norm val rt (script_front val rt m (bnew val h b) (bdirty val h b) (no_kicks val acts))) /\
  fmap val rt vnet vfront (h ++ [OBackScript b acts]) sid = None /\
  bdata val rt vnet vfront vempty (h ++ [OBackScript b acts]) b =
    script_data val (bdata val rt vnet vfront vempty h b)
                (script_snaps val rt m (bnew val h b) (bdirty val h b) (no_kicks val acts)).
Proof. exact closing_window. Qed.
Print Assumptions C10_closing_window.

(* What the OnClose handler sees when a connection is removed: the whole current map. *)
Theorem C10_onclose_view : forall val rt vnet vfront vempty route kinst (h : list (op val)) sid m,
  fmap val rt vnet vfront h sid = Some m ->
  obs_at val rt vnet vfront vempty route kinst h (ORemove sid) = BClosed (norm val rt m).
Proof. exact onclose_view. Qed.
Print Assumptions C10_onclose_view.

(* SESSION OBJECT IDENTITY.  The session a handler keeps from a forwarded request of [sid]
   (it answers first and goes on using ctx.Session) belongs to [sid] and carries the id bound at
   that moment ... *)
Theorem C10_kept_session : forall val rt vnet vfront vempty (h : list (op val)) sid b m,
  fmap val rt vnet vfront h sid = Some m -> bsid val h b = None ->
  bsid val (h ++ [OForwardKeep sid b]) b = Some sid /\
  bdata val rt vnet vfront vempty (h ++ [OForwardKeep sid b]) b = aset k_id (id_of val vempty m) [].
Proof. exact kept_session. Qed.
Print Assumptions C10_kept_session.

(* ... the same holds when the handler was reached by a forwarded NOTIFICATION (nothing is
   answered; the session is the notifying connection's on the front-end it is connected to) ... *)
Theorem C10_kept_session_notify : forall val rt vnet vfront vempty route kinst (h : list (op val)) sid b m,
  fmap val rt vnet vfront h sid = Some m -> bsid val h b = None ->
  obs_at val rt vnet vfront vempty route kinst h (OForwardKeepN sid b) = BUnit /\
  bsess_of val rt vnet vfront vempty (h ++ [OForwardKeepN sid b]) b =
  bsess_of val rt vnet vfront vempty (h ++ [OForwardKeep sid b]) b.
Proof. exact kept_session_notify. Qed.
Print Assumptions C10_kept_session_notify.

(* ... and for ever after: replace, anywhere in any history, notifications by requests - no
   connection's map and no handle's session differs.  Whatever a handler may do with the session
   of a forwarded request it may do with the session of a forwarded notification. *)
Theorem C10_notify_as_request : forall val rt vnet vfront vempty (h : list (op val)),
  (forall sid, fmap val rt vnet vfront (map (as_request val) h) sid = fmap val rt vnet vfront h sid) /\
  (forall b, bsess_of val rt vnet vfront vempty (map (as_request val) h) b = bsess_of val rt vnet vfront vempty h b).
Proof. exact notify_as_request. Qed.
Print Assumptions C10_notify_as_request.

(* ... it addresses that connection for as long as it is used, whatever happens meanwhile (other
   forwarded requests of other connections served by the same back-end, other handles) ... *)
Theorem C10_handle_identity : forall val (h h' : list (op val)) b s,
  bsid val h b = Some s -> bsid val (h ++ h') b = Some s.
Proof. exact handle_identity. Qed.
Print Assumptions C10_handle_identity.

(* ... so a late push / script through it changes only its own connection's map. *)
Theorem C10_late_use_frame : forall val rt vnet vfront (h h' : list (op val)) b sid o sid',
  bsid val h b = Some sid ->
  (o = OBackPush b \/ exists acts, o = OBackScript b acts) ->
  sid' <> sid ->
  fmap val rt vnet vfront ((h ++ h') ++ [o]) sid' = fmap val rt vnet vfront (h ++ h') sid'.
Proof. exact late_use_frame. Qed.
Print Assumptions C10_late_use_frame.

(* the hypothesis of C10_set_push_query is met by the concrete JSON values of the harness *)
Theorem C10_concrete_rt_idempotent : forall v, crt (crt v) = crt v.
Proof. exact crt_idem. Qed.
Print Assumptions C10_concrete_rt_idempotent.

(* non-vacuity on the harness configuration: two connections, bind + routing key on the front,
   a push that re-routes, a query from a second back-session, a removed connection *)
Example C10_example :
  model_run [OConnect 1; OConnect 2; OFrontSet 1 0 (VStr 7); OFrontSet 1 3 (VStr 1); OForward 1;
             OBackNew 1 1; OBackNew 2 1; OBackSet 1 4 (VInt 5); OBackSet 1 3 (VStr 2); OBackPush 1;
             OForward 1; OFrontGet 1 4; OBackQuery 2; OBackGet 2 4; OBackDump 2; ORemove 1;
             OBackSet 2 5 (VList [VInt 1]); OBackPush 2; OBackQuery 2; OFrontDump 2]
  = [BUnit; BUnit; BUnit; BUnit; BFwd 1 (VStr 7) (VStr 0) 1; BUnit; BUnit; BUnit; BUnit; BOk;
     BFwd 2 (VStr 7) (VStr 0) 1; BVal (Some (VNum 5)); BOk; BVal (Some (VNum 5));
     BMap [(0, VStr 7); (1, VNum 1); (2, VStr 0); (3, VStr 2); (4, VNum 5)];
     BClosed [(0, VStr 7); (1, VNum 1); (2, VStr 0); (3, VStr 2); (4, VNum 5)]; BUnit; BOk; BErr; BMap [(1, VNum 2); (2, VStr 0)]].
Proof. vm_compute. reflexivity. Qed.

(* closing window and kept sessions on the harness configuration: a login-like script kicks its
   connection, binds and pushes after the kick - the OnClose view has the uid; two connections'
   kept sessions stay apart *)
Example C10_example_window :
  model_run [OConnect 1; OConnect 2; OForwardKeep 1 1; OForwardKeep 2 2; OBackSet 1 4 (VInt 1); OBackPush 1;
             OBackScript 2 [AKick; ASet 0 (VStr 7); APush; AQuery]; OBackGet 2 0; OFrontDump 1; OFrontDump 2]
  = [BUnit; BUnit; BFwd 3 (VStr 9) (VStr 0) 1; BFwd 3 (VStr 9) (VStr 0) 2; BUnit; BOk;
     BAcksClosed [true; true] [(0, VStr 7); (1, VNum 2); (2, VStr 0)]; BVal (Some (VStr 7));
     BMap [(1, VNum 1); (2, VStr 0); (4, VNum 1)]; BIgnored].
Proof. vm_compute. reflexivity. Qed.

(* the hypotheses of C10_push_law / C10_query_full / C10_dead_session are met by reachable histories *)
(* two front-ends whose connection ids coincide (connections 1 and 101 are both connection "1" of
   their front-end): the forwarded envelope names the right front-end, sessions kept from
   notifications write to the right one *)
Example C10_example_two_fronts :
  model_run [OConnect 1; OConnect 101; OForward 1; OForward 101; OForwardKeepN 1 1; OForwardKeepN 101 2;
             OBackScript 2 [ASet 4 (VInt 7); APush; AQuery]; OBackGet 2 2; OFrontGet 1 4; OFrontGet 101 4;
             OBackScript 1 [AKick]; OFrontDump 1; OFrontDump 101]
  = [BUnit; BUnit; BFwdNone; BFwdNone; BUnit; BUnit; BAcks [true; true]; BVal (Some (VStr 10));
     BVal None; BVal (Some (VNum 7)); BAcksClosed [] [(1, VNum 1); (2, VStr 0)]; BIgnored;
     BMap [(1, VNum 101); (2, VStr 10); (4, VNum 7)]].
Proof. vm_compute. reflexivity. Qed.

(* a close callback that panics changes nothing: the removed connection is gone - a query of it
   reports an error, a push to it has no effect, the other connection is untouched *)
Example C10_example_panicking_hook :
  model_run [OConnect 1; OConnect 2; OFrontSet 1 4 (VInt 3); OBackNew 1 1; OBackNew 2 2; OFrontHook 1; ORemove 1;
             OBackQuery 1; OBackSet 1 5 (VInt 1); OBackPush 1; OBackQuery 1; OBackQuery 2; OFrontDump 1; OFrontDump 2; OFrontHook 1]
  = [BUnit; BUnit; BUnit; BUnit; BUnit; BUnit; BClosed [(1, VNum 1); (2, VStr 0); (4, VNum 3)];
     BErr; BUnit; BOk; BErr; BOk; BIgnored; BMap [(1, VNum 2); (2, VStr 0)]; BIgnored].
Proof. vm_compute. reflexivity. Qed.

Example C10_example_hyps :
  let h := [OConnect 1; OBackNew 1 1; OBackSet 1 4 (VInt 5)] in
  bsid cval h 1 = Some 1 /\ bdirty cval h 1 = true /\
  fmap cval crt VInt cfront h 1 = Some [(1, VInt 1); (2, VStr 0)] /\
  fmap cval crt VInt cfront (h ++ [ORemove 1]) 1 = None.
Proof. vm_compute. repeat split; reflexivity. Qed.
