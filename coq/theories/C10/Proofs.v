(* C10 - proofs: the model state after every history IS the history functions of Spec.v
   (refinement, by induction over operations); the algebra of key-by-key merging. *)
From Cell2V Require Import Common.Tac Common.ListX Common.AList C10.Model C10.Spec C10.Corr.

Lemma aget_aset_dec {V} (k k2 : Z) (v : V) m :
  aget k2 (aset k v m) = if Z.eqb k2 k then Some v else aget k2 m.
Proof.
  destruct (Z.eqb_spec k2 k).
  - subst. apply aget_aset_same.
  - apply aget_aset_other. exact n.
Qed.

Section Merge.
  Variable val : Type.
  Notation smap := (alist val).
  Notation merge_into := (merge_into val).

  Lemma merge_get (w : smap) : forall (m : smap) k,
    aget k (merge_into m w) = match aget k (rev w) with Some v => Some v | None => aget k m end.
  Proof.
    unfold Model.merge_into.
    induction w as [|[k0 v0] r IH]; intros m k; simpl; [reflexivity|].
    rewrite IH. clear IH.
    assert (G : forall (a : smap) x, aget k (a ++ [x]) =
                match aget k a with Some v => Some v | None => if Z.eqb k (fst x) then Some (snd x) else None end).
    { induction a as [|[ka va] a IH]; intros [kx vx]; simpl.
      - destruct (Z.eqb k kx); reflexivity.
      - destruct (Z.eqb k ka); [reflexivity | apply IH]. }
    rewrite G. simpl. destruct (aget k (rev r)); [reflexivity|].
    rewrite aget_aset_dec. destruct (Z.eqb k k0); reflexivity.
  Qed.

  (* on a map with distinct keys the order of the entries does not matter for lookups *)
  Lemma aget_rev_sorted (w : smap) k : sorted w -> aget k (rev w) = aget k w.
  Proof.
    intro S. destruct (aget k w) as [v|] eqn:E.
    - apply aget_in in E.
      assert (ND : NoDup (akeys (rev w))).
      { unfold akeys. rewrite map_rev. apply NoDup_rev. apply sorted_nodup_keys. exact S. }
      apply in_rev in E. revert ND E. generalize (rev w). intros l ND E.
      induction l as [|[k0 v0] l IH]; simpl in *; [tauto|]. inv ND.
      destruct E as [E|E].
      + inv E. rewrite Z.eqb_refl. reflexivity.
      + destruct (Z.eqb_spec k k0); [|auto]. subst. exfalso. apply H1.
        unfold akeys. change k0 with (fst (k0, v)). apply in_map. exact E.
    - destruct (aget k (rev w)) as [v|] eqn:E2; [|reflexivity].
      apply aget_in in E2. apply in_rev in E2. apply (in_aget _ _ _ S) in E2. congruence.
  Qed.

  Lemma sorted_merge (w : smap) : forall m : smap, sorted m -> sorted (merge_into m w).
  Proof.
    unfold Model.merge_into. induction w as [|[k v] r IH]; intros m S; simpl; [exact S|].
    apply IH. apply sorted_aset. exact S.
  Qed.

  (* the law of a merge: the written map wins per key, untouched keys persist *)
  Theorem merge_law (m w : smap) k : sorted w ->
    aget k (merge_into m w) = match aget k w with Some v => Some v | None => aget k m end.
  Proof. intro S. rewrite merge_get, aget_rev_sorted; [reflexivity | exact S]. Qed.

End Merge.

Section Proofs.
  Variable val : Type.
  Variable rt : val -> val.
  Variable vnet : Z -> val.
  Variable vfront : Z -> val.
  Variable vempty : val.
  Variable route : alist val -> option Z.
  Variable kinst : Z.
  Hypothesis rt_idem : forall v, rt (rt v) = rt v.


  Notation op := (op val).
  Notation st := (st val).
  Notation smap := (alist val).
  Notation norm := (norm val rt).
  Notation merge_into := (merge_into val).
  Notation init_map := (init_map val vnet vfront).
  Notation script_new := (script_new val).
  Notation script_dirty := (script_dirty val).
  Notation script_front := (script_front val rt).
  Notation script_snaps := (script_snaps val rt).
  Notation script_data := (script_data val).
  Notation script_acks := (script_acks val).
  Notation has_query := (has_query val).
  Notation has_kick := (has_kick val).
  Notation step := (step val rt vnet vfront vempty route kinst).
  Notation run_from := (run_from val rt vnet vfront vempty route kinst).
  Notation final := (final val rt vnet vfront vempty route kinst).
  Notation obs_at := (obs_at val rt vnet vfront vempty route kinst).
  Notation run := (run val rt vnet vfront vempty route kinst).
  Notation live := (live val).
  Notation conn_r := (conn_r val).
  Notation bsid_r := (bsid_r val).
  Notation bnew_r := (bnew_r val).
  Notation bdirty_r := (bdirty_r val).
  Notation fmap_r := (fmap_r val rt vnet vfront).
  Notation bdata_r := (bdata_r val rt vnet vfront vempty).
  Notation effective_push := (effective_push val rt).
  Notation fmap := (fmap val rt vnet vfront).
  Notation bsid := (bsid val).
  Notation bnew := (bnew val).
  Notation bdirty := (bdirty val).
  Notation bdata := (bdata val rt vnet vfront vempty).
  Notation conn_of := (conn_of val).
  Notation spec_obs := (spec_obs val rt vnet vfront vempty route kinst).
  Notation spec_run_from := (spec_run_from val rt vnet vfront vempty route kinst).
  Notation spec_run := (spec_run val rt vnet vfront vempty route kinst).
  Notation forward_spec := (forward_spec val rt vnet vfront vempty route).
  Notation writes_to := (writes_to val).

  (* ---------- normalisation ---------- *)

  Lemma sorted_norm (m : smap) : sorted m -> sorted (norm m).
  Proof.
    unfold Model.norm. induction m as [|[k v] r IH]; simpl; [tauto|]. intros [L S]. split; [|auto].
    clear IH S. induction r as [|[k2 v2] r IH]; simpl in *; [tauto|]. destruct L. split; auto.
  Qed.

  Lemma aget_norm (m : smap) k : aget k (norm m) = option_map rt (aget k m).
  Proof.
    unfold Model.norm. induction m as [|[k0 v0] r IH]; simpl; [reflexivity|].
    destruct (Z.eqb k k0); [reflexivity | exact IH].
  Qed.

  Lemma sorted_script_front acts : forall (m nw : smap) d, sorted m -> sorted (script_front m nw d acts).
  Proof.
    induction acts as [|a r IH]; intros m nw d S; simpl; [exact S|].
    destruct a as [k v| | |]; [apply IH; exact S | | apply IH; exact S | apply IH; exact S].
    destruct d; apply IH; [apply (sorted_merge val)|]; exact S.
  Qed.

  Lemma sorted_script_new acts : forall nw : smap, sorted nw -> sorted (script_new nw acts).
  Proof.
    induction acts as [|a r IH]; intros nw S; simpl; [exact S|].
    destruct a as [k v| | |]; apply IH; [apply sorted_aset|..]; exact S.
  Qed.

  (* ---------- consistency of the history functions ---------- *)

  Lemma fmap_live rh sid : conn_r rh sid = CLive <-> exists m, fmap_r rh sid = Some m.
  Proof.
    induction rh as [|o older IH]; simpl.
    - split; [discriminate | intros [m H]; discriminate].
    - destruct o as [s|s|s k v|s k|s|s|b s|b k v|b k|b|b|b|b acts|s b|s1|s b]; simpl; try exact IH.
      + destruct (Z.eqb s sid); [|exact IH].
        destruct (conn_r older sid) eqn:C; [split; eauto | exact IH | exact IH].
      + destruct (Z.eqb s sid); [|exact IH].
        destruct (conn_r older sid) eqn:C; split; try discriminate; intros [m H]; discriminate.
      + destruct (Z.eqb s sid); [|exact IH].
        destruct (fmap_r older sid) as [m|] eqn:F; simpl.
        * split; [eauto | intros _; apply IH; eauto].
        * split; [intro H; apply IH in H; destruct H; discriminate | intros [m H]; discriminate].
      + destruct (effective_push older b sid) as [w|]; [|exact IH].
        destruct (fmap_r older sid) as [m|] eqn:F; simpl.
        * split; [eauto | intros _; apply IH; eauto].
        * split; [intro H; apply IH in H; destruct H; discriminate | intros [m H]; discriminate].
      + destruct (bsid_r older b) as [sd|]; [|exact IH]. destruct (Z.eqb sd sid); simpl; [|exact IH].
        destruct (has_kick acts).
        * destruct (conn_r older sid); split; try discriminate; intros [m H]; discriminate.
        * destruct (fmap_r older sid) as [m|] eqn:F; simpl.
          -- split; [eauto | intros _; apply IH; eauto].
          -- split; [intro H; apply IH in H; destruct H; discriminate | intros [m H]; discriminate].
  Qed.

  Lemma fmap_sorted rh sid m : fmap_r rh sid = Some m -> sorted m.
  Proof.
    revert m. induction rh as [|o older IH]; intros m; simpl; [discriminate|].
    destruct o as [s|s|s k v|s k|s|s|b s|b k v|b k|b|b|b|b acts|s b|s1|s b]; simpl; try apply IH.
    - destruct (Z.eqb s sid); [|apply IH]. destruct (conn_r older sid); try apply IH.
      intro H. inv H. unfold Model.init_map. apply sorted_aset, sorted_aset. exact I.
    - destruct (Z.eqb s sid); [discriminate | apply IH].
    - destruct (Z.eqb s sid); [|apply IH]. destruct (fmap_r older sid) as [m0|]; simpl; [|discriminate].
      intro H. inv H. apply sorted_aset. apply IH. reflexivity.
    - destruct (effective_push older b sid) as [w|]; [|apply IH].
      destruct (fmap_r older sid) as [m0|]; simpl; [|discriminate].
      intro H. inv H. apply (sorted_merge val). apply IH. reflexivity.
    - destruct (bsid_r older b) as [sd|]; [|apply IH]. destruct (Z.eqb sd sid); [|apply IH].
      destruct (has_kick acts); [discriminate|].
      destruct (fmap_r older sid) as [m0|]; simpl; [|discriminate].
      intro H. inv H. apply sorted_script_front. apply IH. reflexivity.
  Qed.

  Lemma bnew_sorted rh b : sorted (bnew_r rh b).
  Proof.
    induction rh as [|o older IH]; simpl; [exact I|].
    destruct o as [s|s|s k v|s k|s|s|b0 s|b0 k v|b0 k|b0|b0|b0|b0 acts|s b0|s1|s b0]; simpl; try exact IH.
    - destruct (Z.eqb b0 b); [|exact IH]. destruct (bsid_r older b); [apply sorted_aset; exact IH | exact I].
    - destruct (Z.eqb b0 b); [|exact IH]. destruct (bsid_r older b); [apply sorted_script_new; exact IH | exact I].
  Qed.

  Lemma no_handle rh b :
    bsid_r rh b = None -> bnew_r rh b = [] /\ bdirty_r rh b = false /\ bdata_r rh b = [].
  Proof.
    induction rh as [|o older IH]; simpl; [auto|].
    destruct o as [s|s|s k v|s k|s|s|b0 s|b0 k v|b0 k|b0|b0|b0|b0 acts|s b0|s1|s b0]; simpl; try exact IH.
    - destruct (Z.eqb b0 b); [|exact IH].
      destruct (bsid_r older b) eqn:B; [discriminate|].
      destruct (conn_r older s); [|discriminate|discriminate]. intros _. destruct (IH eq_refl) as [N [D _]]. auto.
    - destruct (Z.eqb b0 b); [|exact IH]. intro H. rewrite H. destruct (IH H) as [_ [_ D]]. auto.
    - destruct (Z.eqb b0 b); [|exact IH]. intro H. destruct (IH H) as [N [_ D]]. auto.
    - destruct (Z.eqb b0 b); [|exact IH]. intro H. rewrite H. destruct (IH H) as [N [_ D]]. auto.
    - destruct (Z.eqb b0 b); [|exact IH]. intro H. rewrite H. auto.
    - destruct (Z.eqb b0 b); [|exact IH].
      destruct (bsid_r older b) eqn:B; [discriminate|].
      destruct (conn_r older s) eqn:C; try discriminate; intros _; destruct (IH eq_refl) as [N [D _]];
        (destruct (fmap_r older s) as [m|] eqn:F;
         [assert (X : conn_r older s = CLive) by (apply fmap_live; eauto); congruence | auto]).
    - destruct (Z.eqb b0 b); [|exact IH].
      destruct (bsid_r older b) eqn:B; [discriminate|].
      destruct (conn_r older s) eqn:C; try discriminate; intros _; destruct (IH eq_refl) as [N [D _]];
        (destruct (fmap_r older s) as [m|] eqn:F;
         [assert (X : conn_r older s = CLive) by (apply fmap_live; eauto); congruence | auto]).
  Qed.

  (* ---------- refinement ---------- *)

  Definition fstate_r (rh : list op) (sid : Z) : option (sess val) :=
    match conn_r rh sid with
    | CNone => None
    | CLive => match fmap_r rh sid with Some m => Some (Live m) | None => None end
    | CDead => Some Dead
    end.

  Definition bstate_r (rh : list op) (b : Z) : option (bsess val) :=
    match bsid_r rh b with
    | Some sid => Some (mkB val sid (bdata_r rh b) (bnew_r rh b) (bdirty_r rh b))
    | None => None
    end.

  Definition Rel (rh : list op) (s : st) : Prop :=
    (forall sid, aget sid (front val s) = fstate_r rh sid) /\
    (forall b, aget b (backs val s) = bstate_r rh b).

  Lemma rel_live rh s sid : Rel rh s -> live s sid = fmap_r rh sid.
  Proof.
    intros [RF _]. unfold Model.live. rewrite RF. unfold fstate_r.
    destruct (conn_r rh sid) eqn:C.
    - destruct (fmap_r rh sid) as [m|] eqn:F; [|reflexivity].
      assert (X : conn_r rh sid = CLive) by (apply fmap_live; eauto). congruence.
    - destruct (fmap_r rh sid); reflexivity.
    - destruct (fmap_r rh sid) as [m|] eqn:F; [|reflexivity].
      assert (X : conn_r rh sid = CLive) by (apply fmap_live; eauto). congruence.
  Qed.

  Lemma rel_conn_none rh s sid : Rel rh s -> (aget sid (front val s) = None <-> conn_r rh sid = CNone).
  Proof.
    intros [RF _]. rewrite RF. unfold fstate_r. destruct (conn_r rh sid) eqn:C.
    - tauto.
    - destruct (fmap_r rh sid) as [m|] eqn:F; [split; discriminate|].
      apply fmap_live in C. destruct C as [m C]. congruence.
    - split; discriminate.
  Qed.

  Ltac dz := repeat match goal with
    | |- context [Z.eqb ?a ?b] => destruct (Z.eqb_spec a b); subst; simpl
    end.

  Lemma rel_step rh s o : Rel rh s -> Rel (o :: rh) (fst (step s o)).
  Proof.
    intro R. assert (LV := fun sid => rel_live rh s sid R).
    assert (CN := fun sid => rel_conn_none rh s sid R).
    destruct R as [RF RB].
    destruct o as [s0|s0|s0 k v|s0 k|s0|s0|b0 s0|b0 k v|b0 k|b0|b0|b0|b0 acts|s0 b0|s1|s0 b0]; simpl.
    - (* OConnect *)
      destruct (aget s0 (front val s)) as [fs|] eqn:A; simpl.
      + split; [|exact RB]. intro sid. rewrite RF. unfold fstate_r. simpl.
        destruct (Z.eqb_spec s0 sid); [|reflexivity]. subst.
        rewrite RF in A. unfold fstate_r in A. destruct (conn_r rh sid); [discriminate | reflexivity | reflexivity].
      + split; [|exact RB]. intro sid. cbn [front backs]. rewrite aget_aset_dec. unfold fstate_r. simpl.
        destruct (Z.eqb_spec sid s0).
        * subst. rewrite Z.eqb_refl. apply CN in A. rewrite A. reflexivity.
        * destruct (Z.eqb_spec s0 sid); [congruence|]. rewrite RF. reflexivity.
    - (* ORemove *)
      rewrite LV. destruct (fmap_r rh s0) as [m|] eqn:F; simpl.
      + split; [|exact RB]. intro sid. cbn [front backs]. rewrite aget_aset_dec. unfold fstate_r. simpl.
        destruct (Z.eqb_spec sid s0).
        * subst. rewrite Z.eqb_refl.
          assert (C : conn_r rh s0 = CLive) by (apply fmap_live; eauto). rewrite C. reflexivity.
        * destruct (Z.eqb_spec s0 sid); [congruence|]. rewrite RF. reflexivity.
      + split; [|exact RB]. intro sid. rewrite RF. unfold fstate_r. simpl.
        destruct (Z.eqb_spec s0 sid); [|reflexivity]. subst.
        destruct (conn_r rh sid) eqn:C; try reflexivity.
        apply fmap_live in C. destruct C as [m C]. congruence.
    - (* OFrontSet *)
      rewrite LV. destruct (fmap_r rh s0) as [m|] eqn:F; simpl.
      + split; [|exact RB]. intro sid. cbn [front backs]. rewrite aget_aset_dec. unfold fstate_r. simpl.
        destruct (Z.eqb_spec sid s0).
        * subst. rewrite Z.eqb_refl, F. simpl.
          assert (C : conn_r rh s0 = CLive) by (apply fmap_live; eauto). rewrite C. reflexivity.
        * destruct (Z.eqb_spec s0 sid); [congruence|]. rewrite RF. reflexivity.
      + split; [|exact RB]. intro sid. rewrite RF. unfold fstate_r. simpl.
        destruct (Z.eqb_spec s0 sid); [|reflexivity]. subst. rewrite F. reflexivity.
    - (* OFrontGet *) rewrite LV. destruct (fmap_r rh s0); simpl; split; assumption.
    - (* OFrontDump *) rewrite LV. destruct (fmap_r rh s0); simpl; split; assumption.
    - (* OForward *) rewrite LV. destruct (fmap_r rh s0) as [m|]; simpl; [destruct (route m)|]; simpl; split; assumption.
    - (* OBackNew *)
      destruct (aget b0 (backs val s)) as [bs|] eqn:A; simpl.
      + split; [exact RF|]. intro b. rewrite RB. unfold bstate_r. simpl.
        destruct (Z.eqb_spec b0 b); [|reflexivity]. subst.
        rewrite RB in A. unfold bstate_r in A. destruct (bsid_r rh b); [reflexivity | discriminate].
      + rewrite RB in A. unfold bstate_r in A. destruct (bsid_r rh b0) eqn:BS; [discriminate|].
        destruct (aget s0 (front val s)) as [fs2|] eqn:A2; simpl.
        * split; [exact RF|]. intro b. cbn [front backs]. rewrite aget_aset_dec. unfold bstate_r. simpl.
          assert (C : conn_r rh s0 <> CNone).
          { intro C. apply CN in C. congruence. }
          destruct (Z.eqb_spec b b0).
          -- subst. rewrite Z.eqb_refl, BS. destruct (no_handle rh b0 BS) as [N1 [N2 _]]. rewrite N1, N2.
             destruct (conn_r rh s0); [congruence | reflexivity | reflexivity].
          -- destruct (Z.eqb_spec b0 b); [congruence|]. rewrite RB. reflexivity.
        * split; [exact RF|]. intro b. rewrite RB. unfold bstate_r. simpl.
          destruct (Z.eqb_spec b0 b); [|reflexivity]. subst. rewrite BS.
          apply CN in A2. rewrite A2. reflexivity.
    - (* OBackSet *)
      destruct (aget b0 (backs val s)) as [bs|] eqn:A; simpl.
      + split; [exact RF|]. intro b. cbn [front backs]. rewrite aget_aset_dec. unfold bstate_r. simpl.
        rewrite RB in A. unfold bstate_r in A. destruct (bsid_r rh b0) as [sd|] eqn:BS; [|discriminate]. inv A. simpl.
        destruct (Z.eqb_spec b b0).
        * subst. rewrite Z.eqb_refl, BS. reflexivity.
        * destruct (Z.eqb_spec b0 b); [congruence|]. rewrite RB. reflexivity.
      + split; [exact RF|]. intro b. rewrite RB. unfold bstate_r. simpl.
        destruct (Z.eqb_spec b0 b); [|reflexivity]. subst.
        rewrite RB in A. unfold bstate_r in A. destruct (bsid_r rh b); [discriminate | reflexivity].
    - (* OBackGet *) destruct (aget b0 (backs val s)) as [bs|]; simpl; split; assumption.
    - (* OBackDump *) destruct (aget b0 (backs val s)) as [bs|]; simpl; split; assumption.
    - (* OBackPush *)
      destruct (aget b0 (backs val s)) as [bs|] eqn:A; simpl.
      + rewrite RB in A. unfold bstate_r in A. destruct (bsid_r rh b0) as [sd|] eqn:BS; [|discriminate]. inv A. simpl.
        assert (BK : forall b (bk : alist (bsess val)),
                   (forall b', aget b' bk = if Z.eqb b' b0 then Some (mkB val sd (bdata_r rh b0) (bnew_r rh b0) false) else aget b' (backs val s)) ->
                   aget b bk = bstate_r (OBackPush b0 :: rh) b).
        { intros b bk H. rewrite H. unfold bstate_r. simpl. destruct (Z.eqb_spec b b0).
          - subst. rewrite Z.eqb_refl, BS. reflexivity.
          - destruct (Z.eqb_spec b0 b); [congruence|]. rewrite RB. reflexivity. }
        destruct (bdirty_r rh b0) eqn:D.
        * rewrite LV. destruct (fmap_r rh sd) as [m|] eqn:F; simpl.
          -- split.
             ++ intro sid. cbn [front backs]. rewrite aget_aset_dec. unfold fstate_r. simpl. unfold Spec.effective_push. rewrite BS, D.
                destruct (Z.eqb_spec sid sd).
                ** subst. rewrite Z.eqb_refl. simpl. rewrite F. simpl.
                   assert (C : conn_r rh sd = CLive) by (apply fmap_live; eauto). rewrite C. reflexivity.
                ** destruct (Z.eqb_spec sd sid); [congruence|]. simpl. rewrite RF. reflexivity.
             ++ intro b. apply BK. intro b'. apply aget_aset_dec.
          -- split.
             ++ intro sid. rewrite RF. unfold fstate_r. simpl. unfold Spec.effective_push. rewrite BS, D.
                destruct (Z.eqb_spec sd sid); simpl; [|reflexivity]. subst. rewrite F. reflexivity.
             ++ intro b. apply BK. intro b'. apply aget_aset_dec.
        * split.
          -- intro sid. rewrite RF. unfold fstate_r. simpl. unfold Spec.effective_push. rewrite BS, D, andb_false_r. reflexivity.
          -- intro b. unfold bstate_r. simpl. rewrite RB. unfold bstate_r.
             destruct (Z.eqb_spec b0 b); [|reflexivity]. subst. rewrite BS, D. reflexivity.
      + split.
        * intro sid. rewrite RF. unfold fstate_r. simpl. unfold Spec.effective_push.
          rewrite RB in A. unfold bstate_r in A. destruct (bsid_r rh b0); [discriminate | reflexivity].
        * intro b. rewrite RB. unfold bstate_r. simpl.
          destruct (Z.eqb_spec b0 b); [|reflexivity]. subst.
          rewrite RB in A. unfold bstate_r in A. destruct (bsid_r rh b); [discriminate | reflexivity].
    - (* OBackQuery *)
      destruct (aget b0 (backs val s)) as [bs|] eqn:A; simpl.
      + rewrite RB in A. unfold bstate_r in A. destruct (bsid_r rh b0) as [sd|] eqn:BS; [|discriminate]. inv A. simpl.
        rewrite LV. destruct (fmap_r rh sd) as [m|] eqn:F; simpl.
        * split; [exact RF|]. intro b. cbn [front backs]. rewrite aget_aset_dec. unfold bstate_r. simpl.
          destruct (Z.eqb_spec b b0).
          -- subst. rewrite Z.eqb_refl, BS, F. unfold Spec.live_r.
             assert (C : conn_r rh sd = CLive) by (apply fmap_live; eauto). rewrite C. reflexivity.
          -- destruct (Z.eqb_spec b0 b); [congruence|]. rewrite RB. reflexivity.
        * split; [exact RF|]. intro b. rewrite RB. unfold bstate_r. simpl.
          destruct (Z.eqb_spec b0 b); [|reflexivity]. subst. rewrite BS, F. unfold Spec.live_r.
          destruct (conn_r rh sd) eqn:C; try reflexivity.
          apply fmap_live in C. destruct C as [m C]. congruence.
      + split; [exact RF|]. intro b. rewrite RB. unfold bstate_r. simpl.
        destruct (Z.eqb_spec b0 b); [|reflexivity]. subst.
        rewrite RB in A. unfold bstate_r in A. destruct (bsid_r rh b); [discriminate | reflexivity].
    - (* OBackScript *)
      destruct (aget b0 (backs val s)) as [bs|] eqn:A; simpl.
      + rewrite RB in A. unfold bstate_r in A. destruct (bsid_r rh b0) as [sd|] eqn:BS; [|discriminate]. inv A. simpl.
        rewrite LV. destruct (fmap_r rh sd) as [m|] eqn:F; simpl.
        * assert (C : conn_r rh sd = CLive) by (apply fmap_live; eauto).
          split.
          -- intro sid. cbn [front backs]. rewrite aget_aset_dec. unfold fstate_r. simpl. rewrite BS.
             destruct (Z.eqb_spec sid sd).
             ++ subst. rewrite Z.eqb_refl, F. simpl. rewrite C. destruct (has_kick acts); reflexivity.
             ++ destruct (Z.eqb_spec sd sid); [congruence|]. simpl. rewrite RF. reflexivity.
          -- intro b. cbn [front backs]. rewrite aget_aset_dec. unfold bstate_r. simpl.
             destruct (Z.eqb_spec b b0).
             ++ subst. rewrite Z.eqb_refl, BS, F. unfold Spec.live_r. rewrite C. simpl. reflexivity.
             ++ destruct (Z.eqb_spec b0 b); [congruence|]. rewrite RB. reflexivity.
        * split.
          -- intro sid. cbn [front backs]. rewrite RF. unfold fstate_r. simpl. rewrite BS.
             destruct (Z.eqb_spec sd sid); simpl; [|reflexivity]. subst. rewrite F.
             destruct (has_kick acts); [|reflexivity].
             destruct (conn_r rh sid) eqn:C; try reflexivity.
             apply fmap_live in C. destruct C as [m C]. congruence.
          -- intro b. cbn [front backs]. rewrite aget_aset_dec. unfold bstate_r. simpl.
             destruct (Z.eqb_spec b b0).
             ++ subst. rewrite Z.eqb_refl, BS, F. unfold Spec.live_r.
                destruct (conn_r rh sd) eqn:C; try reflexivity.
                apply fmap_live in C. destruct C as [m C]. congruence.
             ++ destruct (Z.eqb_spec b0 b); [congruence|]. rewrite RB. reflexivity.
      + split.
        * intro sid. rewrite RF. unfold fstate_r. simpl.
          rewrite RB in A. unfold bstate_r in A. destruct (bsid_r rh b0); [discriminate | reflexivity].
        * intro b. rewrite RB. unfold bstate_r. simpl.
          destruct (Z.eqb_spec b0 b); [|reflexivity]. subst.
          rewrite RB in A. unfold bstate_r in A. destruct (bsid_r rh b); [discriminate | reflexivity].
    - (* OForwardKeepN *)
      rewrite LV. destruct (fmap_r rh s0) as [m|] eqn:F; simpl.
      + assert (C : conn_r rh s0 = CLive) by (apply fmap_live; eauto).
        destruct (aget b0 (backs val s)) as [bs|] eqn:A; simpl.
        * split; [exact RF|]. intro b. rewrite RB. unfold bstate_r. simpl.
          destruct (Z.eqb_spec b0 b); [|reflexivity]. subst.
          rewrite RB in A. unfold bstate_r in A. destruct (bsid_r rh b); [reflexivity | discriminate].
        * rewrite RB in A. unfold bstate_r in A. destruct (bsid_r rh b0) eqn:BS; [discriminate|].
          split; [exact RF|]. intro b. cbn [front backs]. rewrite aget_aset_dec. unfold bstate_r. simpl.
          destruct (Z.eqb_spec b b0).
          -- subst. rewrite Z.eqb_refl, BS, C, F. destruct (no_handle rh b0 BS) as [N1 [N2 _]]. rewrite N1, N2. reflexivity.
          -- destruct (Z.eqb_spec b0 b); [congruence|]. rewrite RB. reflexivity.
      + split; [exact RF|]. intro b. rewrite RB. unfold bstate_r. simpl.
        destruct (Z.eqb_spec b0 b); [|reflexivity]. subst.
        destruct (bsid_r rh b) eqn:BS; [reflexivity|].
        destruct (conn_r rh s0) eqn:C; try reflexivity.
        apply fmap_live in C. destruct C as [m C]. congruence.
    - (* OFrontHook *) rewrite LV. destruct (fmap_r rh s1); simpl; split; assumption.
    - (* OForwardKeep *)
      rewrite LV. destruct (fmap_r rh s0) as [m|] eqn:F; simpl.
      + assert (C : conn_r rh s0 = CLive) by (apply fmap_live; eauto).
        destruct (aget b0 (backs val s)) as [bs|] eqn:A; simpl.
        * split; [exact RF|]. intro b. rewrite RB. unfold bstate_r. simpl.
          destruct (Z.eqb_spec b0 b); [|reflexivity]. subst.
          rewrite RB in A. unfold bstate_r in A. destruct (bsid_r rh b); [reflexivity | discriminate].
        * rewrite RB in A. unfold bstate_r in A. destruct (bsid_r rh b0) eqn:BS; [discriminate|].
          split; [exact RF|]. intro b. cbn [front backs]. rewrite aget_aset_dec. unfold bstate_r. simpl.
          destruct (Z.eqb_spec b b0).
          -- subst. rewrite Z.eqb_refl, BS, C, F. destruct (no_handle rh b0 BS) as [N1 [N2 _]]. rewrite N1, N2. reflexivity.
          -- destruct (Z.eqb_spec b0 b); [congruence|]. rewrite RB. reflexivity.
      + split; [exact RF|]. intro b. rewrite RB. unfold bstate_r. simpl.
        destruct (Z.eqb_spec b0 b); [|reflexivity]. subst.
        destruct (bsid_r rh b) eqn:BS; [reflexivity|].
        destruct (conn_r rh s0) eqn:C; try reflexivity.
        apply fmap_live in C. destruct C as [m C]. congruence.
  Qed.

  Lemma run_from_app a : forall s b,
    run_from s (a ++ b) =
    (fst (run_from (fst (run_from s a)) b), snd (run_from s a) ++ snd (run_from (fst (run_from s a)) b)).
  Proof.
    induction a as [|o r IH]; intros s b; simpl.
    - destruct (run_from s b); reflexivity.
    - destruct (step s o) as [s1 x] eqn:E. rewrite IH.
      destruct (run_from s1 r) as [s2 xs]. simpl.
      destruct (run_from s2 b); reflexivity.
  Qed.

  Lemma final_snoc h o : final (h ++ [o]) = fst (step (final h) o).
  Proof.
    unfold Model.final. rewrite run_from_app. simpl.
    destruct (step (fst (run_from (init val) h)) o); reflexivity.
  Qed.

  Theorem rel_run h : Rel (rev h) (final h).
  Proof.
    induction h as [|o r IH] using rev_ind.
    - split; intros; reflexivity.
    - rewrite final_snoc, rev_unit. apply rel_step. exact IH.
  Qed.

  (* ---------- the theorems ---------- *)

  Theorem refines_map h sid : live (final h) sid = fmap h sid.
  Proof. apply rel_live. apply rel_run. Qed.

  Theorem front_entry h sid :
    aget sid (front val (final h)) =
    match conn_of h sid with
    | CNone => None
    | CLive => match fmap h sid with Some m => Some (Live m) | None => None end
    | CDead => Some Dead
    end.
  Proof. destruct (rel_run h) as [RF _]. apply RF. Qed.

  Theorem back_entry h b :
    aget b (backs val (final h)) = bsess_of val rt vnet vfront vempty h b.
  Proof. destruct (rel_run h) as [_ RB]. apply RB. Qed.

  Theorem obs_spec h o : obs_at h o = spec_obs h o.
  Proof.
    unfold Model.obs_at. assert (R := rel_run h).
    assert (LV := fun sid => rel_live (rev h) (final h) sid R).
    assert (CN := fun sid => rel_conn_none (rev h) (final h) sid R).
    destruct R as [RF RB]. unfold Spec.spec_obs, Spec.forward_spec, Spec.fmap, Spec.bsid, Spec.conn_of, Spec.bnew, Spec.bdata.
    destruct o as [s0|s0|s0 k v|s0 k|s0|s0|b0 s0|b0 k v|b0 k|b0|b0|b0|b0 acts|s0 b0|s1|s0 b0]; simpl.
    - destruct (aget s0 (front val (final h))) as [fs|] eqn:A.
      + simpl. destruct (conn_r (rev h) s0) eqn:C; [|reflexivity|reflexivity].
        apply CN in C. congruence.
      + simpl. apply CN in A. rewrite A. reflexivity.
    - rewrite LV. destruct (fmap_r (rev h) s0); reflexivity.
    - rewrite LV. destruct (fmap_r (rev h) s0); reflexivity.
    - rewrite LV. destruct (fmap_r (rev h) s0); reflexivity.
    - rewrite LV. destruct (fmap_r (rev h) s0); reflexivity.
    - rewrite LV. destruct (fmap_r (rev h) s0) as [m|]; [destruct (route m)|]; reflexivity.
    - rewrite RB. unfold bstate_r. destruct (bsid_r (rev h) b0); [reflexivity|].
      destruct (aget s0 (front val (final h))) as [fs|] eqn:A; simpl.
      + destruct (conn_r (rev h) s0) eqn:C; [|reflexivity|reflexivity]. apply CN in C. congruence.
      + apply CN in A. rewrite A. reflexivity.
    - rewrite RB. unfold bstate_r. destruct (bsid_r (rev h) b0); reflexivity.
    - rewrite RB. unfold bstate_r. destruct (bsid_r (rev h) b0); reflexivity.
    - rewrite RB. unfold bstate_r. destruct (bsid_r (rev h) b0); reflexivity.
    - rewrite RB. unfold bstate_r. destruct (bsid_r (rev h) b0) as [sd|]; [|reflexivity]. simpl.
      destruct (bdirty_r (rev h) b0); [|reflexivity]. rewrite LV. destruct (fmap_r (rev h) sd); reflexivity.
    - rewrite RB. unfold bstate_r. destruct (bsid_r (rev h) b0) as [sd|]; [|reflexivity]. simpl.
      rewrite LV. destruct (fmap_r (rev h) sd); reflexivity.
    - rewrite RB. unfold bstate_r. destruct (bsid_r (rev h) b0) as [sd|]; [|reflexivity]. simpl.
      rewrite LV. destruct (fmap_r (rev h) sd); [destruct (has_kick acts)|]; reflexivity.
    - rewrite LV. destruct (fmap_r (rev h) s0); reflexivity.
    - rewrite LV. destruct (fmap_r (rev h) s1); reflexivity.
    - rewrite LV. destruct (fmap_r (rev h) s0); reflexivity.
  Qed.

  Lemma run_from_snd s ops :
    snd (run_from s ops) =
    match ops with [] => [] | o :: r => snd (step s o) :: snd (run_from (fst (step s o)) r) end.
  Proof.
    destruct ops as [|o r]; simpl; [reflexivity|].
    destruct (step s o) as [s1 x]. simpl. destruct (run_from s1 r). reflexivity.
  Qed.

  Theorem run_spec ops : run ops = spec_run ops.
  Proof.
    unfold Model.run, Spec.spec_run.
    assert (G : forall r h, snd (run_from (final h) r) = spec_run_from h r).
    { induction r as [|o r IH]; intro h; [reflexivity|].
      rewrite run_from_snd. simpl. f_equal.
      - apply obs_spec.
      - rewrite <- final_snoc. apply IH. }
    apply (G ops []).
  Qed.

  Lemma fmap_snoc h o sid : fmap (h ++ [o]) sid = fmap_r (o :: rev h) sid.
  Proof. unfold Spec.fmap. rewrite rev_unit. reflexivity. Qed.

  (* an effective push: per key the pushed (normalised) value wins, other keys persist *)
  Theorem push_law h b sid m :
    bsid h b = Some sid -> bdirty h b = true -> fmap h sid = Some m ->
    exists m', fmap (h ++ [OBackPush b]) sid = Some m' /\
      forall k, aget k m' = match aget k (bnew h b) with Some v => Some (rt v) | None => aget k m end.
  Proof.
    unfold Spec.bsid, Spec.bdirty, Spec.bnew. intros BS D F. rewrite fmap_snoc. simpl.
    unfold Spec.effective_push. rewrite BS, D, Z.eqb_refl. simpl. unfold Spec.fmap in F. rewrite F. simpl.
    eexists. split; [reflexivity|]. intro k.
    rewrite (merge_law val); [|apply sorted_norm, bnew_sorted]. rewrite aget_norm.
    destruct (aget k (bnew_r (rev h) b)); reflexivity.
  Qed.

  (* a push without anything set since the last push / query sends nothing *)
  Theorem push_clean h b sid' : bdirty h b = false -> fmap (h ++ [OBackPush b]) sid' = fmap h sid'.
  Proof.
    unfold Spec.bdirty. intro D. rewrite fmap_snoc. simpl. unfold Spec.effective_push.
    destruct (bsid_r (rev h) b); [|reflexivity]. rewrite D, andb_false_r. reflexivity.
  Qed.

  (* frame: an operation changes only the map of the connection it writes to *)
  Theorem frame h o sid : writes_to h o <> Some sid -> fmap (h ++ [o]) sid = fmap h sid.
  Proof.
    intro N. rewrite fmap_snoc. unfold Spec.fmap.
    destruct o as [s0|s0|s0 k v|s0 k|s0|s0|b0 s0|b0 k v|b0 k|b0|b0|b0|b0 acts|s0 b0|s1|s0 b0]; simpl in *; try reflexivity.
    - destruct (Z.eqb_spec s0 sid); [congruence | reflexivity].
    - destruct (Z.eqb_spec s0 sid); [congruence | reflexivity].
    - destruct (Z.eqb_spec s0 sid); [congruence | reflexivity].
    - unfold Spec.effective_push, Spec.bsid in *. destruct (bsid_r (rev h) b0) as [sd|]; [|reflexivity].
      destruct (Z.eqb_spec sd sid); [congruence | reflexivity].
    - unfold Spec.bsid in *. destruct (bsid_r (rev h) b0) as [sd|]; [|reflexivity].
      destruct (Z.eqb_spec sd sid); [congruence | reflexivity].
  Qed.

  Lemma bdata_snoc h o b : bdata (h ++ [o]) b = bdata_r (o :: rev h) b.
  Proof. unfold Spec.bdata. rewrite rev_unit. reflexivity. Qed.

  (* a query returns the whole current map (normalised), key by key *)
  Theorem query_law h b sid m :
    bsid h b = Some sid -> fmap h sid = Some m ->
    obs_at h (OBackQuery b) = BOk /\
    forall k, aget k (bdata (h ++ [OBackQuery b]) b) =
              match aget k m with Some v => Some (rt v) | None => aget k (bdata h b) end.
  Proof.
    intros BS F. split.
    - rewrite obs_spec. simpl. rewrite BS, F. reflexivity.
    - intro k. rewrite bdata_snoc. simpl. unfold Spec.bsid, Spec.fmap in *. rewrite Z.eqb_refl, BS, F.
      rewrite (merge_law val); [|apply sorted_norm; eapply fmap_sorted; eauto]. rewrite aget_norm.
      destruct (aget k m); reflexivity.
  Qed.

  (* what a handler then reads: its own unpushed value if it set one, else the queried one *)
  Theorem get_after_query h b sid m k :
    bsid h b = Some sid -> fmap h sid = Some m ->
    obs_at (h ++ [OBackQuery b]) (OBackGet b k) =
    BVal (match aget k (bnew h b) with
          | Some v => Some v
          | None => match aget k m with Some v => Some (rt v) | None => aget k (bdata h b) end
          end).
  Proof.
    intros BS F. rewrite obs_spec. simpl.
    destruct (query_law h b sid m BS F) as [_ Q].
    unfold Spec.bsid, Spec.bnew in *. rewrite rev_unit. simpl. rewrite BS.
    change (bdata_r (rev (h ++ [OBackQuery b])) b) with (bdata (h ++ [OBackQuery b]) b).
    rewrite Q. reflexivity.
  Qed.

  (* every forwarded request: instance chosen by the route function from the CURRENT map;
     envelope = currently bound id, the front's name, the connection id *)
  Theorem forward_stamp h sid : obs_at h (OForward sid) = forward_spec h sid.
  Proof. rewrite obs_spec. reflexivity. Qed.

  (* a connection that is not live: pushes change nothing anywhere and report no error,
     queries report an error and change nothing *)
  Theorem dead_session h b sid :
    bsid h b = Some sid -> fmap h sid = None ->
    (forall sid', fmap (h ++ [OBackPush b]) sid' = fmap h sid') /\
    obs_at h (OBackPush b) = BOk /\
    obs_at h (OBackQuery b) = BErr /\
    (forall sid', fmap (h ++ [OBackQuery b]) sid' = fmap h sid') /\
    bdata (h ++ [OBackQuery b]) b = bdata h b /\
    bdirty (h ++ [OBackQuery b]) b = bdirty h b.
  Proof.
    intros BS F. repeat split.
    - intro sid'. rewrite fmap_snoc. simpl. unfold Spec.effective_push, Spec.bsid, Spec.fmap in *. rewrite BS.
      destruct (Z.eqb_spec sid sid'); [|reflexivity]. subst. simpl.
      destruct (bdirty_r (rev h) b); [|reflexivity]. rewrite F. reflexivity.
    - rewrite obs_spec. simpl. rewrite BS. reflexivity.
    - rewrite obs_spec. simpl. rewrite BS, F. reflexivity.
    - intro sid'. apply frame. simpl. discriminate.
    - rewrite bdata_snoc. simpl. unfold Spec.bsid, Spec.fmap in *. rewrite Z.eqb_refl, BS, F. reflexivity.
    - unfold Spec.bdirty. rewrite rev_unit. simpl. unfold Spec.bsid, Spec.fmap in *. rewrite Z.eqb_refl, BS.
      unfold Spec.live_r. destruct (conn_r (rev h) sid) eqn:C; try reflexivity.
      apply fmap_live in C. destruct C as [m C]. congruence.
  Qed.

  (* set on one back-end, pushed, queried from another: the normal form of the value *)
  Theorem set_push_query h b b2 sid m k v :
    bsid h b = Some sid -> bsid h b2 = Some sid -> fmap h sid = Some m ->
    aget k (bdata (h ++ [OBackSet b k v; OBackPush b; OBackQuery b2]) b2) = Some (rt v).
  Proof.
    intros B1 B2 F.
    assert (E : h ++ [OBackSet b k v; OBackPush b; OBackQuery b2] = ((h ++ [OBackSet b k v]) ++ [OBackPush b]) ++ [OBackQuery b2]).
    { rewrite <- !app_assoc. reflexivity. }
    rewrite E. set (h1 := h ++ [OBackSet b k v]).
    assert (B1' : bsid h1 b = Some sid) by (unfold h1, Spec.bsid in *; rewrite rev_unit; simpl; exact B1).
    assert (D1 : bdirty h1 b = true).
    { unfold h1, Spec.bdirty, Spec.bsid in *. rewrite rev_unit. simpl. rewrite Z.eqb_refl, B1. reflexivity. }
    assert (F1 : fmap h1 sid = Some m) by (unfold h1; rewrite frame; [exact F | simpl; discriminate]).
    assert (N1 : aget k (bnew h1 b) = Some v).
    { unfold h1, Spec.bnew, Spec.bsid in *. rewrite rev_unit. simpl. rewrite Z.eqb_refl, B1. apply aget_aset_same. }
    destruct (push_law h1 b sid m B1' D1 F1) as [m' [F2 L]].
    assert (B2' : bsid (h1 ++ [OBackPush b]) b2 = Some sid).
    { unfold h1, Spec.bsid in *. rewrite !rev_unit. simpl. exact B2. }
    destruct (query_law _ b2 sid m' B2' F2) as [_ Q]. rewrite Q, L, N1. rewrite rt_idem. reflexivity.
  Qed.

  (* ---------- pipelined scripts ---------- *)

  Notation set_in := (set_in val).

  Lemma script_new_keeps acts : forall (nw : smap) k, aget k nw <> None -> aget k (script_new nw acts) <> None.
  Proof.
    induction acts as [|a r IH]; intros nw k H; simpl; [exact H|].
    destruct a as [k0 v| | |]; apply IH; [|exact H|exact H|exact H].
    rewrite aget_aset_dec. destruct (Z.eqb k k0); [discriminate | exact H].
  Qed.

  (* while a script runs: either the session is dirty (the next push will carry everything),
     or every key of interest already has, on the front-end, the normal form of its NewData value *)
  Lemma script_inv acts : forall (m nw : smap) d (P : Z -> Prop),
    sorted nw ->
    (d = true \/ forall k, P k -> aget k m = option_map rt (aget k nw)) ->
    (forall k, P k -> aget k nw <> None) ->
    script_dirty d acts = true \/
    forall k, (P k \/ set_in k acts = true) ->
              aget k (script_front m nw d acts) = option_map rt (aget k (script_new nw acts)).
  Proof.
    induction acts as [|a r IH]; intros m nw d P S H K; simpl.
    - destruct H as [H|H]; [left; exact H | right]. intros k [PK|F]; [apply H; exact PK | discriminate].
    - destruct a as [k0 v| | |].
      + destruct (IH m (aset k0 v nw) true (fun k => P k \/ k = k0) (sorted_aset _ _ _ S)) as [D|R].
        * left. reflexivity.
        * intros k [PK|E]; rewrite aget_aset_dec; destruct (Z.eqb_spec k k0); try discriminate; [apply K; exact PK | congruence].
        * left. exact D.
        * right. intros k [PK|SK]; apply R; [tauto|].
          apply orb_true_iff in SK. destruct SK as [SK|SK]; [apply Z.eqb_eq in SK; tauto | tauto].
      + destruct d.
        * apply (IH (merge_into m (norm nw)) nw false P S); [|exact K].
          right. intros k PK. rewrite (merge_law val); [|apply sorted_norm; exact S]. rewrite aget_norm.
          specialize (K k PK). destruct (aget k nw); [reflexivity | contradiction].
        * apply (IH m nw false P S); [|exact K]. destruct H as [H|H]; [discriminate | right; exact H].
      + apply (IH m nw d P S H K).
      + apply (IH m nw d P S H K).
  Qed.

  Lemma script_new_set acts : forall (nw : smap) k, set_in k acts = true -> aget k (script_new nw acts) <> None.
  Proof.
    induction acts as [|a r IH]; intros nw k H; simpl in *; [discriminate|].
    destruct a as [k0 v| | |]; simpl in H; try (apply IH; exact H).
    apply orb_true_iff in H. destruct H as [H|H]; [|apply IH; exact H].
    apply Z.eqb_eq in H. subst. apply script_new_keeps. rewrite aget_aset_same. discriminate.
  Qed.

  (* A handler that sets and pushes WITHOUT waiting for acknowledgements, in any order, and
     finally pushes once more: every key it set has, on the front-end, the normal form of the
     last value it set - nothing set between a push and its acknowledgement is lost. *)
  Theorem script_then_push h b sid m acts :
    bsid h b = Some sid -> fmap h sid = Some m -> has_query acts = false -> has_kick acts = false ->
    exists m', fmap ((h ++ [OBackScript b acts]) ++ [OBackPush b]) sid = Some m' /\
      forall k, set_in k acts = true ->
        exists v, aget k (bnew ((h ++ [OBackScript b acts]) ++ [OBackPush b]) b) = Some v /\
                  aget k m' = Some (rt v).
  Proof.
    unfold Spec.bsid, Spec.fmap, Spec.bnew. intros BS F HQ HK. rewrite !rev_unit. simpl.
    unfold Spec.effective_push. simpl. rewrite Z.eqb_refl, BS, Z.eqb_refl, F, HQ, HK, andb_false_r. simpl.
    set (nw := bnew_r (rev h) b). set (d := bdirty_r (rev h) b).
    assert (SN : sorted nw) by apply bnew_sorted.
    destruct (script_inv acts m nw d (fun _ => False) SN) as [D|R].
    - right. intros k [].
    - intros k [].
    - rewrite D. simpl. eexists. split; [reflexivity|]. intros k SK.
      assert (NN := script_new_set acts nw k SK).
      destruct (aget k (script_new nw acts)) as [v|] eqn:E; [|contradiction].
      exists v. split; [reflexivity|].
      rewrite (merge_law val); [|apply sorted_norm, sorted_script_new; exact SN]. rewrite aget_norm, E. reflexivity.
    - destruct (script_dirty d acts) eqn:DD; simpl; (eexists; split; [reflexivity|]); intros k SK;
        assert (NN := script_new_set acts nw k SK);
        destruct (aget k (script_new nw acts)) as [v|] eqn:E; try contradiction; exists v; (split; [reflexivity|]).
      + rewrite (merge_law val); [|apply sorted_norm, sorted_script_new; exact SN]. rewrite aget_norm, E. reflexivity.
      + rewrite (R k (or_intror SK)), E. reflexivity.
  Qed.


  (* ---------- the closing window ---------- *)

  Definition no_kicks (acts : list (act val)) : list (act val) :=
    filter (fun a => negb (is_kick val a)) acts.

  (* a kick anywhere in a script changes neither what its pushes merge into the front-end's
     map nor what its queries return: the session is fully there until it is removed *)
  Lemma kick_transparent acts : forall (m nw : smap) d,
    script_front m nw d acts = script_front m nw d (no_kicks acts) /\
    script_snaps m nw d acts = script_snaps m nw d (no_kicks acts).
  Proof.
    induction acts as [|a r IH]; intros m nw d; simpl; [auto|].
    destruct a as [k v| | |]; simpl; try apply IH.
    - destruct d; apply IH.
    - destruct (IH m nw d) as [A B]. rewrite A, B. auto.
  Qed.

  Theorem closing_window h b sid m acts :
    bsid h b = Some sid -> fmap h sid = Some m -> has_kick acts = true ->
    obs_at h (OBackScript b acts) =
      BAcksClosed (script_acks true acts) (norm (script_front m (bnew h b) (bdirty h b) (no_kicks acts))) /\
    fmap (h ++ [OBackScript b acts]) sid = None /\
    bdata (h ++ [OBackScript b acts]) b =
      script_data (bdata h b) (script_snaps m (bnew h b) (bdirty h b) (no_kicks acts)).
  Proof.
    intros BS F HK. split; [|split].
    - rewrite obs_spec. simpl. rewrite BS, F, HK.
      destruct (kick_transparent acts m (bnew h b) (bdirty h b)) as [A _]. rewrite A. reflexivity.
    - rewrite fmap_snoc. simpl. unfold Spec.bsid in BS. rewrite BS, Z.eqb_refl, HK. reflexivity.
    - rewrite bdata_snoc. simpl. unfold Spec.bsid, Spec.fmap in *. rewrite Z.eqb_refl, BS, F.
      destruct (kick_transparent acts m (bnew_r (rev h) b) (bdirty_r (rev h) b)) as [_ B].
      unfold Spec.bnew, Spec.bdirty, Spec.bdata. rewrite B. reflexivity.
  Qed.

  Theorem onclose_view h sid m :
    fmap h sid = Some m -> obs_at h (ORemove sid) = BClosed (norm m).
  Proof. intro F. rewrite obs_spec. simpl. rewrite F. reflexivity. Qed.

  (* ---------- a handle addresses its own connection for as long as it is used ---------- *)

  Lemma bsid_step rh o b s : bsid_r rh b = Some s -> bsid_r (o :: rh) b = Some s.
  Proof.
    intro H. destruct o as [s0|s0|s0 k v|s0 k|s0|s0|b0 s0|b0 k v|b0 k|b0|b0|b0|b0 acts|s0 b0|s1|s0 b0]; simpl; try exact H.
    - destruct (Z.eqb b0 b); [|exact H]. rewrite H. reflexivity.
    - destruct (Z.eqb b0 b); [|exact H]. rewrite H. reflexivity.
    - destruct (Z.eqb b0 b); [|exact H]. rewrite H. reflexivity.
  Qed.

  Theorem handle_identity h h' b s : bsid h b = Some s -> bsid (h ++ h') b = Some s.
  Proof.
    unfold Spec.bsid. intro H. induction h' as [|o r IH] using rev_ind.
    - rewrite app_nil_r. exact H.
    - rewrite app_assoc, rev_unit. apply bsid_step. exact IH.
  Qed.

  (* the session a handler kept from a forwarded request of [sid] belongs to [sid] *)
  Theorem kept_session h sid b m :
    fmap h sid = Some m -> bsid h b = None ->
    bsid (h ++ [OForwardKeep sid b]) b = Some sid /\
    bdata (h ++ [OForwardKeep sid b]) b = aset k_id (id_of val vempty m) [].
  Proof.
    intros F B. unfold Spec.bsid, Spec.fmap in *. split.
    - rewrite rev_unit. simpl. rewrite Z.eqb_refl, B.
      assert (C : conn_r (rev h) sid = CLive) by (apply fmap_live; eauto). rewrite C. reflexivity.
    - rewrite bdata_snoc. simpl. rewrite Z.eqb_refl, B, F. reflexivity.
  Qed.

  (* the same when the handler was reached by a forwarded NOTIFICATION: nothing is answered,
     and the kept session is the notifying connection's, with the same contents *)
  Theorem kept_session_notify h sid b m :
    fmap h sid = Some m -> bsid h b = None ->
    obs_at h (OForwardKeepN sid b) = BUnit /\
    bsess_of val rt vnet vfront vempty (h ++ [OForwardKeepN sid b]) b =
    bsess_of val rt vnet vfront vempty (h ++ [OForwardKeep sid b]) b.
  Proof.
    intros F B. split.
    - rewrite obs_spec. simpl. rewrite F. reflexivity.
    - unfold Spec.bsess_of, Spec.bsid, Spec.bdata, Spec.bnew, Spec.bdirty. rewrite !rev_unit. reflexivity.
  Qed.

  (* ... and it stays so: replacing, anywhere in a history, notifications by requests changes
     neither any connection's map nor any handle's session, ever after *)
  Definition as_request (o : op) : op :=
    match o with OForwardKeepN s b => OForwardKeep s b | _ => o end.

  Lemma as_request_ids rh :
    (forall sid, conn_r (map as_request rh) sid = conn_r rh sid) /\
    (forall b, bsid_r (map as_request rh) b = bsid_r rh b).
  Proof.
    induction rh as [|o older [IC IB]]; [split; reflexivity|].
    split; intro x; destruct o; simpl; rewrite ?IC, ?IB; reflexivity.
  Qed.

  Lemma as_request_maps rh :
    (forall b, bnew_r (map as_request rh) b = bnew_r rh b) /\
    (forall b, bdirty_r (map as_request rh) b = bdirty_r rh b) /\
    (forall sid, fmap_r (map as_request rh) sid = fmap_r rh sid) /\
    (forall b, bdata_r (map as_request rh) b = bdata_r rh b).
  Proof.
    induction rh as [|o older [IN [ID [IF IA]]]]; [repeat split; reflexivity|].
    destruct (as_request_ids older) as [IC IB].
    repeat split; intro x; destruct o; simpl; unfold Spec.effective_push, Spec.live_r;
      rewrite ?IC, ?IB, ?IN, ?ID, ?IF, ?IA; try reflexivity;
      repeat match goal with
             | |- context [match bsid_r older ?b with _ => _ end] => destruct (bsid_r older b)
             end; rewrite ?IC, ?IB, ?IN, ?ID, ?IF, ?IA; reflexivity.
  Qed.

  Theorem notify_as_request h :
    (forall sid, fmap (map as_request h) sid = fmap h sid) /\
    (forall b, bsess_of val rt vnet vfront vempty (map as_request h) b = bsess_of val rt vnet vfront vempty h b).
  Proof.
    unfold Spec.bsess_of, Spec.fmap, Spec.bsid, Spec.bdata, Spec.bnew, Spec.bdirty. rewrite <- map_rev.
    destruct (as_request_ids (rev h)) as [IC IB]. destruct (as_request_maps (rev h)) as [IN [ID [IF IA]]].
    split; intro x; rewrite ?IB, ?IN, ?ID, ?IF, ?IA; reflexivity.
  Qed.

  (* whatever it does later through that session changes only that connection's map *)
  Theorem late_use_frame h h' b sid o sid' :
    bsid h b = Some sid ->
    (o = OBackPush b \/ exists acts, o = OBackScript b acts) ->
    sid' <> sid ->
    fmap ((h ++ h') ++ [o]) sid' = fmap (h ++ h') sid'.
  Proof.
    intros B O N. apply frame. assert (X := handle_identity h h' b sid B).
    destruct O as [O|[acts O]]; subst o; simpl; rewrite X; congruence.
  Qed.

End Proofs.

(* the concrete JSON normalisation of Corr.v is idempotent *)
Lemma crt_idem : forall v, crt (crt v) = crt v.
Proof.
  fix IH 1. intro v. destruct v as [z|z|t|b| |l|]; simpl; try reflexivity.
  f_equal. induction l as [|x r IHl]; simpl; [reflexivity|]. rewrite IH, IHl. reflexivity.
Qed.
