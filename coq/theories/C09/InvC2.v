From Cell2V Require Import Common.Tac Common.ListX C09.Model C09.Spec C09.Lemmas.

Lemma inv_c_CR2 s s' : Inv s -> cpc_ s = CR2 -> consumer_step s = Some s' -> Inv s'.
Proof.
  intros [Iu Is Ip Ir Id K1 K2 K3 W] Epc Hs. unfold consumer_step in Hs. rewrite Epc in Hs.
    destruct (sq s) as [|[[o m] lk] r] eqn:Eq; [inv Hs; constructor; unf; proj; rewrite ?Epc, ?Eq in *; fin|].
    destruct lk; inv Hs; [|constructor; unf; proj; rewrite ?Epc, ?Eq in *; fin].
    destruct m; constructor; unf; proj; rewrite ?Epc, ?Eq in *; fin.
Qed.

