(* C09 - the property, as statements over reachable states of the interleaving model.
   Counting functions make every invariant linear arithmetic. No proofs here. *)
From Cell2V Require Import Common.Tac Common.ListX C09.Model.

Definition b2z (b : bool) : Z := if b then 1 else 0.

Fixpoint cnt {A} (f : A -> bool) (l : list A) : Z :=
  match l with [] => 0 | x :: r => b2z (f x) + cnt f r end.

Definition ppc_eqb (a b : ppc) : bool :=
  match a, b with
  | PReady, PReady | PUInc, PUInc | PSLink, PSLink | PSInc, PSInc
  | PS1, PS1 | PS2, PS2 | PS3, PS3 => true
  | _, _ => false
  end.

Definition cpc_eqb (a b : cpc) : bool :=
  match a, b with
  | CIdle, CIdle | CR1, CR1 | CBP, CBP | CR2, CR2 | CR3, CR3 | CR4, CR4 | CE1, CE1
  | CE2, CE2 | CE3, CE3 | CE4, CE4 | CE5, CE5 | CS1, CS1 | CS2, CS2 | CS3, CS3 => true
  | _, _ => false
  end.

Definition tpc_eqb (a b : tpc) : bool :=
  match a, b with
  | T1, T1 | T2, T2 | TS1, TS1 | TS2, TS2 | TS3, TS3 | TDone, TDone => true
  | _, _ => false
  end.

Definition nP (s : st) (c : ppc) : Z := cnt (fun p => ppc_eqb (ppc_ p) c) (posters s).
Definition nT (s : st) (c : tpc) : Z := cnt (fun t => tpc_eqb t c) (pauses s).
Definition cat (s : st) (c : cpc) : Z := b2z (cpc_eqb (cpc_ s) c).

(* threads inside schedule() *)
Definition inSched (s : st) : Z :=
  nP s PS1 + nP s PS2 + nP s PS3 + nT s TS1 + nT s TS2 + nT s TS3 + cat s CS1 + cat s CS2 + cat s CS3.
(* threads that won the CAS and have not yet handed the task to the dispatcher *)
Definition nS3 (s : st) : Z := nP s PS3 + nT s TS3 + cat s CS3.
(* the consumer is inside run() or about to store idle *)
Definition active (s : st) : Z :=
  cat s CR1 + cat s CBP + cat s CR2 + cat s CR3 + cat s CR4 + cat s CE1.
Definition in_tail (s : st) : Z := cat s CE2 + cat s CE3 + cat s CE4 + cat s CE5.

(* somebody other than the consumer's tail is bound to get the mailbox processed *)
Definition helped (s : st) : Z := b2z (running s) + b2z (paused s) + inSched s.

Definition work (s : st) : Prop := 0 < sysN s \/ (b2z (suspended s) = 0 /\ 0 < userN s).

Definition len {A} (l : list A) : Z := Z.of_nat (length l).

Record Inv (s : st) : Prop := {
  i_user : userN s = len (uq s) - nP s PUInc;
  i_sys : sysN s = len (sq s) - nP s PSLink - nP s PSInc;
  i_pause : b2z (paused s) = nT s T1 + nT s T2;
  i_run : b2z (running s) = dispq s + active s + nS3 s;
  i_dispq : 0 <= dispq s;
  i_k1 : 0 < cat s CE3 + cat s CE4 + cat s CE5 -> helped s = 0 -> cs s = sysN s;
  i_k2 : 0 < cat s CE4 + cat s CE5 -> helped s = 0 -> cu s = userN s;
  i_k3 : 0 < cat s CE5 -> helped s = 0 -> b2z (cp s) = 0;
  i_wake : work s -> 0 < helped s + in_tail s;
}.

(* per-sender order / exactly-once bookkeeping *)
Definition projU (i : Z) (l : list (Z * Z)) : list Z :=
  map snd (filter (fun e => Z.eqb (fst e) i) l).
Definition projS (i : Z) (l : list (Z * smsg)) : list smsg :=
  map snd (filter (fun e => Z.eqb (fst e) i) l).
Definition projQ (i : Z) (l : list (Z * smsg * bool)) : list smsg :=
  map (fun e => snd (fst e)) (filter (fun e => Z.eqb (fst (fst e)) i) l).

Definition OrdInv (s : st) : Prop :=
  forall i p, nth_error (posters s) i = Some p ->
    pdoneU p = projU (Z.of_nat i) (deliveredU s) ++ projU (Z.of_nat i) (uq s) /\
    pdoneS p = projS (Z.of_nat i) (poppedS s) ++ projQ (Z.of_nat i) (sq s).

(* what poster i was asked to post *)
Fixpoint usersOf (l : list pmsg) : list Z :=
  match l with [] => [] | PUser z :: r => z :: usersOf r | PSys _ :: r => usersOf r end.
Fixpoint syssOf (l : list pmsg) : list smsg :=
  match l with [] => [] | PSys m :: r => m :: syssOf r | PUser _ :: r => syssOf r end.

Definition reachable (progs : list (list pmsg)) (orc : list bool) (s : st) : Prop :=
  exists sched, s = run_sched (init progs orc) sched.

(* no thread can take a step *)
Definition quiescent (s : st) : Prop := forall t, tstep s t = None.

Definition prefix {A} (a b : list A) : Prop := exists c, b = a ++ c.
