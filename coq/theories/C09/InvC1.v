From Cell2V Require Import Common.Tac Common.ListX C09.Model C09.Spec C09.Lemmas.

Lemma inv_c_CIdle s s' : Inv s -> cpc_ s = CIdle -> consumer_step s = Some s' -> Inv s'.
Proof.
  intros [Iu Is Ip Ir Id K1 K2 K3 W] Epc Hs. unfold consumer_step in Hs. rewrite Epc in Hs.
    destruct (Z.ltb_spec 0 (dispq s)); [|discriminate]. inv Hs.
    constructor; unf; proj; rewrite ?Epc in *; fin.
Qed.

Lemma inv_c_CR1 s s' : Inv s -> cpc_ s = CR1 -> consumer_step s = Some s' -> Inv s'.
Proof.
  intros [Iu Is Ip Ir Id K1 K2 K3 W] Epc Hs. unfold consumer_step in Hs. rewrite Epc in Hs.
    inv Hs. destruct (match oracle s with [] => false | x :: _ => x end && (userN s <? MaxMsgNumToSmooth));
      constructor; unf; proj; rewrite ?Epc in *; fin.
Qed.

Lemma inv_c_CBP s s' : Inv s -> cpc_ s = CBP -> consumer_step s = Some s' -> Inv s'.
Proof.
  intros [Iu Is Ip Ir Id K1 K2 K3 W] Epc Hs. unfold consumer_step in Hs. rewrite Epc in Hs.
    destruct (paused s) eqn:Ep; inv Hs; constructor; unf; proj; rewrite ?Epc, ?Ep in *; fin.
Qed.

