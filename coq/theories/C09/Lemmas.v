From Cell2V Require Import Common.Tac Common.ListX C09.Model C09.Spec.

(* ---------------------------------------------------------------- counting *)
Lemma b2z_range b : 0 <= b2z b <= 1.
Proof. destruct b; simpl; lia. Qed.

Lemma cnt_nonneg {A} (f : A -> bool) l : 0 <= cnt f l.
Proof. induction l as [|x r IH]; simpl; [lia|]. pose proof (b2z_range (f x)). lia. Qed.

Lemma cnt_app {A} (f : A -> bool) a b : cnt f (a ++ b) = cnt f a + cnt f b.
Proof. induction a as [|x r IH]; simpl; [reflexivity|]. rewrite IH. lia. Qed.

Lemma cnt_upd {A} (f : A -> bool) l : forall i a x,
  nth_error l i = Some a -> cnt f (upd l i x) = cnt f l - b2z (f a) + b2z (f x).
Proof.
  induction l as [|y r IH]; intros [|i] a x H; simpl in *; try discriminate.
  - inv H. lia.
  - rewrite (IH _ _ _ H). lia.
Qed.

Lemma cnt_ge {A} (f : A -> bool) l : forall i a,
  nth_error l i = Some a -> b2z (f a) <= cnt f l.
Proof.
  induction l as [|y r IH]; intros [|i] a H; simpl in *; try discriminate.
  - inv H. pose proof (cnt_nonneg f r). lia.
  - pose proof (IH _ _ H). pose proof (b2z_range (f y)). lia.
Qed.

Lemma nth_error_upd_same {A} (l : list A) : forall i a x,
  nth_error l i = Some a -> nth_error (upd l i x) i = Some x.
Proof. induction l as [|y r IH]; intros [|i] a x H; simpl in *; try discriminate; eauto. Qed.

Lemma nth_error_upd_other {A} (l : list A) : forall i j x,
  i <> j -> nth_error (upd l i x) j = nth_error l j.
Proof.
  induction l as [|y r IH]; intros [|i] [|j] x H; simpl in *; try reflexivity; try lia.
  apply IH. lia.
Qed.

Lemma len_app {A} (a b : list A) : len (a ++ b) = len a + len b.
Proof. unfold len. rewrite app_length. lia. Qed.

Lemma len_cons {A} (x : A) l : len (x :: l) = 1 + len l.
Proof. unfold len. simpl length. lia. Qed.

Lemma len_link i q : len (link_node i q) = len q.
Proof.
  induction q as [|[[o m] l] r IH]; simpl; [reflexivity|].
  destruct (Z.eqb o i && negb l); rewrite !len_cons; [reflexivity | rewrite IH; reflexivity].
Qed.

(* ---------------------------------------------------------------- the invariant *)
Ltac unf :=
  unfold helped, work, set_posters, set_pauses, set_c in *;
  unfold inSched, nS3, active, in_tail in *; unfold nP, nT, cat in *.

Lemma len_nil {A} : len (@nil A) = 0.
Proof. reflexivity. Qed.

Ltac proj :=
  cbn [posters uq sq userN sysN running paused suspended dispq cpc_ cs cu cp pauses deliveredU
       poppedS invokedS oracle ppc_ pprog pdoneU pdoneS] in *.

Ltac nonneg :=
  repeat match goal with
  | |- context [cnt ?f ?l] =>
      lazymatch goal with
      | _ : 0 <= cnt f l |- _ => fail
      | _ => pose proof (cnt_nonneg f l)
      end
  | _ : context [cnt ?f ?l] |- _ =>
      lazymatch goal with
      | _ : 0 <= cnt f l |- _ => fail
      | _ => pose proof (cnt_nonneg f l)
      end
  end.

Ltac b2zr :=
  repeat match goal with
  | |- context [b2z ?b] =>
      lazymatch b with true => fail | false => fail | _ => idtac end;
      lazymatch goal with
      | _ : 0 <= b2z b <= 1 |- _ => fail
      | _ => pose proof (b2z_range b)
      end
  | _ : context [b2z ?b] |- _ =>
      lazymatch b with true => fail | false => fail | _ => idtac end;
      lazymatch goal with
      | _ : 0 <= b2z b <= 1 |- _ => fail
      | _ => pose proof (b2z_range b)
      end
  end.

(* the stepping thread itself is counted at its current pc *)
Ltac self_counted Hn Epc :=
  match type of Hn with
  | nth_error ?l ?i = Some ?a =>
      repeat match goal with
      | _ : context [cnt ?f l] |- _ =>
          lazymatch goal with
          | _ : b2z (f a) <= cnt f l |- _ => fail
          | _ => pose proof (cnt_ge f l i a Hn)
          end
      | |- context [cnt ?f l] =>
          lazymatch goal with
          | _ : b2z (f a) <= cnt f l |- _ => fail
          | _ => pose proof (cnt_ge f l i a Hn)
          end
      end
  end;
  cbn beta in *; rewrite ?Epc in *.

Ltac bools s :=
  destruct (running s) eqn:?, (paused s) eqn:?, (suspended s) eqn:?.


Ltac fin := unf; proj; rewrite ?cnt_app, ?len_app, ?len_cons, ?len_nil in *;
            cbn [cnt cpc_eqb tpc_eqb b2z] in *; nonneg; b2zr; try lia.
