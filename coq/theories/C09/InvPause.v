From Cell2V Require Import Common.Tac Common.ListX C09.Model C09.Spec C09.Lemmas.

Lemma inv_pause s j t s' :
  Inv s -> nth_error (pauses s) j = Some t -> pause_step s j t = Some s' -> Inv s'.
Proof.
  intros [Iu Is Ip Ir Id K1 K2 K3 W] Hn Hs. unfold pause_step in Hs.
  destruct t eqn:Epc.
  - (* T1 *)
    inv Hs; constructor; unf; proj;
      rewrite ?(cnt_upd _ _ _ _ _ Hn) in *; self_counted Hn (eq_refl T1); cbn [tpc_eqb b2z] in *; nonneg; b2zr; try lia.
  - (* T2 *)
    inv Hs; constructor; unf; proj;
      rewrite ?(cnt_upd _ _ _ _ _ Hn) in *; self_counted Hn (eq_refl T2); cbn [tpc_eqb b2z] in *; nonneg; b2zr; try lia.
  - (* TS1 *)
    inv Hs; destruct (paused s) eqn:Ep; constructor; unf; proj;
      rewrite ?(cnt_upd _ _ _ _ _ Hn), ?Ep in *; self_counted Hn (eq_refl TS1); cbn [tpc_eqb b2z] in *; nonneg; b2zr; try lia.
  - (* TS2 *)
    destruct (running s) eqn:Er; inv Hs; constructor; unf; proj;
      rewrite ?(cnt_upd _ _ _ _ _ Hn), ?Er in *; self_counted Hn (eq_refl TS2); cbn [tpc_eqb b2z] in *; nonneg; b2zr; try lia.
  - (* TS3 *)
    inv Hs; constructor; unf; proj;
      rewrite ?(cnt_upd _ _ _ _ _ Hn) in *; self_counted Hn (eq_refl TS3); cbn [tpc_eqb b2z] in *; nonneg; b2zr; try lia.
  - discriminate.
Qed.
