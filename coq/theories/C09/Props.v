(* C09 - property theorems only.  "reachable progs orc s" = s is the state after SOME
   schedule (any list of thread choices, any length) from the initial state in which
   poster i is asked to post progs[i] and the cost check answers orc. *)
From Cell2V Require Import Common.Tac Common.ListX C09.Model C09.Spec C09.Proofs C09.Drain C09.Compose.
From Cell2V Require C03.Fifo.
From Cell2V Require C09ring.Model C09ring.Spec C09ring.Proofs.

(* the inductive invariant (counter/queue accounting, pause accounting, run accounting, the
   three "loaded values are current when nobody else can help" facts, and no-lost-wake-up)
   holds in every reachable state, for all programmes, oracles and schedules *)
Theorem C09_invariant : forall progs orc s, reachable progs orc s -> Inv s.
Proof. exact inv_reachable. Qed.
Print Assumptions C09_invariant.

(* exactly once, in per-sender order (safety half): at every moment what has been handed
   over of poster i is, in order, a prefix of what poster i was asked to post - nothing
   twice, nothing reordered, nothing invented *)
Theorem C09_once_in_order : forall progs orc s, reachable progs orc s ->
  forall i, (i < length progs)%nat ->
    prefix (projU (Z.of_nat i) (deliveredU s)) (usersOf (nth i progs [])) /\
    prefix (projS (Z.of_nat i) (poppedS s)) (syssOf (nth i progs [])).
Proof. exact once_in_order. Qed.
Print Assumptions C09_once_in_order.

(* ... and every delivery belongs to some poster *)
Theorem C09_only_posted : forall progs orc s, reachable progs orc s ->
  Own (Z.of_nat (length progs)) s.
Proof. exact own_reachable. Qed.
Print Assumptions C09_only_posted.

(* never two at a time: at most one activation is queued, executing or being handed to
   the dispatcher, and the status word says exactly that *)
Theorem C09_single_run : forall progs orc s, reachable progs orc s ->
  0 <= dispq s /\ dispq s + active s + nS3 s <= 1 /\
  (running s = true <-> dispq s + active s + nS3 s = 1).
Proof. exact single_run. Qed.
Print Assumptions C09_single_run.

(* system messages ahead of user messages, as program order of the consumer *)
Theorem C09_sys_first : forall s s', tstep s TConsumer = Some s' ->
  (deliveredU s' <> deliveredU s -> cpc_ s = CR4) /\
  (cpc_ s' = CR4 -> cpc_ s = CR3 /\ suspended s = false) /\
  (cpc_ s' = CR3 -> cpc_ s = CR2 /\ visible_head (sq s) = false).
Proof. exact sys_first. Qed.
Print Assumptions C09_sys_first.

(* no lost wake-up: in every reachable state with work pending (a counted system message,
   or a counted user message while not suspended) the mailbox is running, or paused with a
   live pause goroutine, or some thread is inside schedule(), or the consumer has not yet
   taken its after-run decision *)
Theorem C09_no_lost_wakeup : forall progs orc s, reachable progs orc s ->
  work s -> 0 < helped s + in_tail s.
Proof. exact no_lost_wakeup. Qed.
Print Assumptions C09_no_lost_wakeup.

(* never stalls (exactly-once, liveness half): in every reachable state in which no thread
   can take a step, nothing is left: the mailbox is idle and not paused, the system queue is
   empty and every system message of every poster was taken in order; unless the mailbox
   was left suspended the user queue is empty and every user message of every poster was
   handed over, in order.  No further post is needed to get there. *)
Theorem C09_quiescent_drained : forall progs orc s, reachable progs orc s -> quiescent s ->
  sq s = [] /\ running s = false /\ paused s = false /\
  (suspended s = false -> uq s = []) /\
  forall i, (i < length progs)%nat ->
    projS (Z.of_nat i) (poppedS s) = syssOf (nth i progs []) /\
    (suspended s = false -> projU (Z.of_nat i) (deliveredU s) = usersOf (nth i progs [])).
Proof. exact quiescent_drained. Qed.
Print Assumptions C09_quiescent_drained.

(* never stalls (progress): from ANY reachable state in which the posters have finished
   posting, the pause goroutines have finished and the cost check asks for no further pause,
   the consumer thread alone - wherever it is: idle with an activation queued, inside run(),
   in the after-run tail, inside schedule() - reaches after finitely many of its own steps
   a state in which nobody can step; by C09_quiescent_drained everything posted has then
   been handed over.  No further post is needed to wake the mailbox. *)
Theorem C09_consumer_drains : forall progs orc s, reachable progs orc s -> others_done s ->
  exists n, quiescent (run_sched s (repeat TConsumer n)) /\
            reachable progs orc (run_sched s (repeat TConsumer n)).
Proof. exact consumer_drains. Qed.
Print Assumptions C09_consumer_drains.

Corollary C09_everything_delivered : forall progs orc s, reachable progs orc s -> others_done s ->
  exists n, let s' := run_sched s (repeat TConsumer n) in
    sq s' = [] /\ running s' = false /\
    forall i, (i < length progs)%nat ->
      projS (Z.of_nat i) (poppedS s') = syssOf (nth i progs []) /\
      (suspended s' = false -> projU (Z.of_nat i) (deliveredU s') = usersOf (nth i progs [])).
Proof.
  intros progs orc s R O. destruct (consumer_drains progs orc s R O) as [n [Q R']].
  exists n. cbv zeta. destruct (quiescent_drained _ _ _ R' Q) as [A [B [_ [_ E]]]]. auto.
Qed.
Print Assumptions C09_everything_delivered.

(* composition with C03: the order theorems of C03 assume that the front-end's mailbox hands
   over some interleaving ("Merge", C03/Fifo.v) of what the individual senders posted.  For
   the mailbox model that is a theorem: at quiescence the user messages handed to the service
   are a Merge of the posters' programmes (each tagged with its poster). *)
Theorem C09_mailbox_is_merge : forall progs orc s,
  reachable progs orc s -> quiescent s -> suspended s = false ->
  C03.Fifo.Merge (posted progs) (deliveredU s).
Proof. exact mailbox_is_merge. Qed.
Print Assumptions C09_mailbox_is_merge.

(* the queue abstractions used above are justified by the refinement theorems of C09ring:
   the goring ring buffer (growth at every capacity) is a FIFO list; the two-step mpsc push
   is what the model's (owner, msg, linked) chain is *)
Theorem C09_user_queue_is_fifo : forall n ops, 1 <= n -> C09ring.Spec.counts_ok ops ->
  snd (C09ring.Spec.qrun C09ring.Spec.ring_step (C09ring.Model.new n) ops) =
  snd (C09ring.Spec.qrun C09ring.Spec.fifo_step [] ops).
Proof. exact C09ring.Proofs.ring_refines_fifo_new. Qed.
Print Assumptions C09_user_queue_is_fifo.

(* non-vacuity: two posters, a system message, a smoothing pause; a fair schedule reaches a
   quiescent state in which everything was delivered *)
Definition ex_progs := [[PUser 1; PUser 2]; [PSys (SOther 9); PUser 3]].
Definition ex_sched : list tid :=
  concat (repeat [TPoster 0; TPoster 1; TConsumer; TPause 0] 40).
Example C09_example_quiescent :
  let s := run_sched (init ex_progs [true; false]) ex_sched in
  deliveredU s = [(0, 1); (0, 2); (1, 3)] /\ invokedS s = [(1, SOther 9)] /\ pauses s = [TDone]
  /\ forallb (fun t => match tstep s t with None => true | Some _ => false end)
             [TPoster 0; TPoster 1; TConsumer; TPause 0] = true.
Proof. vm_compute. repeat split. Qed.

(* the hypothesis of C09_consumer_drains is met in the middle of an execution: both posters
   have finished, a user message is still queued and the consumer is in the middle of run() *)
Example C09_example_others_done :
  let s := run_sched (init [[PUser 1]; [PUser 2]] [])
             ([TPoster 0; TPoster 0; TPoster 0; TPoster 0; TPoster 0] ++ repeat TConsumer 8 ++
              [TPoster 1; TPoster 1; TPoster 1; TPoster 1]) in
  cpc_ s = CR4 /\ uq s = [(1, 2)] /\ deliveredU s = [(0, 1)] /\
  forallb (fun p => match ppc_ p, pprog p with PReady, [] => true | _, _ => false end) (posters s) = true.
Proof. vm_compute. repeat split. Qed.
