From Cell2V Require Import Common.Tac Common.ListX C09.Model C09.Spec C09.Lemmas.

Lemma inv_c_CE5 s s' : Inv s -> cpc_ s = CE5 -> consumer_step s = Some s' -> Inv s'.
Proof.
  intros [Iu Is Ip Ir Id K1 K2 K3 W] Epc Hs. unfold consumer_step in Hs. rewrite Epc in Hs.
    destruct ((0 <? cs s) || (negb (suspended s) && (0 <? cu s) && negb (cp s))) eqn:Ed; inv Hs.
    + constructor; unf; proj; rewrite ?Epc in *; fin.
    + apply orb_false_iff in Ed. destruct Ed as [Ed1 Ed2]. apply Z.ltb_ge in Ed1.
      destruct (suspended s) eqn:Es, (cp s) eqn:Ecp, (Z.ltb_spec 0 (cu s)); cbn in Ed2; try discriminate;
        constructor; unf; proj; rewrite ?Epc, ?Es, ?Ecp in *; fin.
Qed.

