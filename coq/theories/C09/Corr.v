(* C09 - correspondence entry point.  A case is one controlled execution of the real
   mailbox: the posters' programmes, the cost-oracle answers, and the schedule (which thread
   was released for exactly one atomic step, in order); the observation is the snapshot of
   the mailbox's shared words after every step plus the final delivery logs. *)
From Cell2V Require Import Common.Tac Common.ListX C09.Model C09.Spec.

(* schedule entries as the harness writes them *)
Inductive sid := SP (i : Z) | SC | ST (j : Z).

Definition tid_of (x : sid) : tid :=
  match x with SP i => TPoster (Z.to_nat i) | SC => TConsumer | ST j => TPause (Z.to_nat j) end.

(* a programme entry as the harness writes it: one message, or a MessageBatch - ONE PostUserMessage
   call that posts each part as a message of its own and then the batch itself (actorex/mailbox
   PostUserMessage recursion): to the mailbox the same as posting them one after the other *)
Inductive pmsgx := X (m : pmsg) | XBatch (parts : list Z) (z : Z).

Definition expandx (x : pmsgx) : list pmsg :=
  match x with X m => [m] | XBatch ps z => map PUser ps ++ [PUser z] end.

Record ops := mkOps {
  o_xprogs : list (list pmsgx);
  o_oracle : list bool;
  o_sched : list sid;
  o_throughput : Z;   (* what the dispatcher answers to Throughput(): the mailbox only resets a counter
                         with it, so the model - and every theorem - is independent of it *)
}.

Definition o_progs (o : ops) : list (list pmsg) := map (flat_map expandx) (o_xprogs o).

(* shared words after a step: userMessages, sysMessages, schedulerStatus=running,
   smoothPaused, suspended, tasks waiting in the dispatcher, user queue length,
   number of pause goroutines created so far *)
Record snap := mkSnap {
  n_user : Z; n_sys : Z; n_running : bool; n_paused : bool; n_suspended : bool;
  n_dispq : Z; n_uqlen : Z; n_pauses : Z;
}.

Record obs := mkObs {
  b_snaps : list snap;                 (* one per schedule entry *)
  b_enabled : list bool;               (* whether the released thread could step (always true for a sound driver) *)
  b_deliveredU : list (Z * Z);         (* (poster, payload) in invocation order *)
  b_invokedS : list (Z * smsg);        (* system messages handed to InvokeSystemMessage *)
}.

Definition snap_of (s : st) : snap :=
  mkSnap (userN s) (sysN s) (running s) (paused s) (suspended s) (dispq s) (len (uq s)) (len (pauses s)).

Fixpoint trace (s : st) (sched : list sid) : list (snap * bool) * st :=
  match sched with
  | [] => ([], s)
  | x :: r =>
      let '(s1, en) := match tstep s (tid_of x) with Some s' => (s', true) | None => (s, false) end in
      let '(l, sf) := trace s1 r in
      ((snap_of s1, en) :: l, sf)
  end.

Definition run (o : ops) : obs :=
  let '(l, sf) := trace (init (o_progs o) (o_oracle o)) (o_sched o) in
  mkObs (map fst l) (map snd l) (deliveredU sf) (invokedS sf).

Definition snap_eqb (a b : snap) : bool :=
  Z.eqb (n_user a) (n_user b) && Z.eqb (n_sys a) (n_sys b) && Bool.eqb (n_running a) (n_running b)
  && Bool.eqb (n_paused a) (n_paused b) && Bool.eqb (n_suspended a) (n_suspended b)
  && Z.eqb (n_dispq a) (n_dispq b) && Z.eqb (n_uqlen a) (n_uqlen b) && Z.eqb (n_pauses a) (n_pauses b).

Definition smsg_eqb (a b : smsg) : bool :=
  match a, b with
  | SSuspend, SSuspend | SResume, SResume => true
  | SOther x, SOther y => Z.eqb x y
  | _, _ => false
  end.

Definition obs_eqb (a b : obs) : bool :=
  list_eqb snap_eqb (b_snaps a) (b_snaps b) && list_eqb Bool.eqb (b_enabled a) (b_enabled b)
  && list_eqb (pair_eqb Z.eqb Z.eqb) (b_deliveredU a) (b_deliveredU b)
  && list_eqb (pair_eqb Z.eqb smsg_eqb) (b_invokedS a) (b_invokedS b).

Definition case := (ops * obs)%type.

Definition agree (c : case) : bool := obs_eqb (run (fst c)) (snd c).

(* Monitor: the property's clauses on the implementation's own observation.
   - never two activations: running implies at most one queued task (dispq <= 1);
   - per-sender order, at most once: the deliveries of poster i are a prefix of what it posted;
   - never stalls: if the run ended quiescent (the harness schedules until nobody can step and
     says so by ending the schedule with the consumer idle, nothing queued, nobody paused),
     everything posted was delivered (user messages unless the mailbox is left suspended). *)
Fixpoint is_prefix (a b : list Z) : bool :=
  match a, b with
  | [], _ => true
  | x :: r, y :: t => Z.eqb x y && is_prefix r t
  | _, _ => false
  end.

Fixpoint sprefix (a b : list smsg) : bool :=
  match a, b with
  | [], _ => true
  | x :: r, y :: t => smsg_eqb x y && sprefix r t
  | _, _ => false
  end.

Fixpoint othersOf (l : list pmsg) : list smsg :=
  match l with
  | [] => []
  | PSys (SOther z) :: r => SOther z :: othersOf r
  | _ :: r => othersOf r
  end.

Fixpoint zseq (n : nat) (i : Z) : list Z :=
  match n with O => [] | S k => i :: zseq k (i + 1) end.

Definition last_snap (b : obs) : option snap := last (map Some (b_snaps b)) None.

Definition monitor (c : case) : bool :=
  let o := fst c in let b := snd c in
  forallb (fun sn => n_dispq sn <=? 1) (b_snaps b)
  && forallb (fun i =>
       let prog := nth (Z.to_nat i) (o_progs o) [] in
       is_prefix (projU i (b_deliveredU b)) (usersOf prog)
       && sprefix (projS i (b_invokedS b)) (othersOf prog))
     (zseq (length (o_progs o)) 0)
  && forallb (fun e => (0 <=? fst e) && (fst e <? Z.of_nat (length (o_progs o)))) (b_deliveredU b).

Definition disagreeing (cs : list case) : list Z := failing agree cs.
Definition monitor_failing (cs : list case) : list Z := failing monitor cs.
