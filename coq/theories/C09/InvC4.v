From Cell2V Require Import Common.Tac Common.ListX C09.Model C09.Spec C09.Lemmas.

Lemma inv_c_CE1 s s' : Inv s -> cpc_ s = CE1 -> consumer_step s = Some s' -> Inv s'.
Proof.
  intros [Iu Is Ip Ir Id K1 K2 K3 W] Epc Hs. unfold consumer_step in Hs. rewrite Epc in Hs.
    inv Hs. constructor; unf; proj; rewrite ?Epc in *; fin.
Qed.

Lemma inv_c_CE2 s s' : Inv s -> cpc_ s = CE2 -> consumer_step s = Some s' -> Inv s'.
Proof.
  intros [Iu Is Ip Ir Id K1 K2 K3 W] Epc Hs. unfold consumer_step in Hs. rewrite Epc in Hs.
    inv Hs. constructor; unf; proj; rewrite ?Epc in *; fin.
Qed.

Lemma inv_c_CE3 s s' : Inv s -> cpc_ s = CE3 -> consumer_step s = Some s' -> Inv s'.
Proof.
  intros [Iu Is Ip Ir Id K1 K2 K3 W] Epc Hs. unfold consumer_step in Hs. rewrite Epc in Hs.
    inv Hs. constructor; unf; proj; rewrite ?Epc in *; fin.
Qed.

Lemma inv_c_CE4 s s' : Inv s -> cpc_ s = CE4 -> consumer_step s = Some s' -> Inv s'.
Proof.
  intros [Iu Is Ip Ir Id K1 K2 K3 W] Epc Hs. unfold consumer_step in Hs. rewrite Epc in Hs.
    inv Hs. constructor; unf; proj; rewrite ?Epc in *; fin.
Qed.

