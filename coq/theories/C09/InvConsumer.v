From Cell2V Require Import Common.Tac Common.ListX C09.Model C09.Spec C09.Lemmas C09.InvC1 C09.InvC2 C09.InvC3 C09.InvC4 C09.InvC5 C09.InvC6.

Lemma inv_consumer s s' : Inv s -> consumer_step s = Some s' -> Inv s'.
Proof.
  intros I Hs. destruct (cpc_ s) eqn:Epc.
  - eapply inv_c_CIdle; eassumption.
  - eapply inv_c_CR1; eassumption.
  - eapply inv_c_CBP; eassumption.
  - eapply inv_c_CR2; eassumption.
  - eapply inv_c_CR3; eassumption.
  - eapply inv_c_CR4; eassumption.
  - eapply inv_c_CE1; eassumption.
  - eapply inv_c_CE2; eassumption.
  - eapply inv_c_CE3; eassumption.
  - eapply inv_c_CE4; eassumption.
  - eapply inv_c_CE5; eassumption.
  - eapply inv_c_CS1; eassumption.
  - eapply inv_c_CS2; eassumption.
  - eapply inv_c_CS3; eassumption.
Qed.
