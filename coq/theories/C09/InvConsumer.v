From Cell2V Require Import Common.Tac Common.ListX C09.Model C09.Spec C09.Lemmas.

Ltac fin := unf; proj; rewrite ?cnt_app, ?len_app, ?len_cons, ?len_nil in *;
            cbn [cnt cpc_eqb tpc_eqb b2z] in *; nonneg; b2zr; try lia.

Lemma inv_consumer s s' : Inv s -> consumer_step s = Some s' -> Inv s'.
Proof.
  intros [Iu Is Ip Ir Id K1 K2 K3 W] Hs. unfold consumer_step in Hs.
  destruct (cpc_ s) eqn:Epc.
  - (* CIdle: C0 *)
    destruct (Z.ltb_spec 0 (dispq s)); [|discriminate]. inv Hs.
    constructor; unf; proj; rewrite ?Epc in *; fin.
  - (* CR1 *)
    inv Hs. destruct (match oracle s with [] => false | x :: _ => x end && (userN s <? MaxMsgNumToSmooth));
      constructor; unf; proj; rewrite ?Epc in *; fin.
  - (* CBP *)
    destruct (paused s) eqn:Ep; inv Hs; constructor; unf; proj; rewrite ?Epc, ?Ep in *; fin.
  - (* CR2 *)
    destruct (sq s) as [|[[o m] lk] r] eqn:Eq; [inv Hs; constructor; unf; proj; rewrite ?Epc, ?Eq in *; fin|].
    destruct lk; inv Hs; [|constructor; unf; proj; rewrite ?Epc, ?Eq in *; fin].
    destruct m; constructor; unf; proj; rewrite ?Epc, ?Eq in *; fin.
  - (* CR3 *)
    inv Hs. destruct (suspended s) eqn:Es; constructor; unf; proj; rewrite ?Epc, ?Es in *; fin.
  - (* CR4 *)
    destruct (uq s) as [|[o z] r] eqn:Eq; inv Hs; constructor; unf; proj; rewrite ?Epc, ?Eq in *; fin.
  - (* CE1 *)
    inv Hs. constructor; unf; proj; rewrite ?Epc in *; fin.
  - (* CE2 *)
    inv Hs. constructor; unf; proj; rewrite ?Epc in *; fin.
  - (* CE3 *)
    inv Hs. constructor; unf; proj; rewrite ?Epc in *; fin.
  - (* CE4 *)
    inv Hs. constructor; unf; proj; rewrite ?Epc in *; fin.
  - (* CE5 *)
    destruct ((0 <? cs s) || (negb (suspended s) && (0 <? cu s) && negb (cp s))) eqn:Ed; inv Hs.
    + constructor; unf; proj; rewrite ?Epc in *; fin.
    + apply orb_false_iff in Ed. destruct Ed as [Ed1 Ed2]. apply Z.ltb_ge in Ed1.
      destruct (suspended s) eqn:Es, (cp s) eqn:Ecp, (Z.ltb_spec 0 (cu s)); cbn in Ed2; try discriminate;
        constructor; unf; proj; rewrite ?Epc, ?Es, ?Ecp in *; fin.
  - (* CS1 *)
    inv Hs. destruct (paused s) eqn:Ep; constructor; unf; proj; rewrite ?Epc, ?Ep in *; fin.
  - (* CS2 *)
    destruct (running s) eqn:Er; inv Hs; constructor; unf; proj; rewrite ?Epc, ?Er in *; fin.
  - (* CS3 *)
    inv Hs. constructor; unf; proj; rewrite ?Epc in *; fin.
Qed.
