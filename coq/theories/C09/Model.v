(* C09 - interleaving model of actorex/mailbox/mailbox.go (SmoothFrameMailbox) with the
   dispatcher of actorex/disp/schedisp.go (tasks are executed one after another by the
   service's run loop).  No proofs in this file.

   One atomic step per sync/atomic operation, queue operation or channel send.
   Threads: posters (PostUserMessage / PostSystemMessage callers), the consumer (the
   dispatcher goroutine executing processMessages), pause goroutines (beginSmoothPause).

     poster, user message   U1 userMailbox.Push        U2 userMessages++      then schedule()
     poster, system message Y1 mpsc swap head (node appended, not yet linked)
                            Y2 mpsc store prev.next (node linked) Y3 sysMessages++  then schedule()
     schedule()             S1 load smoothPaused (1 => return)
                            S2 CAS schedulerStatus idle->running (fail => return)
                            S3 dispatcher.Schedule (channel send)
     consumer               C0 receive task
       run() loop           R1 cost check (oracle bit; true and userMessages < 100000 => pause)
                            BP CAS smoothPaused 0->1; success spawns a pause goroutine; return
                            R2 systemMailbox.Pop: a visible node => sysMessages--, apply, loop
                            R3 load suspended (1 => return)
                            R4 userMailbox.Pop: a message => userMessages--, invoke, loop; else return
       after run()          E1 store idle  E2 load sysMessages  E3 load userMessages
                            E4 load smoothPaused  E5 decide (loads suspended) => schedule() or done
     pause goroutine        T1 sleep  T2 CAS smoothPaused 1->0  then schedule()

   Pop + counter decrement + handling are one consumer step: nobody but the consumer reads
   the counters or [suspended], and posters only add, so the decrement commutes with every
   step of another thread.  The mpsc queue is the list of nodes in swap order; a node is
   reachable only when every node before it (and itself) has been linked. *)
From Cell2V Require Import Common.Tac Common.ListX.

Inductive smsg := SSuspend | SResume | SOther (z : Z).
Inductive pmsg := PUser (z : Z) | PSys (s : smsg).

Inductive ppc :=
| PReady          (* about to post the head of its programme (finished when it is empty) *)
| PUInc           (* user message pushed, counter not yet incremented *)
| PSLink          (* system node swapped in, not yet linked *)
| PSInc           (* linked, counter not yet incremented *)
| PS1 | PS2 | PS3 (* inside schedule() *).

Record poster := mkPoster {
  pprog : list pmsg;      (* messages still to post (head = the one in progress unless PReady) *)
  ppc_ : ppc;
  pdoneU : list Z;        (* user payloads pushed so far, in order *)
  pdoneS : list smsg;     (* system messages swapped in so far, in order *)
}.

Inductive cpc :=
| CIdle | CR1 | CBP | CR2 | CR3 | CR4 | CE1 | CE2 | CE3 | CE4 | CE5 | CS1 | CS2 | CS3.

Inductive tpc := T1 | T2 | TS1 | TS2 | TS3 | TDone.

Inductive tid := TPoster (i : nat) | TConsumer | TPause (j : nat).

Record st := mkSt {
  posters : list poster;
  uq : list (Z * Z);                 (* user queue: (owner, payload), oldest first *)
  sq : list (Z * smsg * bool);       (* mpsc nodes in swap order: (owner, msg, linked) *)
  userN : Z; sysN : Z;
  running : bool; paused : bool; suspended : bool;
  dispq : Z;                         (* processMessages tasks sitting in the dispatcher channel *)
  cpc_ : cpc; cs : Z; cu : Z; cp : bool;   (* consumer pc and the values it loaded at E2-E4 *)
  pauses : list tpc;
  deliveredU : list (Z * Z);         (* user messages handed to the invoker: (owner, payload) *)
  poppedS : list (Z * smsg);         (* system messages taken off the queue, in order *)
  invokedS : list (Z * smsg);        (* those handed to InvokeSystemMessage (not suspend/resume) *)
  oracle : list bool;                (* future answers of "cost > maxProcessCost" *)
}.

Definition MaxMsgNumToSmooth := 100000.

Fixpoint upd {A} (l : list A) (i : nat) (x : A) : list A :=
  match l, i with
  | [], _ => []
  | _ :: r, O => x :: r
  | a :: r, S k => a :: upd r k x
  end.

Definition set_posters (s : st) (v : list poster) : st :=
  mkSt v (uq s) (sq s) (userN s) (sysN s) (running s) (paused s) (suspended s) (dispq s)
       (cpc_ s) (cs s) (cu s) (cp s) (pauses s) (deliveredU s) (poppedS s) (invokedS s) (oracle s).

(* link the (unique) unlinked node of owner i *)
Fixpoint link_node (i : Z) (q : list (Z * smsg * bool)) : list (Z * smsg * bool) :=
  match q with
  | [] => []
  | (o, m, l) :: r => if Z.eqb o i && negb l then (o, m, true) :: r else (o, m, l) :: link_node i r
  end.

(* the three steps of schedule(), shared by posters, pause goroutines and the consumer:
   given the current shared flags, the outcome of the step at S1/S2/S3 *)
Inductive sched_out := SNext | SDone.

Definition poster_step (s : st) (i : nat) (p : poster) : option st :=
  let me := Z.of_nat i in
  let setp (p' : poster) (s' : st) := set_posters s' (upd (posters s) i p') in
  match ppc_ p, pprog p with
  | PReady, [] => None
  | PReady, PUser z :: _ =>
      Some (setp (mkPoster (pprog p) PUInc (pdoneU p ++ [z]) (pdoneS p))
        (mkSt (posters s) (uq s ++ [(me, z)]) (sq s) (userN s) (sysN s) (running s) (paused s)
              (suspended s) (dispq s) (cpc_ s) (cs s) (cu s) (cp s) (pauses s) (deliveredU s)
              (poppedS s) (invokedS s) (oracle s)))
  | PReady, PSys m :: _ =>
      Some (setp (mkPoster (pprog p) PSLink (pdoneU p) (pdoneS p ++ [m]))
        (mkSt (posters s) (uq s) (sq s ++ [(me, m, false)]) (userN s) (sysN s) (running s) (paused s)
              (suspended s) (dispq s) (cpc_ s) (cs s) (cu s) (cp s) (pauses s) (deliveredU s)
              (poppedS s) (invokedS s) (oracle s)))
  | PUInc, _ =>
      Some (setp (mkPoster (pprog p) PS1 (pdoneU p) (pdoneS p))
        (mkSt (posters s) (uq s) (sq s) (userN s + 1) (sysN s) (running s) (paused s)
              (suspended s) (dispq s) (cpc_ s) (cs s) (cu s) (cp s) (pauses s) (deliveredU s)
              (poppedS s) (invokedS s) (oracle s)))
  | PSLink, _ =>
      Some (setp (mkPoster (pprog p) PSInc (pdoneU p) (pdoneS p))
        (mkSt (posters s) (uq s) (link_node me (sq s)) (userN s) (sysN s) (running s) (paused s)
              (suspended s) (dispq s) (cpc_ s) (cs s) (cu s) (cp s) (pauses s) (deliveredU s)
              (poppedS s) (invokedS s) (oracle s)))
  | PSInc, _ =>
      Some (setp (mkPoster (pprog p) PS1 (pdoneU p) (pdoneS p))
        (mkSt (posters s) (uq s) (sq s) (userN s) (sysN s + 1) (running s) (paused s)
              (suspended s) (dispq s) (cpc_ s) (cs s) (cu s) (cp s) (pauses s) (deliveredU s)
              (poppedS s) (invokedS s) (oracle s)))
  | PS1, _ =>
      Some (setp (mkPoster (if paused s then tl (pprog p) else pprog p)
                           (if paused s then PReady else PS2) (pdoneU p) (pdoneS p)) s)
  | PS2, _ =>
      if running s then Some (setp (mkPoster (tl (pprog p)) PReady (pdoneU p) (pdoneS p)) s)
      else
        Some (setp (mkPoster (pprog p) PS3 (pdoneU p) (pdoneS p))
          (mkSt (posters s) (uq s) (sq s) (userN s) (sysN s) true (paused s)
                (suspended s) (dispq s) (cpc_ s) (cs s) (cu s) (cp s) (pauses s) (deliveredU s)
                (poppedS s) (invokedS s) (oracle s)))
  | PS3, _ =>
      Some (setp (mkPoster (tl (pprog p)) PReady (pdoneU p) (pdoneS p))
        (mkSt (posters s) (uq s) (sq s) (userN s) (sysN s) (running s) (paused s)
              (suspended s) (dispq s + 1) (cpc_ s) (cs s) (cu s) (cp s) (pauses s) (deliveredU s)
              (poppedS s) (invokedS s) (oracle s)))
  end.

Definition set_c (s : st) (c : cpc) : st :=
  mkSt (posters s) (uq s) (sq s) (userN s) (sysN s) (running s) (paused s) (suspended s) (dispq s)
       c (cs s) (cu s) (cp s) (pauses s) (deliveredU s) (poppedS s) (invokedS s) (oracle s).

Definition consumer_step (s : st) : option st :=
  match cpc_ s with
  | CIdle =>
      if 0 <? dispq s then
        Some (mkSt (posters s) (uq s) (sq s) (userN s) (sysN s) (running s) (paused s) (suspended s)
                   (dispq s - 1) CR1 (cs s) (cu s) (cp s) (pauses s) (deliveredU s) (poppedS s)
                   (invokedS s) (oracle s))
      else None
  | CR1 =>
      let b := match oracle s with [] => false | x :: _ => x end in
      let s' := mkSt (posters s) (uq s) (sq s) (userN s) (sysN s) (running s) (paused s) (suspended s)
                     (dispq s) (if b && (userN s <? MaxMsgNumToSmooth) then CBP else CR2)
                     (cs s) (cu s) (cp s) (pauses s) (deliveredU s) (poppedS s) (invokedS s)
                     (tl (oracle s)) in
      Some s'
  | CBP =>
      if paused s then Some (set_c s CE1)
      else Some (mkSt (posters s) (uq s) (sq s) (userN s) (sysN s) (running s) true (suspended s)
                      (dispq s) CE1 (cs s) (cu s) (cp s) (pauses s ++ [T1]) (deliveredU s)
                      (poppedS s) (invokedS s) (oracle s))
  | CR2 =>
      match sq s with
      | (o, m, true) :: r =>
          Some (mkSt (posters s) (uq s) r (userN s) (sysN s - 1) (running s) (paused s)
                     (match m with SSuspend => true | SResume => false | SOther _ => suspended s end)
                     (dispq s) CR1 (cs s) (cu s) (cp s) (pauses s) (deliveredU s)
                     (poppedS s ++ [(o, m)])
                     (match m with SOther _ => invokedS s ++ [(o, m)] | _ => invokedS s end)
                     (oracle s))
      | _ => Some (set_c s CR3)
      end
  | CR3 => Some (set_c s (if suspended s then CE1 else CR4))
  | CR4 =>
      match uq s with
      | (o, z) :: r =>
          Some (mkSt (posters s) r (sq s) (userN s - 1) (sysN s) (running s) (paused s) (suspended s)
                     (dispq s) CR1 (cs s) (cu s) (cp s) (pauses s) (deliveredU s ++ [(o, z)])
                     (poppedS s) (invokedS s) (oracle s))
      | [] => Some (set_c s CE1)
      end
  | CE1 =>
      Some (mkSt (posters s) (uq s) (sq s) (userN s) (sysN s) false (paused s) (suspended s)
                 (dispq s) CE2 (cs s) (cu s) (cp s) (pauses s) (deliveredU s) (poppedS s)
                 (invokedS s) (oracle s))
  | CE2 =>
      Some (mkSt (posters s) (uq s) (sq s) (userN s) (sysN s) (running s) (paused s) (suspended s)
                 (dispq s) CE3 (sysN s) (cu s) (cp s) (pauses s) (deliveredU s) (poppedS s)
                 (invokedS s) (oracle s))
  | CE3 =>
      Some (mkSt (posters s) (uq s) (sq s) (userN s) (sysN s) (running s) (paused s) (suspended s)
                 (dispq s) CE4 (cs s) (userN s) (cp s) (pauses s) (deliveredU s) (poppedS s)
                 (invokedS s) (oracle s))
  | CE4 =>
      Some (mkSt (posters s) (uq s) (sq s) (userN s) (sysN s) (running s) (paused s) (suspended s)
                 (dispq s) CE5 (cs s) (cu s) (paused s) (pauses s) (deliveredU s) (poppedS s)
                 (invokedS s) (oracle s))
  | CE5 =>
      if (0 <? cs s) || (negb (suspended s) && (0 <? cu s) && negb (cp s))
      then Some (set_c s CS1) else Some (set_c s CIdle)
  | CS1 => Some (set_c s (if paused s then CIdle else CS2))
  | CS2 =>
      if running s then Some (set_c s CIdle)
      else Some (mkSt (posters s) (uq s) (sq s) (userN s) (sysN s) true (paused s) (suspended s)
                      (dispq s) CS3 (cs s) (cu s) (cp s) (pauses s) (deliveredU s) (poppedS s)
                      (invokedS s) (oracle s))
  | CS3 =>
      Some (mkSt (posters s) (uq s) (sq s) (userN s) (sysN s) (running s) (paused s) (suspended s)
                 (dispq s + 1) CIdle (cs s) (cu s) (cp s) (pauses s) (deliveredU s) (poppedS s)
                 (invokedS s) (oracle s))
  end.

Definition set_pauses (s : st) (v : list tpc) : st :=
  mkSt (posters s) (uq s) (sq s) (userN s) (sysN s) (running s) (paused s) (suspended s) (dispq s)
       (cpc_ s) (cs s) (cu s) (cp s) v (deliveredU s) (poppedS s) (invokedS s) (oracle s).

Definition pause_step (s : st) (j : nat) (t : tpc) : option st :=
  let setj (t' : tpc) (s' : st) := set_pauses s' (upd (pauses s) j t') in
  match t with
  | T1 => Some (setj T2 s)
  | T2 =>
      Some (setj TS1
        (mkSt (posters s) (uq s) (sq s) (userN s) (sysN s) (running s) false (suspended s)
              (dispq s) (cpc_ s) (cs s) (cu s) (cp s) (pauses s) (deliveredU s) (poppedS s)
              (invokedS s) (oracle s)))
  | TS1 => Some (setj (if paused s then TDone else TS2) s)
  | TS2 =>
      if running s then Some (setj TDone s)
      else Some (setj TS3
        (mkSt (posters s) (uq s) (sq s) (userN s) (sysN s) true (paused s) (suspended s)
              (dispq s) (cpc_ s) (cs s) (cu s) (cp s) (pauses s) (deliveredU s) (poppedS s)
              (invokedS s) (oracle s)))
  | TS3 =>
      Some (setj TDone
        (mkSt (posters s) (uq s) (sq s) (userN s) (sysN s) (running s) (paused s) (suspended s)
              (dispq s + 1) (cpc_ s) (cs s) (cu s) (cp s) (pauses s) (deliveredU s) (poppedS s)
              (invokedS s) (oracle s)))
  | TDone => None
  end.

(* one step of thread t; None = t cannot step (finished, waiting, or no such thread) *)
Definition tstep (s : st) (t : tid) : option st :=
  match t with
  | TPoster i => match nth_error (posters s) i with Some p => poster_step s i p | None => None end
  | TConsumer => consumer_step s
  | TPause j => match nth_error (pauses s) j with Some t => pause_step s j t | None => None end
  end.

Definition step_or_stay (s : st) (t : tid) : st := match tstep s t with Some s' => s' | None => s end.

Definition run_sched (s : st) (sched : list tid) : st := fold_left step_or_stay sched s.

Definition init (progs : list (list pmsg)) (orc : list bool) : st :=
  mkSt (map (fun pr => mkPoster pr PReady [] []) progs) [] [] 0 0 false false false 0
       CIdle 0 0 false [] [] [] [] orc.
