From Cell2V Require Import Common.Tac Common.ListX C09.Model C09.Spec C09.Lemmas.

Lemma inv_c_CS1 s s' : Inv s -> cpc_ s = CS1 -> consumer_step s = Some s' -> Inv s'.
Proof.
  intros [Iu Is Ip Ir Id K1 K2 K3 W] Epc Hs. unfold consumer_step in Hs. rewrite Epc in Hs.
    inv Hs. destruct (paused s) eqn:Ep; constructor; unf; proj; rewrite ?Epc, ?Ep in *; fin.
Qed.

Lemma inv_c_CS2 s s' : Inv s -> cpc_ s = CS2 -> consumer_step s = Some s' -> Inv s'.
Proof.
  intros [Iu Is Ip Ir Id K1 K2 K3 W] Epc Hs. unfold consumer_step in Hs. rewrite Epc in Hs.
    destruct (running s) eqn:Er; inv Hs; constructor; unf; proj; rewrite ?Epc, ?Er in *; fin.
Qed.

Lemma inv_c_CS3 s s' : Inv s -> cpc_ s = CS3 -> consumer_step s = Some s' -> Inv s'.
Proof.
  intros [Iu Is Ip Ir Id K1 K2 K3 W] Epc Hs. unfold consumer_step in Hs. rewrite Epc in Hs.
    inv Hs. constructor; unf; proj; rewrite ?Epc in *; fin.
Qed.

