(* C09 - the consumer drains the mailbox by itself.

   Once the posters have finished posting, the pause goroutines have finished and the cost
   check does not ask for a new pause, the consumer thread ALONE reaches, within a number of
   steps bounded by the queue lengths, a state in which no thread can step - and by
   C09_quiescent_drained everything posted has then been handed over.  No further post is
   needed to wake the mailbox, wherever the consumer happens to be (idle with a task queued,
   inside run(), in the after-run tail, inside schedule()). *)
From Cell2V Require Import Common.Tac Common.ListX C09.Model C09.Spec C09.Lemmas C09.Proofs.

(* ---- every unlinked mpsc node belongs to a poster that is between swap and link ---- *)
Definition unl (i : Z) (q : list (Z * smsg * bool)) : Z :=
  cnt (fun e => Z.eqb (fst (fst e)) i && negb (snd e)) q.

Definition Linked (s : st) : Prop :=
  forall i p, nth_error (posters s) i = Some p ->
    unl (Z.of_nat i) (sq s) = if ppc_eqb (ppc_ p) PSLink then 1 else 0.

Lemma unl_app i a b : unl i (a ++ b) = unl i a + unl i b.
Proof. apply cnt_app. Qed.

Lemma unl_link_same i q : 0 < unl i q -> unl i (link_node i q) = unl i q - 1.
Proof.
  induction q as [|[[o m] l] r IH]; unfold unl in *; cbn [cnt link_node fst snd]; [lia|].
  destruct (Z.eqb_spec o i) as [->|N]; destruct l; cbn [negb andb b2z cnt fst snd];
    rewrite ?Z.eqb_refl; cbn [andb negb b2z]; intro H.
  - rewrite IH by lia. lia.
  - lia.
  - destruct (Z.eqb_spec o i); [contradiction|]. cbn [andb b2z]. rewrite IH by lia. lia.
  - destruct (Z.eqb_spec o i); [contradiction|]. cbn [andb b2z]. rewrite IH by lia. lia.
Qed.

Lemma unl_link_other i j q : i <> j -> unl i (link_node j q) = unl i q.
Proof.
  intro N. induction q as [|[[o m] l] r IH]; unfold unl in *; cbn [cnt link_node fst snd]; [reflexivity|].
  destruct (Z.eqb o j && negb l) eqn:E; cbn [cnt fst snd].
  - apply andb_true_iff in E. destruct E as [E1 E2]. apply Z.eqb_eq in E1. subst o.
    destruct (Z.eqb_spec j i); [congruence|]. cbn [andb b2z]. reflexivity.
  - rewrite IH. reflexivity.
Qed.

Lemma linked_init progs orc : Linked (init progs orc).
Proof.
  intros i p H. cbn in H. rewrite nth_error_map in H.
  destruct (nth_error progs i); [|discriminate]. inv H. reflexivity.
Qed.

Lemma linked_poster s i p s' :
  Linked s -> nth_error (posters s) i = Some p -> poster_step s i p = Some s' -> Linked s'.
Proof.
  intros L Hn Hs. unfold poster_step in Hs. pose proof (L _ _ Hn) as Li.
  destruct (ppc_ p) eqn:Epc; cbn [ppc_eqb] in Li.
  - destruct (pprog p) as [|[z|m] r] eqn:Epr; [discriminate| |]; inv Hs; intros k q Hk; pj.
    + splitk i k Hn Hk; [pj; exact Li | exact (L _ _ Hk)].
    + rewrite unl_app. unfold unl at 2. cbn [cnt fst snd negb]. rewrite Z.eqb_sym, nat_eqb_Z.
      splitk i k Hn Hk; pj.
      * rewrite Nat.eqb_refl. cbn. lia.
      * destruct (Nat.eqb_spec k i); [lia|]. cbn. rewrite (L _ _ Hk). lia.
  - inv Hs. intros k q Hk; pj. splitk i k Hn Hk; [pj; exact Li | exact (L _ _ Hk)].
  - inv Hs. intros k q Hk; pj. splitk i k Hn Hk; pj.
    + rewrite unl_link_same by lia. cbn [ppc_eqb]. lia.
    + rewrite unl_link_other by lia. exact (L _ _ Hk).
  - inv Hs. intros k q Hk; pj. splitk i k Hn Hk; [pj; exact Li | exact (L _ _ Hk)].
  - inv Hs. intros k q Hk; pj. splitk i k Hn Hk; [pj; destruct (paused s); exact Li | exact (L _ _ Hk)].
  - destruct (running s); inv Hs; intros k q Hk; pj; (splitk i k Hn Hk; [pj; exact Li | exact (L _ _ Hk)]).
  - inv Hs. intros k q Hk; pj. splitk i k Hn Hk; [pj; exact Li | exact (L _ _ Hk)].
Qed.

Lemma linked_consumer s s' : Linked s -> consumer_step s = Some s' -> Linked s'.
Proof.
  intros L Hs. unfold consumer_step in Hs.
  destruct (cpc_ s) eqn:Epc;
    try (inv Hs; intros k q Hk; pj; exact (L _ _ Hk)).
  - destruct (0 <? dispq s); inv Hs. intros k q Hk; pj; exact (L _ _ Hk).
  - destruct (paused s); inv Hs; intros k q Hk; pj; exact (L _ _ Hk).
  - destruct (sq s) as [|[[o m] lk] r] eqn:Eq;
      [inv Hs; intros k q Hk; pj; specialize (L _ _ Hk); rewrite ?Eq in *; exact L|].
    destruct lk; inv Hs; intros k q Hk; pj; specialize (L _ _ Hk); rewrite ?Eq in *.
    + unfold unl in *. cbn [cnt fst snd negb] in L. rewrite andb_false_r in L. cbn in L. exact L.
    + exact L.
  - destruct (uq s) as [|[o z] r]; inv Hs; intros k q Hk; pj; exact (L _ _ Hk).
  - destruct ((0 <? cs s) || (negb (suspended s) && (0 <? cu s) && negb (cp s))); inv Hs;
      intros k q Hk; pj; exact (L _ _ Hk).
  - destruct (running s); inv Hs; intros k q Hk; pj; exact (L _ _ Hk).
Qed.

Lemma linked_pause s j t s' : Linked s -> pause_step s j t = Some s' -> Linked s'.
Proof.
  intros L Hs. unfold pause_step in Hs.
  destruct t; try discriminate; try (inv Hs; intros k q Hk; pj; exact (L _ _ Hk)).
  destruct (running s); inv Hs; intros k q Hk; pj; exact (L _ _ Hk).
Qed.

Lemma linked_reachable progs orc s : reachable progs orc s -> Linked s.
Proof.
  apply reachable_ind; [apply linked_init|].
  intros s0 t s' L H. destruct t as [i| |j]; cbn [tstep] in H.
  - destruct (nth_error (posters s0) i) as [p|] eqn:E; [|discriminate]. eapply linked_poster; eassumption.
  - eapply linked_consumer; eassumption.
  - destruct (nth_error (pauses s0) j) as [t|] eqn:E; [|discriminate]. eapply linked_pause; eassumption.
Qed.

(* ---- the situation: everybody but the consumer is done ---- *)
Definition others_done (s : st) : Prop :=
  (forall i p, nth_error (posters s) i = Some p -> ppc_ p = PReady /\ pprog p = []) /\
  (forall j t, nth_error (pauses s) j = Some t -> t = TDone) /\
  forallb negb (oracle s) = true /\
  cpc_ s <> CBP.

Lemma all_linked progs orc s : reachable progs orc s -> others_done s ->
  forall o m l, In (o, m, l) (sq s) -> l = true.
Proof.
  intros R [DP _] o m l I. destruct l; [reflexivity|]. exfalso.
  pose proof (linked_reachable _ _ _ R) as L.
  destruct (own_reachable _ _ _ R) as [Ln [_ [_ [Q _]]]].
  unfold okQ in Q. rewrite Forall_forall in Q. specialize (Q _ I). cbn in Q.
  assert (Hi : (Z.to_nat o < length (posters s))%nat) by lia.
  destruct (nth_error (posters s) (Z.to_nat o)) as [p|] eqn:E; [|apply nth_error_None in E; lia].
  specialize (L _ _ E). destruct (DP _ _ E) as [Epc _]. rewrite Epc in L. cbn in L.
  rewrite Z2Nat.id in L by lia.
  assert (0 < unl o (sq s)).
  { clear - I. induction (sq s) as [|x r IH]; [contradiction|]. unfold unl in *. cbn [cnt].
    match goal with |- context [cnt ?f r] => pose proof (cnt_nonneg f r) end.
    destruct I as [E|I].
    - subst x. cbn [fst snd negb]. rewrite Z.eqb_refl. cbn [andb b2z]. lia.
    - specialize (IH I). pose proof (b2z_range ((fst (fst x) =? o) && negb (snd x))). lia. }
  lia.
Qed.

Fixpoint csteps (n : nat) (s : st) : st :=
  match n with O => s | S k => csteps k (step_or_stay s TConsumer) end.

Lemma csteps_run n s : csteps n s = run_sched s (repeat TConsumer n).
Proof. revert s. induction n as [|k IH]; intro s; cbn; [reflexivity | apply IH]. Qed.

Lemma csteps_add a b s : csteps (a + b) s = csteps b (csteps a s).
Proof. revert s. induction a as [|k IH]; intro s; cbn; [reflexivity | apply IH]. Qed.

Lemma others_done_quiescent s :
  others_done s -> consumer_step s = None -> quiescent s.
Proof.
  intros [DP [DT _]] Hc t. destruct t as [i| |j]; cbn [tstep].
  - destruct (nth_error (posters s) i) as [p|] eqn:E; [|reflexivity].
    destruct (DP _ _ E) as [Epc Epr]. unfold poster_step. rewrite Epc, Epr. reflexivity.
  - exact Hc.
  - destruct (nth_error (pauses s) j) as [t|] eqn:E; [|reflexivity].
    rewrite (DT _ _ E). reflexivity.
Qed.

(* ---- bookkeeping shared by the drain lemmas ---- *)
Record D (progs : list (list pmsg)) (orc : list bool) (s : st) : Prop := {
  d_reach : reachable progs orc s;
  d_done : others_done s;
}.

Lemma reach_step progs orc s t : reachable progs orc s -> reachable progs orc (step_or_stay s t).
Proof.
  intros [sched ->]. exists (sched ++ [t]). unfold run_sched. rewrite fold_left_app. reflexivity.
Qed.

Lemma oracle_false s : forallb negb (oracle s) = true ->
  match oracle s with [] => false | x :: _ => x end = false /\ forallb negb (tl (oracle s)) = true.
Proof.
  destruct (oracle s) as [|x r]; cbn; [auto|]. rewrite andb_true_iff. intros [A B].
  destruct x; [discriminate | auto].
Qed.

Lemma od_cstep s s' : others_done s -> consumer_step s = Some s' -> others_done s'.
Proof.
  intros [DP [DT [DO DB]]] Hs. unfold consumer_step in Hs.
  assert (F : forall s2, posters s2 = posters s -> pauses s2 = pauses s ->
                forallb negb (oracle s2) = true -> cpc_ s2 <> CBP -> others_done s2).
  { intros s2 A B C E. unfold others_done. rewrite A, B. auto. }
  destruct (cpc_ s) eqn:Epc; try contradiction.
  - destruct (0 <? dispq s); inv Hs. apply F; pj; auto; discriminate.
  - destruct (oracle_false _ DO) as [O1 O2]. rewrite O1 in Hs. cbn [andb] in Hs. inv Hs.
    apply F; pj; auto; discriminate.
  - destruct (sq s) as [|[[o m] lk] r]; [inv Hs; apply F; pj; auto; discriminate|].
    destruct lk; inv Hs; apply F; pj; auto; discriminate.
  - inv Hs. apply F; pj; auto. destruct (suspended s); discriminate.
  - destruct (uq s) as [|[o z] r]; inv Hs; apply F; pj; auto; discriminate.
  - inv Hs. apply F; pj; auto; discriminate.
  - inv Hs. apply F; pj; auto; discriminate.
  - inv Hs. apply F; pj; auto; discriminate.
  - inv Hs. apply F; pj; auto; discriminate.
  - destruct ((0 <? cs s) || (negb (suspended s) && (0 <? cu s) && negb (cp s))); inv Hs;
      apply F; pj; auto; discriminate.
  - inv Hs. apply F; pj; auto. destruct (paused s); discriminate.
  - destruct (running s); inv Hs; apply F; pj; auto; discriminate.
  - inv Hs. apply F; pj; auto; discriminate.
Qed.

Lemma D_cstep progs orc s s' : D progs orc s -> consumer_step s = Some s' -> D progs orc s'.
Proof.
  intros [R O] Hs. split; [|eapply od_cstep; eassumption].
  pose proof (reach_step _ _ _ TConsumer R) as R'. unfold step_or_stay in R'. cbn [tstep] in R'.
  rewrite Hs in R'. exact R'.
Qed.

Lemma csteps_S s s' k : consumer_step s = Some s' -> csteps (S k) s = csteps k s'.
Proof. intro H. cbn [csteps]. unfold step_or_stay. cbn [tstep]. rewrite H. reflexivity. Qed.

Lemma counts_zero s : others_done s ->
  (forall c, c <> PReady -> nP s c = 0) /\ (forall c, c <> TDone -> nT s c = 0).
Proof.
  intros [DP [DT _]]. split.
  - intros c Hc. unfold nP. apply cnt_zero. intros i a E. destruct (DP _ _ E) as [-> _].
    destruct c; try reflexivity. contradiction.
  - intros c Hc. unfold nT. apply cnt_zero. intros j a E. rewrite (DT _ _ E).
    destruct c; try reflexivity. contradiction.
Qed.

(* ---- reachability by consumer steps only ---- *)
Definition creach (s s' : st) : Prop := exists k, csteps k s = s'.

Lemma creach_refl s : creach s s.
Proof. exists 0%nat. reflexivity. Qed.

Lemma creach_one s s' : consumer_step s = Some s' -> creach s s'.
Proof. intro H. exists 1%nat. rewrite (csteps_S _ _ _ H). reflexivity. Qed.

Lemma creach_trans a b c : creach a b -> creach b c -> creach a c.
Proof. intros [k1 <-] [k2 <-]. exists (k1 + k2)%nat. apply csteps_add. Qed.

Definition size (s : st) : nat := (length (sq s) + length (uq s))%nat.

Definition run_end (s : st) : Prop :=
  cpc_ s = CE1 /\ sq s = [] /\ (suspended s = true \/ uq s = []).

(* ---- A: from the top of the run() loop, the loop empties what it may and returns ---- *)
Lemma run_loop progs orc : forall n s, D progs orc s -> (size s <= n)%nat -> cpc_ s = CR1 ->
  exists s', creach s s' /\ run_end s' /\ D progs orc s'.
Proof.
  induction n as [|n IH]; intros s Ds Hn Epc;
    destruct (oracle_false _ (proj1 (proj2 (proj2 (d_done _ _ _ Ds))))) as [O1 _];
    (* R1 -> R2 *)
    (assert (S1 : exists s1, consumer_step s = Some s1 /\ cpc_ s1 = CR2 /\ sq s1 = sq s /\ uq s1 = uq s /\ suspended s1 = suspended s)
       by (unfold consumer_step; rewrite Epc, O1; cbn [andb]; eexists; split; [reflexivity|]; pj; auto));
    destruct S1 as [s1 [S1 [E1 [Q1 [U1 P1]]]]]; pose proof (D_cstep _ _ _ _ Ds S1) as D1;
    unfold size in Hn.
  - (* nothing queued *)
    assert (Hsq : sq s1 = []) by (rewrite Q1; destruct (sq s); [reflexivity | cbn in Hn; lia]).
    assert (Huq : uq s1 = []) by (rewrite U1; destruct (uq s); [reflexivity | cbn in Hn; lia]).
    assert (S2 : consumer_step s1 = Some (set_c s1 CR3)) by (unfold consumer_step; rewrite E1, Hsq; reflexivity).
    pose proof (D_cstep _ _ _ _ D1 S2) as D2.
    assert (S3 : consumer_step (set_c s1 CR3) = Some (set_c (set_c s1 CR3) (if suspended s1 then CE1 else CR4))) by reflexivity.
    pose proof (D_cstep _ _ _ _ D2 S3) as D3.
    destruct (suspended s1) eqn:Es.
    + eexists. split; [|split; [|exact D3]].
      * eapply creach_trans; [apply creach_one; exact S1|]. eapply creach_trans; [apply creach_one; exact S2|].
        apply creach_one; exact S3.
      * repeat split; pj; auto.
    + assert (S4 : consumer_step (set_c (set_c s1 CR3) CR4) = Some (set_c (set_c (set_c s1 CR3) CR4) CE1))
        by (unfold consumer_step; pj; rewrite Huq; reflexivity).
      pose proof (D_cstep _ _ _ _ D3 S4) as D4.
      eexists. split; [|split; [|exact D4]].
      * eapply creach_trans; [apply creach_one; exact S1|]. eapply creach_trans; [apply creach_one; exact S2|].
        eapply creach_trans; [apply creach_one; exact S3|]. apply creach_one; exact S4.
      * repeat split; pj; auto.
  - destruct (sq s1) as [|[[o m] lk] r] eqn:Hsq.
    + (* system queue empty: R2 -> R3 *)
      assert (S2 : consumer_step s1 = Some (set_c s1 CR3)) by (unfold consumer_step; rewrite E1, Hsq; reflexivity).
      pose proof (D_cstep _ _ _ _ D1 S2) as D2.
      assert (S3 : consumer_step (set_c s1 CR3) = Some (set_c (set_c s1 CR3) (if suspended s1 then CE1 else CR4))) by reflexivity.
      pose proof (D_cstep _ _ _ _ D2 S3) as D3.
      destruct (suspended s1) eqn:Es.
      * eexists. split; [|split; [|exact D3]].
        -- eapply creach_trans; [apply creach_one; exact S1|]. eapply creach_trans; [apply creach_one; exact S2|].
           apply creach_one; exact S3.
        -- repeat split; pj; auto.
      * destruct (uq s1) as [|[o z] r] eqn:Huq.
        -- assert (S4 : consumer_step (set_c (set_c s1 CR3) CR4) = Some (set_c (set_c (set_c s1 CR3) CR4) CE1))
             by (unfold consumer_step; pj; rewrite Huq; reflexivity).
           pose proof (D_cstep _ _ _ _ D3 S4) as D4.
           eexists. split; [|split; [|exact D4]].
           ++ eapply creach_trans; [apply creach_one; exact S1|]. eapply creach_trans; [apply creach_one; exact S2|].
              eapply creach_trans; [apply creach_one; exact S3|]. apply creach_one; exact S4.
           ++ repeat split; pj; auto.
        -- (* a user message is handed over: back to R1 with a shorter queue *)
           assert (S4 : exists s4, consumer_step (set_c (set_c s1 CR3) CR4) = Some s4 /\ cpc_ s4 = CR1 /\ sq s4 = [] /\ uq s4 = r).
           { unfold consumer_step. pj. rewrite Huq. eexists. split; [reflexivity|]. pj. auto. }
           destruct S4 as [s4 [S4 [E4 [Q4 U4]]]]. pose proof (D_cstep _ _ _ _ D3 S4) as D4.
           destruct (IH s4 D4) as [s' [R' [RE' D']]]; [|exact E4|].
           ++ unfold size. rewrite Q4, U4. rewrite <- ?U1, <- ?Q1 in Hn. rewrite ?Huq, ?Hsq in Hn. cbn in *. lia.
           ++ exists s'. split; [|split; assumption].
              eapply creach_trans; [apply creach_one; exact S1|]. eapply creach_trans; [apply creach_one; exact S2|].
              eapply creach_trans; [apply creach_one; exact S3|]. eapply creach_trans; [apply creach_one; exact S4|]. exact R'.
    + (* a system node at the head: it is linked, so it is taken *)
      assert (lk = true).
      { apply (all_linked _ _ _ (d_reach _ _ _ D1) (d_done _ _ _ D1) o m lk). rewrite Hsq. left. reflexivity. }
      subst lk.
      assert (S2 : exists s2, consumer_step s1 = Some s2 /\ cpc_ s2 = CR1 /\ sq s2 = r /\ uq s2 = uq s1).
      { unfold consumer_step. rewrite E1, Hsq. eexists. split; [reflexivity|]. pj. auto. }
      destruct S2 as [s2 [S2 [E2 [Q2 U2]]]]. pose proof (D_cstep _ _ _ _ D1 S2) as D2.
      destruct (IH s2 D2) as [s' [R' [RE' D']]]; [|exact E2|].
      * unfold size. rewrite Q2, U2, ?U1. rewrite <- ?Q1 in Hn. rewrite ?Hsq in Hn. cbn in *. lia.
      * exists s'. split; [|split; assumption].
        eapply creach_trans; [apply creach_one; exact S1|]. eapply creach_trans; [apply creach_one; exact S2|]. exact R'.
Qed.

(* ---- B: after such a run the after-run tail decides "nothing to do" and the consumer goes
        idle with nothing queued for it: nobody can step any more ---- *)
Lemma tail_quiesces progs orc s : D progs orc s -> run_end s ->
  exists s', creach s s' /\ quiescent s' /\ D progs orc s'.
Proof.
  intros Ds [Epc [Hsq Hsu]].
  pose proof (inv_reachable _ _ _ (d_reach _ _ _ Ds)) as [Iu Is Ip _ _ _ _ _ _].
  destruct (counts_zero _ (d_done _ _ _ Ds)) as [ZP ZT].
  rewrite Hsq in Is. rewrite !ZP in * by discriminate. rewrite !ZT in Ip by discriminate.
  assert (Hsys : sysN s = 0) by (unfold len in Is; cbn in Is; lia).
  assert (Hpa : paused s = false) by (destruct (paused s); cbn in Ip; [lia | reflexivity]).
  assert (Hus : suspended s = true \/ userN s = 0).
  { destruct Hsu as [H|H]; [left; exact H | right; rewrite H in Iu; unfold len in Iu; cbn in Iu; lia]. }
  (* E1 *)
  assert (S1 : exists s1, consumer_step s = Some s1 /\ cpc_ s1 = CE2 /\ running s1 = false /\ sysN s1 = 0 /\
               userN s1 = userN s /\ paused s1 = false /\ suspended s1 = suspended s /\ dispq s1 = dispq s)
    by (unfold consumer_step; rewrite Epc; eexists; split; [reflexivity|]; pj; auto 10).
  destruct S1 as [s1 [S1 [E1 [R1 [Y1 [U1 [P1 [X1 Q1]]]]]]]]. pose proof (D_cstep _ _ _ _ Ds S1) as D1.
  (* nothing is queued for the dispatcher *)
  assert (Hdq : dispq s1 = 0).
  { pose proof (inv_reachable _ _ _ (d_reach _ _ _ D1)) as [_ _ _ Ir Id _ _ _ _].
    destruct (counts_zero _ (d_done _ _ _ D1)) as [ZP1 ZT1].
    unfold active, nS3, cat in Ir. rewrite E1, R1, ZP1, ZT1 in Ir by discriminate. cbn in Ir. lia. }
  (* E2, E3, E4 *)
  assert (S2 : exists s2, consumer_step s1 = Some s2 /\ cpc_ s2 = CE3 /\ cs s2 = 0 /\ userN s2 = userN s /\
               paused s2 = false /\ suspended s2 = suspended s /\ dispq s2 = 0)
    by (unfold consumer_step; rewrite E1; eexists; split; [reflexivity|]; pj; rewrite ?Y1, ?U1, ?P1, ?X1, ?Hdq; auto 10).
  destruct S2 as [s2 [S2 [E2 [C2 [U2 [P2 [X2 Q2]]]]]]]. pose proof (D_cstep _ _ _ _ D1 S2) as D2.
  assert (S3 : exists s3, consumer_step s2 = Some s3 /\ cpc_ s3 = CE4 /\ cs s3 = 0 /\ cu s3 = userN s /\
               paused s3 = false /\ suspended s3 = suspended s /\ dispq s3 = 0)
    by (unfold consumer_step; rewrite E2; eexists; split; [reflexivity|]; pj; rewrite ?C2, ?U2, ?P2, ?X2, ?Q2; auto 10).
  destruct S3 as [s3 [S3 [E3 [C3 [V3 [P3 [X3 Q3]]]]]]]. pose proof (D_cstep _ _ _ _ D2 S3) as D3.
  assert (S4 : exists s4, consumer_step s3 = Some s4 /\ cpc_ s4 = CE5 /\ cs s4 = 0 /\ cu s4 = userN s /\
               cp s4 = false /\ suspended s4 = suspended s /\ dispq s4 = 0)
    by (unfold consumer_step; rewrite E3; eexists; split; [reflexivity|]; pj; rewrite ?C3, ?V3, ?P3, ?X3, ?Q3; auto 10).
  destruct S4 as [s4 [S4 [E4 [C4 [V4 [P4 [X4 Q4]]]]]]]. pose proof (D_cstep _ _ _ _ D3 S4) as D4.
  (* E5: the decision is "do not reschedule" *)
  assert (Hdec : (0 <? cs s4) || (negb (suspended s4) && (0 <? cu s4) && negb (cp s4)) = false).
  { rewrite C4, V4, P4, X4. cbn [Z.ltb Z.compare orb]. destruct Hus as [H|H]; rewrite H; cbn; [reflexivity|].
    destruct (suspended s); reflexivity. }
  assert (S5 : consumer_step s4 = Some (set_c s4 CIdle)) by (unfold consumer_step; rewrite E4, Hdec; reflexivity).
  pose proof (D_cstep _ _ _ _ D4 S5) as D5.
  exists (set_c s4 CIdle). split; [|split; [|exact D5]].
  - eapply creach_trans; [apply creach_one; exact S1|]. eapply creach_trans; [apply creach_one; exact S2|].
    eapply creach_trans; [apply creach_one; exact S3|]. eapply creach_trans; [apply creach_one; exact S4|].
    apply creach_one; exact S5.
  - apply others_done_quiescent; [exact (d_done _ _ _ D5)|].
    unfold consumer_step. pj. rewrite Q4. reflexivity.
Qed.

(* ---- C: from anywhere (except the pause CAS) the consumer reaches the top of a run, or
        idleness, by itself ---- *)
Definition crank (c : cpc) : nat :=
  match c with
  | CIdle | CR1 => 0
  | CS3 => 1 | CS2 => 2 | CS1 => 3 | CE5 => 4 | CE4 => 5 | CE3 => 6 | CE2 => 7 | CE1 => 8
  | CR4 => 9 | CR3 => 10 | CR2 => 11 | CBP => 12
  end%nat.

Lemma to_idle_or_run progs orc : forall r s, D progs orc s -> (crank (cpc_ s) <= r)%nat ->
  exists s', creach s s' /\ D progs orc s' /\ (cpc_ s' = CIdle \/ cpc_ s' = CR1).
Proof.
  induction r as [|r IH]; intros s Ds Hr.
  - exists s. split; [apply creach_refl|]. split; [exact Ds|].
    destruct (cpc_ s); cbn in Hr; try lia; auto.
  - destruct (Nat.eq_dec (crank (cpc_ s)) 0) as [Z|NZ].
    + exists s. split; [apply creach_refl|]. split; [exact Ds|]. destruct (cpc_ s); cbn in Z; try lia; auto.
    + assert (St : exists s1, consumer_step s = Some s1 /\ (crank (cpc_ s1) < crank (cpc_ s))%nat).
      { pose proof (proj2 (proj2 (proj2 (d_done _ _ _ Ds)))) as NB.
        unfold consumer_step. destruct (cpc_ s) eqn:Epc; cbn in NZ; try lia; try contradiction.
        - destruct (sq s) as [|[[o m] [|]] q]; eexists; (split; [reflexivity|]); pj; cbn; lia.
        - eexists; split; [reflexivity|]. pj. destruct (suspended s); cbn; lia.
        - destruct (uq s) as [|[o z] q]; eexists; (split; [reflexivity|]); pj; cbn; lia.
        - eexists; split; [reflexivity|]. pj. cbn. lia.
        - eexists; split; [reflexivity|]. pj. cbn. lia.
        - eexists; split; [reflexivity|]. pj. cbn. lia.
        - eexists; split; [reflexivity|]. pj. cbn. lia.
        - destruct ((0 <? cs s) || (negb (suspended s) && (0 <? cu s) && negb (cp s)));
            eexists; (split; [reflexivity|]); pj; cbn; lia.
        - eexists; split; [reflexivity|]. pj. destruct (paused s); cbn; lia.
        - destruct (running s); eexists; (split; [reflexivity|]); pj; cbn; lia.
        - eexists; split; [reflexivity|]. pj. cbn. lia. }
      destruct St as [s1 [S1 Lt]]. pose proof (D_cstep _ _ _ _ Ds S1) as D1.
      destruct (IH s1 D1) as [s' [R' [D' E']]]; [lia|].
      exists s'. split; [|split; assumption]. eapply creach_trans; [apply creach_one; exact S1 | exact R'].
Qed.

(* ---- the theorem ---- *)
Theorem consumer_drains progs orc s : reachable progs orc s -> others_done s ->
  exists n, quiescent (run_sched s (repeat TConsumer n)) /\
            reachable progs orc (run_sched s (repeat TConsumer n)).
Proof.
  intros R O. assert (Ds : D progs orc s) by (split; assumption).
  destruct (to_idle_or_run progs orc _ s Ds (Nat.le_refl _)) as [s1 [R1 [D1 E1]]].
  assert (G : exists s', creach s1 s' /\ quiescent s' /\ D progs orc s').
  { destruct E1 as [E1|E1].
    - (* idle: either nothing is queued for it, or it takes the queued activation *)
      destruct (Z.ltb_spec 0 (dispq s1)) as [L|L].
      + assert (S2 : exists s2, consumer_step s1 = Some s2 /\ cpc_ s2 = CR1).
        { unfold consumer_step. rewrite E1. destruct (Z.ltb_spec 0 (dispq s1)); [|lia].
          eexists; split; [reflexivity|]. reflexivity. }
        destruct S2 as [s2 [S2 E2]]. pose proof (D_cstep _ _ _ _ D1 S2) as D2.
        destruct (run_loop progs orc _ s2 D2 (Nat.le_refl _) E2) as [s3 [R3 [RE3 D3]]].
        destruct (tail_quiesces progs orc s3 D3 RE3) as [s4 [R4 [Q4 D4]]].
        exists s4. split; [|split; assumption].
        eapply creach_trans; [apply creach_one; exact S2|]. eapply creach_trans; eassumption.
      + exists s1. split; [apply creach_refl|]. split; [|exact D1].
        apply others_done_quiescent; [exact (d_done _ _ _ D1)|].
        unfold consumer_step. rewrite E1. destruct (Z.ltb_spec 0 (dispq s1)); [lia | reflexivity].
    - destruct (run_loop progs orc _ s1 D1 (Nat.le_refl _) E1) as [s3 [R3 [RE3 D3]]].
      destruct (tail_quiesces progs orc s3 D3 RE3) as [s4 [R4 [Q4 D4]]].
      exists s4. split; [|split; assumption]. eapply creach_trans; eassumption. }
  destruct G as [s' [R' [Q' D']]].
  destruct (creach_trans _ _ _ R1 R') as [n Hn]. exists n.
  rewrite <- csteps_run, Hn. split; [exact Q' | exact (d_reach _ _ _ D')].
Qed.
