From Cell2V Require Import Common.Tac Common.ListX C09.Model C09.Spec C09.Lemmas C09.InvPoster C09.InvConsumer C09.InvPause.

Lemma inv_init progs orc : Inv (init progs orc).
Proof.
  assert (Z0 : forall c, c <> PReady ->
            cnt (fun p => ppc_eqb (ppc_ p) c) (map (fun pr => mkPoster pr PReady [] []) progs) = 0).
  { intros c Hc. induction progs as [|x r IH]; simpl; [reflexivity|].
    rewrite IH. destruct c; simpl; try reflexivity. contradiction. }
  constructor; unf; cbn; rewrite ?Z0 by discriminate; lia.
Qed.

