From Cell2V Require Import Common.Tac Common.ListX C09.Model C09.Spec C09.Lemmas C09.InvPoster C09.InvConsumer C09.InvPause.

Lemma inv_init progs orc : Inv (init progs orc).
Proof.
  assert (Z0 : forall c, c <> PReady ->
            cnt (fun p => ppc_eqb (ppc_ p) c) (map (fun pr => mkPoster pr PReady [] []) progs) = 0).
  { intros c Hc. induction progs as [|x r IH]; simpl; [reflexivity|].
    rewrite IH. destruct c; simpl; try reflexivity. contradiction. }
  constructor; unf; cbn; rewrite ?Z0 by discriminate; lia.
Qed.


Lemma inv_step s t s' : Inv s -> tstep s t = Some s' -> Inv s'.
Proof.
  intros I H. destruct t as [i| |j]; cbn [tstep] in H.
  - destruct (nth_error (posters s) i) as [p|] eqn:E; [|discriminate]. eapply inv_poster; eassumption.
  - eapply inv_consumer; eassumption.
  - destruct (nth_error (pauses s) j) as [t|] eqn:E; [|discriminate]. eapply inv_pause; eassumption.
Qed.

Lemma inv_step_or_stay s t : Inv s -> Inv (step_or_stay s t).
Proof.
  intro I. unfold step_or_stay. destruct (tstep s t) eqn:E; [eapply inv_step; eassumption | exact I].
Qed.

Lemma inv_run s sched : Inv s -> Inv (run_sched s sched).
Proof.
  revert s. induction sched as [|t r IH]; intros s I; cbn [run_sched fold_left]; [exact I|].
  apply IH. apply inv_step_or_stay. exact I.
Qed.

Lemma inv_reachable progs orc s : reachable progs orc s -> Inv s.
Proof. intros [sched ->]. apply inv_run. apply inv_init. Qed.

(* generic: a predicate preserved by every step holds in every reachable state *)
Lemma reachable_ind (P : st -> Prop) progs orc :
  P (init progs orc) -> (forall s t s', P s -> tstep s t = Some s' -> P s') ->
  forall s, reachable progs orc s -> P s.
Proof.
  intros P0 Pstep s [sched ->]. generalize (init progs orc) P0. clear P0.
  induction sched as [|t r IH]; intros s0 H0; cbn [run_sched fold_left]; [exact H0|].
  apply IH. unfold step_or_stay. destruct (tstep s0 t) eqn:E; [eapply Pstep; eassumption | exact H0].
Qed.

(* ---------------------------------------------------------------- order / exactly once *)
Definition rem (p : poster) : list pmsg :=
  match ppc_ p with PReady => pprog p | _ => tl (pprog p) end.

(* what every poster has pushed so far is what was delivered/popped of it followed by what
   still sits in the queues; and its original programme is what it pushed followed by what
   it has not started yet *)
Definition Ord (progs : list (list pmsg)) (s : st) : Prop :=
  length (posters s) = length progs /\
  forall i p, nth_error (posters s) i = Some p ->
    pdoneU p = projU (Z.of_nat i) (deliveredU s) ++ projU (Z.of_nat i) (uq s) /\
    pdoneS p = projS (Z.of_nat i) (poppedS s) ++ projQ (Z.of_nat i) (sq s) /\
    usersOf (nth i progs []) = pdoneU p ++ usersOf (rem p) /\
    syssOf (nth i progs []) = pdoneS p ++ syssOf (rem p) /\
    (ppc_ p = PUInc -> exists z r, pprog p = PUser z :: r) /\
    (ppc_ p = PSLink \/ ppc_ p = PSInc -> exists m r, pprog p = PSys m :: r).

Lemma projU_app i a b : projU i (a ++ b) = projU i a ++ projU i b.
Proof. unfold projU. rewrite filter_app, map_app. reflexivity. Qed.
Lemma projS_app i a b : projS i (a ++ b) = projS i a ++ projS i b.
Proof. unfold projS. rewrite filter_app, map_app. reflexivity. Qed.
Lemma projQ_app i a b : projQ i (a ++ b) = projQ i a ++ projQ i b.
Proof. unfold projQ. rewrite filter_app, map_app. reflexivity. Qed.

Lemma projQ_link i j q : projQ i (link_node j q) = projQ i q.
Proof.
  induction q as [|[[o m] l] r IH]; [reflexivity|]. cbn [link_node].
  destruct (Z.eqb o j && negb l).
  - unfold projQ. cbn [filter fst snd]. destruct (Z.eqb o i); reflexivity.
  - unfold projQ in *. cbn [filter fst snd]. destruct (Z.eqb o i); cbn [map]; rewrite IH; reflexivity.
Qed.

Lemma projU_snoc i o z l : projU i (l ++ [(o, z)]) = projU i l ++ (if Z.eqb o i then [z] else []).
Proof. rewrite projU_app. unfold projU at 2. cbn. destruct (Z.eqb o i); reflexivity. Qed.
Lemma projS_snoc i o m l : projS i (l ++ [(o, m)]) = projS i l ++ (if Z.eqb o i then [m] else []).
Proof. rewrite projS_app. unfold projS at 2. cbn. destruct (Z.eqb o i); reflexivity. Qed.
Lemma projQ_snoc i o m b l : projQ i (l ++ [(o, m, b)]) = projQ i l ++ (if Z.eqb o i then [m] else []).
Proof. rewrite projQ_app. unfold projQ at 2. cbn. destruct (Z.eqb o i); reflexivity. Qed.
Lemma projU_cons i o z l : projU i ((o, z) :: l) = (if Z.eqb o i then [z] else []) ++ projU i l.
Proof. unfold projU. cbn. destruct (Z.eqb o i); reflexivity. Qed.
Lemma projQ_cons i o m b l : projQ i ((o, m, b) :: l) = (if Z.eqb o i then [m] else []) ++ projQ i l.
Proof. unfold projQ. cbn. destruct (Z.eqb o i); reflexivity. Qed.

Ltac pj :=
  cbn [posters uq sq userN sysN running paused suspended dispq cpc_ cs cu cp pauses deliveredU
       poppedS invokedS oracle ppc_ pprog pdoneU pdoneS set_posters set_pauses set_c] in *.

Lemma length_upd {A} (l : list A) i x : length (upd l i x) = length l.
Proof. revert i. induction l as [|a r IH]; intros [|i]; simpl; auto. Qed.

Lemma nat_eqb_Z i j : Z.eqb (Z.of_nat i) (Z.of_nat j) = Nat.eqb i j.
Proof. destruct (Nat.eqb_spec i j); [subst; apply Z.eqb_refl | apply Z.eqb_neq; lia]. Qed.

Lemma ord_init progs orc : Ord progs (init progs orc).
Proof.
  split; [cbn; apply map_length|]. intros i p H. cbn in H.
  rewrite nth_error_map in H. destruct (nth_error progs i) as [pr|] eqn:E; [|discriminate].
  inv H. cbn. rewrite (nth_error_nth _ _ _ E).
  repeat split; try reflexivity; try discriminate. intros [X|X]; discriminate.
Qed.

Ltac ord_other Hi N :=
  rewrite nth_error_upd_other in Hi by exact N.

Ltac splitk i k Hn Hk :=
  destruct (Nat.eq_dec i k) as [?E|?N];
  [subst k; rewrite (nth_error_upd_same _ _ _ _ Hn) in Hk; injection Hk as <-
  | rewrite nth_error_upd_other in Hk by assumption].

Lemma ord_poster progs s i p s' :
  Ord progs s -> nth_error (posters s) i = Some p -> poster_step s i p = Some s' -> Ord progs s'.
Proof.
  intros [L O] Hn Hs. unfold poster_step in Hs.
  destruct (O _ _ Hn) as [OU [OS [PU [PS [HU HS]]]]].
  destruct (ppc_ p) eqn:Epc.
  - destruct (pprog p) as [|[z|m] r] eqn:Epr; [discriminate| |]; inv Hs;
      (split; [pj; rewrite length_upd; exact L|]); intros k q Hk; pj;
      splitk i k Hn Hk.
    + pj. rewrite projU_snoc, Z.eqb_refl. unfold rem in *. pj. rewrite Epc, Epr in *. cbn [tl usersOf syssOf] in *.
      rewrite OU, <- !app_assoc. repeat split; try discriminate; eauto.
      * rewrite PU, OU, <- !app_assoc. reflexivity.
      * intros [X|X]; discriminate.
    + rewrite projU_snoc, nat_eqb_Z. destruct (Nat.eqb_spec i k); [contradiction|].
      rewrite app_nil_r. exact (O _ _ Hk).
    + pj. rewrite projQ_snoc, Z.eqb_refl. unfold rem in *. pj. rewrite Epc, Epr in *. cbn [tl usersOf syssOf] in *.
      rewrite OS, <- !app_assoc. repeat split; try discriminate; eauto.
      rewrite PS, OS, <- !app_assoc. reflexivity.
    + rewrite projQ_snoc, nat_eqb_Z. destruct (Nat.eqb_spec i k); [contradiction|].
      rewrite app_nil_r. exact (O _ _ Hk).
  - (* PUInc *)
    inv Hs. split; [pj; rewrite length_upd; exact L|]. intros k q Hk; pj.
    splitk i k Hn Hk; [|exact (O _ _ Hk)].
    pj. unfold rem in *. pj. rewrite Epc in *. repeat split; auto; try discriminate; try (intros [X|X]; discriminate).
  - (* PSLink *)
    inv Hs. split; [pj; rewrite length_upd; exact L|]. intros k q Hk; pj. rewrite projQ_link.
    splitk i k Hn Hk; [|exact (O _ _ Hk)].
    pj. unfold rem in *. pj. rewrite Epc in *. repeat split; auto; try discriminate.
  - (* PSInc *)
    inv Hs. split; [pj; rewrite length_upd; exact L|]. intros k q Hk; pj.
    splitk i k Hn Hk; [|exact (O _ _ Hk)].
    pj. unfold rem in *. pj. rewrite Epc in *. repeat split; auto; try discriminate; try (intros [X|X]; discriminate).
  - (* PS1 *)
    inv Hs. split; [pj; rewrite length_upd; exact L|]. intros k q Hk; pj.
    splitk i k Hn Hk; [|exact (O _ _ Hk)].
    pj. unfold rem in *. pj. rewrite Epc in *.
    destruct (paused s); pj; repeat split; auto; try discriminate; try (intros [X|X]; discriminate).
  - (* PS2 *)
    destruct (running s); inv Hs; (split; [pj; rewrite length_upd; exact L|]); intros k q Hk; pj;
      (splitk i k Hn Hk; [|exact (O _ _ Hk)]);
      pj; unfold rem in *; pj; rewrite Epc in *; repeat split; auto; try discriminate; try (intros [X|X]; discriminate).
  - (* PS3 *)
    inv Hs. split; [pj; rewrite length_upd; exact L|]. intros k q Hk; pj.
    splitk i k Hn Hk; [|exact (O _ _ Hk)].
    pj. unfold rem in *. pj. rewrite Epc in *. repeat split; auto; try discriminate; try (intros [X|X]; discriminate).
Qed.

Lemma ord_consumer progs s s' : Ord progs s -> consumer_step s = Some s' -> Ord progs s'.
Proof.
  intros [L O] Hs. unfold consumer_step in Hs.
  destruct (cpc_ s) eqn:Epc.
  - destruct (0 <? dispq s); inv Hs. split; pj; assumption.
  - inv Hs. split; pj; assumption.
  - destruct (paused s); inv Hs; split; pj; assumption.
  - destruct (sq s) as [|[[o m] lk] r] eqn:Eq; [inv Hs; split; pj; [assumption | rewrite Eq; assumption]|].
    destruct lk; inv Hs; [|split; pj; [assumption | rewrite Eq; assumption]].
    split; [pj; assumption|]. intros k q Hk. pj. specialize (O _ _ Hk).
    rewrite projQ_cons in O. rewrite projS_snoc, <- app_assoc. exact O.
  - inv Hs. split; pj; assumption.
  - destruct (uq s) as [|[o z] r] eqn:Eq; inv Hs; [split; pj; [assumption | rewrite Eq; assumption]|].
    split; [pj; assumption|]. intros k q Hk. pj. specialize (O _ _ Hk).
    rewrite projU_cons in O. rewrite projU_snoc, <- app_assoc. exact O.
  - inv Hs. split; pj; assumption.
  - inv Hs. split; pj; assumption.
  - inv Hs. split; pj; assumption.
  - inv Hs. split; pj; assumption.
  - destruct ((0 <? cs s) || (negb (suspended s) && (0 <? cu s) && negb (cp s))); inv Hs; split; pj; assumption.
  - inv Hs. split; pj; assumption.
  - destruct (running s); inv Hs; split; pj; assumption.
  - inv Hs. split; pj; assumption.
Qed.

Lemma ord_pause progs s j t s' : Ord progs s -> pause_step s j t = Some s' -> Ord progs s'.
Proof.
  intros [L O] Hs. unfold pause_step in Hs.
  destruct t; try discriminate; try (inv Hs; split; pj; assumption).
  destruct (running s); inv Hs; split; pj; assumption.
Qed.

Lemma ord_reachable progs orc s : reachable progs orc s -> Ord progs s.
Proof.
  apply reachable_ind; [apply ord_init|].
  intros s0 t s' O H. destruct t as [i| |j]; cbn [tstep] in H.
  - destruct (nth_error (posters s0) i) as [p|] eqn:E; [|discriminate]. eapply ord_poster; eassumption.
  - eapply ord_consumer; eassumption.
  - destruct (nth_error (pauses s0) j) as [t|] eqn:E; [|discriminate]. eapply ord_pause; eassumption.
Qed.

(* ---------------------------------------------------------------- the theorems *)
Lemma prefix_app_r {A} (a b c : list A) : a ++ b = c -> prefix a c.
Proof. intros <-. exists b. reflexivity. Qed.

(* per-sender order, at most once: what has been delivered of poster i is, in order, a
   prefix of what it was asked to post *)
Lemma once_in_order progs orc s : reachable progs orc s ->
  forall i, (i < length progs)%nat ->
    prefix (projU (Z.of_nat i) (deliveredU s)) (usersOf (nth i progs [])) /\
    prefix (projS (Z.of_nat i) (poppedS s)) (syssOf (nth i progs [])).
Proof.
  intros R i Hi. destruct (ord_reachable _ _ _ R) as [L O].
  destruct (nth_error (posters s) i) as [p|] eqn:E;
    [|apply nth_error_None in E; lia].
  destruct (O _ _ E) as [OU [OS [PU [PS _]]]]. split.
  - rewrite PU, OU, <- app_assoc. eexists. reflexivity.
  - rewrite PS, OS, <- app_assoc. eexists. reflexivity.
Qed.

(* nothing is delivered that no poster posted: every owner tag is a poster index *)
Definition okU (n : Z) (l : list (Z * Z)) : Prop := Forall (fun e => 0 <= fst e < n) l.
Definition okS (n : Z) (l : list (Z * smsg)) : Prop := Forall (fun e => 0 <= fst e < n) l.
Definition okQ (n : Z) (l : list (Z * smsg * bool)) : Prop := Forall (fun e => 0 <= fst (fst e) < n) l.

Definition Own (n : Z) (s : st) : Prop :=
  Z.of_nat (length (posters s)) = n /\ okU n (uq s) /\ okU n (deliveredU s) /\ okQ n (sq s) /\ okS n (poppedS s).

Lemma okQ_link n i q : okQ n q -> okQ n (link_node i q).
Proof.
  induction 1 as [|[[o m] l] r H1 H2 IH]; cbn [link_node]; [constructor|].
  destruct (Z.eqb o i && negb l); constructor; auto.
Qed.

Lemma own_step n s t s' : Own n s -> tstep s t = Some s' -> Own n s'.
Proof.
  intros [L [U [D [Q P]]]] H. destruct t as [i| |j]; cbn [tstep] in H.
  - destruct (nth_error (posters s) i) as [p|] eqn:E; [|discriminate].
    assert (Hi : (i < length (posters s))%nat) by (apply nth_error_Some; congruence).
    unfold poster_step in H.
    destruct (ppc_ p); [destruct (pprog p) as [|[z|m] r]; [discriminate| |]| | | | | |];
      try (destruct (running s)); inv H; unfold Own; pj; rewrite length_upd;
      repeat split; auto;
      try (apply Forall_app; split; [assumption | constructor; [cbn; lia | constructor]]);
      try (apply okQ_link; assumption).
  - unfold consumer_step in H. destruct (cpc_ s).
    + destruct (0 <? dispq s); inv H. repeat split; pj; assumption.
    + inv H. repeat split; pj; assumption.
    + destruct (paused s); inv H; repeat split; pj; assumption.
    + destruct (sq s) as [|[[o m] lk] r] eqn:Eq; [inv H; repeat split; pj; try rewrite Eq; assumption|].
      destruct lk; inv H; [|repeat split; pj; try rewrite Eq; assumption].
      inversion Q as [|x y Q1 Q2]; subst. repeat split; pj; auto.
      apply Forall_app. split; [exact P|]. constructor; [exact Q1 | constructor].
    + inv H. repeat split; pj; assumption.
    + destruct (uq s) as [|[o z] r] eqn:Eq; inv H; [repeat split; pj; try rewrite Eq; assumption|].
      inversion U as [|x y U1 U2]; subst. repeat split; pj; auto.
      apply Forall_app. split; [exact D|]. constructor; [exact U1 | constructor].
    + inv H. repeat split; pj; assumption.
    + inv H. repeat split; pj; assumption.
    + inv H. repeat split; pj; assumption.
    + inv H. repeat split; pj; assumption.
    + destruct ((0 <? cs s) || (negb (suspended s) && (0 <? cu s) && negb (cp s))); inv H; repeat split; pj; assumption.
    + inv H. repeat split; pj; assumption.
    + destruct (running s); inv H; repeat split; pj; assumption.
    + inv H. repeat split; pj; assumption.
  - destruct (nth_error (pauses s) j) as [t|] eqn:E; [|discriminate]. unfold pause_step in H.
    destruct t; try discriminate; try (inv H; repeat split; pj; assumption).
    destruct (running s); inv H; repeat split; pj; assumption.
Qed.

Lemma own_reachable progs orc s : reachable progs orc s -> Own (Z.of_nat (length progs)) s.
Proof.
  apply reachable_ind.
  - unfold Own. cbn. rewrite map_length. repeat split; constructor.
  - intros. eapply own_step; eassumption.
Qed.

Lemma cnt_zero {A} (f : A -> bool) l :
  (forall i a, nth_error l i = Some a -> f a = false) -> cnt f l = 0.
Proof.
  induction l as [|x r IH]; intro H; cbn [cnt]; [reflexivity|].
  rewrite (H 0%nat x eq_refl). rewrite IH; [reflexivity|]. intros i a Hi. exact (H (S i) a Hi).
Qed.

Lemma quiescent_posters s : quiescent s ->
  forall i p, nth_error (posters s) i = Some p -> ppc_ p = PReady /\ pprog p = [].
Proof.
  intros Q i p E. specialize (Q (TPoster i)). cbn [tstep] in Q. rewrite E in Q.
  unfold poster_step in Q.
  destruct (ppc_ p); [destruct (pprog p) as [|[z|m] r]; [auto|discriminate|discriminate]| | | | | |];
    try discriminate. destruct (running s); discriminate.
Qed.

Lemma quiescent_pauses s : quiescent s ->
  forall j t, nth_error (pauses s) j = Some t -> t = TDone.
Proof.
  intros Q j t E. specialize (Q (TPause j)). cbn [tstep] in Q. rewrite E in Q.
  unfold pause_step in Q. destruct t; try discriminate; [|reflexivity].
  destruct (running s); discriminate.
Qed.

Lemma quiescent_consumer s : quiescent s -> cpc_ s = CIdle /\ dispq s <= 0.
Proof.
  intro Q. specialize (Q TConsumer). cbn [tstep] in Q. unfold consumer_step in Q.
  destruct (cpc_ s); try discriminate.
  - destruct (Z.ltb_spec 0 (dispq s)); [discriminate|]. split; [reflexivity | lia].
  - destruct (paused s); discriminate.
  - destruct (sq s) as [|[[o m] [|]] r]; discriminate.
  - destruct (uq s) as [|[o z] r]; discriminate.
  - destruct ((0 <? cs s) || (negb (suspended s) && (0 <? cu s) && negb (cp s))); discriminate.
  - destruct (running s); discriminate.
Qed.

Lemma len_zero_nil {A} (l : list A) : len l <= 0 -> l = [].
Proof. destruct l; [reflexivity|]. unfold len. cbn [length]. lia. Qed.

Lemma projU_nil i : projU i [] = [].
Proof. reflexivity. Qed.

(* never stalls: when no thread can take a step, nothing is left behind *)
Lemma quiescent_drained progs orc s : reachable progs orc s -> quiescent s ->
  sq s = [] /\ running s = false /\ paused s = false /\
  (suspended s = false -> uq s = []) /\
  forall i, (i < length progs)%nat ->
    projS (Z.of_nat i) (poppedS s) = syssOf (nth i progs []) /\
    (suspended s = false -> projU (Z.of_nat i) (deliveredU s) = usersOf (nth i progs [])).
Proof.
  intros R Q. pose proof (inv_reachable _ _ _ R) as [Iu Is Ip Ir Id K1 K2 K3 W].
  destruct (ord_reachable _ _ _ R) as [L O].
  pose proof (quiescent_posters _ Q) as QP. pose proof (quiescent_pauses _ Q) as QT.
  destruct (quiescent_consumer _ Q) as [QC QD].
  assert (ZP : forall c, c <> PReady -> nP s c = 0).
  { intros c Hc. unfold nP. apply cnt_zero. intros i a E. destruct (QP _ _ E) as [-> _].
    destruct c; try reflexivity. contradiction. }
  assert (ZT : forall c, c <> TDone -> nT s c = 0).
  { intros c Hc. unfold nT. apply cnt_zero. intros j a E. rewrite (QT _ _ E).
    destruct c; try reflexivity. contradiction. }
  unfold helped, work, inSched, nS3, active, in_tail, cat in *. rewrite QC in *.
  rewrite !ZP in * by discriminate. rewrite !ZT in * by discriminate. cbn [cpc_eqb b2z] in *.
  assert (Hr : running s = false) by (destruct (running s); cbn [b2z] in *; [lia | reflexivity]).
  assert (Hp : paused s = false) by (destruct (paused s); cbn [b2z] in *; [lia | reflexivity]).
  rewrite Hr, Hp in *. cbn [b2z] in *.
  assert (Hsq : sq s = []).
  { apply len_zero_nil. destruct (Z.ltb_spec 0 (sysN s)) as [G|G]; [|lia].
    specialize (W (or_introl G)). lia. }
  assert (Huq : suspended s = false -> uq s = []).
  { intro Hs. apply len_zero_nil. destruct (Z.ltb_spec 0 (userN s)) as [G|G]; [|lia].
    assert (X : 0 < sysN s \/ b2z (suspended s) = 0 /\ 0 < userN s) by (right; rewrite Hs; split; [reflexivity | exact G]).
    specialize (W X). lia. }
  repeat split; auto.
  - destruct (nth_error (posters s) i) as [p|] eqn:E; [|apply nth_error_None in E; lia].
    destruct (O _ _ E) as [OU [OS [PU [PS _]]]]. destruct (QP _ _ E) as [Epc Epr].
    unfold rem in PS. rewrite Epc, Epr in PS. cbn [syssOf] in PS.
    rewrite PS, OS, Hsq, app_nil_r. cbn. rewrite app_nil_r. reflexivity.
  - intro Hs. destruct (nth_error (posters s) i) as [p|] eqn:E; [|apply nth_error_None in E; lia].
    destruct (O _ _ E) as [OU [OS [PU [PS _]]]]. destruct (QP _ _ E) as [Epc Epr].
    unfold rem in PU. rewrite Epc, Epr in PU. cbn [usersOf] in PU.
    rewrite PU, OU, (Huq Hs), app_nil_r. cbn. rewrite app_nil_r. reflexivity.
Qed.

(* never two at a time: at most one activation is scheduled, queued or executing *)
Lemma single_run progs orc s : reachable progs orc s ->
  0 <= dispq s /\ dispq s + active s + nS3 s <= 1 /\
  (running s = true <-> dispq s + active s + nS3 s = 1).
Proof.
  intro R. pose proof (inv_reachable _ _ _ R) as [Iu Is Ip Ir Id K1 K2 K3 W].
  pose proof (b2z_range (running s)). repeat split; try lia.
  - intro E. rewrite E in Ir. cbn in Ir. lia.
  - intro E. destruct (running s); [reflexivity|]. cbn in Ir. lia.
Qed.

(* system messages first: a user message is only taken at R4, R4 is only entered from R3,
   and R3 only from an R2 that found no reachable system message *)
Definition visible_head (q : list (Z * smsg * bool)) : bool :=
  match q with (_, _, true) :: _ => true | _ => false end.

Ltac sf :=
  repeat split; intros; try discriminate; try congruence;
  try (exfalso; match goal with X : ?a <> ?a |- _ => apply X; reflexivity end).

Lemma sys_first s s' : tstep s TConsumer = Some s' ->
  (deliveredU s' <> deliveredU s -> cpc_ s = CR4) /\
  (cpc_ s' = CR4 -> cpc_ s = CR3 /\ suspended s = false) /\
  (cpc_ s' = CR3 -> cpc_ s = CR2 /\ visible_head (sq s) = false).
Proof.
  cbn [tstep]. unfold consumer_step. intro H.
  destruct (cpc_ s) eqn:Epc.
  - destruct (0 <? dispq s); inv H. pj. sf.
  - inv H. pj. destruct (_ && _); sf.
  - destruct (paused s); inv H; pj; sf.
  - destruct (sq s) as [|[[o m] lk] r] eqn:Eq; [inv H; pj; sf|].
    destruct lk; inv H; pj; sf.
  - inv H. pj. destruct (suspended s) eqn:Es; sf.
  - destruct (uq s) as [|[o z] r]; inv H; pj; sf.
  - inv H. pj. sf.
  - inv H. pj. sf.
  - inv H. pj. sf.
  - inv H. pj. sf.
  - destruct ((0 <? cs s) || (negb (suspended s) && (0 <? cu s) && negb (cp s))); inv H; pj; sf.
  - inv H. pj. destruct (paused s); sf.
  - destruct (running s); inv H; pj; sf.
  - inv H. pj. sf.
Qed.

(* no lost wake-up, as a state invariant: whenever there is work, somebody is bound to act *)
Lemma no_lost_wakeup progs orc s : reachable progs orc s -> work s -> 0 < helped s + in_tail s.
Proof. intros R. apply (i_wake _ (inv_reachable _ _ _ R)). Qed.
