(* C09 x C03 - the mailbox is a merge stage.

   C03's order theorems (C03/Fifo.v) assume that the front-end's mailbox hands over ANY
   interleaving ("Merge") of what the individual senders posted, each sender's messages in
   its own order.  This file discharges that assumption for the mailbox model of C09: at
   quiescence the sequence of user messages handed to the service IS a Merge of the posters'
   programmes. *)
From Cell2V Require Import Common.Tac Common.ListX C09.Model C09.Spec C09.Proofs.
From Cell2V Require C03.Fifo.

Section ProjMerge.
  Context {A : Type}.
  Variable sender : A -> Z.

  (* converse of Fifo.merge_proj: a stream whose per-sender projections are the sources is
     a merge of the sources *)
  Lemma proj_merge : forall out (src : Z -> list A),
    (forall k, C03.Fifo.from sender k out = src k) -> C03.Fifo.Merge src out.
  Proof.
    induction out as [|x r IH]; intros src H.
    - apply C03.Fifo.m_done. intro k. rewrite <- H. reflexivity.
    - pose proof (H (sender x)) as Hx. unfold C03.Fifo.from in Hx. cbn [filter] in Hx.
      rewrite Z.eqb_refl in Hx.
      eapply C03.Fifo.m_take with (k := sender x); [symmetry; exact Hx|].
      apply IH. intro k. unfold C03.Fifo.upd. destruct (Z.eqb_spec k (sender x)) as [->|N].
      + reflexivity.
      + rewrite <- H. unfold C03.Fifo.from. cbn [filter].
        destruct (Z.eqb_spec (sender x) k); [congruence | reflexivity].
  Qed.
End ProjMerge.

(* what poster k posted, tagged with its owner *)
Definition posted (progs : list (list pmsg)) (k : Z) : list (Z * Z) :=
  if (0 <=? k) && (k <? Z.of_nat (length progs))
  then map (fun z => (k, z)) (usersOf (nth (Z.to_nat k) progs []))
  else [].

Lemma from_projU k l :
  map snd (C03.Fifo.from (@fst Z Z) k l) = projU k l.
Proof. reflexivity. Qed.

Lemma tagged_eq k (l : list (Z * Z)) :
  Forall (fun e => fst e = k) l -> l = map (fun z => (k, z)) (map snd l).
Proof.
  induction 1 as [|[o z] r H1 H2 IH]; [reflexivity|]. cbn in *. subst. rewrite <- IH. reflexivity.
Qed.

Lemma from_owner k (l : list (Z * Z)) : Forall (fun e => fst e = k) (C03.Fifo.from (@fst Z Z) k l).
Proof.
  unfold C03.Fifo.from. induction l as [|x r IH]; cbn [filter]; [constructor|].
  destruct (Z.eqb_spec (fst x) k); [constructor; assumption | assumption].
Qed.

Lemma from_none k (l : list (Z * Z)) n :
  Forall (fun e => 0 <= fst e < n) l -> ~ (0 <= k < n) -> C03.Fifo.from (@fst Z Z) k l = [].
Proof.
  intros H N. unfold C03.Fifo.from. induction H as [|x r H1 H2 IH]; [reflexivity|]. cbn [filter].
  destruct (Z.eqb_spec (fst x) k); [lia | exact IH].
Qed.

Theorem mailbox_is_merge progs orc s :
  reachable progs orc s -> quiescent s -> suspended s = false ->
  C03.Fifo.Merge (posted progs) (deliveredU s).
Proof.
  intros R Q S. apply (proj_merge (@fst Z Z)). intro k. unfold posted.
  destruct (own_reachable _ _ _ R) as [_ [_ [D _]]].
  destruct (Z.leb_spec 0 k); destruct (Z.ltb_spec k (Z.of_nat (length progs))); cbn [andb];
    try (apply (from_none k _ _ D); lia).
  destruct (quiescent_drained _ _ _ R Q) as [_ [_ [_ [_ E]]]].
  destruct (E (Z.to_nat k)) as [_ EU]; [lia|]. specialize (EU S). rewrite Z2Nat.id in EU by lia.
  rewrite (tagged_eq k _ (from_owner k (deliveredU s))). rewrite from_projU, EU. reflexivity.
Qed.
