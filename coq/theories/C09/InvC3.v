From Cell2V Require Import Common.Tac Common.ListX C09.Model C09.Spec C09.Lemmas.

Lemma inv_c_CR3 s s' : Inv s -> cpc_ s = CR3 -> consumer_step s = Some s' -> Inv s'.
Proof.
  intros [Iu Is Ip Ir Id K1 K2 K3 W] Epc Hs. unfold consumer_step in Hs. rewrite Epc in Hs.
    inv Hs. destruct (suspended s) eqn:Es; constructor; unf; proj; rewrite ?Epc, ?Es in *; fin.
Qed.

Lemma inv_c_CR4 s s' : Inv s -> cpc_ s = CR4 -> consumer_step s = Some s' -> Inv s'.
Proof.
  intros [Iu Is Ip Ir Id K1 K2 K3 W] Epc Hs. unfold consumer_step in Hs. rewrite Epc in Hs.
    destruct (uq s) as [|[o z] r] eqn:Eq; inv Hs; constructor; unf; proj; rewrite ?Epc, ?Eq in *; fin.
Qed.

