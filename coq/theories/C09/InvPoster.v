From Cell2V Require Import Common.Tac Common.ListX C09.Model C09.Spec C09.Lemmas.

Lemma inv_poster s i p s' :
  Inv s -> nth_error (posters s) i = Some p -> poster_step s i p = Some s' -> Inv s'.
Proof.
  intros [Iu Is Ip Ir Id K1 K2 K3 W] Hn Hs. unfold poster_step in Hs.
  destruct (ppc_ p) eqn:Epc.
  - (* PReady *)
    destruct (pprog p) as [|[z|m] r] eqn:Epr; [discriminate| |]; inv Hs;
      constructor; unf; proj;
      rewrite ?(cnt_upd _ _ _ _ _ Hn), ?Epc, ?len_app, ?len_cons, ?len_nil in *; cbn [ppc_ ppc_eqb b2z] in *;
      nonneg; b2zr; try lia.
  - (* PUInc *)
    inv Hs; constructor; unf; proj;
      rewrite ?(cnt_upd _ _ _ _ _ Hn), ?Epc in *; self_counted Hn Epc; cbn [ppc_ ppc_eqb b2z] in *; nonneg; b2zr; try lia.
  - (* PSLink *)
    inv Hs; constructor; unf; proj;
      rewrite ?(cnt_upd _ _ _ _ _ Hn), ?Epc, ?len_link in *; self_counted Hn Epc; cbn [ppc_ ppc_eqb b2z] in *; nonneg; b2zr; try lia.
  - (* PSInc *)
    inv Hs; constructor; unf; proj;
      rewrite ?(cnt_upd _ _ _ _ _ Hn), ?Epc in *; self_counted Hn Epc; cbn [ppc_ ppc_eqb b2z] in *; nonneg; b2zr; try lia.
  - (* PS1 *)
    inv Hs; destruct (paused s) eqn:Ep;
      constructor; unf; proj;
      rewrite ?(cnt_upd _ _ _ _ _ Hn), ?Epc, ?Ep in *; self_counted Hn Epc; cbn [ppc_ ppc_eqb b2z] in *; nonneg; b2zr; try lia.
  - (* PS2 *)
    destruct (running s) eqn:Er; inv Hs;
      constructor; unf; proj;
      rewrite ?(cnt_upd _ _ _ _ _ Hn), ?Epc, ?Er in *; self_counted Hn Epc; cbn [ppc_ ppc_eqb b2z] in *; nonneg; b2zr; try lia.
  - (* PS3 *)
    inv Hs; constructor; unf; proj;
      rewrite ?(cnt_upd _ _ _ _ _ Hn), ?Epc in *; self_counted Hn Epc; cbn [ppc_ ppc_eqb b2z] in *; nonneg; b2zr; try lia.
Qed.
