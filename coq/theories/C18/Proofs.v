(* C18 - lemmas and proofs. *)
From Cell2V Require Import Common.Tac Common.ListX Common.AList C18.Model C18.Spec.

(* ================================================================== basics *)
Lemma pstate_eqb_eq a b : pstate_eqb a b = true -> a = b.
Proof. destruct a, b; simpl; intro H; try reflexivity; discriminate. Qed.
Lemma pstate_eqb_neq a b : pstate_eqb a b = false -> a <> b.
Proof. destruct a, b; simpl; intros H E; try discriminate H; discriminate E. Qed.
Lemma pstate_eqb_refl a : pstate_eqb a a = true.
Proof. destruct a; reflexivity. Qed.
Lemma txn_eqb_eq a b : txn_eqb a b = true -> a = b.
Proof. destruct a, b; simpl; intro H; try reflexivity; discriminate. Qed.
Lemma txn_eqb_neq a b : txn_eqb a b = false -> a <> b.
Proof. destruct a, b; simpl; intros H E; try discriminate H; discriminate E. Qed.
Lemma txn_eqb_refl a : txn_eqb a a = true.
Proof. destruct a; reflexivity. Qed.

Ltac dpst x y :=
  let E := fresh "Est" in
  destruct (pstate_eqb x y) eqn:E; [apply pstate_eqb_eq in E | apply pstate_eqb_neq in E].

(* ---- runs ---- *)
Lemma run_from_app s a b : run_from s (a ++ b) = run_from (run_from s a) b.
Proof. revert s. induction a as [|o a IH]; intro s; simpl; [reflexivity | apply IH]. Qed.

Lemma final_app a b : final (a ++ b) = run_from (final a) b.
Proof. apply run_from_app. Qed.

Lemma final_snoc h o : final (h ++ [o]) = fst (step (final h) o).
Proof. rewrite final_app. reflexivity. Qed.

Lemma ghost_from_app s G a b :
  ghost_from s G (a ++ b) = ghost_from (run_from s a) (ghost_from s G a) b.
Proof. revert s G. induction a as [|o a IH]; intros s G; simpl; [reflexivity | apply IH]. Qed.

Lemma ghost_snoc h o :
  ghost (h ++ [o]) = fun u => gh_step (final h) o (outs_at h o) u (ghost h u).
Proof. unfold ghost. rewrite ghost_from_app. reflexivity. Qed.

Lemma conf_from_app s G a b :
  conf_from s G (a ++ b) = conf_from s G a && conf_from (run_from s a) (ghost_from s G a) b.
Proof.
  revert s G. induction a as [|o a IH]; intros s G; simpl; [reflexivity|].
  rewrite IH. rewrite andb_assoc. reflexivity.
Qed.

Lemma conformant_snoc h o : conformant (h ++ [o]) <-> conformant h /\ conf_op (ghost h) o = true.
Proof.
  unfold conformant, conformant_b. rewrite conf_from_app. simpl. rewrite andb_true_r.
  rewrite andb_true_iff. reflexivity.
Qed.

Lemma conformant_app_l a b : conformant (a ++ b) -> conformant a.
Proof.
  unfold conformant, conformant_b. rewrite conf_from_app. rewrite andb_true_iff. tauto.
Qed.

Lemma outs_from_app s a b : outs_from s (a ++ b) = outs_from s a ++ outs_from (run_from s a) b.
Proof.
  revert s. induction a as [|o a IH]; intro s; simpl; [reflexivity|].
  rewrite IH. rewrite app_assoc. reflexivity.
Qed.

Lemma all_outs_snoc h o : all_outs (h ++ [o]) = all_outs h ++ outs_at h o.
Proof. unfold all_outs. rewrite outs_from_app. simpl. rewrite app_nil_r. reflexivity. Qed.

(* ---- association lists ---- *)
Lemma lb_filter_map {V} (f : V -> V) (keep : Z * V -> bool) k (m : alist V) :
  lb k m -> lb k (filter keep (map (fun kv => (fst kv, f (snd kv))) m)).
Proof.
  induction m as [|[k' v'] r IH]; simpl; [tauto|]. intros [L1 L2].
  destruct (keep (k', f v')); simpl; [split; auto | auto].
Qed.

Lemma sorted_filter_map {V} (f : V -> V) (keep : Z * V -> bool) (m : alist V) :
  sorted m -> sorted (filter keep (map (fun kv => (fst kv, f (snd kv))) m)).
Proof.
  induction m as [|[k' v'] r IH]; simpl; [tauto|]. intros [L S].
  destruct (keep (k', f v')); simpl; [split; [apply lb_filter_map; exact L | auto] | auto].
Qed.

Lemma aget_filter_map {V} (f : V -> V) (keep : V -> bool) k (m : alist V) :
  sorted m ->
  aget k (filter (fun kv => keep (snd kv)) (map (fun kv => (fst kv, f (snd kv))) m)) =
  match aget k m with
  | Some v => if keep (f v) then Some (f v) else None
  | None => None
  end.
Proof.
  induction m as [|[k' v'] r IH]; simpl; [reflexivity|]. intros [L S].
  destruct (Z.eqb_spec k k') as [E|N].
  - subst k'. destruct (keep (f v')) eqn:K; simpl.
    + rewrite Z.eqb_refl. reflexivity.
    + apply lb_not_in. apply (lb_filter_map f (fun kv => keep (snd kv))). exact L.
  - destruct (keep (f v')) eqn:K; simpl.
    + destruct (Z.eqb_spec k k'); [contradiction | auto].
    + auto.
Qed.

Lemma aget_filter_keys {V} (keep : Z * V -> bool) k (m : alist V) v :
  aget k (filter keep m) = Some v -> sorted m -> aget k m = Some v.
Proof.
  induction m as [|[k' v'] r IH]; simpl; [discriminate|]. intros H [L S].
  destruct (keep (k', v')) eqn:K; simpl in H.
  - destruct (Z.eqb_spec k k'); [exact H | auto].
  - destruct (Z.eqb_spec k k') as [E|N]; [|auto].
    subst k'. specialize (IH H S). rewrite (lb_not_in _ _ L) in IH. discriminate.
Qed.

Lemma aget_filter_some {V} (keep : Z * V -> bool) k (m : alist V) v :
  sorted m -> aget k m = Some v -> keep (k, v) = true -> aget k (filter keep m) = Some v.
Proof.
  induction m as [|[k' v'] r IH]; simpl; [discriminate|]. intros [L S] H K.
  destruct (Z.eqb_spec k k') as [E|N].
  - subst k'. inv H. rewrite K. simpl. rewrite Z.eqb_refl. reflexivity.
  - destruct (keep (k', v')); simpl; [destruct (Z.eqb_spec k k'); [contradiction|] |]; auto.
Qed.

Lemma sorted_filter {V} (keep : Z * V -> bool) (m : alist V) : sorted m -> sorted (filter keep m).
Proof.
  induction m as [|[k' v'] r IH]; simpl; [tauto|]. intros [L S].
  destruct (keep (k', v')); simpl; [split; [|auto] | auto].
  clear IH S. induction r as [|[k2 v2] r2 IH2]; simpl in *; [tauto|].
  destruct L as [L1 L2]. destruct (keep (k2, v2)); simpl; [split; auto | auto].
Qed.

Lemma adel_aset_same {V} k (v : V) m : adel k (aset k v m) = adel k m.
Proof.
  induction m as [|[k' v'] r IH]; simpl.
  - rewrite Z.eqb_refl. reflexivity.
  - destruct (Z.ltb_spec k k'); simpl.
    + rewrite Z.eqb_refl. destruct (Z.eqb_spec k k'); [lia | reflexivity].
    + destruct (Z.eqb_spec k k'); simpl.
      * rewrite Z.eqb_refl. reflexivity.
      * destruct (Z.eqb_spec k k'); [contradiction|]. rewrite IH. reflexivity.
Qed.

Lemma aget_aset {V} k k2 (v : V) m :
  aget k2 (aset k v m) = if k2 =? k then Some v else aget k2 m.
Proof.
  destruct (Z.eqb_spec k2 k).
  - subst. apply aget_aset_same.
  - apply aget_aset_other. assumption.
Qed.

Lemma aget_adel {V} k k2 (m : alist V) :
  aget k2 (adel k m) = if k2 =? k then None else aget k2 m.
Proof.
  destruct (Z.eqb_spec k2 k).
  - subst. apply aget_adel_same.
  - apply aget_adel_other. assumption.
Qed.

(* ================================================================== outputs *)
Lemma fresh_in_app u a b : fresh_in u (a ++ b) = fresh_in u a || fresh_in u b.
Proof. apply existsb_app. Qed.
Lemma recon_in_app u a b : recon_in u (a ++ b) = recon_in u a || recon_in u b.
Proof. apply existsb_app. Qed.
Lemma ack_rids_app a b : ack_rids (a ++ b) = ack_rids a ++ ack_rids b.
Proof.
  induction a as [|e a IH]; simpl; [reflexivity|]. destruct e; simpl; rewrite IH; reflexivity.
Qed.
Lemma ret_true_app a b : ret_true (a ++ b) = ret_true a || ret_true b.
Proof. apply existsb_app. Qed.

Definition kicks_only (ks : list out) : Prop :=
  Forall (fun e => match e with Kick _ _ => True | _ => False end) ks.

Lemma kicks_only_kick_out f n : kicks_only (kick_out f n).
Proof. unfold kick_out. destruct (front_known f); repeat constructor. Qed.

Lemma kicks_only_app a b : kicks_only a -> kicks_only b -> kicks_only (a ++ b).
Proof. intros A B. apply Forall_app. split; assumption. Qed.

Lemma kicks_fresh u ks : kicks_only ks -> fresh_in u ks = false.
Proof. induction 1 as [|e ks He _ IH]; simpl; [reflexivity|]. destruct e; try contradiction. exact IH. Qed.
Lemma kicks_recon u ks : kicks_only ks -> recon_in u ks = false.
Proof. induction 1 as [|e ks He _ IH]; simpl; [reflexivity|]. destruct e; try contradiction. exact IH. Qed.
Lemma kicks_rids ks : kicks_only ks -> ack_rids ks = [].
Proof. induction 1 as [|e ks He _ IH]; simpl; [reflexivity|]. destruct e; try contradiction. exact IH. Qed.
Lemma kicks_ret ks : kicks_only ks -> ret_true ks = false.
Proof. induction 1 as [|e ks He _ IH]; simpl; [reflexivity|]. destruct e; try contradiction. exact IH. Qed.

(* ================================================================== what a login does *)
Definition pF (t f n : Z) : player :=
  mkplayer SLogining (t + LoginTimeout) f n 0 (mklock true TLogin (t + LockLoginTimeout)).
Definition pR (p : player) (t f n : Z) : player :=
  mkplayer (pst p) (pdl p) f n (plogic p) (mklock true TReonline (t + LockTimeout)).
Definition lock_free (l : lock) (t : Z) : Prop := held l = false \/ until l <= t.

Lemma lock_try_some l t r lim l' :
  lock_try l t r lim = Some l' -> lock_free l t /\ l' = mklock true r (t + lim).
Proof.
  unfold lock_try, lock_free. destruct (held l) eqn:Hh; simpl.
  - destruct (Z.ltb_spec t (until l)); [discriminate|]. intro E. inv E. split; [right; lia | reflexivity].
  - intro E. inv E. split; [left; reflexivity | reflexivity].
Qed.

Lemma lock_try_none l t r lim : lock_try l t r lim = None -> held l = true /\ t < until l.
Proof.
  unfold lock_try. destruct (held l); simpl; [|discriminate].
  destruct (Z.ltb_spec t (until l)); [tauto | discriminate].
Qed.

(* the three ways ReqLogin can answer at once *)
Inductive outcome (ps : alist player) (t rid u f n : Z) : alist player -> list out -> Prop :=
| OFresh : aget u ps = None ->
    outcome ps t rid u f n (aset u (pF t f n) ps) [Ack rid u CSucc false 0]
| ORecon p : aget u ps = Some p -> pnet p = 0 -> pst p = SLogined -> lock_free (plock p) t ->
    outcome ps t rid u f n (aset u (pR p t f n) ps) [Ack rid u CSucc true (plogic p)]
| ORefused p ks c : aget u ps = Some p -> kicks_only ks -> c <> CSucc ->
    outcome ps t rid u f n ps (ks ++ [Ack rid u c false 0]).

Definition cancel_outs (u : Z) (x : option task) : list out :=
  match x with
  | Some t0 => kick_out (tfront t0) (tnet t0) ++ [Ack (trid t0) u CSystemBusy false 0]
  | None => []
  end.

Lemma req_login_cases s rid u f n k s' os :
  req_login s rid u f n k = (s', os) ->
  (outcome (players s) (now s) rid u f n (players s') os /\ s' = set_players s (players s')) \/
  (exists p ks, aget u (players s) = Some p /\ pnet p <> 0 /\ pst p = SLogined /\ kicks_only ks /\
                s' = set_kw s (aset u (mktask rid f n (now s)) (kw s)) /\
                os = ks ++ cancel_outs u (aget u (kw s))).
Proof.
  unfold req_login. destruct (aget u (players s)) as [p|] eqn:Ep.
  - destruct (Z.eqb_spec (pnet p) 0) as [En|En].
    + dpst (pst p) SLogined.
      * unfold do_reconnect. destruct (lock_try (plock p) (now s) TReonline LockTimeout) as [l|] eqn:El.
        -- apply lock_try_some in El. destruct El as [Fr ->]. intro E. inv E. left. simpl. split; [|reflexivity].
           change (mkplayer (pst p) (pdl p) f n (plogic p) (mklock true TReonline (now s + LockTimeout)))
             with (pR p (now s) f n).
           apply ORecon; assumption.
        -- intro E. inv E. left. split; [|destruct s'; reflexivity].
           apply (ORefused _ _ _ _ _ _ p [] CSystemBusy); [assumption | constructor | discriminate].
      * intro E. inv E. left. split; [|destruct s'; reflexivity].
        apply (ORefused _ _ _ _ _ _ p [] CAlreadyOnline); [assumption | constructor | discriminate].
    + dpst (pst p) SLogined.
      * unfold kw_add. intro E. inv E. right. exists p, (if k then kick_out (pfront p) (pnet p) else []).
        repeat split; try assumption. destruct k; [apply kicks_only_kick_out | constructor].
      * intro E. inv E. left. split; [|destruct s'; reflexivity].
        apply (ORefused _ _ _ _ _ _ p (if k then kick_out (pfront p) (pnet p) else []) CAlreadyOnline);
          [assumption | destruct k; [apply kicks_only_kick_out | constructor] | discriminate].
  - unfold lock_try, lock0. simpl. intro E. inv E. left. simpl. split; [|reflexivity].
    unfold deadline, LoginTimeout. simpl. apply OFresh. assumption.
Qed.

Lemma kw_expire_frame s :
  players (kw_expire s) = players s /\ now (kw_expire s) = now s /\ nreq (kw_expire s) = nreq s /\
  offq (kw_expire s) = offq s.
Proof. unfold kw_expire. destruct (now s <? kwnext s); simpl; auto. Qed.

Lemma kw_on_close_cases s u s' os :
  kw_on_close s u = (s', os) ->
  (aget u (kw (kw_expire s)) = None /\ s' = kw_expire s /\ os = []) \/
  (exists t, aget u (kw (kw_expire s)) = Some t /\
             outcome (players s) (now s) (trid t) u (tfront t) (tnet t) (players s') os /\
             s' = mkst (players s') (adel u (kw (kw_expire s))) (kwnext (kw_expire s)) (offq s) (now s) (nreq s)).
Proof.
  unfold kw_on_close. destruct (kw_expire_frame s) as (Fp & Fn & Fq & Fo).
  destruct (aget u (kw (kw_expire s))) as [t|] eqn:Et.
  - destruct (req_login (kw_expire s) (trid t) u (tfront t) (tnet t) false) as [s2 o] eqn:Er.
    intro E. inv E. right. exists t. split; [reflexivity|].
    apply req_login_cases in Er. rewrite Fp, Fn in Er. destruct Er as [[Ho Es]|(p & ks & Ep & Nn & Sp & Hk & Es & Eo)].
    + split; [exact Ho|]. rewrite Es. unfold set_kw, set_players. simpl. rewrite Fn, Fq, Fo. reflexivity.
    + subst s2 os. rewrite Et. simpl. rewrite Fp. split.
      * rewrite app_assoc. apply (ORefused _ _ _ _ _ _ p); [assumption | | discriminate].
        apply kicks_only_app; [assumption | apply kicks_only_kick_out].
      * unfold set_kw. simpl. rewrite adel_aset_same. rewrite Fn, Fq, Fo, Fp. reflexivity.
  - intro E. inv E. left. auto.
Qed.

(* ================================================================== the shape of a step
   [own s o]: the player table after the operation's own update, before a parked login (if any)
   is carried out by the same operation. *)
Definition closed_rec (p : player) : player := mkplayer (pst p) (pdl p) 0 0 (plogic p) (plock p).
Definition logined_rec (p : player) (l : Z) : player :=
  mkplayer SLogined 0 (pfront p) (pnet p) l (unlocked (plock p) TLogin).

Definition own (s : st) (o : op) : alist player :=
  match o with
  | ReqLogin _ _ _ _ | OfflineAck _ _ => players s
  | SessionClosed u =>
      match aget u (players s) with Some p => aset u (closed_rec p) (players s) | None => players s end
  | LogicLogined u l =>
      match aget u (players s) with Some p => aset u (logined_rec p l) (players s) | None => players s end
  | _ => players (fst (step s o))
  end.

(* the operations that can carry out a parked login of u *)
Definition carrier (o : op) (u : Z) : Prop :=
  o = SessionClosed u \/ (exists ok, o = OfflineAck u ok) \/ (exists l, o = LogicLogined u l).

(* where the login evaluated by an operation comes from *)
Inductive login_src (s : st) (o : op) (u rid f n : Z) (kw' : alist task) : Prop :=
| SrcReq k : o = ReqLogin u f n k -> rid = nreq s -> kw' = kw s -> login_src s o u rid f n kw'
| SrcTask t : carrier o u ->
    aget u (kw (kw_expire s)) = Some t -> rid = trid t -> f = tfront t -> n = tnet t ->
    kw' = adel u (kw (kw_expire s)) -> login_src s o u rid f n kw'.

Inductive shape (s : st) (o : op) (s' : st) (os : list out) : Prop :=
| ShQuiet : players s' = own s o -> (forall u, fresh_in u os = false /\ recon_in u os = false) ->
    ack_rids os = [] -> (kw s' = kw s \/ kw s' = kw (kw_expire s)) -> shape s o s' os
| ShLogin u rid f n : login_src s o u rid f n (kw s') ->
    outcome (own s o) (now s) rid u f n (players s') os -> shape s o s' os
| ShParked u f n k p ks : o = ReqLogin u f n k -> aget u (players s) = Some p -> pnet p <> 0 ->
    pst p = SLogined -> kicks_only ks -> players s' = players s ->
    kw s' = aset u (mktask (nreq s) f n (now s)) (kw s) ->
    os = ks ++ cancel_outs u (aget u (kw s)) -> shape s o s' os.

Lemma quiet_nil u : fresh_in u [] = false /\ recon_in u [] = false.
Proof. split; reflexivity. Qed.

Lemma shape_close s o u s1 s' os :
  carrier o u ->
  players s1 = own s o -> kw s1 = kw s -> kwnext s1 = kwnext s -> now s1 = now s ->
  kw_on_close s1 u = (s', os) -> shape s o s' os.
Proof.
  intros Hu Ep Ek Ex En H. apply kw_on_close_cases in H.
  assert (Ekk : kw (kw_expire s1) = kw (kw_expire s)).
  { unfold kw_expire. rewrite En, Ex. destruct (now s <? kwnext s); simpl; congruence. }
  destruct H as [(Hn0 & -> & ->)|(t & Et & Ho & ->)].
  - apply ShQuiet; [|intro; apply quiet_nil | reflexivity | right; exact Ekk].
    destruct (kw_expire_frame s1) as (-> & _). exact Ep.
  - apply (ShLogin _ _ _ _ u (trid t) (tfront t) (tnet t)).
    + apply (SrcTask _ _ _ _ _ _ _ t); auto; simpl; rewrite <- Ekk; auto.
    + simpl. rewrite <- Ep, <- En. exact Ho.
Qed.

Lemma shape_offline s o u lid s1 s' os :
  carrier o u ->
  players s1 = own s o -> kw s1 = kw s -> kwnext s1 = kwnext s -> now s1 = now s ->
  send_offline s1 u lid = (s', os) -> shape s o s' os.
Proof.
  intros Hu Ep Ek Ex En. unfold send_offline. destruct (logic_known lid).
  - intro E. inv E. apply ShQuiet; simpl; auto; intro; split; reflexivity.
  - apply shape_close; assumption.
Qed.

Ltac crack E := repeat match type of E with
  | context [match ?x with _ => _ end] => destruct x eqn:?
  | context [if ?x then _ else _] => destruct x eqn:?
  end.

Ltac quiet_same := apply ShQuiet; [reflexivity | intro; split; reflexivity | reflexivity | left; reflexivity].

Lemma step_shape s o s' os : step s o = (s', os) -> shape s o s' os.
Proof.
  destruct o as [u f n k|u|u ok|u l|u|u|u|u|u|u sc| |dt]; simpl.
  - intro H. apply req_login_cases in H. simpl in H.
    destruct H as [[Ho Es]|(p & ks & Ep & Nn & Sp & Hk & Es & Eo)].
    + apply (ShLogin _ _ _ _ u (nreq s) f n); [|exact Ho].
      apply (SrcReq _ _ _ _ _ _ _ k); [reflexivity | reflexivity | rewrite Es; reflexivity].
    + apply (ShParked _ _ _ _ u f n k p ks); subst; auto.
  - unfold session_closed. destruct (aget u (players s)) as [p|] eqn:Ep.
    + dpst (pst p) SLogined.
      * apply shape_offline; simpl; try rewrite Ep; auto. left; reflexivity.
      * intro E. inv E. apply ShQuiet; simpl; try rewrite Ep; auto; intro; apply quiet_nil.
    + intro E. inv E. apply ShQuiet; simpl; try rewrite Ep; auto; intro; apply quiet_nil.
  - unfold offline_ack. destruct (zmem u (offq s)).
    + apply shape_close; simpl; auto. right; left; exists ok; reflexivity.
    + intro E. inv E. apply ShQuiet; simpl; auto; intro; apply quiet_nil.
  - unfold logic_logined. destruct (aget u (players s)) as [p|] eqn:Ep.
    + destruct (pnet p =? 0).
      * apply shape_offline; simpl; try rewrite Ep; auto. right; right; exists l; reflexivity.
      * intro E. inv E. apply ShQuiet; simpl; try rewrite Ep; auto; intro; apply quiet_nil.
    + intro E. inv E. apply ShQuiet; simpl; try rewrite Ep; auto; intro; apply quiet_nil.
  - intro E. apply ShQuiet; [simpl; rewrite E; reflexivity | | | ];
      revert E; unfold logic_reonline; destruct (aget u (players s)) as [p|];
      intro E; inv E; try (left; reflexivity); try reflexivity; intro; apply quiet_nil.
  - intro E. apply ShQuiet; [simpl; rewrite E; reflexivity | | | ].
    + intro v. revert E. unfold req_logout. destruct (aget u (players s)); [destruct (lock_try _ _ _ _)|];
        intro E; inv E; split; reflexivity.
    + revert E. unfold req_logout. destruct (aget u (players s)); [destruct (lock_try _ _ _ _)|];
        intro E; inv E; reflexivity.
    + revert E. unfold req_logout. destruct (aget u (players s)); [destruct (lock_try _ _ _ _)|];
        intro E; inv E; left; reflexivity.
  - intro E. apply ShQuiet; [simpl; rewrite E; reflexivity | | | ];
      revert E; unfold logic_logout, kick_if_open; destruct (aget u (players s)) as [p|];
      intro E; inv E; try (left; reflexivity); try reflexivity; try (intro; apply quiet_nil).
    + intro v. destruct (pnet p =? 0); [apply quiet_nil|].
      split; [apply kicks_fresh | apply kicks_recon]; apply kicks_only_kick_out.
    + destruct (pnet p =? 0); [reflexivity | apply kicks_rids, kicks_only_kick_out].
  - intro E. apply ShQuiet; [simpl; rewrite E; reflexivity | | | ];
      revert E; unfold abnormal_logout, kick_if_open; destruct (aget u (players s)) as [p|];
      intro E; inv E; try (left; reflexivity); try reflexivity; try (intro; apply quiet_nil).
    + intro v. destruct (pnet p =? 0); [apply quiet_nil|].
      split; [apply kicks_fresh | apply kicks_recon]; apply kicks_only_kick_out.
    + destruct (pnet p =? 0); [reflexivity | apply kicks_rids, kicks_only_kick_out].
  - intro E. apply ShQuiet; [simpl; rewrite E; reflexivity | | | ];
      unfold req_switch in E; crack E; inv E; try (left; reflexivity); try reflexivity; intro; split; reflexivity.
  - intro E. apply ShQuiet; [simpl; rewrite E; reflexivity | | | ];
      unfold switch_end in E; crack E; inv E; try (left; reflexivity); try reflexivity; intro; split; reflexivity.
  - intro E. inv E. quiet_same.
  - intro E. inv E. quiet_same.
Qed.

(* how an operation's own update changes the record of its account *)
Definition trans (s : st) (o : op) (p p' : player) : Prop :=
  match o with
  | SessionClosed _ => p' = closed_rec p
  | LogicLogined _ l => p' = logined_rec p l
  | LogicReOnline _ => p' = set_lock p (unlocked (plock p) TReonline)
  | ReqLogout _ =>
      lock_free (plock p) (now s) /\
      p' = set_state (set_lock p (mklock true TLogout (now s + LockTimeout))) (now s) SLogouting LogoutTimeout
  | LogicLogout _ => p' = set_state (set_lock p (unlocked (plock p) TLogout)) (now s) SWaitRemove 0
  | AbnormalLogout _ => p' = set_state p (now s) SWaitRemove 0
  | ReqSwitchLine _ =>
      pst p = SLogined /\ lock_free (plock p) (now s) /\
      p' = set_state (set_lock p (mklock true TSwitchLine (now s + LockTimeout))) (now s) SSwitchLine 0
  | SwitchLineEnd _ _ =>
      pst p = SSwitchLine /\ held (plock p) = true /\ reason (plock p) = TSwitchLine /\
      p' = set_state (set_lock p (mklock false TSwitchLine (until (plock p)))) (now s) SLogined 0
  | _ => False
  end.

Lemma lock_release_some l r l' :
  lock_release l r = Some l' -> held l = true /\ reason l = r /\ l' = mklock false r (until l).
Proof.
  unfold lock_release. destruct (held l); simpl; [|discriminate].
  destruct (txn_eqb r (reason l)) eqn:E; [|discriminate]. apply txn_eqb_eq in E. subst r.
  intro H. inv H. auto.
Qed.

Lemma own_cases s o :
  own s o = players s \/
  (exists u p p', op_uid o = Some u /\ aget u (players s) = Some p /\
                  own s o = aset u p' (players s) /\ trans s o p p') \/
  (o = Tick /\ own s o = players (tick s)).
Proof.
  destruct o as [u f n k|u|u ok|u l|u|u|u|u|u|u sc| |dt]; simpl; auto.
  - destruct (aget u (players s)) as [p|] eqn:Ep; [right; left; exists u, p, (closed_rec p) | left]; auto.
  - destruct (aget u (players s)) as [p|] eqn:Ep; [right; left; exists u, p, (logined_rec p l) | left]; auto.
  - unfold logic_reonline. destruct (aget u (players s)) as [p|] eqn:Ep; simpl; [right; left | left; reflexivity].
    exists u, p, (set_lock p (unlocked (plock p) TReonline)). auto.
  - unfold req_logout. destruct (aget u (players s)) as [p|] eqn:Ep; simpl; [|left; reflexivity].
    destruct (lock_try (plock p) (now s) TLogout LockTimeout) as [l|] eqn:El; simpl; [|left; reflexivity].
    apply lock_try_some in El. destruct El as [Fr ->]. right; left. eexists u, p, _. repeat split; eauto.
  - unfold logic_logout. destruct (aget u (players s)) as [p|] eqn:Ep; simpl; [right; left | left; reflexivity].
    eexists u, p, _. repeat split; eauto.
  - unfold abnormal_logout. destruct (aget u (players s)) as [p|] eqn:Ep; simpl; [right; left | left; reflexivity].
    eexists u, p, _. repeat split; eauto.
  - unfold req_switch. destruct (aget u (players s)) as [p|] eqn:Ep; simpl; [|left; reflexivity].
    dpst (pst p) SLogined; simpl; [|left; reflexivity].
    destruct (lock_try (plock p) (now s) TSwitchLine LockTimeout) as [l|] eqn:El; simpl; [|left; reflexivity].
    apply lock_try_some in El. destruct El as [Fr ->]. right; left. eexists u, p, _. repeat split; eauto.
  - unfold switch_end. destruct (aget u (players s)) as [p|] eqn:Ep; simpl; [|left; reflexivity].
    dpst (pst p) SSwitchLine; simpl; [|left; reflexivity].
    destruct (lock_release (plock p) TSwitchLine) as [l|] eqn:El; simpl; [|left; reflexivity].
    apply lock_release_some in El. destruct El as (Hh & Hr & ->). right; left. eexists u, p, _. repeat split; eauto.
Qed.

(* clock and request counter *)
Lemma req_login_frame s rid u f n k :
  let s' := fst (req_login s rid u f n k) in
  now s' = now s /\ nreq s' = nreq s /\ offq s' = offq s /\ kwnext s' = kwnext s.
Proof.
  destruct (req_login s rid u f n k) as [s' os] eqn:E. apply req_login_cases in E. simpl.
  destruct E as [[_ ->]|(p & ks & _ & _ & _ & _ & -> & _)]; simpl; auto.
Qed.

Lemma kw_on_close_frame s u :
  let s' := fst (kw_on_close s u) in now s' = now s /\ nreq s' = nreq s /\ offq s' = offq s.
Proof.
  destruct (kw_on_close s u) as [s' os] eqn:E. apply kw_on_close_cases in E. simpl.
  destruct (kw_expire_frame s) as (_ & Fn & Fq & Fo).
  destruct E as [(_ & -> & _)|(t & _ & _ & ->)]; simpl; auto.
Qed.

Lemma send_offline_frame s u l :
  let s' := fst (send_offline s u l) in now s' = now s /\ nreq s' = nreq s.
Proof.
  unfold send_offline. destruct (logic_known l); simpl; [auto|].
  destruct (kw_on_close_frame s u) as (A & B & _). auto.
Qed.

Lemma step_now s o : now (fst (step s o)) = next_clk (now s) o.
Proof.
  destruct o as [u f n k|u|u ok|u l|u|u|u|u|u|u sc| |dt]; simpl; try reflexivity.
  - exact (proj1 (req_login_frame _ _ _ _ _ _)).
  - unfold session_closed. destruct (aget u (players s)) as [p|]; [|reflexivity].
    destruct (pstate_eqb (pst p) SLogined); [|reflexivity]. exact (proj1 (send_offline_frame _ _ _)).
  - unfold offline_ack. destruct (zmem u (offq s)); [|reflexivity]. exact (proj1 (kw_on_close_frame _ _)).
  - unfold logic_logined. destruct (aget u (players s)) as [p|]; [|reflexivity].
    destruct (pnet p =? 0); [|reflexivity]. exact (proj1 (send_offline_frame _ _ _)).
  - unfold logic_reonline. destruct (aget u (players s)); reflexivity.
  - unfold req_logout. destruct (aget u (players s)); [destruct (lock_try _ _ _ _)|]; reflexivity.
  - unfold logic_logout. destruct (aget u (players s)); reflexivity.
  - unfold abnormal_logout. destruct (aget u (players s)); reflexivity.
  - unfold req_switch. destruct (aget u (players s)) as [p|]; [destruct (pstate_eqb _ _); [destruct (lock_try _ _ _ _)|]|]; reflexivity.
  - unfold switch_end. destruct (aget u (players s)) as [p|]; [destruct (pstate_eqb _ _); [destruct (lock_release _ _)|]|]; reflexivity.
Qed.

Lemma step_nreq s o : nreq (fst (step s o)) = next_nq (nreq s) o.
Proof.
  destruct o as [u f n k|u|u ok|u l|u|u|u|u|u|u sc| |dt]; simpl; try reflexivity.
  - exact (proj1 (proj2 (req_login_frame _ _ _ _ _ _))).
  - unfold session_closed. destruct (aget u (players s)) as [p|]; [|reflexivity].
    destruct (pstate_eqb (pst p) SLogined); [|reflexivity]. exact (proj2 (send_offline_frame _ _ _)).
  - unfold offline_ack. destruct (zmem u (offq s)); [|reflexivity]. exact (proj1 (proj2 (kw_on_close_frame _ _))).
  - unfold logic_logined. destruct (aget u (players s)) as [p|]; [|reflexivity].
    destruct (pnet p =? 0); [|reflexivity]. exact (proj2 (send_offline_frame _ _ _)).
  - unfold logic_reonline. destruct (aget u (players s)); reflexivity.
  - unfold req_logout. destruct (aget u (players s)); [destruct (lock_try _ _ _ _)|]; reflexivity.
  - unfold logic_logout. destruct (aget u (players s)); reflexivity.
  - unfold abnormal_logout. destruct (aget u (players s)); reflexivity.
  - unfold req_switch. destruct (aget u (players s)) as [p|]; [destruct (pstate_eqb _ _); [destruct (lock_try _ _ _ _)|]|]; reflexivity.
  - unfold switch_end. destruct (aget u (players s)) as [p|]; [destruct (pstate_eqb _ _); [destruct (lock_release _ _)|]|]; reflexivity.
Qed.

(* ================================================================== A: a live load has a record *)
Definition hasrec (ps : alist player) (u : Z) : Prop :=
  exists p, aget u ps = Some p /\ removable p = false.

Lemma has_record_iff s u : has_record s u = true <-> hasrec (players s) u.
Proof.
  unfold has_record, hasrec. destruct (aget u (players s)) as [p|].
  - rewrite negb_true_iff. split; [intro H; exists p; auto | intros (q & E & H); inv E; exact H].
  - split; [discriminate | intros (q & E & _); discriminate].
Qed.

Lemma is_fresh_refused v rid u c : c <> CSucc -> is_fresh v (Ack rid u c false 0) = false.
Proof. destruct c; simpl; [contradiction | reflexivity | reflexivity]. Qed.
Lemma is_recon_refused v rid u c l : is_recon v (Ack rid u c false l) = false.
Proof. destruct c; reflexivity. Qed.

Lemma fresh_in_single v e : fresh_in v [e] = is_fresh v e.
Proof. unfold fresh_in. simpl. apply orb_false_r. Qed.
Lemma recon_in_single v e : recon_in v [e] = is_recon v e.
Proof. unfold recon_in. simpl. apply orb_false_r. Qed.

Lemma outcome_sorted ps t rid u f n ps' os : outcome ps t rid u f n ps' os -> sorted ps -> sorted ps'.
Proof. intros H S. destruct H; [apply sorted_aset | apply sorted_aset | ]; exact S. Qed.

Lemma outcome_other ps t rid u f n ps' os v :
  outcome ps t rid u f n ps' os -> v <> u -> aget v ps' = aget v ps.
Proof. intros H N. destruct H; [apply aget_aset_other | apply aget_aset_other | reflexivity]; exact N. Qed.

Lemma outcome_hasrec ps t rid u f n ps' os v :
  outcome ps t rid u f n ps' os -> hasrec ps v -> hasrec ps' v.
Proof.
  intros H (q & Eq & Rq). destruct H as [En|p Ep Np Sp Fr|p ks c Ep Hk Hc].
  - destruct (Z.eq_dec v u) as [->|N]; [congruence|]. exists q. rewrite aget_aset_other; auto.
  - destruct (Z.eq_dec v u) as [->|N].
    + exists (pR p t f n). rewrite aget_aset_same. split; [reflexivity|]. unfold removable, pR. simpl. rewrite Sp. reflexivity.
    + exists q. rewrite aget_aset_other; auto.
  - exists q. auto.
Qed.

Lemma outcome_fresh ps t rid u f n ps' os v :
  outcome ps t rid u f n ps' os -> fresh_in v os = true ->
  v = u /\ aget u ps = None /\ ps' = aset u (pF t f n) ps.
Proof.
  intros H F. destruct H as [En|p Ep Np Sp Fr|p ks c Ep Hk Hc].
  - simpl in F. rewrite orb_false_r in F. apply Z.eqb_eq in F. auto.
  - simpl in F. discriminate.
  - rewrite fresh_in_app, (kicks_fresh _ _ Hk), fresh_in_single, is_fresh_refused in F by exact Hc. discriminate.
Qed.

Lemma outcome_recon ps t rid u f n ps' os v :
  outcome ps t rid u f n ps' os -> recon_in v os = true ->
  v = u /\ exists p, aget u ps = Some p /\ pnet p = 0 /\ pst p = SLogined /\ lock_free (plock p) t /\
                     ps' = aset u (pR p t f n) ps.
Proof.
  intros H F. destruct H as [En|p Ep Np Sp Fr|p ks c Ep Hk Hc].
  - simpl in F. discriminate.
  - simpl in F. rewrite orb_false_r in F. apply Z.eqb_eq in F. split; [auto|]. exists p. auto.
  - rewrite recon_in_app, (kicks_recon _ _ Hk), recon_in_single, is_recon_refused in F. discriminate.
Qed.

Lemma cancel_fresh v u x : fresh_in v (cancel_outs u x) = false.
Proof.
  destruct x as [t0|]; [|reflexivity]. simpl. rewrite fresh_in_app, (kicks_fresh _ _ (kicks_only_kick_out _ _)). reflexivity.
Qed.
Lemma cancel_recon v u x : recon_in v (cancel_outs u x) = false.
Proof.
  destruct x as [t0|]; [|reflexivity]. simpl. rewrite recon_in_app, (kicks_recon _ _ (kicks_only_kick_out _ _)). reflexivity.
Qed.

Lemma aget_tick s v :
  sorted (players s) ->
  aget v (players (tick s)) =
  match aget v (players s) with
  | Some p => if negb (removable (tick_player (now s) p)) then Some (tick_player (now s) p) else None
  | None => None
  end.
Proof.
  intro S. unfold tick. simpl.
  apply (aget_filter_map (tick_player (now s)) (fun p => negb (removable p))). exact S.
Qed.

Lemma own_sorted s o : sorted (players s) -> sorted (own s o).
Proof.
  intro S. destruct (own_cases s o) as [->|[(u & p & p' & _ & _ & -> & _)|(_ & ->)]];
    [exact S | apply sorted_aset; exact S | ].
  unfold tick. simpl. apply sorted_filter_map. exact S.
Qed.

Lemma own_carrier_none s o u : carrier o u -> aget u (own s o) = None -> aget u (players s) = None.
Proof.
  intros [->|[(ok & ->)|(l & ->)]]; simpl; auto;
    destruct (aget u (players s)) as [p|] eqn:Ep; auto; rewrite aget_aset_same; discriminate.
Qed.

Lemma own_hasrec s o v :
  sorted (players s) -> hasrec (players s) v -> ends_load s o v = false -> hasrec (own s o) v.
Proof.
  intros S (q & Eq & Rq) Ne.
  destruct (own_cases s o) as [->|[(u & p & p' & Hu & Ep & -> & T)|(-> & ->)]].
  - exists q; auto.
  - destruct (Z.eq_dec v u) as [->|N]; [|exists q; rewrite aget_aset_other; auto].
    rewrite Ep in Eq. inv Eq. exists p'. rewrite aget_aset_same. split; [reflexivity|].
    unfold removable in *.
    destruct o; simpl in T, Hu, Ne; try contradiction; inv Hu;
      try (rewrite Z.eqb_refl in Ne; discriminate);
      try exact Rq; try reflexivity;
      try (destruct T as (_ & ->); reflexivity);
      try (destruct T as (_ & _ & ->); reflexivity);
      try (destruct T as (_ & _ & _ & ->); reflexivity).
  - exists q. rewrite aget_tick by exact S. rewrite Eq. simpl in Ne. unfold expires in Ne. rewrite Eq in Ne.
    unfold tick_player. rewrite Ne. rewrite Rq. auto.
Qed.

Definition invA (s : st) (G : Z -> gh) : Prop :=
  sorted (players s) /\ forall u, g_live (G u) = true -> hasrec (players s) u.

Lemma step_sorted s o : sorted (players s) -> sorted (players (fst (step s o))).
Proof.
  intro S. destruct (step s o) as [s' os] eqn:E. apply step_shape in E. simpl.
  destruct E as [Ep _ _ _|u rid f n _ Ho|u f n k p ks _ _ _ _ _ Ep _ _].
  - rewrite Ep. apply own_sorted, S.
  - eapply outcome_sorted; [exact Ho | apply own_sorted, S].
  - rewrite Ep. exact S.
Qed.

(* a fresh authorisation: there was no record, and now there is one *)
Lemma step_fresh s o u :
  fresh_in u (snd (step s o)) = true ->
  aget u (players s) = None /\ hasrec (players (fst (step s o))) u.
Proof.
  destruct (step s o) as [s' os] eqn:E. apply step_shape in E. simpl. intro F.
  destruct E as [_ Hq _ _|u' rid f n Src Ho|u' f n k p ks _ _ _ _ Hk _ _ Eo].
  - destruct (Hq u) as [Q _]. congruence.
  - destruct (outcome_fresh _ _ _ _ _ _ _ _ _ Ho F) as (-> & En & ->). split.
    + destruct Src as [k -> _ _|t C _ _ _ _ _]; [exact En | eapply own_carrier_none; eauto].
    + exists (pF (now s) f n). rewrite aget_aset_same. split; reflexivity.
  - subst os. rewrite fresh_in_app, (kicks_fresh _ _ Hk), cancel_fresh in F. discriminate.
Qed.

Lemma step_hasrec s o v :
  sorted (players s) -> hasrec (players s) v -> ends_load s o v = false ->
  hasrec (players (fst (step s o))) v.
Proof.
  intros S Hr Ne. destruct (step s o) as [s' os] eqn:E. apply step_shape in E. simpl.
  destruct E as [Ep _ _ _|u rid f n _ Ho|u f n k p ks _ _ _ _ _ Ep _ _].
  - rewrite Ep. apply own_hasrec; assumption.
  - eapply outcome_hasrec; [exact Ho | apply own_hasrec; assumption].
  - rewrite Ep. exact Hr.
Qed.

Lemma step_invA s G o :
  invA s G -> invA (fst (step s o)) (fun u => gh_step s o (snd (step s o)) u (G u)).
Proof.
  intros [S L]. split; [apply step_sorted, S|].
  intros u. unfold gh_step. simpl. rewrite orb_true_iff, andb_true_iff, negb_true_iff.
  intros [[Lu Ne]|F].
  - apply step_hasrec; auto.
  - apply step_fresh, F.
Qed.

Lemma exec_invA s G ops : invA s G -> invA (run_from s ops) (ghost_from s G ops).
Proof.
  revert s G. induction ops as [|o r IH]; intros s G I; simpl; [exact I|].
  apply IH. apply step_invA. exact I.
Qed.

Lemma reach_invA h : invA (final h) (ghost h).
Proof. apply exec_invA. split; [exact I | intros u H; discriminate]. Qed.

Lemma live_has_record h u :
  live h u = true -> exists p, aget u (players (final h)) = Some p /\ pst p <> SWaitRemove.
Proof.
  intro L. destruct (reach_invA h) as [_ A]. destruct (A u L) as (p & Ep & Rp).
  exists p. split; [exact Ep|]. intro E. unfold removable in Rp. rewrite E in Rp. discriminate.
Qed.

Lemma fresh_needs_no_record h o u :
  fresh_in u (outs_at h o) = true -> aget u (players (final h)) = None /\ live h u = false.
Proof.
  intro F. destruct (step_fresh _ _ _ F) as [En _]. split; [exact En|].
  destruct (live h u) eqn:L; [|reflexivity].
  destruct (live_has_record _ _ L) as (p & Ep & _). congruence.
Qed.

(* the load of u stays live until one of its ending events *)
Lemma live_until_end h mid u :
  live h u = true ->
  live (h ++ mid) u = true \/
  exists m1 e m2, mid = m1 ++ e :: m2 /\ ends_load (final (h ++ m1)) e u = true.
Proof.
  intro L. induction mid as [|e mid IH] using rev_ind.
  - left. rewrite app_nil_r. exact L.
  - destruct IH as [Lm|(m1 & x & m2 & -> & Hx)].
    + destruct (ends_load (final (h ++ mid)) e u) eqn:Ee.
      * right. exists mid, e, []. auto.
      * left. unfold live. rewrite app_assoc, ghost_snoc. unfold gh_step. simpl.
        unfold live in Lm. rewrite Lm, Ee. reflexivity.
    + right. exists m1, x, (m2 ++ [e]). split; [|exact Hx]. rewrite <- app_assoc. reflexivity.
Qed.

Lemma live_after_fresh h o u : fresh_in u (outs_at h o) = true -> live (h ++ [o]) u = true.
Proof.
  intro F. unfold live. rewrite ghost_snoc. unfold gh_step. simpl. rewrite F. apply orb_true_r.
Qed.

Lemma no_double_load h1 o1 mid o2 u :
  fresh_in u (outs_at h1 o1) = true ->
  fresh_in u (outs_at (h1 ++ o1 :: mid) o2) = true ->
  exists m1 e m2, mid = m1 ++ e :: m2 /\ ends_load (final (h1 ++ o1 :: m1)) e u = true.
Proof.
  intros F1 F2. apply live_after_fresh in F1.
  destruct (live_until_end _ mid _ F1) as [L|(m1 & e & m2 & -> & He)].
  - rewrite <- app_assoc in L. simpl in L.
    destruct (fresh_needs_no_record _ _ _ F2) as [_ N]. congruence.
  - exists m1, e, m2. split; [reflexivity|]. rewrite <- app_assoc in He. exact He.
Qed.

(* ================================================================== B: the reconnect guard *)
Lemma in_aset {V} k (v : V) m x : In x (aset k v m) -> x = (k, v) \/ In x m.
Proof.
  induction m as [|[k' v'] r IH]; simpl.
  - intros [E|[]]; auto.
  - destruct (k <? k'); simpl; [intros [E|H]; auto|].
    destruct (k =? k'); simpl; intros [E|H]; auto. destruct (IH H); auto.
Qed.

Lemma in_adel {V} k (m : alist V) x : In x (adel k m) -> In x m.
Proof.
  induction m as [|[k' v'] r IH]; simpl; [tauto|].
  destruct (k =? k'); simpl; [auto | intros [E|H]; auto].
Qed.

Lemma in_kw_expire s x : In x (kw (kw_expire s)) -> In x (kw s).
Proof.
  unfold kw_expire. destruct (now s <? kwnext s); simpl; [auto|]. intro H. apply filter_In in H. tauto.
Qed.

Definition logged_state (p : player) : Prop := pst p = SLogined \/ pst p = SSwitchLine.

Record invB (s : st) (G : Z -> gh) : Prop := mkInvB {
  b_logged : forall u p, aget u (players s) = Some p -> logged_state p ->
               g_live (G u) = true /\ g_logged (G u) = true;
  b_closed : forall u p, aget u (players s) = Some p -> pnet p = 0 -> g_closed (G u) = true;
  b_tasks : forall u t, In (u, t) (kw s) -> tnet t <> 0 }.

Lemma tick_player_fields t p :
  pnet (tick_player t p) = pnet p /\ plock (tick_player t p) = plock p /\
  (logged_state (tick_player t p) -> tick_player t p = p /\ expiring t p = false).
Proof.
  unfold tick_player. destruct (expiring t p) eqn:E; simpl; [|auto].
  split; [reflexivity|]. split; [reflexivity|]. intros [Hx|Hx]; discriminate Hx.
Qed.

(* a record in a logged-in state after the operation's own update was so before, or this is its LogicLogined *)
Lemma own_logged s o u p' :
  sorted (players s) -> aget u (own s o) = Some p' -> logged_state p' ->
  (exists p, aget u (players s) = Some p /\ logged_state p /\ ends_load s o u = false /\
             (is_logined o u = true \/ pnet p' = pnet p \/ is_close_report o u = true)) \/
  (is_logined o u = true /\ exists p, aget u (players s) = Some p /\ pnet p' = pnet p).
Proof.
  intros S E L. unfold logged_state in *.
  destruct o as [v f n k|v|v ok|v l|v|v|v|v|v|v sc| |dt]; simpl in *.
  - left. exists p'. repeat split; auto.
  - destruct (aget v (players s)) as [p0|] eqn:E0; [|left; exists p'; repeat split; auto].
    rewrite aget_aset in E. destruct (Z.eqb_spec u v) as [->|N].
    + inv E. left. exists p0. simpl in L. rewrite Z.eqb_refl. repeat split; auto.
    + left. exists p'. destruct (Z.eqb_spec v u); [congruence|]. repeat split; auto.
  - left. exists p'. repeat split; auto.
  - destruct (aget v (players s)) as [p0|] eqn:E0; [|left; exists p'; destruct (v =? u); repeat split; auto].
    rewrite aget_aset in E. destruct (Z.eqb_spec u v) as [->|N].
    + inv E. right. rewrite Z.eqb_refl. split; [reflexivity|]. exists p0. repeat split; auto.
    + left. exists p'. destruct (Z.eqb_spec v u); [congruence|]. repeat split; auto.
  - unfold logic_reonline in E. destruct (aget v (players s)) as [p0|] eqn:E0; simpl in E; [|left; exists p'; repeat split; auto].
    rewrite aget_aset in E. destruct (Z.eqb_spec u v) as [->|N]; [|left; exists p'; repeat split; auto].
    inv E. left. exists p0. simpl in L. repeat split; auto.
  - unfold req_logout in E. destruct (aget v (players s)) as [p0|] eqn:E0; simpl in E; [|left; exists p'; repeat split; auto].
    destruct (lock_try (plock p0) (now s) TLogout LockTimeout); simpl in E; [|left; exists p'; repeat split; auto].
    rewrite aget_aset in E. destruct (Z.eqb_spec u v) as [->|N]; [|left; exists p'; repeat split; auto].
    inv E. simpl in L. destruct L; discriminate.
  - unfold logic_logout in E. destruct (aget v (players s)) as [p0|] eqn:E0; simpl in E.
    + rewrite aget_aset in E. destruct (Z.eqb_spec u v) as [->|N].
      * inv E. simpl in L. destruct L; discriminate.
      * left. exists p'. destruct (Z.eqb_spec v u); [congruence|]. repeat split; auto.
    + left. exists p'. destruct (Z.eqb_spec v u); [congruence|]. repeat split; auto.
  - unfold abnormal_logout in E. destruct (aget v (players s)) as [p0|] eqn:E0; simpl in E.
    + rewrite aget_aset in E. destruct (Z.eqb_spec u v) as [->|N].
      * inv E. simpl in L. destruct L; discriminate.
      * left. exists p'. destruct (Z.eqb_spec v u); [congruence|]. repeat split; auto.
    + left. exists p'. destruct (Z.eqb_spec v u); [congruence|]. repeat split; auto.
  - unfold req_switch in E. destruct (aget v (players s)) as [p0|] eqn:E0; simpl in E; [|left; exists p'; repeat split; auto].
    dpst (pst p0) SLogined; simpl in E; [|left; exists p'; repeat split; auto].
    destruct (lock_try (plock p0) (now s) TSwitchLine LockTimeout); simpl in E; [|left; exists p'; repeat split; auto].
    rewrite aget_aset in E. destruct (Z.eqb_spec u v) as [->|N]; [|left; exists p'; repeat split; auto].
    inv E. left. exists p0. simpl. repeat split; auto.
  - unfold switch_end in E. destruct (aget v (players s)) as [p0|] eqn:E0; simpl in E; [|left; exists p'; repeat split; auto].
    dpst (pst p0) SSwitchLine; simpl in E; [|left; exists p'; repeat split; auto].
    destruct (lock_release (plock p0) TSwitchLine); simpl in E; [|left; exists p'; repeat split; auto].
    rewrite aget_aset in E. destruct (Z.eqb_spec u v) as [->|N]; [|left; exists p'; repeat split; auto].
    inv E. left. exists p0. simpl. repeat split; auto.
  - change (aget u (players (tick s)) = Some p') in E.
    rewrite aget_tick in E by exact S. destruct (aget u (players s)) as [p0|] eqn:E0; [|discriminate].
    destruct (negb (removable (tick_player (now s) p0))); [|discriminate]. inv E.
    destruct (tick_player_fields (now s) p0) as (Hn & _ & Hl). destruct (Hl L) as [Et Ex].
    left. exists p0. unfold expires. rewrite E0. rewrite Et in *. repeat split; auto.
  - left. exists p'. repeat split; auto.
Qed.

(* a record without connection after the operation's own update had none before, or this is its close report *)
Lemma own_net0 s o u p' :
  sorted (players s) -> aget u (own s o) = Some p' -> pnet p' = 0 ->
  (exists p, aget u (players s) = Some p /\ pnet p = 0) \/ is_close_report o u = true.
Proof.
  intros S E L.
  destruct (own_cases s o) as [Eo|[(v & p & q & Hu & Ep & Eo & T)|(-> & Eo)]]; rewrite Eo in E.
  - left. exists p'. auto.
  - rewrite aget_aset in E. destruct (Z.eqb_spec u v) as [->|N]; [|left; exists p'; auto].
    inv E. destruct o; simpl in T, Hu; try contradiction; inv Hu;
      try (right; simpl; apply Z.eqb_refl);
      left; exists p; (split; [assumption|]);
      try exact L;
      try (destruct T as (_ & ->); exact L);
      try (destruct T as (_ & _ & ->); exact L);
      try (destruct T as (_ & _ & _ & ->); exact L).
  - rewrite aget_tick in E by exact S. destruct (aget u (players s)) as [p0|] eqn:E0; [|discriminate].
    destruct (negb (removable (tick_player (now s) p0))); [|discriminate]. inv E.
    destruct (tick_player_fields (now s) p0) as (Hn & _). left. exists p0. split; [reflexivity | congruence].
Qed.

(* the connection id a login attaches is not 0 *)
Lemma src_net s G o u rid f n kw' :
  invB s G -> conf_op G o = true -> login_src s o u rid f n kw' -> n <> 0.
Proof.
  intros B C [k -> _ _|t _ Et _ _ -> _].
  - simpl in C. apply negb_true_iff in C. apply Z.eqb_neq in C. exact C.
  - apply (b_tasks _ _ B u). apply in_kw_expire. apply aget_in. exact Et.
Qed.

Lemma src_kw s G o u rid f n kw' x :
  invB s G -> login_src s o u rid f n kw' -> In x kw' -> In x (kw s).
Proof.
  intros B [k _ _ ->|t _ _ _ _ _ ->]; [auto|]. intro H. apply in_kw_expire. eapply in_adel. exact H.
Qed.

Lemma src_own_req s o u rid f n kw' :
  login_src s o u rid f n kw' -> (exists k, o = ReqLogin u f n k) \/ carrier o u.
Proof. intros [k -> _ _|t C _ _ _ _ _]; [left; exists k; reflexivity | right; exact C]. Qed.

Lemma step_fresh_rec s o u :
  fresh_in u (snd (step s o)) = true ->
  exists f n, aget u (players (fst (step s o))) = Some (pF (now s) f n).
Proof.
  destruct (step s o) as [s' os] eqn:E. apply step_shape in E. simpl. intro F.
  destruct E as [_ Hq _ _|u' rid f n Src Ho|u' f n k p ks _ _ _ _ Hk _ _ Eo].
  - destruct (Hq u) as [Q _]. congruence.
  - destruct (outcome_fresh _ _ _ _ _ _ _ _ _ Ho F) as (-> & En & ->).
    exists f, n. apply aget_aset_same.
  - subst os. rewrite fresh_in_app, (kicks_fresh _ _ Hk), cancel_fresh in F. discriminate.
Qed.

Lemma ends_load_req u f n k s v : ends_load s (ReqLogin u f n k) v = false.
Proof. reflexivity. Qed.

Lemma step_recon s G o u :
  invB s G -> conf_op G o = true -> recon_in u (snd (step s o)) = true ->
  g_live (G u) = true /\ (g_logged (G u) = true \/ is_logined o u = true) /\
  (g_closed (G u) = true \/ is_close_report o u = true).
Proof.
  intros B C. destruct (step s o) as [s' os] eqn:E. apply step_shape in E. simpl. intro F.
  destruct E as [_ Hq _ _|u' rid f n Src Ho|u' f n k p ks _ _ _ _ Hk _ _ Eo].
  - destruct (Hq u) as [_ Q]. congruence.
  - destruct (outcome_recon _ _ _ _ _ _ _ _ _ Ho F) as (-> & p & Ep & Np & Sp & _ & _).
    destruct (src_own_req _ _ _ _ _ _ _ Src) as [(k & ->)|[->|[(ok & ->)|(l & ->)]]]; simpl in Ep.
    + destruct (b_logged _ _ B _ _ Ep (or_introl Sp)) as [A1 A2]. pose proof (b_closed _ _ B _ _ Ep Np). auto.
    + destruct (aget u' (players s)) as [p0|] eqn:E0.
      * rewrite aget_aset_same in Ep. inv Ep. simpl in Sp.
        destruct (b_logged _ _ B _ _ E0 (or_introl Sp)) as [A1 A2]. simpl. rewrite Z.eqb_refl. auto.
      * congruence.
    + destruct (b_logged _ _ B _ _ Ep (or_introl Sp)) as [A1 A2]. pose proof (b_closed _ _ B _ _ Ep Np). auto.
    + destruct (aget u' (players s)) as [p0|] eqn:E0.
      * rewrite aget_aset_same in Ep. inv Ep. simpl in Np.
        pose proof (b_closed _ _ B _ _ E0 Np). simpl in C. simpl. rewrite Z.eqb_refl. auto.
      * congruence.
  - subst os. rewrite recon_in_app, (kicks_recon _ _ Hk), cancel_recon in F. discriminate.
Qed.

Lemma step_invB s G o :
  sorted (players s) -> invB s G -> conf_op G o = true ->
  invB (fst (step s o)) (fun u => gh_step s o (snd (step s o)) u (G u)).
Proof.
  intros S B C.
  pose proof (step_fresh_rec s o) as FR.
  destruct (step s o) as [s' os] eqn:E. pose proof (step_shape _ _ _ _ E) as Sh. simpl in *.
  (* what a logged-in record after the step implies *)
  assert (HL : forall u p', aget u (players s') = Some p' -> logged_state p' ->
            fresh_in u os = false /\
            ((exists p, aget u (players s) = Some p /\ logged_state p /\ ends_load s o u = false) \/
             (is_logined o u = true /\ exists p, aget u (players s) = Some p))).
  { intros u p' Ep' L. split.
    - destruct (fresh_in u os) eqn:F; [|reflexivity]. destruct (FR u F) as (f & n & Ef).
      rewrite Ef in Ep'. inv Ep'. destruct L; discriminate.
    - destruct Sh as [Ep _ _ _|u' rid f n Src Ho|u' f n k p ks -> E0 _ Sp _ Ep _ _].
      + rewrite Ep in Ep'. destruct (own_logged _ _ _ _ S Ep' L) as [(p & A & B1 & B2 & _)|(A & p & B1 & _)]; eauto.
      + destruct (Z.eq_dec u u') as [->|N].
        * destruct Ho as [En|p Ep Np Sp Fr|p ks c Ep Hk Hc].
          -- rewrite aget_aset_same in Ep'. inv Ep'. destruct L; discriminate.
          -- destruct (own_logged _ _ _ _ S Ep (or_introl Sp)) as [(q & A & B1 & B2 & _)|(A & q & B1 & _)]; eauto.
          -- destruct (own_logged _ _ _ _ S Ep' L) as [(q & A & B1 & B2 & _)|(A & q & B1 & _)]; eauto.
        * rewrite (outcome_other _ _ _ _ _ _ _ _ _ Ho N) in Ep'.
          destruct (own_logged _ _ _ _ S Ep' L) as [(q & A & B1 & B2 & _)|(A & q & B1 & _)]; eauto.
      + rewrite Ep in Ep'. left. exists p'. auto. }
  (* what a record without connection after the step implies *)
  assert (HN : forall u p', aget u (players s') = Some p' -> pnet p' = 0 ->
            attach_in u os = false /\
            ((exists p, aget u (players s) = Some p /\ pnet p = 0) \/ is_close_report o u = true)).
  { intros u p' Ep' L. unfold attach_in.
    destruct Sh as [Ep Hq _ _|u' rid f n Src Ho|u' f n k p ks -> E0 _ Sp Hk Ep _ ->].
    - destruct (Hq u) as [-> ->]. split; [reflexivity|]. rewrite Ep in Ep'. eapply own_net0; eauto.
    - pose proof (src_net _ _ _ _ _ _ _ _ B C Src) as Nn.
      destruct (Z.eq_dec u u') as [->|N].
      + destruct Ho as [En|p Ep Np Sp Fr|p ks c Ep Hk Hc].
        * rewrite aget_aset_same in Ep'. inv Ep'. simpl in L. contradiction.
        * rewrite aget_aset_same in Ep'. inv Ep'. simpl in L. contradiction.
        * rewrite fresh_in_app, recon_in_app, (kicks_fresh _ _ Hk), (kicks_recon _ _ Hk),
            fresh_in_single, recon_in_single, is_fresh_refused, is_recon_refused by exact Hc.
          split; [reflexivity|]. eapply own_net0; eauto.
      + split.
        * destruct (fresh_in u os) eqn:F1; [destruct (outcome_fresh _ _ _ _ _ _ _ _ _ Ho F1); contradiction|].
          destruct (recon_in u os) eqn:F2; [destruct (outcome_recon _ _ _ _ _ _ _ _ _ Ho F2); contradiction|]. reflexivity.
        * rewrite (outcome_other _ _ _ _ _ _ _ _ _ Ho N) in Ep'. eapply own_net0; eauto.
    - rewrite fresh_in_app, recon_in_app, (kicks_fresh _ _ Hk), (kicks_recon _ _ Hk), cancel_fresh, cancel_recon.
      split; [reflexivity|]. rewrite Ep in Ep'. left. exists p'. auto. }
  constructor.
  - intros u p' Ep' L. destruct (HL u p' Ep' L) as [F [(p & Ep & Lp & Ne)|(Il & p & Ep)]]; unfold gh_step; simpl; rewrite F.
    + destruct (b_logged _ _ B _ _ Ep Lp) as [-> ->]. rewrite Ne. auto.
    + destruct o; simpl in Il; try discriminate. apply Z.eqb_eq in Il. subst. simpl in C. rewrite C.
      simpl. rewrite Z.eqb_refl. rewrite orb_true_r. auto.
  - intros u p' Ep' L. destruct (HN u p' Ep' L) as [F [(p & Ep & Lp)|Ic]]; unfold gh_step; simpl; rewrite F.
    + rewrite (b_closed _ _ B _ _ Ep Lp). reflexivity.
    + rewrite Ic. rewrite orb_true_r. reflexivity.
  - intros u t Hin.
    destruct Sh as [_ _ _ [Ek|Ek]|u' rid f n Src Ho|u' f n k p ks -> E0 _ Sp Hk Ep Ek _].
    + rewrite Ek in Hin. eapply b_tasks; eauto.
    + rewrite Ek in Hin. apply in_kw_expire in Hin. eapply b_tasks; eauto.
    + eapply b_tasks; [exact B|]. eapply src_kw; eauto.
    + rewrite Ek in Hin. apply in_aset in Hin. destruct Hin as [Eq|Hin]; [|eapply b_tasks; eauto].
      inv Eq. simpl. simpl in C. apply negb_true_iff in C. apply Z.eqb_neq in C. exact C.
Qed.

Lemma invB_init : invB init (fun _ => gh0).
Proof. constructor; simpl; intros; try discriminate; contradiction. Qed.

Lemma reach_invB h : conformant h -> invB (final h) (ghost h).
Proof.
  induction h as [|o h IH] using rev_ind; intro C.
  - exact invB_init.
  - apply conformant_snoc in C. destruct C as [Ch Co]. rewrite final_snoc, ghost_snoc.
    apply step_invB; [apply reach_invA | apply IH, Ch | exact Co].
Qed.

Lemma reconnect_guard h o u :
  conformant (h ++ [o]) -> recon_in u (outs_at h o) = true ->
  live h u = true /\
  (logged_in h u = true \/ is_logined o u = true) /\
  (closed_reported h u = true \/ is_close_report o u = true).
Proof.
  intros C F. apply conformant_snoc in C. destruct C as [Ch Co].
  exact (step_recon _ _ _ _ (reach_invB _ Ch) Co F).
Qed.

(* ================================================================== C: transactions *)
Definition lk_view (l : lock) : holder := if held l then Some (reason l, until l) else None.
Definition lview (ps : alist player) (u : Z) : holder :=
  match aget u ps with Some p => lk_view (plock p) | None => None end.

Lemma lock_view_lview s u : lock_view s u = lview (players s) u.
Proof. reflexivity. Qed.

Lemma txn_eqb_sym a b : txn_eqb a b = txn_eqb b a.
Proof. destruct a, b; reflexivity. Qed.

(* Unlock(r0) as seen through the view: ends exactly a holder with reason r0 *)
Definition view_end (x : holder) (r0 : txn) : holder :=
  match x with Some (r, t) => if txn_eqb r r0 then None else x | None => None end.

Lemma lk_view_unlocked l r0 : lk_view (unlocked l r0) = view_end (lk_view l) r0.
Proof.
  unfold unlocked, lock_release, lk_view, view_end. destruct (held l) eqn:Hh; simpl; [|rewrite Hh; reflexivity].
  rewrite (txn_eqb_sym (reason l) r0). destruct (txn_eqb r0 (reason l)); simpl; [reflexivity | rewrite Hh; reflexivity].
Qed.

Lemma lock_free_view l t : lock_free l t -> free_at (lk_view l) t = true.
Proof.
  unfold lock_free, lk_view. intros [H|H]; [rewrite H; reflexivity|].
  destruct (held l); simpl; [apply Z.leb_le; exact H | reflexivity].
Qed.

Lemma lview_aset ps v p u : lview (aset v p ps) u = if u =? v then lk_view (plock p) else lview ps u.
Proof. unfold lview. rewrite aget_aset. destruct (u =? v); reflexivity. Qed.

Lemma grant_none_quiet o os u :
  fresh_in u os = false -> recon_in u os = false ->
  (forall v, o <> ReqLogout v) -> (forall v, o <> ReqSwitchLine v) -> grant_of o os u = None.
Proof.
  intros F R N1 N2. unfold grant_of. rewrite F, R. destruct o; try reflexivity.
  - exfalso. eapply N1; reflexivity.
  - exfalso. eapply N2; reflexivity.
Qed.

Definition family1 (o : op) : Prop :=
  match o with ReqLogin _ _ _ _ | SessionClosed _ | OfflineAck _ _ | LogicLogined _ _ => True | _ => False end.

(* the view after the own update of a login-carrying operation *)
Lemma own_view_f1 s o os u : family1 o -> lview (own s o) u = hold_end s o os u (lview (players s) u).
Proof.
  destruct o as [v f n k|v|v ok|v l|v|v|v|v|v|v sc| |dt]; simpl; try contradiction; intros _.
  - unfold hold_end. simpl. destruct (lview (players s) u) as [[r t]|]; reflexivity.
  - assert (E : lview (match aget v (players s) with Some p => aset v (closed_rec p) (players s) | None => players s end) u
                = lview (players s) u).
    { destruct (aget v (players s)) as [p|] eqn:Ep; [|reflexivity]. rewrite lview_aset.
      destruct (Z.eqb_spec u v) as [->|N]; [|reflexivity]. unfold lview. rewrite Ep. reflexivity. }
    rewrite E. unfold hold_end. simpl. destruct (lview (players s) u) as [[r t]|]; reflexivity.
  - unfold hold_end. simpl. destruct (lview (players s) u) as [[r t]|]; reflexivity.
  - destruct (aget v (players s)) as [p|] eqn:Ep.
    + rewrite lview_aset. destruct (Z.eqb_spec u v) as [->|N].
      * simpl. rewrite lk_view_unlocked. unfold lview. rewrite Ep. unfold hold_end, view_end. simpl.
        rewrite Z.eqb_refl. simpl. destruct (lk_view (plock p)) as [[r t]|]; reflexivity.
      * unfold hold_end. simpl. destruct (Z.eqb_spec v u); [congruence|]. simpl.
        destruct (lview (players s) u) as [[r t]|]; reflexivity.
    + unfold hold_end. simpl. destruct (Z.eqb_spec v u) as [->|N].
      * unfold lview. rewrite Ep. reflexivity.
      * simpl. destruct (lview (players s) u) as [[r t]|]; reflexivity.
Qed.

Lemma hold_end_same s o os u x : (forall r, ends_txn s o os u r = false) -> hold_end s o os u x = x.
Proof. intro H. destruct x as [[r t]|]; simpl; [rewrite H|]; reflexivity. Qed.

Definition txn_ok (s : st) (o : op) (u : Z) : Prop :=
  let s' := fst (step s o) in let os := snd (step s o) in
  lock_view s' u = hold_step s o os u (lock_view s u) /\
  (forall r, grant_of o os u = Some r -> free_at (hold_end s o os u (lock_view s u)) (now s) = true).

Lemma txn_ok_quiet s o u :
  lock_view (fst (step s o)) u = hold_end s o (snd (step s o)) u (lock_view s u) ->
  grant_of o (snd (step s o)) u = None -> txn_ok s o u.
Proof.
  intros V Gn. unfold txn_ok. simpl. unfold hold_step. rewrite Gn. split; [exact V | intros r H; discriminate].
Qed.

Lemma txn_f1 s o u : family1 o -> txn_ok s o u.
Proof.
  intro F1.
  assert (NL : forall v, o <> ReqLogout v) by (intros v ->; exact F1).
  assert (NS : forall v, o <> ReqSwitchLine v) by (intros v ->; exact F1).
  unfold txn_ok. destruct (step s o) as [s' os] eqn:E. pose proof (step_shape _ _ _ _ E) as Sh. simpl.
  rewrite !lock_view_lview. unfold hold_step. rewrite <- (own_view_f1 s o os u F1).
  destruct Sh as [Ep Hq _ _|u0 rid f n Src Ho|u0 f n k p ks -> E0 _ Sp Hk Ep _ ->].
  - destruct (Hq u) as [Q1 Q2]. rewrite (grant_none_quiet _ _ _ Q1 Q2 NL NS).
    split; [rewrite Ep; reflexivity | intros r H; discriminate].
  - destruct (Z.eq_dec u u0) as [->|N].
    + destruct Ho as [En|p Ep Np Sp Fr|p ks c Ep Hk Hc].
      * unfold grant_of. simpl. rewrite Z.eqb_refl. simpl. rewrite lview_aset, Z.eqb_refl.
        split; [reflexivity|]. intros r _. unfold lview. rewrite En. reflexivity.
      * unfold grant_of. simpl. rewrite Z.eqb_refl. simpl. rewrite lview_aset, Z.eqb_refl.
        split; [reflexivity|]. intros r _. unfold lview. rewrite Ep. apply lock_free_view, Fr.
      * rewrite grant_none_quiet; auto.
        -- split; [reflexivity | intros r H; discriminate].
        -- rewrite fresh_in_app, (kicks_fresh _ _ Hk), fresh_in_single. apply is_fresh_refused, Hc.
        -- rewrite recon_in_app, (kicks_recon _ _ Hk), recon_in_single. apply is_recon_refused.
    + rewrite grant_none_quiet; auto.
      * split; [|intros r H; discriminate].
        unfold lview. rewrite (outcome_other _ _ _ _ _ _ _ _ _ Ho N). reflexivity.
      * destruct (fresh_in u os) eqn:F; [|reflexivity]. destruct (outcome_fresh _ _ _ _ _ _ _ _ _ Ho F); contradiction.
      * destruct (recon_in u os) eqn:F; [|reflexivity]. destruct (outcome_recon _ _ _ _ _ _ _ _ _ Ho F); contradiction.
  - rewrite grant_none_quiet; auto.
    + split; [rewrite Ep; reflexivity | intros r H; discriminate].
    + rewrite fresh_in_app, (kicks_fresh _ _ Hk). apply cancel_fresh.
    + rewrite recon_in_app, (kicks_recon _ _ Hk). apply cancel_recon.
Qed.

Lemma lview_tick s u :
  sorted (players s) ->
  lview (players (tick s)) u = if dropped_by_tick s u then None else lview (players s) u.
Proof.
  intro S. unfold lview, dropped_by_tick. rewrite aget_tick by exact S.
  destruct (aget u (players s)) as [p|]; [|reflexivity].
  destruct (removable (tick_player (now s) p)); simpl; [reflexivity|].
  destruct (tick_player_fields (now s) p) as (_ & -> & _). reflexivity.
Qed.

Ltac view_other N := rewrite lview_aset; let X := fresh in destruct (Z.eqb_spec _ _) as [X|X]; [congruence|]; clear X.

Lemma step_txn s o u : sorted (players s) -> txn_ok s o u.
Proof.
  intro S.
  destruct o as [v f n k|v|v ok|v l|v|v|v|v|v|v sc| |dt];
    try (apply txn_f1; exact I).
  - (* LogicReOnline *)
    apply txn_ok_quiet; [|simpl; unfold logic_reonline; destruct (aget v (players s)); reflexivity]. simpl. unfold logic_reonline. rewrite !lock_view_lview.
    destruct (aget v (players s)) as [p|] eqn:Ep; simpl.
    + rewrite lview_aset. destruct (Z.eqb_spec u v) as [->|N].
      * simpl. rewrite lk_view_unlocked. unfold lview. rewrite Ep. unfold hold_end, view_end. simpl.
        rewrite Z.eqb_refl. simpl. destruct (lk_view (plock p)) as [[r t]|]; reflexivity.
      * unfold hold_end. simpl. destruct (Z.eqb_spec v u); [congruence|]. simpl.
        destruct (lview (players s) u) as [[r t]|]; reflexivity.
    + unfold hold_end. simpl. destruct (Z.eqb_spec v u) as [->|N].
      * unfold lview. rewrite Ep. reflexivity.
      * simpl. destruct (lview (players s) u) as [[r t]|]; reflexivity.
  - (* ReqLogout *)
    unfold txn_ok. simpl. unfold req_logout. rewrite !lock_view_lview.
    destruct (aget v (players s)) as [p|] eqn:Ep; simpl.
    + destruct (lock_try (plock p) (now s) TLogout LockTimeout) as [l|] eqn:El; simpl.
      * apply lock_try_some in El. destruct El as [Fr ->]. unfold hold_step, grant_of. simpl.
        rewrite andb_true_r. rewrite lview_aset. destruct (Z.eqb_spec u v) as [->|N].
        -- rewrite Z.eqb_refl. split; [reflexivity|]. intros r _. rewrite hold_end_same by reflexivity.
           unfold lview. rewrite Ep. apply lock_free_view, Fr.
        -- destruct (Z.eqb_spec v u); [congruence|]. rewrite hold_end_same by reflexivity.
           split; [reflexivity | intros r H; discriminate].
      * unfold hold_step, grant_of. simpl. rewrite andb_false_r. rewrite hold_end_same by reflexivity.
        split; [reflexivity | intros r H; discriminate].
    + unfold hold_step, grant_of. simpl. rewrite andb_false_r. rewrite hold_end_same by reflexivity.
      split; [reflexivity | intros r H; discriminate].
  - (* LogicLogout *)
    apply txn_ok_quiet.
    + simpl. unfold logic_logout. rewrite !lock_view_lview.
      destruct (aget v (players s)) as [p|] eqn:Ep; simpl.
      * rewrite lview_aset. destruct (Z.eqb_spec u v) as [->|N].
        -- simpl. rewrite lk_view_unlocked. unfold lview. rewrite Ep. unfold hold_end, view_end. simpl.
           rewrite Z.eqb_refl. simpl. destruct (lk_view (plock p)) as [[r t]|]; reflexivity.
        -- unfold hold_end. simpl. destruct (Z.eqb_spec v u); [congruence|]. simpl.
           destruct (lview (players s) u) as [[r t]|]; reflexivity.
      * unfold hold_end. simpl. destruct (Z.eqb_spec v u) as [->|N].
        -- unfold lview. rewrite Ep. reflexivity.
        -- simpl. destruct (lview (players s) u) as [[r t]|]; reflexivity.
    + simpl. unfold logic_logout, kick_if_open. destruct (aget v (players s)) as [p|]; simpl; [|reflexivity].
      apply grant_none_quiet; try discriminate;
        (destruct (pnet p =? 0); [reflexivity|]); [apply kicks_fresh | apply kicks_recon]; apply kicks_only_kick_out.
  - (* AbnormalLogout *)
    apply txn_ok_quiet.
    + simpl. rewrite hold_end_same by reflexivity. unfold abnormal_logout. rewrite !lock_view_lview.
      destruct (aget v (players s)) as [p|] eqn:Ep; simpl; [|reflexivity].
      rewrite lview_aset. destruct (Z.eqb_spec u v) as [->|N]; [|reflexivity]. unfold lview. rewrite Ep. reflexivity.
    + simpl. unfold abnormal_logout, kick_if_open. destruct (aget v (players s)) as [p|]; simpl; [|reflexivity].
      apply grant_none_quiet; try discriminate;
        (destruct (pnet p =? 0); [reflexivity|]); [apply kicks_fresh | apply kicks_recon]; apply kicks_only_kick_out.
  - (* ReqSwitchLine *)
    unfold txn_ok. simpl. unfold req_switch. rewrite !lock_view_lview.
    assert (Q : forall s0, lview (players s0) u = lview (players s) u ->
               lview (players s0) u = hold_step s (ReqSwitchLine v) [Ret false] u (lview (players s) u) /\
               (forall r, grant_of (ReqSwitchLine v) [Ret false] u = Some r ->
                          free_at (hold_end s (ReqSwitchLine v) [Ret false] u (lview (players s) u)) (now s) = true)).
    { intros s0 E0. unfold hold_step, grant_of. simpl. rewrite andb_false_r. rewrite hold_end_same by reflexivity.
      split; [exact E0 | intros r H; discriminate]. }
    destruct (aget v (players s)) as [p|] eqn:Ep; simpl; [|apply Q; reflexivity].
    destruct (pstate_eqb (pst p) SLogined); simpl; [|apply Q; reflexivity].
    destruct (lock_try (plock p) (now s) TSwitchLine LockTimeout) as [l|] eqn:El; simpl; [|apply Q; reflexivity].
    apply lock_try_some in El. destruct El as [Fr ->]. unfold hold_step, grant_of. simpl.
    rewrite andb_true_r. rewrite lview_aset. destruct (Z.eqb_spec u v) as [->|N].
    + rewrite Z.eqb_refl. split; [reflexivity|]. intros r _. rewrite hold_end_same by reflexivity.
      unfold lview. rewrite Ep. apply lock_free_view, Fr.
    + destruct (Z.eqb_spec v u); [congruence|]. rewrite hold_end_same by reflexivity.
      split; [reflexivity | intros r H; discriminate].
  - (* SwitchLineEnd *)
    unfold txn_ok. simpl. unfold switch_end. rewrite !lock_view_lview.
    assert (Q : forall s0, lview (players s0) u = lview (players s) u ->
               lview (players s0) u = hold_step s (SwitchLineEnd v sc) [Ret false] u (lview (players s) u) /\
               (forall r, grant_of (SwitchLineEnd v sc) [Ret false] u = Some r ->
                          free_at (hold_end s (SwitchLineEnd v sc) [Ret false] u (lview (players s) u)) (now s) = true)).
    { intros s0 E0. unfold hold_step, grant_of. simpl. rewrite hold_end_same.
      - split; [exact E0 | intros r H; discriminate].
      - intro r. simpl. apply andb_false_r. }
    destruct (aget v (players s)) as [p|] eqn:Ep; simpl; [|apply Q; reflexivity].
    destruct (pstate_eqb (pst p) SSwitchLine); simpl; [|apply Q; reflexivity].
    destruct (lock_release (plock p) TSwitchLine) as [l|] eqn:El; simpl; [|apply Q; reflexivity].
    apply lock_release_some in El. destruct El as (Hh & Hr & ->). unfold hold_step, grant_of. simpl.
    split; [|intros r H; discriminate]. rewrite lview_aset. destruct (Z.eqb_spec u v) as [->|N].
    + simpl. unfold lk_view. simpl. unfold lview. rewrite Ep. unfold lk_view. rewrite Hh, Hr.
      unfold hold_end. simpl. rewrite Z.eqb_refl. reflexivity.
    + unfold hold_end. simpl. destruct (Z.eqb_spec v u); [congruence|]. simpl.
      destruct (lview (players s) u) as [[r t]|]; reflexivity.
  - (* Tick *)
    apply txn_ok_quiet; [|reflexivity]. simpl. rewrite !lock_view_lview. rewrite lview_tick by exact S.
    unfold hold_end. simpl. destruct (dropped_by_tick s u) eqn:D.
    + destruct (lview (players s) u) as [[r t]|]; reflexivity.
    + destruct (lview (players s) u) as [[r t]|]; reflexivity.
  - (* Advance *)
    apply txn_ok_quiet; [|reflexivity]. simpl. rewrite hold_end_same by reflexivity. reflexivity.
Qed.

Lemma run_sorted s m : sorted (players s) -> sorted (players (run_from s m)).
Proof. revert s. induction m as [|e m IH]; intros s S; simpl; [exact S | apply IH, step_sorted, S]. Qed.

Lemma now_mono s m : clock_forward m -> now s <= now (run_from s m).
Proof.
  revert s. induction m as [|e m IH]; intros s C; simpl; [lia|].
  apply Forall_cons_iff in C. destruct C as [Ce Cm].
  pose proof (step_now s e) as B. remember (fst (step s e)) as s1 eqn:Es. clear Es.
  specialize (IH s1 Cm). destruct e; simpl in B; lia.
Qed.

(* while the holder's limit has not passed, the next grant on the account is preceded by the end
   of the holder's transaction *)
Lemma txn_pair s u r1 e1 mid o2 r2 :
  sorted (players s) -> lock_view s u = Some (r1, e1) -> clock_forward mid ->
  grant_of o2 (snd (step (run_from s mid) o2)) u = Some r2 ->
  now (run_from s mid) < e1 ->
  exists m1 e m2, mid ++ [o2] = m1 ++ e :: m2 /\
                  ends_txn (run_from s m1) e (snd (step (run_from s m1) e)) u r1 = true.
Proof.
  revert s. induction mid as [|e mid IH]; intros s S V C G T.
  - simpl in *. destruct (step_txn s o2 u S) as [_ Fr]. specialize (Fr _ G). rewrite V in Fr.
    unfold hold_end in Fr. destruct (ends_txn s o2 (snd (step s o2)) u r1) eqn:En.
    + exists [], o2, []. auto.
    + simpl in Fr. apply Z.leb_le in Fr. lia.
  - simpl in G, T. destruct (ends_txn s e (snd (step s e)) u r1) eqn:En.
    + exists [], e, (mid ++ [o2]). auto.
    + destruct (step_txn s e u S) as [Vs Fr]. rewrite V in Vs, Fr. unfold hold_step, hold_end in Vs, Fr.
      rewrite En in Vs, Fr. pose proof (now_mono s (e :: mid) C) as Mo. simpl in Mo.
      destruct (grant_of e (snd (step s e)) u) as [r|] eqn:Ge.
      * specialize (Fr _ eq_refl). simpl in Fr. apply Z.leb_le in Fr. lia.
      * apply Forall_cons_iff in C. destruct C as [_ Cm].
        destruct (IH _ (step_sorted _ e S) Vs Cm G T) as (m1 & x & m2 & Em & Hx).
        exists (e :: m1), x, m2. simpl. rewrite Em. auto.
Qed.

Lemma grant_sets_lock s o u r :
  sorted (players s) -> grant_of o (snd (step s o)) u = Some r ->
  lock_view (fst (step s o)) u = Some (r, now s + limit r).
Proof.
  intros S G. destruct (step_txn s o u S) as [V _]. rewrite V. unfold hold_step. rewrite G. reflexivity.
Qed.

Lemma txn_exclusive h1 o1 mid o2 u r1 r2 :
  clock_forward mid ->
  grant_of o1 (outs_at h1 o1) u = Some r1 ->
  grant_of o2 (outs_at (h1 ++ o1 :: mid) o2) u = Some r2 ->
  now (final (h1 ++ o1 :: mid)) < now (final h1) + limit r1 ->
  exists m1 e m2, mid ++ [o2] = m1 ++ e :: m2 /\
    ends_txn (final (h1 ++ o1 :: m1)) e (outs_at (h1 ++ o1 :: m1) e) u r1 = true.
Proof.
  intros C G1 G2 T.
  pose proof (grant_sets_lock _ _ _ _ (proj1 (reach_invA h1)) G1) as V.
  assert (R : forall m, final (h1 ++ o1 :: m) = run_from (fst (step (final h1) o1)) m).
  { intro m. unfold final. rewrite run_from_app. reflexivity. }
  unfold outs_at in G2. rewrite R in G2, T.
  destruct (txn_pair _ _ _ _ _ _ _ (step_sorted _ o1 (proj1 (reach_invA h1))) V C G2 T) as (m1 & e & m2 & Em & He).
  exists m1, e, m2. split; [exact Em|]. unfold outs_at. rewrite R. exact He.
Qed.

(* the lock's own behaviour *)
Lemma lock_refuses l t r lim : held l = true -> t < until l -> lock_try l t r lim = None.
Proof. intros H T. unfold lock_try. rewrite H. simpl. destruct (Z.ltb_spec t (until l)); [reflexivity | lia]. Qed.

Lemma lock_grants l t r lim :
  held l = false \/ until l <= t -> lock_try l t r lim = Some (mklock true r (t + lim)).
Proof.
  intros [H|H]; unfold lock_try; [rewrite H; reflexivity|].
  destruct (held l); simpl; [|reflexivity]. destruct (Z.ltb_spec t (until l)); [lia | reflexivity].
Qed.

Lemma lock_unlock_matching l r :
  lock_release l r = (if held l && txn_eqb r (reason l) then Some (mklock false (reason l) (until l)) else None).
Proof. reflexivity. Qed.

(* the trace-level holder is what the lock shows, in every reachable state *)

Lemma holder_from_view s H ops u :
  sorted (players s) -> (forall v, H v = lock_view s v) ->
  holder_from s H ops u = lock_view (run_from s ops) u.
Proof.
  revert s H. induction ops as [|o r IH]; intros s H S E; simpl; [apply E|].
  apply IH; [apply step_sorted, S|]. intro v. rewrite E. symmetry. apply (step_txn s o v S).
Qed.

Lemma holder_is_lock h u : holder_of h u = lock_view (final h) u.
Proof. apply holder_from_view; [exact I | reflexivity]. Qed.

Lemma txn_grant_when_free h o u r :
  grant_of o (outs_at h o) u = Some r ->
  free_at (hold_end (final h) o (outs_at h o) u (lock_view (final h) u)) (now (final h)) = true /\
  lock_view (final (h ++ [o])) u = Some (r, now (final h) + limit r).
Proof.
  intro G. pose proof (proj1 (reach_invA h)) as S. destruct (step_txn (final h) o u S) as [V Fr].
  split; [apply (Fr r G)|]. rewrite final_snoc. apply grant_sets_lock; assumption.
Qed.

(* frame: an operation on account u leaves the records of all other accounts alone *)
Lemma frame_other_accounts s o u v :
  op_uid o = Some u -> v <> u -> aget v (players (fst (step s o))) = aget v (players s).
Proof.
  intros Hu N. destruct (step s o) as [s' os] eqn:E. apply step_shape in E. simpl.
  assert (Ow : aget v (own s o) = aget v (players s)).
  { destruct (own_cases s o) as [->|[(w & p & p' & Hw & _ & -> & _)|(-> & _)]]; [reflexivity | | discriminate].
    rewrite Hu in Hw. inv Hw. apply aget_aset_other, N. }
  destruct E as [Ep _ _ _|u0 rid f n Src Ho|u0 f n k p ks _ _ _ _ _ Ep _ _].
  - rewrite Ep. exact Ow.
  - assert (u0 = u).
    { destruct (src_own_req _ _ _ _ _ _ _ Src) as [(k & ->)|[->|[(ok & ->)|(l & ->)]]]; simpl in Hu; congruence. }
    subst u0. rewrite (outcome_other _ _ _ _ _ _ _ _ _ Ho N). exact Ow.
  - rewrite Ep. reflexivity.
Qed.

(* ================================================================== D: a login is answered at most once *)
(* the account of login request rid in history h *)
Definition req_uid (h : list op) (rid : Z) : option Z :=
  if rid <? 0 then None else nth_error (login_uids h) (Z.to_nat rid).

Lemma login_uids_app a b : login_uids (a ++ b) = login_uids a ++ login_uids b.
Proof.
  induction a as [|o a IH]; simpl; [reflexivity|]. destruct o; simpl; rewrite ?IH; reflexivity.
Qed.

Lemma req_uid_mono h o rid u : req_uid h rid = Some u -> req_uid (h ++ [o]) rid = Some u.
Proof.
  unfold req_uid. destruct (rid <? 0); [discriminate|]. rewrite login_uids_app. intro H.
  rewrite nth_error_app1; [exact H|]. apply nth_error_Some. congruence.
Qed.

Lemma req_uid_new h u f n k :
  req_uid (h ++ [ReqLogin u f n k]) (Z.of_nat (length (login_uids h))) = Some u.
Proof.
  unfold req_uid. destruct (Z.ltb_spec (Z.of_nat (length (login_uids h))) 0); [lia|].
  rewrite Nat2Z.id, login_uids_app. rewrite nth_error_app2 by lia. rewrite Nat.sub_diag. reflexivity.
Qed.

Fixpoint acks_for (h : list op) (os : list out) : Prop :=
  match os with
  | [] => True
  | Ack r u _ _ _ :: rest => req_uid h r = Some u /\ acks_for h rest
  | _ :: rest => acks_for h rest
  end.

Lemma acks_for_app h a b : acks_for h (a ++ b) <-> acks_for h a /\ acks_for h b.
Proof.
  induction a as [|e a IH]; simpl; [tauto|]. destruct e; simpl; rewrite ?IH; tauto.
Qed.

Lemma acks_for_mono h o os : acks_for h os -> acks_for (h ++ [o]) os.
Proof.
  induction os as [|e os IH]; simpl; [auto|]. destruct e; simpl; auto.
  intros [A B]. split; [apply req_uid_mono, A | auto].
Qed.

Lemma acks_for_kicks h ks : kicks_only ks -> acks_for h ks.
Proof. induction 1 as [|e ks He _ IH]; simpl; [exact I|]. destruct e; try contradiction. exact IH. Qed.

Lemma acks_for_in h os r u c x l : acks_for h os -> In (Ack r u c x l) os -> req_uid h r = Some u.
Proof.
  induction os as [|e os IH]; simpl; [tauto|]. intros A [E|H].
  - subst e. tauto.
  - destruct e; simpl in A; tauto.
Qed.

Record invD (h : list op) : Prop := mkInvD {
  d_sorted : sorted (kw (final h));
  d_nodup : NoDup (ack_rids (all_outs h));
  d_range : forall r, In r (ack_rids (all_outs h)) -> 0 <= r < nreq (final h);
  d_task : forall u t, aget u (kw (final h)) = Some t ->
             0 <= trid t < nreq (final h) /\ ~ In (trid t) (ack_rids (all_outs h)) /\
             req_uid h (trid t) = Some u;
  d_distinct : forall u t u' t', aget u (kw (final h)) = Some t -> aget u' (kw (final h)) = Some t' ->
                 trid t = trid t' -> u = u';
  d_count : nreq (final h) = Z.of_nat (length (login_uids h));
  d_for : acks_for h (all_outs h) }.

Lemma outcome_rids ps t rid u f n ps' os : outcome ps t rid u f n ps' os -> ack_rids os = [rid].
Proof.
  intros [En|p Ep Np Sp Fr|p ks c Ep Hk Hc]; try reflexivity.
  rewrite ack_rids_app, (kicks_rids _ Hk). reflexivity.
Qed.

Lemma outcome_for h ps t rid u f n ps' os :
  outcome ps t rid u f n ps' os -> req_uid h rid = Some u -> acks_for h os.
Proof.
  intros [En|p Ep Np Sp Fr|p ks c Ep Hk Hc] R; simpl; auto.
  apply acks_for_app. split; [apply acks_for_kicks, Hk | simpl; auto].
Qed.

Lemma sorted_kw_expire s : sorted (kw s) -> sorted (kw (kw_expire s)).
Proof. unfold kw_expire. destruct (now s <? kwnext s); simpl; [auto | apply sorted_filter]. Qed.

Lemma aget_kw_expire s u t : sorted (kw s) -> aget u (kw (kw_expire s)) = Some t -> aget u (kw s) = Some t.
Proof.
  unfold kw_expire. destruct (now s <? kwnext s); simpl; [auto|]. intros S H. eapply aget_filter_keys; eauto.
Qed.

Lemma NoDup_snoc (l : list Z) x : NoDup l -> ~ In x l -> NoDup (l ++ [x]).
Proof.
  intros N I. induction l as [|y l IH]; simpl; [constructor; [tauto | constructor]|].
  inv N. constructor.
  - rewrite in_app_iff. simpl. intros [H|[H|[]]]; [contradiction | subst; apply I; left; reflexivity].
  - apply IH; [assumption | intro H; apply I; right; exact H].
Qed.

Lemma invD_nil : invD [].
Proof. constructor; simpl; try tauto; try constructor; intros; discriminate. Qed.

Lemma invD_snoc h o : invD h -> invD (h ++ [o]).
Proof.
  intro D. pose proof (step_nreq (final h) o) as Nq.
  assert (Lu : login_uids (h ++ [o]) = login_uids h ++ match o with ReqLogin u _ _ _ => [u] | _ => [] end).
  { rewrite login_uids_app. destruct o; reflexivity. }
  destruct (step (final h) o) as [s' os] eqn:E. pose proof (step_shape _ _ _ _ E) as Sh.
  assert (Ef : final (h ++ [o]) = s') by (rewrite final_snoc, E; reflexivity).
  assert (Eo : all_outs (h ++ [o]) = all_outs h ++ os) by (rewrite all_outs_snoc; unfold outs_at; rewrite E; reflexivity).
  simpl in Nq.
  destruct D as [DS DN DR DT DD DC DF].
  assert (Cnt : nreq s' = Z.of_nat (length (login_uids (h ++ [o])))).
  { rewrite Nq, Lu, app_length, DC. destruct o; simpl; lia. }
  assert (Ge : nreq (final h) <= nreq s') by (rewrite Nq; destruct o; simpl; lia).
  destruct Sh as [_ _ Er [Ek|Ek]|u rid f n Src Ho|u f n k p ks -> E0 _ Sp Hk Ep Ek ->].
  - (* quiet, kick-wait table unchanged *)
    assert (Ea : ack_rids (all_outs (h ++ [o])) = ack_rids (all_outs h)) by (rewrite Eo, ack_rids_app, Er, app_nil_r; reflexivity).
    constructor; rewrite ?Ef, ?Ea, ?Ek; auto.
    + intros r Hr. specialize (DR r Hr). lia.
    + intros v t Hv. destruct (DT v t Hv) as (A & B & C). repeat split; try lia; [exact B | apply req_uid_mono, C].
    + rewrite Eo. apply acks_for_app. split; [apply acks_for_mono, DF|].
      clear - Er. induction os as [|e os IH]; simpl; [exact I|]. destruct e; simpl in Er; try discriminate; auto.
  - (* quiet, expired tasks dropped *)
    assert (Ea : ack_rids (all_outs (h ++ [o])) = ack_rids (all_outs h)) by (rewrite Eo, ack_rids_app, Er, app_nil_r; reflexivity).
    constructor; rewrite ?Ef, ?Ea, ?Ek; auto.
    + apply sorted_kw_expire, DS.
    + intros r Hr. specialize (DR r Hr). lia.
    + intros v t Hv. apply aget_kw_expire in Hv; [|exact DS].
      destruct (DT v t Hv) as (A & B & C). repeat split; try lia; [exact B | apply req_uid_mono, C].
    + intros v t v' t' Hv Hv'. apply aget_kw_expire in Hv; [|exact DS]. apply aget_kw_expire in Hv'; [|exact DS]. eauto.
    + rewrite Eo. apply acks_for_app. split; [apply acks_for_mono, DF|].
      clear - Er. induction os as [|e os IH]; simpl; [exact I|]. destruct e; simpl in Er; try discriminate; auto.
  - (* a login answered at once *)
    assert (Ea : ack_rids (all_outs (h ++ [o])) = ack_rids (all_outs h) ++ [rid])
      by (rewrite Eo, ack_rids_app, (outcome_rids _ _ _ _ _ _ _ _ Ho); reflexivity).
    destruct Src as [k -> -> Ek|t Ca Et -> -> -> Ek].
    + (* a new request *)
      simpl in Nq.
      assert (Nin : ~ In (nreq (final h)) (ack_rids (all_outs h))) by (intro Hin; specialize (DR _ Hin); lia).
      constructor; rewrite ?Ef, ?Ea, ?Ek; auto.
      * apply NoDup_snoc; assumption.
      * intros r Hr. apply in_app_iff in Hr. destruct Hr as [Hr|[<-|[]]]; [specialize (DR r Hr)|]; lia.
      * intros v t Hv. destruct (DT v t Hv) as (A & B & C). repeat split; try lia; [|apply req_uid_mono, C].
        rewrite in_app_iff. simpl. intros [Hx|[Hx|[]]]; [contradiction | lia].
      * rewrite Eo. apply acks_for_app. split; [apply acks_for_mono, DF|].
        eapply outcome_for; [exact Ho|]. rewrite DC. apply req_uid_new.
    + (* a parked login carried out *)
      pose proof (aget_kw_expire _ _ _ DS Et) as Et0. destruct (DT _ _ Et0) as (A & B & C).
      assert (Nq' : nreq s' = nreq (final h)).
      { rewrite Nq. destruct Ca as [->|[(ok & ->)|(l & ->)]]; reflexivity. }
      constructor; rewrite ?Ef, ?Ea, ?Ek; auto.
      * apply sorted_adel, sorted_kw_expire, DS.
      * apply NoDup_snoc; assumption.
      * intros r Hr. apply in_app_iff in Hr. destruct Hr as [Hr|[<-|[]]]; [specialize (DR r Hr)|]; lia.
      * intros v t0 Hv. rewrite aget_adel in Hv. destruct (Z.eqb_spec v u) as [->|N]; [discriminate|].
        pose proof (aget_kw_expire _ _ _ DS Hv) as Hv0. destruct (DT v t0 Hv0) as (A' & B' & C').
        repeat split; try lia; [|apply req_uid_mono, C'].
        rewrite in_app_iff. simpl. intros [Hx|[Hx|[]]]; [contradiction|].
        apply N. symmetry. eapply DD; eauto.
      * intros v t0 v' t0' Hv Hv'. rewrite aget_adel in Hv, Hv'.
        destruct (v =? u); [discriminate|]. destruct (v' =? u); [discriminate|].
        apply aget_kw_expire in Hv; [|exact DS]. apply aget_kw_expire in Hv'; [|exact DS]. eauto.
      * rewrite Eo. apply acks_for_app. split; [apply acks_for_mono, DF|].
        eapply outcome_for; [exact Ho|]. apply req_uid_mono, C.
  - (* a login parked, the previous parked login of the account cancelled *)
    simpl in Nq.
    assert (Ea : ack_rids (all_outs (h ++ [ReqLogin u f n k])) =
                 ack_rids (all_outs h) ++ match aget u (kw (final h)) with Some t0 => [trid t0] | None => [] end).
    { rewrite Eo, !ack_rids_app, (kicks_rids _ Hk). simpl. destruct (aget u (kw (final h))) as [t0|]; [|reflexivity].
      simpl. rewrite ack_rids_app, (kicks_rids _ (kicks_only_kick_out _ _)). reflexivity. }
    constructor; rewrite ?Ef, ?Ea, ?Ek; auto.
    + apply sorted_aset, DS.
    + destruct (aget u (kw (final h))) as [t0|] eqn:E1; [|rewrite app_nil_r; exact DN].
      apply NoDup_snoc; [exact DN|]. apply (DT _ _ E1).
    + intros r Hr. apply in_app_iff in Hr. destruct Hr as [Hr|Hr]; [specialize (DR r Hr); lia|].
      destruct (aget u (kw (final h))) as [t0|] eqn:E1; [|contradiction]. destruct Hr as [<-|[]].
      destruct (DT _ _ E1) as (A & _). lia.
    + intros v t Hv. rewrite aget_aset in Hv. destruct (Z.eqb_spec v u) as [->|N].
      * inv Hv. simpl. repeat split; try lia.
        -- rewrite in_app_iff. intros [Hx|Hx]; [specialize (DR _ Hx); lia|].
           destruct (aget u (kw (final h))) as [t0|] eqn:E1; [|contradiction]. destruct Hx as [Hx|[]].
           destruct (DT _ _ E1) as (A & _). lia.
        -- rewrite DC. apply req_uid_new.
      * destruct (DT v t Hv) as (A & B & C). repeat split; try lia; [|apply req_uid_mono, C].
        rewrite in_app_iff. intros [Hx|Hx]; [contradiction|].
        destruct (aget u (kw (final h))) as [t0|] eqn:E1; [|contradiction]. destruct Hx as [Hx|[]].
        apply N. eapply DD; eauto.
    + intros v t v' t' Hv Hv' Et. rewrite aget_aset in Hv, Hv'.
      destruct (Z.eqb_spec v u) as [->|N]; destruct (Z.eqb_spec v' u) as [->|N']; auto.
      * inv Hv. simpl in Et. destruct (DT _ _ Hv') as (A & _). lia.
      * inv Hv'. simpl in Et. destruct (DT _ _ Hv) as (A & _). lia.
      * eauto.
    + rewrite Eo. apply acks_for_app. split; [apply acks_for_mono, DF|].
      apply acks_for_app. split; [apply acks_for_kicks, Hk|].
      destruct (aget u (kw (final h))) as [t0|] eqn:E1; [|exact I]. simpl.
      apply acks_for_app. split; [apply acks_for_kicks, kicks_only_kick_out|]. simpl. split; [|exact I].
      apply req_uid_mono. apply (DT _ _ E1).
Qed.

Lemma reach_invD h : invD h.
Proof. induction h as [|o h IH] using rev_ind; [exact invD_nil | apply invD_snoc, IH]. Qed.

Lemma NoDup_zcount (l : list Z) x : NoDup l -> (zcount x l <= 1)%nat.
Proof.
  induction 1 as [|y l Hy _ IH]; simpl; [lia|].
  destruct (Z.eqb_spec x y); [|exact IH]. subst.
  assert (zcount y l = 0%nat); [|lia].
  destruct (zcount y l) eqn:Z0; [reflexivity|]. exfalso. apply Hy. apply zcount_In. lia.
Qed.

Lemma answered_at_most_once h rid : (zcount rid (ack_rids (all_outs h)) <= 1)%nat.
Proof. apply NoDup_zcount, (d_nodup _ (reach_invD h)). Qed.

Lemma ack_answers_request h rid u c x l :
  In (Ack rid u c x l) (all_outs h) -> 0 <= rid /\ nth_error (login_uids h) (Z.to_nat rid) = Some u.
Proof.
  intro H. pose proof (acks_for_in _ _ _ _ _ _ _ (d_for _ (reach_invD h)) H) as R.
  unfold req_uid in R. destruct (Z.ltb_spec rid 0); [discriminate|]. split; [lia | exact R].
Qed.

(* ================================================================== the monitor accepts the model's traces *)
Definition same (a b : st) : Prop := players a = players b /\ now a = now b /\ nreq a = nreq b.

Lemma players_roundtrip s clk nq : players (st_of_dump (dump_of s) clk nq) = players s.
Proof.
  unfold dump_of, st_of_dump. simpl. rewrite map_map. rewrite <- (map_id (players s)) at 2.
  apply map_ext. intros [k p]. simpl. destruct p as [a b c d e l]. destruct l. reflexivity.
Qed.

Lemma same_roundtrip s clk nq : clk = now s -> nq = nreq s -> same (st_of_dump (dump_of s) clk nq) s.
Proof.
  intros -> ->. split; [apply players_roundtrip|]. unfold dump_of, st_of_dump. simpl. auto.
Qed.

Lemma same_ends_load a b o u : same a b -> ends_load a o u = ends_load b o u.
Proof. intros (P & N & _). unfold ends_load, expires. rewrite P, N. reflexivity. Qed.
Lemma same_gh_step a b o os u g : same a b -> gh_step a o os u g = gh_step b o os u g.
Proof. intro S. unfold gh_step. rewrite (same_ends_load _ _ _ _ S). reflexivity. Qed.
Lemma same_ends_txn a b o os u r : same a b -> ends_txn a o os u r = ends_txn b o os u r.
Proof. intros (P & N & _). unfold ends_txn, dropped_by_tick. rewrite P, N. reflexivity. Qed.
Lemma same_hold_end a b o os u x : same a b -> hold_end a o os u x = hold_end b o os u x.
Proof. intro S. unfold hold_end. destruct x as [[r t]|]; [rewrite (same_ends_txn _ _ _ _ _ _ S)|]; reflexivity. Qed.
Lemma same_hold_step a b o os u x : same a b -> hold_step a o os u x = hold_step b o os u x.
Proof.
  intro S. unfold hold_step. rewrite (same_hold_end _ _ _ _ _ _ S). destruct S as (_ & -> & _). reflexivity.
Qed.
Lemma same_lock_view a b u : same a b -> lock_view a u = lock_view b u.
Proof. intros (P & _). unfold lock_view. rewrite P. reflexivity. Qed.
Lemma same_has_record a b u : same a b -> has_record a u = has_record b u.
Proof. intros (P & _). unfold has_record. rewrite P. reflexivity. Qed.

Lemma check_account_same a a' b b' o os guard g x u :
  same a b -> same a' b' ->
  check_account a a' o os guard g x u = check_account b b' o os guard g x u.
Proof.
  intros S S'. unfold check_account.
  rewrite (same_gh_step _ _ _ _ _ _ S), (same_has_record _ _ _ S'), (same_hold_end _ _ _ _ _ _ S),
    (same_lock_view _ _ _ S'), (same_hold_step _ _ _ _ _ _ S).
  destruct S as (-> & -> & _). reflexivity.
Qed.

Lemma holder_eqb_refl x : holder_eqb x x = true.
Proof.
  destruct x as [[r t]|]; simpl; [|reflexivity]. unfold pair_eqb. simpl.
  rewrite txn_eqb_refl, Z.eqb_refl. reflexivity.
Qed.

Lemma conf_op_ext G G' o : (forall u, G u = G' u) -> conf_op G o = conf_op G' o.
Proof. intro E. destruct o; simpl; try reflexivity; rewrite E; reflexivity. Qed.

Lemma check_account_model h o u guard :
  (guard = true -> conformant h /\ conf_op (ghost h) o = true) ->
  check_account (final h) (fst (step (final h) o)) o (snd (step (final h) o)) guard
                (ghost h u) (lock_view (final h) u) u = true.
Proof.
  intro Hg. destruct (reach_invA h) as [S L]. pose proof (step_invA _ _ o (conj S L)) as [_ L'].
  destruct (step_txn (final h) o u S) as [V Fr]. unfold check_account.
  repeat (apply andb_true_iff; split).
  - destruct (fresh_in u (snd (step (final h) o))) eqn:F; simpl; [|reflexivity].
    destruct (step_fresh _ _ _ F) as [En _]. rewrite En.
    destruct (g_live (ghost h u)) eqn:Lu; [|reflexivity].
    destruct (L u Lu) as (p & Ep & _). congruence.
  - destruct (g_live (gh_step (final h) o (snd (step (final h) o)) u (ghost h u))) eqn:Lu; simpl; [|reflexivity].
    apply has_record_iff. apply (L' u Lu).
  - destruct guard; simpl; [|reflexivity].
    destruct (recon_in u (snd (step (final h) o))) eqn:F; simpl; [|reflexivity].
    destruct (Hg eq_refl) as [Ch Co].
    destruct (step_recon _ _ _ _ (reach_invB _ Ch) Co F) as (A & [B|B] & [C|C]); rewrite A, B, C; simpl;
      rewrite ?orb_true_r; reflexivity.
  - destruct (grant_of o (snd (step (final h) o)) u) as [r|] eqn:G; [|reflexivity]. apply (Fr r eq_refl).
  - rewrite V. apply holder_eqb_refl.
Qed.

Lemma sorted_keys_ascending {V} (m : alist V) : sorted m -> keys_ascending None (akeys m) = true.
Proof.
  assert (G : forall (m : alist V) lo, sorted m -> (match lo with Some p => lb p m | None => True end) ->
              keys_ascending lo (akeys m) = true).
  { clear m. induction m as [|[k v] r IH]; intros lo S Lo; simpl; [reflexivity|].
    destruct S as [Lk Sr]. apply andb_true_iff. split.
    - destruct lo as [p|]; [|reflexivity]. simpl in Lo. apply Z.ltb_lt. tauto.
    - apply IH; assumption. }
  intro S. apply G; [exact S | exact I].
Qed.

Lemma nodupb_true l : NoDup l -> nodupb l = true.
Proof. apply nodupb_NoDup. Qed.

Lemma monitor_from_cons s G H acked guard o r os d br :
  monitor_from s G H acked guard (o :: r) ((os, d) :: br) =
  keys_ascending None (akeys (players (st_of_dump d (next_clk (now s) o) (next_nq (nreq s) o)))) &&
  forallb (fun u => check_account s (st_of_dump d (next_clk (now s) o) (next_nq (nreq s) o)) o os
                                  (guard && conf_op G o) (G u) (H u) u)
          (mentioned s (st_of_dump d (next_clk (now s) o) (next_nq (nreq s) o)) o os) &&
  check_acks acked (nreq (st_of_dump d (next_clk (now s) o) (next_nq (nreq s) o))) os &&
  monitor_from (st_of_dump d (next_clk (now s) o) (next_nq (nreq s) o))
               (fun u => gh_step s o os u (G u)) (fun u => hold_step s o os u (H u))
               (acked ++ ack_rids os) (guard && conf_op G o) r br.
Proof. reflexivity. Qed.

Lemma monitor_model ops : forall h sm G H acked guard,
  same sm (final h) -> (forall u, G u = ghost h u) -> (forall u, H u = lock_view (final h) u) ->
  acked = ack_rids (all_outs h) -> guard = conformant_b h ->
  monitor_from sm G H acked guard ops (obs_from (final h) ops) = true.
Proof.
  induction ops as [|o r IH]; intros h sm G H acked guard Sm EG EH -> ->; [reflexivity|].
  cbn [obs_from]. rewrite monitor_from_cons.
  set (s := final h). set (s' := fst (step s o)). set (os := snd (step s o)).
  assert (Sm' : same (st_of_dump (dump_of s') (next_clk (now sm) o) (next_nq (nreq sm) o)) s').
  { destruct Sm as (_ & -> & ->). apply same_roundtrip; unfold s'; [rewrite step_now | rewrite step_nreq]; reflexivity. }
  assert (Ef : final (h ++ [o]) = s') by apply final_snoc.
  assert (Eo : all_outs (h ++ [o]) = all_outs h ++ os) by apply all_outs_snoc.
  assert (Ec : conformant_b h && conf_op G o = conformant_b (h ++ [o])).
  { unfold conformant_b. rewrite conf_from_app. simpl. rewrite andb_true_r. rewrite (conf_op_ext _ _ _ EG). reflexivity. }
  apply andb_true_iff; split; [apply andb_true_iff; split; [apply andb_true_iff; split|]|].
  - destruct Sm' as (-> & _). apply sorted_keys_ascending. apply step_sorted, (proj1 (reach_invA h)).
  - apply forallb_forall. intros u _. rewrite (check_account_same _ _ _ _ _ _ _ _ _ _ Sm Sm'), EG, EH.
    apply check_account_model. intro Hg. rewrite Ec in Hg. apply conformant_snoc in Hg. exact Hg.
  - unfold check_acks. destruct Sm' as (_ & _ & ->). pose proof (reach_invD (h ++ [o])) as D.
    rewrite <- Ef. apply andb_true_iff. split.
    + apply nodupb_true. rewrite <- ack_rids_app, <- Eo. apply (d_nodup _ D).
    + apply forallb_forall. intros x Hx. pose proof (d_range _ D x) as R.
      rewrite Eo, ack_rids_app, in_app_iff in R. specialize (R (or_intror Hx)).
      apply andb_true_iff. split; [apply Z.leb_le | apply Z.ltb_lt]; lia.
  - rewrite <- Ef in Sm'. rewrite <- Ef. apply IH.
    + rewrite Ef. rewrite Ef in Sm'. exact Sm'.
    + intro u. rewrite ghost_snoc, (same_gh_step _ _ _ _ _ _ Sm), EG. reflexivity.
    + intro u. rewrite (same_hold_step _ _ _ _ _ _ Sm), EH, Ef. symmetry. apply (step_txn s o u (proj1 (reach_invA h))).
    + rewrite Eo, ack_rids_app. reflexivity.
    + exact Ec.
Qed.

Lemma monitor_accepts_model h : monitor_trace h (model_obs h) = true.
Proof.
  unfold monitor_trace, model_obs. apply (monitor_model h [] init); try reflexivity. repeat split.
Qed.

(* ================================================================== the guard implies its clock part; live, explicitly *)
Lemma conf_from_forward s G ops : conf_from s G ops = true -> clock_forward ops.
Proof.
  revert s G. induction ops as [|o r IH]; intros s G H; [constructor|].
  simpl in H. apply andb_true_iff in H. destruct H as [Ho Hr]. constructor; [|eapply IH; exact Hr].
  destruct o; simpl in Ho; try exact I. apply Z.leb_le. exact Ho.
Qed.

Lemma conformant_forward a b : conformant (a ++ b) -> clock_forward b.
Proof.
  unfold conformant, conformant_b. rewrite conf_from_app. rewrite andb_true_iff. intros [_ H].
  eapply conf_from_forward. exact H.
Qed.

Lemma txn_exclusive_conformant h1 o1 mid o2 u r1 r2 :
  conformant (h1 ++ o1 :: mid ++ [o2]) ->
  grant_of o1 (outs_at h1 o1) u = Some r1 ->
  grant_of o2 (outs_at (h1 ++ o1 :: mid) o2) u = Some r2 ->
  now (final (h1 ++ o1 :: mid)) < now (final h1) + limit r1 ->
  exists m1 e m2, mid ++ [o2] = m1 ++ e :: m2 /\
    ends_txn (final (h1 ++ o1 :: m1)) e (outs_at (h1 ++ o1 :: m1) e) u r1 = true.
Proof.
  intro C. apply txn_exclusive.
  change (h1 ++ o1 :: mid ++ [o2]) with (h1 ++ (o1 :: mid) ++ [o2]) in C.
  rewrite app_assoc in C. apply conformant_app_l in C. apply conformant_forward in C.
  apply Forall_cons_iff in C. apply C.
Qed.

Definition no_end_in (pre h2 : list op) (u : Z) : Prop :=
  forall m1 e m2, h2 = m1 ++ e :: m2 -> ends_load (final (pre ++ m1)) e u = false.

Lemma live_characterised h u :
  live h u = true <->
  exists h1 o h2, h = h1 ++ o :: h2 /\ fresh_in u (outs_at h1 o) = true /\ no_end_in (h1 ++ [o]) h2 u.
Proof.
  split.
  - induction h as [|e h IH] using rev_ind; [discriminate|].
    unfold live. rewrite ghost_snoc. unfold gh_step. simpl.
    rewrite orb_true_iff, andb_true_iff, negb_true_iff. intros [[L Ne]|F].
    + destruct (IH L) as (h1 & o & h2 & -> & F & N). exists h1, o, (h2 ++ [e]). split; [|split; [exact F|]].
      * rewrite <- app_assoc. reflexivity.
      * intros m1 x m2 E. destruct m2 as [|y m2] using rev_ind.
        -- apply app_inj_tail in E. destruct E as [<- <-]. rewrite <- app_assoc. simpl. exact Ne.
        -- clear IHm2. rewrite app_comm_cons, app_assoc in E. apply app_inj_tail in E. destruct E as [E _].
           apply (N m1 x m2 E).
    + exists h, e, []. split; [reflexivity|]. split; [exact F|]. intros m1 x m2 E. destruct m1; discriminate.
  - intros (h1 & o & h2 & -> & F & N). apply live_after_fresh in F.
    destruct (live_until_end _ h2 _ F) as [L|(m1 & e & m2 & E & He)].
    + rewrite <- app_assoc in L. exact L.
    + rewrite (N m1 e m2 E) in He. discriminate.
Qed.
