(* C18 - property theorems only.  Each is closed by [exact] of a lemma from Proofs.v and followed
   by Print Assumptions.  Vocabulary (Spec.v): [final h] the centre's state after history h,
   [outs_at h o] what operation o emits after h, [all_outs h] everything emitted during h;
   [fresh_in u os] / [recon_in u os]: os contains a login acknowledgement (Succ, not reconnect) /
   (Succ, reconnect) for account u; [live h u]: a load of u was freshly authorised in h and none of
   [ends_load] (LogicLogout u, AbnormalLogout u, the tick at which u's Logining / Logouting record
   expires) came after it; [logged_in h u]: LogicLogined u since the last fresh authorisation;
   [closed_reported h u]: SessionClosed u since a connection was last attached to u;
   [grant_of o os u = Some r]: o grants transaction r on u (login / re-online / logout / line switch);
   [ends_txn s o os u r]: o completes r (LogicLogined / LogicReOnline / LogicLogout /
   SwitchLineEnd answered true) or is the tick that drops u's record.
   Guards: [conformant h] = connection ids <> 0, logic notifications (logged in, re-online, logout,
   abnormal logout) only for live loads, clock not set back.  Only the reconnect guard needs it;
   the transaction theorem needs just the clock part on the stretch it talks about; the others
   hold for EVERY history.  Histories are unbounded (no depth limit). *)
From Cell2V Require Import Common.Tac Common.ListX Common.AList C18.Model C18.Spec C18.Proofs.

(* ---- no double character load ---- *)
(* a live load has a record in the table, and not one about to be dropped *)
Theorem C18_live_has_record : forall h u, live h u = true ->
  exists p, aget u (players (final h)) = Some p /\ pst p <> SWaitRemove.
Proof. exact live_has_record. Qed.
Print Assumptions C18_live_has_record.

(* [live], spelled out: some operation of h freshly authorised a load of u and no operation
   after it ended that load *)
Theorem C18_live_characterised : forall h u,
  live h u = true <->
  exists h1 o h2, h = h1 ++ o :: h2 /\ fresh_in u (outs_at h1 o) = true /\
    forall m1 e m2, h2 = m1 ++ e :: m2 -> ends_load (final ((h1 ++ [o]) ++ m1)) e u = false.
Proof. exact live_characterised. Qed.
Print Assumptions C18_live_characterised.

(* a fresh authorisation is given only when the account has no record - hence no live load *)
Theorem C18_fresh_needs_no_record : forall h o u, fresh_in u (outs_at h o) = true ->
  aget u (players (final h)) = None /\ live h u = false.
Proof. exact fresh_needs_no_record. Qed.
Print Assumptions C18_fresh_needs_no_record.

(* between two fresh authorisations of one account lies the end of the first load *)
Theorem C18_no_double_load : forall h1 o1 mid o2 u,
  fresh_in u (outs_at h1 o1) = true ->
  fresh_in u (outs_at (h1 ++ o1 :: mid) o2) = true ->
  exists m1 e m2, mid = m1 ++ e :: m2 /\ ends_load (final (h1 ++ o1 :: m1)) e u = true.
Proof. exact no_double_load. Qed.
Print Assumptions C18_no_double_load.

(* ---- reconnect ---- *)
(* a reconnect is authorised only for a live load that was reported logged in (earlier, or by
   this very operation) and whose connection was reported closed since it was attached (earlier,
   or by this very operation) *)
Theorem C18_reconnect_guard : forall h o u,
  conformant (h ++ [o]) -> recon_in u (outs_at h o) = true ->
  live h u = true /\
  (logged_in h u = true \/ is_logined o u = true) /\
  (closed_reported h u = true \/ is_close_report o u = true).
Proof. exact reconnect_guard. Qed.
Print Assumptions C18_reconnect_guard.

(* ---- transactions ---- *)
(* PlayerTransactionLock.Lock: refused while held and unexpired, granted otherwise *)
Theorem C18_lock_refuses : forall l t r lim, held l = true -> t < until l -> lock_try l t r lim = None.
Proof. exact lock_refuses. Qed.
Print Assumptions C18_lock_refuses.

Theorem C18_lock_grants : forall l t r lim, held l = false \/ until l <= t ->
  lock_try l t r lim = Some (mklock true r (t + lim)).
Proof. exact lock_grants. Qed.
Print Assumptions C18_lock_grants.

(* lifted through every call site: whatever an operation grants on an account, it grants when -
   after the completion this operation itself may bring - nobody holds the account or the
   holder's limit has passed; and the grant is then what the account's lock shows *)
Theorem C18_grant_only_when_free : forall h o u r, grant_of o (outs_at h o) u = Some r ->
  free_at (hold_end (final h) o (outs_at h o) u (lock_view (final h) u)) (now (final h)) = true /\
  lock_view (final (h ++ [o])) u = Some (r, now (final h) + limit r).
Proof. exact txn_grant_when_free. Qed.
Print Assumptions C18_grant_only_when_free.

(* the holder computed from the trace alone (grants and completions) is exactly what the lock shows *)
Theorem C18_holder_is_lock : forall h u, holder_of h u = lock_view (final h) u.
Proof. exact holder_is_lock. Qed.
Print Assumptions C18_holder_is_lock.

(* transactions of one account never overlap: if r1 was granted and the next grant on the
   account comes before r1's time limit has passed, then r1 ended in between (it completed, or
   the account's record was dropped); every request in between was refused *)
Theorem C18_txn_exclusive : forall h1 o1 mid o2 u r1 r2,
  clock_forward mid ->
  grant_of o1 (outs_at h1 o1) u = Some r1 ->
  grant_of o2 (outs_at (h1 ++ o1 :: mid) o2) u = Some r2 ->
  now (final (h1 ++ o1 :: mid)) < now (final h1) + limit r1 ->
  exists m1 e m2, mid ++ [o2] = m1 ++ e :: m2 /\
    ends_txn (final (h1 ++ o1 :: m1)) e (outs_at (h1 ++ o1 :: m1) e) u r1 = true.
Proof. exact txn_exclusive. Qed.
Print Assumptions C18_txn_exclusive.

(* the same for conformant histories (the guard contains the clock condition) *)
Theorem C18_txn_exclusive_conformant : forall h1 o1 mid o2 u r1 r2,
  conformant (h1 ++ o1 :: mid ++ [o2]) ->
  grant_of o1 (outs_at h1 o1) u = Some r1 ->
  grant_of o2 (outs_at (h1 ++ o1 :: mid) o2) u = Some r2 ->
  now (final (h1 ++ o1 :: mid)) < now (final h1) + limit r1 ->
  exists m1 e m2, mid ++ [o2] = m1 ++ e :: m2 /\
    ends_txn (final (h1 ++ o1 :: m1)) e (outs_at (h1 ++ o1 :: m1) e) u r1 = true.
Proof. exact txn_exclusive_conformant. Qed.
Print Assumptions C18_txn_exclusive_conformant.

(* ---- login answers ---- *)
(* no login request is answered twice - whether answered at once, parked and carried out,
   overwritten by a later login, or dropped at expiry *)
Theorem C18_login_answered_at_most_once : forall h rid,
  (zcount rid (ack_rids (all_outs h)) <= 1)%nat.
Proof. exact answered_at_most_once. Qed.
Print Assumptions C18_login_answered_at_most_once.

(* and every answer goes to a request that was made, for the account it was made for *)
Theorem C18_ack_answers_request : forall h rid u c x l, In (Ack rid u c x l) (all_outs h) ->
  0 <= rid /\ nth_error (login_uids h) (Z.to_nat rid) = Some u.
Proof. exact ack_answers_request. Qed.
Print Assumptions C18_ack_answers_request.

(* ---- frame ---- *)
Theorem C18_frame_other_accounts : forall s o u v, op_uid o = Some u -> v <> u ->
  aget v (players (fst (step s o))) = aget v (players s).
Proof. exact frame_other_accounts. Qed.
Print Assumptions C18_frame_other_accounts.

(* ---- the boolean monitor run on implementation traces accepts every trace of the model ---- *)
Theorem C18_monitor_accepts_model : forall h, monitor_trace h (model_obs h) = true.
Proof. exact monitor_accepts_model. Qed.
Print Assumptions C18_monitor_accepts_model.

(* ---- non-vacuity.  A conformant history of two accounts: fresh load; a second login while
   Logining (refused, old connection kicked); a logout request refused by the login transaction;
   logged in; two more logins parked one after the other (the first is answered SystemBusy when
   overwritten); the connection closes, logic acknowledges, the parked login is carried out as a
   reconnect; a line switch refused by the re-online transaction, then granted and completed;
   account 2 never reported logged in: expires after 2 minutes, is dropped, and may load again;
   account 1 logs out, is dropped, and may load again. ---- *)
Definition ex_history : list op :=
  [ReqLogin 1 1 10 true; ReqLogin 1 2 11 true; ReqLogout 1; LogicLogined 1 1;
   ReqLogin 1 2 12 true; ReqLogin 1 1 13 true; SessionClosed 1; OfflineAck 1 true;
   ReqSwitchLine 1; LogicReOnline 1; ReqSwitchLine 1; SwitchLineEnd 1 true;
   ReqLogin 2 1 20 false; Advance 120000; Tick; ReqLogin 2 1 21 false;
   ReqLogout 1; LogicLogout 1; Tick; ReqLogin 1 1 14 false].

Example C18_example_conformant : conformant_b ex_history = true.
Proof. vm_compute. reflexivity. Qed.

Example C18_example_outputs :
  all_outs ex_history =
  [Ack 0 1 CSucc false 0;
   Kick 1 10; Ack 1 1 CAlreadyOnline false 0;
   Ret false;
   Kick 1 10;
   Kick 1 10; Kick 2 12; Ack 2 1 CSystemBusy false 0;
   Offline 1 1;
   Ack 3 1 CSucc true 1;
   Ret false;
   Ret true; Ret true;
   Ack 4 2 CSucc false 0;
   Ack 5 2 CSucc false 0;
   Ret true;
   Kick 1 13;
   Ack 6 1 CSucc false 0].
Proof. vm_compute. reflexivity. Qed.

Example C18_example_ghost :
  (live (firstn 13 ex_history) 2, live (firstn 15 ex_history) 2, live ex_history 2,
   live (firstn 17 ex_history) 1, live (firstn 18 ex_history) 1, live ex_history 1) =
  (true, false, true, true, false, true).
Proof. vm_compute. reflexivity. Qed.

(* the guard is needed for the reconnect theorem: a LogicLogined for a load that already ended
   (abnormal logout) makes the centre authorise a reconnect to a character no logic holds *)
Definition ex_rogue : list op :=
  [ReqLogin 1 1 10 true; LogicLogined 1 1; AbnormalLogout 1; LogicLogined 1 1; SessionClosed 1; OfflineAck 1 true].
Example C18_guard_needed :
  conformant_b ex_rogue = false /\
  recon_in 1 (outs_at ex_rogue (ReqLogin 1 2 11 false)) = true /\ live ex_rogue 1 = false.
Proof. vm_compute. repeat split; reflexivity. Qed.
