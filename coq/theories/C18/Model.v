(* C18 - model of the mmo centre's login bookkeeping: servers/center/{playermgr,player,
   transactionlock,kickwait,define}.go and common/statewithtimeout.go.  No proofs here.

   Go -> model:
     PlayerMgr.players  map[int64]*Player        players : alist player   (uid -> record)
       Player.state     *StateWithTimeout          pst, pdl               (state, deadline; 0 = never)
       Player.FrontId / NetId / logicId            pfront, pnet, plogic   (tokens, see below)
       Player.lock      *PlayerTransactionLock     plock = {held; reason; until}
     KickWaitTaskMgr.tasks map[int64]*KickWaitTask kw : alist task       (uid -> parked login)
     KickWaitTaskMgr.nextCheckExpired              kwnext
     common.NowMs()                                now                    (virtual clock, tag verif)
   Tokens: front "gate-<n>" <-> n, logic "logic-<n>" <-> n, "" <-> 0.  The cluster directory of
   the harness knows gate-1, gate-2, logic-1, logic-2; app.Kick to an unknown front sends nothing,
   app.Request to an unknown logic service fails at once (ErrorNoService: the callback runs
   synchronously, inside the caller).
   A login request is identified by [rid], its ordinal among the ReqLogin operations (the harness
   numbers its callbacks the same way); [nreq] is the next ordinal.
   [offq] lists the accounts with an onoffline request to logic whose answer is outstanding, in
   send order.  The answer (or the 30 s request timeout of actorex/service, which runs the same
   callback with an error) is the operation OfflineAck.
   Not modelled (written, never read by the centre): Player.clientConnBroken, KickTimes,
   FirstKickTime; PlayerTransactionLock.uid; log output.
   kickwait.go tryRemoveExpired is modelled AS REPAIRED by hooks/C18-fix-kickwait-expire-all.patch
   (every expired task is dropped; the original re-allocates its result slice inside the loop and
   drops only the last one visited, which depends on Go's map order). *)
From Cell2V Require Import Common.Tac Common.ListX Common.AList.

(* define.go *)
Inductive pstate := SInit | SLogining | SLogined | SSwitchLine | SLogouting | SWaitRemove | SAbnormal.
Inductive txn := TInit | TLogin | TLogout | TReonline | TSwitchLine.
(* common/define: Succ, ErrSystemBusy, ErrAlreadyOnline *)
Inductive code := CSucc | CSystemBusy | CAlreadyOnline.

Definition pstate_eqb (a b : pstate) : bool :=
  match a, b with
  | SInit, SInit | SLogining, SLogining | SLogined, SLogined | SSwitchLine, SSwitchLine
  | SLogouting, SLogouting | SWaitRemove, SWaitRemove | SAbnormal, SAbnormal => true
  | _, _ => false
  end.
Definition txn_eqb (a b : txn) : bool :=
  match a, b with
  | TInit, TInit | TLogin, TLogin | TLogout, TLogout | TReonline, TReonline | TSwitchLine, TSwitchLine => true
  | _, _ => false
  end.
Definition code_eqb (a b : code) : bool :=
  match a, b with
  | CSucc, CSucc | CSystemBusy, CSystemBusy | CAlreadyOnline, CAlreadyOnline => true
  | _, _ => false
  end.

Definition LoginTimeout : Z := 120000.            (* playermgr.go: 2 min *)
Definition LogoutTimeout : Z := 1800000.          (* 30 min *)
Definition LockTimeout : Z := 180000.             (* define.go TransactionLockTimeout: 3 min *)
Definition LockLoginTimeout : Z := 300000.        (* TransactionLockLoginTimeout: 5 min *)
Definition KickWaitLife : Z := 30000.             (* kickwait.go: a parked login lives 30 s *)
Definition KickWaitCheck : Z := 3000.             (* expiry is looked at every 3 s at most *)

Record lock := mklock { held : bool; reason : txn; until : Z }.
Record player := mkplayer {
  pst : pstate; pdl : Z; pfront : Z; pnet : Z; plogic : Z; plock : lock }.
Record task := mktask { trid : Z; tfront : Z; tnet : Z; tstart : Z }.

Record st := mkst {
  players : alist player;
  kw : alist task;
  kwnext : Z;
  offq : list Z;
  now : Z;
  nreq : Z }.

Definition clock0 : Z := 1000000.
Definition init : st := mkst [] [] 0 [] clock0 0.

Definition set_players (s : st) (ps : alist player) : st :=
  mkst ps (kw s) (kwnext s) (offq s) (now s) (nreq s).
Definition set_kw (s : st) (k : alist task) : st :=
  mkst (players s) k (kwnext s) (offq s) (now s) (nreq s).
Definition put (s : st) (uid : Z) (p : player) : st := set_players s (aset uid p (players s)).

Definition front_known (f : Z) : bool := (f =? 1) || (f =? 2).
Definition logic_known (l : Z) : bool := (l =? 1) || (l =? 2).

(* ---- transactionlock.go ---- *)
Definition lock0 : lock := mklock false TInit 0.

(* Lock(reason, timeout): refused while held and now < until; a held lock whose limit has
   passed is force-released (timeoutUnlock) and taken *)
Definition lock_try (l : lock) (t : Z) (r : txn) (limit : Z) : option lock :=
  if held l && (t <? until l) then None else Some (mklock true r (t + limit)).

(* Unlock(reason): only a held lock, only by the reason that took it *)
Definition lock_release (l : lock) (r : txn) : option lock :=
  if held l && txn_eqb r (reason l) then Some (mklock false (reason l) (until l)) else None.

Definition unlocked (l : lock) (r : txn) : lock :=
  match lock_release l r with Some l' => l' | None => l end.

(* ---- statewithtimeout.go ---- *)
(* SetState(state, timeout): deadline now + timeout, or 0 (never) when timeout <= 0 *)
Definition deadline (t timeout : Z) : Z := if 0 <? timeout then t + timeout else 0.
Definition set_state (p : player) (t : Z) (x : pstate) (timeout : Z) : player :=
  mkplayer x (deadline t timeout) (pfront p) (pnet p) (plogic p) (plock p).
Definition set_lock (p : player) (l : lock) : player :=
  mkplayer (pst p) (pdl p) (pfront p) (pnet p) (plogic p) l.
(* IsTimeout *)
Definition is_timeout (t : Z) (p : player) : bool := (0 <? pdl p) && (pdl p <=? t).

(* ---- what an operation emits, in order of occurrence ---- *)
Inductive out :=
| Ack (rid uid : Z) (c : code) (recon : bool) (lid : Z)   (* a login callback is invoked with CenterReqLoginAck *)
| Kick (front net : Z)                                   (* sys.kick sent to a front *)
| Offline (uid lid : Z)                                  (* logicremote.onoffline sent to a logic service *)
| Ret (b : bool).                                        (* value returned by ReqLogout / ReqSwitchLine / OnSwitchLineEnd *)

(* app.Kick(ns, front, net, nil) *)
Definition kick_out (f n : Z) : list out := if front_known f then [Kick f n] else [].

(* ---- playermgr.go / kickwait.go ---- *)
(* doReconnect *)
Definition do_reconnect (s : st) (uid : Z) (p : player) (rid front net : Z) : st * list out :=
  match lock_try (plock p) (now s) TReonline LockTimeout with
  | None => (s, [Ack rid uid CSystemBusy false 0])
  | Some l =>
      (put s uid (mkplayer (pst p) (pdl p) front net (plogic p) l),
       [Ack rid uid CSucc true (plogic p)])
  end.

(* KickWaitTaskMgr.AddTask: an existing task is cancelled (its connection kicked, its login
   answered ErrSystemBusy), the new one takes its place *)
Definition kw_add (s : st) (uid rid front net : Z) : st * list out :=
  (set_kw s (aset uid (mktask rid front net (now s)) (kw s)),
   match aget uid (kw s) with
   | Some t => kick_out (tfront t) (tnet t) ++ [Ack (trid t) uid CSystemBusy false 0]
   | None => []
   end).

(* ReqLogin(uid, front, net, kickPrev, cb) where cb is the callback of login request rid *)
Definition req_login (s : st) (rid uid front net : Z) (kick : bool) : st * list out :=
  match aget uid (players s) with
  | Some p =>
      if pnet p =? 0 then
        if pstate_eqb (pst p) SLogined then do_reconnect s uid p rid front net
        else (s, [Ack rid uid CAlreadyOnline false 0])
      else
        let k := if kick then kick_out (pfront p) (pnet p) else [] in
        if pstate_eqb (pst p) SLogined then
          let '(s1, o1) := kw_add s uid rid front net in (s1, k ++ o1)
        else (s, k ++ [Ack rid uid CAlreadyOnline false 0])
  | None =>
      let p0 := mkplayer SLogining (deadline (now s) LoginTimeout) front net 0 lock0 in
      match lock_try lock0 (now s) TLogin LockLoginTimeout with
      | Some l => (put s uid (set_lock p0 l), [Ack rid uid CSucc false 0])
      | None => (put s uid p0, [Ack rid uid CSystemBusy false 0])
      end
  end.

(* tryRemoveExpired (repaired): at most every 3 s, drop every task older than 30 s, unanswered *)
Definition task_expired (t : Z) (k : Z * task) : bool := tstart (snd k) + KickWaitLife <? t.
Definition kw_expire (s : st) : st :=
  if now s <? kwnext s then s
  else mkst (players s) (filter (fun k => negb (task_expired (now s) k)) (kw s))
            (now s + KickWaitCheck) (offq s) (now s) (nreq s).

(* KickWaitTaskMgr.OnSessionClose(uid): expiry scan, then the parked login of uid is carried out
   (task.Do = ReqLogin without kick) and its task removed *)
Definition kw_on_close (s : st) (uid : Z) : st * list out :=
  let s1 := kw_expire s in
  match aget uid (kw s1) with
  | None => (s1, [])
  | Some t =>
      let '(s2, o) := req_login s1 (trid t) uid (tfront t) (tnet t) false in
      (set_kw s2 (adel uid (kw s2)), o)
  end.

(* sendOnOfflineAndCheckKickWait(uid, logicId) *)
Definition send_offline (s : st) (uid lid : Z) : st * list out :=
  if logic_known lid then
    (mkst (players s) (kw s) (kwnext s) (offq s ++ [uid]) (now s) (nreq s), [Offline uid lid])
  else kw_on_close s uid.

(* OnClientSessionClosed *)
Definition session_closed (s : st) (uid : Z) : st * list out :=
  match aget uid (players s) with
  | None => (s, [])
  | Some p =>
      let s1 := put s uid (mkplayer (pst p) (pdl p) 0 0 (plogic p) (plock p)) in
      if pstate_eqb (pst p) SLogined then send_offline s1 uid (plogic p) else (s1, [])
  end.

(* the continuation of sendOnOffline for the oldest outstanding request of uid *)
Definition offline_ack (s : st) (uid : Z) : st * list out :=
  if zmem uid (offq s) then
    kw_on_close (mkst (players s) (kw s) (kwnext s) (remove_first uid (offq s)) (now s) (nreq s)) uid
  else (s, []).

(* OnLogicLogined(uid, logicId) *)
Definition logic_logined (s : st) (uid lid : Z) : st * list out :=
  match aget uid (players s) with
  | None => (s, [])
  | Some p =>
      let p1 := mkplayer SLogined 0 (pfront p) (pnet p) lid (unlocked (plock p) TLogin) in
      let s1 := put s uid p1 in
      if pnet p =? 0 then send_offline s1 uid lid else (s1, [])
  end.

(* OnLogicReOnline *)
Definition logic_reonline (s : st) (uid : Z) : st * list out :=
  match aget uid (players s) with
  | None => (s, [])
  | Some p => (put s uid (set_lock p (unlocked (plock p) TReonline)), [])
  end.

(* ReqLogout *)
Definition req_logout (s : st) (uid : Z) : st * list out :=
  match aget uid (players s) with
  | None => (s, [Ret false])
  | Some p =>
      match lock_try (plock p) (now s) TLogout LockTimeout with
      | None => (s, [Ret false])
      | Some l => (put s uid (set_state (set_lock p l) (now s) SLogouting LogoutTimeout), [Ret true])
      end
  end.

Definition kick_if_open (p : player) : list out :=
  if pnet p =? 0 then [] else kick_out (pfront p) (pnet p).

(* OnLogicLogout *)
Definition logic_logout (s : st) (uid : Z) : st * list out :=
  match aget uid (players s) with
  | None => (s, [])
  | Some p =>
      (put s uid (set_state (set_lock p (unlocked (plock p) TLogout)) (now s) SWaitRemove 0), kick_if_open p)
  end.

(* OnLogicAbnormalLogout *)
Definition abnormal_logout (s : st) (uid : Z) : st * list out :=
  match aget uid (players s) with
  | None => (s, [])
  | Some p => (put s uid (set_state p (now s) SWaitRemove 0), kick_if_open p)
  end.

(* ReqSwitchLine *)
Definition req_switch (s : st) (uid : Z) : st * list out :=
  match aget uid (players s) with
  | None => (s, [Ret false])
  | Some p =>
      if pstate_eqb (pst p) SLogined then
        match lock_try (plock p) (now s) TSwitchLine LockTimeout with
        | None => (s, [Ret false])
        | Some l => (put s uid (set_state (set_lock p l) (now s) SSwitchLine 0), [Ret true])
        end
      else (s, [Ret false])
  end.

(* OnSwitchLineEnd(uid, succ): succ is not looked at *)
Definition switch_end (s : st) (uid : Z) : st * list out :=
  match aget uid (players s) with
  | None => (s, [Ret false])
  | Some p =>
      if pstate_eqb (pst p) SSwitchLine then
        match lock_release (plock p) TSwitchLine with
        | None => (s, [Ret false])
        | Some l => (put s uid (set_state (set_lock p l) (now s) SLogined 0), [Ret true])
        end
      else (s, [Ret false])
  end.

(* update(): a Logining / Logouting record whose deadline has passed becomes WaitRemove
   (onPlayerTimeout), then every WaitRemove record is deleted *)
Definition expiring (t : Z) (p : player) : bool :=
  is_timeout t p && (pstate_eqb (pst p) SLogining || pstate_eqb (pst p) SLogouting).
Definition tick_player (t : Z) (p : player) : player :=
  if expiring t p then set_state p t SWaitRemove 0 else p.
Definition removable (p : player) : bool := pstate_eqb (pst p) SWaitRemove.
Definition tick (s : st) : st :=
  set_players s (filter (fun kp => negb (removable (snd kp)))
                        (map (fun kp => (fst kp, tick_player (now s) (snd kp))) (players s))).

(* ---- operations ---- *)
Inductive op :=
| ReqLogin (uid front net : Z) (kick : bool)   (* front -> centre: centerremote.reqlogin *)
| SessionClosed (uid : Z)                      (* front -> centre: the account's connection closed *)
| OfflineAck (uid : Z) (ok : bool)             (* logic answered (or failed / timed out) the oldest onoffline of uid *)
| LogicLogined (uid lid : Z)                   (* logic lid -> centre: character loaded *)
| LogicReOnline (uid : Z)
| ReqLogout (uid : Z)                          (* logic -> centre: may this character log out? *)
| LogicLogout (uid : Z)                        (* logic -> centre: logged out, data stored *)
| AbnormalLogout (uid : Z)                     (* logic -> centre: character dropped (scene lost) *)
| ReqSwitchLine (uid : Z)
| SwitchLineEnd (uid : Z) (succ : bool)
| Tick                                         (* PlayerMgr.update(), the 1 s timer *)
| Advance (dt : Z).                            (* virtual clock += dt *)

Definition step (s : st) (o : op) : st * list out :=
  match o with
  | ReqLogin uid f n k =>
      req_login (mkst (players s) (kw s) (kwnext s) (offq s) (now s) (nreq s + 1)) (nreq s) uid f n k
  | SessionClosed uid => session_closed s uid
  | OfflineAck uid _ => offline_ack s uid
  | LogicLogined uid lid => logic_logined s uid lid
  | LogicReOnline uid => logic_reonline s uid
  | ReqLogout uid => req_logout s uid
  | LogicLogout uid => logic_logout s uid
  | AbnormalLogout uid => abnormal_logout s uid
  | ReqSwitchLine uid => req_switch s uid
  | SwitchLineEnd uid _ => switch_end s uid
  | Tick => (tick s, [])
  | Advance dt => (mkst (players s) (kw s) (kwnext s) (offq s) (now s + dt) (nreq s), [])
  end.

Fixpoint run_from (s : st) (ops : list op) : st :=
  match ops with
  | [] => s
  | o :: r => run_from (fst (step s o)) r
  end.

(* state after a history, outputs of the next operation, everything emitted so far *)
Definition final (h : list op) : st := run_from init h.
Definition outs_at (h : list op) (o : op) : list out := snd (step (final h) o).
Fixpoint outs_from (s : st) (ops : list op) : list out :=
  match ops with
  | [] => []
  | o :: r => snd (step s o) ++ outs_from (fst (step s o)) r
  end.
Definition all_outs (h : list op) : list out := outs_from init h.

(* ---- the canonical dump the harness prints after every operation ---- *)
Inductive pdump := PD (u : Z) (x : pstate) (dl f n l : Z) (h : bool) (r : txn) (un : Z).
Inductive tdump := TD (u f n t0 : Z).
Inductive dump := Dump (ps : list pdump) (ts : list tdump) (nx : Z) (oq : list Z).

Definition dump_of (s : st) : dump :=
  Dump (map (fun kp : Z * player =>
               let p := snd kp in
               PD (fst kp) (pst p) (pdl p) (pfront p) (pnet p) (plogic p)
                  (held (plock p)) (reason (plock p)) (until (plock p))) (players s))
       (map (fun kt : Z * task => let t := snd kt in TD (fst kt) (tfront t) (tnet t) (tstart t)) (kw s))
       (kwnext s) (offq s).
