(* C18 - the property.  No proofs in this file.

   Vocabulary.  A history is a list of operations (Model.op); [final h] is the centre's state
   after it, [outs_at h o] what operation o emits when issued after h.
   * fresh authorisation of account u  = a login callback receives (Succ, not reconnect):
     the front will have a logic service LOAD the character;
   * reconnect authorisation           = a login callback receives (Succ, reconnect);
   * the load of u ENDS at a LogicLogout u / AbnormalLogout u notification, or at the timer tick
     at which its record expires (Logining for 2 min / Logouting for 30 min);
   * a transaction on u is GRANTED by a fresh authorisation (login, limit 5 min), a reconnect
     authorisation (re-online, 3 min), ReqLogout answered true (logout, 3 min), ReqSwitchLine
     answered true (line switch, 3 min); it COMPLETES at LogicLogined / LogicReOnline /
     LogicLogout / SwitchLineEnd-answered-true respectively, and is over when the timer tick
     drops the account's record. *)
From Cell2V Require Import Common.Tac Common.ListX Common.AList C18.Model.

(* ------------------------------------------------------------------ events in an output *)
Definition is_fresh (u : Z) (e : out) : bool :=
  match e with Ack _ u' CSucc false _ => u' =? u | _ => false end.
Definition is_recon (u : Z) (e : out) : bool :=
  match e with Ack _ u' CSucc true _ => u' =? u | _ => false end.
Definition fresh_in (u : Z) (os : list out) : bool := existsb (is_fresh u) os.
Definition recon_in (u : Z) (os : list out) : bool := existsb (is_recon u) os.
Definition attach_in (u : Z) (os : list out) : bool := fresh_in u os || recon_in u os.
Definition ret_true (os : list out) : bool :=
  existsb (fun e => match e with Ret true => true | _ => false end) os.

(* request ids answered by an output *)
Fixpoint ack_rids (os : list out) : list Z :=
  match os with
  | [] => []
  | Ack r _ _ _ _ :: rest => r :: ack_rids rest
  | _ :: rest => ack_rids rest
  end.

(* accounts of the ReqLogin operations of a history, in order: request rid is the rid-th *)
Fixpoint login_uids (h : list op) : list Z :=
  match h with
  | [] => []
  | ReqLogin u _ _ _ :: r => u :: login_uids r
  | _ :: r => login_uids r
  end.

(* ------------------------------------------------------------------ end of a load *)
(* the record of u expires at a tick issued in state s *)
Definition expires (s : st) (u : Z) : bool :=
  match aget u (players s) with Some p => expiring (now s) p | None => false end.

Definition ends_load (s : st) (o : op) (u : Z) : bool :=
  match o with
  | LogicLogout u' | AbnormalLogout u' => u' =? u
  | Tick => expires s u
  | _ => false
  end.

(* ------------------------------------------------------------------ history functions
   per account, computed along the history from the operations and their outputs only
   (plus, for expiry, the deadline in the state the tick was issued in):
     g_live    a load was freshly authorised and has not ended since
     g_logged  LogicLogined was received since the last fresh authorisation
     g_closed  SessionClosed was received since a connection was last attached
               (fresh or reconnect authorisation) *)
Record gh := mkgh { g_live : bool; g_logged : bool; g_closed : bool }.
Definition gh0 : gh := mkgh false false false.

Definition is_logined (o : op) (u : Z) : bool :=
  match o with LogicLogined u' _ => u' =? u | _ => false end.
Definition is_close_report (o : op) (u : Z) : bool :=
  match o with SessionClosed u' => u' =? u | _ => false end.

(* s: state in which o is issued; os: what o emitted *)
Definition gh_step (s : st) (o : op) (os : list out) (u : Z) (g : gh) : gh :=
  mkgh ((g_live g && negb (ends_load s o u)) || fresh_in u os)
       ((g_logged g || is_logined o u) && negb (fresh_in u os))
       ((g_closed g || is_close_report o u) && negb (attach_in u os)).

Fixpoint ghost_from (s : st) (G : Z -> gh) (ops : list op) : Z -> gh :=
  match ops with
  | [] => G
  | o :: r => ghost_from (fst (step s o)) (fun u => gh_step s o (snd (step s o)) u (G u)) r
  end.
Definition ghost (h : list op) : Z -> gh := ghost_from init (fun _ => gh0) h.

Definition live (h : list op) (u : Z) : bool := g_live (ghost h u).
Definition logged_in (h : list op) (u : Z) : bool := g_logged (ghost h u).
Definition closed_reported (h : list op) (u : Z) : bool := g_closed (ghost h u).

(* ------------------------------------------------------------------ the guard
   protocol-conformant histories: connection ids are not 0 (0 is the centre's "no connection");
   a logic service notifies the centre only about a load that was authorised and has not ended;
   the clock does not run backwards *)
Definition conf_op (G : Z -> gh) (o : op) : bool :=
  match o with
  | ReqLogin _ _ n _ => negb (n =? 0)
  | LogicLogined u _ | LogicReOnline u | LogicLogout u | AbnormalLogout u => g_live (G u)
  | Advance dt => 0 <=? dt
  | _ => true
  end.

Fixpoint conf_from (s : st) (G : Z -> gh) (ops : list op) : bool :=
  match ops with
  | [] => true
  | o :: r => conf_op G o &&
              conf_from (fst (step s o)) (fun u => gh_step s o (snd (step s o)) u (G u)) r
  end.
Definition conformant_b (h : list op) : bool := conf_from init (fun _ => gh0) h.
Definition conformant (h : list op) : Prop := conformant_b h = true.

(* the part of the guard the transaction theorem needs *)
Definition clock_forward (h : list op) : Prop :=
  Forall (fun o => match o with Advance dt => 0 <= dt | _ => True end) h.
Definition clock_forward_b (h : list op) : bool :=
  forallb (fun o => match o with Advance dt => 0 <=? dt | _ => true end) h.

(* ------------------------------------------------------------------ transactions *)
Definition limit (r : txn) : Z :=
  match r with TLogin => LockLoginTimeout | _ => LockTimeout end.

(* the transaction o (with output os) grants on account u, if any *)
Definition grant_of (o : op) (os : list out) (u : Z) : option txn :=
  if fresh_in u os then Some TLogin
  else if recon_in u os then Some TReonline
  else match o with
       | ReqLogout u' => if (u' =? u) && ret_true os then Some TLogout else None
       | ReqSwitchLine u' => if (u' =? u) && ret_true os then Some TSwitchLine else None
       | _ => None
       end.

(* the tick issued in state s drops the record of u *)
Definition dropped_by_tick (s : st) (u : Z) : bool :=
  match aget u (players s) with Some p => removable (tick_player (now s) p) | None => false end.

(* o (issued in state s, output os) ends the transaction r of account u *)
Definition ends_txn (s : st) (o : op) (os : list out) (u : Z) (r : txn) : bool :=
  match o with
  | LogicLogined u' _ => (u' =? u) && txn_eqb r TLogin
  | LogicReOnline u' => (u' =? u) && txn_eqb r TReonline
  | LogicLogout u' => (u' =? u) && txn_eqb r TLogout
  | SwitchLineEnd u' _ => (u' =? u) && txn_eqb r TSwitchLine && ret_true os
  | Tick => dropped_by_tick s u
  | _ => false
  end.

(* the holder of account u as the trace shows it: the last granted transaction that has not
   ended, with the instant its limit passes *)
Definition holder := option (txn * Z).
Definition hold_end (s : st) (o : op) (os : list out) (u : Z) (x : holder) : holder :=
  match x with
  | Some (r, t) => if ends_txn s o os u r then None else x
  | None => None
  end.
Definition hold_step (s : st) (o : op) (os : list out) (u : Z) (x : holder) : holder :=
  match grant_of o os u with
  | Some r => Some (r, now s + limit r)
  | None => hold_end s o os u x
  end.
(* nobody holds, or the holder's limit has passed *)
Definition free_at (x : holder) (t : Z) : bool :=
  match x with Some (_, e) => e <=? t | None => true end.

Fixpoint holder_from (s : st) (H : Z -> holder) (ops : list op) : Z -> holder :=
  match ops with
  | [] => H
  | o :: r => holder_from (fst (step s o)) (fun u => hold_step s o (snd (step s o)) u (H u)) r
  end.
Definition holder_of (h : list op) : Z -> holder := holder_from init (fun _ => None) h.

(* what the account's lock shows *)
Definition lock_view (s : st) (u : Z) : holder :=
  match aget u (players s) with
  | Some p => if held (plock p) then Some (reason (plock p), until (plock p)) else None
  | None => None
  end.

(* ------------------------------------------------------------------ frame *)
Definition op_uid (o : op) : option Z :=
  match o with
  | ReqLogin u _ _ _ | SessionClosed u | OfflineAck u _ | LogicLogined u _ | LogicReOnline u | ReqLogout u
  | LogicLogout u | AbnormalLogout u | ReqSwitchLine u | SwitchLineEnd u _ => Some u
  | Tick | Advance _ => None
  end.

(* ================================================================== executable monitor
   The statements of Props.v as boolean checks on what the IMPLEMENTATION shows: per operation
   its outputs and the canonical dump of the player table.  The history functions above are
   recomputed from the implementation's own outputs; a state is rebuilt from a dump (the clock
   is driven by the harness, so it is known from the Advance operations).  None of these checks
   uses the model's transition function [step]. *)
Definition st_of_dump (d : dump) (clk nq : Z) : st :=
  match d with
  | Dump ps ts nx oq =>
      mkst (map (fun x => match x with
                          | PD u x dl f n l h r un => (u, mkplayer x dl f n l (mklock h r un))
                          end) ps)
           (map (fun x => match x with TD u f n t0 => (u, mktask 0 f n t0) end) ts)
           nx oq clk nq
  end.

Definition out_uid (e : out) : list Z :=
  match e with Ack _ u _ _ _ => [u] | Offline u _ => [u] | _ => [] end.
Definition mentioned (s s' : st) (o : op) (os : list out) : list Z :=
  (match op_uid o with Some u => [u] | None => [] end) ++ flat_map out_uid os ++
  akeys (players s) ++ akeys (players s').

Fixpoint keys_ascending (lo : option Z) (l : list Z) : bool :=
  match l with
  | [] => true
  | k :: r => (match lo with Some p => p <? k | None => true end) && keys_ascending (Some k) r
  end.

Definition has_record (s : st) (u : Z) : bool :=
  match aget u (players s) with Some p => negb (removable p) | None => false end.

Definition holder_eqb (a b : holder) : bool :=
  option_eqb (pair_eqb txn_eqb Z.eqb) a b.

(* the checks for account u at one operation: s before, s' after (both from dumps), G / H the
   history functions before, guard = the history so far (this operation included) is conformant *)
Definition check_account (s s' : st) (o : op) (os : list out) (guard : bool)
           (g : gh) (x : holder) (u : Z) : bool :=
  let g' := gh_step s o os u g in
  (* no double load: a fresh authorisation only while no load is live, and there is no record *)
  (negb (fresh_in u os) || (negb (g_live g) && match aget u (players s) with None => true | Some _ => false end)) &&
  (* a live load has a record that is not about to be dropped *)
  (negb (g_live g') || has_record s' u) &&
  (* reconnect guard *)
  (negb (guard && recon_in u os) ||
   (g_live g && (g_logged g || is_logined o u) && (g_closed g || is_close_report o u))) &&
  (* transactions: granted only while nobody holds the account or the holder's limit has passed *)
  (match grant_of o os u with Some _ => free_at (hold_end s o os u x) (now s) | None => true end) &&
  (* the lock shows exactly the holder the trace shows *)
  holder_eqb (lock_view s' u) (hold_step s o os u x).

Definition check_acks (acked : list Z) (nq : Z) (os : list out) : bool :=
  nodupb (acked ++ ack_rids os) && forallb (fun r => (0 <=? r) && (r <? nq)) (ack_rids os).

Definition next_clk (clk : Z) (o : op) : Z := match o with Advance dt => clk + dt | _ => clk end.
Definition next_nq (nq : Z) (o : op) : Z := match o with ReqLogin _ _ _ _ => nq + 1 | _ => nq end.

Fixpoint monitor_from (s : st) (G : Z -> gh) (H : Z -> holder) (acked : list Z) (guard : bool)
         (ops : list op) (bs : list (list out * dump)) : bool :=
  match ops, bs with
  | [], [] => true
  | o :: r, (os, d) :: br =>
      let s' := st_of_dump d (next_clk (now s) o) (next_nq (nreq s) o) in
      let guard' := guard && conf_op G o in
      keys_ascending None (akeys (players s')) &&
      forallb (fun u => check_account s s' o os guard' (G u) (H u) u) (mentioned s s' o os) &&
      check_acks acked (nreq s') os &&
      monitor_from s' (fun u => gh_step s o os u (G u)) (fun u => hold_step s o os u (H u))
                   (acked ++ ack_rids os) guard' r br
  | _, _ => false
  end.

Definition monitor_trace (ops : list op) (bs : list (list out * dump)) : bool :=
  monitor_from init (fun _ => gh0) (fun _ => None) [] true ops bs.

(* the model's own trace, in the form the harness prints *)
Fixpoint obs_from (s : st) (ops : list op) : list (list out * dump) :=
  match ops with
  | [] => []
  | o :: r => (snd (step s o), dump_of (fst (step s o))) :: obs_from (fst (step s o)) r
  end.
Definition model_obs (h : list op) := obs_from init h.

(* ------------------------------------------------------------------ equality used by the correspondence *)
Definition out_eqb (a b : out) : bool :=
  match a, b with
  | Ack r u c x l, Ack r' u' c' x' l' => (r =? r') && (u =? u') && code_eqb c c' && Bool.eqb x x' && (l =? l')
  | Kick f n, Kick f' n' => (f =? f') && (n =? n')
  | Offline u l, Offline u' l' => (u =? u') && (l =? l')
  | Ret b, Ret b' => Bool.eqb b b'
  | _, _ => false
  end.

Definition pdump_eqb (a b : pdump) : bool :=
  match a, b with
  | PD u x dl f n l h r un, PD u' x' dl' f' n' l' h' r' un' =>
      (u =? u') && pstate_eqb x x' && (dl =? dl') && (f =? f') && (n =? n') && (l =? l') &&
      Bool.eqb h h' && txn_eqb r r' && (un =? un')
  end.
Definition tdump_eqb (a b : tdump) : bool :=
  match a, b with
  | TD u f n t0, TD u' f' n' t0' => (u =? u') && (f =? f') && (n =? n') && (t0 =? t0')
  end.
Definition dump_eqb (a b : dump) : bool :=
  match a, b with
  | Dump ps ts nx oq, Dump ps' ts' nx' oq' =>
      list_eqb pdump_eqb ps ps' && list_eqb tdump_eqb ts ts' && (nx =? nx') && list_eqb Z.eqb oq oq'
  end.
