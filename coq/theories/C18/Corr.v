(* C18 - correspondence entry point.  An implementation trace is, per operation, the ordered
   list of what the real centre emitted (login acknowledgements delivered to the callbacks, kicks
   and onoffline requests it sent, the value the handler returned for logout / line-switch
   requests) and the canonical white-box dump of its tables after the operation: every player
   record (state, state deadline, front, connection, logic service, lock held / reason / until),
   every parked login (front, connection, start), the next expiry-scan instant, the outstanding
   onoffline requests.  [agree] runs the model along the trace: outputs and dump must be equal.
   [monitor] evaluates the property (Spec.v, section "executable monitor") on the
   implementation's own outputs and dumps, without the model's transition function; by
   C18_monitor_accepts_model it accepts every trace of the model. *)
From Cell2V Require Import Common.Tac Common.ListX Common.AList C18.Model C18.Spec.

Definition obs := (list out * dump)%type.
Definition case := (list op * list obs)%type.

Fixpoint agree_from (s : st) (ops : list op) (bs : list obs) : bool :=
  match ops, bs with
  | [], [] => true
  | o :: r, (os, d) :: br =>
      let '(s1, os1) := step s o in
      list_eqb out_eqb os1 os && dump_eqb (dump_of s1) d && agree_from s1 r br
  | _, _ => false
  end.

Definition agree (c : case) : bool := agree_from init (fst c) (snd c).
Definition monitor (c : case) : bool := monitor_trace (fst c) (snd c).

Definition disagreeing (cs : list case) : list Z := failing agree cs.
Definition monitor_failing (cs : list case) : list Z := failing monitor cs.

(* for replay reports: the model's outputs and dumps along a history *)
Definition show (ops : list op) := model_obs ops.
