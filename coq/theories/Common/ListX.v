(* List helpers shared by the models: boolean equality, counting, first-occurrence removal. *)
From Cell2V Require Import Common.Tac.

Section Eqb.
  Context {A : Type} (eqb : A -> A -> bool).
  Hypothesis eqb_spec : forall a b, eqb a b = true <-> a = b.

  Fixpoint list_eqb (l1 l2 : list A) : bool :=
    match l1, l2 with
    | [], [] => true
    | x :: xs, y :: ys => eqb x y && list_eqb xs ys
    | _, _ => false
    end.

  Lemma list_eqb_spec : forall l1 l2, list_eqb l1 l2 = true <-> l1 = l2.
  Proof.
    induction l1 as [|x xs IH]; intros [|y ys]; simpl; split; intro H;
      try reflexivity; try discriminate.
    - apply andb_true_iff in H. destruct H as [H1 H2].
      apply eqb_spec in H1. apply IH in H2. subst. reflexivity.
    - inv H. apply andb_true_iff. split; [apply eqb_spec | apply IH]; reflexivity.
  Qed.
End Eqb.

Definition option_eqb {A} (eqb : A -> A -> bool) (a b : option A) : bool :=
  match a, b with
  | Some x, Some y => eqb x y
  | None, None => true
  | _, _ => false
  end.

Lemma option_eqb_spec {A} (eqb : A -> A -> bool)
  (H : forall a b, eqb a b = true <-> a = b) :
  forall a b, option_eqb eqb a b = true <-> a = b.
Proof.
  intros [x|] [y|]; simpl; split; intro E; try discriminate; try reflexivity.
  - apply H in E. subst. reflexivity.
  - inv E. apply H. reflexivity.
Qed.

Definition pair_eqb {A B} (ea : A -> A -> bool) (eb : B -> B -> bool)
  (p q : A * B) : bool := ea (fst p) (fst q) && eb (snd p) (snd q).

Lemma pair_eqb_spec {A B} (ea : A -> A -> bool) (eb : B -> B -> bool)
  (Ha : forall a b, ea a b = true <-> a = b)
  (Hb : forall a b, eb a b = true <-> a = b) :
  forall p q, pair_eqb ea eb p q = true <-> p = q.
Proof.
  intros [a b] [c d]; unfold pair_eqb; simpl. rewrite andb_true_iff, Ha, Hb.
  split; [intros [-> ->]; reflexivity | intro E; inv E; auto].
Qed.

Definition zlist_eqb := list_eqb Z.eqb.
Lemma zlist_eqb_spec l1 l2 : zlist_eqb l1 l2 = true <-> l1 = l2.
Proof. apply list_eqb_spec. intros; apply Z.eqb_eq. Qed.

(* number of occurrences of a Z in a list, as nat *)
Fixpoint zcount (x : Z) (l : list Z) : nat :=
  match l with
  | [] => 0%nat
  | y :: ys => ((if Z.eqb x y then 1 else 0) + zcount x ys)%nat
  end.

Lemma zcount_app x l1 l2 : zcount x (l1 ++ l2) = (zcount x l1 + zcount x l2)%nat.
Proof. induction l1 as [|y ys IH]; simpl; [reflexivity|]. rewrite IH. lia. Qed.

Lemma zcount_In x l : (0 < zcount x l)%nat <-> In x l.
Proof.
  induction l as [|y ys IH]; simpl; [lia|].
  destruct (Z.eqb_spec x y).
  - subst. split; [auto | lia].
  - rewrite IH. split; [auto | intros [E|H]; [congruence | exact H]].
Qed.

(* remove the first occurrence (Go: FindIndex + splice) *)
Fixpoint remove_first (x : Z) (l : list Z) : list Z :=
  match l with
  | [] => []
  | y :: ys => if Z.eqb x y then ys else y :: remove_first x ys
  end.

Lemma zcount_remove_first_same x l :
  zcount x (remove_first x l) = pred (zcount x l).
Proof.
  induction l as [|y ys IH]; simpl; [reflexivity|].
  destruct (Z.eqb_spec x y); simpl.
  - reflexivity.
  - destruct (Z.eqb_spec x y); [contradiction|]. exact IH.
Qed.

Lemma zcount_remove_first_other x y l :
  x <> y -> zcount x (remove_first y l) = zcount x l.
Proof.
  intro N. induction l as [|z zs IH]; simpl; [reflexivity|].
  destruct (Z.eqb_spec y z); simpl.
  - subst. destruct (Z.eqb_spec x z); [contradiction | reflexivity].
  - rewrite IH. reflexivity.
Qed.

(* subsequence (order-preserving sublist) *)
Inductive subseq {A} : list A -> list A -> Prop :=
| subseq_nil : forall l, subseq [] l
| subseq_skip : forall s x l, subseq s l -> subseq s (x :: l)
| subseq_take : forall s x l, subseq s l -> subseq (x :: s) (x :: l).

Lemma subseq_refl {A} (l : list A) : subseq l l.
Proof. induction l; constructor; assumption. Qed.

Lemma subseq_trans {A} (a b c : list A) : subseq a b -> subseq b c -> subseq a c.
Proof.
  intros Hab Hbc. revert a Hab.
  induction Hbc as [l|s x l H IH|s x l H IH]; intros a Hab.
  - inv Hab. constructor.
  - constructor. apply IH. exact Hab.
  - inv Hab.
    + constructor.
    + constructor. apply IH. assumption.
    + apply subseq_take. apply IH. assumption.
Qed.

Lemma subseq_app_r {A} (s l : list A) x : subseq s l -> subseq s (l ++ [x]).
Proof.
  induction 1; simpl.
  - constructor.
  - constructor. assumption.
  - apply subseq_take. assumption.
Qed.

Lemma subseq_app_both {A} (s l : list A) x : subseq s l -> subseq (s ++ [x]) (l ++ [x]).
Proof.
  induction 1 as [l| |]; simpl.
  - induction l; simpl; [apply subseq_refl | constructor; assumption].
  - constructor. assumption.
  - apply subseq_take. assumption.
Qed.

Lemma remove_first_subseq x l : subseq (remove_first x l) l.
Proof.
  induction l as [|y ys IH]; simpl; [constructor|].
  destruct (Z.eqb x y); [constructor; apply subseq_refl | apply subseq_take; exact IH].
Qed.

Definition zmem (x : Z) (l : list Z) : bool := existsb (Z.eqb x) l.

Lemma zmem_In x l : zmem x l = true <-> In x l.
Proof.
  unfold zmem. rewrite existsb_exists. split.
  - intros [y [H E]]. apply Z.eqb_eq in E. subst. exact H.
  - intro H. exists x. split; [exact H | apply Z.eqb_refl].
Qed.

Fixpoint nodupb (l : list Z) : bool :=
  match l with [] => true | x :: r => negb (zmem x r) && nodupb r end.

Lemma nodupb_NoDup l : nodupb l = true <-> NoDup l.
Proof.
  induction l as [|x r IH]; simpl.
  - split; [constructor | reflexivity].
  - rewrite andb_true_iff, negb_true_iff, IH. split.
    + intros [H1 H2]. constructor; [|exact H2]. intro I. apply zmem_In in I. congruence.
    + intro H. inv H. split; [|assumption].
      destruct (zmem x r) eqn:E; [apply zmem_In in E; contradiction | reflexivity].
Qed.

(* indices (as Z) of the elements of a list that fail a boolean test *)
Fixpoint failing_from {A} (f : A -> bool) (i : Z) (l : list A) : list Z :=
  match l with
  | [] => []
  | x :: xs => if f x then failing_from f (i + 1) xs else i :: failing_from f (i + 1) xs
  end.
Definition failing {A} (f : A -> bool) (l : list A) : list Z := failing_from f 0 l.

Lemma failing_from_nil {A} (f : A -> bool) l :
  forall i, failing_from f i l = [] <-> forallb f l = true.
Proof.
  induction l as [|x xs IH]; intro i; simpl; [tauto|].
  destruct (f x); simpl; [apply IH | split; discriminate].
Qed.
