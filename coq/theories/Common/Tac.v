(* Common tactic setup: lia over Z/N/nat with booleans, div and mod. *)
From Coq Require Export List ZArith NArith Bool Lia.
From Coq Require Export ZifyBool ZifyNat ZifyN.
Export ListNotations.
Global Open Scope Z_scope.

Ltac Zify.zify_post_hook ::= Z.div_mod_to_equations.

Ltac inv H := inversion H; subst; clear H.

(* destruct the scrutinee of the first [if]/[match] found in the goal *)
Ltac case_if :=
  match goal with
  | |- context [if ?b then _ else _] => destruct b eqn:?
  end.

Ltac case_match :=
  match goal with
  | |- context [match ?x with _ => _ end] => destruct x eqn:?
  end.

Ltac case_if_in H :=
  match type of H with
  | context [if ?b then _ else _] => destruct b eqn:?
  end.
