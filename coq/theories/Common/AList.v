(* Association lists keyed by Z, kept sorted by key (strictly ascending), so that the
   list itself is the canonical observable form of a Go map. *)
From Cell2V Require Import Common.Tac.

Section AL.
  Context {V : Type}.
  Definition alist := list (Z * V).

  Fixpoint aget (k : Z) (m : alist) : option V :=
    match m with
    | [] => None
    | (k', v) :: r => if Z.eqb k k' then Some v else aget k r
    end.

  (* sorted insert / replace *)
  Fixpoint aset (k : Z) (v : V) (m : alist) : alist :=
    match m with
    | [] => [(k, v)]
    | (k', v') :: r =>
        if Z.ltb k k' then (k, v) :: m
        else if Z.eqb k k' then (k, v) :: r
        else (k', v') :: aset k v r
    end.

  Fixpoint adel (k : Z) (m : alist) : alist :=
    match m with
    | [] => []
    | (k', v') :: r => if Z.eqb k k' then adel k r else (k', v') :: adel k r
    end.

  Definition akeys (m : alist) : list Z := map fst m.

  Lemma aget_aset_same k v m : aget k (aset k v m) = Some v.
  Proof.
    induction m as [|[k' v'] r IH]; simpl.
    - rewrite Z.eqb_refl. reflexivity.
    - destruct (Z.ltb_spec k k'); simpl.
      + rewrite Z.eqb_refl. reflexivity.
      + destruct (Z.eqb_spec k k'); simpl.
        * rewrite Z.eqb_refl. reflexivity.
        * destruct (Z.eqb_spec k k'); [contradiction | exact IH].
  Qed.

  Lemma aget_aset_other k k2 v m : k2 <> k -> aget k2 (aset k v m) = aget k2 m.
  Proof.
    intro N. induction m as [|[k' v'] r IH]; simpl.
    - destruct (Z.eqb_spec k2 k); [contradiction | reflexivity].
    - destruct (Z.ltb_spec k k'); simpl.
      + destruct (Z.eqb_spec k2 k); [contradiction | reflexivity].
      + destruct (Z.eqb_spec k k'); simpl.
        * subst. destruct (Z.eqb_spec k2 k'); [contradiction | reflexivity].
        * destruct (Z.eqb_spec k2 k'); [reflexivity | exact IH].
  Qed.

  Lemma aget_adel_same k m : aget k (adel k m) = None.
  Proof.
    induction m as [|[k' v'] r IH]; simpl; [reflexivity|].
    destruct (Z.eqb_spec k k'); simpl; [exact IH|].
    destruct (Z.eqb_spec k k'); [contradiction | exact IH].
  Qed.

  Lemma aget_adel_other k k2 m : k2 <> k -> aget k2 (adel k m) = aget k2 m.
  Proof.
    intro N. induction m as [|[k' v'] r IH]; simpl; [reflexivity|].
    destruct (Z.eqb_spec k k'); simpl.
    - subst. destruct (Z.eqb_spec k2 k'); [contradiction | exact IH].
    - destruct (Z.eqb_spec k2 k'); [reflexivity | exact IH].
  Qed.

  (* sortedness: strictly ascending keys *)
  Fixpoint lb (k : Z) (m : alist) : Prop :=
    match m with [] => True | (k', _) :: r => k < k' /\ lb k r end.
  Fixpoint sorted (m : alist) : Prop :=
    match m with [] => True | (k, _) :: r => lb k r /\ sorted r end.

  Lemma lb_trans k k' m : k < k' -> lb k' m -> lb k m.
  Proof. induction m as [|[k2 v2] r IH]; simpl; [tauto|]. intros H [H1 H2]. split; [lia | auto]. Qed.

  Lemma lb_aset k0 k v m : k0 < k -> lb k0 m -> lb k0 (aset k v m).
  Proof.
    induction m as [|[k' v'] r IH]; simpl; intros H L.
    - tauto.
    - destruct L as [L1 L2]. destruct (Z.ltb_spec k k'); simpl; [tauto|].
      destruct (Z.eqb_spec k k'); simpl; [subst; tauto | split; [exact L1 | apply IH; assumption]].
  Qed.

  Lemma sorted_aset k v m : sorted m -> sorted (aset k v m).
  Proof.
    induction m as [|[k' v'] r IH]; simpl; intro S; [tauto|].
    destruct S as [L S]. destruct (Z.ltb_spec k k'); simpl.
    - split; [split; [exact H | apply lb_trans with k'; assumption] | tauto].
    - destruct (Z.eqb_spec k k'); simpl.
      + subst. tauto.
      + split; [apply lb_aset; [lia | exact L] | apply IH; exact S].
  Qed.

  Lemma lb_adel k0 k m : lb k0 m -> lb k0 (adel k m).
  Proof.
    induction m as [|[k' v'] r IH]; simpl; [tauto|]. intros [L1 L2].
    destruct (Z.eqb k k'); simpl; [auto | split; auto].
  Qed.

  Lemma sorted_adel k m : sorted m -> sorted (adel k m).
  Proof.
    induction m as [|[k' v'] r IH]; simpl; [tauto|]. intros [L S].
    destruct (Z.eqb k k'); simpl; [auto | split; [apply lb_adel; exact L | auto]].
  Qed.

  Lemma lb_not_in k m : lb k m -> aget k m = None.
  Proof.
    induction m as [|[k' v'] r IH]; simpl; [reflexivity|]. intros [L1 L2].
    destruct (Z.eqb_spec k k'); [lia | auto].
  Qed.

  Lemma sorted_nodup_keys m : sorted m -> NoDup (akeys m).
  Proof.
    induction m as [|[k v] r IH]; simpl; intro S; [constructor|].
    destruct S as [L S]. constructor; [|auto].
    intro I. clear IH S. induction r as [|[k2 v2] r2 IH2]; simpl in *; [contradiction|].
    destruct L as [L1 L2]. destruct I as [E|I]; [lia | auto].
  Qed.

  Lemma aget_in k v m : aget k m = Some v -> In (k, v) m.
  Proof.
    induction m as [|[k' v'] r IH]; simpl; [discriminate|].
    destruct (Z.eqb_spec k k'); [intro E; inv E; auto | auto].
  Qed.

  Lemma in_aget k v m : sorted m -> In (k, v) m -> aget k m = Some v.
  Proof.
    induction m as [|[k' v'] r IH]; simpl; [tauto|]. intros [L S] [E|I].
    - inv E. rewrite Z.eqb_refl. reflexivity.
    - destruct (Z.eqb_spec k k').
      + subst. rewrite (lb_not_in _ _ L) in IH. specialize (IH S I). discriminate.
      + auto.
  Qed.
End AL.
Arguments alist V : clear implicits.
