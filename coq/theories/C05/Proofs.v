(* C05 - proofs.  Structure:
   1. list / association-list helpers
   2. the per-connection effect of a step ([kupd]) and the classification of every label
      into: local (connections change, events are appended), connect, front, set-next
   3. invariants: latch accounting (A), thread consistency and end causes (B), the shape of
      the posted events of one connection (C2), arrival order (C4), the front (D)
   4. the theorems of Props.v *)
From Cell2V Require Import Common.Tac Common.ListX Common.AList C05.Model C05.Spec.

(* ------------------------------------------------------------------ 1. helpers *)
Lemma subseq_app {A} (a b c d : list A) : subseq a b -> subseq c d -> subseq (a ++ c) (b ++ d).
Proof.
  intros H1 H2. induction H1 as [l|s x l H IH|s x l H IH]; simpl.
  - induction l as [|y l IHl]; simpl; [exact H2 | constructor; exact IHl].
  - constructor. exact IH.
  - apply subseq_take. exact IH.
Qed.

Lemma subseq_app_l {A} (a b c : list A) : subseq a b -> subseq a (b ++ c).
Proof.
  intro H. rewrite <- (app_nil_r a). apply subseq_app; [exact H | constructor].
Qed.

Lemma subseq_nil_inv {A} (s : list A) : subseq s [] -> s = [].
Proof. intro H. inv H. reflexivity. Qed.

Lemma subseq_cons_l {A} (x : A) s l : subseq (x :: s) l -> subseq s l.
Proof.
  intro H. remember (x :: s) as xs eqn:E. revert x s E.
  induction H as [l|s0 y l H IH|s0 y l H IH]; intros x s E.
  - discriminate.
  - constructor. eapply IH. exact E.
  - inv E. constructor. exact H.
Qed.

Lemma subseq_app_inv_l {A} (a b l : list A) : subseq (a ++ b) l -> subseq b l.
Proof.
  induction a as [|x a IH]; simpl; intro H; [exact H|].
  apply IH. eapply subseq_cons_l. exact H.
Qed.

Lemma subseq_app_inv_r {A} (a b l : list A) : subseq (a ++ b) l -> subseq a l.
Proof.
  intro H. eapply subseq_trans; [|exact H].
  rewrite <- (app_nil_r a) at 1. apply subseq_app; [apply subseq_refl | constructor].
Qed.

Lemma subseqb_sound s : forall l, subseqb s l = true -> subseq s l.
Proof.
  induction s as [|x s IH]; intros l H; [constructor|].
  induction l as [|y l IHl]; simpl in H; [discriminate|].
  destruct (Z.eqb_spec x y).
  - subst. apply subseq_take. apply IH. exact H.
  - constructor. apply IHl. exact H.
Qed.

Lemma subseqb_complete l : forall s, subseq s l -> subseqb s l = true.
Proof.
  induction l as [|y l IH]; intros s H.
  - apply subseq_nil_inv in H. subst. reflexivity.
  - destruct s as [|x s]; [reflexivity|]. simpl.
    destruct (Z.eqb_spec x y) as [E|N].
    + subst. apply IH. inv H; [eapply subseq_cons_l; eassumption | assumption].
    + apply IH. inv H; [assumption | contradiction].
Qed.

(* association lists: what the model needs beyond Common.AList *)
Lemma aget_aset {V} (c c' : Z) (v : V) m :
  aget c' (aset c v m) = if Z.eqb c' c then Some v else aget c' m.
Proof.
  destruct (Z.eqb_spec c' c) as [E|N].
  - subst. apply aget_aset_same.
  - apply aget_aset_other. exact N.
Qed.

Lemma aget_adel {V} (c c' : Z) (m : alist V) :
  aget c' (adel c m) = if Z.eqb c' c then None else aget c' m.
Proof.
  destruct (Z.eqb_spec c' c) as [E|N].
  - subst. apply aget_adel_same.
  - apply aget_adel_other. exact N.
Qed.

Lemma filter_app_single {A} (f : A -> bool) l x :
  filter f (l ++ [x]) = filter f l ++ (if f x then [x] else []).
Proof. rewrite filter_app. simpl. destruct (f x); reflexivity. Qed.

(* ------------------------------------------------------------------ 2. effects *)
Inductive kev := KMsg (m : Z) | KRemove.
Definition toev (c : Z) (e : kev) : ev :=
  match e with KMsg m => EMsg c m | KRemove => ERemove c end.
Definition kmsgs (l : list kev) : list Z :=
  flat_map (fun e => match e with KMsg m => [m] | KRemove => [] end) l.

Definition data_of (l : list pkt) : list Z :=
  flat_map (fun p => match p with PData m => [m] | _ => [] end) l.
(* data messages read or readable but not yet posted / skipped *)
Definition pend (k : conn) : list Z :=
  (match c_rp k with RGot (PData m) => [m] | _ => [] end) ++ data_of (c_inbox k).

Definition good (k : conn) : Prop :=
  (c_rp k = RDone -> c_latch k = true) /\
  (c_wp k = WDone -> c_latch k = true) /\
  (c_hp k = HDone -> c_latch k = true) /\
  (c_cause k = true ->
   c_latch k = true \/ c_rp k = RClose \/ c_wp k = WClose \/ c_hp k = HClose \/
   (c_eof k = true /\ c_rp k <> RDone)).

Definition flips (k k' : conn) : bool := negb (c_latch k) && c_latch k'.

(* what one step may do to one connection, with the events it posts *)
Record kupd (k k' : conn) (new : list kev) : Prop := mkKupd {
  ku_latch : c_latch k = true -> c_latch k' = true;
  ku_new : new = [] \/ (exists m, new = [KMsg m]) \/ new = [KRemove];
  ku_flip : new = [KRemove] <-> flips k k' = true;
  ku_ncb : c_ncb k' = c_ncb k + (if flips k k' then 1 else 0);
  ku_good : good k -> good k';
  ku_order : exists a, c_arrived k' = c_arrived k ++ a /\
                       subseq (kmsgs new ++ pend k') (pend k ++ a)
}.

Lemma kupd_refl k : kupd k k [].
Proof.
  constructor; auto.
  - unfold flips. split; [discriminate|]. destruct (c_latch k); discriminate.
  - unfold flips. destruct (c_latch k); simpl; lia.
  - exists []. rewrite !app_nil_r. split; [reflexivity | apply subseq_refl].
Qed.

(* one connection changes, events are appended, nothing else moves *)
Definition conn_eff (s s' : st) (c : Z) (k k' : conn) (new : list kev) : Prop :=
  aget c (conns s) = Some k /\
  (forall c', aget c' (conns s') = if Z.eqb c' c then Some k' else aget c' (conns s)) /\
  q s' = q s ++ map (toev c) new /\ dn s' = dn s /\ fr s' = fr s /\ now s' = now s /\
  kupd k k' new.

Lemma eff_set s c k k' :
  aget c (conns s) = Some k -> kupd k k' [] -> conn_eff s (set_conn c k' s) c k k' [].
Proof.
  intros H U. unfold conn_eff, set_conn; simpl. rewrite app_nil_r.
  split; [exact H|]. split; [intro c'; apply aget_aset|].
  repeat (split; [reflexivity|]). exact U.
Qed.

Lemma eff_set_msg s c k k' m :
  aget c (conns s) = Some k -> kupd k k' [KMsg m] ->
  conn_eff s (post (EMsg c m) (set_conn c k' s)) c k k' [KMsg m].
Proof.
  intros H U. unfold conn_eff, set_conn, post; simpl.
  split; [exact H|]. split; [intro c'; apply aget_aset|].
  repeat (split; [reflexivity|]). exact U.
Qed.

(* the shape shared by RClose / WClose / HClose: Close(), then move the program counter *)
Definition close_then (f : conn -> conn) (c : Z) (s : st) : st :=
  match aget c (conns (do_close c s)) with
  | Some k' => set_conn c (f k') (do_close c s)
  | None => s
  end.

Lemma eff_close_then f s c k :
  aget c (conns s) = Some k ->
  (c_latch k = true -> kupd k (f k) []) ->
  (c_latch k = false -> kupd k (f (k_closed k)) [KRemove]) ->
  exists k' new, conn_eff s (close_then f c s) c k k' new.
Proof.
  intros H U1 U2. unfold close_then, do_close. rewrite H.
  destruct (c_latch k) eqn:L.
  - rewrite H. exists (f k), []. apply eff_set; [assumption | apply U1; reflexivity].
  - assert (G : aget c (conns (post (ERemove c) (set_conn c (k_closed k) s))) = Some (k_closed k)).
    { unfold post, set_conn; simpl. apply aget_aset_same. }
    rewrite G. exists (f (k_closed k)), [KRemove].
    unfold conn_eff, set_conn, post; simpl.
    split; [exact H|]. split; [intro c'; rewrite !aget_aset; destruct (Z.eqb c' c); reflexivity|].
    repeat (split; [reflexivity|]). apply U2. reflexivity.
Qed.

(* discharge [kupd k k' new] when k' is an explicit update of k; facts about k in context *)
Ltac ku_good_tac :=
  unfold good; simpl;
  let G1 := fresh "G1" in let G2 := fresh "G2" in let G3 := fresh "G3" in let G4 := fresh "G4" in
  intros (G1 & G2 & G3 & G4);
  repeat match goal with H : _ = _ |- _ => rewrite H in * end;
  repeat split; intros; try discriminate; try congruence;
  intuition (try congruence).

Ltac ku_order_tac :=
  exists []; rewrite ?app_nil_r; split; [reflexivity|];
  unfold pend; simpl;
  repeat match goal with H : _ = _ |- _ => rewrite H end; simpl;
  auto using subseq_refl, subseq_skip.

Ltac ku_tac :=
  constructor;
  [ simpl; auto
  | simpl; first [ left; reflexivity | right; left; eexists; reflexivity | right; right; reflexivity ]
  | unfold flips; simpl;
    repeat match goal with H : c_latch _ = _ |- _ => rewrite H end;
    (let X := fresh "X" in
     split; intro X; try discriminate X; try reflexivity;
     try (match type of X with context [c_latch ?k] => destruct (c_latch k); simpl in X; discriminate X end))
  | unfold flips; simpl;
    repeat match goal with H : c_latch _ = _ |- _ => rewrite H end;
    match goal with |- context [c_latch ?k] => destruct (c_latch k); simpl; lia | _ => simpl; lia end
  | ku_good_tac
  | ku_order_tac ].

Lemma step_R_eff s c k :
  aget c (conns s) = Some k ->
  step_R c k s = s \/ exists k' new, conn_eff s (step_R c k s) c k k' new.
Proof.
  intro H. unfold step_R.
  destruct (c_rp k) eqn:Hrp.
  - (* RTop *) right. eexists _, []. apply eff_set; [exact H|].
    destruct (c_status k); ku_tac.
  - (* RRead *)
    destruct (c_latch k) eqn:L.
    { right. eexists _, []. apply eff_set; [exact H | ku_tac]. }
    destruct (c_inbox k) as [|p r] eqn:Hin.
    { destruct (c_eof k) eqn:He; [right | left; reflexivity].
      eexists _, []. apply eff_set; [exact H | ku_tac]. }
    right.
    destruct p; eexists _, []; (apply eff_set; [exact H | ku_tac]).
  - (* RGot *)
    right.
    destruct p.
    + destruct (c_latch k || c_wfail k) eqn:B; eexists _, []; (apply eff_set; [exact H | ku_tac]).
    + destruct (c_latch k || c_wfail k) eqn:B; eexists _, []; (apply eff_set; [exact H | ku_tac]).
    + eexists _, []. apply eff_set; [exact H | ku_tac].
    + destruct (below_working (c_status k)) eqn:B.
      * eexists _, []. apply eff_set; [exact H | ku_tac].
      * eexists _, [KMsg m]. apply eff_set_msg; [exact H | ku_tac].
    + destruct (below_working (c_status k)) eqn:B; eexists _, []; (apply eff_set; [exact H | ku_tac]).
    + eexists _, []. apply eff_set; [exact H | ku_tac].
    + eexists _, []. apply eff_set; [exact H | ku_tac].
    + eexists _, []. apply eff_set; [exact H | ku_tac].
    + eexists _, []. apply eff_set; [exact H | ku_tac].
    + eexists _, []. apply eff_set; [exact H | ku_tac].
  - (* RClose *)
    right. apply (eff_close_then (k_rp RDone) s c k H); intro L; ku_tac.
  - left. reflexivity.
Qed.
