(* C05 - proofs.  Structure:
   1. list / association-list helpers
   2. the per-connection effect of a step ([kupd]) and the classification of every label
      into: local (connections change, events are appended), connect, front, set-next
   3. invariants: latch accounting (A), thread consistency and end causes (B), the shape of
      the posted events of one connection (C2), arrival order (C4), the front (D)
   4. the theorems of Props.v *)
From Cell2V Require Import Common.Tac Common.ListX Common.AList C05.Model C05.Spec.

(* ------------------------------------------------------------------ 1. helpers *)
Lemma subseq_app {A} (a b c d : list A) : subseq a b -> subseq c d -> subseq (a ++ c) (b ++ d).
Proof.
  intros H1 H2. induction H1 as [l|s x l H IH|s x l H IH]; simpl.
  - induction l as [|y l IHl]; simpl; [exact H2 | constructor; exact IHl].
  - constructor. exact IH.
  - apply subseq_take. exact IH.
Qed.

Lemma subseq_app_l {A} (a b c : list A) : subseq a b -> subseq a (b ++ c).
Proof.
  intro H. rewrite <- (app_nil_r a). apply subseq_app; [exact H | constructor].
Qed.

Lemma subseq_nil_inv {A} (s : list A) : subseq s [] -> s = [].
Proof. intro H. inv H. reflexivity. Qed.

Lemma subseq_cons_l {A} (x : A) s l : subseq (x :: s) l -> subseq s l.
Proof.
  intro H. remember (x :: s) as xs eqn:E. revert x s E.
  induction H as [l|s0 y l H IH|s0 y l H IH]; intros x s E.
  - discriminate.
  - constructor. eapply IH. exact E.
  - inv E. constructor. exact H.
Qed.

Lemma subseq_app_inv_l {A} (a b l : list A) : subseq (a ++ b) l -> subseq b l.
Proof.
  induction a as [|x a IH]; simpl; intro H; [exact H|].
  apply IH. eapply subseq_cons_l. exact H.
Qed.

Lemma subseq_app_inv_r {A} (a b l : list A) : subseq (a ++ b) l -> subseq a l.
Proof.
  intro H. eapply subseq_trans; [|exact H].
  rewrite <- (app_nil_r a) at 1. apply subseq_app; [apply subseq_refl | constructor].
Qed.

Lemma subseqb_sound s : forall l, subseqb s l = true -> subseq s l.
Proof.
  induction s as [|x s IH]; intros l H; [constructor|].
  induction l as [|y l IHl]; simpl in H; [discriminate|].
  destruct (Z.eqb_spec x y).
  - subst. apply subseq_take. apply IH. exact H.
  - constructor. apply IHl. exact H.
Qed.

Lemma subseqb_complete l : forall s, subseq s l -> subseqb s l = true.
Proof.
  induction l as [|y l IH]; intros s H.
  - apply subseq_nil_inv in H. subst. reflexivity.
  - destruct s as [|x s]; [reflexivity|]. simpl.
    destruct (Z.eqb_spec x y) as [E|N].
    + subst. apply IH. inv H; [eapply subseq_cons_l; eassumption | assumption].
    + apply IH. inv H; [assumption | contradiction].
Qed.

(* association lists: what the model needs beyond Common.AList *)
Lemma aget_aset {V} (c c' : Z) (v : V) m :
  aget c' (aset c v m) = if Z.eqb c' c then Some v else aget c' m.
Proof.
  destruct (Z.eqb_spec c' c) as [E|N].
  - subst. apply aget_aset_same.
  - apply aget_aset_other. exact N.
Qed.

Lemma aget_adel {V} (c c' : Z) (m : alist V) :
  aget c' (adel c m) = if Z.eqb c' c then None else aget c' m.
Proof.
  destruct (Z.eqb_spec c' c) as [E|N].
  - subst. apply aget_adel_same.
  - apply aget_adel_other. exact N.
Qed.

Lemma filter_app_single {A} (f : A -> bool) l x :
  filter f (l ++ [x]) = filter f l ++ (if f x then [x] else []).
Proof. rewrite filter_app. simpl. destruct (f x); reflexivity. Qed.

(* ------------------------------------------------------------------ 2. effects *)
Inductive kev := KMsg (m : Z) | KRemove.
Definition toev (c : Z) (e : kev) : ev :=
  match e with KMsg m => EMsg c m | KRemove => ERemove c end.
Definition kmsgs (l : list kev) : list Z :=
  flat_map (fun e => match e with KMsg m => [m] | KRemove => [] end) l.

Definition data_of (l : list pkt) : list Z :=
  flat_map (fun p => match p with PData m => [m] | _ => [] end) l.
(* data messages read or readable but not yet posted / skipped *)
Definition pend (k : conn) : list Z :=
  (match c_rp k with RGot (PData m) => [m] | _ => [] end) ++ data_of (c_inbox k).

Definition good (k : conn) : Prop :=
  (c_rp k = RDone -> c_latch k = true) /\
  (c_wp k = WDone -> c_latch k = true) /\
  (c_hp k = HDone -> c_latch k = true) /\
  (c_cause k = true ->
   c_latch k = true \/ c_rp k = RClose \/ c_wp k = WClose \/ c_hp k = HClose \/
   (c_eof k = true /\ c_rp k <> RDone)).

Definition flips (k k' : conn) : bool := negb (c_latch k) && c_latch k'.

(* chSend is a bounded queue and c_nq is its length *)
Definition qok (k : conn) : Prop :=
  c_nq k = Z.of_nat (length (c_sendf k) + length (c_sendq k)) /\ c_nq k <= chcap /\
  (* what conn.Close() returned is recorded exactly when the latch is set *)
  (c_latch k = false -> c_cret k = 0) /\ (c_latch k = true -> c_cret k = 1 \/ c_cret k = 2).

Lemma rev_cons_length {A} (l : list A) x r : rev l = x :: r -> length l = S (length r).
Proof. intro H. rewrite <- (rev_length l), H. reflexivity. Qed.

(* what one step may do to one connection, with the events it posts *)
Record kupd (k k' : conn) (new : list kev) : Prop := mkKupd {
  ku_latch : c_latch k = true -> c_latch k' = true;
  ku_new : new = [] \/ (exists m, new = [KMsg m]) \/ new = [KRemove];
  ku_flip : new = [KRemove] <-> flips k k' = true;
  ku_ncb : c_ncb k' = c_ncb k + (if flips k k' then 1 else 0);
  ku_good : good k -> good k';
  ku_order : exists a, c_arrived k' = c_arrived k ++ a /\
                       subseq (kmsgs new ++ pend k') (pend k ++ a);
  ku_q : qok k -> qok k'
}.

Lemma kupd_refl k : kupd k k [].
Proof.
  constructor; auto.
  - unfold flips. split; [discriminate|]. destruct (c_latch k); discriminate.
  - unfold flips. destruct (c_latch k); simpl; lia.
  - exists []. rewrite !app_nil_r. split; [reflexivity | apply subseq_refl].
Qed.

(* the fields of the acceptor pipeline, the gate and the service's pending targets *)
Definition accf (s : st) := (backlog s, ahand s, cch s, shand s, gate s, dialed s, own s).

(* one connection changes, events are appended, nothing else moves *)
Definition conn_eff (s s' : st) (c : Z) (k k' : conn) (new : list kev) : Prop :=
  aget c (conns s) = Some k /\
  (forall c', aget c' (conns s') = if Z.eqb c' c then Some k' else aget c' (conns s)) /\
  q s' = q s ++ map (toev c) new /\ dn s' = dn s /\ fr s' = fr s /\ now s' = now s /\
  accf s' = accf s /\
  kupd k k' new.

Lemma eff_set s c k k' :
  aget c (conns s) = Some k -> kupd k k' [] -> conn_eff s (set_conn c k' s) c k k' [].
Proof.
  intros H U. unfold conn_eff, set_conn; simpl. rewrite app_nil_r.
  split; [exact H|]. split; [intro c'; apply aget_aset|].
  repeat (split; [reflexivity|]). exact U.
Qed.

Lemma eff_set_msg s c k k' m :
  aget c (conns s) = Some k -> kupd k k' [KMsg m] ->
  conn_eff s (post (EMsg c m) (set_conn c k' s)) c k k' [KMsg m].
Proof.
  intros H U. unfold conn_eff, set_conn, post; simpl.
  split; [exact H|]. split; [intro c'; apply aget_aset|].
  repeat (split; [reflexivity|]). exact U.
Qed.

(* the shape shared by RClose / WClose / HClose: Close(), then move the program counter *)
Definition close_then (f : conn -> conn) (c : Z) (s : st) : st :=
  match aget c (conns (do_close c s)) with
  | Some k' => set_conn c (f k') (do_close c s)
  | None => s
  end.

Lemma eff_close_then f s c k :
  aget c (conns s) = Some k ->
  (c_latch k = true -> kupd k (f k) []) ->
  (c_latch k = false -> kupd k (f (k_closed k)) [KRemove]) ->
  exists k' new, conn_eff s (close_then f c s) c k k' new.
Proof.
  intros H U1 U2. unfold close_then, do_close. rewrite H.
  destruct (c_latch k) eqn:L.
  - rewrite H. exists (f k), []. apply eff_set; [assumption | apply U1; reflexivity].
  - assert (G : aget c (conns (post (ERemove c) (set_conn c (k_closed k) s))) = Some (k_closed k)).
    { unfold post, set_conn; simpl. apply aget_aset_same. }
    rewrite G. exists (f (k_closed k)), [KRemove].
    unfold conn_eff, set_conn, post; simpl.
    split; [exact H|]. split; [intro c'; rewrite !aget_aset; destruct (Z.eqb c' c); reflexivity|].
    repeat (split; [reflexivity|]). apply U2. reflexivity.
Qed.

(* discharge [kupd k k' new] when k' is an explicit update of k; facts about k in context *)
Ltac ku_good_tac :=
  unfold good; simpl;
  let G1 := fresh "G1" in let G2 := fresh "G2" in let G3 := fresh "G3" in let G4 := fresh "G4" in
  intros (G1 & G2 & G3 & G4);
  repeat match goal with H : _ = _ |- _ => rewrite H in * end;
  repeat split; intros; try discriminate; try congruence;
  intuition (try congruence).

Ltac ku_order_tac :=
  exists []; rewrite ?app_nil_r; split; [reflexivity|];
  unfold pend; simpl;
  repeat match goal with H : _ = _ |- _ => rewrite H end; simpl;
  auto using subseq_refl, subseq_skip.

Ltac ku_q_tac :=
  unfold qok, chcap; simpl;
  let Q1 := fresh "Q1" in let Q2 := fresh "Q2" in
  let Q3 := fresh "Q3" in let Q4 := fresh "Q4" in
  intros (Q1 & Q2 & Q3 & Q4);
  repeat match goal with H : rev _ = _ :: _ |- _ => apply rev_cons_length in H end;
  repeat match goal with H : c_sendf _ = _ |- _ => rewrite H in * end;
  repeat match goal with H : length (c_sendq _) = _ |- _ => rewrite H in * end;
  simpl length in *;
  repeat match goal with H : (_ <? _) = true |- _ => apply Z.ltb_lt in H end;
  unfold chcap in *;
  repeat match goal with H : c_latch _ = _ |- _ => rewrite H in * end;
  split; [lia|]; split; [lia|]; split;
    try assumption; try (intros; discriminate);
    try (intros _; match goal with |- context [c_cerr ?k] => destruct (c_cerr k) end; auto);
    auto.

Ltac ku_tac :=
  constructor;
  [ simpl; auto
  | simpl; first [ left; reflexivity | right; left; eexists; reflexivity | right; right; reflexivity ]
  | unfold flips; simpl;
    repeat match goal with H : c_latch _ = _ |- _ => rewrite H end;
    (let X := fresh "X" in
     split; intro X; try discriminate X; try reflexivity;
     try (match type of X with context [c_latch ?k] => destruct (c_latch k); simpl in X; discriminate X end))
  | unfold flips; simpl;
    repeat match goal with H : c_latch _ = _ |- _ => rewrite H end;
    match goal with |- context [c_latch ?k] => destruct (c_latch k); simpl; lia | _ => simpl; lia end
  | ku_good_tac
  | ku_order_tac
  | ku_q_tac ].

Lemma step_R_eff s c k :
  aget c (conns s) = Some k ->
  step_R c k s = s \/ exists k' new, conn_eff s (step_R c k s) c k k' new.
Proof.
  intro H. unfold step_R.
  destruct (c_rp k) eqn:Hrp.
  - (* RTop *) right. eexists _, []. apply eff_set; [exact H|].
    destruct (c_status k); ku_tac.
  - (* RRead *)
    destruct (c_latch k) eqn:L.
    { right. eexists _, []. apply eff_set; [exact H | ku_tac]. }
    destruct (c_inbox k) as [|p r] eqn:Hin.
    { destruct (c_eof k) eqn:He; [right | left; reflexivity].
      eexists _, []. apply eff_set; [exact H | ku_tac]. }
    right.
    destruct p; eexists _, []; (apply eff_set; [exact H | ku_tac]).
  - (* RGot *)
    destruct p.
    + destruct (write_fails k) eqn:B; [right; eexists _, []; (apply eff_set; [exact H | ku_tac])|].
      destruct (stalled k); [left; reflexivity|].
      right; eexists _, []; (apply eff_set; [exact H | ku_tac]).
    + destruct (write_fails k) eqn:B; [right; eexists _, []; (apply eff_set; [exact H | ku_tac])|].
      destruct (stalled k); [left; reflexivity|].
      right; eexists _, []; (apply eff_set; [exact H | ku_tac]).
    + right. eexists _, []. apply eff_set; [exact H | ku_tac].
    + right. destruct (below_working (c_status k)) eqn:B.
      * eexists _, []. apply eff_set; [exact H | ku_tac].
      * eexists _, [KMsg m]. apply eff_set_msg; [exact H | ku_tac].
    + right. destruct (below_working (c_status k)) eqn:B; eexists _, []; (apply eff_set; [exact H | ku_tac]).
    + right. eexists _, []. apply eff_set; [exact H | ku_tac].
    + right. eexists _, []. apply eff_set; [exact H | ku_tac].
    + right. eexists _, []. apply eff_set; [exact H | ku_tac].
    + right. eexists _, []. apply eff_set; [exact H | ku_tac].
    + right. eexists _, []. apply eff_set; [exact H | ku_tac].
  - (* RClose *)
    right. apply (eff_close_then (k_rp RDone) s c k H); intro L; ku_tac.
  - left. reflexivity.
Qed.

Lemma step_W_eff s c k :
  aget c (conns s) = Some k ->
  step_W c k s = s \/ exists k' new, conn_eff s (step_W c k s) c k k' new.
Proof.
  intro H. unfold step_W.
  destruct (c_wp k) eqn:Hwp.
  - destruct (c_latch k) eqn:L.
    { right. eexists _, []. apply eff_set; [exact H | ku_tac]. }
    destruct (c_sendf k) as [|x r] eqn:Hf.
    + destruct (rev (c_sendq k)) as [|x r] eqn:Hq; [left; reflexivity|].
      right. eexists _, []. apply eff_set; [exact H | ku_tac].
    + right. eexists _, []. apply eff_set; [exact H | ku_tac].
  - destruct (c_latch k) eqn:L.
    { right. eexists _, []. apply eff_set; [exact H | ku_tac]. }
    destruct (c_wfail k || c_eof k && c_wstall k) eqn:F.
    { right. eexists _, []. apply eff_set; [exact H | ku_tac]. }
    destruct (stalled k) eqn:St; [left; reflexivity|].
    right. destruct x; eexists _, []; (apply eff_set; [exact H | ku_tac]).
  - right. apply (eff_close_then (k_wp WDone) s c k H); intro L; ku_tac.
  - left. reflexivity.
Qed.

Lemma step_H_eff s c k :
  aget c (conns s) = Some k ->
  step_H c k s = s \/ exists k' new, conn_eff s (step_H c k s) c k k' new.
Proof.
  intro H. unfold step_H.
  destruct (c_hp k) eqn:Hhp.
  - destruct (c_latch k) eqn:L.
    { right. eexists _, []. apply eff_set; [exact H | ku_tac]. }
    destruct (c_status k) eqn:St; try (left; reflexivity).
    right. destruct (now s <? c_lasthb k + hb_limit) eqn:T;
      eexists _, []; (apply eff_set; [exact H | ku_tac]).
  - destruct (c_latch k) eqn:L.
    { right. eexists _, []. apply eff_set; [exact H | ku_tac]. }
    destruct (c_nq k <? chcap) eqn:Sp; [|left; reflexivity].
    right. eexists _, []. apply eff_set; [exact H | ku_tac].
  - right. apply (eff_close_then (k_hp HLoop) s c k H); intro L; ku_tac.
  - left. reflexivity.
Qed.

(* ClientSession.Push, when it does not park the caller, only touches the queue and a counter *)
Lemma push_k_kupd k k' : push_k k = Some k' -> kupd k k' [].
Proof.
  unfold push_k. intro E.
  destruct (c_status k) eqn:St; try destruct (c_latch k) eqn:L; try destruct (c_nq k <? chcap) eqn:Sp;
    inv E; ku_tac.
Qed.

Lemma push_k_pp k k' x : push_k k = Some k' -> kupd k (k_pp x k') [].
Proof.
  unfold push_k. intro E.
  destruct (c_status k) eqn:St; try destruct (c_latch k) eqn:L; try destruct (c_nq k <? chcap) eqn:Sp;
    inv E; ku_tac.
Qed.

Lemma step_P_eff s c k :
  aget c (conns s) = Some k ->
  step_P c k s = s \/ exists k' new, conn_eff s (step_P c k s) c k k' new.
Proof.
  intro H. unfold step_P. destruct (0 <? c_pp k); [|left; reflexivity].
  destruct (push_k k) as [k'|] eqn:E; [|left; reflexivity].
  right. eexists _, []. apply eff_set; [exact H | eapply push_k_pp; exact E].
Qed.

(* Close() by someone who is not one of the three loops *)
Lemma eff_ext_close s c k :
  aget c (conns s) = Some k ->
  exists k' new, conn_eff s (do_close c (set_conn c (k_cause k) s)) c k k' new.
Proof.
  intro H. unfold do_close.
  assert (G : aget c (conns (set_conn c (k_cause k) s)) = Some (k_cause k)).
  { unfold set_conn; simpl. apply aget_aset_same. }
  rewrite G. change (c_latch (k_cause k)) with (c_latch k).
  destruct (c_latch k) eqn:L.
  - exists (k_cause k), []. apply eff_set; [exact H | ku_tac].
  - exists (k_closed (k_cause k)), [KRemove].
    unfold conn_eff, set_conn, post; simpl.
    split; [exact H|]. split; [intro c'; rewrite !aget_aset; destruct (Z.eqb c' c); reflexivity|].
    repeat (split; [reflexivity|]). ku_tac.
Qed.

(* ---- classification of the labels ---- *)
Definition local_step (s s' : st) : Prop :=
  dn s' = dn s /\ fr s' = fr s /\
  exists c new,
    q s' = q s ++ map (toev c) new /\
    (new = [] \/ exists k, aget c (conns s) = Some k) /\
    forall c', match aget c' (conns s) with
               | Some k => exists k', aget c' (conns s') = Some k' /\
                                      kupd k k' (if Z.eqb c' c then new else [])
               | None => aget c' (conns s') = None
               end.

Definition quiet_step (s s' : st) : Prop :=
  dn s' = dn s /\ fr s' = fr s /\ q s' = q s /\
  forall c', match aget c' (conns s) with
             | Some k => exists k', aget c' (conns s') = Some k' /\ kupd k k' []
             | None => aget c' (conns s') = None
             end.

Lemma quiet_refl s : quiet_step s s.
Proof.
  repeat split. intro c'. destruct (aget c' (conns s)) as [k|]; [|reflexivity].
  exists k. split; [reflexivity | apply kupd_refl].
Qed.

Lemma flips_false_mono k k' : flips k k' = false -> c_latch k = false -> c_latch k' = false.
Proof. unfold flips. intros F L. rewrite L in F. simpl in F. exact F. Qed.

Lemma kupd_nil_flips k k' : kupd k k' [] -> flips k k' = false.
Proof.
  intro U. destruct (flips k k') eqn:F; [|reflexivity].
  apply (ku_flip _ _ _ U) in F. discriminate.
Qed.

Lemma kupd_trans_nil k k1 k2 : kupd k k1 [] -> kupd k1 k2 [] -> kupd k k2 [].
Proof.
  intros U1 U2.
  pose proof (kupd_nil_flips _ _ U1) as F1. pose proof (kupd_nil_flips _ _ U2) as F2.
  assert (F : flips k k2 = false).
  { unfold flips. destruct (c_latch k) eqn:L; [reflexivity|]. simpl.
    apply (flips_false_mono _ _ F2). apply (flips_false_mono _ _ F1). exact L. }
  constructor.
  - intro L. apply (ku_latch _ _ _ U2). apply (ku_latch _ _ _ U1). exact L.
  - left. reflexivity.
  - rewrite F. split; discriminate.
  - rewrite (ku_ncb _ _ _ U2), (ku_ncb _ _ _ U1), F, F1, F2. lia.
  - intro G. apply (ku_good _ _ _ U2). apply (ku_good _ _ _ U1). exact G.
  - destruct (ku_order _ _ _ U1) as (a1 & E1 & S1). destruct (ku_order _ _ _ U2) as (a2 & E2 & S2).
    exists (a1 ++ a2). split; [rewrite E2, E1, app_assoc; reflexivity|].
    simpl in *. eapply subseq_trans; [exact S2|].
    rewrite app_assoc. apply subseq_app; [exact S1 | apply subseq_refl].
  - intro G. apply (ku_q _ _ _ U2). apply (ku_q _ _ _ U1). exact G.
Qed.

Lemma quiet_trans s s1 s2 : quiet_step s s1 -> quiet_step s1 s2 -> quiet_step s s2.
Proof.
  intros (D1 & F1 & Q1 & C1) (D2 & F2 & Q2 & C2).
  split; [congruence|]. split; [congruence|]. split; [congruence|].
  intro c'. specialize (C1 c'). specialize (C2 c').
  destruct (aget c' (conns s)) as [k|].
  - destruct C1 as (k1 & A1 & U1). rewrite A1 in C2. destruct C2 as (k2 & A2 & U2).
    exists k2. split; [exact A2 | eapply kupd_trans_nil; eassumption].
  - rewrite C1 in C2. exact C2.
Qed.

Lemma conn_eff_local s s' c k k' new : conn_eff s s' c k k' new -> local_step s s'.
Proof.
  intros (H & C & Q & D & F & _ & _ & U). split; [exact D|]. split; [exact F|].
  exists c, new. split; [exact Q|]. split; [right; exists k; exact H|]. intro c'. rewrite C.
  destruct (Z.eqb_spec c' c) as [E|N].
  - subst. rewrite H. exists k'. split; [reflexivity | exact U].
  - destruct (aget c' (conns s)) as [k0|]; [|reflexivity].
    exists k0. split; [reflexivity | apply kupd_refl].
Qed.

Lemma conn_eff_quiet s s' c k k' : conn_eff s s' c k k' [] -> quiet_step s s'.
Proof.
  intros (H & C & Q & D & F & _ & _ & U). simpl in Q. rewrite app_nil_r in Q.
  split; [exact D|]. split; [exact F|]. split; [exact Q|].
  intro c'. rewrite C. destruct (Z.eqb_spec c' c) as [E|N].
  - subst. rewrite H. exists k'. split; [reflexivity | exact U].
  - destruct (aget c' (conns s)) as [k0|]; [|reflexivity].
    exists k0. split; [reflexivity | apply kupd_refl].
Qed.

Lemma quiet_local s s' : quiet_step s s' -> local_step s s'.
Proof.
  intros (D & F & Q & C). split; [exact D|]. split; [exact F|].
  exists 0, []. simpl. rewrite app_nil_r. split; [exact Q|]. split; [left; reflexivity|].
  intro c'. specialize (C c'). destruct (aget c' (conns s)); [|exact C].
  destruct C as (k' & A & U). exists k'. split; [exact A|]. destruct (Z.eqb c' 0); exact U.
Qed.

Lemma local_refl s : local_step s s.
Proof. apply quiet_local, quiet_refl. Qed.

(* one step of the owning service inside PushMsg: one connection's queue and counter, and [own] *)
Lemma owner_quiet s : quiet_step s (step_owner s).
Proof.
  unfold step_owner. destruct (own s) as [|c rest]; [apply quiet_refl|].
  assert (Q0 : forall x, quiet_step s (s_own x s)).
  { intro x. repeat split. intro c'. simpl. destruct (aget c' (conns s)) as [k|]; [|reflexivity].
    exists k. split; [reflexivity | apply kupd_refl]. }
  destruct (target_of s c) as [c'|]; [|apply Q0].
  destruct (aget c' (conns s)) as [k|] eqn:H; [|apply Q0].
  destruct (push_k k) as [k'|] eqn:E; [|apply quiet_refl].
  pose proof (conn_eff_quiet s (set_conn c' k' s) c' k k' (eff_set s c' k k' H (push_k_kupd k k' E))) as (D & F & Q & C).
  repeat split; try assumption.
Qed.

Lemma good_eof k :
  good k ->
  c_latch k = true \/ c_rp k = RClose \/ c_wp k = WClose \/ c_hp k = HClose \/
  (true = true /\ c_rp k <> RDone).
Proof.
  intros (G1 & _). destruct (c_rp k) eqn:R;
    try (right; right; right; right; split; [reflexivity | discriminate]).
  left. apply G1. reflexivity.
Qed.

Lemma data_of_app a b : data_of (a ++ b) = data_of a ++ data_of b.
Proof. unfold data_of. apply flat_map_app. Qed.

Lemma kupd_send k p :
  kupd k (let k1 := k_inbox (c_inbox k ++ [p]) k in
          let k2 := match p with PData m => k_arrived (c_arrived k ++ [m]) k1 | _ => k1 end in
          match p with PTruncEof => k_cause (k_eof k2) | _ => k2 end) [].
Proof.
  assert (O : forall a k', c_rp k' = c_rp k -> c_inbox k' = c_inbox k ++ [p] -> data_of [p] = a ->
                           c_arrived k' = c_arrived k ++ a ->
                           exists a0, c_arrived k' = c_arrived k ++ a0 /\ subseq (kmsgs [] ++ pend k') (pend k ++ a0)).
  { intros a k' E1 E2 E3 E4. exists a. split; [exact E4|]. unfold pend. rewrite E1, E2, data_of_app, E3.
    simpl. rewrite app_assoc. apply subseq_refl. }
  destruct p; simpl;
    (constructor;
     [ simpl; auto | left; reflexivity
     | unfold flips; simpl; split; [discriminate | destruct (c_latch k); discriminate]
     | unfold flips; simpl; destruct (c_latch k); simpl; lia
     | | | unfold qok; simpl; auto ]);
    try (apply (O []); simpl; rewrite ?app_nil_r; reflexivity);
    try (apply (O [m]); reflexivity);
    try (unfold good; simpl; tauto).
  unfold good; simpl. intros G. pose proof (good_eof k G) as E. destruct G as (G1 & G2 & G3 & G4).
  repeat split; auto.
Qed.

(* nothing the invariants look at changes *)
Definition silent_step (s s' : st) : Prop :=
  conns s' = conns s /\ q s' = q s /\ dn s' = dn s /\ fr s' = fr s.

(* a new connection: NewClientSession posts the Add and starts the loops *)
Definition connect_step (s s' : st) (c : Z) : Prop :=
  aget c (conns s) = None /\
  (forall c', aget c' (conns s') = if Z.eqb c' c then Some conn0 else aget c' (conns s)) /\
  q s' = q s ++ [EAdd c] /\ dn s' = dn s /\ fr s' = fr s.

Inductive step_kind (s : st) (l : label) : Prop :=
| sk_local : local_step s (step s l) -> step_kind s l
| sk_silent : silent_step s (step s l) -> step_kind s l
| sk_connect c : l = LConnect c \/ l = LStepS -> connect_step s (step s l) c -> step_kind s l
| sk_front e r : l = LFront -> own s = [] -> q s = e :: r -> step_kind s l
| sk_setnext v : l = LSetNext v -> own s = [] -> step_kind s l.

Lemma connect_cases s c :
  connect c s = s \/ connect_step s (connect c s) c.
Proof.
  unfold connect. destruct (aget c (conns s)) eqn:H; [left; reflexivity|].
  right. unfold connect_step, post, set_conn; simpl.
  split; [exact H|]. split; [intro c'; apply aget_aset|]. repeat split.
Qed.

Lemma step_class s l : step_kind s l.
Proof.
  destruct l as [c|b| | |c|c p|c|c|c|c|d|c t|c n|c|c|cs| | |v].
  - (* LDial *) apply sk_silent. simpl. destruct (known s c); repeat split.
  - (* LGate *) apply sk_silent. repeat split.
  - (* LStepA *) apply sk_silent. simpl.
    destruct (ahand s) as [c|]; [destruct (length (cch s) <? cchcap)%nat | destruct (backlog s)]; repeat split.
  - (* LStepS *) destruct (shand s) as [c|] eqn:Sh.
    + destruct (gate s) eqn:G.
      { apply sk_silent. unfold silent_step. simpl. rewrite Sh, G. repeat split. }
      destruct (connect_cases s c) as [E|(H & C & Q & D & F)].
      * apply sk_silent. unfold silent_step. simpl. rewrite Sh, G, E. repeat split.
      * apply (sk_connect s LStepS c); [right; reflexivity|]. unfold connect_step. simpl. rewrite Sh, G. simpl.
        split; [exact H|]. split; [exact C|]. repeat split; assumption.
    + apply sk_silent. unfold silent_step. simpl. rewrite Sh. destruct (cch s); repeat split.
  - (* LConnect *) destruct (zmem c (dialed s)) eqn:Dl.
    { apply sk_local. simpl. rewrite Dl. apply local_refl. }
    destruct (connect_cases s c) as [E|C].
    + apply sk_local. simpl. rewrite Dl, E. apply local_refl.
    + apply (sk_connect s (LConnect c) c); [left; reflexivity|]. simpl. rewrite Dl. exact C.
  - (* LSend *) apply sk_local. simpl. destruct (aget c (conns s)) as [k|] eqn:H; [|apply local_refl].
    destruct (c_eof k) eqn:E; [apply local_refl|].
    eapply conn_eff_local. apply eff_set; [exact H|].
    apply kupd_send.
  - (* LEof *) apply sk_local. simpl. destruct (aget c (conns s)) as [k|] eqn:H; [|apply local_refl].
    eapply conn_eff_local. apply eff_set; [exact H|].
    constructor; [simpl; auto | left; reflexivity
                 | unfold flips; simpl; split; [discriminate | destruct (c_latch k); discriminate]
                 | unfold flips; simpl; destruct (c_latch k); simpl; lia
                 | | ku_order_tac | unfold qok; simpl; auto].
    unfold good; simpl. intros G. pose proof (good_eof k G) as E. destruct G as (G1 & G2 & G3 & G4).
    repeat split; auto.
  - (* LWfail *) apply sk_local. simpl. destruct (aget c (conns s)) as [k|] eqn:H; [|apply local_refl].
    eapply conn_eff_local. apply eff_set; [exact H | ku_tac].
  - (* LWstall *) apply sk_local. simpl. destruct (aget c (conns s)) as [k|] eqn:H; [|apply local_refl].
    eapply conn_eff_local. apply eff_set; [exact H | ku_tac].
  - (* LCloseErr *) apply sk_local. simpl. destruct (aget c (conns s)) as [k|] eqn:H; [|apply local_refl].
    eapply conn_eff_local. apply eff_set; [exact H | ku_tac].
  - (* LTick *) apply sk_silent. repeat split.
  - (* LStep *) apply sk_local. simpl. destruct (aget c (conns s)) as [k|] eqn:H; [|apply local_refl].
    destruct t.
    + destruct (step_R_eff s c k H) as [E|(k' & new & E)]; [rewrite E; apply local_refl | eapply conn_eff_local; exact E].
    + destruct (step_W_eff s c k H) as [E|(k' & new & E)]; [rewrite E; apply local_refl | eapply conn_eff_local; exact E].
    + destruct (step_H_eff s c k H) as [E|(k' & new & E)]; [rewrite E; apply local_refl | eapply conn_eff_local; exact E].
    + destruct (step_P_eff s c k H) as [E|(k' & new & E)]; [rewrite E; apply local_refl | eapply conn_eff_local; exact E].
  - (* LFlood *) apply sk_local. simpl. destruct (aget c (conns s)) as [k|] eqn:H; [|apply local_refl].
    destruct (c_pp k =? 0); [|apply local_refl].
    eapply conn_eff_local. apply eff_set; [exact H | ku_tac].
  - (* LKick *) apply sk_local. simpl. destruct (own s); [|apply local_refl].
    destruct (target_of s c) as [c'|]; [|apply local_refl].
    destruct (aget c' (conns s)) as [k'|] eqn:H; [|apply local_refl].
    destruct (eff_ext_close s c' k' H) as (k2 & new & E). eapply conn_eff_local. exact E.
  - (* LCloseExt *) apply sk_local. simpl.
    destruct (aget c (conns s)) as [k|] eqn:H; [|apply local_refl].
    destruct (eff_ext_close s c k H) as (k2 & new & E). eapply conn_eff_local. exact E.
  - (* LPush *) apply sk_silent. simpl. destruct (own s); repeat split.
  - (* LOwner *) apply sk_local. simpl. apply quiet_local. apply owner_quiet.
  - (* LFront *) destruct (own s) as [|c0 rest] eqn:O.
    + destruct (q s) as [|e r] eqn:Q.
      * apply sk_local. simpl. rewrite O, Q. apply local_refl.
      * eapply sk_front; [reflexivity | exact O | exact Q].
    + apply sk_local. simpl. rewrite O. apply local_refl.
  - (* LSetNext *) destruct (own s) as [|c0 rest] eqn:O.
    + eapply sk_setnext; [reflexivity | exact O].
    + apply sk_local. simpl. rewrite O. apply local_refl.
Qed.

(* ------------------------------------------------------------------ 3. invariants *)
Definition msgs_of (c : Z) (l : list ev) : list Z :=
  flat_map (fun e => match e with EMsg c' m => if Z.eqb c c' then [m] else [] | _ => [] end) l.

Lemma msgs_of_app c a b : msgs_of c (a ++ b) = msgs_of c a ++ msgs_of c b.
Proof. unfold msgs_of. apply flat_map_app. Qed.

Lemma evs_of_app c a b : evs_of c (a ++ b) = evs_of c a ++ evs_of c b.
Proof. unfold evs_of. apply filter_app. Qed.

Lemma count_remove_app c a b : count_remove c (a ++ b) = (count_remove c a + count_remove c b)%nat.
Proof. unfold count_remove. rewrite filter_app, app_length. reflexivity. Qed.

Lemma msgs_of_evs c l : msgs_of c (evs_of c l) = msgs_of c l.
Proof.
  induction l as [|e l IH]; [reflexivity|]. simpl.
  destruct e as [c'|c' m|c']; simpl; destruct (Z.eqb c c') eqn:E; simpl; rewrite ?E; rewrite IH; reflexivity.
Qed.

(* the events one connection emits in one step *)
Lemma evs_toev_same c new : ~ In (EAdd c) (evs_of c (map (toev c) new)) /\
                            msgs_of c (map (toev c) new) = kmsgs new.
Proof.
  induction new as [|e new (IH1 & IH2)]; simpl; [split; [tauto | reflexivity]|].
  destruct e as [m|]; simpl; rewrite Z.eqb_refl; simpl; rewrite IH2; split; try reflexivity;
    intros [E|I]; [discriminate | auto | discriminate | auto].
Qed.

Lemma evs_toev_other c c0 new : c <> c0 ->
  evs_of c (map (toev c0) new) = [] /\ msgs_of c (map (toev c0) new) = [] /\
  count_remove c (map (toev c0) new) = 0%nat.
Proof.
  intro N. assert (E : Z.eqb c c0 = false) by (apply Z.eqb_neq; exact N).
  induction new as [|e new (IH1 & IH2 & IH3)]; simpl; [auto|].
  unfold count_remove in *.
  destruct e as [m|]; simpl; rewrite E; simpl; auto.
Qed.

Lemma count_remove_toev c new k k' : kupd k k' new ->
  count_remove c (map (toev c) new) = if flips k k' then 1%nat else 0%nat.
Proof.
  intro U. destruct (ku_new _ _ _ U) as [E|[(m & E)|E]].
  - subst. rewrite (kupd_nil_flips _ _ U). reflexivity.
  - subst. destruct (flips k k') eqn:F.
    + apply (ku_flip _ _ _ U) in F. discriminate.
    + reflexivity.
  - pose proof E as E'. apply (ku_flip _ _ _ U) in E'. rewrite E'. subst.
    unfold count_remove. simpl. rewrite Z.eqb_refl. reflexivity.
Qed.

Lemma posted_local s s' c new :
  dn s' = dn s -> q s' = q s ++ map (toev c) new -> posted s' = posted s ++ map (toev c) new.
Proof. intros D Q. unfold posted. rewrite D, Q, app_assoc. reflexivity. Qed.

Record CInv (s : st) : Prop := mkCInv {
  iA : forall c, count_remove c (posted s) = (if latch_of s c then 1 else 0)%nat /\
                 ncb_of s c = (if latch_of s c then 1 else 0);
  iB : forall c k, aget c (conns s) = Some k -> good k;
  iC2 : forall c, match aget c (conns s) with
                  | None => evs_of c (posted s) = []
                  | Some _ => exists tl, evs_of c (posted s) = EAdd c :: tl /\ ~ In (EAdd c) tl
                  end;
  iC4 : forall c k, aget c (conns s) = Some k ->
                    subseq (msgs_of c (posted s) ++ pend k) (c_arrived k)
}.

Lemma flips_cases k k' :
  (c_latch k = true -> c_latch k' = true) ->
  (if c_latch k' then 1 else 0) = (if c_latch k then 1 else 0) + (if flips k k' then 1 else 0) /\
  ((if c_latch k' then 1 else 0) = (if c_latch k then 1 else 0) + (if flips k k' then 1 else 0))%nat.
Proof.
  unfold flips. intro M. destruct (c_latch k); simpl.
  - rewrite M by reflexivity. split; reflexivity.
  - destruct (c_latch k'); split; reflexivity.
Qed.

Lemma cinv_local s s' : CInv s -> local_step s s' -> CInv s'.
Proof.
  intros I (D & F & c0 & new & Q & P & C).
  pose proof (posted_local s s' c0 new D Q) as PE.
  constructor.
  - (* A *)
    intro c. rewrite PE, count_remove_app.
    destruct (iA s I c) as (A1 & A2). specialize (C c).
    unfold latch_of, ncb_of, conn_of in *.
    destruct (aget c (conns s)) as [k|] eqn:H.
    + destruct C as (k' & H' & U). rewrite H'.
      destruct (flips_cases k k' (ku_latch _ _ _ U)) as (Z1 & N1).
      destruct (Z.eqb_spec c c0) as [E|N].
      * subst c0. rewrite (count_remove_toev c new k k' U), A1, N1, (ku_ncb _ _ _ U), A2, Z1.
        split; reflexivity.
      * destruct (evs_toev_other c c0 new N) as (_ & _ & R). rewrite R, A1.
        pose proof (kupd_nil_flips _ _ U) as F0. rewrite F0 in *.
        rewrite N1, (ku_ncb _ _ _ U), A2, Z1, F0. split; lia.
    + rewrite C. destruct (Z.eqb_spec c c0) as [E|N].
      * subst c0. destruct P as [P|(k & P)]; [subst new; simpl; rewrite A1; split; [reflexivity | exact A2] | congruence].
      * destruct (evs_toev_other c c0 new N) as (_ & _ & R). rewrite R, A1. split; [reflexivity | exact A2].
  - (* B *)
    intros c k' H'. specialize (C c). destruct (aget c (conns s)) as [k|] eqn:H; [|congruence].
    destruct C as (k2 & H2 & U). rewrite H2 in H'. inv H'.
    apply (ku_good _ _ _ U). apply (iB s I c k H).
  - (* C2 *)
    intro c. rewrite PE, evs_of_app. pose proof (iC2 s I c) as X. specialize (C c).
    destruct (aget c (conns s)) as [k|] eqn:H.
    + destruct C as (k' & H' & U). rewrite H'. destruct X as (tl & E & NI).
      destruct (Z.eqb_spec c c0) as [E0|N].
      * subst c0. exists (tl ++ evs_of c (map (toev c) new)). rewrite E. split; [reflexivity|].
        intro J. apply in_app_or in J. destruct J as [J|J]; [auto|].
        apply (proj1 (evs_toev_same c new)). exact J.
      * destruct (evs_toev_other c c0 new N) as (R & _). rewrite R, app_nil_r. exists tl. auto.
    + rewrite C. destruct (Z.eqb_spec c c0) as [E0|N].
      * subst c0. destruct P as [P|(k & P)]; [subst new; simpl; rewrite app_nil_r; exact X | congruence].
      * destruct (evs_toev_other c c0 new N) as (R & _). rewrite R, app_nil_r. exact X.
  - (* C4 *)
    intros c k' H'. specialize (C c). destruct (aget c (conns s)) as [k|] eqn:H; [|congruence].
    destruct C as (k2 & H2 & U). rewrite H2 in H'. inv H'.
    pose proof (iC4 s I c k H) as S.
    rewrite PE, msgs_of_app.
    assert (G : forall new0, kupd k k' new0 -> msgs_of c (map (toev c0) new) = kmsgs new0 ->
                             subseq ((msgs_of c (posted s) ++ msgs_of c (map (toev c0) new)) ++ pend k') (c_arrived k')).
    { intros new0 U0 E0. destruct (ku_order _ _ _ U0) as (a & Ea & Sa).
      rewrite Ea, E0, <- app_assoc.
      eapply subseq_trans; [apply subseq_app; [apply subseq_refl | exact Sa]|].
      rewrite app_assoc. apply subseq_app; [exact S | apply subseq_refl]. }
    destruct (Z.eqb_spec c c0) as [E0|N].
    + subst c0. apply (G new U). apply (proj2 (evs_toev_same c new)).
    + apply (G [] U). destruct (evs_toev_other c c0 new N) as (_ & R & _). exact R.
Qed.

Lemma good_conn0 : good conn0.
Proof. unfold good, conn0; simpl. repeat split; intros; discriminate. Qed.

Lemma evs_nil_msgs c l : evs_of c l = [] -> msgs_of c l = [].
Proof. intro E. rewrite <- msgs_of_evs, E. reflexivity. Qed.

Lemma evs_nil_count c l : evs_of c l = [] -> count_remove c l = 0%nat.
Proof.
  unfold count_remove. induction l as [|e l IH]; [reflexivity|]. simpl.
  destruct e as [c'|c' m|c']; simpl; destruct (Z.eqb c c'); simpl; try discriminate; auto.
Qed.

Lemma cinv_connect s s' c : CInv s -> connect_step s s' c -> CInv s'.
Proof.
  intros I (H & CG & Q & D & F).
  assert (PE : posted s' = posted s ++ [EAdd c]).
  { unfold posted. rewrite D, Q, app_assoc. reflexivity. }
  constructor.
  - intro c'. rewrite PE, count_remove_app. unfold latch_of, ncb_of, conn_of. rewrite CG.
    destruct (iA s I c') as (A1 & A2). unfold latch_of, ncb_of, conn_of in *.
    unfold count_remove at 2. simpl. rewrite Nat.add_0_r.
    destruct (Z.eqb_spec c' c) as [E|N].
    + subst. rewrite H in *. simpl. split; [exact A1 | reflexivity].
    + split; assumption.
  - intros c' k. rewrite CG. destruct (Z.eqb_spec c' c) as [E|N].
    + intro X. inv X. apply good_conn0.
    + apply (iB s I c').
  - intro c'. rewrite PE, evs_of_app, CG. pose proof (iC2 s I c') as X. simpl.
    destruct (Z.eqb_spec c' c) as [E|N].
    + subst. rewrite H in X. rewrite X. simpl. exists []. split; [reflexivity | tauto].
    + rewrite app_nil_r. exact X.
  - intros c' k. rewrite CG, PE, msgs_of_app. simpl. rewrite app_nil_r.
    destruct (Z.eqb_spec c' c) as [E|N].
    + intro X. inv X. pose proof (iC2 s I c) as Y. rewrite H in Y.
      rewrite (evs_nil_msgs _ _ Y). simpl. constructor.
    + apply (iC4 s I c').
Qed.

(* states that differ only in what the front has consumed / in the front itself *)
Lemma cinv_same s s' : CInv s -> conns s' = conns s -> posted s' = posted s -> CInv s'.
Proof.
  intros I C P. constructor.
  - intro c. unfold latch_of, ncb_of, conn_of. rewrite P, C. apply (iA s I).
  - intros c k. rewrite C. apply (iB s I).
  - intro c. rewrite P, C. apply (iC2 s I).
  - intros c k. rewrite P, C. apply (iC4 s I).
Qed.

Lemma cinv_init n : CInv (init_with n).
Proof.
  constructor; unfold init_with, posted, latch_of, ncb_of, conn_of; simpl.
  - intro c. split; reflexivity.
  - intros c k X. discriminate.
  - intro c. reflexivity.
  - intros c k X. discriminate.
Qed.

Lemma cinv_step s l : CInv s -> CInv (step s l).
Proof.
  intro I. destruct (step_class s l) as [L|(C & Q & D & F)|c _ C|e r E O Q|v E O].
  - eapply cinv_local; eassumption.
  - apply (cinv_same s); [exact I | exact C | unfold posted; rewrite D, Q; reflexivity].
  - eapply cinv_connect; eassumption.
  - subst. simpl. rewrite O, Q. apply (cinv_same s); [exact I | reflexivity|].
    unfold posted; simpl. rewrite Q, <- app_assoc. reflexivity.
  - subst. simpl. rewrite O. apply (cinv_same s); [exact I | reflexivity | reflexivity].
Qed.

Lemma cinv_run tr : forall s, CInv s -> CInv (run_from s tr).
Proof.
  induction tr as [|l tr IH]; intros s I; simpl; [exact I|].
  apply IH. apply cinv_step. exact I.
Qed.

(* ---- the front (D) ---- *)
Inductive aph := ANone | AOpen | ARem | ABad.

Definition astep (ph : aph) (e : ev) : aph :=
  match ph, e with
  | ANone, EAdd _ => AOpen
  | ANone, _ => ANone
  | AOpen, EAdd _ => ABad
  | AOpen, EMsg _ _ => AOpen
  | AOpen, ERemove _ => ARem
  | ARem, EAdd _ => ABad
  | ARem, _ => ARem
  | ABad, _ => ABad
  end.

Definition hout (c id : Z) (ph : aph) (e : ev) : list hev :=
  match ph, e with
  | ANone, EAdd _ => [HAdd c id]
  | AOpen, EMsg _ m => [HMsg c id m]
  | AOpen, ERemove _ => closing c id
  | _, _ => []
  end.

Fixpoint hrun (c id : Z) (ph : aph) (D : list ev) : list hev :=
  match D with
  | [] => []
  | e :: r => hout c id ph e ++ hrun c id (astep ph e) r
  end.

Definition aphase (D : list ev) : aph := fold_left astep D ANone.

Lemma hrun_snoc c id D e : forall ph,
  hrun c id ph (D ++ [e]) = hrun c id ph D ++ hout c id (fold_left astep D ph) e.
Proof.
  induction D as [|x D IH]; intro ph; simpl; [rewrite app_nil_r; reflexivity|].
  rewrite IH, app_assoc. reflexivity.
Qed.

Definition fphase (f : front) (c : Z) (D : list ev) : Prop :=
  match aphase D with
  | ANone => aget c (f_netid f) = None /\ hview c (f_hlog f) = []
  | AOpen => exists id, aget c (f_netid f) = Some id /\ aget id (f_live f) = Some c /\
                        hview c (f_hlog f) = hrun c id ANone D
  | ARem => exists id, aget c (f_netid f) = Some id /\ aget id (f_live f) = None /\
                       hview c (f_hlog f) = hrun c id ANone D
  | ABad => True
  end.

Record FInv (f : front) (dn : list ev) : Prop := mkFInv {
  f1 : forall c i, aget c (f_netid f) = Some i -> In i (f_used f) /\ i <> 0;
  f2 : forall i c, aget i (f_live f) = Some c -> aget c (f_netid f) = Some i;
  f3 : forall c1 c2 i, aget c1 (f_netid f) = Some i -> aget c2 (f_netid f) = Some i -> c1 = c2;
  f4 : forall c, fphase f c (evs_of c dn)
}.

Lemma alloc_nonzero n : alloc n <> 0.
Proof.
  unfold alloc. destruct (Z.eqb_spec ((n + 1) mod two32) 0); [discriminate | assumption].
Qed.

Lemma hview_app c a b : hview c (a ++ b) = hview c a ++ hview c b.
Proof. unfold hview. apply filter_app. Qed.

Lemma ev_of_other c e : ev_of c e = false -> forall D, evs_of c (D ++ [e]) = evs_of c D.
Proof. intros E D. rewrite evs_of_app. simpl. rewrite E. apply app_nil_r. Qed.

Lemma ev_of_same c e : ev_of c e = true -> forall D, evs_of c (D ++ [e]) = evs_of c D ++ [e].
Proof. intros E D. rewrite evs_of_app. simpl. rewrite E. reflexivity. Qed.

(* the session a live id points to is the one that carries this id *)
Lemma live_lookup f dn c id c' :
  FInv f dn -> netid_of f c = id -> aget id (f_live f) = Some c' ->
  c' = c /\ aget c (f_netid f) = Some id.
Proof.
  intros I E L. pose proof (f2 f dn I id c' L) as N'.
  unfold netid_of in E. destruct (aget c (f_netid f)) as [i|] eqn:N.
  - subst i. split; [eapply (f3 f dn I); eassumption | reflexivity].
  - subst id. destruct (f1 f dn I c' 0 N') as (_ & X). contradiction.
Qed.

Lemma no_add_phase D : (forall c, ~ In (EAdd c) D) -> aphase D = ANone.
Proof.
  unfold aphase. induction D as [|e D IH] using rev_ind; intro H; [reflexivity|].
  rewrite fold_left_app. simpl. rewrite IH.
  - destruct e; [exfalso; apply (H c); apply in_or_app; right; left; reflexivity | reflexivity | reflexivity].
  - intros c I. apply (H c). apply in_or_app. left. exact I.
Qed.

Lemma evs_of_In c e D : In e (evs_of c D) -> In e D.
Proof. unfold evs_of. intro H. apply filter_In in H. tauto. Qed.

Lemma evs_of_only c D c' : In (EAdd c') (evs_of c D) -> c' = c.
Proof.
  unfold evs_of. intro H. apply filter_In in H. destruct H as (_ & E). simpl in E.
  apply Z.eqb_eq in E. auto.
Qed.

Lemma finv_event f dn e :
  FInv f dn ->
  (forall c, e = EAdd c -> ~ In (EAdd c) dn) ->
  f_reused (front_ev f e) = false ->
  FInv (front_ev f e) (dn ++ [e]).
Proof.
  intros I NA NR. destruct e as [ce|ce m|ce].
  - (* EAdd *)
    simpl in NR. apply orb_false_iff in NR. destruct NR as (_ & Fresh).
    assert (NU : ~ In (alloc (f_next f)) (f_used f)).
    { intro J. apply zmem_In in J. congruence. }
    set (id := alloc (f_next f)) in *.
    assert (N0 : aget ce (f_netid f) = None).
    { pose proof (f4 f dn I ce) as P. unfold fphase in P.
      rewrite no_add_phase in P; [tauto|].
      intros c J. pose proof (evs_of_only _ _ _ J). subst c.
      apply (NA ce eq_refl). eapply evs_of_In. exact J. }
    constructor; simpl; fold id.
    + intros c i. rewrite aget_aset. destruct (Z.eqb_spec c ce) as [E|N].
      * intro X. inv X. split; [left; reflexivity | apply alloc_nonzero].
      * intro X. destruct (f1 f dn I c i X). split; [right; assumption | assumption].
    + intros i c. rewrite !aget_aset. destruct (Z.eqb_spec i id) as [E|N].
      * intro X. assert (EC : c = ce) by congruence. rewrite EC, Z.eqb_refl, E. reflexivity.
      * intro X. pose proof (f2 f dn I i c X) as Y.
        destruct (Z.eqb_spec c ce) as [E2|N2]; [subst; congruence | exact Y].
    + intros c1 c2 i. rewrite !aget_aset.
      destruct (Z.eqb_spec c1 ce) as [E1|N1]; destruct (Z.eqb_spec c2 ce) as [E2|N2]; intros X Y.
      * congruence.
      * inv X. exfalso. apply NU. apply (f1 f dn I c2 _ Y).
      * inv Y. exfalso. apply NU. apply (f1 f dn I c1 _ X).
      * eapply (f3 f dn I); eassumption.
    + intro c. pose proof (f4 f dn I c) as P. unfold fphase in *. simpl.
      rewrite hview_app. simpl.
      destruct (Z.eqb_spec c ce) as [E|N].
      * subst c.
        assert (G : forall c, ~ In (EAdd c) (evs_of ce dn)).
        { intros c J. pose proof (evs_of_only _ _ _ J). subst c.
          apply (NA ce eq_refl). eapply evs_of_In. exact J. }
        assert (PH : aphase (evs_of ce dn) = ANone) by (apply no_add_phase; exact G).
        rewrite PH in P. destruct P as (P1 & P2).
        rewrite ev_of_same by (simpl; apply Z.eqb_refl).
        assert (PH' : aphase (evs_of ce dn ++ [EAdd ce]) = AOpen).
        { unfold aphase in *. rewrite fold_left_app, PH. reflexivity. }
        rewrite PH'. exists id. rewrite !aget_aset_same.
        split; [reflexivity|]. split; [reflexivity|].
        rewrite hrun_snoc. fold (aphase (evs_of ce dn)). rewrite PH. simpl. rewrite P2.
        assert (HR : hrun ce id ANone (evs_of ce dn) = []).
        { clear - G. induction (evs_of ce dn) as [|x D IH]; [reflexivity|]. simpl.
          destruct x; [exfalso; apply (G c); left; reflexivity | |]; simpl;
            apply IH; intros c1 J; apply (G c1); right; exact J. }
        rewrite HR. reflexivity.
      * rewrite ev_of_other by (simpl; apply Z.eqb_neq; exact N).
        rewrite app_nil_r.
        assert (NN : aget c (aset ce id (f_netid f)) = aget c (f_netid f)) by (apply aget_aset_other; exact N).
        rewrite NN.
        destruct (aphase (evs_of c dn)); auto.
        -- destruct P as (i & P1 & P2 & P3). exists i.
           assert (i <> id) by (intro; subst; apply NU; apply (f1 f dn I c _ P1)).
           rewrite aget_aset_other by assumption. auto.
        -- destruct P as (i & P1 & P2 & P3). exists i.
           assert (i <> id) by (intro; subst; apply NU; apply (f1 f dn I c _ P1)).
           rewrite aget_aset_other by assumption. auto.
  - (* EMsg *)
    simpl in *. destruct (aget (netid_of f ce) (f_live f)) as [c'|] eqn:L.
    + destruct (live_lookup f dn ce _ c' I eq_refl L) as (E & N). subst c'.
      set (id := netid_of f ce) in *.
      constructor; simpl; try apply I.
      intro c. pose proof (f4 f dn I c) as P. unfold fphase in *. simpl. rewrite hview_app. simpl.
      destruct (Z.eqb_spec c ce) as [E|N'].
      * subst c. rewrite ev_of_same by (simpl; apply Z.eqb_refl).
        unfold aphase in *. rewrite fold_left_app. simpl.
        destruct (fold_left astep (evs_of ce dn) ANone) eqn:PH; simpl.
        -- destruct P as (P1 & _). congruence.
        -- destruct P as (i & P1 & P2 & P3). exists i.
           split; [exact P1|]. split; [exact P2|].
           rewrite hrun_snoc, PH, P3. simpl.
           assert (EI : i = id) by congruence. rewrite EI. reflexivity.
        -- destruct P as (i & P1 & P2 & P3). assert (i = id) by congruence. subst i. congruence.
        -- exact Logic.I.
      * rewrite ev_of_other by (simpl; apply Z.eqb_neq; exact N'). rewrite app_nil_r. exact P.
    + constructor; try apply I.
      intro c. pose proof (f4 f dn I c) as P. unfold fphase in *.
      destruct (Z.eqb_spec c ce) as [E|N'].
      * subst c. rewrite ev_of_same by (simpl; apply Z.eqb_refl).
        unfold aphase in *. rewrite fold_left_app. simpl.
        destruct (fold_left astep (evs_of ce dn) ANone) eqn:PH; simpl; auto.
        -- destruct P as (i & P1 & P2 & P3). unfold netid_of in L. rewrite P1 in L. congruence.
        -- destruct P as (i & P1 & P2 & P3). exists i. split; [exact P1|]. split; [exact P2|].
           rewrite hrun_snoc, PH. simpl. rewrite app_nil_r. exact P3.
      * rewrite ev_of_other by (simpl; apply Z.eqb_neq; exact N'). exact P.
  - (* ERemove *)
    simpl in *. destruct (aget (netid_of f ce) (f_live f)) as [c'|] eqn:L.
    + destruct (live_lookup f dn ce _ c' I eq_refl L) as (E & N). subst c'.
      set (id := netid_of f ce) in *.
      constructor; simpl; try apply I.
      * intros i c. rewrite aget_adel. destruct (Z.eqb i id); [discriminate | apply (f2 f dn I)].
      * intro c. pose proof (f4 f dn I c) as P. unfold fphase in *. simpl. rewrite hview_app. simpl.
        destruct (Z.eqb_spec c ce) as [E|N'].
        -- subst c. rewrite ev_of_same by (simpl; apply Z.eqb_refl).
           unfold aphase in *. rewrite fold_left_app. simpl.
           destruct (fold_left astep (evs_of ce dn) ANone) eqn:PH; simpl.
           ++ destruct P as (P1 & _). congruence.
           ++ destruct P as (i & P1 & P2 & P3). exists i.
              assert (EI : i = id) by congruence.
              split; [exact P1|]. split; [rewrite EI; apply aget_adel_same|].
              rewrite hrun_snoc, PH, P3. simpl. rewrite EI. reflexivity.
           ++ destruct P as (i & P1 & P2 & P3). assert (i = id) by congruence. subst i. congruence.
           ++ exact Logic.I.
        -- rewrite ev_of_other by (simpl; apply Z.eqb_neq; exact N'). rewrite app_nil_r.
           destruct (aphase (evs_of c dn)); auto.
           ++ destruct P as (i & P1 & P2 & P3). exists i.
              assert (i <> id) by (intro; subst i; apply N'; eapply (f3 f dn I); eassumption).
              rewrite aget_adel_other by assumption. auto.
           ++ destruct P as (i & P1 & P2 & P3). exists i.
              assert (i <> id) by (intro; subst i; apply N'; eapply (f3 f dn I); eassumption).
              rewrite aget_adel_other by assumption. auto.
    + constructor; try apply I.
      intro c. pose proof (f4 f dn I c) as P. unfold fphase in *.
      destruct (Z.eqb_spec c ce) as [E|N'].
      * subst c. rewrite ev_of_same by (simpl; apply Z.eqb_refl).
        unfold aphase in *. rewrite fold_left_app. simpl.
        destruct (fold_left astep (evs_of ce dn) ANone) eqn:PH; simpl; auto.
        -- destruct P as (i & P1 & P2 & P3). unfold netid_of in L. rewrite P1 in L. congruence.
        -- destruct P as (i & P1 & P2 & P3). exists i. split; [exact P1|]. split; [exact P2|].
           rewrite hrun_snoc, PH. simpl. rewrite app_nil_r. exact P3.
      * rewrite ev_of_other by (simpl; apply Z.eqb_neq; exact N'). exact P.
Qed.

Lemma reused_mono f e : f_reused (front_ev f e) = false -> f_reused f = false.
Proof.
  destruct e as [c|c m|c]; simpl.
  - intro H. apply orb_false_iff in H. tauto.
  - destruct (aget (netid_of f c) (f_live f)); auto.
  - destruct (aget (netid_of f c) (f_live f)); auto.
Qed.

Lemma finv_init n : FInv (front0 n) [].
Proof.
  constructor; simpl; try (intros; discriminate).
  intro c. unfold fphase. simpl. split; reflexivity.
Qed.

Lemma finv_next f dn v :
  FInv f dn -> FInv (mkFront v (f_live f) (f_netid f) (f_hlog f) (f_used f) (f_reused f)) dn.
Proof.
  intro I. constructor; simpl; try apply I.
Qed.

Definition DInv (s : st) : Prop := f_reused (fr s) = false -> FInv (fr s) (dn s).

Lemma add_not_consumed s c r :
  CInv s -> q s = EAdd c :: r -> ~ In (EAdd c) (dn s).
Proof.
  intros I Q J. pose proof (iC2 s I c) as X.
  assert (P : evs_of c (posted s) = evs_of c (dn s) ++ EAdd c :: evs_of c r).
  { unfold posted. rewrite Q, evs_of_app. simpl. rewrite Z.eqb_refl. reflexivity. }
  rewrite P in X.
  assert (J' : In (EAdd c) (evs_of c (dn s))).
  { unfold evs_of. apply filter_In. split; [exact J | simpl; apply Z.eqb_refl]. }
  destruct (aget c (conns s)).
  - destruct X as (tl & E & NI). destruct (evs_of c (dn s)) as [|x D]; [contradiction|].
    simpl in E. inv E. apply NI. apply in_or_app. right. left. reflexivity.
  - destruct (evs_of c (dn s)); [contradiction | discriminate].
Qed.

Lemma dinv_step s l : CInv s -> DInv s -> DInv (step s l).
Proof.
  intros I D. destruct (step_class s l) as [(D1 & F1 & _)|(_ & _ & D1 & F1)|c _ (_ & _ & _ & D1 & F1)|e r E O Q|v E O];
    unfold DInv in *.
  - rewrite D1, F1. exact D.
  - rewrite D1, F1. exact D.
  - rewrite D1, F1. exact D.
  - subst. simpl. rewrite O, Q. simpl. intro NR.
    apply finv_event; [apply D; eapply reused_mono; exact NR | | exact NR].
    intros c Ee. subst e. eapply add_not_consumed; eassumption.
  - subst. simpl. rewrite O. simpl. intro NR. apply finv_next. apply D. exact NR.
Qed.

Lemma inv_run tr : forall s, CInv s -> DInv s -> CInv (run_from s tr) /\ DInv (run_from s tr).
Proof.
  induction tr as [|l tr IH]; intros s I D; simpl; [split; assumption|].
  apply IH; [apply cinv_step; exact I | apply dinv_step; assumption].
Qed.

Lemma inv_reach n tr :
  CInv (run_from (init_with n) tr) /\ DInv (run_from (init_with n) tr).
Proof.
  apply inv_run; [apply cinv_init | intros _; apply finv_init].
Qed.

(* ---- what the automaton prints for a well-formed event list ---- *)
Lemma rem_run c id D : (forall c', ~ In (EAdd c') D) ->
  fold_left astep D ARem = ARem /\ hrun c id ARem D = [].
Proof.
  induction D as [|e D IH]; intro NA; [split; reflexivity|]. simpl.
  assert (NA' : forall c', ~ In (EAdd c') D) by (intros c' J; apply (NA c'); right; exact J).
  destruct e as [c'|c' m|c']; [exfalso; apply (NA c'); left; reflexivity | |]; simpl; apply IH; exact NA'.
Qed.

Lemma open_run c id D :
  (forall e, In e D -> ev_of c e = true) -> (forall c', ~ In (EAdd c') D) ->
  (fold_left astep D AOpen = AOpen /\ count_remove c D = 0%nat /\
   hrun c id AOpen D = map (HMsg c id) (msgs_of c D)) \/
  (fold_left astep D AOpen = ARem /\ (0 < count_remove c D)%nat /\
   hrun c id AOpen D = map (HMsg c id) (msgs_before_remove c D) ++ closing c id /\
   subseq (msgs_before_remove c D) (msgs_of c D)).
Proof.
  induction D as [|e D IH]; intros AC NA.
  - left. repeat split; reflexivity.
  - assert (NA' : forall c', ~ In (EAdd c') D) by (intros c' J; apply (NA c'); right; exact J).
    assert (AC' : forall e, In e D -> ev_of c e = true) by (intros x J; apply AC; right; exact J).
    pose proof (AC e (or_introl eq_refl)) as Ee.
    destruct e as [c'|c' m|c']; simpl in Ee.
    + exfalso. apply (NA c'). left. reflexivity.
    + simpl. rewrite Ee. unfold count_remove in *. simpl.
      destruct (IH AC' NA') as [(P1 & P2 & P3)|(P1 & P2 & P3 & P4)].
      * left. rewrite P1, P2, P3. repeat split; reflexivity.
      * right. rewrite P1, P3. split; [reflexivity|]. split; [exact P2|]. split; [reflexivity|].
        simpl. apply subseq_take. exact P4.
    + right. simpl. rewrite Ee. unfold count_remove. simpl. rewrite Ee. simpl.
      destruct (rem_run c id D NA') as (R1 & R2). rewrite R1, R2.
      split; [reflexivity|]. split; [lia|]. split; [reflexivity | constructor].
Qed.

Lemma evs_of_all c l e : In e (evs_of c l) -> ev_of c e = true.
Proof. unfold evs_of. intro H. apply filter_In in H. tauto. Qed.

Lemma msgs_of_prefix c a b : subseq (msgs_of c a) (msgs_of c (a ++ b)).
Proof. rewrite msgs_of_app. apply subseq_app_l. apply subseq_refl. Qed.

(* the shape of the handler log of one connection, given what has been consumed *)
Lemma hview_shape s c :
  CInv s -> FInv (fr s) (dn s) ->
  match aget c (conns s) with
  | None => hview c (hlog_of s) = [] /\ evs_of c (dn s) = []
  | Some k =>
      (hview c (hlog_of s) = [] /\ evs_of c (dn s) = []) \/
      exists id tl,
        evs_of c (dn s) = EAdd c :: tl /\ (forall c', ~ In (EAdd c') tl) /\
        aget c (f_netid (fr s)) = Some id /\
        ((count_remove c tl = 0%nat /\ aget id (f_live (fr s)) = Some c /\
          hview c (hlog_of s) = life_open c id (msgs_of c tl)) \/
         ((0 < count_remove c tl)%nat /\ aget id (f_live (fr s)) = None /\
          hview c (hlog_of s) = life_open c id (msgs_before_remove c tl) ++ closing c id /\
          subseq (msgs_before_remove c tl) (msgs_of c tl)))
  end.
Proof.
  intros I F. pose proof (iC2 s I c) as X. pose proof (f4 _ _ F c) as P.
  unfold posted in X. rewrite evs_of_app in X. unfold hlog_of. unfold fphase in P.
  destruct (aget c (conns s)) as [k|].
  - destruct X as (tl & E & NI).
    destruct (evs_of c (dn s)) as [|e D] eqn:ED.
    + left. simpl in P. tauto.
    + right. simpl in E. inv E.
      assert (NA : forall c', ~ In (EAdd c') D).
      { intros c' J. assert (c' = c).
        { apply (evs_of_only c (dn s)). rewrite ED. right. exact J. }
        subst c'. apply NI. apply in_or_app. left. exact J. }
      assert (AC : forall e, In e D -> ev_of c e = true).
      { intros e J. apply (evs_of_all c (dn s)). rewrite ED. right. exact J. }
      unfold aphase in P. simpl in P.
      destruct (open_run c 0 D AC NA) as [(P1 & P2 & _)|(P1 & P2 & _)]; rewrite P1 in P;
        destruct P as (id & P4 & P5 & P3); exists id, D; (split; [reflexivity|]); (split; [exact NA|]);
        (split; [exact P4|]); rewrite P3; unfold life_open.
      * left. split; [exact P2|]. split; [exact P5|].
        destruct (open_run c id D AC NA) as [(Q1 & Q2 & Q3)|(Q1 & _)]; [|congruence].
        rewrite Q3. reflexivity.
      * right. split; [exact P2|]. split; [exact P5|].
        destruct (open_run c id D AC NA) as [(Q1 & _)|(Q1 & Q2 & Q3 & Q4)]; [congruence|].
        rewrite Q3. split; [reflexivity | exact Q4].
  - apply app_eq_nil in X. destruct X as (X & _). rewrite X in P. simpl in P. split; tauto.
Qed.

(* ------------------------------------------------------------------ 4. theorems *)
(* single latch: what ONE step posts and does to the latch of c *)
Definition flipped (s s' : st) (c : Z) : bool := negb (latch_of s c) && latch_of s' c.

Lemma single_latch_step s l c :
  exists new,
    posted (step s l) = posted s ++ new /\
    count_remove c new = (if flipped s (step s l) c then 1 else 0)%nat /\
    ncb_of (step s l) c = ncb_of s c + (if flipped s (step s l) c then 1 else 0) /\
    (latch_of s c = true -> latch_of (step s l) c = true).
Proof.
  unfold flipped, latch_of, ncb_of, conn_of.
  assert (SAME : forall s', conns s' = conns s -> posted s' = posted s ->
    exists new, posted s' = posted s ++ new /\
      count_remove c new = (if negb match aget c (conns s) with Some k => c_latch k | None => false end
                               && match aget c (conns s') with Some k => c_latch k | None => false end then 1 else 0)%nat /\
      match aget c (conns s') with Some k => c_ncb k | None => 0 end =
      match aget c (conns s) with Some k => c_ncb k | None => 0 end +
      (if negb match aget c (conns s) with Some k => c_latch k | None => false end
          && match aget c (conns s') with Some k => c_latch k | None => false end then 1 else 0) /\
      (match aget c (conns s) with Some k => c_latch k | None => false end = true ->
       match aget c (conns s') with Some k => c_latch k | None => false end = true)).
  { intros s' C P. exists []. rewrite C, P, app_nil_r. split; [reflexivity|].
    destruct (aget c (conns s)) as [k|]; simpl;
      [destruct (c_latch k); simpl|]; (split; [reflexivity|]); (split; [lia | auto]). }
  destruct (step_class s l) as [(D & F & c0 & new & Q & P & C)|(C & Q & D & F)|c0 _ (H & C & Q & D & F)|e r E O Q|v E O].
  - exists (map (toev c0) new). split; [apply posted_local; assumption|].
    specialize (C c). destruct (aget c (conns s)) as [k|] eqn:H.
    + destruct C as (k' & H' & U). rewrite H'. fold (flips k k').
      destruct (Z.eqb_spec c c0) as [E|N].
      * subst c0. rewrite (count_remove_toev c new k k' U), (ku_ncb _ _ _ U).
        split; [reflexivity|]. split; [reflexivity | apply (ku_latch _ _ _ U)].
      * destruct (evs_toev_other c c0 new N) as (_ & _ & R). rewrite R.
        rewrite (ku_ncb _ _ _ U), (kupd_nil_flips _ _ U).
        split; [reflexivity|]. split; [reflexivity | apply (ku_latch _ _ _ U)].
    + rewrite C. simpl. destruct (Z.eqb_spec c c0) as [E|N].
      * subst c0. destruct P as [P|(k & P)]; [subst new; simpl | congruence].
        split; [reflexivity|]. split; [lia | auto].
      * destruct (evs_toev_other c c0 new N) as (_ & _ & R). rewrite R.
        split; [reflexivity|]. split; [lia | auto].
  - apply SAME; [exact C | unfold posted; rewrite D, Q; reflexivity].
  - exists [EAdd c0].
    split; [unfold posted; rewrite D, Q, app_assoc; reflexivity|].
    rewrite C.
    destruct (Z.eqb_spec c c0) as [E|N].
    + subst. rewrite H. simpl. split; [reflexivity|]. split; [reflexivity | auto].
    + destruct (aget c (conns s)) as [k|]; simpl;
        [destruct (c_latch k); simpl|]; (split; [reflexivity|]); (split; [lia | auto]).
  - subst. simpl. rewrite O, Q. apply SAME; [reflexivity|].
    unfold posted; simpl. rewrite Q, <- app_assoc. reflexivity.
  - subst. simpl. rewrite O. apply SAME; reflexivity.
Qed.

Lemma remove_once n tr c :
  let s := run_from (init_with n) tr in
  count_remove c (posted s) = (if latch_of s c then 1 else 0)%nat /\
  ncb_of s c = (if latch_of s c then 1 else 0).
Proof. simpl. destruct (inv_reach n tr) as (I & _). apply (iA _ I). Qed.

Lemma count_remove_evs c l : count_remove c (evs_of c l) = count_remove c l.
Proof.
  unfold count_remove, evs_of. induction l as [|e l IH]; [reflexivity|]. simpl.
  destruct e as [c'|c' m|c']; simpl; destruct (Z.eqb c c') eqn:E; simpl; rewrite ?E; simpl; rewrite IH; reflexivity.
Qed.

Lemma msgs_before_remove_evs c l : msgs_before_remove c (evs_of c l) = msgs_before_remove c l.
Proof.
  induction l as [|e l IH]; [reflexivity|]. simpl.
  destruct e as [c'|c' m|c']; simpl; destruct (Z.eqb c c') eqn:E; simpl; rewrite ?E; try rewrite IH; reflexivity.
Qed.

Lemma lifecycle_prefix n tr c :
  let s := run_from (init_with n) tr in
  f_reused (fr s) = false ->
  life_prefix c (hview c (hlog_of s)) (arrived_of s c).
Proof.
  simpl. intro NR. destruct (inv_reach n tr) as (I & D). specialize (D NR).
  set (s := run_from (init_with n) tr) in *.
  pose proof (hview_shape s c I D) as X. unfold arrived_of, conn_of.
  destruct (aget c (conns s)) as [k|] eqn:H.
  - destruct X as [(X & _)|(id & tl & E & NA & _ & X)]; [left; exact X|].
    right.
    assert (S : subseq (msgs_of c tl) (c_arrived k)).
    { pose proof (iC4 s I c k H) as S4. apply subseq_app_inv_r in S4.
      eapply subseq_trans; [|exact S4].
      replace (msgs_of c tl) with (msgs_of c (dn s)).
      - unfold posted. apply msgs_of_prefix.
      - rewrite <- msgs_of_evs, E. simpl. reflexivity. }
    destruct X as [(_ & _ & X)|(_ & _ & X & S2)].
    + exists id, (msgs_of c tl). split; [exact S|]. left. exact X.
    + exists id, (msgs_before_remove c tl). split; [eapply subseq_trans; eassumption|]. right. exact X.
  - left. tauto.
Qed.

(* a thread of c that is at a Close, or a reader that has EOF waiting, can move *)
Lemma set_conn_moved s c k k' :
  aget c (conns s) = Some k -> k' <> k -> set_conn c k' s <> s.
Proof.
  intros H N E. apply (f_equal (fun x => aget c (conns x))) in E. simpl in E.
  rewrite aget_aset_same, H in E. congruence.
Qed.

Lemma post_moved s e s0 : q s0 = q s -> post e s0 <> s.
Proof.
  intros Q E. apply (f_equal (fun x => length (q x))) in E. simpl in E.
  rewrite app_length, Q in E. simpl in E. lia.
Qed.

Lemma close_then_moves f s c k :
  aget c (conns s) = Some k -> c_latch k = false -> close_then f c s <> s.
Proof.
  intros H L. unfold close_then, do_close. rewrite H, L.
  assert (G : aget c (conns (post (ERemove c) (set_conn c (k_closed k) s))) = Some (k_closed k)).
  { unfold post, set_conn; simpl. apply aget_aset_same. }
  rewrite G. intro E. apply (f_equal (fun x => length (q x))) in E. simpl in E.
  rewrite app_length in E. simpl in E. lia.
Qed.

Lemma rp_neq k x : c_rp k <> x -> k_rp x k <> k.
Proof. intros N E. apply (f_equal c_rp) in E. simpl in E. congruence. Qed.

Lemma stuck_latch s c k :
  aget c (conns s) = Some k -> good k -> c_cause k = true -> stuck s c -> c_latch k = true.
Proof.
  intros H (G1 & G2 & G3 & G4) Ca St.
  destruct (c_latch k) eqn:L; [reflexivity | exfalso].
  destruct (G4 Ca) as [X|[X|[X|[X|(Xe & Xr)]]]]; [discriminate| | | |].
  - specialize (St TR). simpl in St. rewrite H in St. unfold step_R in St. rewrite X in St.
    revert St. apply (close_then_moves (k_rp RDone) s c k H L).
  - specialize (St TW). simpl in St. rewrite H in St. unfold step_W in St. rewrite X in St.
    revert St. apply (close_then_moves (k_wp WDone) s c k H L).
  - specialize (St TH). simpl in St. rewrite H in St. unfold step_H in St. rewrite X in St.
    revert St. apply (close_then_moves (k_hp HLoop) s c k H L).
  - specialize (St TR). simpl in St. rewrite H in St. unfold step_R in St.
    destruct (c_rp k) eqn:R.
    + revert St. apply set_conn_moved with k; [exact H|]. apply rp_neq. rewrite R.
      destruct (c_status k); discriminate.
    + rewrite L in St. destruct (c_inbox k) as [|p r] eqn:Hin.
      * rewrite Xe in St. revert St. apply set_conn_moved with k; [exact H|]. apply rp_neq. rewrite R. discriminate.
      * revert St. destruct p; (apply set_conn_moved with k; [exact H|]);
          intro E; apply (f_equal c_rp) in E; simpl in E; congruence.
    + revert St. unfold stalled. rewrite Xe. cbn [negb andb].
      destruct p; repeat match goal with |- context [if ?b then _ else _] => destruct b end;
        try (apply post_moved; reflexivity);
        (apply set_conn_moved with k; [exact H|]);
        intro E; apply (f_equal c_rp) in E; simpl in E; congruence.
    + revert St. apply (close_then_moves (k_rp RDone) s c k H L).
    + contradiction.
Qed.

Lemma lifecycle_end n tr c :
  let s := run_from (init_with n) tr in
  f_reused (fr s) = false ->
  cause_of s c = true -> stuck s c -> q s = [] ->
  latch_of s c = true /\ ncb_of s c = 1 /\
  exists id,
    hview c (hlog_of s) =
    life_open c id (msgs_before_remove c (posted s)) ++ closing c id /\
    subseq (msgs_before_remove c (posted s)) (arrived_of s c).
Proof.
  simpl. intros NR Ca St Q. destruct (inv_reach n tr) as (I & D). specialize (D NR).
  set (s := run_from (init_with n) tr) in *.
  unfold cause_of, latch_of, ncb_of, arrived_of, conn_of in *.
  destruct (aget c (conns s)) as [k|] eqn:H; [|discriminate].
  pose proof (stuck_latch s c k H (iB s I c k H) Ca St) as L.
  destruct (iA s I c) as (A1 & A2). unfold latch_of, ncb_of, conn_of in A1, A2. rewrite H, L in A1, A2.
  split; [exact L|]. split; [exact A2|].
  assert (PD : posted s = dn s) by (unfold posted; rewrite Q; apply app_nil_r).
  pose proof (hview_shape s c I D) as X. rewrite H in X.
  rewrite PD in *.
  destruct X as [(_ & X)|(id & tl & E & NA & _ & X)].
  - rewrite <- count_remove_evs, X in A1. discriminate.
  - assert (CT : count_remove c tl = 1%nat).
    { rewrite <- count_remove_evs, E in A1. unfold count_remove in *. simpl in A1. exact A1. }
    assert (MB : msgs_before_remove c (dn s) = msgs_before_remove c tl).
    { rewrite <- msgs_before_remove_evs, E. reflexivity. }
    destruct X as [(X & _)|(_ & _ & X & S2)]; [lia|].
    exists id. rewrite MB. split; [exact X|].
    eapply subseq_trans; [exact S2|].
    pose proof (iC4 s I c k H) as S4. apply subseq_app_inv_r in S4. rewrite PD in S4.
    replace (msgs_of c tl) with (msgs_of c (dn s)); [exact S4|].
    rewrite <- msgs_of_evs, E. reflexivity.
Qed.

(* ---- pushes ---- *)
Lemma removed_dead n tr c id g :
  let s := run_from (init_with n) tr in
  f_reused (fr s) = false -> In (HRemove c id g) (hlog_of s) ->
  target_of s c = None.
Proof.
  simpl. intros NR J. destruct (inv_reach n tr) as (I & D). specialize (D NR).
  set (s := run_from (init_with n) tr) in *.
  assert (J' : In (HRemove c id g) (hview c (hlog_of s))).
  { unfold hview. apply filter_In. split; [exact J | simpl; apply Z.eqb_refl]. }
  pose proof (hview_shape s c I D) as X. unfold target_of.
  destruct (aget c (conns s)) as [k|].
  - destruct X as [(X & _)|(id' & tl & _ & _ & N & [(_ & _ & X)|(_ & L & _)])].
    + rewrite X in J'. contradiction.
    + rewrite X in J'. unfold life_open in J'. destruct J' as [J'|J']; [discriminate|].
      apply in_map_iff in J'. destruct J' as (m & E & _). discriminate.
    + rewrite N. exact L.
  - destruct X as (X & _). rewrite X in J'. contradiction.
Qed.

(* the owning service, in the middle of a PushMsg, reaches a target whose session was removed:
   the push is dropped - the service moves on to the next target and NOTHING else changes *)
Lemma push_after_remove n tr c id g rest :
  let s := run_from (init_with n) tr in
  f_reused (fr s) = false -> In (HRemove c id g) (hlog_of s) ->
  own s = c :: rest -> step s LOwner = s_own rest s.
Proof.
  simpl. intros NR J O. pose proof (removed_dead n tr c id g NR J) as T. simpl in T.
  unfold step_owner. rewrite O, T. reflexivity.
Qed.

(* a push step touches one connection at most (queue and counters), never the service's
   queue, the front or the clock *)
Lemma owner_frame s c' :
  (forall c rest, own s = c :: rest -> target_of s c <> Some c') ->
  aget c' (conns (step s LOwner)) = aget c' (conns s).
Proof.
  intro H. simpl. unfold step_owner. destruct (own s) as [|c rest] eqn:O; [reflexivity|].
  destruct (target_of s c) as [c2|] eqn:T; [|reflexivity].
  destruct (aget c2 (conns s)) as [k|]; [|reflexivity].
  destruct (push_k k) as [k'|]; [|reflexivity].
  simpl. apply aget_aset_other. intro E. subst c2. apply (H c rest eq_refl). exact T.
Qed.

Lemma owner_quiet_all s :
  let s' := step s LOwner in
  q s' = q s /\ dn s' = dn s /\ fr s' = fr s /\ now s' = now s.
Proof.
  simpl. unfold step_owner. destruct (own s) as [|c rest]; [repeat split|].
  destruct (target_of s c) as [c2|]; [|repeat split].
  destruct (aget c2 (conns s)) as [k|]; [|repeat split].
  destruct (push_k k) as [k'|]; repeat split.
Qed.

(* ---- senders and the closed queue ---- *)
Lemma push_k_closed k : c_latch k = true -> exists k', push_k k = Some k' /\ c_sendq k' = c_sendq k /\
                                                     c_npush k' = c_npush k + 1.
Proof.
  intro L. unfold push_k. rewrite L. destruct (c_status k); eexists; (split; [reflexivity|]); split; reflexivity.
Qed.

Lemma push_k_parked k : push_k k = None <->
  (c_status k <> SClosed /\ c_latch k = false /\ chcap <= c_nq k).
Proof.
  unfold push_k. destruct (c_status k) eqn:St; try destruct (c_latch k) eqn:L;
    try destruct (Z.ltb_spec (c_nq k) chcap);
    split; try discriminate; try (intros (A & B & C); try congruence; try lia);
    intros _; repeat split; try discriminate; lia.
Qed.

(* after Close() no sender stays parked on this connection's queue: the flood goroutine's
   next step returns one push (dropped), a heartbeat send returns, the owning service moves on *)
Lemma closed_never_blocks s c k :
  aget c (conns s) = Some k -> c_latch k = true ->
  (0 < c_pp k -> exists k', aget c (conns (step s (LStep c TP))) = Some k' /\
                            c_pp k' = c_pp k - 1 /\ c_npush k' = c_npush k + 1 /\
                            c_sendq k' = c_sendq k) /\
  (c_hp k = HSend -> exists k', aget c (conns (step s (LStep c TH))) = Some k' /\
                                c_hp k' = HLoop /\ c_sendq k' = c_sendq k) /\
  (forall c0 rest, own s = c0 :: rest -> target_of s c0 = Some c -> own (step s LOwner) = rest).
Proof.
  intros H L. destruct (push_k_closed k L) as (k1 & P & Q1 & Q2). split; [|split].
  - intro PP. simpl. rewrite H. unfold step_P.
    destruct (Z.ltb_spec 0 (c_pp k)); [|lia]. rewrite P.
    exists (k_pp (c_pp k - 1) k1). simpl. rewrite aget_aset_same. repeat split; assumption.
  - intro HS. simpl. rewrite H. unfold step_H. rewrite HS, L.
    exists (k_hp HLoop k). simpl. rewrite aget_aset_same. repeat split.
  - intros c0 rest O T. simpl. unfold step_owner. rewrite O, T, H, P. reflexivity.
Qed.

(* ---- id allocation ---- *)
Fixpoint allocn (k : nat) (n : Z) : Z :=
  match k with O => n | S k' => alloc (allocn k' n) end.

Lemma alloc_closed n : 0 <= n <= M32 -> alloc n = n mod M32 + 1 /\ 1 <= alloc n <= M32.
Proof.
  unfold alloc, M32, two32. intro H.
  destruct (Z.eqb_spec ((n + 1) mod 4294967296) 0); lia.
Qed.

Lemma allocn_closed k n : 0 <= n <= M32 ->
  allocn (S k) n = nth_id n (Z.of_nat (S k)) /\ 1 <= allocn (S k) n <= M32.
Proof.
  intro H. induction k as [|k (IH1 & IH2)].
  - simpl allocn. destruct (alloc_closed n H) as (A1 & A2). split; [|exact A2].
    rewrite A1. unfold nth_id. f_equal. f_equal. lia.
  - change (allocn (S (S k)) n) with (alloc (allocn (S k) n)).
    destruct (alloc_closed (allocn (S k) n)) as (A1 & A2); [lia|]. split; [|exact A2].
    rewrite A1, IH1.
    replace (Z.of_nat (S (S k))) with (Z.of_nat (S k) + 1) by lia.
    unfold nth_id, M32, two32 in *. clear IH1 IH2 A1 A2.
    generalize (Z.of_nat (S k)). intro j. lia.
Qed.

Lemma nth_id_distinct n j1 j2 :
  0 <= j1 < j2 -> j2 - j1 < M32 -> nth_id n j1 <> nth_id n j2.
Proof. unfold nth_id, M32, two32. lia. Qed.

Definition ids_of (s : st) : list Z := add_ids (hlog_of s).

Lemma add_ids_app a b : add_ids (a ++ b) = add_ids a ++ add_ids b.
Proof. unfold add_ids. apply flat_map_app. Qed.

(* the ids handed out are the successive values of the counter; used = the same, reversed *)
Record AInv (n : Z) (f : front) : Prop := mkAInv {
  a_next : f_next f = allocn (length (add_ids (f_hlog f))) n;
  a_ids : add_ids (f_hlog f) = map (fun j => allocn (S j) n) (seq 0 (length (add_ids (f_hlog f))));
  a_used : f_used f = rev (add_ids (f_hlog f));
  a_fresh : NoDup (add_ids (f_hlog f)) -> f_reused f = false
}.

Lemma ainv_event n f e : AInv n f -> AInv n (front_ev f e).
Proof.
  intro I. destruct e as [c|c m|c]; simpl.
  - assert (L : length (add_ids (f_hlog f ++ [HAdd c (alloc (f_next f))])) = S (length (add_ids (f_hlog f)))).
    { rewrite add_ids_app, app_length. simpl. apply Nat.add_1_r. }
    constructor; cbn [f_next f_hlog f_used f_reused].
    + rewrite L. cbn [allocn]. rewrite <- (a_next n f I). reflexivity.
    + rewrite L. rewrite seq_S, map_app, Nat.add_0_l.
      rewrite <- (a_ids n f I). change (map (fun j => allocn (S j) n) [length (add_ids (f_hlog f))])
        with [alloc (allocn (length (add_ids (f_hlog f))) n)].
      rewrite <- (a_next n f I). apply add_ids_app.
    + rewrite add_ids_app, rev_app_distr. simpl. rewrite (a_used n f I). reflexivity.
    + rewrite add_ids_app. simpl. intro ND. apply NoDup_remove in ND. rewrite app_nil_r in ND.
      destruct ND as (ND & NI). rewrite (a_fresh n f I ND). simpl.
      destruct (zmem (alloc (f_next f)) (f_used f)) eqn:Z; [|reflexivity].
      apply zmem_In in Z. rewrite (a_used n f I), <- in_rev in Z. contradiction.
  - destruct (aget (netid_of f c) (f_live f)); [|exact I].
    constructor; simpl; rewrite ?add_ids_app; simpl; rewrite ?app_nil_r; apply I.
  - destruct (aget (netid_of f c) (f_live f)); [|exact I].
    constructor; simpl; rewrite ?add_ids_app; simpl; rewrite ?app_nil_r; apply I.
Qed.

Lemma no_setnext_cons l tr : no_setnext (l :: tr) -> no_setnext tr.
Proof. intros H v J. apply (H v). right. exact J. Qed.

Lemma ainv_run n tr : forall s, no_setnext tr -> AInv n (fr s) -> AInv n (fr (run_from s tr)).
Proof.
  induction tr as [|l tr IH]; intros s NS I; simpl; [exact I|].
  apply IH; [eapply no_setnext_cons; exact NS|].
  destruct (step_class s l) as [(_ & F & _)|(_ & _ & _ & F)|c _ (_ & _ & _ & _ & F)|e r E O Q|v E O].
  - rewrite F. exact I.
  - rewrite F. exact I.
  - rewrite F. exact I.
  - subst. simpl. rewrite O, Q. simpl. apply ainv_event. exact I.
  - exfalso. apply (NS v). left. exact E.
Qed.

Lemma ainv_reach n tr : no_setnext tr -> AInv n (fr (run_from (init_with n) tr)).
Proof.
  intro NS. apply ainv_run; [exact NS|]. constructor; simpl; auto.
Qed.

Lemma nth_map_seq (f : nat -> Z) k i d : (i < k)%nat -> nth i (map f (seq 0 k)) d = f i.
Proof.
  intro H. rewrite nth_indep with (d' := f 0%nat) by (rewrite map_length, seq_length; exact H).
  rewrite map_nth, seq_nth by exact H. reflexivity.
Qed.

Lemma ids_sequence n tr j :
  0 <= n <= M32 -> no_setnext tr ->
  0 <= j < Z.of_nat (length (ids_of (run_from (init_with n) tr))) ->
  zth (ids_of (run_from (init_with n) tr)) j = nth_id n (j + 1).
Proof.
  intros Hn NS Hj. pose proof (ainv_reach n tr NS) as I.
  unfold ids_of, hlog_of in *. pose proof (a_ids _ _ I) as AI.
  remember (add_ids (f_hlog (fr (run_from (init_with n) tr)))) as ids eqn:Eids.
  unfold zth. rewrite AI.
  rewrite nth_map_seq by lia.
  destruct (allocn_closed (Z.to_nat j) n Hn) as (A & _). rewrite A. f_equal. lia.
Qed.

Lemma ids_unique n tr j1 j2 :
  0 <= n <= M32 -> no_setnext tr ->
  0 <= j1 < j2 -> j2 < Z.of_nat (length (ids_of (run_from (init_with n) tr))) ->
  j2 - j1 < M32 ->
  zth (ids_of (run_from (init_with n) tr)) j1 <> zth (ids_of (run_from (init_with n) tr)) j2.
Proof.
  intros Hn NS H1 H2 H3.
  rewrite !ids_sequence by (try assumption; lia).
  apply nth_id_distinct; lia.
Qed.

Lemma fresh_if_few n tr :
  0 <= n <= M32 -> no_setnext tr ->
  Z.of_nat (length (ids_of (run_from (init_with n) tr))) <= M32 ->
  f_reused (fr (run_from (init_with n) tr)) = false.
Proof.
  intros Hn NS Len. pose proof (ainv_reach n tr NS) as I. apply (a_fresh _ _ I).
  fold (hlog_of (run_from (init_with n) tr)). fold (ids_of (run_from (init_with n) tr)).
  apply (NoDup_nth _ 0). intros i j Hi Hj E.
  destruct (Nat.eq_dec i j) as [|N]; [assumption | exfalso].
  assert (W : forall a b, (a < b)%nat -> (b < length (ids_of (run_from (init_with n) tr)))%nat ->
                          nth a (ids_of (run_from (init_with n) tr)) 0 <> nth b (ids_of (run_from (init_with n) tr)) 0).
  { intros a b Hab Hb. pose proof (ids_unique n tr (Z.of_nat a) (Z.of_nat b) Hn NS) as U.
    unfold zth in U. rewrite !Nat2Z.id in U. apply U; lia. }
  destruct (Nat.lt_ge_cases i j) as [L|G].
  - apply (W i j L Hj). exact E.
  - apply (W j i); [lia | exact Hi | symmetry; exact E].
Qed.

(* ---- the harness operations are schedules of the model ---- *)
Definition reachable (s : st) : Prop := exists tr, s = run tr.

Lemma reach_step s l : reachable s -> reachable (step s l).
Proof.
  intros (tr & E). exists (tr ++ [l]). unfold run, run_from in *. rewrite fold_left_app, <- E. reflexivity.
Qed.

Lemma reach_fold {X} (f : st -> X -> st) (l : list X) :
  (forall s x, reachable s -> reachable (f s x)) -> forall s, reachable s -> reachable (fold_left f l s).
Proof.
  intro H. induction l as [|x l IH]; intros s R; simpl; [exact R | apply IH, H, R].
Qed.

Lemma reach_steps ls : forall s, reachable s -> reachable (fold_left step ls s).
Proof. apply reach_fold. intros s x. apply reach_step. Qed.

Lemma reach_settle_conn n c : forall s, reachable s -> reachable (settle_conn_n n c s).
Proof.
  induction n as [|n IH]; intros s R; cbn [settle_conn_n]; [exact R|].
  destruct (aget c (conns s)) as [k|]; [|exact R].
  apply IH. apply reach_steps. exact R.
Qed.

Lemma reach_settle_H c s : reachable s -> reachable (settle_H c s).
Proof.
  intro R. unfold settle_H. destruct (aget c (conns s)) as [k|]; [|exact R].
  destruct (c_latch k); [repeat apply reach_step|]; exact R.
Qed.

Lemma reach_settle_phase c s : reachable s -> reachable (settle_phase c s).
Proof.
  intro R. unfold settle_phase. destruct (aget c (conns s)) as [k|]; [|exact R].
  apply reach_settle_conn. exact R.
Qed.

Lemma reach_settle_one c s : reachable s -> reachable (settle_one c s).
Proof.
  intro R. unfold settle_one.
  apply reach_settle_H. repeat apply reach_settle_phase. apply reach_settle_conn. exact R.
Qed.

Lemma reach_iter n l : forall s, reachable s -> reachable (iter_label n l s).
Proof.
  induction n as [|n IH]; intros s R; cbn [iter_label]; [exact R|]. apply IH. apply reach_step. exact R.
Qed.

Lemma reach_settle_pass s : reachable s -> reachable (settle_pass s).
Proof.
  intro R. unfold settle_pass. apply reach_fold.
  - intros s0 ck R0. apply reach_settle_one. exact R0.
  - repeat apply reach_iter. exact R.
Qed.

Lemma reach_settle_all s : reachable s -> reachable (settle_all s).
Proof. intro R. unfold settle_all. repeat apply reach_settle_pass. exact R. Qed.

Lemma reach_settle_after c s0 s1 : reachable s1 -> reachable (settle_after c s0 s1).
Proof.
  intro R. unfold settle_after. destruct (own s0); [destruct (own s1)|];
    [apply reach_settle_one | apply reach_settle_all | apply reach_settle_all]; exact R.
Qed.

Lemma reach_simple s o : reachable s -> reachable (exec_simple s o).
Proof.
  intro R. destruct o; cbn [exec_simple]; try exact R; try (apply reach_step; exact R).
  - destruct (aget c (conns s)) as [k|]; [|exact R].
    destruct (c_rp k); try exact R. apply reach_step. exact R.
  - destruct (aget c (conns s)) as [k|]; [|exact R].
    destruct (c_latch k); [exact R|].
    destruct (hp_of (step s (LStep c TH)) c); repeat apply reach_step; exact R.
Qed.

Lemma reach_drain k : forall s, reachable s -> reachable (drain k s).
Proof.
  induction k as [|k IH]; intros s R; cbn [drain]; [exact R|].
  destruct (q s); [exact R|]. apply IH. apply reach_step. exact R.
Qed.

Lemma reach_op1 s o : reachable s -> reachable (exec_op1 s o).
Proof.
  intro R. destruct o; cbn [exec_op1]; try exact R;
    try (apply reach_settle_after; first [apply reach_step | apply reach_simple]; exact R);
    try (apply reach_settle_all; first [apply reach_step | apply reach_simple]; exact R);
    try (apply reach_step; exact R).
  - apply reach_drain. exact R.
  - apply reach_settle_all. apply reach_fold; [|exact R]. intros s0 x. apply reach_simple.
  - apply reach_settle_all. apply reach_fold; [|exact R]. intros s0 x. apply reach_simple.
Qed.

Lemma reach_op s o : reachable s -> reachable (exec_op s o).
Proof.
  intro R. destruct o; try (apply reach_op1; exact R);
    (cbn [exec_op]; apply reach_fold; [|exact R]; intros s0 x; apply reach_op1).
Qed.

Lemma exec_ops_reachable ops : exists tr, exec_ops ops = run tr.
Proof.
  unfold exec_ops. apply (reach_fold exec_op ops reach_op). exists []. reflexivity.
Qed.

Lemma exec_ops_alt_reachable ops : exists tr, exec_ops_alt ops = run tr.
Proof.
  unfold exec_ops_alt. apply (reach_fold exec_op_alt ops); [|exists []; reflexivity].
  intros s o R. destruct o; try (apply reach_op; exact R).
  cbn [exec_op_alt]. apply reach_settle_all. apply reach_fold; [|exact R]. intros s0 x. apply reach_simple.
Qed.

(* ---- the executable life-cycle check is the life-cycle predicate ---- *)
Lemma hmsgs_open c id ms : hmsgs (map (HMsg c id) ms) = ms.
Proof. induction ms as [|m ms IH]; [reflexivity | simpl; rewrite IH; reflexivity]. Qed.

Lemma phase_open_run c id ms tail :
  phase_run c (PhOpen id) (map (HMsg c id) ms ++ tail) = phase_run c (PhOpen id) tail.
Proof.
  induction ms as [|m ms IH]; [reflexivity|]. simpl. rewrite !Z.eqb_refl. simpl. exact IH.
Qed.

Lemma hmsgs_app a b : hmsgs (a ++ b) = hmsgs a ++ hmsgs b.
Proof. unfold hmsgs. apply flat_map_app. Qed.

Lemma life_b_complete c v arrived : life_prefix c v arrived -> life_b c v arrived = true.
Proof.
  intros [E|(id & ms & S & [E|E])]; subst v; unfold life_b.
  - simpl. apply subseqb_complete. constructor.
  - unfold life_open. simpl. rewrite Z.eqb_refl.
    rewrite <- (app_nil_r (map (HMsg c id) ms)), phase_open_run. simpl.
    rewrite app_nil_r, hmsgs_open. apply subseqb_complete. exact S.
  - unfold life_open, closing. simpl. rewrite Z.eqb_refl.
    rewrite phase_open_run. simpl. repeat (rewrite !Z.eqb_refl; simpl).
    rewrite hmsgs_app, hmsgs_open. simpl. rewrite app_nil_r. apply subseqb_complete. exact S.
Qed.

Lemma phase_done_inv c v ph : phase_run c PhDone v = Some ph -> v = [] /\ ph = PhDone.
Proof. destruct v as [|h v]; simpl; intro H; [inv H; auto | destruct h; discriminate]. Qed.

Lemma phase_rem2_inv c id v ph :
  phase_run c (PhRem2 id) v = Some ph ->
  (v = [] /\ ph = PhRem2 id) \/ (v = [HCloseCb c id] /\ ph = PhDone).
Proof.
  destruct v as [|h v]; simpl; intro H; [inv H; auto|].
  destruct h as [c' i|c' i m|m|c' i g|c' i|c' i]; simpl in H; try discriminate.
  destruct (Z.eqb_spec c c'); [|discriminate]. destruct (Z.eqb_spec id i); [|discriminate].
  subst c' i. simpl in H. apply phase_done_inv in H. destruct H as (E1 & E2). subst. auto.
Qed.

Lemma phase_rem_inv c id v ph :
  phase_run c (PhRem id) v = Some ph ->
  (v = [] /\ ph = PhRem id) \/ (v = [HOnClose c id] /\ ph = PhRem2 id) \/
  (v = [HOnClose c id; HCloseCb c id] /\ ph = PhDone).
Proof.
  destruct v as [|h v]; simpl; intro H; [inv H; auto|].
  destruct h as [c' i|c' i m|m|c' i g|c' i|c' i]; simpl in H; try discriminate.
  destruct (Z.eqb_spec c c'); [|discriminate]. destruct (Z.eqb_spec id i); [|discriminate].
  subst c' i. simpl in H. apply phase_rem2_inv in H.
  destruct H as [(E1 & E2)|(E1 & E2)]; subst; auto.
Qed.

Lemma phase_open_inv c id v : forall ph,
  phase_run c (PhOpen id) v = Some ph ->
  (ph = PhOpen id /\ v = map (HMsg c id) (hmsgs v)) \/
  (ph = PhRem id /\ v = map (HMsg c id) (hmsgs v) ++ [HRemove c id true]) \/
  (ph = PhRem2 id /\ v = map (HMsg c id) (hmsgs v) ++ [HRemove c id true; HOnClose c id]) \/
  (ph = PhDone /\ v = map (HMsg c id) (hmsgs v) ++ closing c id).
Proof.
  induction v as [|h v IH]; intros ph H; simpl in H.
  - inv H. left. split; reflexivity.
  - destruct h as [c' i|c' i m|m|c' i g|c' i|c' i]; simpl in H; try discriminate.
    + destruct (Z.eqb_spec c c'); [|discriminate]. destruct (Z.eqb_spec id i); [|discriminate].
      subst c' i. simpl in H.
      destruct (IH ph H) as [(E1 & E2)|[(E1 & E2)|[(E1 & E2)|(E1 & E2)]]]; simpl;
        [left | right; left | right; right; left | right; right; right];
        (split; [exact E1|]); f_equal; exact E2.
    + destruct (Z.eqb_spec c c'); [|discriminate]. destruct (Z.eqb_spec id i); [|discriminate].
      destruct g; [|discriminate]. subst c' i. simpl in H. apply phase_rem_inv in H.
      destruct H as [(E1 & E2)|[(E1 & E2)|(E1 & E2)]]; subst; simpl;
        [right; left | right; right; left | right; right; right]; split; reflexivity.
Qed.

Lemma life_b_sound c v arrived : life_b c v arrived = true -> life_prefix c v arrived.
Proof.
  unfold life_b. destruct v as [|h v]; [left; reflexivity|].
  simpl. destruct h as [c' id|c' id m|m|c' id g|c' id|c' id]; simpl; try discriminate.
  destruct (Z.eqb_spec c c'); [|discriminate]. subst c'.
  destruct (phase_run c (PhOpen id) v) as [ph|] eqn:P; [|discriminate].
  intro S. right. exists id, (hmsgs v).
  destruct (phase_open_inv c id v ph P) as [(E1 & E2)|[(E1 & E2)|[(E1 & E2)|(E1 & E2)]]]; subst ph; try discriminate.
  - split; [apply subseqb_sound; exact S|]. left. unfold life_open. f_equal. exact E2.
  - split; [apply subseqb_sound; exact S|]. right. unfold life_open. simpl. f_equal. exact E2.
Qed.

(* ------------------------------------------------------------------ the bounded send queue *)
Lemma qok_step s l :
  (forall c k, aget c (conns s) = Some k -> qok k) ->
  forall c k, aget c (conns (step s l)) = Some k -> qok k.
Proof.
  intros I c k' H'.
  destruct (step_class s l) as [(_ & _ & c0 & new & _ & _ & C)|(C & _)|c0 _ (_ & C & _)|e r E O Q|v E O].
  - specialize (C c). destruct (aget c (conns s)) as [k|] eqn:H; [|congruence].
    destruct C as (k2 & H2 & U). rewrite H2 in H'. inv H'. apply (ku_q _ _ _ U). apply (I c k H).
  - rewrite C in H'. apply (I c k' H').
  - rewrite C in H'. destruct (Z.eqb c c0); [|apply (I c k' H')].
    inv H'. unfold qok, conn0, chcap. simpl. repeat split; try lia; intros; discriminate.
  - subst. simpl in H'. rewrite O, Q in H'. apply (I c k' H').
  - subst. simpl in H'. rewrite O in H'. apply (I c k' H').
Qed.

Lemma qok_reach n tr c k :
  aget c (conns (run_from (init_with n) tr)) = Some k -> qok k.
Proof.
  assert (G : forall tr s, (forall c k, aget c (conns s) = Some k -> qok k) ->
                           forall c k, aget c (conns (run_from s tr)) = Some k -> qok k).
  { intro tr0. induction tr0 as [|l tr0 IH]; intros s I; simpl; [exact I|].
    apply IH. apply qok_step. exact I. }
  intro H. apply (G tr (init_with n)) with (c := c); [|exact H].
  intros c0 k0 X. discriminate.
Qed.

Lemma chsend_bounded n tr c k :
  aget c (conns (run_from (init_with n) tr)) = Some k ->
  c_nq k = Z.of_nat (length (c_sendf k) + length (c_sendq k)) /\ 0 <= c_nq k <= chcap.
Proof.
  intro H. destruct (qok_reach n tr c k H) as (Q1 & Q2 & _). split; [exact Q1 | lia].
Qed.

(* whatever conn.Close() returns - and whichever goroutine made the call: every Close goes
   through the one latch - the connection is closed exactly when Close() has run once, the
   Remove is posted once and the callbacks fired once *)
Lemma close_outcome n tr c k :
  let s := run_from (init_with n) tr in
  conn_of s c = Some k ->
  (c_latch k = false -> c_cret k = 0 /\ count_remove c (posted s) = 0%nat /\ c_ncb k = 0) /\
  (c_latch k = true -> (c_cret k = 1 \/ c_cret k = 2) /\ count_remove c (posted s) = 1%nat /\ c_ncb k = 1).
Proof.
  simpl. intro H. destruct (qok_reach n tr c k H) as (_ & _ & Q3 & Q4).
  destruct (remove_once n tr c) as (R1 & R2). simpl in R1, R2.
  unfold latch_of, ncb_of, conn_of in *. rewrite H in R1, R2.
  split; intro L; rewrite L in R1, R2; auto.
Qed.

(* ------------------------------------------------------------------ no sender left behind *)
Lemma end_no_sender s c k :
  aget c (conns s) = Some k -> c_latch k = true -> stuck s c ->
  c_pp k <= 0 /\ c_hp k <> HSend /\
  (forall c0 rest, own s = c0 :: rest -> target_of s c0 = Some c -> step s LOwner <> s).
Proof.
  intros H L St. destruct (closed_never_blocks s c k H L) as (P1 & P2 & P3).
  split; [|split].
  - destruct (Z.ltb_spec 0 (c_pp k)) as [PP|PP]; [exfalso | lia].
    destruct (P1 PP) as (k' & A & B & _). rewrite (St TP), H in A. inv A. lia.
  - intro HS. destruct (P2 HS) as (k' & A & B & _). rewrite (St TH), H in A. inv A. congruence.
  - intros c0 rest O T E. pose proof (P3 c0 rest O T) as X. rewrite E, O in X.
    apply (f_equal (@length Z)) in X. simpl in X. lia.
Qed.

(* ------------------------------------------------------------------ the acceptor *)
Lemma NoDup_snoc (l : list Z) x : NoDup l -> ~ In x l -> NoDup (l ++ [x]).
Proof.
  intros N I. induction l as [|y l IH]; simpl; [constructor; [tauto | constructor]|].
  inv N. constructor.
  - intro J. apply in_app_or in J. destruct J as [J|[J|[]]]; [contradiction | subst; apply I; left; reflexivity].
  - apply IH; [assumption | intro J; apply I; right; exact J].
Qed.

Definition pf (s : st) := (backlog s, ahand s, cch s, shand s, dialed s).

Lemma acc_same s s' :
  acc_ok s -> pf s' = pf s ->
  (forall c, aget c (conns s) = None -> In c (pipeline s) -> aget c (conns s') = None) ->
  (forall c, aget c (conns s) <> None -> aget c (conns s') <> None) ->
  acc_ok s'.
Proof.
  intros A P N K. unfold pf in P. inv P.
  assert (PL : pipeline s' = pipeline s) by (unfold pipeline; congruence).
  constructor.
  - rewrite PL. apply (acc_nodup s A).
  - intros c J. rewrite PL in J. apply N; [apply (acc_fresh s A c J) | exact J].
  - rewrite H2. apply (acc_cap s A).
  - intros c J. rewrite H4 in J. destruct (acc_all s A c J) as [X|X]; [left; rewrite PL; exact X | right; apply K; exact X].
  - intros c J. rewrite PL in J. rewrite H4. apply (acc_dialed s A c J).
Qed.

(* labels that are not the acceptor's own leave the pipeline alone *)
Lemma pf_conn_eff s s' c k k' new : conn_eff s s' c k k' new -> pf s' = pf s.
Proof.
  intros (_ & _ & _ & _ & _ & _ & A & _). unfold accf in A. unfold pf. inv A. reflexivity.
Qed.

Lemma pf_step s l :
  match l with LDial _ | LStepA | LStepS => True | _ => pf (step s l) = pf s end.
Proof.
  destruct l as [c|b| | |c|c p|c|c|c|c|d|c t|c n|c|c|cs| | |v]; try exact I; simpl.
  - reflexivity.
  - destruct (zmem c (dialed s)); [reflexivity|]. unfold connect. destruct (aget c (conns s)); reflexivity.
  - destruct (aget c (conns s)) as [k|]; [|reflexivity]. destruct (c_eof k); reflexivity.
  - destruct (aget c (conns s)); reflexivity.
  - destruct (aget c (conns s)); reflexivity.
  - destruct (aget c (conns s)); reflexivity.
  - destruct (aget c (conns s)); reflexivity.
  - reflexivity.
  - destruct (aget c (conns s)) as [k|] eqn:H; [|reflexivity]. destruct t.
    + destruct (step_R_eff s c k H) as [E|(k' & new & E)]; [rewrite E; reflexivity | eapply pf_conn_eff; exact E].
    + destruct (step_W_eff s c k H) as [E|(k' & new & E)]; [rewrite E; reflexivity | eapply pf_conn_eff; exact E].
    + destruct (step_H_eff s c k H) as [E|(k' & new & E)]; [rewrite E; reflexivity | eapply pf_conn_eff; exact E].
    + destruct (step_P_eff s c k H) as [E|(k' & new & E)]; [rewrite E; reflexivity | eapply pf_conn_eff; exact E].
  - destruct (aget c (conns s)) as [k|]; [|reflexivity]. destruct (c_pp k =? 0); reflexivity.
  - destruct (own s); [|reflexivity]. destruct (target_of s c) as [c'|]; [|reflexivity].
    destruct (aget c' (conns s)) as [k'|] eqn:H; [|reflexivity].
    destruct (eff_ext_close s c' k' H) as (k2 & new & E). eapply pf_conn_eff. exact E.
  - destruct (aget c (conns s)) as [k|] eqn:H; [|reflexivity].
    destruct (eff_ext_close s c k H) as (k2 & new & E). eapply pf_conn_eff. exact E.
  - destruct (own s); reflexivity.
  - unfold step_owner. destruct (own s) as [|c rest]; [reflexivity|].
    destruct (target_of s c) as [c'|]; [|reflexivity].
    destruct (aget c' (conns s)) as [k|]; [|reflexivity]. destruct (push_k k); reflexivity.
  - destruct (own s); [|reflexivity]. destruct (q s); reflexivity.
  - destruct (own s); reflexivity.
Qed.

Lemma in_pipeline s c :
  In c (pipeline s) <-> shand s = Some c \/ In c (cch s) \/ ahand s = Some c \/ In c (backlog s).
Proof.
  unfold pipeline, optl. rewrite !in_app_iff.
  destruct (shand s) as [x|]; destruct (ahand s) as [y|]; simpl; intuition (try congruence; try discriminate).
Qed.

Lemma acc_repipe s s' :
  acc_ok s -> pipeline s' = pipeline s -> conns s' = conns s -> dialed s' = dialed s ->
  (length (cch s') <= cchcap)%nat -> acc_ok s'.
Proof.
  intros A PL C D L. constructor; rewrite ?PL, ?C, ?D; try apply A. exact L.
Qed.

Lemma acc_step s l : acc_ok s -> acc_ok (step s l).
Proof.
  intro A.
  assert (OTHER : pf (step s l) = pf s ->
                  (forall c0, l = LConnect c0 \/ l = LStepS -> l = LConnect c0 /\ zmem c0 (dialed s) = false) ->
                  acc_ok (step s l)).
  { intros P NC. apply (acc_same s); [exact A | exact P | |].
    - intros c N J.
      destruct (step_class s l) as [(_ & _ & c0 & new & _ & _ & C)|(C & _)|c0 LL (_ & C & _)|e r E O Q|v E O].
      + specialize (C c). rewrite N in C. exact C.
      + rewrite C. exact N.
      + rewrite C. destruct (Z.eqb_spec c c0) as [E|_]; [|exact N]. subst c0.
        destruct (NC c LL) as (_ & Z). exfalso.
        apply (acc_dialed s A) in J. apply zmem_In in J. congruence.
      + subst. simpl. rewrite O, Q. exact N.
      + subst. simpl. rewrite O. exact N.
    - intros c N.
      destruct (step_class s l) as [(_ & _ & c0 & new & _ & _ & C)|(C & _)|c0 LL (_ & C & _)|e r E O Q|v E O].
      + specialize (C c). destruct (aget c (conns s)); [|congruence].
        destruct C as (k' & H' & _). congruence.
      + rewrite C. exact N.
      + rewrite C. destruct (Z.eqb c c0); [discriminate | exact N].
      + subst. simpl. rewrite O, Q. exact N.
      + subst. simpl. rewrite O. exact N. }
  pose proof (pf_step s l) as PF.
  destruct l as [c|b| | |c|c p|c|c|c|c|d|c t|c n|c|c|cs| | |v];
    try (apply OTHER; [exact PF | intros c0 [X|X]; discriminate]).
  - (* LDial *) simpl. unfold known. destruct (zmem c (dialed s)) eqn:Dl; [exact A|]. simpl.
    destruct (aget c (conns s)) eqn:H; [exact A|].
    assert (NI : ~ In c (pipeline s)).
    { intro J. apply (acc_dialed s A) in J. apply zmem_In in J. congruence. }
    assert (PL : pipeline (s_dialed (dialed s ++ [c]) (s_backlog (backlog s ++ [c]) s)) = pipeline s ++ [c]).
    { unfold pipeline. simpl. rewrite !app_assoc. reflexivity. }
    constructor; simpl.
    + rewrite PL. apply NoDup_snoc; [apply (acc_nodup s A) | exact NI].
    + intros c0 J. rewrite PL in J. apply in_app_or in J.
      destruct J as [J|[J|[]]]; [apply (acc_fresh s A c0 J) | subst; exact H].
    + apply (acc_cap s A).
    + intros c0 J. rewrite PL. apply in_app_or in J. destruct J as [J|[J|[]]].
      * destruct (acc_all s A c0 J) as [X|X]; [left; apply in_or_app; left; exact X | right; exact X].
      * subst. left. apply in_or_app. right. left. reflexivity.
    + intros c0 J. rewrite PL in J. apply in_app_or in J. apply in_or_app.
      destruct J as [J|J]; [left; apply (acc_dialed s A c0 J) | right; exact J].
  - (* LStepA *) simpl. destruct (ahand s) as [c|] eqn:Ah.
    + destruct (Nat.ltb_spec (length (cch s)) cchcap) as [Lt|Ge]; [|exact A].
      assert (PL : pipeline (s_ahand None (s_cch (cch s ++ [c]) s)) = pipeline s).
      { unfold pipeline. simpl. rewrite Ah. simpl. rewrite <- !app_assoc. reflexivity. }
      apply (acc_repipe s); [exact A | exact PL | reflexivity | reflexivity|].
      simpl. rewrite app_length. simpl. unfold cchcap in *. lia.
    + destruct (backlog s) as [|c r] eqn:Bl; [exact A|].
      assert (PL : pipeline (s_ahand (Some c) (s_backlog r s)) = pipeline s).
      { unfold pipeline. simpl. rewrite Ah, Bl. reflexivity. }
      apply (acc_repipe s); [exact A | exact PL | reflexivity | reflexivity | apply (acc_cap s A)].
  - (* LStepS *) simpl. destruct (shand s) as [c|] eqn:Sh.
    + destruct (gate s); [exact A|].
      assert (PL : pipeline s = c :: pipeline (s_shand None (connect c s))).
      { unfold pipeline, connect. simpl. rewrite Sh. destruct (aget c (conns s)); reflexivity. }
      assert (Hc : aget c (conns s) = None).
      { apply (acc_fresh s A). rewrite PL. left. reflexivity. }
      pose proof (acc_nodup s A) as ND. rewrite PL in ND. inv ND.
      assert (CG : forall c', aget c' (conns (s_shand None (connect c s))) =
                              if Z.eqb c' c then Some conn0 else aget c' (conns s)).
      { intro c'. unfold connect. rewrite Hc. simpl. apply aget_aset. }
      assert (DL : dialed (s_shand None (connect c s)) = dialed s).
      { unfold connect. rewrite Hc. reflexivity. }
      assert (CC : cch (s_shand None (connect c s)) = cch s).
      { unfold connect. rewrite Hc. reflexivity. }
      constructor.
      * assumption.
      * intros c0 J. rewrite CG. destruct (Z.eqb_spec c0 c) as [E|_]; [subst; contradiction|].
        apply (acc_fresh s A). rewrite PL. right. exact J.
      * rewrite CC. apply (acc_cap s A).
      * intros c0 J. rewrite DL in J. rewrite CG. destruct (Z.eqb_spec c0 c) as [E|N]; [right; discriminate|].
        destruct (acc_all s A c0 J) as [X|X]; [|right; exact X].
        rewrite PL in X. destruct X as [X|X]; [congruence | left; exact X].
      * intros c0 J. rewrite DL. apply (acc_dialed s A). rewrite PL. right. exact J.
    + destruct (cch s) as [|c r] eqn:Cc; [exact A|].
      assert (PL : pipeline (s_shand (Some c) (s_cch r s)) = pipeline s).
      { unfold pipeline. simpl. rewrite Sh, Cc. reflexivity. }
      apply (acc_repipe s); [exact A | exact PL | reflexivity | reflexivity|].
      pose proof (acc_cap s A) as X. rewrite Cc in X. simpl in *. unfold cchcap in *. lia.
  - (* LConnect *) destruct (zmem c (dialed s)) eqn:Dl.
    + simpl. rewrite Dl. exact A.
    + apply OTHER; [exact PF|]. intros c0 [X|X]; [|discriminate]. inv X. split; [reflexivity | exact Dl].
Qed.

Lemma acc_reach n tr : acc_ok (run_from (init_with n) tr).
Proof.
  assert (G : forall tr s, acc_ok s -> acc_ok (run_from s tr)).
  { intro tr0. induction tr0 as [|l tr0 IH]; intros s A; simpl; [exact A | apply IH, acc_step, A]. }
  apply G. constructor; simpl; try (intros; contradiction); try constructor.
  unfold cchcap. lia.
Qed.

Lemma count_add_one c tl : ~ In (EAdd c) tl -> count_add c (EAdd c :: tl) = 1%nat.
Proof.
  intro NI. unfold count_add. simpl. rewrite Z.eqb_refl. simpl. f_equal.
  induction tl as [|e tl IH]; [reflexivity|]. simpl.
  destruct e as [c'|c' m|c']; simpl; try (apply IH; intro J; apply NI; right; exact J).
  destruct (Z.eqb_spec c c') as [E|N].
  - subst. exfalso. apply NI. left. reflexivity.
  - apply IH. intro J. apply NI. right. exact J.
Qed.

Lemma count_add_evs c l : count_add c (evs_of c l) = count_add c l.
Proof.
  unfold count_add, evs_of. induction l as [|e l IH]; [reflexivity|]. simpl.
  destruct e as [c'|c' m|c']; simpl; destruct (Z.eqb c c') eqn:E; simpl; rewrite ?E; simpl; rewrite IH; reflexivity.
Qed.

(* when the service has caught up and neither loop can move, every accepted connection has
   become a session, with exactly one Add posted for it *)
Lemma acceptor_quiescent_s s :
  acc_ok s -> CInv s ->
  gate s = false -> step s LStepA = s -> step s LStepS = s ->
  pipeline s = [] /\
  forall c, In c (dialed s) -> conn_of s c <> None /\ count_add c (posted s) = 1%nat.
Proof.
  intros A I G SA SS.
  assert (S1 : shand s = None).
  { destruct (shand s) as [c|] eqn:Sh; [exfalso | reflexivity].
    cbn [step] in SS. rewrite Sh, G in SS.
    apply (f_equal shand) in SS. simpl in SS. rewrite Sh in SS. discriminate. }
  assert (S2 : cch s = []).
  { destruct (cch s) as [|c r] eqn:Cc; [reflexivity | exfalso].
    cbn [step] in SS. rewrite S1, Cc in SS. apply (f_equal shand) in SS. simpl in SS. congruence. }
  assert (S3 : ahand s = None).
  { destruct (ahand s) as [c|] eqn:Ah; [exfalso | reflexivity].
    cbn [step] in SA. rewrite Ah, S2 in SA. simpl in SA.
    apply (f_equal ahand) in SA. simpl in SA. congruence. }
  assert (S4 : backlog s = []).
  { destruct (backlog s) as [|c r] eqn:Bl; [reflexivity | exfalso].
    cbn [step] in SA. rewrite S3, Bl in SA. apply (f_equal ahand) in SA. simpl in SA. congruence. }
  assert (PL : pipeline s = []) by (unfold pipeline; rewrite S1, S2, S3, S4; reflexivity).
  split; [exact PL|]. intros c J.
  destruct (acc_all s A c J) as [X|X]; [rewrite PL in X; contradiction|].
  split; [exact X|].
  pose proof (iC2 s I c) as Y.
  destruct (aget c (conns s)); [|congruence].
  destruct Y as (tl & E & NI). rewrite <- count_add_evs, E. apply count_add_one. exact NI.
Qed.

Lemma acceptor_quiescent n tr :
  let s := run_from (init_with n) tr in
  gate s = false -> step s LStepA = s -> step s LStepS = s ->
  pipeline s = [] /\
  forall c, In c (dialed s) -> conn_of s c <> None /\ count_add c (posted s) = 1%nat.
Proof.
  simpl. apply acceptor_quiescent_s; [apply acc_reach | apply (proj1 (inv_reach n tr))].
Qed.

Lemma end_releases_senders n tr c k :
  let s := run_from (init_with n) tr in
  conn_of s c = Some k -> c_cause k = true -> stuck s c ->
  c_latch k = true /\ c_pp k <= 0 /\ c_hp k <> HSend /\
  (forall c0 rest, own s = c0 :: rest -> target_of s c0 = Some c -> step s LOwner <> s).
Proof.
  simpl. intros H Ca St. destruct (inv_reach n tr) as (I & _).
  pose proof (stuck_latch _ c k H (iB _ I c k H) Ca St) as L.
  split; [exact L|]. apply end_no_sender; assumption.
Qed.
