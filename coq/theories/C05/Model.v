(* C05 - model of one front-end's client connections: pomelonet/server/acceptor/tcp_acceptor.go
   (accept loop and its hand-over queue), node/client/impls/pomelo/utils.go (StartAcceptor),
   pomelonet/server/session/session.go (ClientSession: read / write / heartbeat goroutines, the
   Close latch, the bounded send queue and whoever pushes into it), the posting of session
   events through node/client/impls/pomelo/sessionsimpl.go onto the owning service's scheduler,
   and node/client/impls/sessions.go (ClientSessions) consuming them.
   REPAIRED code is modelled (hooks/C05-fix-read-exit-closes.patch: read() closes on every
   exit; hooks/C05-fix-drop-message-of-removed-session.patch: ProcessMessage drops a message
   whose session is unknown).  No proofs in this file.

   Interleaving semantics.  A state holds any number of connections (keyed by a token), the
   acceptor pipeline, the front's FIFO [q] of posted events, the events already consumed [dn],
   the front (ClientSessions), what the owning service is in the middle of ([own]) and the
   clock.  [step] executes ONE label:
     - environment: LDial (a client connects to the listener), LGate (the owning service's
       scheduler queue is full / has room again: OnSessionCreate's Post blocks / returns),
       LConnect (NewClientSession + Handle on a connection handed over directly), LSend (client
       bytes arrive), LEof (client closes), LWfail (conn.Write fails from now on), LCloseErr
       (conn.Close() will return an error), LWstall
       (conn.Write blocks until the connection is closed: the client stopped reading), LTick;
     - LStepA / LStepS: the accept loop (Accept ; connChan <- conn, BLOCKING when connChan holds
       99) and StartAcceptor's loop (<-connChan ; NewClientSession ; Handle);
     - LStep c t: thread t of connection c performs its next atomic step (a stutter when it is
       blocked or finished): TR read loop, TW write loop, TH heartbeat, TP a goroutine that
       calls Push on the session [c_pp] more times (LFlood starts it);
     - external closers: LKick (owning service: ClientSessions.Kick), LCloseExt (any other
       goroutine calling Close);
     - the owning service: LPush (ClientSessions.PushMsg: the targets become [own]), LOwner (it
       pushes to the next target - BLOCKED while that session's queue is full), LFront (it
       consumes the head of [q]); LFront / LKick / LPush / LSetNext need [own = []]: a service
       goroutine parked in a push does nothing else;
     - LSetNext: verification hook positioning the id allocator (not production code).
   chSend is a bounded FIFO of capacity [chcap] = 9999.  A send (push, heartbeat) is ONE step that
   is enabled iff the queue has room or the latch is set: a sender parked on a full queue is a
   thread whose step is disabled, and close(chSend) inside Close() is what enables it again
   (the send panics, recover() turns that into a drop).  The order in which several parked
   senders are served is left to the schedule.
   Atomicity: one step = one access to shared state (status word, latch under the mutex,
   chSend, connChan, the scheduler queue, the connection) together with the goroutine-local
   computation that precedes it.  Close() is ONE step (it runs under the session mutex):
   test-and-set of the latch; iff it flipped: status := Closed, chSend/chanClose closed,
   conn.Close(), OnSessionClose => post ERemove.
   Schedules are [list label]; every theorem quantifies over all of them.

   Go -> model:
     ClientSession.state (atomic int32)        c_status       Start/Handshake/Working/Closed
     chanClose (closed or not, under mutex)    c_latch
     chSend (cap 9999)                         c_sendf/c_sendq, c_nq   two-list FIFO; c_nq = its length
     lastHeartBeat, common.NowMs()             c_lasthb, now  ms; limit 2*10*1000
     conn.GetNextMessage (tcp framing)         c_inbox/c_eof  packet CLASSES, see [pkt]
     TCPAcceptor.connChan (cap 99)             cch            ahand/shand: what the two loops hold
     sche.Sche channel of the owning service   q              FIFO, several producers; its
                                                              capacity (999) only through [gate]
     ClientSessions.sessions / idService       live / next    uint32 counter, wraps, skips 0 *)
From Cell2V Require Import Common.Tac Common.ListX Common.AList.
Inductive status := SStart | SHandshake | SWorking | SClosed.

(* what the client can put on the wire, by the branch of read()/processPacket it reaches *)
Inductive pkt :=
| PHandshake            (* handshake packet, valid JSON *)
| PHandshakeBad         (* handshake packet, JSON does not parse *)
| PAck                  (* handshake ack *)
| PData (m : Z)         (* data packet, message decodes; m identifies the message *)
| PDataBad              (* data packet, message.Decode fails *)
| PHeartbeat
| POther                (* valid header of a type the server ignores (Kick) *)
| PBadType              (* header with an illegal type: GetNextMessage fails *)
| PTruncEof             (* announces more bytes than are sent, then the client closes *)
| PDecErr.              (* SessionConfig.Decoder.Decode reports an error *)

Inductive witem := WHb | WPush.
Inductive rpc := RTop | RRead | RGot (p : pkt) | RClose | RDone.
Inductive wpc := WLoop | WWrite (x : witem) | WClose | WDone.
Inductive hpc := HLoop | HSend | HClose | HDone.
Inductive tid := TR | TW | TH | TP.

Record conn := mkConn {
  c_status : status;
  c_latch : bool;
  c_lasthb : Z;
  c_rp : rpc;
  c_wp : wpc;
  c_hp : hpc;
  c_sendq : list witem;
  c_sendf : list witem;
  c_nq : Z;
  c_inbox : list pkt;
  c_eof : bool;
  c_wfail : bool;
  c_wstall : bool;
  c_cerr : bool;
  c_cret : Z;
  c_pp : Z;
  c_cause : bool;
  c_ncb : Z;
  c_npush : Z;
  c_nsent : Z;
  c_arrived : list Z
}.

(* chSend = c_sendf (oldest first) followed by the reverse of c_sendq (newest first).  c_wstall: conn.Write blocks until closed.  c_pp: pushes the
   flood goroutine still has to issue.  Ghost / observable counters: c_cause (an end cause has
   been signalled), c_ncb (OnSessionClose callbacks = conn.Close() calls), c_npush (Push calls
   that RETURNED), c_nsent (push packets written to the client), c_arrived (data messages in the
   order the client sent them). *)
Definition conn0 : conn :=
  mkConn SStart false 0 RTop WLoop HLoop [] [] 0 [] false false false false 0 0 false 0 0 0 [].

Inductive ev := EAdd (c : Z) | EMsg (c m : Z) | ERemove (c : Z).

(* invocations of the owning service's ISessionsHandler / close callback *)
Inductive hev :=
| HAdd (c id : Z)
| HMsg (c id m : Z)            (* Process(session of c with this id, message m) *)
| HMsgNil (m : Z)              (* Process(nil, m): only the unrepaired code does this *)
| HRemove (c id : Z) (gone : bool)   (* gone: the session was already deleted from the map *)
| HOnClose (c id : Z)          (* the callback registered with HandlerComponent.AddOnSessionClose *)
| HCloseCb (c id : Z).

Record front := mkFront {
  f_next : Z;                  (* SerialIdService.nextId *)
  f_live : alist Z;            (* sessions: id -> connection *)
  f_netid : alist Z;           (* ClientSession.netId as stamped by AddSession *)
  f_hlog : list hev;
  f_used : list Z;             (* ghost: every id handed out so far *)
  f_reused : bool              (* ghost: some id was handed out twice *)
}.

Record st := mkSt {
  conns : alist conn;
  q : list ev;
  dn : list ev;
  fr : front;
  now : Z;
  own : list Z;
  backlog : list Z;
  ahand : option Z;
  cch : list Z;
  shand : option Z;
  gate : bool;
  dialed : list Z
}.

Definition two32 := 4294967296.
Definition hb_limit := 20000.       (* 2 * DefaultHeartbeatTimeSeconds * 1000 *)
Definition chcap := 9999.           (* make(chan *pendingWrite, 9999) *)
Definition cchcap := 99%nat.        (* make(chan PlayerConn, 99) *)

Definition front0 (next0 : Z) : front := mkFront next0 [] [] [] [] false.
Definition init_with (next0 : Z) : st :=
  mkSt [] [] [] (front0 next0) 1000000 [] [] None [] None false [].
Definition init : st := init_with 1.        (* NewSerialIdService: nextId = 1 *)

(* SerialIdService.AllocId: atomic add; 0 is skipped *)
Definition alloc (n : Z) : Z :=
  let v := (n + 1) mod two32 in if Z.eqb v 0 then 1 else v.

Inductive label :=
| LDial (c : Z)
| LGate (b : bool)
| LStepA
| LStepS
| LConnect (c : Z)
| LSend (c : Z) (p : pkt)
| LEof (c : Z)
| LWfail (c : Z)
| LWstall (c : Z)
| LCloseErr (c : Z)
| LTick (d : Z)
| LStep (c : Z) (t : tid)
| LFlood (c n : Z)
| LKick (c : Z)
| LCloseExt (c : Z)
| LPush (cs : list Z)
| LOwner
| LFront
| LSetNext (v : Z).

(* ---- record updates ---- *)
Definition s_conns (x : alist conn) (s : st) : st :=
  mkSt x (q s) (dn s) (fr s) (now s) (own s) (backlog s) (ahand s) (cch s) (shand s) (gate s) (dialed s).
Definition s_q (x : list ev) (s : st) : st :=
  mkSt (conns s) x (dn s) (fr s) (now s) (own s) (backlog s) (ahand s) (cch s) (shand s) (gate s) (dialed s).
Definition s_fr (x : front) (s : st) : st :=
  mkSt (conns s) (q s) (dn s) x (now s) (own s) (backlog s) (ahand s) (cch s) (shand s) (gate s) (dialed s).
Definition s_now (x : Z) (s : st) : st :=
  mkSt (conns s) (q s) (dn s) (fr s) x (own s) (backlog s) (ahand s) (cch s) (shand s) (gate s) (dialed s).
Definition s_own (x : list Z) (s : st) : st :=
  mkSt (conns s) (q s) (dn s) (fr s) (now s) x (backlog s) (ahand s) (cch s) (shand s) (gate s) (dialed s).
Definition s_backlog (x : list Z) (s : st) : st :=
  mkSt (conns s) (q s) (dn s) (fr s) (now s) (own s) x (ahand s) (cch s) (shand s) (gate s) (dialed s).
Definition s_ahand (x : option Z) (s : st) : st :=
  mkSt (conns s) (q s) (dn s) (fr s) (now s) (own s) (backlog s) x (cch s) (shand s) (gate s) (dialed s).
Definition s_cch (x : list Z) (s : st) : st :=
  mkSt (conns s) (q s) (dn s) (fr s) (now s) (own s) (backlog s) (ahand s) x (shand s) (gate s) (dialed s).
Definition s_shand (x : option Z) (s : st) : st :=
  mkSt (conns s) (q s) (dn s) (fr s) (now s) (own s) (backlog s) (ahand s) (cch s) x (gate s) (dialed s).
Definition s_gate (x : bool) (s : st) : st :=
  mkSt (conns s) (q s) (dn s) (fr s) (now s) (own s) (backlog s) (ahand s) (cch s) (shand s) x (dialed s).
Definition s_dialed (x : list Z) (s : st) : st :=
  mkSt (conns s) (q s) (dn s) (fr s) (now s) (own s) (backlog s) (ahand s) (cch s) (shand s) (gate s) x.
Definition set_conn (c : Z) (k : conn) (s : st) : st := s_conns (aset c k (conns s)) s.
Definition post (e : ev) (s : st) : st := s_q (q s ++ [e]) s.
Definition set_front (f : front) (s : st) : st := s_fr f s.

Definition k_status (x : status) (k : conn) : conn :=
  mkConn x (c_latch k) (c_lasthb k) (c_rp k) (c_wp k) (c_hp k) (c_sendq k) (c_sendf k) (c_nq k) (c_inbox k) (c_eof k) (c_wfail k) (c_wstall k) (c_cerr k) (c_cret k) (c_pp k) (c_cause k) (c_ncb k) (c_npush k) (c_nsent k) (c_arrived k).
Definition k_lasthb (x : Z) (k : conn) : conn :=
  mkConn (c_status k) (c_latch k) x (c_rp k) (c_wp k) (c_hp k) (c_sendq k) (c_sendf k) (c_nq k) (c_inbox k) (c_eof k) (c_wfail k) (c_wstall k) (c_cerr k) (c_cret k) (c_pp k) (c_cause k) (c_ncb k) (c_npush k) (c_nsent k) (c_arrived k).
Definition k_rp (x : rpc) (k : conn) : conn :=
  mkConn (c_status k) (c_latch k) (c_lasthb k) x (c_wp k) (c_hp k) (c_sendq k) (c_sendf k) (c_nq k) (c_inbox k) (c_eof k) (c_wfail k) (c_wstall k) (c_cerr k) (c_cret k) (c_pp k) (c_cause k) (c_ncb k) (c_npush k) (c_nsent k) (c_arrived k).
Definition k_wp (x : wpc) (k : conn) : conn :=
  mkConn (c_status k) (c_latch k) (c_lasthb k) (c_rp k) x (c_hp k) (c_sendq k) (c_sendf k) (c_nq k) (c_inbox k) (c_eof k) (c_wfail k) (c_wstall k) (c_cerr k) (c_cret k) (c_pp k) (c_cause k) (c_ncb k) (c_npush k) (c_nsent k) (c_arrived k).
Definition k_hp (x : hpc) (k : conn) : conn :=
  mkConn (c_status k) (c_latch k) (c_lasthb k) (c_rp k) (c_wp k) x (c_sendq k) (c_sendf k) (c_nq k) (c_inbox k) (c_eof k) (c_wfail k) (c_wstall k) (c_cerr k) (c_cret k) (c_pp k) (c_cause k) (c_ncb k) (c_npush k) (c_nsent k) (c_arrived k).
Definition k_inbox (x : list pkt) (k : conn) : conn :=
  mkConn (c_status k) (c_latch k) (c_lasthb k) (c_rp k) (c_wp k) (c_hp k) (c_sendq k) (c_sendf k) (c_nq k) x (c_eof k) (c_wfail k) (c_wstall k) (c_cerr k) (c_cret k) (c_pp k) (c_cause k) (c_ncb k) (c_npush k) (c_nsent k) (c_arrived k).
Definition k_pp (x : Z) (k : conn) : conn :=
  mkConn (c_status k) (c_latch k) (c_lasthb k) (c_rp k) (c_wp k) (c_hp k) (c_sendq k) (c_sendf k) (c_nq k) (c_inbox k) (c_eof k) (c_wfail k) (c_wstall k) (c_cerr k) (c_cret k) x (c_cause k) (c_ncb k) (c_npush k) (c_nsent k) (c_arrived k).
Definition k_arrived (x : list Z) (k : conn) : conn :=
  mkConn (c_status k) (c_latch k) (c_lasthb k) (c_rp k) (c_wp k) (c_hp k) (c_sendq k) (c_sendf k) (c_nq k) (c_inbox k) (c_eof k) (c_wfail k) (c_wstall k) (c_cerr k) (c_cret k) (c_pp k) (c_cause k) (c_ncb k) (c_npush k) (c_nsent k) x.
Definition k_eof (k : conn) : conn :=
  mkConn (c_status k) (c_latch k) (c_lasthb k) (c_rp k) (c_wp k) (c_hp k) (c_sendq k) (c_sendf k) (c_nq k) (c_inbox k) true (c_wfail k) (c_wstall k) (c_cerr k) (c_cret k) (c_pp k) (c_cause k) (c_ncb k) (c_npush k) (c_nsent k) (c_arrived k).
Definition k_wfail (k : conn) : conn :=
  mkConn (c_status k) (c_latch k) (c_lasthb k) (c_rp k) (c_wp k) (c_hp k) (c_sendq k) (c_sendf k) (c_nq k) (c_inbox k) (c_eof k) true (c_wstall k) (c_cerr k) (c_cret k) (c_pp k) (c_cause k) (c_ncb k) (c_npush k) (c_nsent k) (c_arrived k).
Definition k_wstall (k : conn) : conn :=
  mkConn (c_status k) (c_latch k) (c_lasthb k) (c_rp k) (c_wp k) (c_hp k) (c_sendq k) (c_sendf k) (c_nq k) (c_inbox k) (c_eof k) (c_wfail k) true (c_cerr k) (c_cret k) (c_pp k) (c_cause k) (c_ncb k) (c_npush k) (c_nsent k) (c_arrived k).
Definition k_cerr (k : conn) : conn :=
  mkConn (c_status k) (c_latch k) (c_lasthb k) (c_rp k) (c_wp k) (c_hp k) (c_sendq k) (c_sendf k) (c_nq k) (c_inbox k) (c_eof k) (c_wfail k) (c_wstall k) true (c_cret k) (c_pp k) (c_cause k) (c_ncb k) (c_npush k) (c_nsent k) (c_arrived k).
Definition k_cause (k : conn) : conn :=
  mkConn (c_status k) (c_latch k) (c_lasthb k) (c_rp k) (c_wp k) (c_hp k) (c_sendq k) (c_sendf k) (c_nq k) (c_inbox k) (c_eof k) (c_wfail k) (c_wstall k) (c_cerr k) (c_cret k) (c_pp k) true (c_ncb k) (c_npush k) (c_nsent k) (c_arrived k).
Definition k_npush (k : conn) : conn :=
  mkConn (c_status k) (c_latch k) (c_lasthb k) (c_rp k) (c_wp k) (c_hp k) (c_sendq k) (c_sendf k) (c_nq k) (c_inbox k) (c_eof k) (c_wfail k) (c_wstall k) (c_cerr k) (c_cret k) (c_pp k) (c_cause k) (c_ncb k) (c_npush k + 1) (c_nsent k) (c_arrived k).
Definition k_nsent (k : conn) : conn :=
  mkConn (c_status k) (c_latch k) (c_lasthb k) (c_rp k) (c_wp k) (c_hp k) (c_sendq k) (c_sendf k) (c_nq k) (c_inbox k) (c_eof k) (c_wfail k) (c_wstall k) (c_cerr k) (c_cret k) (c_pp k) (c_cause k) (c_ncb k) (c_npush k) (c_nsent k + 1) (c_arrived k).
(* chSend <- x *)
Definition k_enq (x : witem) (k : conn) : conn :=
  mkConn (c_status k) (c_latch k) (c_lasthb k) (c_rp k) (c_wp k) (c_hp k) (x :: c_sendq k) (c_sendf k) (c_nq k + 1) (c_inbox k) (c_eof k) (c_wfail k) (c_wstall k) (c_cerr k) (c_cret k) (c_pp k) (c_cause k) (c_ncb k) (c_npush k) (c_nsent k) (c_arrived k).
(* <-chSend: the front part had an element, r stays in front *)
Definition k_deqf (r : list witem) (k : conn) : conn :=
  mkConn (c_status k) (c_latch k) (c_lasthb k) (c_rp k) (c_wp k) (c_hp k) (c_sendq k) r (c_nq k - 1) (c_inbox k) (c_eof k) (c_wfail k) (c_wstall k) (c_cerr k) (c_cret k) (c_pp k) (c_cause k) (c_ncb k) (c_npush k) (c_nsent k) (c_arrived k).
(* <-chSend: the front part was empty; the back part, reversed, becomes the front *)
Definition k_deqb (r : list witem) (k : conn) : conn :=
  mkConn (c_status k) (c_latch k) (c_lasthb k) (c_rp k) (c_wp k) (c_hp k) [] r (c_nq k - 1) (c_inbox k) (c_eof k) (c_wfail k) (c_wstall k) (c_cerr k) (c_cret k) (c_pp k) (c_cause k) (c_ncb k) (c_npush k) (c_nsent k) (c_arrived k).
(* the effect of a Close() that flips the latch, on the connection record.  c_cret: what
   conn.Close() returned (1 nil, 2 an error) - nothing depends on it *)
Definition k_closed (k : conn) : conn :=
  mkConn SClosed true (c_lasthb k) (c_rp k) (c_wp k) (c_hp k) (c_sendq k) (c_sendf k) (c_nq k) (c_inbox k) (c_eof k) (c_wfail k) (c_wstall k) (c_cerr k) (if c_cerr k then 2 else 1) (c_pp k) (c_cause k) (c_ncb k + 1) (c_npush k) (c_nsent k) (c_arrived k).

(* ClientSession.Close(): the ONLY place that posts ERemove *)
Definition do_close (c : Z) (s : st) : st :=
  match aget c (conns s) with
  | None => s
  | Some k => if c_latch k then s else post (ERemove c) (set_conn c (k_closed k) s)
  end.

Definition below_working (x : status) : bool :=
  match x with SStart | SHandshake => true | _ => false end.

(* a send on chSend does not block: the queue has room, or it has been closed *)
Definition can_send (k : conn) : bool := c_latch k || Z.ltb (c_nq k) chcap.

(* conn.Write when the client does not read: it parks its caller; once the client has closed
   as well it fails (send buffer full, peer gone) *)
Definition stalled (k : conn) : bool := negb (c_eof k) && c_wstall k.
Definition write_fails (k : conn) : bool := c_latch k || c_wfail k || (c_eof k && c_wstall k).

(* ---- the read loop ---- *)
Definition step_R (c : Z) (k : conn) (s : st) : st :=
  match c_rp k with
  | RTop =>                      (* for { if s.GetStatus() == StatusClosed { break } *)
      set_conn c (k_rp (match c_status k with SClosed => RClose | _ => RRead end) k) s
  | RRead =>                     (* conn.GetNextMessage() *)
      if c_latch k then set_conn c (k_rp RClose k) s          (* connection closed under us *)
      else match c_inbox k with
           | PBadType :: r | PTruncEof :: r =>               (* framing error *)
               set_conn c (k_cause (k_rp RClose (k_inbox r k))) s
           | p :: r => set_conn c (k_rp (RGot p) (k_inbox r k)) s
           | [] => if c_eof k then set_conn c (k_rp RClose k) s else s   (* EOF / blocked *)
           end
  | RGot p =>                    (* Decoder.Decode + processPacket *)
      match p with
      | PDecErr => set_conn c (k_cause (k_rp RClose k)) s
      | PHandshake =>            (* SendHandshakeResponse writes on the connection directly *)
          if write_fails k then set_conn c (k_cause (k_rp RClose k)) s
          else if stalled k then s
          else set_conn c (k_rp RTop (k_status SHandshake k)) s
      | PHandshakeBad =>
          if write_fails k then set_conn c (k_cause (k_rp RClose k)) s
          else if stalled k then s
          else set_conn c (k_cause (k_rp RClose (k_status SClosed k))) s
      | PAck => set_conn c (k_rp RTop (k_status SWorking (k_lasthb (now s) k))) s
      | PData m =>
          if below_working (c_status k) then set_conn c (k_rp RTop k) s
          else post (EMsg c m) (set_conn c (k_rp RTop k) s)
      | PDataBad =>
          if below_working (c_status k) then set_conn c (k_rp RTop k) s
          else set_conn c (k_cause (k_rp RClose k)) s
      | PHeartbeat => set_conn c (k_rp RTop (k_lasthb (now s) k)) s
      | POther => set_conn c (k_rp RTop k) s
      | PBadType | PTruncEof => set_conn c (k_cause (k_rp RClose k)) s   (* not reachable *)
      end
  | RClose =>                    (* defer s.Close() *)
      match aget c (conns (do_close c s)) with
      | Some k' => set_conn c (k_rp RDone k') (do_close c s)
      | None => s
      end
  | RDone => s
  end.

(* ---- the write loop: select { <-chanClose ; <-chSend } ; conn.Write ---- *)
Definition step_W (c : Z) (k : conn) (s : st) : st :=
  match c_wp k with
  | WLoop =>
      if c_latch k then set_conn c (k_wp WClose k) s
      else match c_sendf k with
           | x :: r => set_conn c (k_wp (WWrite x) (k_deqf r k)) s
           | [] => match rev (c_sendq k) with
                   | x :: r => set_conn c (k_wp (WWrite x) (k_deqb r k)) s
                   | [] => s
                   end
           end
  | WWrite x =>                  (* conn.Write(pWrite.data) *)
      if c_latch k then set_conn c (k_wp WClose k) s           (* closed under us: write error *)
      else if c_wfail k || (c_eof k && c_wstall k) then set_conn c (k_cause (k_wp WClose k)) s
      else if stalled k then s                                  (* the client does not read *)
      else set_conn c (match x with WPush => k_nsent (k_wp WLoop k) | WHb => k_wp WLoop k end) s
  | WClose =>
      match aget c (conns (do_close c s)) with
      | Some k' => set_conn c (k_wp WDone k') (do_close c s)
      | None => s
      end
  | WDone => s
  end.

(* ---- the heartbeat loop: one tick = checkHeartBeatTimeout ; sendHeartBeat ---- *)
Definition step_H (c : Z) (k : conn) (s : st) : st :=
  match c_hp k with
  | HLoop =>
      if c_latch k then set_conn c (k_hp HDone k) s
      else match c_status k with
           | SWorking =>
               if Z.ltb (now s) (c_lasthb k + hb_limit)
               then set_conn c (k_hp HSend k) s
               else set_conn c (k_cause (k_hp HClose k)) s
           | _ => s
           end
  | HSend =>                     (* pushToSend(heartbeat): may park on a full queue *)
      if c_latch k then set_conn c (k_hp HLoop k) s            (* closed queue: recovered *)
      else if Z.ltb (c_nq k) chcap then set_conn c (k_hp HLoop (k_enq WHb k)) s
      else s
  | HClose =>
      match aget c (conns (do_close c s)) with
      | Some k' => set_conn c (k_hp HLoop k') (do_close c s)
      | None => s
      end
  | HDone => s
  end.

(* ClientSession.Push: status check, then pushToSend.  None = the caller is parked. *)
Definition push_k (k : conn) : option conn :=
  match c_status k with
  | SClosed => Some (k_npush k)                               (* errors.New("closed") *)
  | _ => if c_latch k then Some (k_npush k)                   (* closed queue: recovered *)
         else if Z.ltb (c_nq k) chcap then Some (k_npush (k_enq WPush k))
         else None
  end.

(* ---- a goroutine that pushes c_pp times ---- *)
Definition step_P (c : Z) (k : conn) (s : st) : st :=
  if Z.ltb 0 (c_pp k) then
    match push_k k with
    | Some k' => set_conn c (k_pp (c_pp k - 1) k') s
    | None => s
    end
  else s.

(* ---- the front: ClientSessions on the owning service ---- *)
Definition netid_of (f : front) (c : Z) : Z :=
  match aget c (f_netid f) with Some i => i | None => 0 end.

Definition front_ev (f : front) (e : ev) : front :=
  match e with
  | EAdd c =>
      let id := alloc (f_next f) in
      mkFront id (aset id c (f_live f)) (aset c id (f_netid f))
              (f_hlog f ++ [HAdd c id]) (id :: f_used f)
              (f_reused f || zmem id (f_used f))
  | EMsg c m =>
      let id := netid_of f c in
      match aget id (f_live f) with
      | Some c' => mkFront (f_next f) (f_live f) (f_netid f) (f_hlog f ++ [HMsg c' id m])
                           (f_used f) (f_reused f)
      | None => f                                   (* repaired: dropped *)
      end
  | ERemove c =>
      let id := netid_of f c in
      match aget id (f_live f) with
      | Some c' => mkFront (f_next f) (adel id (f_live f)) (f_netid f)
                           (f_hlog f ++ [HRemove c' id true; HOnClose c' id; HCloseCb c' id])
                           (f_used f) (f_reused f)
      | None => f
      end
  end.

(* the owning service consumes the head of its queue *)
Definition consume (e : ev) (r : list ev) (s : st) : st :=
  mkSt (conns s) r (dn s ++ [e]) (front_ev (fr s) e) (now s) (own s)
       (backlog s) (ahand s) (cch s) (shand s) (gate s) (dialed s).

(* the session PushMsg finds for a listed target, if any *)
Definition target_of (s : st) (c : Z) : option Z :=
  match aget c (f_netid (fr s)) with
  | None => None
  | Some id => aget id (f_live (fr s))                       (* None: onSessionMissed *)
  end.

(* the owning service pushes to the next target of the PushMsg it is executing *)
Definition step_owner (s : st) : st :=
  match own s with
  | [] => s
  | c :: rest =>
      match target_of s c with
      | None => s_own rest s
      | Some c' =>
          match aget c' (conns s) with
          | None => s_own rest s
          | Some k => match push_k k with
                      | Some k' => s_own rest (set_conn c' k' s)
                      | None => s                            (* parked in session.Push *)
                      end
          end
      end
  end.

(* NewClientSession + Handle: OnSessionCreate posts the Add, the three loops start *)
Definition connect (c : Z) (s : st) : st :=
  match aget c (conns s) with
  | Some _ => s
  | None => post (EAdd c) (set_conn c conn0 s)
  end.

Definition known (s : st) (c : Z) : bool :=
  zmem c (dialed s) || match aget c (conns s) with Some _ => true | None => false end.

Definition step (s : st) (l : label) : st :=
  match l with
  | LDial c =>                   (* the kernel completes the TCP handshake: listener backlog *)
      if known s c then s else s_dialed (dialed s ++ [c]) (s_backlog (backlog s ++ [c]) s)
  | LGate b => s_gate b s
  | LStepA =>                    (* TCPAcceptor.serve: Accept ; a.connChan <- conn *)
      match ahand s with
      | None => match backlog s with
                | c :: r => s_ahand (Some c) (s_backlog r s)
                | [] => s
                end
      | Some c => if Nat.ltb (length (cch s)) cchcap
                  then s_ahand None (s_cch (cch s ++ [c]) s)
                  else s                                      (* connChan full: the loop waits *)
      end
  | LStepS =>                    (* StartAcceptor: for conn := range connChan { New.. ; Handle } *)
      match shand s with
      | None => match cch s with
                | c :: r => s_shand (Some c) (s_cch r s)
                | [] => s
                end
      | Some c => if gate s then s                           (* OnSessionCreate: Post blocks *)
                  else s_shand None (connect c s)
      end
  | LConnect c => if zmem c (dialed s) then s else connect c s   (* dialled tokens come through the acceptor *)
  | LSend c p =>
      match aget c (conns s) with
      | Some k =>
          if c_eof k then s
          else
            let k1 := k_inbox (c_inbox k ++ [p]) k in
            let k2 := match p with PData m => k_arrived (c_arrived k ++ [m]) k1 | _ => k1 end in
            let k3 := match p with PTruncEof => k_cause (k_eof k2) | _ => k2 end in
            set_conn c k3 s
      | None => s
      end
  | LEof c =>
      match aget c (conns s) with
      | Some k => set_conn c (k_cause (k_eof k)) s
      | None => s
      end
  | LWfail c =>
      match aget c (conns s) with
      | Some k => set_conn c (k_wfail k) s
      | None => s
      end
  | LWstall c =>
      match aget c (conns s) with
      | Some k => set_conn c (k_wstall k) s
      | None => s
      end
  | LCloseErr c =>               (* conn.Close() will report an error (tls: closeNotify to a dead peer) *)
      match aget c (conns s) with
      | Some k => set_conn c (k_cerr k) s
      | None => s
      end
  | LTick d => s_now (now s + Z.max 0 d) s
  | LStep c t =>
      match aget c (conns s) with
      | Some k => match t with
                  | TR => step_R c k s | TW => step_W c k s | TH => step_H c k s | TP => step_P c k s
                  end
      | None => s
      end
  | LFlood c n =>
      match aget c (conns s) with
      | Some k => if Z.eqb (c_pp k) 0 then set_conn c (k_pp (Z.max 0 n) k) s else s
      | None => s
      end
  | LKick c =>
      match own s with
      | _ :: _ => s
      | [] =>
          match target_of s c with
          | Some c' => match aget c' (conns s) with
                       | Some k' => do_close c' (set_conn c' (k_cause k') s)
                       | None => s
                       end
          | None => s
          end
      end
  | LCloseExt c =>
      match aget c (conns s) with
      | Some k => do_close c (set_conn c (k_cause k) s)
      | None => s
      end
  | LPush cs => match own s with [] => s_own cs s | _ :: _ => s end
  | LOwner => step_owner s
  | LFront =>
      match own s with
      | _ :: _ => s
      | [] => match q s with
              | e :: r => consume e r s
              | [] => s
              end
      end
  | LSetNext v =>
      match own s with
      | _ :: _ => s
      | [] => set_front (mkFront (v mod two32) (f_live (fr s)) (f_netid (fr s)) (f_hlog (fr s))
                                 (f_used (fr s)) (f_reused (fr s))) s
      end
  end.

Definition run_from (s : st) (tr : list label) : st := fold_left step tr s.
Definition run (tr : list label) : st := run_from init tr.

(* ------------------------------------------------------------------------------------
   Harness operations: each is a particular schedule.  The harness cannot hold the write,
   heartbeat, pusher, acceptor and service-side goroutines, and holds a reader only inside
   Decoder.Decode, so after every operation the free-running threads run until they block
   ([settle]). *)
Inductive op :=
| OConnect (c : Z)
| OSend (c : Z) (p : pkt)
| ORelease (c : Z)              (* let the reader parked in Decode go on *)
| OClientClose (c : Z)
| OKick (c : Z)
| OCloseExt (c : Z)
| OTick (d : Z)
| OHeartbeat (c : Z)            (* one heartbeat tick of c *)
| OWfail (c : Z)
| OWstall (c : Z)               (* the client stops reading: Write blocks *)
| OCloseErr (c : Z)             (* conn.Close() will return an error *)
| OFlood (c n : Z)              (* a goroutine issues n pushes to c, one after the other *)
| OPush (cs : list Z)
| OFront
| ODrain
| OSetNext (v : Z)
| OGate (b : bool)              (* OnSessionCreate blocks (service queue full) / goes on *)
| ODial (c : Z)                 (* a TCP client connects to the real acceptor *)
| ORace (l : list op)           (* the listed simple operations issued concurrently *)
| ORaceRel (c : Z) (l : list op) (* ... concurrently with releasing c's parked reader *)
| ORealTicker (k : Z)           (* scripted scenario run with the REAL heartbeat ticker, see rt_script *)
| OTcp (v k : Z)                (* scripted scenario over a REAL TCP socket and acceptor, see tcp_script *)
| ONet (t v k : Z)              (* the same over transport t (TCP, TLS, websocket, wss), see net_script *)
| OBurst (n : Z).               (* n simultaneous TCP clients while the service is busy, see burst_script *)

(* labels a free-running connection takes next (none when parked / blocked) *)
Definition free_labels (c : Z) (k : conn) : list label :=
  (match c_rp k with RGot _ | RDone => [] | _ => [LStep c TR] end)
  ++ [LStep c TW]
  ++ (if Z.ltb 0 (c_pp k) then [LStep c TP] else []).

Definition conn_fuel (k : conn) : nat :=
  (8 + (if c_wstall k then 0 else 2 * Z.to_nat (c_nq k))
     + (if can_send k then 2 * Z.to_nat (c_pp k) else 0))%nat.

Fixpoint settle_conn_n (n : nat) (c : Z) (s : st) : st :=
  match n with
  | O => s
  | S n' => match aget c (conns s) with
            | Some k => settle_conn_n n' c (fold_left step (free_labels c k) s)
            | None => s
            end
  end.

(* the heartbeat goroutine only reacts to the latch while the harness is not ticking it *)
Definition settle_H (c : Z) (s : st) : st :=
  match aget c (conns s) with
  | Some k => if c_latch k then step (step s (LStep c TH)) (LStep c TH) else s
  | None => s
  end.

(* the fuel is recomputed after a first few rounds: a Close in those rounds is what lets the
   parked senders go on *)
Definition settle_phase (c : Z) (s : st) : st :=
  match aget c (conns s) with
  | Some k => settle_conn_n (conn_fuel k) c s
  | None => s
  end.

Definition settle_one (c : Z) (s : st) : st :=
  settle_H c (settle_phase c (settle_phase c (settle_conn_n 8 c s))).

Fixpoint iter_label (n : nat) (l : label) (s : st) : st :=
  match n with O => s | S n' => iter_label n' l (step s l) end.

(* accept loop and StartAcceptor loop run until they block; then the owning service goes on
   with the PushMsg it is in; then every connection *)
Definition settle_pass (s : st) : st :=
  let na := (2 * (length (backlog s) + length (cch s)) + 4)%nat in
  let s1 := iter_label na LStepS (iter_label na LStepA (iter_label na LStepS (iter_label na LStepA s))) in
  let s2 := iter_label (length (own s1)) LOwner s1 in
  fold_left (fun s ck => settle_one (fst ck) s) (conns s2) s2.

Definition settle_all (s : st) : st := settle_pass (settle_pass (settle_pass s)).

Definition hp_of (s : st) (c : Z) : hpc :=
  match aget c (conns s) with Some k => c_hp k | None => HDone end.

Definition exec_simple (s : st) (o : op) : st :=
  match o with
  | ORelease c =>
      match aget c (conns s) with
      | Some k => match c_rp k with RGot _ => step s (LStep c TR) | _ => s end
      | None => s
      end
  | OClientClose c => step s (LEof c)
  | OKick c => step s (LKick c)
  | OCloseExt c => step s (LCloseExt c)
  | OHeartbeat c =>
      (* the harness runs the tick body (check ; send) itself: after the latch it has no effect *)
      match aget c (conns s) with
      | Some k =>
          if c_latch k then s
          else let s1 := step s (LStep c TH) in
               match hp_of s1 c with
               | HClose | HSend => step s1 (LStep c TH)
               | _ => s1
               end
      | None => s
      end
  | OWfail c => step s (LWfail c)
  | OWstall c => step s (LWstall c)
  | OCloseErr c => step s (LCloseErr c)
  | _ => s
  end.

Fixpoint drain (n : nat) (s : st) : st :=
  match n with O => s | S n' => match q s with [] => s | _ => drain n' (step s LFront) end end.

(* operations on one connection disturb nobody else unless the owning service is (or gets) in
   the middle of a PushMsg *)
Definition settle_after (c : Z) (s0 s1 : st) : st :=
  match own s0, own s1 with
  | [], [] => settle_one c s1
  | _, _ => settle_all s1
  end.

Definition exec_op1 (s : st) (o : op) : st :=
  match o with
  | OConnect c => settle_after c s (step s (LConnect c))
  | OSend c p => settle_after c s (step s (LSend c p))
  | ORelease c | OClientClose c | OCloseExt c | OHeartbeat c | OWfail c | OWstall c | OCloseErr c =>
      settle_after c s (exec_simple s o)
  | OFlood c n => settle_after c s (step s (LFlood c n))
  | OKick c => settle_all (exec_simple s o)
  | OTick d => step s (LTick d)
  | OPush cs => settle_all (step s (LPush cs))
  | OFront => step s LFront
  | ODrain => drain (length (q s)) s
  | OSetNext v => step s (LSetNext v)
  | OGate b => settle_all (step s (LGate b))
  | ODial c => settle_all (step s (LDial c))
  | ORace l => settle_all (fold_left exec_simple l s)
  | ORaceRel c l => settle_all (fold_left exec_simple (ORelease c :: l) s)
  | ORealTicker _ | OTcp _ _ | ONet _ _ _ | OBurst _ => s
  end.

Definition zseq (n : Z) : list Z := map Z.of_nat (seq 1 (Z.to_nat n)).

(* ORealTicker k: connection 1 with heartbeat() ticking for real every few ms (virtual clock
   frozen): handshake, ack, k messages handled, one more message held in flight iff k is odd,
   then the clock jumps past the limit and the harness WAITS for the ticker to close the
   session; then release, drain.  Same observables as placing the tick by hand: *)
Definition rt_script (k : Z) : list op :=
  [OConnect 1; OSend 1 PHandshake; ORelease 1; OSend 1 PAck; ORelease 1]
  ++ flat_map (fun m => [OSend 1 (PData m); ORelease 1]) (zseq (Z.min k 20))
  ++ (if Z.odd k then [OSend 1 (PData 100)] else [])
  ++ [ODrain; OTick 20000; OHeartbeat 1; ORelease 1; ODrain].

(* ONet t v k: one connection over a REAL socket accepted by a real acceptor started through
   pomelo.StartAcceptor - transport t: 0 TCP (TCPAcceptor / tcpPlayerConn), 1 TCP+TLS (the same
   with certificates), 2 websocket (WSAcceptor / WSConn), 3 websocket over TLS - nothing held:
   handshake, ack, k messages, then end cause v:
     0 client closes politely        1 illegal header              2 truncated frame + close
     3 kick                          4 undecodable message         5 (instead of all that) a
     handshake with bad JSON         6 client aborts (RST)         7 heartbeat expiry
     8 frame longer than its header  9 the client stops reading, the writer parks in the socket
     write, then kick                10 the same, then heartbeat expiry.
   The transport does not change what must be observed.  With TLS and a peer that is gone
   (6) conn.Close() returns an error: OCloseErr. *)
Definition net_script (t v k : Z) : list op :=
  if Z.eqb v 5 then [ODial 1; OSend 1 PHandshakeBad; ORelease 1; ODrain]
  else
    [ODial 1; OSend 1 PHandshake; ORelease 1; OSend 1 PAck; ORelease 1]
    ++ flat_map (fun m => [OSend 1 (PData m); ORelease 1]) (zseq (Z.min k 20))
    ++ [ODrain]
    ++ (if Z.eqb v 0 then [OClientClose 1; ORelease 1]
        else if Z.eqb v 1 then [OSend 1 PBadType; ORelease 1]
        else if Z.eqb v 2 then [OSend 1 PTruncEof; ORelease 1]
        else if Z.eqb v 3 then [OKick 1]
        else if Z.eqb v 4 then [OSend 1 PDataBad; ORelease 1]
        else if Z.eqb v 6 then [OCloseErr 1; OClientClose 1; ORelease 1]
        else if Z.eqb v 7 then [OTick 20000; OHeartbeat 1]
        else if Z.eqb v 8 then [OSend 1 PBadType; ORelease 1]
        else if Z.eqb v 9 then [OWstall 1; OPush [1]; OPush [1]; OKick 1]
        else if Z.eqb v 10 then [OWstall 1; OPush [1]; OPush [1]; OTick 20000; OHeartbeat 1]
        else [OClientClose 1; ORelease 1])
    ++ [ODrain].

(* OTcp v k = ONet 0 v k (kept for recorded replays) *)
Definition tcp_script (v k : Z) : list op := net_script 0 v k.

(* OBurst n: the owning service is busy (its scheduler queue is full, so the OnSessionCreate
   of the first accepted connection parks StartAcceptor's loop); n clients connect at once:
   1 in the loop's hand, 99 in connChan, 1 in the accept loop's hand, the rest in the
   listener's backlog.  Then the service catches up.  Every client then handshakes, acks and
   sends one message carrying its own number; all is drained; every client closes; drained. *)
Definition burst_script (n : Z) : list op :=
  let cs := zseq (Z.min n 400) in
  [OGate true] ++ map ODial cs ++ [OGate false; ODrain]
  ++ flat_map (fun c => [OSend c PHandshake; ORelease c; OSend c PAck; ORelease c;
                         OSend c (PData c); ORelease c]) cs
  ++ [ODrain]
  ++ flat_map (fun c => [OClientClose c; ORelease c]) cs
  ++ [ODrain].

Definition exec_op (s : st) (o : op) : st :=
  match o with
  | ORealTicker k => fold_left exec_op1 (rt_script k) s
  | OTcp v k => fold_left exec_op1 (tcp_script v k) s
  | ONet t v k => fold_left exec_op1 (net_script t v k) s
  | OBurst n => fold_left exec_op1 (burst_script n) s
  | _ => exec_op1 s o
  end.

Definition exec_ops (ops : list op) : st := fold_left exec_op ops init.

(* the other linearisation of a race with the reader: closers first, release last *)
Definition exec_op_alt (s : st) (o : op) : st :=
  match o with
  | ORaceRel c l => settle_all (fold_left exec_simple (l ++ [ORelease c]) s)
  | _ => exec_op s o
  end.
Definition exec_ops_alt (ops : list op) : st := fold_left exec_op_alt ops init.

(* ---- observables ---- *)
Inductive cfin := CFin (c ncb nclose npush nsent : Z) (eofseen : bool).
(* blocked: goroutines parked in pushToSend at the end of the case *)
Inductive obs := Obs (hlog : list hev) (fins : list cfin) (alive blocked : Z) (hang leak : bool).

Definition alive_of (k : conn) : Z :=
  (match c_rp k with RDone => 0 | _ => 1 end)
  + (match c_wp k with WDone => 0 | _ => 1 end)
  + (match c_hp k with HDone => 0 | _ => 1 end).

(* senders that cannot complete their send *)
Definition blocked_of (k : conn) : Z :=
  (if Z.ltb 0 (c_pp k) && negb (can_send k)
      && match c_status k with SClosed => false | _ => true end then 1 else 0)
  + (match c_hp k with HSend => if can_send k then 0 else 1 | _ => 0 end).

Definition owner_blocked (s : st) : Z :=
  match own s with
  | [] => 0
  | c :: _ => match target_of s c with
              | Some c' => match aget c' (conns s) with
                           | Some k => match push_k k with None => 1 | Some _ => 0 end
                           | None => 0
                           end
              | None => 0
              end
  end.

Definition expand (ops : list op) : list op :=
  flat_map (fun o => match o with
                     | ORealTicker k => rt_script k
                     | OTcp v k => tcp_script v k
                     | ONet t v k => net_script t v k
                     | OBurst n => burst_script n
                     | _ => [o]
                     end) ops.

Fixpoint order_of (ops : list op) (seen : list Z) : list Z :=
  match ops with
  | [] => []
  | OConnect c :: r | ODial c :: r =>
      if zmem c seen then order_of r seen else c :: order_of r (c :: seen)
  | _ :: r => order_of r seen
  end.

Definition fin_of (s : st) (c : Z) : cfin :=
  match aget c (conns s) with
  | Some k => CFin c (c_ncb k) (c_ncb k) (c_npush k) (c_nsent k) (c_latch k)
  | None => CFin c 0 0 0 0 false
  end.

Definition obs_of (ops : list op) (s : st) : obs :=
  Obs (f_hlog (fr s)) (map (fin_of s) (order_of (expand ops) []))
      (fold_left (fun n ck => n + alive_of (snd ck)) (conns s) 0)
      (fold_left (fun n ck => n + blocked_of (snd ck)) (conns s) 0 + owner_blocked s)
      false false.

Definition model_obs (ops : list op) : obs := obs_of ops (exec_ops ops).
