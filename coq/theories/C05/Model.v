(* C05 - model of one front-end's client connections: pomelonet/server/session/session.go
   (ClientSession: read / write / heartbeat goroutines and the Close latch), the posting of
   session events through node/client/impls/pomelo/sessionsimpl.go onto the owning service's
   scheduler, and node/client/impls/sessions.go (ClientSessions) consuming them.
   REPAIRED code is modelled (hooks/C05-fix-read-exit-closes.patch: read() closes on every
   exit; hooks/C05-fix-drop-message-of-removed-session.patch: ProcessMessage drops a message
   whose session is unknown).  No proofs in this file.

   Interleaving semantics.  A state holds any number of connections (keyed by a token),
   the front's FIFO [q] of posted events, the events already consumed [dn], the front
   (ClientSessions) and the clock.  [step] executes ONE label:
     - environment: LConnect (accept: NewClientSession + Handle), LSend (client bytes arrive),
       LEof (client closes), LWfail (conn.Write starts failing), LTick (clock advances);
     - LStep c t: thread t in {TR read loop, TW write loop, TH heartbeat} of connection c
       performs its next atomic step (a stutter when it is blocked or finished);
     - external closers: LKick (owning service: ClientSessions.Kick), LCloseExt (any other
       goroutine calling Close); LPush (owning service: ClientSessions.PushMsg);
     - LFront: the owning service consumes the head of [q];
     - LSetNext: verification hook positioning the id allocator (not production code).
   Atomicity: one step = one access to shared state (status word, latch under the mutex,
   chSend, the scheduler queue, the connection) together with the goroutine-local
   computation that precedes it.  Close() is ONE step (it runs under the session mutex):
   test-and-set of the latch; iff it flipped: status := Closed, chSend/chanClose closed,
   conn.Close(), OnSessionClose => post ERemove.
   Schedules are [list label]; every theorem quantifies over all of them.

   Go -> model:
     ClientSession.state (atomic int32)        st_status      Start/Handshake/Working/Closed
     chanClose (closed or not, under mutex)    latch
     chSend                                    sendq          (never full: capacity 9999 not modelled)
     lastHeartBeat, common.NowMs()             lasthb, now    ms; limit 2*10*1000
     conn.GetNextMessage (tcp framing)         inbox/eof      packet CLASSES, see [pkt]
     sche.Sche channel of the owning service   q              FIFO, several producers
     ClientSessions.sessions / idService       live / next    uint32 counter, wraps, skips 0 *)
From Cell2V Require Import Common.Tac Common.ListX Common.AList.

Inductive status := SStart | SHandshake | SWorking | SClosed.

(* what the client can put on the wire, by the branch of read()/processPacket it reaches *)
Inductive pkt :=
| PHandshake            (* handshake packet, valid JSON *)
| PHandshakeBad         (* handshake packet, JSON does not parse *)
| PAck                  (* handshake ack *)
| PData (m : Z)         (* data packet, message decodes; m identifies the message *)
| PDataBad              (* data packet, message.Decode fails *)
| PHeartbeat
| POther                (* valid header of a type the server ignores (Kick) *)
| PBadType              (* header with an illegal type: GetNextMessage fails *)
| PTruncEof             (* announces more bytes than are sent, then the client closes *)
| PDecErr.              (* SessionConfig.Decoder.Decode reports an error *)

Inductive rpc := RTop | RRead | RGot (p : pkt) | RClose | RDone.
Inductive wpc := WLoop | WClose | WDone.
Inductive hpc := HLoop | HClose | HDone.
Inductive tid := TR | TW | TH.
Inductive witem := WHb | WPush.

Record conn := mkConn {
  c_status : status;
  c_latch : bool;          (* chanClose closed *)
  c_lasthb : Z;
  c_rp : rpc; c_wp : wpc; c_hp : hpc;
  c_sendq : list witem;    (* chSend *)
  c_inbox : list pkt;      (* bytes sent by the client, not yet read *)
  c_eof : bool;            (* client closed its end *)
  c_wfail : bool;          (* conn.Write fails *)
  (* ghost / observable counters *)
  c_cause : bool;          (* an end cause has been signalled for this connection *)
  c_ncb : Z;               (* OnSessionClose callbacks = conn.Close() calls *)
  c_npush : Z;             (* Push calls issued by the front *)
  c_nsent : Z;             (* push packets written to the client *)
  c_arrived : list Z       (* data messages in the order the client sent them *)
}.

Definition conn0 : conn :=
  mkConn SStart false 0 RTop WLoop HLoop [] [] false false false 0 0 0 [].

Inductive ev := EAdd (c : Z) | EMsg (c m : Z) | ERemove (c : Z).

(* invocations of the owning service's ISessionsHandler / close callback *)
Inductive hev :=
| HAdd (c id : Z)
| HMsg (c id m : Z)            (* Process(session of c with this id, message m) *)
| HMsgNil (m : Z)              (* Process(nil, m): only the unrepaired code does this *)
| HRemove (c id : Z) (gone : bool)   (* gone: the session was already deleted from the map *)
| HCloseCb (c id : Z).

Record front := mkFront {
  f_next : Z;                  (* SerialIdService.nextId *)
  f_live : alist Z;            (* sessions: id -> connection *)
  f_netid : alist Z;           (* ClientSession.netId as stamped by AddSession *)
  f_hlog : list hev;
  f_used : list Z;             (* ghost: every id handed out so far *)
  f_reused : bool              (* ghost: some id was handed out twice *)
}.

Record st := mkSt {
  conns : alist conn;
  q : list ev;
  dn : list ev;                (* consumed events, oldest first *)
  fr : front;
  now : Z
}.

Definition two32 := 4294967296.
Definition hb_limit := 20000.       (* 2 * DefaultHeartbeatTimeSeconds * 1000 *)

Definition front0 (next0 : Z) : front := mkFront next0 [] [] [] [] false.
Definition init_with (next0 : Z) : st := mkSt [] [] [] (front0 next0) 1000000.
Definition init : st := init_with 1.        (* NewSerialIdService: nextId = 1 *)

(* SerialIdService.AllocId: atomic add; 0 is skipped *)
Definition alloc (n : Z) : Z :=
  let v := (n + 1) mod two32 in if Z.eqb v 0 then 1 else v.

Inductive label :=
| LConnect (c : Z)
| LSend (c : Z) (p : pkt)
| LEof (c : Z)
| LWfail (c : Z)
| LTick (d : Z)
| LStep (c : Z) (t : tid)
| LKick (c : Z)
| LCloseExt (c : Z)
| LPush (cs : list Z)
| LFront
| LSetNext (v : Z).

(* ---- record updates ---- *)
Definition set_conn (c : Z) (k : conn) (s : st) : st :=
  mkSt (aset c k (conns s)) (q s) (dn s) (fr s) (now s).
Definition post (e : ev) (s : st) : st :=
  mkSt (conns s) (q s ++ [e]) (dn s) (fr s) (now s).

Definition k_status (x : status) (k : conn) : conn :=
  mkConn x (c_latch k) (c_lasthb k) (c_rp k) (c_wp k) (c_hp k) (c_sendq k) (c_inbox k)
         (c_eof k) (c_wfail k) (c_cause k) (c_ncb k) (c_npush k) (c_nsent k) (c_arrived k).
Definition k_lasthb (x : Z) (k : conn) : conn :=
  mkConn (c_status k) (c_latch k) x (c_rp k) (c_wp k) (c_hp k) (c_sendq k) (c_inbox k)
         (c_eof k) (c_wfail k) (c_cause k) (c_ncb k) (c_npush k) (c_nsent k) (c_arrived k).
Definition k_rp (x : rpc) (k : conn) : conn :=
  mkConn (c_status k) (c_latch k) (c_lasthb k) x (c_wp k) (c_hp k) (c_sendq k) (c_inbox k)
         (c_eof k) (c_wfail k) (c_cause k) (c_ncb k) (c_npush k) (c_nsent k) (c_arrived k).
Definition k_wp (x : wpc) (k : conn) : conn :=
  mkConn (c_status k) (c_latch k) (c_lasthb k) (c_rp k) x (c_hp k) (c_sendq k) (c_inbox k)
         (c_eof k) (c_wfail k) (c_cause k) (c_ncb k) (c_npush k) (c_nsent k) (c_arrived k).
Definition k_hp (x : hpc) (k : conn) : conn :=
  mkConn (c_status k) (c_latch k) (c_lasthb k) (c_rp k) (c_wp k) x (c_sendq k) (c_inbox k)
         (c_eof k) (c_wfail k) (c_cause k) (c_ncb k) (c_npush k) (c_nsent k) (c_arrived k).
Definition k_sendq (x : list witem) (k : conn) : conn :=
  mkConn (c_status k) (c_latch k) (c_lasthb k) (c_rp k) (c_wp k) (c_hp k) x (c_inbox k)
         (c_eof k) (c_wfail k) (c_cause k) (c_ncb k) (c_npush k) (c_nsent k) (c_arrived k).
Definition k_inbox (x : list pkt) (k : conn) : conn :=
  mkConn (c_status k) (c_latch k) (c_lasthb k) (c_rp k) (c_wp k) (c_hp k) (c_sendq k) x
         (c_eof k) (c_wfail k) (c_cause k) (c_ncb k) (c_npush k) (c_nsent k) (c_arrived k).
Definition k_eof (k : conn) : conn :=
  mkConn (c_status k) (c_latch k) (c_lasthb k) (c_rp k) (c_wp k) (c_hp k) (c_sendq k) (c_inbox k)
         true (c_wfail k) (c_cause k) (c_ncb k) (c_npush k) (c_nsent k) (c_arrived k).
Definition k_wfail (k : conn) : conn :=
  mkConn (c_status k) (c_latch k) (c_lasthb k) (c_rp k) (c_wp k) (c_hp k) (c_sendq k) (c_inbox k)
         (c_eof k) true (c_cause k) (c_ncb k) (c_npush k) (c_nsent k) (c_arrived k).
Definition k_cause (k : conn) : conn :=
  mkConn (c_status k) (c_latch k) (c_lasthb k) (c_rp k) (c_wp k) (c_hp k) (c_sendq k) (c_inbox k)
         (c_eof k) (c_wfail k) true (c_ncb k) (c_npush k) (c_nsent k) (c_arrived k).
Definition k_npush (k : conn) : conn :=
  mkConn (c_status k) (c_latch k) (c_lasthb k) (c_rp k) (c_wp k) (c_hp k) (c_sendq k) (c_inbox k)
         (c_eof k) (c_wfail k) (c_cause k) (c_ncb k) (c_npush k + 1) (c_nsent k) (c_arrived k).
Definition k_nsent (k : conn) : conn :=
  mkConn (c_status k) (c_latch k) (c_lasthb k) (c_rp k) (c_wp k) (c_hp k) (c_sendq k) (c_inbox k)
         (c_eof k) (c_wfail k) (c_cause k) (c_ncb k) (c_npush k) (c_nsent k + 1) (c_arrived k).
Definition k_arrived (x : list Z) (k : conn) : conn :=
  mkConn (c_status k) (c_latch k) (c_lasthb k) (c_rp k) (c_wp k) (c_hp k) (c_sendq k) (c_inbox k)
         (c_eof k) (c_wfail k) (c_cause k) (c_ncb k) (c_npush k) (c_nsent k) x.
(* the effect of a Close() that flips the latch, on the connection record *)
Definition k_closed (k : conn) : conn :=
  mkConn SClosed true (c_lasthb k) (c_rp k) (c_wp k) (c_hp k) (c_sendq k) (c_inbox k)
         (c_eof k) (c_wfail k) (c_cause k) (c_ncb k + 1) (c_npush k) (c_nsent k) (c_arrived k).

(* ClientSession.Close(): the ONLY place that posts ERemove *)
Definition do_close (c : Z) (s : st) : st :=
  match aget c (conns s) with
  | None => s
  | Some k => if c_latch k then s else post (ERemove c) (set_conn c (k_closed k) s)
  end.

Definition below_working (x : status) : bool :=
  match x with SStart | SHandshake => true | _ => false end.

(* ---- the read loop ---- *)
Definition step_R (c : Z) (k : conn) (s : st) : st :=
  match c_rp k with
  | RTop =>                      (* for { if s.GetStatus() == StatusClosed { break } *)
      set_conn c (k_rp (match c_status k with SClosed => RClose | _ => RRead end) k) s
  | RRead =>                     (* conn.GetNextMessage() *)
      if c_latch k then set_conn c (k_rp RClose k) s          (* connection closed under us *)
      else match c_inbox k with
           | PBadType :: r | PTruncEof :: r =>               (* framing error *)
               set_conn c (k_cause (k_rp RClose (k_inbox r k))) s
           | p :: r => set_conn c (k_rp (RGot p) (k_inbox r k)) s
           | [] => if c_eof k then set_conn c (k_rp RClose k) s else s   (* EOF / blocked *)
           end
  | RGot p =>                    (* Decoder.Decode + processPacket *)
      match p with
      | PDecErr => set_conn c (k_cause (k_rp RClose k)) s
      | PHandshake =>            (* SendHandshakeResponse writes on the connection directly *)
          if c_latch k || c_wfail k then set_conn c (k_cause (k_rp RClose k)) s
          else set_conn c (k_rp RTop (k_status SHandshake k)) s
      | PHandshakeBad =>
          if c_latch k || c_wfail k then set_conn c (k_cause (k_rp RClose k)) s
          else set_conn c (k_cause (k_rp RClose (k_status SClosed k))) s
      | PAck => set_conn c (k_rp RTop (k_status SWorking (k_lasthb (now s) k))) s
      | PData m =>
          if below_working (c_status k) then set_conn c (k_rp RTop k) s
          else post (EMsg c m) (set_conn c (k_rp RTop k) s)
      | PDataBad =>
          if below_working (c_status k) then set_conn c (k_rp RTop k) s
          else set_conn c (k_cause (k_rp RClose k)) s
      | PHeartbeat => set_conn c (k_rp RTop (k_lasthb (now s) k)) s
      | POther => set_conn c (k_rp RTop k) s
      | PBadType | PTruncEof => set_conn c (k_cause (k_rp RClose k)) s   (* not reachable *)
      end
  | RClose =>                    (* defer s.Close() *)
      match aget c (conns (do_close c s)) with
      | Some k' => set_conn c (k_rp RDone k') (do_close c s)
      | None => s
      end
  | RDone => s
  end.

(* ---- the write loop ---- *)
Definition step_W (c : Z) (k : conn) (s : st) : st :=
  match c_wp k with
  | WLoop =>
      if c_latch k then set_conn c (k_wp WClose k) s
      else match c_sendq k with
           | x :: r =>
               if c_wfail k then set_conn c (k_cause (k_wp WClose (k_sendq r k))) s
               else set_conn c (match x with WPush => k_nsent (k_sendq r k) | WHb => k_sendq r k end) s
           | [] => s
           end
  | WClose =>
      match aget c (conns (do_close c s)) with
      | Some k' => set_conn c (k_wp WDone k') (do_close c s)
      | None => s
      end
  | WDone => s
  end.

(* ---- the heartbeat loop: one tick = checkHeartBeatTimeout ; sendHeartBeat ---- *)
Definition step_H (c : Z) (k : conn) (s : st) : st :=
  match c_hp k with
  | HLoop =>
      if c_latch k then set_conn c (k_hp HDone k) s
      else match c_status k with
           | SWorking =>
               if Z.ltb (now s) (c_lasthb k + hb_limit)
               then set_conn c (k_sendq (c_sendq k ++ [WHb]) k) s
               else set_conn c (k_cause (k_hp HClose k)) s
           | _ => s
           end
  | HClose =>
      match aget c (conns (do_close c s)) with
      | Some k' => set_conn c (k_hp HLoop k') (do_close c s)
      | None => s
      end
  | HDone => s
  end.

(* ---- the front: ClientSessions on the owning service ---- *)
Definition netid_of (f : front) (c : Z) : Z :=
  match aget c (f_netid f) with Some i => i | None => 0 end.

Definition front_ev (f : front) (e : ev) : front :=
  match e with
  | EAdd c =>
      let id := alloc (f_next f) in
      mkFront id (aset id c (f_live f)) (aset c id (f_netid f))
              (f_hlog f ++ [HAdd c id]) (id :: f_used f)
              (f_reused f || zmem id (f_used f))
  | EMsg c m =>
      let id := netid_of f c in
      match aget id (f_live f) with
      | Some c' => mkFront (f_next f) (f_live f) (f_netid f) (f_hlog f ++ [HMsg c' id m])
                           (f_used f) (f_reused f)
      | None => f                                   (* repaired: dropped *)
      end
  | ERemove c =>
      let id := netid_of f c in
      match aget id (f_live f) with
      | Some c' => mkFront (f_next f) (adel id (f_live f)) (f_netid f)
                           (f_hlog f ++ [HRemove c' id true; HCloseCb c' id])
                           (f_used f) (f_reused f)
      | None => f
      end
  end.

Definition set_front (f : front) (s : st) : st := mkSt (conns s) (q s) (dn s) f (now s).

(* ClientSession.Push as called by PushMsg for a live session *)
Definition push_conn (c : Z) (s : st) : st :=
  match aget c (conns s) with
  | None => s
  | Some k =>
      let k1 := k_npush k in
      match c_status k with
      | SClosed => set_conn c k1 s                        (* errors.New("closed") *)
      | _ => if c_latch k then set_conn c k1 s            (* send on closed chSend: recovered *)
             else set_conn c (k_sendq (c_sendq k ++ [WPush]) k1) s
      end
  end.

Definition push_one (s : st) (c : Z) : st :=
  match aget c (f_netid (fr s)) with
  | None => s
  | Some id => match aget id (f_live (fr s)) with
               | Some c' => push_conn c' s
               | None => s                                (* onSessionMissed *)
               end
  end.

Definition step (s : st) (l : label) : st :=
  match l with
  | LConnect c =>
      match aget c (conns s) with
      | Some _ => s
      | None => post (EAdd c) (set_conn c conn0 s)
      end
  | LSend c p =>
      match aget c (conns s) with
      | Some k =>
          if c_eof k then s
          else
            let k1 := k_inbox (c_inbox k ++ [p]) k in
            let k2 := match p with PData m => k_arrived (c_arrived k ++ [m]) k1 | _ => k1 end in
            let k3 := match p with PTruncEof => k_cause (k_eof k2) | _ => k2 end in
            set_conn c k3 s
      | None => s
      end
  | LEof c =>
      match aget c (conns s) with
      | Some k => set_conn c (k_cause (k_eof k)) s
      | None => s
      end
  | LWfail c =>
      match aget c (conns s) with
      | Some k => set_conn c (k_wfail k) s
      | None => s
      end
  | LTick d => mkSt (conns s) (q s) (dn s) (fr s) (now s + Z.max 0 d)
  | LStep c t =>
      match aget c (conns s) with
      | Some k => match t with TR => step_R c k s | TW => step_W c k s | TH => step_H c k s end
      | None => s
      end
  | LKick c =>
      match aget c (f_netid (fr s)) with
      | Some id => match aget id (f_live (fr s)) with
                   | Some c' => match aget c' (conns s) with
                                | Some k' => do_close c' (set_conn c' (k_cause k') s)
                                | None => s
                                end
                   | None => s
                   end
      | None => s
      end
  | LCloseExt c =>
      match aget c (conns s) with
      | Some k => do_close c (set_conn c (k_cause k) s)
      | None => s
      end
  | LPush cs => fold_left push_one cs s
  | LFront =>
      match q s with
      | e :: r => mkSt (conns s) r (dn s ++ [e]) (front_ev (fr s) e) (now s)
      | [] => s
      end
  | LSetNext v => set_front (mkFront (v mod two32) (f_live (fr s)) (f_netid (fr s)) (f_hlog (fr s))
                                     (f_used (fr s)) (f_reused (fr s))) s
  end.

Definition run_from (s : st) (tr : list label) : st := fold_left step tr s.
Definition run (tr : list label) : st := run_from init tr.

(* ------------------------------------------------------------------------------------
   Harness operations: each is a particular schedule.  The harness cannot hold the write
   and heartbeat goroutines, and holds the reader only inside Decoder.Decode, so after
   every operation the free-running threads run until they block ([settle]). *)
Inductive op :=
| OConnect (c : Z)
| OSend (c : Z) (p : pkt)
| ORelease (c : Z)              (* let the reader parked in Decode go on *)
| OClientClose (c : Z)
| OKick (c : Z)
| OCloseExt (c : Z)
| OTick (d : Z)
| OHeartbeat (c : Z)            (* one heartbeat tick of c *)
| OWfail (c : Z)
| OPush (cs : list Z)
| OFront
| ODrain
| OSetNext (v : Z)
| ORace (l : list op)           (* the listed simple operations issued concurrently *)
| ORaceRel (c : Z) (l : list op) (* ... concurrently with releasing c's parked reader *)
| ORealTicker (k : Z)           (* scripted scenario run with the REAL heartbeat ticker, see rt_script *)
| OTcp (v k : Z).               (* scripted scenario over a REAL TCP socket and acceptor, see tcp_script *)

(* labels a free-running connection takes next (none when parked / blocked) *)
Definition free_labels (c : Z) (k : conn) : list label :=
  (match c_rp k with RGot _ | RDone => [] | _ => [LStep c TR] end)
  ++ [LStep c TW].

Definition settle_round (s : st) : st :=
  fold_left (fun s ck => fold_left step (free_labels (fst ck) (snd ck)) s) (conns s) s.

Fixpoint settle_n (n : nat) (s : st) : st :=
  match n with O => s | S n' => settle_n n' (settle_round s) end.

(* H only reacts to the latch while the harness is not ticking it *)
Definition settle_H (s : st) : st :=
  fold_left (fun s ck => if c_latch (snd ck) then step s (LStep (fst ck) TH) else s) (conns s) s.

Definition sendq_total (s : st) : nat :=
  fold_left (fun n ck => (n + length (c_sendq (snd ck)))%nat) (conns s) 0%nat.

Definition settle (s : st) : st :=
  let s1 := settle_n (8 + sendq_total s) s in
  let s2 := settle_H s1 in
  settle_n 4 s2.

Definition hp_of (s : st) (c : Z) : hpc :=
  match aget c (conns s) with Some k => c_hp k | None => HDone end.

Definition exec_simple (s : st) (o : op) : st :=
  match o with
  | ORelease c =>
      match aget c (conns s) with
      | Some k => match c_rp k with RGot _ => step s (LStep c TR) | _ => s end
      | None => s
      end
  | OClientClose c => step s (LEof c)
  | OKick c => step s (LKick c)
  | OCloseExt c => step s (LCloseExt c)
  | OHeartbeat c =>
      (* the harness runs the tick body (check ; send) itself: after the latch it has no effect *)
      match aget c (conns s) with
      | Some k =>
          if c_latch k then s
          else let s1 := step s (LStep c TH) in
               match hp_of s1 c with HClose => step s1 (LStep c TH) | _ => s1 end
      | None => s
      end
  | OWfail c => step s (LWfail c)
  | _ => s
  end.

Fixpoint drain (n : nat) (s : st) : st :=
  match n with O => s | S n' => match q s with [] => s | _ => drain n' (step s LFront) end end.

Definition exec_op1 (s : st) (o : op) : st :=
  settle
    (match o with
     | OConnect c => step s (LConnect c)
     | OSend c p => step s (LSend c p)
     | OTick d => step s (LTick d)
     | OPush cs => step s (LPush cs)
     | OFront => step s LFront
     | ODrain => drain (length (q s)) s
     | OSetNext v => step s (LSetNext v)
     | ORace l => fold_left exec_simple l s
     | ORaceRel c l => fold_left exec_simple (ORelease c :: l) s
     | _ => exec_simple s o
     end).

(* ORealTicker k: connection 1 with heartbeat() ticking for real every few ms (virtual clock
   frozen): handshake, ack, k messages handled, one more message held in flight iff k is odd,
   then the clock jumps past the limit and the harness WAITS for the ticker to close the
   session; then release, drain.  Same observables as placing the tick by hand: *)
Definition rt_script (k : Z) : list op :=
  [OConnect 1; OSend 1 PHandshake; ORelease 1; OSend 1 PAck; ORelease 1]
  ++ flat_map (fun m => [OSend 1 (PData m); ORelease 1]) (map Z.of_nat (seq 1 (Z.to_nat (Z.min k 20))))
  ++ (if Z.odd k then [OSend 1 (PData 100)] else [])
  ++ [ODrain; OTick 20000; OHeartbeat 1; ORelease 1; ODrain].

(* OTcp v k: one connection accepted by the real TCPAcceptor through pomelo.StartAcceptor,
   read by the real tcpPlayerConn.GetNextMessage, nothing held: handshake, ack, k messages,
   then end cause v: 0 client close, 1 illegal header, 2 truncated frame + close, 3 kick,
   4 undecodable message, 5 (instead of all that) a handshake with bad JSON. *)
Definition tcp_script (v k : Z) : list op :=
  if Z.eqb v 5 then [OConnect 1; OSend 1 PHandshakeBad; ORelease 1; ODrain]
  else
    [OConnect 1; OSend 1 PHandshake; ORelease 1; OSend 1 PAck; ORelease 1]
    ++ flat_map (fun m => [OSend 1 (PData m); ORelease 1]) (map Z.of_nat (seq 1 (Z.to_nat (Z.min k 20))))
    ++ [ODrain]
    ++ (if Z.eqb v 0 then [OClientClose 1; ORelease 1]
        else if Z.eqb v 1 then [OSend 1 PBadType; ORelease 1]
        else if Z.eqb v 2 then [OSend 1 PTruncEof; ORelease 1]
        else if Z.eqb v 3 then [OKick 1]
        else [OSend 1 PDataBad; ORelease 1])
    ++ [ODrain].

Definition exec_op (s : st) (o : op) : st :=
  match o with
  | ORealTicker k => fold_left exec_op1 (rt_script k) s
  | OTcp v k => fold_left exec_op1 (tcp_script v k) s
  | _ => exec_op1 s o
  end.

Definition exec_ops (ops : list op) : st := fold_left exec_op ops init.

(* the other linearisation of a race with the reader: closers first, release last *)
Definition exec_op_alt (s : st) (o : op) : st :=
  match o with
  | ORaceRel c l => settle (fold_left exec_simple (l ++ [ORelease c]) s)
  | _ => exec_op s o
  end.
Definition exec_ops_alt (ops : list op) : st := fold_left exec_op_alt ops init.

(* ---- observables ---- *)
Inductive cfin := CFin (c ncb nclose npush nsent : Z) (eofseen : bool).
Inductive obs := Obs (hlog : list hev) (fins : list cfin) (alive : Z) (hang leak : bool).

Definition alive_of (k : conn) : Z :=
  (match c_rp k with RDone => 0 | _ => 1 end)
  + (match c_wp k with WDone => 0 | _ => 1 end)
  + (match c_hp k with HDone => 0 | _ => 1 end).

Fixpoint order_of (ops : list op) (seen : list Z) : list Z :=
  match ops with
  | [] => []
  | OConnect c :: r => if zmem c seen then order_of r seen else c :: order_of r (c :: seen)
  | _ :: r => order_of r seen
  end.

Definition fin_of (s : st) (c : Z) : cfin :=
  match aget c (conns s) with
  | Some k => CFin c (c_ncb k) (c_ncb k) (c_npush k) (c_nsent k) (c_latch k)
  | None => CFin c 0 0 0 0 false
  end.

Definition expand (ops : list op) : list op :=
  flat_map (fun o => match o with ORealTicker k => rt_script k | OTcp v k => tcp_script v k | _ => [o] end) ops.

Definition obs_of (ops : list op) (s : st) : obs :=
  Obs (f_hlog (fr s)) (map (fin_of s) (order_of (expand ops) []))
      (fold_left (fun n ck => n + alive_of (snd ck)) (conns s) 0) false false.

Definition model_obs (ops : list op) : obs := obs_of ops (exec_ops ops).
