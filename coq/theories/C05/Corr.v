(* C05 - correspondence entry point: the model's observables for a fault sequence compared
   with the implementation's, and the property monitor evaluated on the implementation's own
   handler log.  Used by generated case files. *)
From Cell2V Require Import Common.Tac Common.ListX Common.AList C05.Model C05.Spec.

Definition hev_eqb (a b : hev) : bool :=
  match a, b with
  | HAdd c i, HAdd c' i' => Z.eqb c c' && Z.eqb i i'
  | HMsg c i m, HMsg c' i' m' => Z.eqb c c' && Z.eqb i i' && Z.eqb m m'
  | HMsgNil m, HMsgNil m' => Z.eqb m m'
  | HRemove c i g, HRemove c' i' g' => Z.eqb c c' && Z.eqb i i' && Bool.eqb g g'
  | HOnClose c i, HOnClose c' i' => Z.eqb c c' && Z.eqb i i'
  | HCloseCb c i, HCloseCb c' i' => Z.eqb c c' && Z.eqb i i'
  | _, _ => false
  end.

Definition cfin_eqb (a b : cfin) : bool :=
  match a, b with
  | CFin c n1 n2 n3 n4 e, CFin c' m1 m2 m3 m4 e' =>
      Z.eqb c c' && Z.eqb n1 m1 && Z.eqb n2 m2 && Z.eqb n3 m3 && Z.eqb n4 m4 && Bool.eqb e e'
  end.

Definition obs_eqb (a b : obs) : bool :=
  match a, b with
  | Obs h f al bl hg lk, Obs h' f' al' bl' hg' lk' =>
      list_eqb hev_eqb h h' && list_eqb cfin_eqb f f' && Z.eqb al al' && Z.eqb bl bl'
      && Bool.eqb hg hg' && Bool.eqb lk lk'
  end.

Definition case := (list op * obs)%type.

Definition has_racerel (ops : list op) : bool :=
  existsb (fun o => match o with ORaceRel _ _ => true | _ => false end) ops.

(* a release racing with closers has two outcomes: the message is posted before the Remove
   (handled) or after it (dropped); both linearisations are schedules of the model *)
Definition agree (c : case) : bool :=
  obs_eqb (model_obs (fst c)) (snd c)
  || (has_racerel (fst c) && obs_eqb (obs_of (fst c) (exec_ops_alt (fst c))) (snd c)).

(* ---- the monitor: the property on the implementation's own observations ---- *)
Definition sent_data (c : Z) (ops : list op) : list Z :=
  flat_map (fun o => match o with
                     | OSend c' (PData m) => if Z.eqb c c' then [m] else []
                     | _ => []
                     end) ops.

Definition has_setnext (ops : list op) : bool :=
  existsb (fun o => match o with OSetNext _ => true | _ => false end) ops.

(* the sequence ends with the harness letting every reader run to the end and the owning
   service draining its queue *)
Definition is_flush_op (o : op) : bool :=
  match o with ORelease _ | ODrain => true | _ => false end.
Fixpoint flush_suffix (rops : list op) : list op :=        (* on the reversed sequence *)
  match rops with
  | o :: r => if is_flush_op o then o :: flush_suffix r else []
  | [] => []
  end.
Definition n_release (c : Z) (l : list op) : nat :=
  length (filter (fun o => match o with ORelease c' => Z.eqb c c' | _ => false end) l).
Definition n_send (c : Z) (l : list op) : nat :=
  length (filter (fun o => match o with OSend c' _ => Z.eqb c c' | _ => false end) l).
Definition flushed (c : Z) (ops : list op) : bool :=
  match rev ops with
  | ODrain :: _ => Nat.leb (n_send c ops) (n_release c (flush_suffix (rev ops)))
  | _ => false
  end.

(* an unconditional end cause for c occurs after its connect *)
Fixpoint end_cause_after_connect (c : Z) (connected : bool) (ops : list op) : bool :=
  match ops with
  | [] => false
  | OConnect c' :: r | ODial c' :: r => end_cause_after_connect c (connected || Z.eqb c c') r
  | o :: r =>
      (connected &&
       match o with
       | OCloseExt c' | OClientClose c' => Z.eqb c c'
       | OSend c' (PTruncEof | PBadType | PDecErr | PHandshakeBad) => Z.eqb c c'
       | _ => false
       end)
      || end_cause_after_connect c connected r
  end.

Definition must_end (c : Z) (ops : list op) : bool :=
  flushed c ops && end_cause_after_connect c false ops.

Definition known_conn (cs : list Z) (h : hev) : bool :=
  match h with
  | HAdd c _ | HMsg c _ _ | HRemove c _ _ | HOnClose c _ | HCloseCb c _ => zmem c cs
  | HMsgNil _ => false        (* Process(nil, msg): a message handled for no session *)
  end.

Definition fin_ok (hl : list hev) (f : cfin) : bool :=
  match f with
  | CFin c ncb nclose _ _ eofseen =>
      Z.leb 0 ncb && Z.leb ncb 1 && Z.eqb nclose ncb && Bool.eqb eofseen (Z.eqb ncb 1)
      && (negb (complete_b c (hview c hl)) || Z.eqb ncb 1)
  end.

(* the guard of the property: ids are only ever handed out twice when the verification hook
   moved the allocator (OSetNext); such a history documents the wrap and is exempt from the
   life-cycle clauses, not from the resource clauses *)
Definition ids_reused (ops : list op) (hl : list hev) : bool :=
  has_setnext ops && negb (nodupb (add_ids hl)).

Definition monitor (cs : case) : bool :=
  let ops := expand (fst cs) in
  match snd cs with
  | Obs hl fins alive blocked hang leak =>
      let conns := order_of ops [] in
      negb hang && negb leak
      (* nobody stays parked in a push once every connection has ended *)
      && (negb (forallb (fun f => match f with CFin _ ncb _ _ _ _ => Z.eqb ncb 1 end) fins)
          || Z.eqb blocked 0)
      && Z.leb 0 blocked
      && forallb (known_conn conns) hl
      && list_eqb Z.eqb (map (fun f => match f with CFin c _ _ _ _ _ => c end) fins) conns
      && forallb (fun f => match f with CFin _ ncb nclose _ _ e =>
                                          Z.leb 0 ncb && Z.leb ncb 1 && Z.eqb nclose ncb
                                          && Bool.eqb e (Z.eqb ncb 1) end) fins
      && forallb (fun id => negb (Z.eqb id 0)) (add_ids hl)
      && (ids_reused ops hl
          || (forallb (fun c => life_b c (hview c hl) (sent_data c ops)) conns
              && forallb (fun c => negb (must_end c ops) || complete_b c (hview c hl)) conns
              && (has_setnext ops || live_ids_ok [] hl)
              && forallb (fin_ok hl) fins))
  end.

Definition disagreeing (cs : list case) : list Z := failing agree cs.
Definition monitor_failing (cs : list case) : list Z := failing monitor cs.

(* what bin/check.py shows for a failing case *)
Definition show (ops : list op) : obs := model_obs ops.
