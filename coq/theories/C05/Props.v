(* C05 - property theorems only.  Each is closed by [exact] of a lemma from Proofs.v and
   followed by Print Assumptions.  All of them quantify over EVERY schedule [tr : list label]
   (thread steps of any connection, client packets of every class, EOF, write failures, clock
   ticks, kicks, external closes, pushes, front steps, in any order) and over every initial
   value [n] of the id counter. *)
From Cell2V Require Import Common.Tac Common.ListX Common.AList C05.Model C05.Spec C05.Proofs.

(* Single latch, one step: whatever a step does, the events it posts for connection c contain
   a Remove iff this step flipped c's latch, the close callbacks fire exactly then, and the
   latch never opens again. *)
Theorem C05_single_latch : forall s l c,
  exists new,
    posted (step s l) = posted s ++ new /\
    count_remove c new =
      (if negb (latch_of s c) && latch_of (step s l) c then 1 else 0)%nat /\
    ncb_of (step s l) c =
      ncb_of s c + (if negb (latch_of s c) && latch_of (step s l) c then 1 else 0) /\
    (latch_of s c = true -> latch_of (step s l) c = true).
Proof. exact single_latch_step. Qed.
Print Assumptions C05_single_latch.

(* ... hence over any schedule: Remove is posted once iff the connection was closed (by
   whichever cause, however many at once), never twice; the same for the close callbacks. *)
Theorem C05_remove_once : forall n tr c,
  let s := run_from (init_with n) tr in
  count_remove c (posted s) = (if latch_of s c then 1 else 0)%nat /\
  ncb_of s c = (if latch_of s c then 1 else 0).
Proof. exact remove_once. Qed.
Print Assumptions C05_remove_once.

(* Life cycle, at every moment of every schedule (guard: no id handed out twice, see
   C05_fresh_if_few): what the owning service's handler has seen of connection c is nothing,
   or one Add followed by messages of c in arrival order, or that followed by one Remove
   (session already gone from the map), the close callback registered for that session with
   the handler component and the front's close callback, once each - after which NOTHING of c. *)
Theorem C05_lifecycle : forall n tr c,
  let s := run_from (init_with n) tr in
  f_reused (fr s) = false ->
  life_prefix c (hview c (hlog_of s)) (arrived_of s c).
Proof. exact lifecycle_prefix. Qed.
Print Assumptions C05_lifecycle.

(* Life cycle, end: once an end cause was signalled for c (client close, truncated or
   illegal framing, decoder error, failed or invalid handshake, undecodable message, write
   error, heartbeat expiry, kick, external Close - any of them, during any stage), in every
   state where no thread of c can move any more and the owning service has drained its queue,
   the connection IS closed, the callbacks fired exactly once, and the handler saw the complete
   cycle: Add, exactly the messages posted before the Remove (in arrival order), Remove,
   close callback. *)
Theorem C05_lifecycle_end : forall n tr c,
  let s := run_from (init_with n) tr in
  f_reused (fr s) = false ->
  cause_of s c = true -> stuck s c -> q s = [] ->
  latch_of s c = true /\ ncb_of s c = 1 /\
  exists id,
    hview c (hlog_of s) =
    life_open c id (msgs_before_remove c (posted s)) ++ closing c id /\
    subseq (msgs_before_remove c (posted s)) (arrived_of s c).
Proof. exact lifecycle_end. Qed.
Print Assumptions C05_lifecycle_end.

(* The connection object's Close() may return nil or an error (tls: closeNotify to a peer that
   is gone), and Close() may be called by any goroutine, any number of times: the connection
   counts as closed exactly when one call went through the latch, and then - whatever that
   call's conn.Close() returned - the Remove was posted once and the callbacks fired once. *)
Theorem C05_close_outcome : forall n tr c k,
  let s := run_from (init_with n) tr in
  conn_of s c = Some k ->
  (c_latch k = false -> c_cret k = 0 /\ count_remove c (posted s) = 0%nat /\ c_ncb k = 0) /\
  (c_latch k = true -> (c_cret k = 1 \/ c_cret k = 2) /\ count_remove c (posted s) = 1%nat /\ c_ncb k = 1).
Proof. exact close_outcome. Qed.
Print Assumptions C05_close_outcome.

(* The owning service, in the middle of a PushMsg, reaches a target whose session was removed:
   the push is dropped - the service moves on to its next target and nothing else changes. *)
Theorem C05_push_after_remove_dropped : forall n tr c id g rest,
  let s := run_from (init_with n) tr in
  f_reused (fr s) = false -> In (HRemove c id g) (hlog_of s) ->
  own s = c :: rest -> step s LOwner = s_own rest s.
Proof. exact push_after_remove. Qed.
Print Assumptions C05_push_after_remove_dropped.

(* ... and a push step changes nothing but the connection whose live session it addresses:
   other connections, the queue, the front and the clock are untouched. *)
Theorem C05_push_frame : forall s c',
  (forall c rest, own s = c :: rest -> target_of s c <> Some c') ->
  aget c' (conns (step s LOwner)) = aget c' (conns s).
Proof. exact owner_frame. Qed.
Print Assumptions C05_push_frame.

Theorem C05_push_quiet : forall s,
  let s' := step s LOwner in
  q s' = q s /\ dn s' = dn s /\ fr s' = fr s /\ now s' = now s.
Proof. exact owner_quiet_all. Qed.
Print Assumptions C05_push_quiet.

(* The send queue is a bounded FIFO: never more than 9999 entries, in any schedule. *)
Theorem C05_chsend_bounded : forall n tr c k,
  aget c (conns (run_from (init_with n) tr)) = Some k ->
  c_nq k = Z.of_nat (length (c_sendf k) + length (c_sendq k)) /\ 0 <= c_nq k <= chcap.
Proof. exact chsend_bounded. Qed.
Print Assumptions C05_chsend_bounded.

(* A Push parks its caller exactly when the session is open and its queue is full ... *)
Theorem C05_parked_iff_full_and_open : forall k,
  push_k k = None <-> (c_status k <> SClosed /\ c_latch k = false /\ chcap <= c_nq k).
Proof. exact push_k_parked. Qed.
Print Assumptions C05_parked_iff_full_and_open.

(* ... and once the connection is closed nobody stays parked on it: the pushing goroutine's
   next step returns a push (dropped: the queue is unchanged), a parked heartbeat send
   returns, and the owning service parked on this connection moves on to its next target. *)
Theorem C05_closed_never_blocks : forall s c k,
  aget c (conns s) = Some k -> c_latch k = true ->
  (0 < c_pp k -> exists k', aget c (conns (step s (LStep c TP))) = Some k' /\
                            c_pp k' = c_pp k - 1 /\ c_npush k' = c_npush k + 1 /\
                            c_sendq k' = c_sendq k) /\
  (c_hp k = HSend -> exists k', aget c (conns (step s (LStep c TH))) = Some k' /\
                                c_hp k' = HLoop /\ c_sendq k' = c_sendq k) /\
  (forall c0 rest, own s = c0 :: rest -> target_of s c0 = Some c -> own (step s LOwner) = rest).
Proof. exact closed_never_blocks. Qed.
Print Assumptions C05_closed_never_blocks.

(* Hence at the end of a connection (an end cause was signalled, no thread of it - reader,
   writer, heartbeat, pusher - can move): it is closed, every push issued to it has returned,
   no heartbeat send is parked, and the owning service is not parked on it. *)
Theorem C05_end_releases_senders : forall n tr c k,
  let s := run_from (init_with n) tr in
  conn_of s c = Some k -> c_cause k = true -> stuck s c ->
  c_latch k = true /\ c_pp k <= 0 /\ c_hp k <> HSend /\
  (forall c0 rest, own s = c0 :: rest -> target_of s c0 = Some c -> step s LOwner <> s).
Proof. exact end_releases_senders. Qed.
Print Assumptions C05_end_releases_senders.

(* The acceptor: in every schedule every connection the listener accepted is in exactly one
   place - listener backlog, accept loop's hand, connChan (never more than 99), StartAcceptor's
   hand - or has become a session; none is lost, none is duplicated. *)
Theorem C05_acceptor_no_loss : forall n tr, acc_ok (run_from (init_with n) tr).
Proof. exact acc_reach. Qed.
Print Assumptions C05_acceptor_no_loss.

(* ... and once the service has caught up and neither loop can move, every accepted
   connection IS a session with exactly one Add posted (its life cycle is then C05_lifecycle). *)
Theorem C05_acceptor_quiescent : forall n tr,
  let s := run_from (init_with n) tr in
  gate s = false -> step s LStepA = s -> step s LStepS = s ->
  pipeline s = [] /\
  forall c, In c (dialed s) -> conn_of s c <> None /\ count_add c (posted s) = 1%nat.
Proof. exact acceptor_quiescent. Qed.
Print Assumptions C05_acceptor_quiescent.

(* Ids: the j-th session added gets the j-th value of a counter that walks 1 .. 2^32-1
   cyclically (0 skipped) ... *)
Theorem C05_id_sequence : forall n tr j,
  0 <= n <= M32 -> no_setnext tr ->
  0 <= j < Z.of_nat (length (ids_of (run_from (init_with n) tr))) ->
  zth (ids_of (run_from (init_with n) tr)) j = nth_id n (j + 1).
Proof. exact ids_sequence. Qed.
Print Assumptions C05_id_sequence.

(* ... so two sessions added fewer than 2^32-1 allocations apart have different ids: unique
   among live sessions as long as fewer than 2^32-1 sessions are added during a session's life *)
Theorem C05_ids_unique : forall n tr j1 j2,
  0 <= n <= M32 -> no_setnext tr ->
  0 <= j1 < j2 -> j2 < Z.of_nat (length (ids_of (run_from (init_with n) tr))) ->
  j2 - j1 < M32 ->
  zth (ids_of (run_from (init_with n) tr)) j1 <> zth (ids_of (run_from (init_with n) tr)) j2.
Proof. exact ids_unique. Qed.
Print Assumptions C05_ids_unique.

(* the guard of the life-cycle theorems holds while at most 2^32-1 sessions were ever added *)
Theorem C05_fresh_if_few : forall n tr,
  0 <= n <= M32 -> no_setnext tr ->
  Z.of_nat (length (ids_of (run_from (init_with n) tr))) <= M32 ->
  f_reused (fr (run_from (init_with n) tr)) = false.
Proof. exact fresh_if_few. Qed.
Print Assumptions C05_fresh_if_few.

(* every harness fault sequence - and the other linearisation of its races - is a schedule *)
Theorem C05_ops_are_schedules : forall ops,
  (exists tr, exec_ops ops = run tr) /\ (exists tr, exec_ops_alt ops = run tr).
Proof. exact (fun ops => conj (exec_ops_reachable ops) (exec_ops_alt_reachable ops)). Qed.
Print Assumptions C05_ops_are_schedules.

(* the executable life-cycle check used on implementation traces IS the predicate above *)
Theorem C05_monitor_exact : forall c v arrived,
  life_b c v arrived = true <-> life_prefix c v arrived.
Proof. exact (fun c v a => conj (life_b_sound c v a) (life_b_complete c v a)). Qed.
Print Assumptions C05_monitor_exact.

(* ---- non-vacuity ---- *)
(* two connections; 1 handshakes, works, gets a message handled, has a second message read
   and parked in the reader when kick, heartbeat expiry and a write failure all strike; the
   parked message is posted after the Remove and dropped.  End state: cause, stuck, drained. *)
Definition ex_ops : list op :=
  [OConnect 1; OConnect 2; OSend 1 PHandshake; ORelease 1; OSend 1 PAck; ORelease 1;
   OSend 1 (PData 7); ORelease 1; OSend 1 (PData 8); ODrain;
   OTick 20000; OWfail 1; ORace [OKick 1; OHeartbeat 1]; OPush [1; 2]; ORelease 1; ODrain].

Example C05_example_obs :
  model_obs ex_ops =
  Obs [HAdd 1 2; HAdd 2 3; HMsg 1 2 7; HRemove 1 2 true; HOnClose 1 2; HCloseCb 1 2]
      [CFin 1 1 1 1 0 true; CFin 2 0 0 1 1 false] 3 0 false false.
Proof. vm_compute. reflexivity. Qed.

Example C05_example_end :
  let s := exec_ops ex_ops in
  f_reused (fr s) = false /\ cause_of s 1 = true /\ stuck s 1 /\ q s = [] /\
  posted s = [EAdd 1; EAdd 2; EMsg 1 7; ERemove 1; EMsg 1 8] /\
  arrived_of s 1 = [7; 8].
Proof.
  repeat split; try (vm_compute; reflexivity).
  intro t; destruct t; vm_compute; reflexivity.
Qed.

(* the send queue at capacity: the client stops reading, a goroutine issues 10026 pushes (one
   is in the stalled writer's hand, 9999 fill the queue, the 10001st parks), a heartbeat send
   and the owning service park on the same queue; then the session is kicked by an external
   Close: every push returns, nobody stays parked, the Remove is observed *)
Definition flood_ops : list op :=
  [OConnect 1; OSend 1 PHandshake; ORelease 1; OSend 1 PAck; ORelease 1; ODrain;
   OWstall 1; OFlood 1 10026].

Example C05_example_flood_parked :
  model_obs (flood_ops ++ [OHeartbeat 1; OPush [1]]) =
  Obs [HAdd 1 2] [CFin 1 0 0 10000 0 false] 3 3 false false.
Proof. vm_compute. reflexivity. Qed.

Example C05_example_flood_released :
  model_obs (flood_ops ++ [OHeartbeat 1; OPush [1]; OCloseExt 1; ODrain]) =
  Obs [HAdd 1 2; HRemove 1 2 true; HOnClose 1 2; HCloseCb 1 2] [CFin 1 1 1 10027 0 true] 0 0 false false.
Proof. vm_compute. reflexivity. Qed.

(* 130 clients connect while the service is busy; then it catches up *)
Example C05_example_burst_parked :
  let s := exec_ops ([OGate true] ++ map ODial (zseq 130)) in
  shand s = Some 1 /\ length (cch s) = 99%nat /\ ahand s = Some 101 /\ length (backlog s) = 29%nat.
Proof. vm_compute. repeat split. Qed.

Example C05_example_burst_done :
  let s := exec_ops ([OGate true] ++ map ODial (zseq 130) ++ [OGate false; ODrain]) in
  pipeline s = [] /\ length (conns s) = 130%nat /\ length (add_ids (hlog_of s)) = 130%nat.
Proof. vm_compute. repeat split. Qed.

(* conn.Close() reports an error (TLS peer gone with a RST): the life cycle is the same *)
Example C05_example_close_error :
  let s := exec_ops [OConnect 1; OCloseErr 1; OSend 1 PHandshake; ORelease 1; OSend 1 PAck; ORelease 1;
                     OClientClose 1; ORelease 1; ODrain] in
  hlog_of s = [HAdd 1 2; HRemove 1 2 true; HOnClose 1 2; HCloseCb 1 2] /\
  option_map c_cret (conn_of s 1) = Some 2.
Proof. vm_compute. split; reflexivity. Qed.

(* the wrap, as documentation: with the counter moved (hook) so that an id is handed out
   while still live, two live sessions share id 2, connection 1's message is handled under
   connection 2's session and connection 1 is never removed - the guard is necessary *)
Example C05_wrap_exhibit :
  let s := exec_ops [OConnect 1; OSend 1 PHandshake; ORelease 1; OSend 1 PAck; ORelease 1; ODrain;
                     OSetNext 1; OConnect 2; ODrain;
                     OSend 1 (PData 5); ORelease 1; OClientClose 1; ORelease 1; ODrain] in
  f_reused (fr s) = true /\
  hlog_of s = [HAdd 1 2; HAdd 2 2; HMsg 2 2 5; HRemove 2 2 true; HOnClose 2 2; HCloseCb 2 2].
Proof. vm_compute. split; reflexivity. Qed.

(* the counter at the wrap: ... 2^32-1, then 1 (0 skipped), 2 *)
Example C05_wrap_ids :
  ids_of (run_from (init_with 4294967293)
            [LConnect 1; LConnect 2; LConnect 3; LConnect 4; LFront; LFront; LFront; LFront])
  = [4294967294; 4294967295; 1; 2].
Proof. vm_compute. reflexivity. Qed.
