(* C05 - property theorems only.  Each is closed by [exact] of a lemma from Proofs.v and
   followed by Print Assumptions.  All of them quantify over EVERY schedule [tr : list label]
   (thread steps of any connection, client packets of every class, EOF, write failures, clock
   ticks, kicks, external closes, pushes, front steps, in any order) and over every initial
   value [n] of the id counter. *)
From Cell2V Require Import Common.Tac Common.ListX Common.AList C05.Model C05.Spec C05.Proofs.

(* Single latch, one step: whatever a step does, the events it posts for connection c contain
   a Remove iff this step flipped c's latch, the close callbacks fire exactly then, and the
   latch never opens again. *)
Theorem C05_single_latch : forall s l c,
  exists new,
    posted (step s l) = posted s ++ new /\
    count_remove c new =
      (if negb (latch_of s c) && latch_of (step s l) c then 1 else 0)%nat /\
    ncb_of (step s l) c =
      ncb_of s c + (if negb (latch_of s c) && latch_of (step s l) c then 1 else 0) /\
    (latch_of s c = true -> latch_of (step s l) c = true).
Proof. exact single_latch_step. Qed.
Print Assumptions C05_single_latch.

(* ... hence over any schedule: Remove is posted once iff the connection was closed (by
   whichever cause, however many at once), never twice; the same for the close callbacks. *)
Theorem C05_remove_once : forall n tr c,
  let s := run_from (init_with n) tr in
  count_remove c (posted s) = (if latch_of s c then 1 else 0)%nat /\
  ncb_of s c = (if latch_of s c then 1 else 0).
Proof. exact remove_once. Qed.
Print Assumptions C05_remove_once.

(* Life cycle, at every moment of every schedule (guard: no id handed out twice, see
   C05_fresh_if_few): what the owning service's handler has seen of connection c is nothing,
   or one Add followed by messages of c in arrival order, or that followed by one Remove
   (session already gone from the map) and one close callback - after which NOTHING of c. *)
Theorem C05_lifecycle : forall n tr c,
  let s := run_from (init_with n) tr in
  f_reused (fr s) = false ->
  life_prefix c (hview c (hlog_of s)) (arrived_of s c).
Proof. exact lifecycle_prefix. Qed.
Print Assumptions C05_lifecycle.

(* Life cycle, end: once an end cause was signalled for c (client close, truncated or
   illegal framing, decoder error, failed or invalid handshake, undecodable message, write
   error, heartbeat expiry, kick, external Close - any of them, during any stage), in every
   state where no thread of c can move any more and the owning service has drained its queue,
   the connection IS closed, the callbacks fired exactly once, and the handler saw the complete
   cycle: Add, exactly the messages posted before the Remove (in arrival order), Remove,
   close callback. *)
Theorem C05_lifecycle_end : forall n tr c,
  let s := run_from (init_with n) tr in
  f_reused (fr s) = false ->
  cause_of s c = true -> stuck s c -> q s = [] ->
  latch_of s c = true /\ ncb_of s c = 1 /\
  exists id,
    hview c (hlog_of s) =
    life_open c id (msgs_before_remove c (posted s)) ++ closing c id /\
    subseq (msgs_before_remove c (posted s)) (arrived_of s c).
Proof. exact lifecycle_end. Qed.
Print Assumptions C05_lifecycle_end.

(* A push addressed to a removed session is dropped: the state after the push is the same
   as if that target had not been listed - whatever else is listed. *)
Theorem C05_push_after_remove_dropped : forall n tr c id g cs1 cs2,
  let s := run_from (init_with n) tr in
  f_reused (fr s) = false -> In (HRemove c id g) (hlog_of s) ->
  step s (LPush (cs1 ++ c :: cs2)) = step s (LPush (cs1 ++ cs2)).
Proof. exact push_after_remove. Qed.
Print Assumptions C05_push_after_remove_dropped.

(* ... and a push changes nothing but the connections whose live session it addresses:
   other connections, the queue, the front and the clock are untouched. *)
Theorem C05_push_frame : forall cs s c',
  (forall c id, In c cs -> aget c (f_netid (fr s)) = Some id -> aget id (f_live (fr s)) <> Some c') ->
  aget c' (conns (step s (LPush cs))) = aget c' (conns s).
Proof. exact push_frame. Qed.
Print Assumptions C05_push_frame.

Theorem C05_push_quiet : forall s cs,
  let s' := step s (LPush cs) in
  q s' = q s /\ dn s' = dn s /\ fr s' = fr s /\ now s' = now s.
Proof. exact push_quiet_all. Qed.
Print Assumptions C05_push_quiet.

(* Ids: the j-th session added gets the j-th value of a counter that walks 1 .. 2^32-1
   cyclically (0 skipped) ... *)
Theorem C05_id_sequence : forall n tr j,
  0 <= n <= M32 -> no_setnext tr ->
  0 <= j < Z.of_nat (length (ids_of (run_from (init_with n) tr))) ->
  zth (ids_of (run_from (init_with n) tr)) j = nth_id n (j + 1).
Proof. exact ids_sequence. Qed.
Print Assumptions C05_id_sequence.

(* ... so two sessions added fewer than 2^32-1 allocations apart have different ids: unique
   among live sessions as long as fewer than 2^32-1 sessions are added during a session's life *)
Theorem C05_ids_unique : forall n tr j1 j2,
  0 <= n <= M32 -> no_setnext tr ->
  0 <= j1 < j2 -> j2 < Z.of_nat (length (ids_of (run_from (init_with n) tr))) ->
  j2 - j1 < M32 ->
  zth (ids_of (run_from (init_with n) tr)) j1 <> zth (ids_of (run_from (init_with n) tr)) j2.
Proof. exact ids_unique. Qed.
Print Assumptions C05_ids_unique.

(* the guard of the life-cycle theorems holds while at most 2^32-1 sessions were ever added *)
Theorem C05_fresh_if_few : forall n tr,
  0 <= n <= M32 -> no_setnext tr ->
  Z.of_nat (length (ids_of (run_from (init_with n) tr))) <= M32 ->
  f_reused (fr (run_from (init_with n) tr)) = false.
Proof. exact fresh_if_few. Qed.
Print Assumptions C05_fresh_if_few.

(* every harness fault sequence - and the other linearisation of its races - is a schedule *)
Theorem C05_ops_are_schedules : forall ops,
  (exists tr, exec_ops ops = run tr) /\ (exists tr, exec_ops_alt ops = run tr).
Proof. exact (fun ops => conj (exec_ops_reachable ops) (exec_ops_alt_reachable ops)). Qed.
Print Assumptions C05_ops_are_schedules.

(* the executable life-cycle check used on implementation traces IS the predicate above *)
Theorem C05_monitor_exact : forall c v arrived,
  life_b c v arrived = true <-> life_prefix c v arrived.
Proof. exact (fun c v a => conj (life_b_sound c v a) (life_b_complete c v a)). Qed.
Print Assumptions C05_monitor_exact.

(* ---- non-vacuity ---- *)
(* two connections; 1 handshakes, works, gets a message handled, has a second message read
   and parked in the reader when kick, heartbeat expiry and a write failure all strike; the
   parked message is posted after the Remove and dropped.  End state: cause, stuck, drained. *)
Definition ex_ops : list op :=
  [OConnect 1; OConnect 2; OSend 1 PHandshake; ORelease 1; OSend 1 PAck; ORelease 1;
   OSend 1 (PData 7); ORelease 1; OSend 1 (PData 8); ODrain;
   OTick 20000; OWfail 1; ORace [OKick 1; OHeartbeat 1]; OPush [1; 2]; ORelease 1; ODrain].

Example C05_example_obs :
  model_obs ex_ops =
  Obs [HAdd 1 2; HAdd 2 3; HMsg 1 2 7; HRemove 1 2 true; HCloseCb 1 2]
      [CFin 1 1 1 1 0 true; CFin 2 0 0 1 1 false] 3 false false.
Proof. vm_compute. reflexivity. Qed.

Example C05_example_end :
  let s := exec_ops ex_ops in
  f_reused (fr s) = false /\ cause_of s 1 = true /\ stuck s 1 /\ q s = [] /\
  posted s = [EAdd 1; EAdd 2; EMsg 1 7; ERemove 1; EMsg 1 8] /\
  arrived_of s 1 = [7; 8].
Proof.
  repeat split; try (vm_compute; reflexivity).
  intro t; destruct t; vm_compute; reflexivity.
Qed.

(* the wrap, as documentation: with the counter moved (hook) so that an id is handed out
   while still live, two live sessions share id 2, connection 1's message is handled under
   connection 2's session and connection 1 is never removed - the guard is necessary *)
Example C05_wrap_exhibit :
  let s := exec_ops [OConnect 1; OSend 1 PHandshake; ORelease 1; OSend 1 PAck; ORelease 1; ODrain;
                     OSetNext 1; OConnect 2; ODrain;
                     OSend 1 (PData 5); ORelease 1; OClientClose 1; ORelease 1; ODrain] in
  f_reused (fr s) = true /\
  hlog_of s = [HAdd 1 2; HAdd 2 2; HMsg 2 2 5; HRemove 2 2 true; HCloseCb 2 2].
Proof. vm_compute. split; reflexivity. Qed.

(* the counter at the wrap: ... 2^32-1, then 1 (0 skipped), 2 *)
Example C05_wrap_ids :
  ids_of (run_from (init_with 4294967293)
            [LConnect 1; LConnect 2; LConnect 3; LConnect 4; LFront; LFront; LFront; LFront])
  = [4294967294; 4294967295; 1; 2].
Proof. vm_compute. reflexivity. Qed.
