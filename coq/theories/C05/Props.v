From Cell2V Require Import Common.Tac Common.ListX Common.AList C05.Model C05.Spec C05.Proofs.
Theorem C05_stub : True. Proof. exact I. Qed.
Print Assumptions C05_stub.
