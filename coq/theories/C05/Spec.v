(* C05 - the property, as predicates over what the owning service observes (the handler log),
   over the history of posted events, and boolean monitors of the same.  No proofs here. *)
From Cell2V Require Import Common.Tac Common.ListX Common.AList C05.Model.

(* ---- projections of the state ---- *)
Definition conn_of (s : st) (c : Z) : option conn := aget c (conns s).
Definition latch_of (s : st) (c : Z) : bool :=
  match conn_of s c with Some k => c_latch k | None => false end.
Definition cause_of (s : st) (c : Z) : bool :=
  match conn_of s c with Some k => c_cause k | None => false end.
Definition ncb_of (s : st) (c : Z) : Z :=
  match conn_of s c with Some k => c_ncb k | None => 0 end.
Definition arrived_of (s : st) (c : Z) : list Z :=
  match conn_of s c with Some k => c_arrived k | None => [] end.
Definition hlog_of (s : st) : list hev := f_hlog (fr s).

(* every event ever posted to the owning service, oldest first *)
Definition posted (s : st) : list ev := dn s ++ q s.

Definition ev_of (c : Z) (e : ev) : bool :=
  match e with EAdd c' | EMsg c' _ | ERemove c' => Z.eqb c c' end.
Definition evs_of (c : Z) (l : list ev) : list ev := filter (ev_of c) l.
Definition is_remove (c : Z) (e : ev) : bool :=
  match e with ERemove c' => Z.eqb c c' | _ => false end.
Definition count_remove (c : Z) (l : list ev) : nat := length (filter (is_remove c) l).

(* handler invocations that concern connection c *)
Definition hev_of (c : Z) (h : hev) : bool :=
  match h with
  | HAdd c' _ | HMsg c' _ _ | HRemove c' _ _ | HOnClose c' _ | HCloseCb c' _ => Z.eqb c c'
  | HMsgNil _ => false
  end.
Definition hview (c : Z) (l : list hev) : list hev := filter (hev_of c) l.

(* ---- the life cycle the owning service must observe for one connection ---- *)
Definition life_open (c id : Z) (ms : list Z) : list hev := HAdd c id :: map (HMsg c id) ms.
Definition closing (c id : Z) : list hev := [HRemove c id true; HOnClose c id; HCloseCb c id].

(* at any moment: nothing yet; or one Add then messages (in arrival order); or that followed
   by one Remove (session already deleted from the map) and one close callback - and then
   NOTHING more of this connection *)
Definition life_prefix (c : Z) (v : list hev) (arrived : list Z) : Prop :=
  v = [] \/
  exists id ms, subseq ms arrived /\
                (v = life_open c id ms \/ v = life_open c id ms ++ closing c id).

Definition life_complete (c : Z) (v : list hev) (arrived : list Z) : Prop :=
  exists id ms, subseq ms arrived /\ v = life_open c id ms ++ closing c id.

(* no thread of c can take a step that changes anything *)
Definition stuck (s : st) (c : Z) : Prop := forall t, step s (LStep c t) = s.

(* messages of c posted before / after its Remove *)
Fixpoint msgs_before_remove (c : Z) (l : list ev) : list Z :=
  match l with
  | [] => []
  | EMsg c' m :: r => if Z.eqb c c' then m :: msgs_before_remove c r else msgs_before_remove c r
  | ERemove c' :: r => if Z.eqb c c' then [] else msgs_before_remove c r
  | _ :: r => msgs_before_remove c r
  end.

Definition hmsgs (v : list hev) : list Z :=
  flat_map (fun h => match h with HMsg _ _ m => [m] | _ => [] end) v.

(* ---- the acceptor pipeline, oldest connection first ---- *)
Definition optl (o : option Z) : list Z := match o with Some c => [c] | None => [] end.
Definition pipeline (s : st) : list Z :=
  optl (shand s) ++ cch s ++ optl (ahand s) ++ backlog s.
Definition count_add (c : Z) (l : list ev) : nat :=
  length (filter (fun e => match e with EAdd c' => Z.eqb c c' | _ => false end) l).

(* every connection the listener accepted is in exactly one place: still in the pipeline
   (listener backlog, accept loop's hand, connChan, StartAcceptor's hand) or a session *)
Record acc_ok (s : st) : Prop := mkAcc {
  acc_nodup : NoDup (pipeline s);
  acc_fresh : forall c, In c (pipeline s) -> aget c (conns s) = None;
  acc_cap : (length (cch s) <= cchcap)%nat;
  acc_all : forall c, In c (dialed s) -> In c (pipeline s) \/ aget c (conns s) <> None;
  acc_dialed : forall c, In c (pipeline s) -> In c (dialed s)
}.

(* ---- id allocation ---- *)
Definition M32 := two32 - 1.
Definition add_ids (l : list hev) : list Z :=
  flat_map (fun h => match h with HAdd _ id => [id] | _ => [] end) l.
Definition no_setnext (tr : list label) : Prop :=
  forall v, ~ In (LSetNext v) tr.
(* the k-th allocation (k >= 1) of a counter that starts at next0 *)
Definition nth_id (next0 k : Z) : Z := (next0 + k - 1) mod M32 + 1.
Definition zth (l : list Z) (j : Z) : Z := nth (Z.to_nat j) l 0.

(* ---- boolean monitors ---- *)
Inductive phase := PhNone | PhOpen (id : Z) | PhRem (id : Z) | PhRem2 (id : Z) | PhDone.

Definition phase_step (c : Z) (ph : phase) (h : hev) : option phase :=
  match ph, h with
  | PhNone, HAdd c' id => if Z.eqb c c' then Some (PhOpen id) else None
  | PhOpen id, HMsg c' id' _ => if Z.eqb c c' && Z.eqb id id' then Some (PhOpen id) else None
  | PhOpen id, HRemove c' id' g => if Z.eqb c c' && Z.eqb id id' && g then Some (PhRem id) else None
  | PhRem id, HOnClose c' id' => if Z.eqb c c' && Z.eqb id id' then Some (PhRem2 id) else None
  | PhRem2 id, HCloseCb c' id' => if Z.eqb c c' && Z.eqb id id' then Some PhDone else None
  | _, _ => None
  end.

Fixpoint phase_run (c : Z) (ph : phase) (v : list hev) : option phase :=
  match v with
  | [] => Some ph
  | h :: r => match phase_step c ph h with Some ph' => phase_run c ph' r | None => None end
  end.

Fixpoint subseqb (s l : list Z) : bool :=
  match s, l with
  | [], _ => true
  | _ :: _, [] => false
  | x :: s', y :: l' => if Z.eqb x y then subseqb s' l' else subseqb s l'
  end.

(* the life cycle, executable: the view is accepted, it does not stop between Remove and the
   close callback, and its messages are in arrival order *)
Definition life_b (c : Z) (v : list hev) (arrived : list Z) : bool :=
  match phase_run c PhNone v with
  | Some (PhRem _) | Some (PhRem2 _) | None => false
  | Some _ => subseqb (hmsgs v) arrived
  end.
Definition complete_b (c : Z) (v : list hev) : bool :=
  match phase_run c PhNone v with Some PhDone => true | _ => false end.

(* ids handed out to sessions that are live at the same time are distinct *)
Fixpoint live_ids_ok (live : list Z) (l : list hev) : bool :=
  match l with
  | [] => true
  | HAdd _ id :: r => negb (zmem id live) && negb (Z.eqb id 0) && live_ids_ok (id :: live) r
  | HRemove _ id _ :: r => live_ids_ok (remove_first id live) r
  | _ :: r => live_ids_ok live r
  end.
