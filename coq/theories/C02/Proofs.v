(* C02 - proofs.  One invariant [Inv] ties every reachable state, under EVERY event list
   (client operations interleaved with arbitrary deliveries), to the history functions of
   Spec.v; the theorems of Props.v are read off it. *)
From Coq Require Import Permutation.
From Cell2V Require Import Common.Tac Common.ListX Common.AList C02.Model C02.Spec.

(* ---------- generic list facts ---------- *)

Lemma set_nth_split (g : freq) k l f :
  nth_error l k = Some f ->
  exists l1 l2, l = l1 ++ f :: l2 /\ set_nth k g l = l1 ++ g :: l2.
Proof.
  intro H. destruct (nth_error_split l k H) as [l1 [l2 [E L]]].
  exists l1, l2. split; [exact E|].
  unfold set_nth. subst l k.
  rewrite firstn_app, firstn_all, Nat.sub_diag. simpl. rewrite app_nil_r.
  rewrite skipn_app, skipn_all, Nat.sub_diag. simpl. reflexivity.
Qed.

Lemma set_nth_mid (g x : freq) a b : set_nth (length a) g (a ++ x :: b) = a ++ g :: b.
Proof.
  unfold set_nth. rewrite firstn_app, firstn_all, Nat.sub_diag. simpl. rewrite app_nil_r.
  rewrite skipn_app, skipn_all, Nat.sub_diag. simpl. reflexivity.
Qed.

Lemma NoDup_app_l {A} (a b : list A) : NoDup (a ++ b) -> NoDup a.
Proof. induction a; simpl; intro H; [constructor|]. inv H. constructor; [rewrite in_app_iff in *; tauto | auto]. Qed.

Lemma NoDup_app_filter {A B} (f : B -> A) (P : B -> bool) a l :
  NoDup (a ++ map f l) -> NoDup (a ++ map f (filter P l)).
Proof.
  induction l as [|x r IH]; simpl; intro H; [exact H|].
  assert (H' : NoDup (a ++ map f r)).
  { apply NoDup_remove_1 in H. exact H. }
  destruct (P x); simpl; [|auto].
  apply NoDup_remove_2 in H. apply Permutation_NoDup with (f x :: a ++ map f (filter P r)).
  - apply Permutation_middle.
  - constructor; [|auto]. intro I. apply H. rewrite in_app_iff in *. destruct I as [I|I]; [tauto|].
    right. rewrite in_map_iff in *. destruct I as [y [E I]]. apply filter_In in I. exists y. tauto.
Qed.

Lemma in_map_fst_snd {A B} (x : A) (y : B) l : In (x, y) l -> In y (map snd l).
Proof. intro H. apply in_map_iff. exists (x, y). auto. Qed.

Section Proofs.
  Variable rf : Z -> Z -> option Z.
  Variable itype : Z -> option Z.

  Notation target := (target rf itype).
  Notation right_type := (right_type itype).
  Notation request := (request rf itype).
  Notation deliver := (deliver itype).
  Notation op_step := (op_step rf itype).
  Notation step := (step rf itype).
  Notation run := (run rf itype).
  Notation run_from := (run_from rf itype).
  Notation pass := (pass itype).
  Notation finish := (finish itype).
  Notation ledger := (ledger rf itype).
  Notation ledger_from := (ledger_from rf itype).
  Notation op_recs := (op_recs rf itype).
  Notation verdict_of := (verdict_of rf itype).
  Notation calm_from := (calm_from rf itype).
  Notation calm := (calm rf itype).

  (* ---------- history functions ---------- *)

  Lemma cview_snoc ops o : cview (ops ++ [o]) = conn_step (cview ops) o.
  Proof. unfold cview. rewrite fold_left_app. reflexivity. Qed.

  Lemma ledger_from_snoc ops : forall cs o,
    ledger_from cs (ops ++ [o]) = ledger_from cs ops ++ op_recs (fold_left conn_step ops cs) o.
  Proof.
    induction ops as [|a r IH]; intros cs o; simpl.
    - rewrite app_nil_r. reflexivity.
    - rewrite IH, app_assoc. reflexivity.
  Qed.

  Lemma ledger_snoc ops o : ledger (ops ++ [o]) = ledger ops ++ op_recs (cview ops) o.
  Proof. apply ledger_from_snoc. Qed.

  Lemma ops_of_app a b : ops_of (a ++ b) = ops_of a ++ ops_of b.
  Proof. induction a as [|[o|k] r IH]; simpl; [reflexivity | rewrite IH; reflexivity | exact IH]. Qed.

  Lemma tags_of_app a b : tags_of (a ++ b) = tags_of a ++ tags_of b.
  Proof. unfold tags_of. apply flat_map_app. Qed.

  Lemma op_recs_tags cs o : map r_tag (op_recs cs o) = op_tags o \/ op_recs cs o = [].
  Proof.
    destruct o; simpl; auto; destruct (is_open cs c); simpl; auto.
  Qed.

  Lemma op_recs_tag_in cs o r : In r (op_recs cs o) -> In (r_tag r) (op_tags o).
  Proof.
    destruct (op_recs_tags cs o) as [E|E].
    - intro H. rewrite <- E. apply in_map. exact H.
    - rewrite E. simpl. tauto.
  Qed.

  Lemma ledger_tags_sub ops t : In t (map r_tag (ledger ops)) -> In t (tags_of ops).
  Proof.
    induction ops as [|o r IH] using rev_ind; [simpl; tauto|].
    rewrite ledger_snoc, map_app, tags_of_app, !in_app_iff. intros [H|H]; [auto|].
    right. unfold tags_of. simpl. rewrite app_nil_r.
    apply in_map_iff in H. destruct H as [x [E H]]. subst t. eapply op_recs_tag_in; eauto.
  Qed.

  Lemma ledger_tags_nodup ops : NoDup (tags_of ops) -> NoDup (map r_tag (ledger ops)).
  Proof.
    induction ops as [|o r IH] using rev_ind; intro N; [constructor|].
    rewrite tags_of_app in N. rewrite ledger_snoc, map_app.
    assert (N1 := NoDup_app_l _ _ N). specialize (IH N1).
    destruct (op_recs_tags (cview r) o) as [E|E].
    - rewrite E. unfold tags_of in N. simpl in N. rewrite app_nil_r in N.
      clear E. revert N. generalize (op_tags o). intros l N.
      induction l as [|x l IHl] using rev_ind; [rewrite app_nil_r; exact IH|].
      rewrite app_assoc. rewrite app_assoc in N.
      specialize (IHl (NoDup_app_l _ _ N)).
      apply Permutation_NoDup with (x :: (map r_tag (ledger r) ++ l)).
      + apply Permutation_cons_append.
      + constructor; [|exact IHl].
        apply Permutation_NoDup with (l' := x :: (flat_map op_tags r ++ l)) in N;
          [| apply Permutation_sym, Permutation_cons_append].
        inv N. intro I. apply H1. rewrite in_app_iff in *. destruct I as [I|I]; [|tauto].
        left. apply ledger_tags_sub. exact I.
    - rewrite E. simpl. rewrite app_nil_r. exact IH.
  Qed.

  Lemma rec_unique ops r1 r2 :
    NoDup (map r_tag (ledger ops)) -> In r1 (ledger ops) -> In r2 (ledger ops) ->
    r_tag r1 = r_tag r2 -> r1 = r2.
  Proof.
    generalize (ledger ops). intro l. induction l as [|x l IH]; simpl; intros N H1 H2 E; [tauto|].
    inv N. destruct H1 as [H1|H1], H2 as [H2|H2]; subst; auto.
    - exfalso. apply H3. rewrite E. apply in_map. exact H2.
    - exfalso. apply H3. rewrite <- E. apply in_map. exact H1.
  Qed.

  (* ---------- closed connections stay closed ---------- *)

  Lemma aget_aset_dec {V} (k k2 : Z) (v : V) m :
    aget k2 (aset k v m) = if Z.eqb k2 k then Some v else aget k2 m.
  Proof.
    destruct (Z.eqb_spec k2 k).
    - subst. apply aget_aset_same.
    - apply aget_aset_other. exact n.
  Qed.

  Lemma conn_step_closed cs o c :
    is_closed cs c = true -> is_closed (conn_step cs o) c = true.
  Proof.
    unfold is_closed. intro H.
    destruct o as [c0 b sd|c0 mid r t|c0 r t| |c0|c0|c0|c0|]; simpl; try exact H.
    - destruct (aget c0 cs) eqn:E; [exact H|]. destruct (sid_live cs sd); [exact H|]. rewrite aget_aset_dec.
      destruct (Z.eqb_spec c c0); [subst; rewrite E in H; discriminate | exact H].
    - destruct r as [ty m|k]; [|exact H]. destruct m; try exact H.
      destruct (Z.eqb ty front_type && is_open cs c0) eqn:G; [|exact H].
      rewrite aget_aset_dec. destruct (Z.eqb_spec c c0); [|exact H].
      subst. apply andb_true_iff in G. destruct G as [_ G]. unfold is_open in G.
      destruct (aget c0 cs); [|discriminate]. rewrite G in H. discriminate.
    - destruct r as [ty m|k]; [|exact H]. destruct m; try exact H.
      destruct (Z.eqb ty front_type && is_open cs c0) eqn:G; [|exact H].
      rewrite aget_aset_dec. destruct (Z.eqb_spec c c0); [|exact H].
      subst. apply andb_true_iff in G. destruct G as [_ G]. unfold is_open in G.
      destruct (aget c0 cs); [|discriminate]. rewrite G in H. discriminate.
    - destruct (aget c0 cs) as [cn|] eqn:E; [|exact H]. destruct (c_open cn) eqn:O; [|exact H].
      rewrite aget_aset_dec. destruct (Z.eqb_spec c c0); [reflexivity | exact H].
  Qed.

  Lemma conn_step_open_other cs o c :
    (forall b sd, o <> OConnect c b sd) -> o <> OClose c ->
    is_open (conn_step cs o) c = is_open cs c.
  Proof.
    intros N1 N2. unfold is_open.
    destruct o as [c0 b sd|c0 mid r t|c0 r t| |c0|c0|c0|c0|]; simpl; try reflexivity.
    - destruct (aget c0 cs) eqn:E; [reflexivity|]. destruct (sid_live cs sd); [reflexivity|]. rewrite aget_aset_dec.
      destruct (Z.eqb_spec c c0); [subst; exfalso; eapply N1; reflexivity | reflexivity].
    - destruct r as [ty m|k]; [|reflexivity]. destruct m; try reflexivity.
      destruct (Z.eqb ty front_type && is_open cs c0) eqn:G; [|reflexivity].
      rewrite aget_aset_dec. destruct (Z.eqb_spec c c0); [|reflexivity].
      subst. apply andb_true_iff in G. destruct G as [_ G]. unfold is_open in G. simpl.
      destruct (aget c0 cs); [symmetry; exact G | discriminate].
    - destruct r as [ty m|k]; [|reflexivity]. destruct m; try reflexivity.
      destruct (Z.eqb ty front_type && is_open cs c0) eqn:G; [|reflexivity].
      rewrite aget_aset_dec. destruct (Z.eqb_spec c c0); [|reflexivity].
      subst. apply andb_true_iff in G. destruct G as [_ G]. unfold is_open in G. simpl.
      destruct (aget c0 cs); [symmetry; exact G | discriminate].
    - destruct (aget c0 cs) as [cn|] eqn:E; [|reflexivity]. destruct (c_open cn) eqn:O; [|reflexivity].
      rewrite aget_aset_dec. destruct (Z.eqb_spec c c0); [subst; congruence | reflexivity].
  Qed.

  Lemma closed_needs_close ops c : is_closed (cview ops) c = true -> In (OClose c) ops.
  Proof.
    induction ops as [|o r IH] using rev_ind; [unfold cview, is_closed; simpl; discriminate|].
    rewrite cview_snoc, in_app_iff. intro H.
    destruct (is_closed (cview r) c) eqn:E; [left; auto|]. right. simpl. left.
    unfold is_closed in *.
    destruct o as [c0 b sd|c0 mid rt t|c0 rt t| |c0|c0|c0|c0|]; simpl in H; try congruence.
    - destruct (aget c0 (cview r)) eqn:G; [congruence|]. destruct (sid_live (cview r) sd); [congruence|]. rewrite aget_aset_dec in H.
      destruct (Z.eqb_spec c c0); [simpl in H; discriminate | congruence].
    - destruct rt as [ty m|k]; [|congruence]. destruct m; try congruence.
      destruct (Z.eqb ty front_type && is_open (cview r) c0); [|congruence].
      rewrite aget_aset_dec in H. destruct (Z.eqb_spec c c0); [simpl in H; discriminate | congruence].
    - destruct rt as [ty m|k]; [|congruence]. destruct m; try congruence.
      destruct (Z.eqb ty front_type && is_open (cview r) c0); [|congruence].
      rewrite aget_aset_dec in H. destruct (Z.eqb_spec c c0); [simpl in H; discriminate | congruence].
    - destruct (aget c0 (cview r)) as [cn|] eqn:G; [|congruence]. destruct (c_open cn); [|congruence].
      rewrite aget_aset_dec in H. destruct (Z.eqb_spec c c0); [subst; reflexivity | congruence].
  Qed.

  Lemma open_or_closed cs c : is_open cs c = true -> is_closed cs c = false.
  Proof. unfold is_open, is_closed. destruct (aget c cs); [intro H; rewrite H; reflexivity | discriminate]. Qed.

  (* a connection that was open at some point and is not closed later is open *)
  Lemma open_stays ops o c :
    is_open (cview ops) c = true -> is_closed (cview (ops ++ [o])) c = false ->
    is_open (cview (ops ++ [o])) c = true.
  Proof.
    rewrite cview_snoc. unfold is_open, is_closed.
    destruct (aget c (cview ops)) as [cn|] eqn:E; [|discriminate]. intros O.
    destruct (aget c (conn_step (cview ops) o)) as [cn'|] eqn:G.
    - intro H. destruct (c_open cn'); [reflexivity | discriminate].
    - intros _. exfalso.
      destruct o as [d b sd|d mid rt t|d rt t| |d|d|d|d|]; simpl in G; try congruence.
      + destruct (aget d (cview ops)); [congruence|]. destruct (sid_live (cview ops) sd); [congruence|]. rewrite aget_aset_dec in G.
        destruct (Z.eqb c d); congruence.
      + destruct rt as [ty m|k]; [|congruence]. destruct m; try congruence.
        destruct (Z.eqb ty front_type && is_open (cview ops) d); [|congruence].
        rewrite aget_aset_dec in G. destruct (Z.eqb c d); congruence.
      + destruct rt as [ty m|k]; [|congruence]. destruct m; try congruence.
        destruct (Z.eqb ty front_type && is_open (cview ops) d); [|congruence].
        rewrite aget_aset_dec in G. destruct (Z.eqb c d); congruence.
      + destruct (aget d (cview ops)) as [cn2|]; [|congruence]. destruct (c_open cn2); [|congruence].
        rewrite aget_aset_dec in G. destruct (Z.eqb c d); congruence.
  Qed.

  Lemma conn_step_keeps cs o c : aget c cs <> None -> aget c (conn_step cs o) <> None.
  Proof.
    intro H.
    destruct o as [d b sd|d mid rt t|d rt t| |d|d|d|d|]; simpl; try exact H.
    - destruct (aget d cs); [exact H|]. destruct (sid_live cs sd); [exact H|]. rewrite aget_aset_dec. destruct (Z.eqb c d); [discriminate | exact H].
    - destruct rt as [ty m|k]; [|exact H]. destruct m; try exact H.
      destruct (Z.eqb ty front_type && is_open cs d); [|exact H].
      rewrite aget_aset_dec. destruct (Z.eqb c d); [discriminate | exact H].
    - destruct rt as [ty m|k]; [|exact H]. destruct m; try exact H.
      destruct (Z.eqb ty front_type && is_open cs d); [|exact H].
      rewrite aget_aset_dec. destruct (Z.eqb c d); [discriminate | exact H].
    - destruct (aget d cs) as [cn|]; [|exact H]. destruct (c_open cn); [|exact H].
      rewrite aget_aset_dec. destruct (Z.eqb c d); [discriminate | exact H].
  Qed.

  Lemma open_connected cs c : is_open cs c = true -> aget c cs <> None.
  Proof. unfold is_open. destruct (aget c cs); [discriminate | discriminate]. Qed.

  Lemma op_recs_open cs o r : In r (op_recs cs o) -> is_open cs (r_c r) = true.
  Proof.
    destruct o as [d b sd|d mid rt t|d rt t| |d|d|d|d|]; simpl; try tauto;
      destruct (is_open cs d) eqn:E; simpl; try tauto; intros [H|[]]; subst r; exact E.
  Qed.

  Lemma rec_connected ops r : In r (ledger ops) -> aget (r_c r) (cview ops) <> None.
  Proof.
    induction ops as [|o l IH] using rev_ind; [simpl; tauto|].
    rewrite ledger_snoc, cview_snoc, in_app_iff. intros [H|H]; apply conn_step_keeps.
    - exact (IH H).
    - apply open_connected. eapply op_recs_open. exact H.
  Qed.

  Lemma not_open_closed cs c : aget c cs <> None -> is_open cs c = false -> is_closed cs c = true.
  Proof. unfold is_open, is_closed. destruct (aget c cs); [intros _ H; rewrite H; reflexivity | tauto]. Qed.

  Lemma closed_not_open cs c : is_closed cs c = true -> is_open cs c = false.
  Proof. unfold is_open, is_closed. destruct (aget c cs) as [cn|]; [destruct (c_open cn); simpl; congruence | discriminate]. Qed.

  (* ---------- the invariant ---------- *)

  Definition waitT (l : list freq) : list Z := map f_tag (filter f_wait l).
  Definition fverdict (f : freq) : verdict :=
    VForward (f_i f) (right_type (f_i f) (f_ty f)) (f_m f).
  Definition frec (f : freq) : rec := mkRec (f_c f) (f_mid f) (f_tag f) (fverdict f).

  Definition phase_ok (f : freq) : Prop :=
    match f_phase f with
    | PToBack => True
    | PSilent => f_wait f = true -> expected (fverdict f) (f_tag f) = Some (true, PNone)
    | PToFront c m e p =>
        c = f_sid f /\ m = f_mid f /\
        expected (fverdict f) (f_tag f) = Some (e, if e then PNone else p)
    | PDone => f_wait f = false
    end.

  Definition fwd_ok (L : list rec) (f : freq) : Prop :=
    In (frec f) L /\ (f_wait f = true -> f_mid f <> 0) /\ phase_ok f.

  Definition nlog (i t : Z) (l : list (Z * Z)) : nat :=
    length (filter (fun x => Z.eqb (fst x) i && Z.eqb (snd x) t) l).
  Definition is_toback (ph : phase) : bool := match ph with PToBack => true | _ => false end.
  Definition ntoback (t : Z) (l : list freq) : nat :=
    length (filter (fun f => Z.eqb (f_tag f) t && is_toback (f_phase f)) l).

  Definition isreq (r : rec) : bool := negb (Z.eqb (r_mid r) 0).

  Definition log_ok (s : st) (r : rec) : Prop :=
    match handler_inst (r_v r) (isreq r) with
    | Some i => (nlog i (r_tag r) (hlog s) + ntoback (r_tag r) (fwd s) = 1)%nat /\
                forall j, In (j, r_tag r) (hlog s) -> j = i
    | None => forall j, ~ In (j, r_tag r) (hlog s)
    end.

  Record Inv (ops : list op) (s : st) : Prop := {
    inv_conns : conns s = cview ops;
    inv_fwd : forall f, In f (fwd s) -> fwd_ok (ledger ops) f;
    inv_out : forall c t m e p, In (c, t, Resp m e p) (out s) ->
              m <> 0 /\ exists v, In (mkRec c m t v) (ledger ops) /\ allowed v t e p;
    inv_uniq : NoDup (outT s ++ waitT (fwd s));
    inv_ltags : forall j t, In (j, t) (hlog s) -> In t (map r_tag (ledger ops));
    inv_prog : forall r, In r (ledger ops) -> r_mid r <> 0 -> expected (r_v r) (r_tag r) <> None ->
               In (r_tag r) (outT s) \/ In (r_tag r) (waitT (fwd s)) \/ is_open (cview ops) (r_c r) = false;
    inv_log : forall r, In r (ledger ops) -> log_ok s r
  }.

  (* ---------- counting helpers ---------- *)

  Lemma waitT_app a b : waitT (a ++ b) = waitT a ++ waitT b.
  Proof. unfold waitT. rewrite filter_app, map_app. reflexivity. Qed.

  Lemma nlog_app i t a b : nlog i t (a ++ b) = (nlog i t a + nlog i t b)%nat.
  Proof. unfold nlog. rewrite filter_app, app_length. reflexivity. Qed.

  Lemma ntoback_app t a b : ntoback t (a ++ b) = (ntoback t a + ntoback t b)%nat.
  Proof. unfold ntoback. rewrite filter_app, app_length. reflexivity. Qed.

  Lemma nlog_absent i t l : (forall j, ~ In (j, t) l) -> nlog i t l = 0%nat.
  Proof.
    unfold nlog. induction l as [|[a b] r IH]; simpl; intro H; [reflexivity|].
    destruct (Z.eqb_spec b t).
    - subst. exfalso. apply (H a). left. reflexivity.
    - rewrite andb_false_r. apply IH. intros j I. apply (H j). right. exact I.
  Qed.

  Lemma ntoback_absent t l : ~ In t (map f_tag l) -> ntoback t l = 0%nat.
  Proof.
    unfold ntoback. induction l as [|f r IH]; simpl; intro H; [reflexivity|].
    destruct (Z.eqb_spec (f_tag f) t); [exfalso; apply H; left; exact e|].
    simpl. apply IH. tauto.
  Qed.

  Lemma nlog_other i t j u : u <> t -> nlog i t [(j, u)] = 0%nat.
  Proof. intro N. unfold nlog. simpl. destruct (Z.eqb_spec u t); [contradiction|]. rewrite andb_false_r. reflexivity. Qed.

  Lemma fwd_tag_in ops s f : Inv ops s -> In f (fwd s) -> In (f_tag f) (map r_tag (ledger ops)).
  Proof.
    intros I H. destruct (inv_fwd _ _ I f H) as [R _].
    change (f_tag f) with (r_tag (frec f)). apply in_map. exact R.
  Qed.

  Lemma out_tag_in ops s t : Inv ops s -> In t (outT s) -> In t (map r_tag (ledger ops)).
  Proof.
    intros I H. unfold outT in H. apply in_map_iff in H. destruct H as [[[c t'] [m e p]] [E H]].
    simpl in E. subst t'. destruct (inv_out _ _ I _ _ _ _ _ H) as [_ [v [R _]]].
    change t with (r_tag (mkRec c m t v)). apply in_map. exact R.
  Qed.

  Lemma waitT_sub l t : In t (waitT l) -> In t (map f_tag l).
  Proof.
    unfold waitT. rewrite !in_map_iff. intros [f [E H]]. apply filter_In in H. exists f. tauto.
  Qed.

  Lemma waitT_cons f l : waitT (f :: l) = if f_wait f then f_tag f :: waitT l else waitT l.
  Proof. unfold waitT. simpl. destruct (f_wait f); reflexivity. Qed.

  Lemma ntoback_cons t f l :
    ntoback t (f :: l) =
    ((if Z.eqb (f_tag f) t && is_toback (f_phase f) then 1 else 0) + ntoback t l)%nat.
  Proof. unfold ntoback. simpl. destruct (Z.eqb (f_tag f) t && is_toback (f_phase f)); reflexivity. Qed.

  Lemma In_mid {A} (x y : A) l1 l2 z : In z (l1 ++ y :: l2) -> z = y \/ In z (l1 ++ x :: l2).
  Proof. rewrite !in_app_iff. simpl. intuition. Qed.

  (* replacing slot f by f' (same connection, id, tag, target, behaviour) *)
  Definition same_req (f f' : freq) : Prop :=
    f_c f' = f_c f /\ f_sid f' = f_sid f /\ f_mid f' = f_mid f /\ f_tag f' = f_tag f /\
    f_i f' = f_i f /\ f_ty f' = f_ty f /\ f_m f' = f_m f.

  Lemma same_req_frec f f' : same_req f f' -> frec f' = frec f.
  Proof.
    intros [A [_ [B [C [D [E F]]]]]]. unfold frec, fverdict. rewrite A, B, C, D, E, F. reflexivity.
  Qed.

  Lemma with_phase_same f ph w : same_req f (with_phase f ph w).
  Proof. unfold same_req. simpl. tauto. Qed.

  Lemma inv_deliver ops s k :
    NoDup (map r_tag (ledger ops)) -> Inv ops s -> Inv ops (deliver s k).
  Proof.
    intros ND I. unfold deliver.
    destruct (nth_error (fwd s) k) as [f|] eqn:N; [|exact I].
    assert (Fin : In f (fwd s)) by (eapply nth_error_In; eauto).
    destruct (inv_fwd _ _ I f Fin) as [FR [FW FP]].
    destruct (f_phase f) as [| |c' mid' e p|] eqn:PH; try exact I.
    - (* the request reaches the back-end *)
      set (f' := fun ph => with_phase f ph (f_wait f)).
      assert (LOGS : forall s1 ph,
                 conns s1 = conns s -> fwd s1 = fwd s -> out s1 = out s ->
                 (hlog s1 = hlog s /\ handler_inst (fverdict f) (negb (Z.eqb (f_mid f) 0)) = None \/
                  hlog s1 = hlog s ++ [(f_i f, f_tag f)] /\
                  handler_inst (fverdict f) (negb (Z.eqb (f_mid f) 0)) = Some (f_i f)) ->
                 is_toback ph = false ->
                 phase_ok (f' ph) ->
                 Inv ops (mkSt (conns s1) (set_nth k (f' ph) (fwd s1)) (out s1) (hlog s1))).
      { intros s1 ph EC EF EO EL NTB POK.
        destruct (set_nth_split (f' ph) k (fwd s) f N) as [l1 [l2 [E1 E2]]].
        rewrite EC, EF, EO, E2.
        assert (SR : same_req f (f' ph)) by apply with_phase_same.
        constructor; simpl.
        - apply (inv_conns _ _ I).
        - intros g G. apply (In_mid f) in G. rewrite <- E1 in G. destruct G as [G|G].
          + subst g. split; [rewrite (same_req_frec _ _ SR); exact FR|]. split; [exact FW | exact POK].
          + apply (inv_fwd _ _ I). exact G.
        - apply (inv_out _ _ I).
        - assert (W : waitT (l1 ++ f' ph :: l2) = waitT (fwd s)).
          { rewrite E1, !waitT_app, !waitT_cons. reflexivity. }
          rewrite W. apply (inv_uniq _ _ I).
        - intros j t H. destruct EL as [[EL _]|[EL _]]; rewrite EL in H.
          + eapply (inv_ltags _ _ I); eauto.
          + apply in_app_iff in H. destruct H as [H|[H|[]]].
            * eapply (inv_ltags _ _ I); eauto.
            * inv H. eapply fwd_tag_in; eauto.
        - intros r R M X. assert (W : waitT (l1 ++ f' ph :: l2) = waitT (fwd s)).
          { rewrite E1, !waitT_app, !waitT_cons. reflexivity. }
          rewrite W. apply (inv_prog _ _ I); assumption.
        - intros r R. assert (LO := inv_log _ _ I r R). unfold log_ok in *. simpl.
          assert (NTB' : forall t, ntoback t (l1 ++ f' ph :: l2) =
                    (ntoback t (fwd s) - (if Z.eqb (f_tag f) t then 1 else 0))%nat).
          { intro t. rewrite E1, !ntoback_app, !ntoback_cons. simpl. rewrite PH, NTB. simpl.
            rewrite andb_false_r, andb_true_r. destruct (Z.eqb (f_tag f) t); lia. }
          destruct (Z.eqb_spec (f_tag f) (r_tag r)) as [ET|NT].
          + (* r is the request of this slot *)
            assert (ER : frec f = r) by (apply (rec_unique ops); auto).
            assert (EV : r_v r = fverdict f) by (rewrite <- ER; reflexivity).
            assert (EM : isreq r = negb (Z.eqb (f_mid f) 0)) by (rewrite <- ER; reflexivity).
            rewrite EV, EM in *. rewrite NTB'. rewrite ET, Z.eqb_refl.
            destruct EL as [[EL HI]|[EL HI]]; rewrite EL, HI in *.
            * exact LO.
            * destruct LO as [LO1 LO2]. rewrite <- ET in *. split.
              -- rewrite nlog_app. unfold nlog at 2. simpl. rewrite !Z.eqb_refl. simpl.
                 assert (1 <= ntoback (f_tag f) (fwd s))%nat.
                 { rewrite E1, !ntoback_app, !ntoback_cons, PH, Z.eqb_refl. simpl. lia. }
                 lia.
              -- intros j H. apply in_app_iff in H. destruct H as [H|[H|[]]]; [auto | inv H; reflexivity].
          + rewrite NTB'. destruct (Z.eqb_spec (f_tag f) (r_tag r)); [contradiction|].
            rewrite Nat.sub_0_r.
            destruct EL as [[EL _]|[EL _]]; rewrite EL; [exact LO|].
            destruct (handler_inst (r_v r) (isreq r)) as [i|].
            * destruct LO as [LO1 LO2]. split.
              -- rewrite nlog_app, (nlog_other _ _ _ _ NT). lia.
              -- intros j H. apply in_app_iff in H. destruct H as [H|[H|[]]]; [auto | inv H; contradiction].
            * intros j H. apply in_app_iff in H. destruct H as [H|[H|[]]]; [eapply LO; eauto | inv H; contradiction]. }
      destruct (right_type (f_i f) (f_ty f)) eqn:RT.
      + (* the service type matches: the handler result *)
        assert (HI : handler_inst (fverdict f) (negb (Z.eqb (f_mid f) 0)) =
                     if invoked (f_m f) (negb (Z.eqb (f_mid f) 0)) then Some (f_i f) else None).
        { unfold fverdict. rewrite RT. reflexivity. }
        set (ph := if negb (Z.eqb (f_mid f) 0)
                   then match completes (f_m f) with
                        | CReply => PToFront (f_sid f) (f_mid f) false (reply_payload (f_m f) (f_i f) (f_tag f))
                        | CErr => PToFront (f_sid f) (f_mid f) true PNone
                        | CSilent => PSilent
                        end
                   else PDone).
        assert (NTB : is_toback ph = false).
        { unfold ph. destruct (negb (Z.eqb (f_mid f) 0)); [destruct (completes (f_m f))|]; reflexivity. }
        assert (POK : phase_ok (f' ph)).
        { unfold phase_ok, f'. simpl. unfold ph.
          destruct (Z.eqb_spec (f_mid f) 0) as [Z0|NZ]; simpl.
          - destruct (f_wait f) eqn:W; [exfalso; apply (FW eq_refl); exact Z0 | reflexivity].
          - unfold fverdict. simpl. rewrite RT.
            destruct (completes (f_m f)); simpl; auto. }
        destruct (invoked (f_m f) (negb (Z.eqb (f_mid f) 0))) eqn:INV.
        * apply (LOGS (log s (f_i f) (f_tag f)) ph); auto.
        * apply (LOGS s ph); auto.
      + (* wrong service: logged and dropped *)
        apply (LOGS s PSilent); auto.
        * left. split; [reflexivity|]. unfold fverdict. rewrite RT. reflexivity.
        * unfold phase_ok, f'. simpl. intros _. unfold fverdict. rewrite RT. reflexivity.
    - (* the reply reaches the front: relay callback *)
      unfold phase_ok in FP. rewrite PH in FP. destruct FP as [EC [EM EX]]. subst c' mid'.
      rewrite !Z.eqb_refl, !andb_true_r.
      set (g := with_phase f PDone false).
      destruct (set_nth_split g k (fwd s) f N) as [l1 [l2 [E1 E2]]].
      assert (SR : same_req f g) by apply with_phase_same.
      assert (FWD' : forall h, In h (l1 ++ g :: l2) -> fwd_ok (ledger ops) h).
      { intros h G. apply (In_mid f) in G. rewrite <- E1 in G. destruct G as [G|G].
        - subst h. split; [rewrite (same_req_frec _ _ SR); exact FR|]. split; [discriminate | reflexivity].
        - apply (inv_fwd _ _ I). exact G. }
      assert (NTB' : forall t, ntoback t (l1 ++ g :: l2) = ntoback t (fwd s)).
      { intro t. rewrite E1, !ntoback_app, !ntoback_cons. simpl. rewrite PH. simpl.
        rewrite !andb_false_r. reflexivity. }
      assert (LOG' : forall o' r, In r (ledger ops) ->
                 log_ok (mkSt (conns s) (l1 ++ g :: l2) o' (hlog s)) r).
      { intros o' r R. assert (LO := inv_log _ _ I r R). unfold log_ok in *. simpl.
        rewrite NTB'. exact LO. }
      destruct (f_wait f) eqn:W.
      + (* the callback is still registered *)
        assert (WT : Permutation (waitT (fwd s)) (f_tag f :: waitT (l1 ++ g :: l2))).
        { rewrite E1, !waitT_app, !waitT_cons, W. simpl. symmetry. apply Permutation_middle. }
        unfold write. simpl.
        destruct (Z.eqb_spec (f_mid f) 0) as [Z0|NZ]; [exfalso; exact (FW eq_refl Z0)|].
        destruct (is_open (conns s) (f_c f)) eqn:OP; rewrite E2; constructor; simpl;
          try (apply (inv_conns _ _ I)); try exact FWD'; try (apply LOG'); try (apply (inv_ltags _ _ I)).
        * intros c t m e' p' H. apply in_app_iff in H. destruct H as [H|[H|[]]].
          -- apply (inv_out _ _ I). exact H.
          -- inv H. split; [exact NZ|]. exists (fverdict f). split; [exact FR|]. left. exact EX.
        * unfold outT. simpl. rewrite map_app. simpl. rewrite <- app_assoc. simpl.
          apply Permutation_NoDup with (outT s ++ waitT (fwd s)); [|apply (inv_uniq _ _ I)].
          apply Permutation_app_head. exact WT.
        * intros r R M X. unfold outT. simpl. rewrite map_app, in_app_iff. simpl.
          destruct (inv_prog _ _ I r R M X) as [H|[H|H]]; [tauto| |tauto].
          apply (Permutation_in _ WT) in H. destruct H as [H|H]; [left; right; left; exact H | tauto].
        * intros c t m e' p' H. apply (inv_out _ _ I). exact H.
        * assert (U := inv_uniq _ _ I).
          apply Permutation_NoDup with (l' := outT s ++ f_tag f :: waitT (l1 ++ g :: l2)) in U.
          -- apply NoDup_remove_1 in U. exact U.
          -- apply Permutation_app_head. exact WT.
        * intros r R M X.
          destruct (inv_prog _ _ I r R M X) as [H|[H|H]]; [tauto| |tauto].
          apply (Permutation_in _ WT) in H. destruct H as [H|H]; [|tauto].
          right. right.
          assert (ER : frec f = r) by (apply (rec_unique ops); auto).
          rewrite <- ER. simpl. rewrite <- (inv_conns _ _ I). exact OP.
      + (* timed out before: the late reply is dropped *)
        assert (WT : waitT (l1 ++ g :: l2) = waitT (fwd s)).
        { rewrite E1, !waitT_app, !waitT_cons, W. reflexivity. }
        simpl. rewrite E2. constructor; simpl;
          try (apply (inv_conns _ _ I)); try exact FWD'; try (apply LOG'); try (apply (inv_ltags _ _ I));
          try (apply (inv_out _ _ I)).
        * rewrite WT. apply (inv_uniq _ _ I).
        * rewrite WT. apply (inv_prog _ _ I).
  Qed.

  (* ---------- client operations ---------- *)

  (* what processing one client frame adds to the state *)
  Definition new_log (v : verdict) (q : bool) (tag : Z) : list (Z * Z) :=
    match v with
    | VLocal m => if invoked m q then [(front_inst, tag)] else []
    | _ => []
    end.

  Definition new_fwd (v : verdict) (c sd mid tag ty : Z) : list freq :=
    match v with
    | VForward i _ m => [mkF c sd mid tag i ty m PToBack (negb (Z.eqb mid 0))]
    | _ => []
    end.

  Definition new_out (v : verdict) (c mid tag : Z) : list (Z * Z * resp) :=
    match v with
    | VForward _ _ _ => []
    | _ => if Z.eqb mid 0 then []
           else match expected v tag with
                | Some (e, p) => [(c, tag, Resp mid e p)]
                | None => []
                end
    end.

  Lemma request_effect s c mid r tag :
    is_open (conns s) c = true ->
    let v := verdict_of (key_of (conns s) c) r in
    request s c mid r tag =
    mkSt (conns s) (fwd s ++ new_fwd v c (sid_of (conns s) c) mid tag (rtype r))
         (out s ++ new_out v c mid tag) (hlog s ++ new_log v (negb (Z.eqb mid 0)) tag).
  Proof.
    intros O v. unfold v, request, Spec.verdict_of.
    destruct (Z.eqb (rtype r) front_type) eqn:T.
    - unfold new_fwd, new_out, new_log, expected, write, log. rewrite app_nil_r.
      destruct (invoked (rmeth r) (negb (Z.eqb mid 0))); destruct (completes (rmeth r)); simpl;
        destruct (Z.eqb mid 0); simpl; rewrite ?O, ?app_nil_r; destruct s; reflexivity.
    - destruct (Model.target rf itype (rtype r) (key_of (conns s) c)) as [i|]; simpl.
      + rewrite !app_nil_r. reflexivity.
      + unfold write. destruct (Z.eqb mid 0); simpl; rewrite ?O, ?app_nil_r; destruct s; reflexivity.
  Qed.

  Lemma new_fwd_frec v c sd mid tag r key f :
    v = verdict_of key r -> In f (new_fwd v c sd mid tag (rtype r)) -> frec f = mkRec c mid tag v.
  Proof.
    intros E H. subst v. unfold Spec.verdict_of in *.
    destruct (Z.eqb (rtype r) front_type); [simpl in H; tauto|].
    destruct (Model.target rf itype (rtype r) key) as [i|]; [|simpl in H; tauto].
    simpl in H. destruct H as [H|[]]. subst f. reflexivity.
  Qed.

  Lemma NoDup_insert {A} (a b c : list A) t :
    NoDup (a ++ b) -> ~ In t (a ++ b) -> (c = [] \/ c = [t]) -> NoDup (a ++ c ++ b).
  Proof.
    intros N F [E|E]; subst c; simpl; [exact N|].
    apply Permutation_NoDup with (t :: a ++ b); [apply Permutation_middle|]. constructor; assumption.
  Qed.

  Lemma conn_step_req_noop cs o :
    match o with
    | OReq c _ _ _ | ONotify c _ _ => is_open cs c = false
    | _ => False
    end -> conn_step cs o = cs.
  Proof.
    destruct o as [d b sd|d mid rt t|d rt t| |d|d|d|d|]; try tauto; intro H; simpl;
      (destruct rt as [ty m|k]; [|reflexivity]); destruct m; try reflexivity;
      rewrite H, andb_false_r; reflexivity.
  Qed.

  Lemma conn_step_req_key cs c r o :
    match o with
    | OReq c' _ r' _ | ONotify c' r' _ => c' = c /\ r' = r
    | _ => False
    end ->
    verdict_of (key_of (conn_step cs o) c) r = verdict_of (key_of cs c) r.
  Proof.
    intro H. unfold Spec.verdict_of.
    destruct (Z.eqb (rtype r) front_type) eqn:T; [reflexivity|].
    assert (E : conn_step cs o = cs).
    { destruct o as [d b sd|d mid rt t|d rt t| |d|d|d|d|]; try tauto; destruct H as [H1 H2]; subst d rt; simpl;
        (destruct r as [ty m|k]; [|reflexivity]); destruct m; try reflexivity;
        simpl in T; rewrite T; reflexivity. }
    rewrite E. reflexivity.
  Qed.

  Lemma still_false ops o r :
    In r (ledger ops) -> is_open (cview ops) (r_c r) = false ->
    is_open (cview (ops ++ [o])) (r_c r) = false.
  Proof.
    intros R H. rewrite cview_snoc. apply closed_not_open, conn_step_closed, not_open_closed; [|exact H].
    apply rec_connected. exact R.
  Qed.

  (* growing the ledger keeps what was known about old slots and outputs *)
  Lemma fwd_ok_mono L L' f : (forall x, In x L -> In x L') -> fwd_ok L f -> fwd_ok L' f.
  Proof. intros M [A B]. split; [apply M; exact A | exact B]. Qed.

  Lemma inv_request ops s o c mid r tag :
    (o = OReq c mid r tag \/ (o = ONotify c r tag /\ mid = 0)) ->
    NoDup (tags_of (ops ++ [o])) ->
    is_open (cview ops) c = true ->
    Inv ops s ->
    Inv (ops ++ [o])
        (request (mkSt (conn_step (conns s) o) (fwd s) (out s) (hlog s)) c mid r tag).
  Proof.
    intros EO ND OP I.
    assert (TG : op_tags o = [tag]) by (destruct EO as [E|[E _]]; subst o; reflexivity).
    set (v := verdict_of (key_of (cview ops) c) r).
    set (rec0 := mkRec c mid tag v).
    assert (RECS : op_recs (cview ops) o = [rec0]).
    { destruct EO as [E|[E Z0]]; subst o; simpl; rewrite OP; [|subst mid]; reflexivity. }
    assert (LED : ledger (ops ++ [o]) = ledger ops ++ [rec0]) by (rewrite ledger_snoc, RECS; reflexivity).
    assert (FRESH : ~ In tag (map r_tag (ledger ops))).
    { rewrite tags_of_app in ND. unfold tags_of at 2 in ND. simpl in ND. rewrite TG in ND. simpl in ND.
      apply NoDup_remove_2 in ND. rewrite app_nil_r in ND. intro H. apply ND. apply ledger_tags_sub. exact H. }
    assert (CS : conns s = cview ops) by apply (inv_conns _ _ I).
    assert (OP' : is_open (conn_step (conns s) o) c = true).
    { rewrite CS, conn_step_open_other; [exact OP| |];
        destruct EO as [E|[E _]]; subst o; intros; discriminate. }
    assert (VEQ : verdict_of (key_of (conn_step (conns s) o) c) r = v).
    { unfold v. rewrite CS. apply conn_step_req_key. destruct EO as [E|[E _]]; subst o; tauto. }
    rewrite request_effect; [|exact OP']. simpl. rewrite VEQ.
    assert (MONO : forall x, In x (ledger ops) -> In x (ledger (ops ++ [o]))).
    { intros x H. rewrite LED. apply in_app_iff. tauto. }
    assert (R0 : In rec0 (ledger (ops ++ [o]))) by (rewrite LED; apply in_app_iff; right; left; reflexivity).
    assert (FT : ~ In tag (outT s ++ waitT (fwd s))).
    { intro H. apply FRESH. apply in_app_iff in H. destruct H as [H|H].
      - eapply out_tag_in; eauto.
      - apply waitT_sub in H. apply in_map_iff in H. destruct H as [f [E H]]. subst tag. eapply fwd_tag_in; eauto. }
    assert (FL : forall j, ~ In (j, tag) (hlog s)).
    { intros j H. apply FRESH. eapply (inv_ltags _ _ I); eauto. }
    assert (FF : ~ In tag (map f_tag (fwd s))).
    { intro H. apply FRESH. apply in_map_iff in H. destruct H as [f [E H]]. subst tag. eapply fwd_tag_in; eauto. }
    constructor; simpl.
    - rewrite CS, cview_snoc. reflexivity.
    - intros f H. apply in_app_iff in H. destruct H as [H|H].
      + eapply fwd_ok_mono; [exact MONO|]. apply (inv_fwd _ _ I). exact H.
      + assert (FE := new_fwd_frec v c _ mid tag r _ f eq_refl H).
        unfold new_fwd in H. destruct v as [m| |i rt m]; simpl in H; try tauto.
        destruct H as [H|[]]. subst f. split; [rewrite FE; exact R0|]. split; simpl.
        * intro Q. destruct (Z.eqb_spec mid 0); [discriminate | assumption].
        * exact Logic.I.
    - intros c1 t m e p H. apply in_app_iff in H. destruct H as [H|H].
      + destruct (inv_out _ _ I _ _ _ _ _ H) as [A [v1 [B C]]]. split; [exact A|]. exists v1. split; [apply MONO; exact B | exact C].
      + unfold new_out in H. destruct (Z.eqb_spec mid 0) as [Z0|NZ].
        { destruct v; simpl in H; tauto. }
        destruct (expected v tag) as [[e1 p1]|] eqn:X; [|destruct v; simpl in H; tauto].
        assert (H' : (c1, t, Resp m e p) = (c, tag, Resp mid e1 p1)).
        { destruct v; simpl in H; try tauto; destruct H as [H|[]]; symmetry; exact H. }
        inv H'. split; [exact NZ|]. exists v. split; [exact R0 | left; exact X].
    - unfold outT. simpl. rewrite map_app, waitT_app, <- app_assoc.
      assert (U := inv_uniq _ _ I).
      destruct v as [m| |i rt m]; simpl.
      + rewrite app_nil_r. apply NoDup_insert with (t := tag); [exact U | exact FT|].
        destruct (Z.eqb mid 0); [left; reflexivity|].
        destruct (match completes m with CReply => _ | CErr => _ | CSilent => _ end) as [[e p]|]; simpl; auto.
      + rewrite app_nil_r. apply NoDup_insert with (t := tag); [exact U | exact FT|].
        destruct (Z.eqb mid 0); simpl; auto.
      + rewrite waitT_cons. simpl. rewrite app_assoc.
        destruct (negb (Z.eqb mid 0)); simpl; rewrite ?app_nil_r; [|exact U].
        apply Permutation_NoDup with (tag :: outT s ++ waitT (fwd s)).
        * unfold waitT at 3. simpl. apply Permutation_cons_append.
        * constructor; assumption.
    - intros j t H. apply in_app_iff in H. destruct H as [H|H].
      + rewrite LED, map_app, in_app_iff. left. eapply (inv_ltags _ _ I); eauto.
      + unfold new_log in H. destruct v as [m| |i rt m]; simpl in H; try tauto.
        destruct (invoked m (negb (Z.eqb mid 0))); simpl in H; [|tauto].
        destruct H as [H|[]]. inv H. change t with (r_tag rec0). apply in_map. exact R0.
    - intros x X M E. rewrite LED in X. apply in_app_iff in X.
      unfold outT. simpl. rewrite map_app, waitT_app, !in_app_iff.
      destruct X as [X|[X|[]]].
      + destruct (inv_prog _ _ I x X M E) as [H|[H|H]]; [tauto | tauto|].
        right. right. apply still_false; assumption.
      + subst x. simpl in M, E. destruct (Z.eqb_spec mid 0) as [Z0|NZ]; [contradiction|].
        destruct (expected v tag) as [[e p]|] eqn:EX; [|contradiction].
        unfold new_out, new_fwd. rewrite EX.
        destruct (Z.eqb_spec mid 0) as [Z0|_]; [contradiction|].
        destruct v as [m| |i rt m].
        * left. right. left. reflexivity.
        * left. right. left. reflexivity.
        * right. left. right. unfold waitT. simpl. destruct (Z.eqb_spec mid 0); [contradiction|]. left. reflexivity.
    - intros x X. rewrite LED in X. apply in_app_iff in X. unfold log_ok. simpl.
      destruct X as [X|[X|[]]].
      + assert (NT : r_tag x <> tag).
        { intro E. apply FRESH. rewrite <- E. apply in_map. exact X. }
        assert (LO := inv_log _ _ I x X). unfold log_ok in LO.
        assert (NB : forall sd0, ntoback (r_tag x) (fwd s ++ new_fwd v c sd0 mid tag (rtype r)) = ntoback (r_tag x) (fwd s)).
        { intro sd0. rewrite ntoback_app. destruct v as [m| |i rt m]; simpl; [unfold ntoback; simpl; lia | unfold ntoback; simpl; lia |].
          rewrite ntoback_cons. simpl. destruct (Z.eqb_spec tag (r_tag x)); [congruence|]. simpl. unfold ntoback. simpl. lia. }
        assert (NL : forall j, In (j, r_tag x) (hlog s ++ new_log v (negb (Z.eqb mid 0)) tag) -> In (j, r_tag x) (hlog s)).
        { intros j H. apply in_app_iff in H. destruct H as [H|H]; [exact H|].
          unfold new_log in H. destruct v; simpl in H; try tauto.
          destruct (invoked m (negb (Z.eqb mid 0))); simpl in H; [|tauto]. destruct H as [H|[]]. inv H. congruence. }
        destruct (handler_inst (r_v x) (isreq x)) as [i|].
        * destruct LO as [LO1 LO2]. rewrite NB. split; [|intros j H; apply LO2, NL; exact H].
          rewrite nlog_app. assert (Z1 : nlog i (r_tag x) (new_log v (negb (Z.eqb mid 0)) tag) = 0%nat).
          { unfold new_log. destruct v; try reflexivity. destruct (invoked m (negb (Z.eqb mid 0))); [|reflexivity].
            apply nlog_other. congruence. }
          lia.
        * intros j H. apply (LO j), NL. exact H.
      + subst x. unfold isreq. simpl.
        assert (NL0 : forall i, nlog i tag (hlog s) = 0%nat) by (intro i; apply nlog_absent; exact FL).
        assert (NB0 : ntoback tag (fwd s) = 0%nat) by (apply ntoback_absent; exact FF).
        destruct v as [m| |i rt m]; simpl.
        * rewrite app_nil_r. destruct (invoked m (negb (Z.eqb mid 0))).
          -- split.
             ++ rewrite nlog_app, NL0, NB0. unfold nlog. simpl. rewrite !Z.eqb_refl. reflexivity.
             ++ intros j H. apply in_app_iff in H. destruct H as [H|[H|[]]]; [exfalso; eapply FL; eauto | inv H; reflexivity].
          -- rewrite app_nil_r. exact FL.
        * rewrite app_nil_r. exact FL.
        * rewrite app_nil_r. destruct (rt && invoked m (negb (Z.eqb mid 0))).
          -- split; [|intros j H; exfalso; eapply FL; eauto].
             rewrite NL0, ntoback_app, NB0, ntoback_cons. simpl. rewrite Z.eqb_refl. reflexivity.
          -- exact FL.
  Qed.

  Lemma inv_conn_only ops s o :
    op_recs (cview ops) o = [] -> Inv ops s ->
    Inv (ops ++ [o]) (mkSt (conn_step (conns s) o) (fwd s) (out s) (hlog s)).
  Proof.
    intros E I.
    assert (LED : ledger (ops ++ [o]) = ledger ops) by (rewrite ledger_snoc, E, app_nil_r; reflexivity).
    constructor; simpl; rewrite ?LED.
    - rewrite (inv_conns _ _ I), cview_snoc. reflexivity.
    - apply (inv_fwd _ _ I).
    - apply (inv_out _ _ I).
    - apply (inv_uniq _ _ I).
    - apply (inv_ltags _ _ I).
    - intros r R M X. destruct (inv_prog _ _ I r R M X) as [H|[H|H]]; [tauto | tauto|].
      right. right. apply still_false; assumption.
    - apply (inv_log _ _ I).
  Qed.

  Lemma filter_and {A} (P Q : A -> bool) l :
    filter (fun x => P x && Q x) l = filter Q (filter P l).
  Proof.
    induction l as [|x r IH]; simpl; [reflexivity|].
    destruct (P x); simpl; [destruct (Q x); rewrite IH; reflexivity | exact IH].
  Qed.

  Lemma waitT_cleared l : waitT (map (fun f => with_phase f (f_phase f) false) l) = [].
  Proof. unfold waitT. induction l as [|f r IH]; simpl; [reflexivity | exact IH]. Qed.

  Lemma ntoback_cleared t l :
    ntoback t (map (fun f => with_phase f (f_phase f) false) l) = ntoback t l.
  Proof.
    unfold ntoback. induction l as [|f r IH]; simpl; [reflexivity|].
    destruct (Z.eqb (f_tag f) t && is_toback (f_phase f)); simpl; rewrite IH; reflexivity.
  Qed.

  Lemma inv_advance ops s :
    NoDup (map r_tag (ledger ops)) -> Inv ops s -> Inv (ops ++ [OAdvance]) (advance s).
  Proof.
    intros ND I.
    assert (LED : ledger (ops ++ [OAdvance]) = ledger ops) by (rewrite ledger_snoc; simpl; rewrite app_nil_r; reflexivity).
    assert (CV : cview (ops ++ [OAdvance]) = cview ops) by (rewrite cview_snoc; reflexivity).
    assert (TO : forall x, In x (timeouts (conns s) (fwd s)) ->
                 exists f, In f (fwd s) /\ f_wait f = true /\ is_open (conns s) (f_c f) = true /\
                           x = (f_c f, f_tag f, Resp (f_mid f) true PNone)).
    { intros x H. unfold timeouts in H. apply in_map_iff in H. destruct H as [f [E H]].
      apply filter_In in H. destruct H as [H1 H2]. apply andb_true_iff in H2. exists f. intuition. }
    unfold advance. constructor; simpl; rewrite ?LED, ?CV.
    - apply (inv_conns _ _ I).
    - intros g G. apply in_map_iff in G. destruct G as [f [E F]]. subst g.
      destruct (inv_fwd _ _ I f F) as [A [B C]]. split; [exact A|]. split; [discriminate|].
      unfold phase_ok in *. simpl. destruct (f_phase f); auto. discriminate.
    - intros c t m e p H. apply in_app_iff in H. destruct H as [H|H]; [apply (inv_out _ _ I); exact H|].
      destruct (TO _ H) as [f [F [W [O E]]]]. inv E.
      destruct (inv_fwd _ _ I f F) as [A [B C]]. split; [apply B; exact W|].
      exists (fverdict f). split; [exact A|]. right. unfold fverdict. do 3 eexists. split; [reflexivity|]. split; reflexivity.
    - rewrite waitT_cleared, app_nil_r. unfold outT. simpl. rewrite map_app.
      assert (E : map (fun x : Z * Z * resp => snd (fst x)) (timeouts (conns s) (fwd s)) =
                  map f_tag (filter (fun f => is_open (conns s) (f_c f)) (filter f_wait (fwd s)))).
      { unfold timeouts. rewrite map_map. simpl. rewrite filter_and. reflexivity. }
      rewrite E. apply NoDup_app_filter. apply (inv_uniq _ _ I).
    - apply (inv_ltags _ _ I).
    - intros r R M X. rewrite waitT_cleared. unfold outT. simpl. rewrite map_app, in_app_iff.
      destruct (inv_prog _ _ I r R M X) as [H|[H|H]]; [tauto| |tauto].
      unfold waitT in H. apply in_map_iff in H. destruct H as [f [E F]]. apply filter_In in F. destruct F as [F W].
      destruct (is_open (conns s) (f_c f)) eqn:O.
      + left. right. apply in_map_iff. exists (f_c f, f_tag f, Resp (f_mid f) true PNone). split; [exact E|].
        unfold timeouts. apply in_map_iff. exists f. split; [reflexivity|]. apply filter_In. split; [exact F|].
        rewrite W, O. reflexivity.
      + right. right. destruct (inv_fwd _ _ I f F) as [A _].
        assert (ER : frec f = r).
        { apply (rec_unique ops); auto. }
        rewrite <- ER. simpl. rewrite <- (inv_conns _ _ I). exact O.
    - intros r R. assert (LO := inv_log _ _ I r R). unfold log_ok in *. simpl. rewrite ntoback_cleared. exact LO.
  Qed.

  Lemma inv_op ops s o :
    NoDup (tags_of (ops ++ [o])) -> Inv ops s -> Inv (ops ++ [o]) (op_step s o).
  Proof.
    intros ND I.
    assert (ND0 : NoDup (map r_tag (ledger ops))).
    { apply ledger_tags_nodup. rewrite tags_of_app in ND. eapply NoDup_app_l; eauto. }
    assert (CS := inv_conns _ _ I).
    destruct o as [c b sd|c mid r tag|c r tag| |c|c|c|c|]; unfold Model.op_step.
    - apply inv_conn_only; [reflexivity | exact I].
    - rewrite CS. destruct (is_open (cview ops) c) eqn:O.
      + rewrite <- CS. apply inv_request; auto.
      + assert (E : op_recs (cview ops) (OReq c mid r tag) = []) by (simpl; rewrite O; reflexivity).
        assert (H := inv_conn_only ops s (OReq c mid r tag) E I).
        rewrite (conn_step_req_noop (conns s) (OReq c mid r tag)) in H; [|rewrite CS; exact O].
        destruct s. exact H.
    - rewrite CS. destruct (is_open (cview ops) c) eqn:O.
      + rewrite <- CS. apply inv_request; auto.
      + assert (E : op_recs (cview ops) (ONotify c r tag) = []) by (simpl; rewrite O; reflexivity).
        assert (H := inv_conn_only ops s (ONotify c r tag) E I).
        rewrite (conn_step_req_noop (conns s) (ONotify c r tag)) in H; [|rewrite CS; exact O].
        destruct s. exact H.
    - apply inv_advance; assumption.
    - apply inv_conn_only; [reflexivity | exact I].
    - apply inv_conn_only; [reflexivity | exact I].
    - apply inv_conn_only; [reflexivity | exact I].
    - apply inv_conn_only; [reflexivity | exact I].
    - apply inv_conn_only; [reflexivity | exact I].
  Qed.

  Lemma inv_init : Inv [] init.
  Proof.
    constructor; simpl; try tauto; try reflexivity; try constructor.
  Qed.

  Lemma run_snoc evs e : run (evs ++ [e]) = step (run evs) e.
  Proof. unfold Model.run, Model.run_from. rewrite fold_left_app. reflexivity. Qed.

  Theorem inv_run evs : NoDup (tags_of (ops_of evs)) -> Inv (ops_of evs) (run evs).
  Proof.
    induction evs as [|e l IH] using rev_ind; intro ND; [exact inv_init|].
    rewrite run_snoc, ops_of_app. rewrite ops_of_app in ND.
    destruct e as [o|k]; simpl in *.
    - apply inv_op; [exact ND|]. apply IH. rewrite tags_of_app in ND. eapply NoDup_app_l; eauto.
    - rewrite app_nil_r in *. apply inv_deliver; [|apply IH; exact ND].
      apply ledger_tags_nodup. exact ND.
  Qed.

  (* ---------- one pass over the slots = one hop of every message ---------- *)

  Definition hop (f : freq) : freq :=
    match f_phase f with
    | PToBack =>
        if right_type (f_i f) (f_ty f) then
          with_phase f
            (if negb (Z.eqb (f_mid f) 0) then
               match completes (f_m f) with
               | CReply => PToFront (f_sid f) (f_mid f) false (reply_payload (f_m f) (f_i f) (f_tag f))
               | CErr => PToFront (f_sid f) (f_mid f) true PNone
               | CSilent => PSilent
               end
             else PDone) (f_wait f)
        else with_phase f PSilent (f_wait f)
    | PToFront _ _ _ _ => with_phase f PDone false
    | PSilent | PDone => f
    end.

  Lemma set_nth_same k l f : nth_error l k = Some f -> set_nth k f l = l.
  Proof.
    intro H. destruct (set_nth_split f k l f H) as [l1 [l2 [E1 E2]]]. rewrite E2. symmetry. exact E1.
  Qed.

  Lemma deliver_fwd s k f :
    nth_error (fwd s) k = Some f -> fwd (deliver s k) = set_nth k (hop f) (fwd s).
  Proof.
    intro N. unfold Model.deliver, hop. rewrite N.
    destruct (f_phase f) as [| |c' mid' e p|] eqn:PH.
    - destruct (right_type (f_i f) (f_ty f)); [|reflexivity].
      destruct (invoked (f_m f) (negb (Z.eqb (f_mid f) 0))); reflexivity.
    - rewrite set_nth_same; [reflexivity | exact N].
    - destruct (f_wait f && Z.eqb c' (f_sid f) && Z.eqb mid' (f_mid f)); [|reflexivity].
      unfold write. simpl. destruct (Z.eqb (f_mid f) 0); [reflexivity|].
      destruct (is_open (conns s) (f_c f)); reflexivity.
    - rewrite set_nth_same; [reflexivity | exact N].
  Qed.

  Lemma deliver_none s k : nth_error (fwd s) k = None -> deliver s k = s.
  Proof. intro N. unfold Model.deliver. rewrite N. reflexivity. Qed.

  Lemma firstn_snoc {A} (l : list A) j x :
    nth_error l j = Some x -> firstn (S j) l = firstn j l ++ [x].
  Proof.
    revert j. induction l as [|a r IH]; intros [|j] H; simpl in *; try discriminate.
    - inv H. reflexivity.
    - rewrite (IH j H). reflexivity.
  Qed.

  Lemma skipn_cons {A} (l : list A) j x :
    nth_error l j = Some x -> skipn j l = x :: skipn (S j) l.
  Proof.
    revert j. induction l as [|a r IH]; intros [|j] H; simpl in *; try discriminate.
    - inv H. reflexivity.
    - exact (IH j H).
  Qed.

  Lemma pass_prefix s j :
    (j <= length (fwd s))%nat ->
    fwd (fold_left deliver (seq 0 j) s) = map hop (firstn j (fwd s)) ++ skipn j (fwd s).
  Proof.
    induction j as [|j IH]; intro L; [reflexivity|].
    rewrite seq_S, fold_left_app. cbn [fold_left]. rewrite Nat.add_0_l.
    set (sj := fold_left deliver (seq 0 j) s) in *.
    assert (IHj : fwd sj = map hop (firstn j (fwd s)) ++ skipn j (fwd s)) by (apply IH; lia).
    destruct (nth_error (fwd s) j) as [f|] eqn:N; [|apply nth_error_None in N; lia].
    assert (LEN : length (map hop (firstn j (fwd s))) = j).
    { rewrite map_length, firstn_length. lia. }
    assert (NJ : nth_error (fwd sj) j = Some f).
    { rewrite IHj, nth_error_app2; rewrite LEN; [|lia]. rewrite Nat.sub_diag, (skipn_cons _ _ _ N). reflexivity. }
    rewrite (deliver_fwd _ _ _ NJ), IHj, (skipn_cons _ _ _ N).
    rewrite <- LEN at 1. rewrite set_nth_mid, (firstn_snoc _ _ _ N), map_app, <- app_assoc. reflexivity.
  Qed.

  Lemma pass_fwd s : fwd (pass s) = map hop (fwd s).
  Proof.
    unfold Model.pass. rewrite pass_prefix; [|lia].
    rewrite firstn_all, skipn_all, app_nil_r. reflexivity.
  Qed.

  Lemma hop_hop_settled f : settled (f_phase (hop (hop f))) = true.
  Proof.
    unfold hop. destruct (f_phase f) eqn:PH; simpl; rewrite ?PH; try reflexivity.
    destruct (right_type (f_i f) (f_ty f)); simpl; [|reflexivity].
    destruct (negb (Z.eqb (f_mid f) 0)); simpl; [|reflexivity].
    destruct (completes (f_m f)); reflexivity.
  Qed.

  Lemma hop_not_toback f : is_toback (f_phase (hop f)) = false.
  Proof.
    unfold hop. destruct (f_phase f) eqn:PH; simpl; rewrite ?PH; try reflexivity.
    destruct (right_type (f_i f) (f_ty f)); simpl; [|reflexivity].
    destruct (negb (Z.eqb (f_mid f) 0)); simpl; [|reflexivity].
    destruct (completes (f_m f)); reflexivity.
  Qed.

  Lemma inv_delivers ops ks : forall s,
    NoDup (map r_tag (ledger ops)) -> Inv ops s -> Inv ops (fold_left deliver ks s).
  Proof.
    induction ks as [|k r IH]; intros s ND I; simpl; [exact I|].
    apply IH; [exact ND|]. apply inv_deliver; assumption.
  Qed.

  Lemma inv_pass ops s : NoDup (map r_tag (ledger ops)) -> Inv ops s -> Inv ops (pass s).
  Proof. intros. apply inv_delivers; assumption. Qed.

  Lemma tags_of_advance ops : tags_of (ops ++ [OAdvance]) = tags_of ops.
  Proof. rewrite tags_of_app. unfold tags_of at 2. simpl. apply app_nil_r. Qed.

  Lemma inv_finish evs :
    NoDup (tags_of (ops_of evs)) ->
    Inv (ops_of evs ++ [OAdvance]) (finish (run evs)).
  Proof.
    intro ND. assert (NL := ledger_tags_nodup _ ND).
    unfold Model.finish. apply inv_advance; [exact NL|].
    apply inv_pass; [exact NL|]. apply inv_pass; [exact NL|]. apply inv_run. exact ND.
  Qed.

  Lemma finish_settled s f : In f (fwd (finish s)) -> settled (f_phase f) = true /\ f_wait f = false.
  Proof.
    unfold Model.finish, advance. simpl. rewrite !pass_fwd, !map_map. intro H.
    apply in_map_iff in H. destruct H as [g [E G]]. subst f. simpl. split; [apply hop_hop_settled | reflexivity].
  Qed.

  (* ---------- locating a request in the ledger ---------- *)

  Lemma ledger_from_app a : forall cs b,
    ledger_from cs (a ++ b) = ledger_from cs a ++ ledger_from (fold_left conn_step a cs) b.
  Proof.
    induction a as [|o r IH]; intros cs b; simpl; [reflexivity|].
    rewrite IH, app_assoc. reflexivity.
  Qed.

  Lemma ledger_from_tags_sub ops : forall cs t,
    In t (map r_tag (ledger_from cs ops)) -> In t (tags_of ops).
  Proof.
    induction ops as [|o r IH]; intros cs t; simpl; [tauto|].
    rewrite map_app, !in_app_iff. intros [H|H].
    - left. apply in_map_iff in H. destruct H as [x [E H]]. subst t. eapply op_recs_tag_in; eauto.
    - right. eapply IH; eauto.
  Qed.

  Lemma ledger_split pre o post :
    ledger (pre ++ o :: post) =
    ledger pre ++ op_recs (cview pre) o ++ ledger_from (conn_step (cview pre) o) post.
  Proof. unfold Spec.ledger. rewrite ledger_from_app. reflexivity. Qed.

  Lemma tag_rec ops pre o post tag x :
    NoDup (tags_of ops) -> ops = pre ++ o :: post -> op_tags o = [tag] ->
    In x (ledger ops) -> r_tag x = tag -> In x (op_recs (cview pre) o).
  Proof.
    intros ND E T X TX. subst ops. rewrite ledger_split, !in_app_iff in X.
    rewrite tags_of_app in ND. unfold tags_of at 2 in ND. simpl in ND. rewrite T in ND. simpl in ND.
    assert (N1 := NoDup_remove_2 _ _ _ ND).
    destruct X as [X|[X|X]]; [|exact X|]; exfalso; apply N1; apply in_app_iff.
    - left. apply (ledger_from_tags_sub pre []). subst tag. apply in_map. exact X.
    - right. apply (ledger_from_tags_sub post (conn_step (cview pre) o)). subst tag. apply in_map. exact X.
  Qed.

  Lemma conn_step_open_keep cs o c :
    is_open cs c = true -> o <> OClose c -> is_open (conn_step cs o) c = true.
  Proof.
    intros O N. destruct o as [d b sd|d mid rt t|d rt t| |d|d|d|d|];
      try (rewrite conn_step_open_other; [exact O | intros; discriminate | exact N]).
    simpl. destruct (aget d cs) eqn:G; [exact O|]. destruct (sid_live cs sd); [exact O|].
    unfold is_open. rewrite aget_aset_dec. destruct (Z.eqb_spec c d); [reflexivity | exact O].
  Qed.

  Lemma open_until l : forall cs c,
    is_open cs c = true -> ~ In (OClose c) l -> is_open (fold_left conn_step l cs) c = true.
  Proof.
    induction l as [|o r IH]; intros cs c O N; simpl; [exact O|].
    apply IH; [|simpl in N; tauto]. apply conn_step_open_keep; [exact O|]. simpl in N. intro E. apply N. left. exact E.
  Qed.

  Lemma filter_unique {A} (g : A -> Z) l x :
    NoDup (map g l) -> In x l -> filter (fun y => Z.eqb (g y) (g x)) l = [x].
  Proof.
    induction l as [|a r IH]; simpl; intros N H; [tauto|]. inv N.
    destruct H as [H|H].
    - subst a. rewrite Z.eqb_refl. f_equal.
      clear IH H3. induction r as [|b r IH]; simpl; [reflexivity|].
      destruct (Z.eqb_spec (g b) (g x)).
      + exfalso. apply H2. simpl. left. exact e.
      + apply IH. intro I. apply H2. simpl. right. exact I.
    - destruct (Z.eqb_spec (g a) (g x)).
      + exfalso. apply H2. rewrite e. apply in_map. exact H.
      + apply IH; assumption.
  Qed.

  Lemma waitT_nil l : (forall f, In f l -> f_wait f = false) -> waitT l = [].
  Proof.
    unfold waitT. induction l as [|f r IH]; simpl; intro H; [reflexivity|].
    rewrite (H f (or_introl eq_refl)). apply IH. intros g G. apply H. right. exact G.
  Qed.

  (* ---------- the theorems ---------- *)

  Definition accepted (pre : list op) (c : Z) : Prop := is_open (cview pre) c = true.

  Theorem one_response evs pre post c mid r tag :
    NoDup (tags_of (ops_of evs)) ->
    ops_of evs = pre ++ OReq c mid r tag :: post ->
    mid <> 0 -> accepted pre c -> ~ In (OClose c) post ->
    expected (verdict_of (key_of (cview pre) c) r) tag <> None ->
    exists e p,
      filter (fun x => Z.eqb (snd (fst x)) tag) (out (finish (run evs))) = [(c, tag, Resp mid e p)] /\
      allowed (verdict_of (key_of (cview pre) c) r) tag e p.
  Proof.
    intros ND E M A NC X.
    set (v := verdict_of (key_of (cview pre) c) r) in *.
    set (ops' := ops_of evs ++ [OAdvance]).
    assert (ND' : NoDup (tags_of ops')) by (unfold ops'; rewrite tags_of_advance; exact ND).
    assert (E' : ops' = pre ++ OReq c mid r tag :: (post ++ [OAdvance])).
    { unfold ops'. rewrite E, <- app_assoc. reflexivity. }
    assert (I := inv_finish evs ND). fold ops' in I.
    assert (R0 : In (mkRec c mid tag v) (ledger ops')).
    { rewrite E', ledger_split, !in_app_iff. right. left. simpl. unfold accepted in A. rewrite A. left. reflexivity. }
    destruct (inv_prog _ _ I _ R0 M X) as [H|[H|H]].
    - unfold outT in H. apply in_map_iff in H. destruct H as [[[c1 t1] [m e p]] [T H]]. simpl in T. subst t1.
      destruct (inv_out _ _ I _ _ _ _ _ H) as [_ [v1 [R1 AL]]].
      assert (R1' := tag_rec ops' pre _ _ tag _ ND' E' eq_refl R1 eq_refl).
      simpl in R1'. unfold accepted in A. rewrite A in R1'. destruct R1' as [R1'|[]]. inv R1'.
      exists e, p. split; [|exact AL].
      apply (filter_unique (fun x : Z * Z * resp => snd (fst x)) _ (c1, tag, Resp m e p)); [|exact H].
      apply (NoDup_app_l _ _ (inv_uniq _ _ I)).
    - exfalso. rewrite waitT_nil in H; [exact H|]. intros f F. apply (finish_settled _ f F).
    - exfalso. simpl in H. unfold ops' in H. rewrite E in H.
      unfold cview in H. rewrite <- app_assoc, fold_left_app in H. fold (cview pre) in H.
      rewrite open_until in H; [discriminate | exact A|].
      simpl. intro I1. destruct I1 as [I1|I1]; [discriminate|].
      apply in_app_iff in I1. destruct I1 as [I1|[I1|[]]]; [exact (NC I1) | discriminate].
  Qed.

  Theorem response_source evs pre post c mid r tag c1 m e p :
    NoDup (tags_of (ops_of evs)) ->
    ops_of evs = pre ++ OReq c mid r tag :: post ->
    In (c1, tag, Resp m e p) (out (run evs)) ->
    accepted pre c /\ c1 = c /\ m = mid /\ mid <> 0 /\
    allowed (verdict_of (key_of (cview pre) c) r) tag e p.
  Proof.
    intros ND E H. assert (I := inv_run evs ND).
    destruct (inv_out _ _ I _ _ _ _ _ H) as [NZ [v1 [R1 AL]]].
    assert (R1' := tag_rec _ pre _ _ tag _ ND E eq_refl R1 eq_refl).
    simpl in R1'. unfold accepted. destruct (is_open (cview pre) c); [|simpl in R1'; tauto].
    destruct R1' as [R1'|[]]. inv R1'. auto.
  Qed.

  Theorem at_most_one evs : NoDup (tags_of (ops_of evs)) -> NoDup (outT (run evs)).
  Proof. intro ND. apply (NoDup_app_l _ _ (inv_uniq _ _ (inv_run evs ND))). Qed.

  Theorem never_id_zero evs c t m e p :
    NoDup (tags_of (ops_of evs)) -> In (c, t, Resp m e p) (out (run evs)) -> m <> 0.
  Proof. intros ND H. apply (inv_out _ _ (inv_run evs ND) _ _ _ _ _ H). Qed.

  Theorem notify_unanswered evs pre post c r tag :
    NoDup (tags_of (ops_of evs)) ->
    ops_of evs = pre ++ ONotify c r tag :: post ->
    ~ In tag (outT (run evs)).
  Proof.
    intros ND E H. assert (I := inv_run evs ND).
    unfold outT in H. apply in_map_iff in H. destruct H as [[[c1 t1] [m e p]] [T H]]. simpl in T. subst t1.
    destruct (inv_out _ _ I _ _ _ _ _ H) as [NZ [v1 [R1 _]]].
    assert (R1' := tag_rec _ pre _ _ tag _ ND E eq_refl R1 eq_refl).
    simpl in R1'. destruct (is_open (cview pre) c); [|simpl in R1'; tauto].
    destruct R1' as [R1'|[]]. inv R1'. apply NZ. reflexivity.
  Qed.

  Lemma filter_tag_one (l : list (Z * Z)) i t :
    nlog i t l = 1%nat -> (forall j, In (j, t) l -> j = i) ->
    filter (fun x => Z.eqb (snd x) t) l = [(i, t)].
  Proof.
    unfold nlog. induction l as [|[a b] r IH]; simpl; intros N H; [discriminate|].
    destruct (Z.eqb_spec b t).
    - subst b. assert (a = i) by (apply H; left; reflexivity). subst a.
      rewrite Z.eqb_refl in N. simpl in N. f_equal.
      assert (Z0 : length (filter (fun x : Z * Z => Z.eqb (fst x) i && Z.eqb (snd x) t) r) = 0%nat) by lia.
      clear IH N. induction r as [|[a b] r IH]; simpl in *; [reflexivity|].
      destruct (Z.eqb_spec b t).
      + subst b. assert (a = i) by (apply H; right; left; reflexivity). subst a.
        rewrite Z.eqb_refl in Z0. simpl in Z0. discriminate.
      + rewrite andb_false_r in Z0. apply IH; [|exact Z0]. intros j [J|J]; [apply H; left; exact J | apply H; right; right; exact J].
    - rewrite andb_false_r in N. apply IH; [exact N|]. intros j J. apply H. right. exact J.
  Qed.

  Lemma filter_tag_none (l : list (Z * Z)) t :
    (forall j, ~ In (j, t) l) -> filter (fun x => Z.eqb (snd x) t) l = [].
  Proof.
    induction l as [|[a b] r IH]; simpl; intro H; [reflexivity|].
    destruct (Z.eqb_spec b t); [subst; exfalso; apply (H a); left; reflexivity|].
    apply IH. intros j J. apply (H j). right. exact J.
  Qed.

  Lemma ntoback_settled t l : (forall f, In f l -> settled (f_phase f) = true) -> ntoback t l = 0%nat.
  Proof.
    unfold ntoback. induction l as [|f r IH]; simpl; intro H; [reflexivity|].
    assert (S := H f (or_introl eq_refl)). destruct (f_phase f); try discriminate;
      simpl; rewrite andb_false_r; apply IH; intros g G; apply H; right; exact G.
  Qed.

  Theorem handler_once evs pre post o c mid r tag :
    NoDup (tags_of (ops_of evs)) ->
    ops_of evs = pre ++ o :: post ->
    (o = OReq c mid r tag \/ (o = ONotify c r tag /\ mid = 0)) ->
    accepted pre c ->
    filter (fun x => Z.eqb (snd x) tag) (hlog (finish (run evs))) =
    match handler_inst (verdict_of (key_of (cview pre) c) r) (negb (Z.eqb mid 0)) with
    | Some i => [(i, tag)]
    | None => []
    end.
  Proof.
    intros ND E EO A.
    set (v := verdict_of (key_of (cview pre) c) r) in *.
    set (ops' := ops_of evs ++ [OAdvance]).
    assert (E' : ops' = pre ++ o :: (post ++ [OAdvance])).
    { unfold ops'. rewrite E, <- app_assoc. reflexivity. }
    assert (I := inv_finish evs ND). fold ops' in I.
    assert (R0 : In (mkRec c mid tag v) (ledger ops')).
    { rewrite E', ledger_split, !in_app_iff. right. left. unfold accepted in A.
      destruct EO as [EO|[EO Z0]]; subst o; simpl; rewrite A; left; [|subst mid]; reflexivity. }
    assert (LO := inv_log _ _ I _ R0). unfold log_ok, isreq in LO. cbn [r_tag r_mid r_v] in LO.
    rewrite ntoback_settled in LO; [|intros f F; apply (finish_settled _ f F)].
    destruct (handler_inst v (negb (Z.eqb mid 0))) as [i|].
    - destruct LO as [LO1 LO2]. apply filter_tag_one; [lia | exact LO2].
    - apply filter_tag_none. exact LO.
  Qed.

  Lemma unservable_expected v tag : unservable v -> expected v tag = Some (true, PNone).
  Proof.
    destruct v as [m| |i rt m]; simpl; [intro H; rewrite H; reflexivity | reflexivity|].
    intros [H|H]; [subst rt; reflexivity|].
    destruct rt; [|reflexivity]. destruct (completes m); [contradiction | reflexivity | reflexivity].
  Qed.

  Theorem errors_answered evs pre post c mid r tag :
    NoDup (tags_of (ops_of evs)) ->
    ops_of evs = pre ++ OReq c mid r tag :: post ->
    mid <> 0 -> accepted pre c -> ~ In (OClose c) post ->
    unservable (verdict_of (key_of (cview pre) c) r) ->
    filter (fun x => Z.eqb (snd (fst x)) tag) (out (finish (run evs))) = [(c, tag, Resp mid true PNone)].
  Proof.
    intros ND E M A NC U. assert (X := unservable_expected _ tag U).
    destruct (one_response evs pre post c mid r tag ND E M A NC) as [e [p [F AL]]]; [rewrite X; discriminate|].
    rewrite F. destruct AL as [AL|[i [rt [m [_ [E1 E2]]]]]]; [rewrite X in AL; inv AL; reflexivity | subst; reflexivity].
  Qed.

  (* ---------- exact content when time-outs are only crossed at quiescence ---------- *)

  Definition exact_out (ops : list op) (s : st) : Prop :=
    forall c t m e p, In (c, t, Resp m e p) (out s) ->
    exists v, In (mkRec c m t v) (ledger ops) /\ expected v t = Some (e, p).

  Lemma calm_from_snoc evs : forall s e,
    calm_from s (evs ++ [e]) =
    calm_from s evs && match e with EOp OAdvance => quiet (run_from s evs) | _ => true end.
  Proof.
    induction evs as [|a r IH]; intros s e; simpl.
    - rewrite andb_true_r. reflexivity.
    - rewrite IH, andb_assoc. reflexivity.
  Qed.

  Lemma deliver_out ops s k x :
    Inv ops s -> In x (out (deliver s k)) ->
    In x (out s) \/
    exists f e p, In f (fwd s) /\ f_wait f = true /\ f_phase f = PToFront (f_sid f) (f_mid f) e p /\
                  x = (f_c f, f_tag f, Resp (f_mid f) e (if e then PNone else p)).
  Proof.
    intros I H. unfold Model.deliver in H.
    destruct (nth_error (fwd s) k) as [f|] eqn:N; [|left; exact H].
    assert (Fin : In f (fwd s)) by (eapply nth_error_In; eauto).
    destruct (inv_fwd _ _ I f Fin) as [_ [_ FP]]. unfold phase_ok in FP.
    destruct (f_phase f) as [| |c' mid' e p|] eqn:PH; try (left; exact H).
    - destruct (right_type (f_i f) (f_ty f)); [|left; exact H].
      destruct (invoked (f_m f) (negb (Z.eqb (f_mid f) 0))); left; exact H.
    - destruct FP as [EC [EM _]]. subst c' mid'. rewrite !Z.eqb_refl, !andb_true_r in H.
      destruct (f_wait f) eqn:W; [|left; exact H].
      unfold write in H. simpl in H. destruct (Z.eqb (f_mid f) 0); [left; exact H|].
      destruct (is_open (conns s) (f_c f)); [|left; exact H]. simpl in H.
      apply in_app_iff in H. destruct H as [H|[H|[]]]; [left; exact H|]. right.
      exists f, e, p. auto.
  Qed.

  Lemma exact_deliver ops s k : Inv ops s -> exact_out ops s -> exact_out ops (deliver s k).
  Proof.
    intros I X c t m e p H. destruct (deliver_out ops s k _ I H) as [H1|[f [e1 [p1 [F [W [PH E]]]]]]].
    - apply X. exact H1.
    - inv E. destruct (inv_fwd _ _ I f F) as [A [_ FP]]. unfold phase_ok in FP. rewrite PH in FP.
      exists (fverdict f). split; [exact A | apply FP].
  Qed.

  Lemma exact_delivers ops ks : forall s,
    NoDup (map r_tag (ledger ops)) -> Inv ops s -> exact_out ops s -> exact_out ops (fold_left deliver ks s).
  Proof.
    induction ks as [|k r IH]; intros s ND I X; simpl; [exact X|].
    apply IH; [exact ND | apply inv_deliver; assumption | apply exact_deliver; assumption].
  Qed.

  Lemma exact_mono ops o s : exact_out ops s -> exact_out (ops ++ [o]) s.
  Proof.
    intros X c t m e p H. destruct (X _ _ _ _ _ H) as [v [A B]]. exists v. split; [|exact B].
    rewrite ledger_snoc. apply in_app_iff. left. exact A.
  Qed.

  Lemma exact_advance ops s :
    Inv ops s -> quiet s = true -> exact_out ops s -> exact_out (ops ++ [OAdvance]) (advance s).
  Proof.
    intros I Q X c t m e p H. unfold advance in H. simpl in H. apply in_app_iff in H.
    destruct H as [H|H]; [apply (exact_mono ops OAdvance s X); exact H|].
    unfold timeouts in H. apply in_map_iff in H. destruct H as [f [E H]]. apply filter_In in H.
    destruct H as [F W]. apply andb_true_iff in W. destruct W as [W _]. inv E.
    destruct (inv_fwd _ _ I f F) as [A [_ FP]]. unfold phase_ok in FP.
    unfold quiet in Q. rewrite forallb_forall in Q. specialize (Q f F). rewrite W in Q. simpl in Q.
    exists (fverdict f). split; [rewrite ledger_snoc; apply in_app_iff; left; exact A|].
    destruct (f_phase f); try discriminate; [apply FP; exact W | congruence].
  Qed.

  Lemma exact_op ops s o :
    NoDup (tags_of (ops ++ [o])) -> Inv ops s ->
    (o = OAdvance -> quiet s = true) -> exact_out ops s -> exact_out (ops ++ [o]) (op_step s o).
  Proof.
    intros ND I Q X. assert (CS := inv_conns _ _ I).
    assert (REQ : forall c mid r tag,
              (o = OReq c mid r tag \/ (o = ONotify c r tag /\ mid = 0)) ->
              is_open (cview ops) c = true ->
              exact_out (ops ++ [o]) (request (mkSt (conn_step (conns s) o) (fwd s) (out s) (hlog s)) c mid r tag)).
    { intros c mid r tag EO OP.
      assert (OP' : is_open (conn_step (conns s) o) c = true).
      { rewrite CS, conn_step_open_other; [exact OP| |]; destruct EO as [E|[E _]]; subst o; intros; discriminate. }
      assert (VEQ : verdict_of (key_of (conn_step (conns s) o) c) r = verdict_of (key_of (cview ops) c) r).
      { rewrite CS. apply conn_step_req_key. destruct EO as [E|[E _]]; subst o; tauto. }
      rewrite request_effect; [|exact OP']. simpl. rewrite VEQ.
      set (v := verdict_of (key_of (cview ops) c) r).
      intros c1 t m e p H. simpl in H. apply in_app_iff in H. destruct H as [H|H]; [apply (exact_mono ops o s X); exact H|].
      exists v. unfold new_out in H.
      assert (R0 : In (mkRec c mid tag v) (ledger (ops ++ [o]))).
      { rewrite ledger_snoc. apply in_app_iff. right.
        destruct EO as [E|[E Z0]]; subst o; simpl; rewrite OP; left; [|subst mid]; reflexivity. }
      destruct (Z.eqb mid 0); [destruct v; simpl in H; tauto|].
      destruct (expected v tag) as [[e1 p1]|] eqn:EX; [|destruct v; simpl in H; tauto].
      assert (H' : (c1, t, Resp m e p) = (c, tag, Resp mid e1 p1)).
      { destruct v; simpl in H; try tauto; destruct H as [H|[]]; symmetry; exact H. }
      inv H'. split; [exact R0 | exact EX]. }
    destruct o as [c b sd|c mid r tag|c r tag| |c|c|c|c|]; unfold Model.op_step.
    - apply exact_mono. exact X.
    - destruct (is_open (conns s) c) eqn:O; [|apply exact_mono; exact X].
      apply REQ; [left; reflexivity | rewrite <- CS; exact O].
    - destruct (is_open (conns s) c) eqn:O; [|apply exact_mono; exact X].
      apply REQ; [right; split; reflexivity | rewrite <- CS; exact O].
    - apply exact_advance; auto.
    - apply exact_mono. exact X.
    - apply exact_mono. exact X.
    - apply exact_mono. exact X.
    - apply exact_mono. exact X.
    - apply exact_mono. exact X.
  Qed.

  Theorem exact_run evs :
    NoDup (tags_of (ops_of evs)) -> calm evs = true -> exact_out (ops_of evs) (run evs).
  Proof.
    induction evs as [|e l IH] using rev_ind; intros ND C; [intros c t m e p []|].
    unfold calm in C. rewrite calm_from_snoc in C. apply andb_true_iff in C. destruct C as [C1 C2].
    rewrite run_snoc, ops_of_app. rewrite ops_of_app in ND.
    destruct e as [o|k]; simpl in *.
    - assert (ND1 : NoDup (tags_of (ops_of l))) by (rewrite tags_of_app in ND; eapply NoDup_app_l; eauto).
      apply exact_op; [exact ND | apply inv_run; exact ND1| | apply IH; assumption].
      intro E. subst o. exact C2.
    - rewrite app_nil_r in *. apply exact_deliver; [apply inv_run; exact ND | apply IH; assumption].
  Qed.

  Lemma quiet_after_passes s : quiet (pass (pass s)) = true.
  Proof.
    unfold quiet. rewrite !pass_fwd, map_map. apply forallb_forall. intros f F.
    apply in_map_iff in F. destruct F as [g [E G]]. subst f. rewrite hop_hop_settled. apply orb_true_r.
  Qed.

  Theorem exact_finish evs :
    NoDup (tags_of (ops_of evs)) -> calm evs = true ->
    exact_out (ops_of evs ++ [OAdvance]) (finish (run evs)).
  Proof.
    intros ND C. assert (NL := ledger_tags_nodup _ ND). unfold Model.finish.
    apply exact_advance.
    - apply inv_pass; [exact NL|]. apply inv_pass; [exact NL|]. apply inv_run. exact ND.
    - apply quiet_after_passes.
    - apply exact_delivers; [exact NL | apply inv_pass; [exact NL | apply inv_run; exact ND]|].
      apply exact_delivers; [exact NL | apply inv_run; exact ND | apply exact_run; assumption].
  Qed.

  Theorem relayed_unchanged evs pre post c mid r tag c1 m e p :
    NoDup (tags_of (ops_of evs)) -> calm evs = true ->
    ops_of evs = pre ++ OReq c mid r tag :: post ->
    In (c1, tag, Resp m e p) (out (finish (run evs))) ->
    expected (verdict_of (key_of (cview pre) c) r) tag = Some (e, p).
  Proof.
    intros ND C E H.
    destruct (exact_finish evs ND C _ _ _ _ _ H) as [v1 [R1 X]].
    assert (ND' : NoDup (tags_of (ops_of evs ++ [OAdvance]))) by (rewrite tags_of_advance; exact ND).
    assert (E' : ops_of evs ++ [OAdvance] = pre ++ OReq c mid r tag :: (post ++ [OAdvance])).
    { rewrite E, <- app_assoc. reflexivity. }
    assert (R1' := tag_rec _ pre _ _ tag _ ND' E' eq_refl R1 eq_refl).
    simpl in R1'. destruct (is_open (cview pre) c); [|simpl in R1'; tauto].
    destruct R1' as [R1'|[]]. inv R1'. exact X.
  Qed.

  (* ---------- nothing is written to a closed connection ---------- *)

  Lemma write_grows s c tag mid e p :
    exists new, out (write s c tag mid e p) = out s ++ new /\
                forall x, In x new -> is_open (conns s) (fst (fst x)) = true.
  Proof.
    unfold write. destruct (Z.eqb mid 0); [exists []; rewrite app_nil_r; simpl; tauto|].
    destruct (is_open (conns s) c) eqn:O; [|exists []; rewrite app_nil_r; simpl; tauto].
    exists [(c, tag, Resp mid e p)]. split; [reflexivity|]. intros x [H|[]]. subst x. exact O.
  Qed.

  Lemma step_grows s e :
    exists new, out (step s e) = out s ++ new /\
                forall x, In x new -> is_open (conns s) (fst (fst x)) = true.
  Proof.
    assert (NIL : exists new, out s = out s ++ new /\ forall x, In x new -> is_open (conns s) (fst (fst x)) = true).
    { exists []. rewrite app_nil_r. simpl. tauto. }
    assert (REQ : forall o c mid r tag,
              is_open (conns s) c = true -> is_open (conn_step (conns s) o) c = true ->
              exists new, out (request (mkSt (conn_step (conns s) o) (fwd s) (out s) (hlog s)) c mid r tag) = out s ++ new /\
                          forall x, In x new -> is_open (conns s) (fst (fst x)) = true).
    { intros o c mid r tag O O'. rewrite request_effect; [|exact O']. simpl.
      eexists. split; [reflexivity|]. intros x H. unfold new_out in H.
      destruct (verdict_of (key_of (conn_step (conns s) o) c) r); simpl in H; try tauto;
        destruct (Z.eqb mid 0); simpl in H; try tauto.
      - destruct (completes m); simpl in H; try tauto; destruct H as [H|[]]; subst x; exact O.
      - destruct H as [H|[]]; subst x; exact O. }
    destruct e as [o|k]; simpl.
    - destruct o as [c b sd|c mid r tag|c r tag| |c|c|c|c|]; unfold Model.op_step; try exact NIL.
      + destruct (is_open (conns s) c) eqn:O; [|exact NIL]. apply REQ; [exact O|].
        apply conn_step_open_keep; [exact O | discriminate].
      + destruct (is_open (conns s) c) eqn:O; [|exact NIL]. apply REQ; [exact O|].
        apply conn_step_open_keep; [exact O | discriminate].
      + eexists. split; [reflexivity|]. intros x H. unfold timeouts in H. apply in_map_iff in H.
        destruct H as [f [E H]]. apply filter_In in H. destruct H as [_ H]. apply andb_true_iff in H.
        subst x. simpl. tauto.
    - unfold Model.deliver. destruct (nth_error (fwd s) k) as [f|]; [|exact NIL].
      destruct (f_phase f) as [| |c' mid' e p|]; try exact NIL.
      + destruct (right_type (f_i f) (f_ty f)); [|exact NIL].
        destruct (invoked (f_m f) (negb (Z.eqb (f_mid f) 0))); exact NIL.
      + destruct (f_wait f && Z.eqb c' (f_sid f) && Z.eqb mid' (f_mid f)); [|exact NIL].
        apply (write_grows (mkSt (conns s) (set_nth k (with_phase f PDone false) (fwd s)) (out s) (hlog s))).
  Qed.

  Lemma step_closed s e c : is_closed (conns s) c = true -> is_closed (conns (step s e)) c = true.
  Proof.
    intro H. destruct e as [o|k]; simpl.
    - assert (G : is_closed (conn_step (conns s) o) c = true) by (apply conn_step_closed; exact H).
      destruct o as [d b sd|d mid r tag|d r tag| |d|d|d|d|]; unfold Model.op_step; try exact G; try exact H.
      + destruct (is_open (conns s) d) eqn:O; [|exact H]. rewrite request_effect; [exact G|].
        apply conn_step_open_keep; [exact O | discriminate].
      + destruct (is_open (conns s) d) eqn:O; [|exact H]. rewrite request_effect; [exact G|].
        apply conn_step_open_keep; [exact O | discriminate].
    - unfold Model.deliver. destruct (nth_error (fwd s) k) as [f|]; [|exact H].
      destruct (f_phase f) as [| |c' mid' e p|]; try exact H.
      + destruct (right_type (f_i f) (f_ty f)); [|exact H].
        destruct (invoked (f_m f) (negb (Z.eqb (f_mid f) 0))); exact H.
      + destruct (f_wait f && Z.eqb c' (f_sid f) && Z.eqb mid' (f_mid f)); [|exact H].
        unfold write. simpl. destruct (Z.eqb (f_mid f) 0); [exact H|].
        destruct (is_open (conns s) (f_c f)); exact H.
  Qed.

  Theorem closed_silent more : forall s c,
    is_closed (conns s) c = true ->
    responses_of (run_from s more) c = responses_of s c.
  Proof.
    induction more as [|e r IH]; intros s c H; [reflexivity|].
    change (run_from s (e :: r)) with (run_from (step s e) r). rewrite IH; [|apply step_closed; exact H].
    destruct (step_grows s e) as [new [E N]]. unfold responses_of. rewrite E, filter_app, map_app.
    assert (Z0 : filter (fun x : Z * Z * resp => Z.eqb (fst (fst x)) c) new = []).
    { clear E. induction new as [|x l IHl]; [reflexivity|]. simpl.
      destruct (Z.eqb_spec (fst (fst x)) c) as [EQ|NE].
      - exfalso. assert (O := N x (or_introl eq_refl)). rewrite EQ in O.
        apply closed_not_open in H. congruence.
      - apply IHl. intros y Y. apply N. right. exact Y. }
    rewrite Z0. simpl. apply app_nil_r.
  Qed.

  (* ---------- the harness schedule is one of the schedules quantified over ---------- *)

  Notation sync_step := (sync_step rf itype).

  Lemma calm_from_app a : forall s b,
    calm_from s (a ++ b) = calm_from s a && calm_from (run_from s a) b.
  Proof.
    induction a as [|e r IH]; intros s b; simpl; [reflexivity|].
    rewrite IH, andb_assoc. reflexivity.
  Qed.

  Lemma run_from_app a b s : run_from s (a ++ b) = run_from (run_from s a) b.
  Proof. unfold Model.run_from. apply fold_left_app. Qed.

  Lemma delivers_run ks : forall s, fold_left deliver ks s = run_from s (map EDeliver ks).
  Proof. induction ks as [|k r IH]; intro s; simpl; [reflexivity | apply IH]. Qed.

  Lemma delivers_calm ks : forall s, calm_from s (map EDeliver ks) = true.
  Proof. induction ks as [|k r IH]; intro s; simpl; [reflexivity | apply IH]. Qed.

  Lemma delivers_ops ks : ops_of (map EDeliver ks) = [].
  Proof. induction ks as [|k r IH]; simpl; [reflexivity | exact IH]. Qed.

  Theorem sync_is_schedule ops :
    exists evs, ops_of evs = ops /\ calm evs = true /\
                fold_left sync_step ops init = run evs /\ quiet (run evs) = true.
  Proof.
    induction ops as [|o l IH] using rev_ind.
    - exists []. repeat split; reflexivity.
    - destruct IH as [evs [EO [C [ER Q]]]].
      set (s1 := op_step (run evs) o).
      set (k1 := seq 0 (length (fwd s1))).
      set (k2 := seq 0 (length (fwd (pass s1)))).
      exists (evs ++ [EOp o] ++ map EDeliver k1 ++ map EDeliver k2).
      assert (R : run (evs ++ [EOp o] ++ map EDeliver k1 ++ map EDeliver k2) = pass (pass s1)).
      { unfold Model.run. rewrite !run_from_app. fold (run evs). simpl.
        rewrite <- !delivers_run. reflexivity. }
      split; [|split; [|split]].
      + rewrite !ops_of_app, !delivers_ops, EO. simpl. reflexivity.
      + unfold calm. rewrite !calm_from_app, !delivers_calm. fold (calm evs). rewrite C. simpl.
        fold (run evs). rewrite !andb_true_r. destruct o; try reflexivity. exact Q.
      + rewrite fold_left_app, ER, R. reflexivity.
      + rewrite R. apply quiet_after_passes.
  Qed.

  (* ---------- a response only ever goes to the connection that sent the request ---------- *)

  Lemma ledger_origin ops x :
    In x (ledger ops) ->
    exists pre o post, ops = pre ++ o :: post /\ In x (op_recs (cview pre) o).
  Proof.
    induction ops as [|o l IH] using rev_ind; [simpl; tauto|].
    rewrite ledger_snoc, in_app_iff. intros [H|H].
    - destruct (IH H) as [pre [o' [post [E X]]]]. exists pre, o', (post ++ [o]).
      split; [rewrite E, <- app_assoc; reflexivity | exact X].
    - exists l, o, []. split; [reflexivity | exact H].
  Qed.

  Theorem response_has_requester evs c1 t m e p :
    NoDup (tags_of (ops_of evs)) ->
    In (c1, t, Resp m e p) (out (run evs)) ->
    exists pre post r, ops_of evs = pre ++ OReq c1 m r t :: post /\ accepted pre c1.
  Proof.
    intros ND H. destruct (inv_out _ _ (inv_run evs ND) _ _ _ _ _ H) as [NZ [v [R _]]].
    destruct (ledger_origin _ _ R) as [pre [o [post [E X]]]].
    destruct o as [c b sd|c mid r tag|c r tag| |c|c|c|c|]; simpl in X; try tauto;
      destruct (is_open (cview pre) c) eqn:O; simpl in X; try tauto; destruct X as [X|[]]; inv X.
    - exists pre, post, r. split; [exact E | exact O].
    - exfalso. apply NZ. reflexivity.
  Qed.


  (* ---------- the protocol state machine does not touch what the server owes ---------- *)

  Definition is_proto (e : ev) : bool :=
    match e with
    | EOp (OHandshake _) | EOp (OAck _) | EOp (OHeartbeat _) | EOp OProto => true
    | _ => false
    end.

  Lemma proto_step s e : is_proto e = true -> step s e = s.
  Proof.
    destruct e as [o|k]; [|discriminate].
    destruct o; try discriminate; intros _; destruct s; reflexivity.
  Qed.

  Theorem proto_transparent evs : forall s,
    run_from s evs = run_from s (filter (fun e => negb (is_proto e)) evs).
  Proof.
    induction evs as [|e r IH]; intro s; [reflexivity|].
    change (run_from s (e :: r)) with (run_from (step s e) r). simpl.
    destruct (is_proto e) eqn:P; simpl.
    - rewrite (proto_step s e P). apply IH.
    - change (run_from s (e :: filter (fun e0 => negb (is_proto e0)) r))
        with (run_from (step s e) (filter (fun e0 => negb (is_proto e0)) r)). apply IH.
  Qed.

End Proofs.
