(* C02 - property theorems only.  Each is closed by [exact] of a lemma from Proofs.v and
   followed by Print Assumptions.

   Reading guide.  [evs] is ANY list of events: client operations (connect, request, notify,
   advance the clock past every forward time-out, close) interleaved with ANY deliveries
   [EDeliver k] (the message of forwarded request k moves one hop: front -> back-end, or
   back-end -> front).  [rf] / [itype] are ANY route functions and instance table.
   [tags_of] are ghost tags naming the individual requests (two requests may carry the same
   client id); [out] lists (connection, tag, response written).  [finish] completes a history:
   everything in flight arrives, then the clock passes every deadline.
   [verdict_of rf itype key r] is what route [r] means for a session whose routing key is
   [key]: VLocal (the front's own type), VNoTarget, or VForward i rt m (instance i chosen by the
   route function; rt: i has the routed type).  [expected] is the response that verdict calls
   for; [allowed] = expected, or a time-out error in place of a forwarded reply. *)
From Cell2V Require Import Common.Tac Common.ListX Common.AList C02.Model C02.Spec C02.Proofs.

(* Exactly one response per request with a non-zero id sent on an open connection that is not
   closed afterwards, on that connection, carrying that id - for every interleaving.
   (The one excluded class: the front's OWN handler keeps the completion and never uses it;
   that is user code, [expected = None].) *)
Theorem C02_one_response : forall rf itype evs pre post c mid r tag,
  NoDup (tags_of (ops_of evs)) ->
  ops_of evs = pre ++ OReq c mid r tag :: post ->
  mid <> 0 -> is_open (cview pre) c = true -> ~ In (OClose c) post ->
  expected (verdict_of rf itype (key_of (cview pre) c) r) tag <> None ->
  exists e p,
    filter (fun x => Z.eqb (snd (fst x)) tag) (out (finish itype (run rf itype evs)))
      = [(c, tag, Resp mid e p)] /\
    allowed (verdict_of rf itype (key_of (cview pre) c) r) tag e p.
Proof. exact one_response. Qed.
Print Assumptions C02_one_response.

(* In EVERY reachable state no request has two responses ... *)
Theorem C02_at_most_one : forall rf itype evs,
  NoDup (tags_of (ops_of evs)) -> NoDup (outT (run rf itype evs)).
Proof. exact at_most_one. Qed.
Print Assumptions C02_at_most_one.

(* ... and every response written belongs to a request that was sent on that connection with
   that id, and is the one its route calls for: produced by the front itself iff the route
   names the front's type; otherwise the reply of the instance the route function selected
   from the session's data at that moment (or an error). *)
Theorem C02_source : forall rf itype evs pre post c mid r tag c1 m e p,
  NoDup (tags_of (ops_of evs)) ->
  ops_of evs = pre ++ OReq c mid r tag :: post ->
  In (c1, tag, Resp m e p) (out (run rf itype evs)) ->
  is_open (cview pre) c = true /\ c1 = c /\ m = mid /\ mid <> 0 /\
  allowed (verdict_of rf itype (key_of (cview pre) c) r) tag e p.
Proof. exact response_source. Qed.
Print Assumptions C02_source.

(* No foreign responses, whatever numeric session ids are reused: every response ever written to
   a connection answers a request THAT connection (the identity c1, not a numeric id) sent while
   it was open, under that request's id.  A connection that is handed the recycled id of a closed
   one therefore never receives the closed one's replies or time-outs; together with
   C02_closed_silent the reply of a request of a closed connection is written nowhere. *)
Theorem C02_no_foreign_response : forall rf itype evs c1 t m e p,
  NoDup (tags_of (ops_of evs)) ->
  In (c1, t, Resp m e p) (out (run rf itype evs)) ->
  exists pre post r, ops_of evs = pre ++ OReq c1 m r t :: post /\ is_open (cview pre) c1 = true.
Proof. exact response_has_requester. Qed.
Print Assumptions C02_no_foreign_response.

(* When the clock only crosses the deadlines at quiescence (no reply in flight for a waiting
   request at any Advance: [calm]), the response is exactly the expected one: in particular a
   forwarded request whose handler replies is answered with that reply, unchanged, naming
   the instance the route function chose. *)
Theorem C02_relayed_unchanged : forall rf itype evs pre post c mid r tag c1 m e p,
  NoDup (tags_of (ops_of evs)) -> calm rf itype evs = true ->
  ops_of evs = pre ++ OReq c mid r tag :: post ->
  In (c1, tag, Resp m e p) (out (finish itype (run rf itype evs))) ->
  expected (verdict_of rf itype (key_of (cview pre) c) r) tag = Some (e, p).
Proof. exact relayed_unchanged. Qed.
Print Assumptions C02_relayed_unchanged.

(* Unknown method / group, undecodable payload, failing or panicking handler, request to a
   notify-shaped method, no reachable target (unbound key, unknown instance, unknown type,
   malformed route), wrong service, handler that never completes on a back-end: exactly one
   response, with the error flag and no payload. *)
Theorem C02_errors_answered : forall rf itype evs pre post c mid r tag,
  NoDup (tags_of (ops_of evs)) ->
  ops_of evs = pre ++ OReq c mid r tag :: post ->
  mid <> 0 -> is_open (cview pre) c = true -> ~ In (OClose c) post ->
  unservable (verdict_of rf itype (key_of (cview pre) c) r) ->
  filter (fun x => Z.eqb (snd (fst x)) tag) (out (finish itype (run rf itype evs)))
    = [(c, tag, Resp mid true PNone)].
Proof. exact errors_answered. Qed.
Print Assumptions C02_errors_answered.

(* Notifications are never answered (no response carries id 0 at all) ... *)
Theorem C02_notify_unanswered : forall rf itype evs pre post c r tag,
  NoDup (tags_of (ops_of evs)) ->
  ops_of evs = pre ++ ONotify c r tag :: post ->
  ~ In tag (outT (run rf itype evs)).
Proof. exact notify_unanswered. Qed.
Print Assumptions C02_notify_unanswered.

Theorem C02_never_id_zero : forall rf itype evs c t m e p,
  NoDup (tags_of (ops_of evs)) -> In (c, t, Resp m e p) (out (run rf itype evs)) -> m <> 0.
Proof. exact never_id_zero. Qed.
Print Assumptions C02_never_id_zero.

(* ... and are delivered to the handler exactly once (requests too): at the end of a history
   the invocation log holds one entry for the request/notification, at the instance its
   verdict names, or none when no handler is to be entered. *)
Theorem C02_handler_once : forall rf itype evs pre post o c mid r tag,
  NoDup (tags_of (ops_of evs)) ->
  ops_of evs = pre ++ o :: post ->
  (o = OReq c mid r tag \/ (o = ONotify c r tag /\ mid = 0)) ->
  is_open (cview pre) c = true ->
  filter (fun x => Z.eqb (snd x) tag) (hlog (finish itype (run rf itype evs))) =
  match handler_inst (verdict_of rf itype (key_of (cview pre) c) r) (negb (Z.eqb mid 0)) with
  | Some i => [(i, tag)]
  | None => []
  end.
Proof. exact handler_once. Qed.
Print Assumptions C02_handler_once.

(* The client protocol state machine - a second Handshake packet at any moment, its ack,
   heartbeats, also while requests are outstanding - are events of the histories all theorems
   above quantify over, and they change nothing: any history behaves exactly like the same
   history without them.  (So a response produced while the session is back in the handshake
   state is still written: exactly one response holds across re-handshakes.) *)
Theorem C02_protocol_transparent : forall rf itype evs s,
  run_from rf itype s evs =
  run_from rf itype s (filter (fun e => negb (is_proto e)) evs).
Proof. exact proto_transparent. Qed.
Print Assumptions C02_protocol_transparent.

(* Frame: nothing is ever written to a connection after it was closed, whatever happens. *)
Theorem C02_closed_silent : forall rf itype more s c,
  is_closed (conns s) c = true ->
  responses_of (run_from rf itype s more) c = responses_of s c.
Proof. exact closed_silent. Qed.
Print Assumptions C02_closed_silent.

(* The schedule of the harness (every message delivered before the next client operation) is
   one of the event lists the theorems quantify over, and it is calm. *)
Theorem C02_harness_schedule : forall rf itype ops,
  exists evs, ops_of evs = ops /\ calm rf itype evs = true /\
              fold_left (sync_step rf itype) ops init = run rf itype evs /\
              quiet (run rf itype evs) = true.
Proof. exact sync_is_schedule. Qed.
Print Assumptions C02_harness_schedule.

(* non-vacuity: a history over the harness configuration with a keyed forward, a notify, a
   request to a notify-shaped method, an unknown type, a silent back-end handler and a silent
   front handler (the only unanswered one) *)
Example C02_example_sync :
  observe (run_sync rf0 itype0
    [OConnect 1 false 1; OReq 1 900 (RT 0 (MSetKey 2)) 1; OReq 1 10 (RT 1 MEcho) 2;
     ONotify 1 (RT 1 MEcho) 3; OReq 1 11 (RT 1 MNote) 4; OReq 1 12 (RT 7 MEcho) 5;
     OReq 1 13 (RT 2 MNever) 6; OReq 1 14 (RT 0 MNever) 7])
  = ([(1, [Resp 900 false (PReply 0 1); Resp 10 false (PReply 2 2); Resp 11 true PNone;
           Resp 12 true PNone; Resp 13 true PNone])],
     [(0, 1); (2, 2); (2, 3); (3, 6); (0, 7)]).
Proof. vm_compute. reflexivity. Qed.

(* an asynchronous schedule: the reply is still in flight when the clock passes the deadline -
   one response (the time-out error), the late reply is dropped; not calm *)
Example C02_example_timeout :
  out (finish itype0 (run rf0 itype0
    [EOp (OConnect 1 false 1); EOp (OReq 1 5 (RT 2 MEcho) 1); EOp OAdvance; EDeliver 0; EDeliver 0]))
  = [(1, 1, Resp 5 true PNone)]
  /\ calm rf0 itype0
    [EOp (OConnect 1 false 1); EOp (OReq 1 5 (RT 2 MEcho) 1); EOp OAdvance; EDeliver 0; EDeliver 0] = false.
Proof. vm_compute. split; reflexivity. Qed.

(* session-id reuse: connection 1 (numeric id 7) parks a request at a silent back-end handler and
   closes; connection 2 is handed the recycled id 7 and uses the same request id; the time-out of
   1's request is written nowhere, 2 gets exactly its own answer.  A connect that would take the
   id of a LIVE connection is outside the model (ignored). *)
Example C02_example_id_reuse :
  observe (run_sync rf0 itype0
    [OConnect 1 false 7; OReq 1 5 (RT 2 MNever) 1; OClose 1; OConnect 2 false 7;
     OConnect 3 false 7; OReq 2 5 (RT 2 MEcho) 2; OAdvance])
  = ([(1, []); (2, [Resp 5 false (PReply 3 2)])], [(3, 1); (3, 2)]).
Proof. vm_compute. reflexivity. Qed.

(* a later front-local request overtakes a forwarded one that is still in flight *)
Example C02_example_overtake :
  out (finish itype0 (run rf0 itype0
    [EOp (OConnect 1 false 1); EOp (OReq 1 5 (RT 2 MEcho) 1); EDeliver 0;
     EOp (OReq 1 6 (RT 0 MFail) 2); EDeliver 0; EOp OAdvance]))
  = [(1, 2, Resp 6 true PNone); (1, 1, Resp 5 false (PReply 3 1))].
Proof. vm_compute. reflexivity. Qed.
