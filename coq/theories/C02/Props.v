From Cell2V Require Import Common.Tac Common.ListX Common.AList C02.Model C02.Spec C02.Proofs.
