(* C02 - model of the client request path of a front-end service.  No proofs in this file.

   Go -> model (REPAIRED code: hooks/C02-fix-{forward-no-target,request-to-notify-method,
   stamp-session-id}.patch applied):
     pomelo/sessionsimpl.go ProcessMessage   a client frame becomes [request s c mid r tag]
                                             executed in the front's context (mid = 0: notify)
     impls/handler.go Process                route names the front's own type => [call] on the
                                             local collection, answer with ResponseMID;
                                             otherwise Forward
     impls/forwarder.go Forward              [target]: registered route function applied to the
                                             session's data, then GetServicePID; no target =>
                                             error response (fix F3); else sys.call / sys.notify
     builtin/system.go + ProcessForwardMsg   [deliver], phase PToBack: wrong service type =>
                                             nothing; else the handler result wrapped in
                                             msgs.Response{SessionId,ClientReqId,Data|Error}
     forwarder.go relay callback             [deliver], phase PToFront: the closure holds the session
                                             OBJECT of the requester ([f_c]); it checks the reply's SessionId
                                             against that object's id ([f_sid]) and
                                             ClientReqId, writes the response
     actorex/service checkExpired            [advance]: every waiting callback gets ErrTimeout
     session.go ResponseMID                  [write]: refuses id 0 and closed sessions

   Each forwarded request owns one slot of the table [fwd] (the pending-request table of the
   front's actorex Service, whose id uniqueness is C01's theorem, is abstracted to "one
   callback slot per forwarded request").  A slot records where the single message of that
   request currently is (phase); [EDeliver k] moves the message of slot k one hop, so every
   interleaving of forwarding, back-end processing, relaying, time-outs, closes and other
   client traffic is a list of events.

   Handlers are behaviours (what the harness entry methods do):
     MEcho        completes with a reply naming the executing instance and the request tag
     MSetKey v    as MEcho; executed on the front it first stores v as the session's routing key
     MFail        completes with an error          MBoom     panics before completing
     MNever       returns without ever completing  MNote     notify-shaped method (no completion)
     MNoMethod / MNoGroup   no such method / group MBadPayload  existing method, undecodable JSON
     MUnenc       completes successfully with a result the client serializer cannot encode (e.g. a
                  float +Inf under JSON): the encoding error is the answer - on the front
                  (handler.go Process) and, REPAIRED (hooks/C02-fix-forwarded-marshal-error.patch),
                  on a back-end (ProcessForwardMsg ignored the error and relayed an empty success)
     MEncPanic    completes successfully with a result whose encoding PANICS (a user MarshalJSON that
                  dereferences nil): SafeCall's recover completes the request with an error
     MEchoLater / MUnencLater / MEncPanicLater   as MEcho / MUnenc / MEncPanic, but the handler
                  completes in a later turn of its service (asynchronous completion: outside
                  SafeCall's recover; REPAIRED for the panicking encoding by
                  hooks/C02-fix-async-marshal-panic.patch) *)
From Cell2V Require Import Common.Tac Common.ListX Common.AList.

Inductive meth :=
| MEcho | MSetKey (v : Z) | MFail | MBoom | MNever | MNote | MNoMethod | MNoGroup | MBadPayload
| MUnenc | MEncPanic | MEchoLater | MUnencLater | MEncPanicLater
| MZero                      (* completes successfully with an all-default result: NO payload bytes *)
| MMisspelt (base k : Z).    (* the route of harness method number [base], spelled in a way that is
                                not registered (k: Go-name / upper-case method, capitalised group) *)

Inductive route :=
| RT (ty : Z) (m : meth)        (* well-formed  type.group.method *)
| RMalformed (k : Z).           (* not three dot-separated segments: splits to type "" *)

Inductive payload := PReply (inst tag : Z) | PNone | POther.
Inductive resp := Resp (mid : Z) (err : bool) (p : payload).

Inductive op :=
| OConnect (c : Z) (busy : bool) (sid : Z)
    (* c: the connection (an identity); sid: the NUMERIC session id the front's allocator hands
       it (ids wrap and are reused); busy: the front's goroutine is occupied meanwhile *)
| OReq (c mid : Z) (r : route) (tag : Z)
| ONotify (c : Z) (r : route) (tag : Z)
| OAdvance                            (* virtual clock + 31 s, expiry scan *)
| OClose (c : Z)
(* the pomelo protocol state machine of an established connection: a client may send a Handshake
   packet again at any moment (the session drops back to the handshake state until the next
   HandshakeAck) and heartbeats at any moment - also while requests are outstanding.  None of them
   has any effect on the responses the server owes (ResponseMID only refuses closed sessions).
   Data packets sent between a re-handshake and its ack are ignored by the server before they
   become requests (session.go processPacket): the harness removes them from the history
   (Corr.prep). *)
| OHandshake (c : Z)
| OAck (c : Z)
| OHeartbeat (c : Z)
| OProto.                             (* the case runs with the protobuf client serializer: nothing else changes *)

Inductive ev := EOp (o : op) | EDeliver (k : nat).

Definition front_type : Z := 0.
Definition front_inst : Z := 0.
Definition no_type : Z := -1.         (* the "" type a malformed route splits to *)

Definition rtype (r : route) : Z := match r with RT ty _ => ty | RMalformed _ => no_type end.
Definition rmeth (r : route) : meth := match r with RT _ m => m | RMalformed _ => MEcho end.

(* how a call of method behaviour [m] ends, seen from the caller *)
Inductive completion := CReply | CErr | CSilent.

Definition completes (m : meth) : completion :=
  match m with
  | MEcho | MSetKey _ | MEchoLater | MZero => CReply
  | MNever => CSilent
  | MFail | MBoom | MNote | MNoMethod | MNoGroup | MBadPayload | MUnenc | MEncPanic | MUnencLater | MEncPanicLater | MMisspelt _ _ => CErr
  end.

(* is the user's handler function entered? ([isreq]: the call carries a completion) *)
Definition invoked (m : meth) (isreq : bool) : bool :=
  match m with
  | MEcho | MSetKey _ | MFail | MBoom | MNever | MUnenc | MEncPanic | MEchoLater | MUnencLater | MEncPanicLater | MZero => true
  | MNote => negb isreq        (* request to a notify-shaped method: refused before the call *)
  | MNoMethod | MNoGroup | MBadPayload | MMisspelt _ _ => false
  end.

(* what a successful completion carries *)
Definition reply_payload (m : meth) (inst tag : Z) : payload :=
  match m with MZero => PNone | _ => PReply inst tag end.

Record conn := mkConn { c_open : bool; c_key : Z; c_sid : Z }.

Inductive phase :=
| PToBack                                   (* sys.call / sys.notify in flight to the back-end *)
| PSilent                                   (* the back-end will never answer *)
| PToFront (sid mid : Z) (e : bool) (p : payload) (* msgs.Response{SessionId,ClientReqId,..} in flight to the front *)
| PDone.

Record freq := mkF {
  f_c : Z; f_sid : Z; f_mid : Z; f_tag : Z; (* connection (the captured session OBJECT), its numeric id
                                               as stamped on the envelope, client request id, ghost tag *)
  f_i : Z; f_ty : Z; f_m : meth;            (* target instance, routed type, behaviour *)
  f_phase : phase;
  f_wait : bool                              (* the front still holds the relay callback *)
}.

Record st := mkSt {
  conns : alist conn;
  fwd : list freq;
  out : list (Z * Z * resp);                (* connection, ghost tag, response written *)
  hlog : list (Z * Z)                       (* instance, tag: handler invocations *)
}.

Definition init : st := mkSt [] [] [] [].

Definition is_open (cs : alist conn) (c : Z) : bool :=
  match aget c cs with Some cn => c_open cn | None => false end.

Definition key_of (cs : alist conn) (c : Z) : Z :=
  match aget c cs with Some cn => c_key cn | None => 0 end.

Definition sid_of (cs : alist conn) (c : Z) : Z :=
  match aget c cs with Some cn => c_sid cn | None => 0 end.

(* a LIVE connection holds this numeric id (the allocator never hands out such an id: that is
   C05's subject; ids of CLOSED connections are reused freely) *)
Definition sid_live (cs : alist conn) (sid : Z) : bool :=
  existsb (fun kv => c_open (snd kv) && Z.eqb (c_sid (snd kv)) sid) cs.

Section Routing.
  (* the registered route functions: service type -> routing key of the session -> name of an
     instance (which may not exist); and the type of each existing instance *)
  Variable rf : Z -> Z -> option Z.
  Variable itype : Z -> option Z.

  Definition target (ty key : Z) : option Z :=
    match rf ty key with
    | Some i => match itype i with Some _ => Some i | None => None end
    | None => None
    end.

  Definition right_type (i ty : Z) : bool :=
    match itype i with Some t => Z.eqb t ty | None => false end.

  (* connection bookkeeping is a function of the client operations alone *)
  Definition conn_step (cs : alist conn) (o : op) : alist conn :=
    match o with
    | OConnect c _ sid =>
        match aget c cs with
        | None => if sid_live cs sid then cs else aset c (mkConn true 0 sid) cs
        | Some _ => cs
        end
    | OClose c =>
        match aget c cs with
        | Some cn => if c_open cn then aset c (mkConn false (c_key cn) (c_sid cn)) cs else cs
        | None => cs
        end
    | OReq c _ (RT ty (MSetKey v)) _ | ONotify c (RT ty (MSetKey v)) _ =>
        if Z.eqb ty front_type && is_open cs c then aset c (mkConn true v (sid_of cs c)) cs else cs
    | _ => cs
    end.

  (* ClientSession.ResponseMID: refuses id 0 and closed sessions *)
  Definition write (s : st) (c tag mid : Z) (e : bool) (p : payload) : st :=
    if Z.eqb mid 0 then s
    else if is_open (conns s) c
         then mkSt (conns s) (fwd s) (out s ++ [(c, tag, Resp mid e p)]) (hlog s)
         else s.

  Definition log (s : st) (i tag : Z) : st :=
    mkSt (conns s) (fwd s) (out s) (hlog s ++ [(i, tag)]).

  (* a client frame of an open connection, processed by the front *)
  Definition request (s : st) (c mid : Z) (r : route) (tag : Z) : st :=
    let ty := rtype r in
    let m := rmeth r in
    if Z.eqb ty front_type then
      let s1 := if invoked m (negb (Z.eqb mid 0)) then log s front_inst tag else s in
      match completes m with
      | CReply => write s1 c tag mid false (reply_payload m front_inst tag)
      | CErr => write s1 c tag mid true PNone
      | CSilent => s1
      end
    else
      match target ty (key_of (conns s) c) with
      | None => write s c tag mid true PNone
      | Some i =>
          mkSt (conns s)
               (fwd s ++ [mkF c (sid_of (conns s) c) mid tag i ty m PToBack (negb (Z.eqb mid 0))])
               (out s) (hlog s)
      end.

  Definition set_nth (k : nat) (f : freq) (l : list freq) : list freq :=
    firstn k l ++ match skipn k l with [] => [] | _ :: r => f :: r end.

  Definition with_phase (f : freq) (ph : phase) (w : bool) : freq :=
    mkF (f_c f) (f_sid f) (f_mid f) (f_tag f) (f_i f) (f_ty f) (f_m f) ph w.

  (* one hop of the message of slot k *)
  Definition deliver (s : st) (k : nat) : st :=
    match nth_error (fwd s) k with
    | None => s
    | Some f =>
        match f_phase f with
        | PToBack =>
            if right_type (f_i f) (f_ty f) then
              let isreq := negb (Z.eqb (f_mid f) 0) in
              let s1 := if invoked (f_m f) isreq then log s (f_i f) (f_tag f) else s in
              let ph :=
                if isreq then
                  match completes (f_m f) with
                  | CReply => PToFront (f_sid f) (f_mid f) false (reply_payload (f_m f) (f_i f) (f_tag f))
                  | CErr => PToFront (f_sid f) (f_mid f) true PNone
                  | CSilent => PSilent
                  end
                else PDone in
              mkSt (conns s1) (set_nth k (with_phase f ph (f_wait f)) (fwd s1)) (out s1) (hlog s1)
            else
              mkSt (conns s) (set_nth k (with_phase f PSilent (f_wait f)) (fwd s)) (out s) (hlog s)
        | PToFront c' mid' e p =>
            let s1 := mkSt (conns s) (set_nth k (with_phase f PDone false) (fwd s)) (out s) (hlog s) in
            if f_wait f && Z.eqb c' (f_sid f) && Z.eqb mid' (f_mid f)
            then write s1 (f_c f) (f_tag f) (f_mid f) e (if e then PNone else p)
            else s1
        | PSilent | PDone => s
        end
    end.

  (* expiry scan after the clock passed every deadline *)
  Definition timeouts (cs : alist conn) (l : list freq) : list (Z * Z * resp) :=
    map (fun f => (f_c f, f_tag f, Resp (f_mid f) true PNone))
        (filter (fun f => f_wait f && is_open cs (f_c f)) l).

  Definition advance (s : st) : st :=
    mkSt (conns s)
         (map (fun f => with_phase f (f_phase f) false) (fwd s))
         (out s ++ timeouts (conns s) (fwd s))
         (hlog s).

  Definition op_step (s : st) (o : op) : st :=
    let s1 := mkSt (conn_step (conns s) o) (fwd s) (out s) (hlog s) in
    match o with
    | OConnect _ _ _ | OClose _ | OHandshake _ | OAck _ | OHeartbeat _ | OProto => s1
    | OReq c mid r tag => if is_open (conns s) c then request s1 c mid r tag else s
    | ONotify c r tag => if is_open (conns s) c then request s1 c 0 r tag else s
    | OAdvance => advance s
    end.

  Definition step (s : st) (e : ev) : st :=
    match e with
    | EOp o => op_step s o
    | EDeliver k => deliver s k
    end.

  Definition run_from (s : st) (evs : list ev) : st := fold_left step evs s.
  Definition run (evs : list ev) : st := run_from init evs.

  (* deliver every slot once, left to right *)
  Definition pass (s : st) : st :=
    fold_left deliver (seq 0 (length (fwd s))) s.

  (* completion of a history: everything in flight arrives (two hops at most), then the
     clock passes every deadline *)
  Definition finish (s : st) : st := advance (pass (pass s)).

  (* the schedule of the harness: after every client operation everything in flight is
     delivered before the next one (the driver drains before Advance and Close; pipelined
     requests of one connection are processed in order by the front, and their outcome
     does not depend on the interleaving - that is the theorem) *)
  Definition sync_step (s : st) (o : op) : st := pass (pass (op_step s o)).
  Definition run_sync (ops : list op) : st := finish (fold_left sync_step ops init).
End Routing.

(* the configuration of the harness node:
     types      0 gate (front)   1 chat   2 room   anything else: no such type
     instances  0 gate-1   1 chat-1   2 chat-2   3 room-1
     chat is routed by the session key (the key names the instance), room by node/app's
     default route (first instance), every other type has no instance *)
Definition itype0 (i : Z) : option Z :=
  if Z.eqb i 0 then Some 0 else if Z.eqb i 1 then Some 1 else if Z.eqb i 2 then Some 1
  else if Z.eqb i 3 then Some 2 else None.

Definition rf0 (ty key : Z) : option Z :=
  if Z.eqb ty 1 then (if Z.eqb key 0 then None else Some key)
  else if Z.eqb ty 2 then Some 3
  else None.

(* observation: per connection (ascending id) the responses written, and the invocation log *)
Definition responses_of (s : st) (c : Z) : list resp :=
  map snd (filter (fun x => Z.eqb (fst (fst x)) c) (out s)).

Definition observe (s : st) : list (Z * list resp) * list (Z * Z) :=
  (map (fun kv => (fst kv, responses_of s (fst kv))) (conns s), hlog s).
