(* C02 - correspondence entry point: the model's observation under the harness schedule
   compared with the implementation's, and the property monitor on the implementation's own
   trace.  Instantiated with the harness node's route functions (Model.rf0 / itype0). *)
From Cell2V Require Import Common.Tac Common.ListX Common.AList C02.Model C02.Spec.

Definition obs := (list (Z * list resp) * list (Z * Z))%type.
Definition case := (list op * obs)%type.

Definition model_obs (ops : list op) : obs := observe (run_sync rf0 itype0 ops).

Definition conn_obs_eqb (a b : Z * list resp) : bool :=
  Z.eqb (fst a) (fst b) && mset_eqb resp_eqb (snd a) (snd b).

Definition obs_eqb (a b : obs) : bool :=
  list_eqb conn_obs_eqb (fst a) (fst b) && mset_eqb (pair_eqb Z.eqb Z.eqb) (snd a) (snd b).

Definition agree (c : case) : bool := obs_eqb (model_obs (fst c)) (snd c).
Definition monitor (c : case) : bool := monitor_obs rf0 itype0 (fst c) (snd c).

Definition disagreeing (cs : list case) : list Z := failing agree cs.
Definition monitor_failing (cs : list case) : list Z := failing monitor cs.
