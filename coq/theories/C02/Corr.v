(* C02 - correspondence entry point: the model's observation under the harness schedule
   compared with the implementation's, and the property monitor on the implementation's own
   trace.  Instantiated with the harness node's route functions (Model.rf0 / itype0).

   The harness operations are the model's client operations ([H o]) plus a macro:
   [HBurst c mid0 tag0 pad nl nf] = the client of c stops reading, pipelines nl requests to the
   front's own echo and then nf requests to room-1's echo (ids mid0.., tags tag0.., responses
   padded to ~pad bytes), and only then reads - more than 9999 responses are pending on one
   connection, its send queue is full and the producer blocks.  For the model this is just
   nl + nf requests ([expand]); its messages are delivered after the last request instead of
   after each one (any calm schedule yields the same observation: C02_relayed_unchanged).
   [HBadMsg c mid k] = the client of c sends a well-framed Data packet whose MESSAGE cannot be
   decoded (kind k: gzip flag with a body that is no zlib stream, request resp. notification; a
   compressed route code that is in no dictionary; a route length beyond the packet; an invalid
   message type; mid = the request id in its header): the server ends the connection - for the
   model this is the close of c ([OClose c]); nothing is answered under mid.
   [HGone c ms nots] = the client of c sends the notifications nots (route, tag) while the
   front-ends' service goroutines are occupied for ms real milliseconds, and closes its socket
   at once, without waiting for anything: the network side marks the session closed before the
   service has handled them - they must still reach their handlers exactly once.  For the model:
   the notifications, then [OClose c] (the driver drains before, so nothing else is outstanding). *)
From Cell2V Require Import Common.Tac Common.ListX Common.AList C02.Model C02.Spec.

Inductive hop :=
| H (o : op)
| HBurst (c mid0 tag0 pad nl nf : Z)
| HBadMsg (c mid k : Z)
| HGone (c ms : Z) (nots : list (route * Z)).

Fixpoint zseq_from (from : Z) (fuel : nat) : list Z :=
  match fuel with O => [] | S f => from :: zseq_from (from + 1) f end.

Definition zseq (from count : Z) : list Z := zseq_from from (Z.to_nat count).

Definition expand (h : hop) : list op :=
  match h with
  | H o => [o]
  | HBurst c mid0 tag0 _ nl nf =>
      map (fun i => OReq c (mid0 + i) (RT 0 MEcho) (tag0 + i)) (zseq 0 nl)
      ++ map (fun i => OReq c (mid0 + nl + i) (RT 2 MEcho) (tag0 + nl + i)) (zseq 0 nf)
  | HBadMsg c _ _ => [OClose c]
  | HGone c _ nots => map (fun rt => ONotify c (fst rt) (snd rt)) nots ++ [OClose c]
  end.

(* Data packets a client sends between a re-handshake and its ack are ignored by the server
   before they become requests (session.go processPacket: status < working): [prep] removes
   them from the history, everything else stays. *)
Definition hop_conn (h : hop) : option Z :=
  match h with
  | H (OReq c _ _ _) | H (ONotify c _ _) | HBurst c _ _ _ _ _ | HBadMsg c _ _ => Some c
  | _ => None
  end.

Definition hop_step (cs : alist conn) (h : hop) : alist conn :=
  match h with
  | H o => conn_step cs o
  | HBadMsg c _ _ | HGone c _ _ => conn_step cs (OClose c)
  | HBurst _ _ _ _ _ _ => cs
  end.

(* cs: the connection table so far (a re-handshake only counts on an open connection) *)
Fixpoint prep_from (cs : alist conn) (notready : list Z) (hs : list hop) : list hop :=
  match hs with
  | [] => []
  | h :: r =>
      match h with
      | H (OHandshake c) =>
          h :: prep_from cs (if is_open cs c then c :: notready else notready) r
      | H (OAck c) => h :: prep_from cs (filter (fun x => negb (Z.eqb x c)) notready) r
      | HGone c ms nots =>   (* in the handshake state the notifications are ignored, the close is not *)
          (if zmem c notready then HGone c ms [] else h) :: prep_from (hop_step cs h) notready r
      | _ =>
          match hop_conn h with
          | Some c => if zmem c notready then prep_from cs notready r
                      else h :: prep_from (hop_step cs h) notready r
          | None => h :: prep_from (hop_step cs h) notready r
          end
      end
  end.

Definition prep (hs : list hop) : list hop := prep_from [] [] hs.

Definition ops_of_hops (hs : list hop) : list op := flat_map expand (prep hs).

Definition obs := (list (Z * list resp) * list (Z * Z))%type.
Definition case := (list hop * obs)%type.

Definition hstep (s : st) (h : hop) : st :=
  match h with
  | H o => sync_step rf0 itype0 s o
  | HBurst _ _ _ _ _ _ =>
      pass itype0 (pass itype0 (fold_left (op_step rf0 itype0) (expand h) s))
  | HBadMsg c _ _ => sync_step rf0 itype0 s (OClose c)
  | HGone _ _ _ => fold_left (sync_step rf0 itype0) (expand h) s
  end.

Definition model_obs (hs : list hop) : obs := observe (finish itype0 (fold_left hstep (prep hs) init)).

Definition conn_obs_eqb (a b : Z * list resp) : bool :=
  Z.eqb (fst a) (fst b) && mset_eqb resp_eqb (snd a) (snd b).

Definition obs_eqb (a b : obs) : bool :=
  list_eqb conn_obs_eqb (fst a) (fst b) && mset_eqb (pair_eqb Z.eqb Z.eqb) (snd a) (snd b).

Definition agree (c : case) : bool := obs_eqb (model_obs (fst c)) (snd c).
Definition monitor (c : case) : bool := monitor_obs rf0 itype0 (ops_of_hops (fst c)) (snd c).

Definition disagreeing (cs : list case) : list Z := failing agree cs.
Definition monitor_failing (cs : list case) : list Z := failing monitor cs.
