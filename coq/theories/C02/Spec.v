(* C02 - the property as functions of the CLIENT operations alone (no model state beyond the
   connection bookkeeping, which is itself a fold over the operations), plus the boolean
   monitor evaluated on implementation traces.  No proofs in this file. *)
From Cell2V Require Import Common.Tac Common.ListX Common.AList C02.Model.

(* client operations of an event list *)
Fixpoint ops_of (evs : list ev) : list op :=
  match evs with
  | [] => []
  | EOp o :: r => o :: ops_of r
  | EDeliver _ :: r => ops_of r
  end.

Definition op_tags (o : op) : list Z :=
  match o with
  | OReq _ _ _ t | ONotify _ _ t => [t]
  | _ => []
  end.

(* ghost tags of all requests and notifications of a history *)
Definition tags_of (ops : list op) : list Z := flat_map op_tags ops.

(* what the route of a request means, decided when the front processes it *)
Inductive verdict :=
| VLocal (m : meth)                      (* the route names the front's own type *)
| VNoTarget                              (* no reachable target *)
| VForward (i : Z) (rt : bool) (m : meth). (* forwarded to instance i; rt: i has the routed type *)

Record rec := mkRec { r_c : Z; r_mid : Z; r_tag : Z; r_v : verdict }.

Section Spec.
  Variable rf : Z -> Z -> option Z.
  Variable itype : Z -> option Z.

  Definition cview (ops : list op) : alist conn := fold_left (conn_step) ops [].

  Definition verdict_of (key : Z) (r : route) : verdict :=
    if Z.eqb (rtype r) front_type then VLocal (rmeth r)
    else match target rf itype (rtype r) key with
         | None => VNoTarget
         | Some i => VForward i (right_type itype i (rtype r)) (rmeth r)
         end.

  (* accepted requests / notifications (those sent on an open connection) of one operation,
     judged with the connection table before it *)
  Definition op_recs (cs : alist conn) (o : op) : list rec :=
    match o with
    | OReq c mid r tag => if is_open cs c then [mkRec c mid tag (verdict_of (key_of cs c) r)] else []
    | ONotify c r tag => if is_open cs c then [mkRec c 0 tag (verdict_of (key_of cs c) r)] else []
    | _ => []
    end.

  Fixpoint ledger_from (cs : alist conn) (ops : list op) : list rec :=
    match ops with
    | [] => []
    | o :: r => op_recs cs o ++ ledger_from (conn_step cs o) r
    end.

  Definition ledger (ops : list op) : list rec := ledger_from [] ops.

  (* the response a request must get when no time-out pre-empts the back-end's reply *)
  Definition expected (v : verdict) (tag : Z) : option (bool * payload) :=
    match v with
    | VLocal m =>
        match completes m with
        | CReply => Some (false, reply_payload m front_inst tag)
        | CErr => Some (true, PNone)
        | CSilent => None                  (* the front's own handler keeps the completion *)
        end
    | VNoTarget => Some (true, PNone)
    | VForward i rt m =>
        if rt then
          match completes m with
          | CReply => Some (false, reply_payload m i tag)
          | CErr | CSilent => Some (true, PNone)   (* CSilent: the 30 s time-out *)
          end
        else Some (true, PNone)                     (* wrong service: time-out *)
    end.

  (* ... and in general: the expected one, or a time-out error in its place *)
  Definition allowed (v : verdict) (tag : Z) (e : bool) (p : payload) : Prop :=
    expected v tag = Some (e, p) \/
    (exists i rt m, v = VForward i rt m /\ e = true /\ p = PNone).

  (* where the user's handler runs *)
  Definition handler_inst (v : verdict) (isreq : bool) : option Z :=
    match v with
    | VLocal m => if invoked m isreq then Some front_inst else None
    | VNoTarget => None
    | VForward i rt m => if rt && invoked m isreq then Some i else None
    end.

  (* requests the server cannot serve *)
  Definition unservable (v : verdict) : Prop :=
    match v with
    | VLocal m => completes m = CErr
    | VNoTarget => True
    | VForward i rt m => rt = false \/ completes m <> CReply
    end.

  (* ghost tags of the responses written so far *)
  Definition outT (s : st) : list Z := map (fun x => snd (fst x)) (out s).

  (* the connection exists and was closed *)
  Definition is_closed (cs : alist conn) (c : Z) : bool :=
    match aget c cs with Some cn => negb (c_open cn) | None => false end.

  (* [quiet]: no message is in flight for a request whose callback the front still holds;
     [calm evs]: that is the case whenever the clock is advanced - time-outs never pre-empt
     a reply (what the harness's drain-before-Advance establishes) *)
  Definition settled (ph : phase) : bool := match ph with PSilent | PDone => true | _ => false end.

  Definition quiet (s : st) : bool :=
    forallb (fun f => negb (f_wait f) || settled (f_phase f)) (fwd s).

  Fixpoint calm_from (s : st) (evs : list ev) : bool :=
    match evs with
    | [] => true
    | e :: r => (match e with EOp OAdvance => quiet s | _ => true end)
                && calm_from (step rf itype s e) r
    end.

  Definition calm (evs : list ev) : bool := calm_from init evs.

  (* ---------- executable monitor ---------- *)
  Definition payload_eqb (a b : payload) : bool :=
    match a, b with
    | PReply i t, PReply j u => Z.eqb i j && Z.eqb t u
    | PNone, PNone => true
    | POther, POther => true
    | _, _ => false
    end.

  Definition resp_eqb (a b : resp) : bool :=
    match a, b with
    | Resp m e p, Resp m' e' p' => Z.eqb m m' && Bool.eqb e e' && payload_eqb p p'
    end.

  Section Multiset.
    Context {A : Type} (eqb : A -> A -> bool).
    Fixpoint remove1 (x : A) (l : list A) : option (list A) :=
      match l with
      | [] => None
      | y :: r => if eqb x y then Some r
                  else match remove1 x r with Some r' => Some (y :: r') | None => None end
      end.
    (* a is a sub-multiset of b; returns what is left of b *)
    Fixpoint msub (a b : list A) : option (list A) :=
      match a with
      | [] => Some b
      | x :: r => match remove1 x b with Some b' => msub r b' | None => None end
      end.
    Definition mset_eqb (a b : list A) : bool :=
      match msub a b with Some [] => true | _ => false end.
    Definition mset_subb (a b : list A) : bool :=
      match msub a b with Some _ => true | None => false end.
  End Multiset.

  Definition due (l : list rec) (c : Z) : list resp :=
    flat_map (fun r =>
      if Z.eqb (r_c r) c && negb (Z.eqb (r_mid r) 0) then
        match expected (r_v r) (r_tag r) with
        | Some (e, p) => [Resp (r_mid r) e p]
        | None => []
        end
      else []) l.

  Definition calls (l : list rec) : list (Z * Z) :=
    flat_map (fun r => match handler_inst (r_v r) (negb (Z.eqb (r_mid r) 0)) with
                       | Some i => [(i, r_tag r)]
                       | None => []
                       end) l.

  Definition closedb (ops : list op) (c : Z) : bool :=
    existsb (fun o => match o with OClose c' => Z.eqb c c' | _ => false end) ops.

  (* The property on an observed trace of a history whose time-outs were only crossed at
     quiescence (the harness drains before Advance): a connection that was never closed
     received exactly the due responses; a closed one a sub-multiset of them; handlers were
     entered exactly as [calls] says. *)
  Definition monitor_obs (ops : list op) (obs : list (Z * list resp) * list (Z * Z)) : bool :=
    let l := ledger ops in
    list_eqb Z.eqb (map fst (fst obs)) (map fst (cview ops))
    && forallb (fun cr =>
         if closedb ops (fst cr) then mset_subb resp_eqb (snd cr) (due l (fst cr))
         else mset_eqb resp_eqb (snd cr) (due l (fst cr))) (fst obs)
    && mset_eqb (pair_eqb Z.eqb Z.eqb) (snd obs) (calls l).
End Spec.
