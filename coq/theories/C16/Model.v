(* C16 - model of node/builtin/channel (Service, Channel, FrontGroup) and of the
   front-end's ClientSessions.PushMsg.  No proofs in this file.

   Go -> model:
     Service.channels  sync.Map name -> *Channel       alist (channel)   keyed by name token
     Channel.groups    sync.Map frontId -> *FrontGroup alist (list Z)    keyed by front token
     FrontGroup.NetIds []uint32 (append / remove first occurrence)       list Z, join order
   sync.Map iteration order is not observable: the harness sorts pushes by front token and
   the model keeps its association lists sorted by key. *)
From Cell2V Require Import Common.Tac Common.ListX Common.AList.

Definition group := list Z.
Definition channel := alist group.
Definition st := alist channel.

Inductive op :=
| OAddChannel (c : Z)            (* Service.AddChannel(name) *)
| OAdd (c f i : Z)               (* Service.AddToChannel(name, front, id) *)
| OLeave (c f i : Z)             (* Service.LeaveFromChannel(name, front, id) *)
| ODelete (c : Z)                (* Service.DeleteChannel(name) *)
| OGet (c : Z)                   (* Service.GetChannel(name) != nil *)
| OPush (c : Z)                  (* if ch := GetChannel(name); ch != nil { ch.PushMessage } *)
| OFront (live closing ids : list Z)  (* ClientSessions.PushMsg{Ids: ids} on a front whose registered open connections are [live];
                                     [closing]: still registered, but closed at network level (Push fails; removal pending) *)
| ODirect (f : Z) (ids : list Z)  (* Service.PushMessageById / PushMessageByIds(front, ids): straight to the push implementation *)
| OFrontSeq (live : list Z) (ps : list (list Z * list Z)).
    (* several multi-id pushes, one after the other, on ONE front-end whose registered open connections are [live]:
       each push = (ids, failing) where the write to the connections in [failing] fails THIS time only - the
       connection stays open and registered (encoder refused the payload, send path recovered a panic) *)

Inductive obs :=
| BUnit
| BBool (b : bool)
| BNoChan
| BPush (l : list (Z * list Z))  (* one entry per front the push implementation was called for *)
| BDeliver (l : list Z)          (* connection ids that received the message, in order *)
| BDeliverSeq (l : list (list Z)). (* the same, per push of a sequence *)

Definition init : st := [].

Definition get_chan (s : st) (c : Z) : option channel := aget c s.

Definition add_channel (s : st) (c : Z) : st :=
  match aget c s with Some _ => s | None => aset c [] s end.

Definition chan_add (ch : channel) (f i : Z) : channel :=
  match aget f ch with
  | Some g => aset f (g ++ [i]) ch
  | None => aset f [i] ch
  end.

Definition chan_leave (ch : channel) (f i : Z) : channel :=
  match aget f ch with
  | Some g => aset f (remove_first i g) ch
  | None => ch
  end.

Definition deliverable (live closing : list Z) (i : Z) : bool := zmem i live && negb (zmem i closing).
Definition front_push (live closing ids : list Z) : list Z := filter (deliverable live closing) ids.

Definition step (s : st) (o : op) : st * obs :=
  match o with
  | OAddChannel c => (add_channel s c, BUnit)
  | OAdd c f i =>
      let s1 := add_channel s c in
      match aget c s1 with
      | Some ch => (aset c (chan_add ch f i) s1, BUnit)
      | None => (s1, BUnit) (* unreachable: add_channel guarantees presence *)
      end
  | OLeave c f i =>
      match aget c s with
      | Some ch => (aset c (chan_leave ch f i) s, BUnit)
      | None => (s, BUnit)
      end
  | ODelete c => (adel c s, BUnit)
  | OGet c => (s, BBool (match aget c s with Some _ => true | None => false end))
  | OPush c =>
      match aget c s with
      | Some ch => (s, BPush ch)
      | None => (s, BNoChan)
      end
  | OFront live closing ids => (s, BDeliver (front_push live closing ids))
  | ODirect f ids => (s, BPush [(f, ids)])
  | OFrontSeq live ps => (s, BDeliverSeq (map (fun p => front_push live (snd p) (fst p)) ps))
  end.

Fixpoint run_from (s : st) (ops : list op) : st * list obs :=
  match ops with
  | [] => (s, [])
  | o :: r =>
      let '(s1, b) := step s o in
      let '(s2, bs) := run_from s1 r in
      (s2, b :: bs)
  end.

Definition run (ops : list op) : list obs := snd (run_from init ops).
Definition final (ops : list op) : st := fst (run_from init ops).
