(* C16 - the property as functions of the operation history alone (no model state).
   [members h c f] is what the property text calls "the connection ids of front-end f that
   were added to channel c and not since removed, in join order":
     None          channel c does not exist after h
     Some None     it exists but nothing was added for front f since it was created
     Some (Some g) the listed ids (possibly [], after removals) *)
From Cell2V Require Import Common.Tac Common.ListX Common.AList C16.Model.

Definition mview := option (option group).

Definition touch (m : mview) : mview := match m with None => Some None | _ => m end.

Definition mstep (c f : Z) (m : mview) (o : op) : mview :=
  match o with
  | OAddChannel c' => if Z.eqb c c' then touch m else m
  | OAdd c' f' i =>
      if Z.eqb c c' then
        if Z.eqb f f' then
          Some (Some (match m with Some (Some g) => g ++ [i] | _ => [i] end))
        else touch m
      else m
  | OLeave c' f' i =>
      if Z.eqb c c' && Z.eqb f f' then
        match m with Some (Some g) => Some (Some (remove_first i g)) | _ => m end
      else m
  | ODelete c' => if Z.eqb c c' then None else m
  | OGet _ | OPush _ | OFront _ _ _ | ODirect _ _ | OFrontSeq _ _ => m
  end.

Definition members (h : list op) (c f : Z) : mview := fold_left (mstep c f) h None.

Definition lookup (s : st) (c f : Z) : mview :=
  match aget c s with None => None | Some ch => Some (aget f ch) end.

Definition exists_after (h : list op) (c : Z) : bool :=
  match members h c 0 with None => false | Some _ => true end.

(* fronts that occur in an add for channel c *)
Fixpoint fronts_of (h : list op) (c : Z) : list Z :=
  match h with
  | [] => []
  | OAdd c' f _ :: r => if Z.eqb c c' then f :: fronts_of r c else fronts_of r c
  | _ :: r => fronts_of r c
  end.

(* What a broadcast on c after history h must look like. *)
Definition push_spec (h : list op) (c : Z) (b : obs) : Prop :=
  if exists_after h c then
    exists l, b = BPush l /\ NoDup (map fst l) /\
              forall f g, In (f, g) l <-> members h c f = Some (Some g)
  else b = BNoChan.

(* the same, executable: run on the implementation's own observations *)
Definition push_spec_b (h : list op) (c : Z) (b : obs) : bool :=
  match exists_after h c, b with
  | false, BNoChan => true
  | true, BPush l =>
      nodupb (map fst l)
      && forallb (fun fg => match members h c (fst fg) with
                            | Some (Some g) => zlist_eqb g (snd fg)
                            | _ => false end) l
      && forallb (fun f => match members h c f with
                           | Some (Some _) => zmem f (map fst l)
                           | _ => true end) (fronts_of h c)
  | _, _ => false
  end.

(* Front-end delivery of a multi-id push: each listed live id once per listing, in order;
   unknown ids skipped; a connection that is closed but not yet removed gets nothing and does
   not affect the others. *)
Definition deliver_spec (live closing ids d : list Z) : Prop :=
  d = filter (fun i => zmem i live && negb (zmem i closing)) ids.

Definition obs_at (h : list op) (o : op) : obs := snd (step (final h) o).
