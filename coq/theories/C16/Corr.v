(* C16 - correspondence entry point: executable comparison of the model's outputs with the
   implementation's observed outputs, and the property monitor (the history-function
   spec evaluated on the implementation's own trace).  Used by generated case files. *)
From Cell2V Require Import Common.Tac Common.ListX Common.AList C16.Model C16.Spec.

Definition push_eqb (a b : list (Z * list Z)) : bool :=
  list_eqb (pair_eqb Z.eqb zlist_eqb) a b.

Definition obs_eqb (a b : obs) : bool :=
  match a, b with
  | BUnit, BUnit => true
  | BBool x, BBool y => Bool.eqb x y
  | BNoChan, BNoChan => true
  | BPush x, BPush y => push_eqb x y
  | BDeliver x, BDeliver y => zlist_eqb x y
  | BDeliverSeq x, BDeliverSeq y => list_eqb zlist_eqb x y
  | _, _ => false
  end.

Definition case := (list op * list obs)%type.

Definition agree (c : case) : bool := list_eqb obs_eqb (run (fst c)) (snd c).

Fixpoint monitor_from (hist : list op) (ops : list op) (bs : list obs) : bool :=
  match ops, bs with
  | [], [] => true
  | o :: r, b :: br =>
      (match o, b with
       | OPush c, _ => push_spec_b hist c b
       | OGet c, BBool x => Bool.eqb x (exists_after hist c)
       | OFront live closing l, BDeliver d => zlist_eqb d (filter (fun i => zmem i live && negb (zmem i closing)) l)
       | ODirect f l, BPush p => push_eqb p [(f, l)]
       | OFrontSeq live ps, BDeliverSeq ds =>
           list_eqb zlist_eqb ds (map (fun p => filter (fun i => zmem i live && negb (zmem i (snd p))) (fst p)) ps)
       | (OAddChannel _ | OAdd _ _ _ | OLeave _ _ _ | ODelete _), BUnit => true
       | _, _ => false
       end) && monitor_from (hist ++ [o]) r br
  | _, _ => false
  end.

Definition monitor (c : case) : bool := monitor_from [] (fst c) (snd c).

Definition disagreeing (cs : list case) : list Z := failing agree cs.
Definition monitor_failing (cs : list case) : list Z := failing monitor cs.
