(* C16 - property theorems only.  Each is closed by [exact] of a lemma from Proofs.v and
   followed by Print Assumptions. *)
From Cell2V Require Import Common.Tac Common.ListX Common.AList C16.Model C16.Spec C16.Proofs.

(* The model, projected to any (channel, front), IS the history function [members]. *)
Theorem C16_projection : forall h c f, lookup (final h) c f = members h c f.
Proof. exact projection. Qed.
Print Assumptions C16_projection.

(* Every broadcast, after every history: at most one push per front-end, listing exactly
   [members]; "no such channel" iff the channel does not exist. *)
Theorem C16_members : forall h c, push_spec h c (obs_at h (OPush c)).
Proof. exact push_correct. Qed.
Print Assumptions C16_members.

(* [obs_at] is what [run] emits at that position, for every history. *)
Theorem C16_run_snoc : forall h o, run (h ++ [o]) = run h ++ [obs_at h o].
Proof. exact run_snoc. Qed.
Print Assumptions C16_run_snoc.

(* an id added twice is listed twice and needs two removals *)
Theorem C16_add_count : forall h c f i j,
  zcount j (ids (members (h ++ [OAdd c f i]) c f)) =
  (zcount j (ids (members h c f)) + (if Z.eqb j i then 1 else 0))%nat.
Proof. exact add_count. Qed.
Print Assumptions C16_add_count.

Theorem C16_leave_count : forall h c f i j,
  zcount j (ids (members (h ++ [OLeave c f i]) c f)) =
  (if Z.eqb j i then pred (zcount j (ids (members h c f))) else zcount j (ids (members h c f))).
Proof. exact leave_count. Qed.
Print Assumptions C16_leave_count.

(* members of other channels / other fronts are not affected *)
Theorem C16_frame : forall h o c f,
  touches o c f = false -> ids (members (h ++ [o]) c f) = ids (members h c f).
Proof. exact frame. Qed.
Print Assumptions C16_frame.

Theorem C16_join_order : forall h c f, subseq (ids (members h c f)) (adds_of h c f).
Proof. exact join_order. Qed.
Print Assumptions C16_join_order.

(* channels by name behave like a map *)
Theorem C16_map_get : forall h c, obs_at h (OGet c) = BBool (exists_after h c).
Proof. exact get_correct. Qed.
Print Assumptions C16_map_get.

Theorem C16_map_laws : forall h o c,
  exists_after (h ++ [o]) c =
  match o with
  | OAddChannel c' | OAdd c' _ _ => if Z.eqb c c' then true else exists_after h c
  | ODelete c' => if Z.eqb c c' then false else exists_after h c
  | _ => exists_after h c
  end.
Proof. exact exists_after_step. Qed.
Print Assumptions C16_map_laws.

(* front-end delivery: each listed live id once per listing, unknown ids skipped, in order *)
Theorem C16_front_delivery_count : forall live closing l i,
  zcount i (front_push live closing l) = if zmem i live && negb (zmem i closing) then zcount i l else 0%nat.
Proof. exact deliver_count. Qed.
Print Assumptions C16_front_delivery_count.

Theorem C16_front_delivery_order : forall live closing l, subseq (front_push live closing l) l.
Proof. exact deliver_order. Qed.
Print Assumptions C16_front_delivery_order.

(* connections that are closed at network level but not yet removed get nothing, and what the
   other listed connections get is what they would get without them - wherever in the list they stand *)
Theorem C16_front_closing_frame : forall live closing l,
  front_push live closing l = filter (fun i => negb (zmem i closing)) (front_push live [] l).
Proof. exact deliver_frame. Qed.
Print Assumptions C16_front_closing_frame.

(* a write that fails once (the connection stays open and registered) costs that connection that one
   message and nothing else: whatever stands before and after a push in a sequence of pushes on one
   front-end, the push delivers exactly to its own listed live connections whose write succeeded *)
Theorem C16_front_transient_failure_frame : forall h live pre p post, exists dpre dpost,
  obs_at h (OFrontSeq live (pre ++ p :: post)) = BDeliverSeq (dpre ++ front_push live (snd p) (fst p) :: dpost)
  /\ length dpre = length pre /\ length dpost = length post.
Proof. exact front_seq_frame. Qed.
Print Assumptions C16_front_transient_failure_frame.

(* the executable monitor accepts everything the spec allows (so a monitor failure on an
   implementation trace is a spec violation) *)
Theorem C16_monitor_sound : forall h c b, push_spec h c b -> push_spec_b h c b = true.
Proof. exact push_spec_b_sound. Qed.
Print Assumptions C16_monitor_sound.

(* ... and nothing else: a broadcast observation the monitor accepts satisfies the spec, so a green
   monitor on an implementation trace means the observed pushes ARE the members of the history *)
Theorem C16_monitor_exact : forall h c b, push_spec_b h c b = true <-> push_spec h c b.
Proof. exact push_spec_b_exact. Qed.
Print Assumptions C16_monitor_exact.

(* a front is listed by a broadcast only if an add for that channel named it *)
Theorem C16_listed_was_added : forall h c f g, members h c f = Some (Some g) -> In f (fronts_of h c).
Proof. exact members_listed. Qed.
Print Assumptions C16_listed_was_added.

(* non-vacuity: a history with duplicates, a middle removal and a deleted channel *)
Example C16_example :
  run [OAdd 1 7 10; OAdd 1 7 11; OAdd 1 7 10; OAdd 1 8 5; OLeave 1 7 11; OPush 1;
       OLeave 1 7 10; OPush 1; ODelete 1; OPush 1]
  = [BUnit; BUnit; BUnit; BUnit; BUnit; BPush [(7, [10; 10]); (8, [5])];
     BUnit; BPush [(7, [10]); (8, [5])]; BUnit; BNoChan].
Proof. vm_compute. reflexivity. Qed.
