From Cell2V Require Import Common.Tac Common.ListX Common.AList C16.Model C16.Spec.

(* ---- state invariant: every association list is sorted ---- *)
Definition chan_sorted (ch : channel) : Prop := sorted ch.
Definition Inv (s : st) : Prop := sorted s /\ forall c ch, aget c s = Some ch -> sorted ch.

Lemma inv_init : Inv init.
Proof. split; simpl; [tauto | discriminate]. Qed.

Lemma inv_aset s c ch : Inv s -> sorted ch -> Inv (aset c ch s).
Proof.
  intros [S H] Sc. split; [apply sorted_aset; exact S|].
  intros c' ch' G. destruct (Z.eq_dec c' c) as [->|N].
  - rewrite aget_aset_same in G. inv G. exact Sc.
  - rewrite aget_aset_other in G by exact N. eauto.
Qed.

Lemma inv_add_channel s c : Inv s -> Inv (add_channel s c).
Proof.
  intro I. unfold add_channel. destruct (aget c s); [exact I|].
  apply inv_aset; [exact I | simpl; tauto].
Qed.

Lemma aget_add_channel s c : exists ch, aget c (add_channel s c) = Some ch.
Proof.
  unfold add_channel. destruct (aget c s) eqn:E; [eauto|].
  rewrite aget_aset_same. eauto.
Qed.

Lemma inv_step s o : Inv s -> Inv (fst (step s o)).
Proof.
  intro I. destruct o as [c|c f i|c f i|c|c|c|live closing0 ids|df dids|slive sps]; simpl.
  - apply inv_add_channel; exact I.
  - pose proof (inv_add_channel s c I) as I1.
    destruct (aget c (add_channel s c)) as [ch|] eqn:E; simpl; [|exact I1].
    apply inv_aset; [exact I1|].
    destruct I1 as [_ H1]. specialize (H1 _ _ E).
    unfold chan_add. destruct (aget f ch); apply sorted_aset; exact H1.
  - destruct (aget c s) as [ch|] eqn:E; simpl; [|exact I].
    apply inv_aset; [exact I|]. destruct I as [_ H]. specialize (H _ _ E).
    unfold chan_leave. destruct (aget f ch); [apply sorted_aset|]; exact H.
  - destruct I as [S H]. split; [apply sorted_adel; exact S|].
    intros c' ch G. destruct (Z.eq_dec c' c) as [->|N].
    + rewrite aget_adel_same in G. discriminate.
    + rewrite aget_adel_other in G by exact N. eauto.
  - exact I.
  - destruct (aget c s); exact I.
  - exact I.
  - exact I.
  - exact I.
Qed.

Lemma inv_run_from ops : forall s, Inv s -> Inv (fst (run_from s ops)).
Proof.
  induction ops as [|o r IH]; intros s I; simpl; [exact I|].
  destruct (step s o) as [s1 b] eqn:E1. destruct (run_from s1 r) as [s2 bs] eqn:E2. simpl.
  specialize (IH s1). rewrite E2 in IH. simpl in IH. apply IH.
  pose proof (inv_step s o I) as I1. rewrite E1 in I1. exact I1.
Qed.

Lemma inv_final h : Inv (final h).
Proof. apply inv_run_from. apply inv_init. Qed.

(* ---- one model step is one spec step, projected to any (channel, front) ---- *)
Lemma lookup_step s o c f : lookup (fst (step s o)) c f = mstep c f (lookup s c f) o.
Proof.
  unfold lookup.
  destruct o as [c'|c' f' i|c' f' i|c'|c'|c'|live closing0 ids|df dids|slive sps]; simpl.
  - (* AddChannel *)
    unfold add_channel. destruct (Z.eqb_spec c c') as [->|N].
    + destruct (aget c' s) eqn:E; [rewrite E; reflexivity|].
      rewrite aget_aset_same. reflexivity.
    + destruct (aget c' s) eqn:E; [reflexivity|].
      rewrite aget_aset_other by exact N. reflexivity.
  - (* Add *)
    destruct (aget_add_channel s c') as [ch E]. rewrite E. simpl.
    unfold add_channel in *. destruct (Z.eqb_spec c c') as [->|N].
    + rewrite aget_aset_same.
      destruct (aget c' s) as [ch0|] eqn:E0.
      * rewrite E0 in E. inv E. unfold chan_add.
        destruct (Z.eqb_spec f f') as [->|Nf].
        -- destruct (aget f' ch) eqn:Ef; rewrite aget_aset_same; reflexivity.
        -- destruct (aget f' ch) eqn:Ef; rewrite aget_aset_other by exact Nf; reflexivity.
      * rewrite aget_aset_same in E. inv E. unfold chan_add. simpl.
        destruct (Z.eqb_spec f f') as [->|Nf]; [reflexivity|].
        destruct (Z.eqb_spec f f'); [contradiction | reflexivity].
    + rewrite aget_aset_other by exact N.
      destruct (aget c' s) eqn:E0; [reflexivity|].
      rewrite aget_aset_other by exact N. reflexivity.
  - (* Leave *)
    destruct (Z.eqb_spec c c') as [->|N]; simpl.
    + destruct (aget c' s) as [ch|] eqn:E; simpl.
      * rewrite aget_aset_same. unfold chan_leave.
        destruct (Z.eqb_spec f f') as [->|Nf].
        -- destruct (aget f' ch) eqn:Ef; [rewrite aget_aset_same | rewrite Ef]; reflexivity.
        -- destruct (aget f' ch) eqn:Ef; [rewrite aget_aset_other by exact Nf|]; reflexivity.
      * rewrite E. destruct (Z.eqb f f'); reflexivity.
    + destruct (aget c' s) as [ch|] eqn:E; simpl; [|reflexivity].
      rewrite aget_aset_other by exact N. reflexivity.
  - (* Delete *)
    destruct (Z.eqb_spec c c') as [->|N].
    + rewrite aget_adel_same. reflexivity.
    + rewrite aget_adel_other by exact N. reflexivity.
  - reflexivity.
  - destruct (aget c' s); reflexivity.
  - reflexivity.
  - reflexivity.
  - reflexivity.
Qed.

Lemma lookup_run_from ops : forall s c f,
  lookup (fst (run_from s ops)) c f = fold_left (mstep c f) ops (lookup s c f).
Proof.
  induction ops as [|o r IH]; intros s c f; simpl; [reflexivity|].
  destruct (step s o) as [s1 b] eqn:E1. destruct (run_from s1 r) as [s2 bs] eqn:E2. simpl.
  specialize (IH s1 c f). rewrite E2 in IH. simpl in IH. rewrite IH.
  pose proof (lookup_step s o c f) as L. rewrite E1 in L. simpl in L. rewrite L. reflexivity.
Qed.

Lemma projection h c f : lookup (final h) c f = members h c f.
Proof. unfold final, members. rewrite lookup_run_from. reflexivity. Qed.

(* ---- run is compositional ---- *)
Lemma run_from_app h1 : forall s h2,
  run_from s (h1 ++ h2) =
  (fst (run_from (fst (run_from s h1)) h2),
   snd (run_from s h1) ++ snd (run_from (fst (run_from s h1)) h2)).
Proof.
  induction h1 as [|o r IH]; intros s h2; simpl.
  - destruct (run_from s h2); reflexivity.
  - destruct (step s o) as [s1 b]. rewrite IH.
    destruct (run_from s1 r) as [s2 bs]. simpl.
    destruct (run_from s2 h2) as [s3 bs3]. reflexivity.
Qed.

Lemma run_snoc h o : run (h ++ [o]) = run h ++ [obs_at h o].
Proof.
  unfold run, obs_at, final. rewrite run_from_app. simpl.
  destruct (step (fst (run_from init h)) o) as [s1 b]. reflexivity.
Qed.

Lemma final_snoc h o : final (h ++ [o]) = fst (step (final h) o).
Proof.
  unfold final. rewrite run_from_app. simpl.
  destruct (step (fst (run_from init h)) o) as [s1 b]. reflexivity.
Qed.

(* ---- the broadcast theorem ---- *)
Lemma exists_after_spec h c :
  exists_after h c = match aget c (final h) with Some _ => true | None => false end.
Proof.
  unfold exists_after. rewrite <- projection. unfold lookup.
  destruct (aget c (final h)); reflexivity.
Qed.

Lemma push_correct h c : push_spec h c (obs_at h (OPush c)).
Proof.
  unfold push_spec. rewrite exists_after_spec. unfold obs_at. simpl.
  destruct (aget c (final h)) as [ch|] eqn:E; simpl; [|reflexivity].
  exists ch. split; [reflexivity|].
  destruct (inv_final h) as [_ H]. specialize (H _ _ E).
  split; [apply sorted_nodup_keys; exact H|].
  intros f g. rewrite <- projection. unfold lookup. rewrite E. split.
  - intro I. f_equal. apply in_aget; assumption.
  - intro G. inv G. apply aget_in. assumption.
Qed.

Lemma push_spec_b_sound h c b : push_spec h c b -> push_spec_b h c b = true.
Proof.
  unfold push_spec, push_spec_b. destruct (exists_after h c).
  - intros [l [-> [ND H]]]. rewrite !andb_true_iff. repeat split.
    + apply nodupb_NoDup. exact ND.
    + apply forallb_forall. intros [f g] I. simpl. apply H in I. rewrite I.
      apply zlist_eqb_spec. reflexivity.
    + apply forallb_forall. intros f _. destruct (members h c f) as [[g|]|] eqn:E; try reflexivity.
      apply zmem_In. apply H in E. apply in_map_iff. exists (f, g). auto.
  - intros ->. reflexivity.
Qed.

(* ---- consequences stated on the history function ---- *)
Definition ids (m : mview) : list Z := match m with Some (Some g) => g | _ => [] end.

Lemma members_snoc h o c f : members (h ++ [o]) c f = mstep c f (members h c f) o.
Proof. unfold members. rewrite fold_left_app. reflexivity. Qed.

Lemma add_count h c f i j :
  zcount j (ids (members (h ++ [OAdd c f i]) c f)) =
  (zcount j (ids (members h c f)) + (if Z.eqb j i then 1 else 0))%nat.
Proof.
  rewrite members_snoc. simpl. rewrite !Z.eqb_refl.
  destruct (members h c f) as [[g|]|]; simpl; [rewrite zcount_app; simpl|..];
    destruct (Z.eqb j i); lia.
Qed.

Lemma leave_count h c f i j :
  zcount j (ids (members (h ++ [OLeave c f i]) c f)) =
  (if Z.eqb j i then pred (zcount j (ids (members h c f))) else zcount j (ids (members h c f))).
Proof.
  rewrite members_snoc. simpl. rewrite !Z.eqb_refl. simpl.
  destruct (Z.eqb_spec j i) as [->|N].
  - destruct (members h c f) as [[g|]|]; simpl; [apply zcount_remove_first_same | reflexivity..].
  - destruct (members h c f) as [[g|]|]; simpl; [apply zcount_remove_first_other; exact N | reflexivity..].
Qed.

(* operations on another channel, or on another front of the same channel, never change
   the ids listed for (c, f) *)
Definition touches (o : op) (c f : Z) : bool :=
  match o with
  | OAdd c' f' _ | OLeave c' f' _ => Z.eqb c c' && Z.eqb f f'
  | ODelete c' => Z.eqb c c'
  | _ => false
  end.

Lemma frame h o c f : touches o c f = false -> ids (members (h ++ [o]) c f) = ids (members h c f).
Proof.
  intro T. rewrite members_snoc.
  destruct o as [c'|c' f' i|c' f' i|c'|c'|c'|live closing0 l|df dids|slive sps]; simpl in *.
  - destruct (Z.eqb c c'); [|reflexivity]. destruct (members h c f) as [[g|]|]; reflexivity.
  - destruct (Z.eqb c c'); [|reflexivity]. simpl in T. rewrite T.
    destruct (members h c f) as [[g|]|]; reflexivity.
  - rewrite T. reflexivity.
  - rewrite T. reflexivity.
  - reflexivity.
  - reflexivity.
  - reflexivity.
  - reflexivity.
  - reflexivity.
Qed.

(* join order: the listed ids are a subsequence of the ids added for (c, f) *)
Fixpoint adds_of (h : list op) (c f : Z) : list Z :=
  match h with
  | [] => []
  | OAdd c' f' i :: r => if Z.eqb c c' && Z.eqb f f' then i :: adds_of r c f else adds_of r c f
  | _ :: r => adds_of r c f
  end.

Lemma adds_of_snoc h o c f :
  adds_of (h ++ [o]) c f = adds_of h c f ++ adds_of [o] c f.
Proof.
  induction h as [|x r IH]; simpl; [destruct o; simpl; try reflexivity; destruct (Z.eqb c c0 && Z.eqb f f0); reflexivity|].
  destruct x; try exact IH. destruct (Z.eqb c c0 && Z.eqb f f0); simpl; rewrite IH; reflexivity.
Qed.

Lemma join_order h c f : subseq (ids (members h c f)) (adds_of h c f).
Proof.
  induction h as [|o r IH] using rev_ind; [constructor|].
  rewrite members_snoc, adds_of_snoc.
  destruct o as [c'|c' f' i|c' f' i|c'|c'|c'|live closing0 l|df dids|slive sps]; simpl; rewrite ?app_nil_r.
  - destruct (Z.eqb c c'); [|exact IH]. destruct (members r c f) as [[g|]|]; exact IH.
  - destruct (Z.eqb c c'); simpl; [|rewrite app_nil_r; exact IH].
    destruct (Z.eqb f f'); simpl.
    + destruct (members r c f) as [[g|]|]; simpl in *.
      * apply subseq_app_both. exact IH.
      * apply (subseq_app_both [] _ i). constructor.
      * apply (subseq_app_both [] _ i). constructor.
    + rewrite app_nil_r. destruct (members r c f) as [[g|]|]; exact IH.
  - destruct (Z.eqb c c' && Z.eqb f f'); [|exact IH].
    destruct (members r c f) as [[g|]|]; simpl in *; try exact IH.
    eapply subseq_trans; [apply remove_first_subseq | exact IH].
  - destruct (Z.eqb c c'); [constructor | exact IH].
  - exact IH.
  - exact IH.
  - exact IH.
  - exact IH.
  - exact IH.
Qed.

(* map laws for channels by name *)
Lemma get_correct h c : obs_at h (OGet c) = BBool (exists_after h c).
Proof. unfold obs_at. simpl. rewrite exists_after_spec. reflexivity. Qed.

Lemma exists_after_step h o c :
  exists_after (h ++ [o]) c =
  match o with
  | OAddChannel c' | OAdd c' _ _ => if Z.eqb c c' then true else exists_after h c
  | ODelete c' => if Z.eqb c c' then false else exists_after h c
  | _ => exists_after h c
  end.
Proof.
  unfold exists_after. rewrite members_snoc.
  destruct o as [c'|c' f' i|c' f' i|c'|c'|c'|live closing0 l|df dids|slive sps]; cbn [mstep]; try reflexivity.
  - destruct (Z.eqb c c'); [|reflexivity]. destruct (members h c 0); reflexivity.
  - destruct (Z.eqb c c'); [|reflexivity]. destruct (Z.eqb 0 f'); [reflexivity|].
    destruct (members h c 0); reflexivity.
  - destruct (Z.eqb c c' && Z.eqb 0 f'); [|reflexivity].
    destruct (members h c 0) as [[g|]|]; reflexivity.
  - destruct (Z.eqb c c'); reflexivity.
Qed.

(* front-end delivery *)
Lemma deliver_correct h live closing l :
  exists d, obs_at h (OFront live closing l) = BDeliver d /\ deliver_spec live closing l d.
Proof. eexists. split; reflexivity. Qed.

Lemma deliver_count live closing l i :
  zcount i (front_push live closing l) = if deliverable live closing i then zcount i l else 0%nat.
Proof.
  unfold front_push. induction l as [|x r IH]; simpl; [destruct (deliverable live closing i); reflexivity|].
  destruct (deliverable live closing x) eqn:Ex; simpl; rewrite IH; destruct (Z.eqb_spec i x) as [->|N].
  - rewrite Ex. reflexivity.
  - destruct (deliverable live closing i); reflexivity.
  - rewrite Ex. reflexivity.
  - destruct (deliverable live closing i); reflexivity.
Qed.

Lemma deliver_order live closing l : subseq (front_push live closing l) l.
Proof.
  unfold front_push. induction l as [|x r IH]; simpl; [constructor|].
  destruct (deliverable live closing x); [apply subseq_take | constructor]; exact IH.
Qed.

(* the connections that are closing do not affect what the others get *)
Lemma deliver_frame live closing l :
  front_push live closing l = filter (fun i => negb (zmem i closing)) (front_push live [] l).
Proof.
  unfold front_push, deliverable. induction l as [|x r IH]; simpl; [reflexivity|].
  destruct (zmem x live); simpl; [|exact IH].
  destruct (zmem x closing); simpl; rewrite IH; reflexivity.
Qed.


(* a sequence of pushes on one front-end: what push k delivers depends only on the live set, its own
   id list and the writes that fail THIS time - never on what failed (or was listed) in earlier pushes *)
Lemma front_seq_pointwise h live ps :
  obs_at h (OFrontSeq live ps) = BDeliverSeq (map (fun p => front_push live (snd p) (fst p)) ps).
Proof. reflexivity. Qed.

Lemma front_seq_frame h live pre p post : exists dpre dpost,
  obs_at h (OFrontSeq live (pre ++ p :: post)) = BDeliverSeq (dpre ++ front_push live (snd p) (fst p) :: dpost)
  /\ length dpre = length pre /\ length dpost = length post.
Proof.
  exists (map (fun q => front_push live (snd q) (fst q)) pre), (map (fun q => front_push live (snd q) (fst q)) post).
  rewrite front_seq_pointwise, map_app. cbn [map]. rewrite !map_length. auto.
Qed.

(* ---- the executable monitor is exact: it accepts nothing the spec forbids ---- *)
Lemma fronts_of_cons_incl o r c f : In f (fronts_of r c) -> In f (fronts_of (o :: r) c).
Proof.
  intro I. destruct o as [c'|c' f' i|c' f' i|c'|c'|c'|live closing0 l|df dids|slive sps]; simpl; try exact I.
  destruct (Z.eqb c c'); [right|]; exact I.
Qed.

Lemma mstep_listed c f m o r g0 :
  mstep c f m o = Some (Some g0) -> (exists g1, m = Some (Some g1)) \/ In f (fronts_of (o :: r) c).
Proof.
  destruct o as [c'|c' f' i|c' f' i|c'|c'|c'|live closing0 l|df dids|slive sps]; simpl; intro E;
    try (left; eexists; exact E).
  - destruct (Z.eqb c c'); [|left; eexists; exact E].
    destruct m as [[g|]|]; simpl in E; try discriminate. left; eexists; reflexivity.
  - destruct (Z.eqb c c'); [|left; eexists; exact E].
    destruct (Z.eqb_spec f f') as [->|N]; [right; left; reflexivity|].
    destruct m as [[g|]|]; simpl in E; try discriminate. left; eexists; reflexivity.
  - destruct (Z.eqb c c' && Z.eqb f f'); [|left; eexists; exact E].
    destruct m as [[g|]|]; try discriminate. left; eexists; reflexivity.
  - destruct (Z.eqb c c'); [discriminate | left; eexists; exact E].
Qed.

Lemma fold_listed c f h : forall m g,
  fold_left (mstep c f) h m = Some (Some g) -> (exists g0, m = Some (Some g0)) \/ In f (fronts_of h c).
Proof.
  induction h as [|o r IH]; simpl; intros m g E; [left; eexists; exact E|].
  destruct (IH _ _ E) as [[g0 E0]|I].
  - apply (mstep_listed c f m o r g0) in E0. exact E0.
  - right. apply (fronts_of_cons_incl o r c f I).
Qed.

Lemma members_listed h c f g : members h c f = Some (Some g) -> In f (fronts_of h c).
Proof.
  intro E. destruct (fold_listed c f h None g E) as [[g0 E0]|I]; [discriminate | exact I].
Qed.

Lemma push_spec_b_complete h c b : push_spec_b h c b = true -> push_spec h c b.
Proof.
  unfold push_spec, push_spec_b. destruct (exists_after h c).
  - destruct b as [| | |l| |]; try discriminate.
    rewrite !andb_true_iff. intros [[ND A] B].
    apply nodupb_NoDup in ND. rewrite forallb_forall in A, B.
    assert (A' : forall f g, In (f, g) l -> members h c f = Some (Some g)).
    { intros f g I. specialize (A _ I). simpl in A.
      destruct (members h c f) as [[g'|]|]; try discriminate.
      apply zlist_eqb_spec in A. subst. reflexivity. }
    exists l. split; [reflexivity|]. split; [exact ND|].
    intros f g. split; [apply A'|].
    intro E. pose proof (members_listed _ _ _ _ E) as I. specialize (B _ I). rewrite E in B.
    apply zmem_In in B. apply in_map_iff in B. destruct B as [[f' g'] [Ef I']]. simpl in Ef. subst f'.
    pose proof (A' _ _ I') as E'. rewrite E in E'. inversion E'. subst. exact I'.
  - destruct b; try discriminate. reflexivity.
Qed.

Lemma push_spec_b_exact h c b : push_spec_b h c b = true <-> push_spec h c b.
Proof. split; [apply push_spec_b_complete | apply push_spec_b_sound]. Qed.
