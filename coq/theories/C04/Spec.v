(* C04 - the property, as statements about histories of the selector machine and about
   schedules of the interleaving model.  No proofs in this file.

   What is stated here is the LOGIC of "one consumer drains every channel":
     - index_ok          runnings[i] owns cases[i]             (HandleOnce indexes runnings[chosen])
     - sent / handled    per-channel accounting of tasks       (nothing lost, nothing run twice)
     - mu / auto_ops     progress of the consumer              (every enqueued task gets handled)
     - running           tasks in flight in a schedule         (at most one, started by the consumer)
   Goroutine identity itself is not expressible here; it is measured (OStress). *)
From Cell2V Require Import Common.Tac Common.ListX C04.Model.

(* ---- histories ---- *)
Fixpoint trace_from (s : st) (ops : list op) : list (op * ev) :=
  match ops with
  | [] => []
  | o :: r => let '(s1, e) := step s o in (o, e) :: trace_from s1 r
  end.

Fixpoint final_from (s : st) (ops : list op) : st :=
  match ops with
  | [] => s
  | o :: r => final_from (fst (step s o)) r
  end.

Definition trace (ops : list op) : list (op * ev) := trace_from init ops.

(* ---- selector index ---- *)
Definition index_ok (s : st) : Prop :=
  length (cases s) = length (runnings s) /\
  forall i k, nth_error (runnings s) i = Some k ->
    exists d, znth (sels s) k = Some d /\ nth_error (cases s) i = Some (schan d).

(* ---- task accounting, per channel ---- *)
Definition sent_step (c : Z) (oe : op * ev) : list Z :=
  match oe with
  | (OSend c' v, ESent true) => if Z.eqb c c' then [v] else []
  | _ => []
  end.

Definition handled_step (c : Z) (oe : op * ev) : list Z :=
  match snd oe with
  | ERan _ c' v true => if Z.eqb c c' then [v] else []
  | _ => []
  end.

Definition sent (c : Z) (tr : list (op * ev)) : list Z := flat_map (sent_step c) tr.
Definition handled (c : Z) (tr : list (op * ev)) : list Z := flat_map (handled_step c) tr.

Definition registered (s : st) (c : Z) : Prop :=
  exists k d, znth (sels s) k = Some d /\ schan d = c.

(* ---- progress: the consumer keeps calling HandleOnce, reflect.Select resolved by an
        arbitrary scheduler [choose] that picks one of the ready cases ---- *)
Definition fair_choice (choose : st -> list Z -> Z) : Prop :=
  forall s l, l <> [] -> In (choose s l) l.

Definition pick (choose : st -> list Z -> Z) (s : st) : Z :=
  let s1 := try_make s in choose s1 (ready_ks s1).

Fixpoint auto_ops (choose : st -> list Z -> Z) (n : nat) (s : st) : list op :=
  match n with
  | O => []
  | S m => let k := pick choose s in OHandle k :: auto_ops choose m (fst (step s (OHandle k)))
  end.

(* pending work visible to the consumer: per open selector, queued values (+1 for a closed
   channel whose dead-channel notification is still to be delivered) *)
Definition weight (s : st) (c : Z) : nat :=
  match znth (chans s) c with
  | Some ch => (length (cq ch) + (if cclosed ch then 1 else 0))%nat
  | None => 0%nat
  end.

Definition mu (s : st) : nat :=
  list_sum (map (fun kc => weight s (snd kc)) (open_from 0 (sels s))).

(* ---- histories and schedules used by the non-vacuity Examples of Props.v ---- *)
Definition ex_ops : list op :=
  [ONewChan 2; OAdd 1; OSend 1 7; OHandle 0; OHandle 1; ONewSche; OAdd 2; OAdd 2; OSend 2 9;
   OSend 2 10; OHandle 3; OClose 1; OHandle 1; OHandle 2; OSend 1 5; OHandle 0; OHandle 0;
   OHandle 0; OHandle 0].


Definition two_sched (extra : list act) : list act :=
  [AProd (ONewChan 1); AProd (ONewChan 1); AProd (ONewChan 1); AProd (OAdd 1); AProd (OAdd 2)]
  ++ extra ++
  [ACons 0 0; AProd (OClose 1);
   ACons 1 0; ACons 1 1; ACons 1 0; ACons 1 0; ACons 1 0;
   AProd (OSend 2 7); ACons 0 2].


(* 12 actors on one dispatcher.  The consumer is held inside a posted closure (scheduler channel
   2); one message is posted to each of the actors 1..11 and each poster calls Schedule. *)
Definition many_hold : list dact :=
  [DOther (OSend 2 5); DCons 0; DCons 2].
Definition many_posts : list dact :=
  flat_map (fun a => [DPost a (100 + a); DSched a]) [1; 2; 3; 4; 5; 6; 7; 8; 9; 10; 11].
(* release; then the consumer takes one batch after the other (case 1 = chanTask) and the two
   blocked posters get through as soon as there is room *)
Definition many_drain : list dact :=
  [DCons 0] ++
  flat_map (fun _ => [DCons 0; DCons 1; DCons 0; DSched 10; DSched 11]) [1; 2; 3; 4; 5; 6; 7; 8; 9; 10; 11].

(* teardown: the service, held inside a posted closure, stops its own run service and keeps
   working; a Post, an expiring timer and a local event follow; then the handler ends and the
   loop gets to the close signal *)
Definition td_stop : list dact :=
  [DOther (OSend 2 5); DCons 0; DCons 2; DStop;
   DOther (OSend 2 6); DOther (OSend 4 9); DOther (OSend 5 7)].
Definition td_end : list dact := [DCons 0; DCons 0; DCons 3; DCons 0; DCons 0].
Definition td_more : list dact :=
  [DCons 0; DCons 5; DCons 0; DOther (OSend 2 8); DOther (OSend 5 10); DPost 0 1; DSched 0; DCons 1; DCons 0].
