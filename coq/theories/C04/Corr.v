(* C04 - correspondence entry point.
   A case is (ops, obs): the script the harness executed against the real
   sche.MultiSelector / Sche (or one OStress measurement on a running service) and, per
   operation, what happened plus a white-box snapshot of the selector's bookkeeping.
     agree    the model, run on the same ops (Select choices taken from OHandle k), produces
              the same events and the same bookkeeping
     monitor  the property evaluated on the implementation's own trace, without the model:
              runnings[i] owns cases[i] in every snapshot; a handler only ever runs values
              that were sent on ITS channel, in FIFO order, each once; the dead-channel
              notification goes to the owner of a closed, drained channel; the consumer
              would block only when no registered live channel has work; a stress
              measurement saw one goroutine, one piece at a time, everything executed. *)
From Cell2V Require Import Common.Tac Common.ListX C04.Model C04.Spec.

Definition ev_eqb (a b : ev) : bool :=
  match a, b with
  | EUnit, EUnit | EBad, EBad | EFull, EFull | EIdle, EIdle | ESleep, ESleep
  | EBadChoice, EBadChoice | EStuck, EStuck | EPanic, EPanic => true
  | ESent x, ESent y => Bool.eqb x y
  | EClosed x, EClosed y => Bool.eqb x y
  | ERan k c v ok, ERan k' c' v' ok' => Z.eqb k k' && Z.eqb c c' && Z.eqb v v' && Bool.eqb ok ok'
  | EStress a b p e, EStress a' b' p' e' =>
      zlist_eqb a a' && Bool.eqb b b' && zlist_eqb p p' && zlist_eqb e e'
  | _, _ => false
  end.

Definition snap_eqb (a b : snap) : bool :=
  match a, b with
  | Snap d s c r l, Snap d' s' c' r' l' =>
      Bool.eqb d d' && list_eqb (pair_eqb Z.eqb Bool.eqb) s s' &&
      zlist_eqb c c' && zlist_eqb r r' && zlist_eqb l l'
  end.

Definition obs_eqb (a b : obs) : bool :=
  match a, b with Ob e s, Ob e' s' => ev_eqb e e' && snap_eqb s s' end.

Definition case := (list op * list obs)%type.

Definition agree (c : case) : bool := list_eqb obs_eqb (run (fst c)) (snd c).

(* ---- the monitor ---- *)
Record mst := mkM {
  m_sels : list Z;          (* channel of selector k, from the OAdd operations *)
  m_dead : list Z;          (* selectors that received their dead-channel notification *)
  m_q : list (list Z);      (* per channel: values sent and not yet handled *)
  m_closed : list Z
}.

Definition m_init : mst := mkM [0] [] [[]] [].

Fixpoint forallb2 {A B} (f : A -> B -> bool) (l1 : list A) (l2 : list B) : bool :=
  match l1, l2 with
  | [], [] => true
  | x :: r1, y :: r2 => f x y && forallb2 f r1 r2
  | _, _ => false
  end.

(* runnings[i] is the owner of cases[i], on the implementation's own bookkeeping *)
Definition snap_index_ok (sn : snap) : bool :=
  match sn with
  | Snap _ ss cs rs _ =>
      forallb2 (fun c k => match znth ss k with Some (c', _) => Z.eqb c c' | None => false end) cs rs
  end.

Definition snap_sels (sn : snap) : list Z := match sn with Snap _ ss _ _ _ => map fst ss end.

Definition qget (m : mst) (c : Z) : list Z := match znth (m_q m) c with Some q => q | None => [] end.
Definition qset (m : mst) (c : Z) (q : list Z) : mst :=
  mkM (m_sels m) (m_dead m) (zupd (m_q m) c q) (m_closed m).
Definition user_chan (m : mst) (c : Z) : bool := (0 <? c) && (c <? zlen (m_q m)).

Fixpoint seq_z (i : Z) (n : nat) : list Z :=
  match n with O => [] | S m => i :: seq_z (i + 1) m end.

(* nothing is pending on any registered live channel *)
Definition drained (m : mst) : bool :=
  forallb (fun k => zmem k (m_dead m) ||
                    match znth (m_sels m) k with
                    | Some c => is_nil (qget m c) && negb (zmem c (m_closed m))
                    | None => false
                    end)
          (seq_z 1 (pred (length (m_sels m)))).

(* everything produced was executed, exactly once; only global events (position 7) may be
   dropped, and only beyond what the event queue holds *)
Fixpoint counts_ok (i : nat) (p x : list Z) : bool :=
  match p, x with
  | [], [] => true
  | a :: pr, b :: xr =>
      (if Nat.eqb i 7 then (Z.min a max_cap <=? b) && (b <=? a) else Z.eqb a b)
      && counts_ok (S i) pr xr
  | _, _ => false
  end.

Definition mon_step (m : mst) (o : op) (e : ev) : option mst :=
  match o, e with
  | (ONewChan _ | ONewSche), EUnit => Some (mkM (m_sels m) (m_dead m) (m_q m ++ [[]]) (m_closed m))
  | ONewChan _, EBad => Some m
  | OAdd c, EUnit =>
      if user_chan m c then Some (mkM (m_sels m ++ [c]) (m_dead m) (m_q m) (m_closed m)) else None
  | OAdd _, EBad => Some m
  | OSend c v, ESent true =>
      if user_chan m c && negb (zmem c (m_closed m)) then Some (qset m c (qget m c ++ [v])) else None
  | OSend c _, ESent false => if zmem c (m_closed m) then Some m else None
  | OSend _ _, (EFull | EBad) => Some m
  | OClose c, EClosed true =>
      if user_chan m c && negb (zmem c (m_closed m))
      then Some (mkM (m_sels m) (m_dead m) (m_q m) (c :: m_closed m)) else None
  | OClose c, EClosed false => if zmem c (m_closed m) then Some m else None
  | OClose _, EBad => Some m
  | OHandle _, ERan k c v true =>
      if Z.eqb k 0 then (if Z.eqb c 0 && Z.eqb v 1 then Some m else None)
      else
        match znth (m_sels m) k, qget m c with
        | Some c', x :: r =>
            if Z.eqb c c' && Z.eqb x v && negb (zmem k (m_dead m)) then Some (qset m c r) else None
        | _, _ => None
        end
  | OHandle _, ERan k c _ false =>
      match znth (m_sels m) k with
      | Some c' =>
          if negb (Z.eqb k 0) && Z.eqb c c' && zmem c (m_closed m) && is_nil (qget m c)
             && negb (zmem k (m_dead m))
          then Some (mkM (m_sels m) (k :: m_dead m) (m_q m) (m_closed m)) else None
      | None => None
      end
  | OHandle _, EIdle => if drained m then Some m else None
  | OStress _ _, EStress off b p x =>
      if forallb (Z.eqb 0) off && b && counts_ok 0 p x then Some m else None
  | _, _ => None
  end.

Fixpoint mon_from (m : mst) (ops : list op) (bs : list obs) : bool :=
  match ops, bs with
  | [], [] => true
  | o :: r, Ob e sn :: br =>
      match mon_step m o e with
      | Some m1 => snap_index_ok sn && zlist_eqb (snap_sels sn) (m_sels m1) && mon_from m1 r br
      | None => false
      end
  | _, _ => false
  end.

Definition monitor (c : case) : bool := mon_from m_init (fst c) (snd c).

Definition disagreeing (cs : list case) : list Z := failing agree cs.
Definition monitor_failing (cs : list case) : list Z := failing monitor cs.
