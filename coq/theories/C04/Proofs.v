(* C04 - proofs. *)
From Cell2V Require Import Common.Tac Common.ListX C04.Model C04.Spec C04.Corr.

(* ------------------------------------------------------------------ list positions *)
Lemma nth_error_upd_same {A} (l : list A) n x a :
  nth_error l n = Some a -> nth_error (upd l n x) n = Some x.
Proof.
  revert n. induction l as [|y r IH]; intros [|n] H; simpl in *; try discriminate.
  - reflexivity.
  - apply IH. exact H.
Qed.

Lemma nth_error_upd_other {A} (l : list A) n m x :
  n <> m -> nth_error (upd l n x) m = nth_error l m.
Proof.
  revert n m. induction l as [|y r IH]; intros [|n] [|m] H; simpl; try reflexivity.
  - congruence.
  - apply IH. congruence.
Qed.

Lemma length_upd {A} (l : list A) n x : length (upd l n x) = length l.
Proof. revert n. induction l as [|y r IH]; intros [|n]; simpl; auto. Qed.

Lemma znth_range {A} (l : list A) i a : znth l i = Some a -> 0 <= i < zlen l.
Proof.
  unfold znth, zlen. destruct (Z.ltb_spec i 0) as [Lt|Ge]; [discriminate|]. intro H.
  assert (nth_error l (Z.to_nat i) <> None) as N by congruence.
  apply nth_error_Some in N. lia.
Qed.

Lemma znth_some {A} (l : list A) i : 0 <= i < zlen l -> exists a, znth l i = Some a.
Proof.
  unfold znth, zlen. intro H. destruct (Z.ltb_spec i 0) as [Lt|Ge]; [lia|].
  destruct (nth_error l (Z.to_nat i)) eqn:E; [eauto|].
  apply nth_error_None in E. lia.
Qed.

Lemma znth_zupd_same {A} (l : list A) i x a : znth l i = Some a -> znth (zupd l i x) i = Some x.
Proof.
  unfold znth, zupd. destruct (Z.ltb_spec i 0) as [Lt|Ge]; [discriminate|]. apply nth_error_upd_same.
Qed.

Lemma znth_zupd_other {A} (l : list A) i j x : i <> j -> znth (zupd l i x) j = znth l j.
Proof.
  unfold znth, zupd. intro N. destruct (Z.ltb_spec i 0) as [Lt|Ge]; [reflexivity|].
  destruct (Z.ltb_spec j 0) as [Lt2|Ge2]; [reflexivity|]. apply nth_error_upd_other. lia.
Qed.

Lemma zlen_zupd {A} (l : list A) i x : zlen (zupd l i x) = zlen l.
Proof. unfold zlen, zupd. destruct (i <? 0); [reflexivity|]. rewrite length_upd. reflexivity. Qed.

Lemma zlen_app {A} (l : list A) x : zlen (l ++ [x]) = zlen l + 1.
Proof. unfold zlen. rewrite app_length. simpl. lia. Qed.

Lemma znth_app_l {A} (l : list A) x i a : znth l i = Some a -> znth (l ++ [x]) i = Some a.
Proof.
  intro H. pose proof (znth_range _ _ _ H) as R. unfold znth, zlen in *.
  destruct (Z.ltb_spec i 0) as [Lt|Ge]; [lia|]. rewrite nth_error_app1 by lia. exact H.
Qed.

Lemma znth_app_lt {A} (l : list A) x i : i < zlen l -> znth (l ++ [x]) i = znth l i.
Proof.
  intro H. unfold znth, zlen in *. destruct (Z.ltb_spec i 0) as [Lt|Ge]; [reflexivity|].
  rewrite nth_error_app1 by lia. reflexivity.
Qed.

Lemma znth_app_new {A} (l : list A) x : znth (l ++ [x]) (zlen l) = Some x.
Proof.
  unfold znth, zlen. destruct (Z.ltb_spec (Z.of_nat (length l)) 0) as [Lt|Ge]; [lia|].
  rewrite Nat2Z.id, nth_error_app2 by lia. rewrite Nat.sub_diag. reflexivity.
Qed.

Lemma znth_app_inv {A} (l : list A) x i a :
  znth (l ++ [x]) i = Some a -> znth l i = Some a \/ (i = zlen l /\ a = x).
Proof.
  intro H. pose proof (znth_range _ _ _ H) as R. rewrite zlen_app in R.
  destruct (Z.eq_dec i (zlen l)) as [->|N].
  - rewrite znth_app_new in H. inv H. auto.
  - rewrite znth_app_lt in H by lia. auto.
Qed.

Lemma znth_of_nat {A} (l : list A) n : znth l (Z.of_nat n) = nth_error l n.
Proof. unfold znth. destruct (Z.ltb_spec (Z.of_nat n) 0) as [Lt|Ge]; [lia|]. rewrite Nat2Z.id. reflexivity. Qed.

(* ------------------------------------------------------------------ open_from *)
Lemma open_from_spec l : forall i k c,
  In (k, c) (open_from i l) <->
  exists n d, k = i + Z.of_nat n /\ nth_error l n = Some d /\ sopen d = true /\ schan d = c.
Proof.
  induction l as [|d r IH]; intros i k c; simpl.
  - split; [tauto|]. intros (n & d & _ & H & _). destruct n; discriminate.
  - split.
    + intro H. destruct (sopen d) eqn:O.
      * destruct H as [H|H].
        -- inv H. exists 0%nat, d. simpl. repeat split; auto. lia.
        -- apply IH in H. destruct H as (n & d' & -> & H1 & H2 & H3).
           exists (S n), d'. simpl. repeat split; auto. lia.
      * apply IH in H. destruct H as (n & d' & -> & H1 & H2 & H3).
        exists (S n), d'. simpl. repeat split; auto. lia.
    + intros (n & d' & -> & H1 & H2 & H3). destruct n as [|n]; simpl in H1.
      * inv H1. rewrite H2. left. f_equal. lia.
      * assert (In (i + Z.of_nat (S n), c) (open_from (i + 1) r)) as I.
        { apply IH. exists n, d'. repeat split; auto. lia. }
        destruct (sopen d); [right|]; exact I.
Qed.

Lemma open_from_0 l k c :
  In (k, c) (open_from 0 l) <-> exists d, znth l k = Some d /\ sopen d = true /\ schan d = c.
Proof.
  rewrite open_from_spec. split.
  - intros (n & d & -> & H1 & H2 & H3). exists d. rewrite Z.add_0_l, znth_of_nat. auto.
  - intros (d & H1 & H2 & H3). pose proof (znth_range _ _ _ H1) as R.
    exists (Z.to_nat k), d. repeat split; auto; [lia|].
    unfold znth in H1. destruct (Z.ltb_spec k 0) as [Lt|Ge]; [lia|]. exact H1.
Qed.

Lemma open_from_app l x : forall i,
  open_from i (l ++ [x]) =
  open_from i l ++ (if sopen x then [(i + zlen l, schan x)] else []).
Proof.
  induction l as [|d r IH]; intro i; simpl.
  - unfold zlen. simpl. rewrite Z.add_0_r. destruct (sopen x); reflexivity.
  - rewrite IH. replace (i + 1 + zlen r) with (i + zlen (d :: r)) by (unfold zlen; simpl; lia).
    destruct (sopen d); reflexivity.
Qed.

(* removing one open selector from the sum *)
Lemma open_from_dead (g : Z * Z -> nat) l : forall i n d,
  nth_error l n = Some d -> sopen d = true ->
  list_sum (map g (open_from i l)) =
  (list_sum (map g (open_from i (upd l n (mkSel (schan d) false)))) + g ((i + Z.of_nat n)%Z, schan d))%nat.
Proof.
  induction l as [|y r IH]; intros i n d H O; destruct n as [|n]; simpl in H; try discriminate.
  - inv H. simpl. rewrite O. simpl. rewrite Z.add_0_r. lia.
  - pose proof (IH (i + 1) n d H O) as E.
    replace (i + 1 + Z.of_nat n) with (i + Z.of_nat (S n)) in E by lia.
    simpl open_from. destruct (sopen y); simpl map; simpl list_sum; lia.
Qed.

Lemma list_sum_le {A} (f g : A -> nat) l :
  (forall x, In x l -> (f x <= g x)%nat) -> (list_sum (map f l) <= list_sum (map g l))%nat.
Proof.
  induction l as [|x r IH]; intro H; simpl; [lia|].
  pose proof (H x (or_introl eq_refl)). assert (list_sum (map f r) <= list_sum (map g r))%nat.
  { apply IH. intros y I. apply H. right. exact I. }
  lia.
Qed.

Lemma list_sum_lt {A} (f g : A -> nat) l x :
  In x l -> (f x < g x)%nat -> (forall y, In y l -> (f y <= g y)%nat) ->
  (list_sum (map f l) < list_sum (map g l))%nat.
Proof.
  induction l as [|y r IH]; intros I L H; simpl; [contradiction|].
  destruct I as [->|I].
  - assert (list_sum (map f r) <= list_sum (map g r))%nat.
    { apply list_sum_le. intros z Iz. apply H. right. exact Iz. }
    lia.
  - pose proof (H y (or_introl eq_refl)).
    assert (list_sum (map f r) < list_sum (map g r))%nat.
    { apply IH; auto. intros z Iz. apply H. right. exact Iz. }
    lia.
Qed.

Lemma list_sum_zero {A} (f : A -> nat) l x :
  list_sum (map f l) = 0%nat -> In x l -> f x = 0%nat.
Proof.
  induction l as [|y r IH]; simpl; intros S I; [contradiction|].
  destruct I as [->|I]; [lia | apply IH; [lia | exact I]].
Qed.

Lemma index_of_some k l i : index_of k l = Some i -> nth_error l i = Some k.
Proof.
  revert i. induction l as [|x r IH]; intros i H; simpl in H; [discriminate|].
  destruct (Z.eqb_spec k x).
  - inv H. reflexivity.
  - destruct (index_of k r) eqn:E; simpl in H; [|discriminate]. inv H. simpl. apply IH. reflexivity.
Qed.

Lemma index_of_in k l : In k l -> exists i, index_of k l = Some i.
Proof.
  induction l as [|x r IH]; intro I; simpl; [contradiction|].
  destruct (Z.eqb_spec k x); [eauto|].
  destruct I as [E|I]; [congruence|]. destruct (IH I) as [i ->]. simpl. eauto.
Qed.

Lemma map_eq_nth {A B} (f : A -> B) (g : Z -> B) l1 l2 i k :
  map g l1 = map f l2 -> nth_error l1 i = Some k ->
  exists c, nth_error l2 i = Some c /\ g k = f c.
Proof.
  revert l2 i. induction l1 as [|x r IH]; intros [|y r2] [|i] E H; simpl in *; try discriminate.
  - inv H. inv E. eauto.
  - inv E. eapply IH; eauto.
Qed.

(* ------------------------------------------------------------------ the invariant *)
Definition chan_dead (s : st) (c : Z) : Prop :=
  exists ch, znth (chans s) c = Some ch /\ cq ch = [] /\ cclosed ch = true.

Record wf (s : st) : Prop := mkWf {
  wf_dirt_chan : exists q, znth (chans s) 0 = Some (mkChan q false dirt_cap);
  wf_dirt_sel : znth (sels s) 0 = Some (mkSel 0 true);
  wf_index : map (chan_of s) (runnings s) = map Some (cases s);
  wf_fresh : dirty s = false ->
             cases s = map snd (open_from 0 (sels s)) /\ runnings s = map fst (open_from 0 (sels s));
  wf_sel_chan : forall k d, znth (sels s) k = Some d -> 0 <= schan d < zlen (chans s);
  wf_dead : forall k d, znth (sels s) k = Some d -> sopen d = false -> chan_dead s (schan d)
}.

Lemma wf_init : wf init.
Proof.
  constructor; simpl.
  - exists [1]. reflexivity.
  - reflexivity.
  - reflexivity.
  - discriminate.
  - intros k d H. pose proof (znth_range _ _ _ H) as R. unfold zlen in *. simpl in *.
    assert (k = 0) by lia. subst. inv H. simpl. lia.
  - intros k d H O. pose proof (znth_range _ _ _ H) as R. unfold zlen in R. simpl in R.
    assert (k = 0) by lia. subst. inv H. discriminate.
Qed.

Lemma dirt_not_dead s : wf s -> ~ chan_dead s 0.
Proof.
  intros W (ch & H & _ & C). destruct (wf_dirt_chan _ W) as [q E]. rewrite E in H. inv H. discriminate.
Qed.

(* changing only the channels *)
Lemma wf_set_chans s cs :
  wf s ->
  (exists q, znth cs 0 = Some (mkChan q false dirt_cap)) ->
  zlen (chans s) <= zlen cs ->
  (forall c, chan_dead s c -> chan_dead (set_chans s cs) c) ->
  wf (set_chans s cs).
Proof.
  intros W D L K. constructor; simpl.
  - exact D.
  - exact (wf_dirt_sel _ W).
  - exact (wf_index _ W).
  - exact (wf_fresh _ W).
  - intros k d H. pose proof (wf_sel_chan _ W k d H). lia.
  - intros k d H O. apply K. exact (wf_dead _ W k d H O).
Qed.

Lemma chan_dead_set_other s c ch c' :
  chan_dead s c' -> c' <> c -> chan_dead (set_chan s c ch) c'.
Proof.
  intros (x & H & Q & C) N. exists x. simpl. rewrite znth_zupd_other by congruence. auto.
Qed.

(* updating one live (not dead) channel, keeping channel 0 a dirt channel *)
Lemma wf_set_chan s c ch0 ch :
  wf s -> znth (chans s) c = Some ch0 ->
  (cq ch0 <> [] \/ cclosed ch0 = false \/ (cq ch = [] /\ cclosed ch = true)) ->
  (c = 0 -> cclosed ch = false /\ ccap ch = dirt_cap) ->
  wf (set_chan s c ch).
Proof.
  intros W H Live Z0. apply wf_set_chans; auto.
  - destruct (Z.eq_dec c 0) as [->|N].
    + destruct (Z0 eq_refl) as [C1 C2]. exists (cq ch). rewrite (znth_zupd_same _ _ _ _ H).
      destruct ch; simpl in *; subst. reflexivity.
    + destruct (wf_dirt_chan _ W) as [q E]. exists q. rewrite znth_zupd_other by exact N. exact E.
  - rewrite zlen_zupd. lia.
  - intros c' K. destruct (Z.eq_dec c' c) as [->|N].
    + destruct K as (x & Hx & Q & C). rewrite H in Hx. inv Hx.
      destruct Live as [L|[L|[L1 L2]]]; try congruence.
      exists ch. simpl. rewrite (znth_zupd_same _ _ _ _ H). auto.
    + apply chan_dead_set_other; assumption.
Qed.

Lemma chan_of_map_open s l :
  (forall k c, In (k, c) l -> chan_of s k = Some c) ->
  map (chan_of s) (map fst l) = map Some (map snd l).
Proof.
  induction l as [|[k c] r IH]; intro H; simpl; [reflexivity|].
  rewrite (H k c (or_introl eq_refl)). f_equal. apply IH. intros; apply H; right; assumption.
Qed.

Lemma chan_of_open s k c : In (k, c) (open_from 0 (sels s)) -> chan_of s k = Some c.
Proof.
  intro I. apply open_from_0 in I. destruct I as (d & H & _ & E). unfold chan_of. rewrite H. simpl.
  congruence.
Qed.

Lemma try_make_facts s :
  wf s ->
  let s1 := try_make s in
  chans s1 = chans s /\ sels s1 = sels s /\ dirty s1 = false /\
  cases s1 = map snd (open_from 0 (sels s)) /\ runnings s1 = map fst (open_from 0 (sels s)).
Proof.
  intro W. unfold try_make. destruct (dirty s) eqn:D; simpl.
  - auto.
  - destruct (wf_fresh _ W D) as [A B]. auto.
Qed.

Lemma wf_try_make s : wf s -> wf (try_make s).
Proof.
  intro W. unfold try_make. destruct (dirty s) eqn:D; [|exact W].
  constructor; simpl.
  - exact (wf_dirt_chan _ W).
  - exact (wf_dirt_sel _ W).
  - apply (chan_of_map_open s). intros k c. apply chan_of_open.
  - auto.
  - exact (wf_sel_chan _ W).
  - exact (wf_dead _ W).
Qed.

Lemma open_head s : wf s -> exists r, open_from 0 (sels s) = (0, 0) :: r.
Proof.
  intro W. pose proof (wf_dirt_sel _ W) as H. unfold znth in H. simpl in H.
  destruct (sels s) as [|d r]; simpl in H; [discriminate|]. inv H. simpl. eauto.
Qed.

(* ---- recv ---- *)
Lemma recv_facts s c s2 v ok :
  recv s c = Some (s2, v, ok) ->
  (ok = true /\ exists ch r, znth (chans s) c = Some ch /\ cq ch = v :: r /\
                 s2 = set_chan s c (mkChan r (cclosed ch) (ccap ch))) \/
  (ok = false /\ v = 0 /\ s2 = s /\ chan_dead s c).
Proof.
  unfold recv. destruct (znth (chans s) c) as [ch|] eqn:H; [|discriminate].
  destruct (cq ch) as [|x r] eqn:Q.
  - destruct (cclosed ch) eqn:C; [|discriminate]. intro E. inv E. right.
    repeat split; auto. exists ch. auto.
  - intro E. inv E. left. split; auto. exists ch, r. auto.
Qed.

Lemma recv_ready s c : chan_ready s c = true -> exists x, recv s c = Some x.
Proof.
  unfold chan_ready, recv. destruct (znth (chans s) c) as [ch|]; [|discriminate].
  destruct (cq ch); simpl; [|eauto]. intro H. rewrite H. eauto.
Qed.

Lemma recv_some_ready s c x : recv s c = Some x -> chan_ready s c = true.
Proof.
  unfold chan_ready, recv. destruct (znth (chans s) c) as [ch|]; [|discriminate].
  destruct (cq ch); simpl; [|reflexivity]. destruct (cclosed ch); [reflexivity|discriminate].
Qed.

Lemma wf_recv s c s2 v ok : wf s -> recv s c = Some (s2, v, ok) -> wf s2.
Proof.
  intros W R. apply recv_facts in R. destruct R as [(-> & ch & r & H & Q & ->)|(-> & -> & -> & _)]; [|exact W].
  apply (wf_set_chan s c ch); auto.
  - left. rewrite Q. discriminate.
  - intros ->. simpl. destruct (wf_dirt_chan _ W) as [q E]. rewrite E in H. inv H. auto.
Qed.

(* ---- mark_dead ---- *)
Lemma chan_of_mark_dead s k j : chan_of (mark_dead s k) j = chan_of s j.
Proof.
  unfold mark_dead. destruct (znth (sels s) k) as [d|] eqn:H; [|reflexivity].
  unfold chan_of. simpl. destruct (Z.eq_dec k j) as [->|N].
  - rewrite (znth_zupd_same _ _ _ _ H), H. reflexivity.
  - rewrite znth_zupd_other by exact N. reflexivity.
Qed.

Lemma wf_mark_dead s k c : wf s -> chan_of s k = Some c -> chan_dead s c -> wf (mark_dead s k).
Proof.
  intros W H K. unfold chan_of in H. destruct (znth (sels s) k) as [d|] eqn:E; [|discriminate].
  simpl in H. inv H.
  assert (k <> 0) as N0.
  { intros ->. rewrite (wf_dirt_sel _ W) in E. inv E. simpl in K. exact (dirt_not_dead _ W K). }
  pose proof (chan_of_mark_dead s k) as CO.
  unfold mark_dead in *. rewrite E in *. constructor; simpl.
  - exact (wf_dirt_chan _ W).
  - rewrite znth_zupd_other by exact N0. exact (wf_dirt_sel _ W).
  - rewrite <- (wf_index _ W). apply map_ext. exact CO.
  - discriminate.
  - intros j d' Hj. destruct (Z.eq_dec k j) as [<-|N].
    + rewrite (znth_zupd_same _ _ _ _ E) in Hj. inv Hj. simpl. exact (wf_sel_chan _ W k d E).
    + rewrite znth_zupd_other in Hj by exact N. exact (wf_sel_chan _ W j d' Hj).
  - intros j d' Hj O. destruct (Z.eq_dec k j) as [<-|N].
    + rewrite (znth_zupd_same _ _ _ _ E) in Hj. inv Hj. simpl. exact K.
    + rewrite znth_zupd_other in Hj by exact N. exact (wf_dead _ W j d' Hj O).
Qed.

(* ---- producers ---- *)
Lemma valid_user_chan_spec s c :
  valid_user_chan s c = true -> 0 < c < zlen (chans s).
Proof. unfold valid_user_chan. lia. Qed.

Lemma wf_new_chan s ch : wf s -> wf (set_chans s (chans s ++ [ch])).
Proof.
  intro W. apply wf_set_chans; auto.
  - destruct (wf_dirt_chan _ W) as [q E]. exists q. apply znth_app_l. exact E.
  - rewrite zlen_app. lia.
  - intros c (x & H & Q & C). exists x. simpl. rewrite (znth_app_l _ _ _ _ H). auto.
Qed.

Lemma chan_of_app s x k c :
  chan_of s k = Some c ->
  chan_of (mkSt (chans s) (sels s ++ [x]) true (cases s) (runnings s)) k = Some c.
Proof.
  unfold chan_of. simpl. destruct (znth (sels s) k) as [d|] eqn:H; [|discriminate].
  rewrite (znth_app_l _ _ _ _ H). auto.
Qed.

Lemma map_chan_of_ext (f g : Z -> option Z) l cs :
  map f l = map Some cs -> (forall k c, f k = Some c -> g k = Some c) -> map g l = map Some cs.
Proof.
  revert cs. induction l as [|k r IH]; intros [|c cr] E H; simpl in *; try discriminate; [reflexivity|].
  injection E as E1 E2. rewrite (H k c E1). f_equal. apply IH; assumption.
Qed.

Lemma wf_add_sel s c :
  wf s -> 0 < c < zlen (chans s) ->
  wf (mkSt (chans s) (sels s ++ [mkSel c true]) true (cases s) (runnings s)).
Proof.
  intros W V. constructor; simpl.
  - exact (wf_dirt_chan _ W).
  - apply znth_app_l. exact (wf_dirt_sel _ W).
  - apply (map_chan_of_ext (chan_of s)); [exact (wf_index _ W)|].
    intros k c'. apply chan_of_app.
  - discriminate.
  - intros k d H. apply znth_app_inv in H. destruct H as [H|[-> ->]].
    + exact (wf_sel_chan _ W k d H).
    + simpl. lia.
  - intros k d H O. apply znth_app_inv in H. destruct H as [H|[-> ->]].
    + exact (wf_dead _ W k d H O).
    + discriminate.
Qed.

Lemma wf_add_selector s c : wf s -> 0 < c < zlen (chans s) -> wf (add_selector s c).
Proof.
  intros W V. pose proof (wf_add_sel s c W V) as W1. unfold add_selector.
  destruct (wf_dirt_chan _ W) as [q E]. rewrite E. simpl.
  destruct (zlen q <? dirt_cap); [|exact W1].
  apply (wf_set_chan _ 0 (mkChan q false dirt_cap)); auto.
Qed.

Lemma wf_plain_prod s o :
  wf s -> (forall k, o <> OHandle k) -> wf (fst (plain_step s o)).
Proof.
  intros W NH. destruct o as [cap| |c|c v|c|k|seed cfg]; simpl.
  - destruct ((1 <=? cap) && (cap <=? max_cap)); simpl; [apply wf_new_chan|]; exact W.
  - apply wf_new_chan. exact W.
  - destruct (valid_user_chan s c) eqn:V; simpl; [|exact W].
    apply wf_add_selector; [exact W | apply valid_user_chan_spec; exact V].
  - destruct (valid_user_chan s c) eqn:V; simpl; [|exact W].
    destruct (znth (chans s) c) as [ch|] eqn:H; [|exact W].
    destruct (cclosed ch) eqn:C; [exact W|].
    destruct (ccap ch <=? zlen (cq ch)); [exact W|]. simpl.
    apply (wf_set_chan s c ch); auto. intros ->. apply valid_user_chan_spec in V. lia.
  - destruct (valid_user_chan s c) eqn:V; simpl; [|exact W].
    destruct (znth (chans s) c) as [ch|] eqn:H; [|exact W].
    destruct (cclosed ch) eqn:C; [exact W|]. simpl.
    apply (wf_set_chan s c ch); auto. intros ->. apply valid_user_chan_spec in V. lia.
  - exfalso. exact (NH k eq_refl).
  - exact W.
Qed.

(* ---- HandleOnce ---- *)
Lemma cases_nth_chan s i k :
  wf s -> nth_error (runnings s) i = Some k ->
  exists c, nth_error (cases s) i = Some c /\ chan_of s k = Some c.
Proof. intros W H. exact (map_eq_nth Some (chan_of s) _ _ i k (wf_index _ W) H). Qed.

Inductive handle_result (s : st) (k : Z) : st * ev -> Prop :=
| HR_idle : existsb (chan_ready (try_make s)) (cases (try_make s)) = false ->
            handle_result s k (s, EIdle)
| HR_bad : handle_result s k (s, EBadChoice)
| HR_ran : forall s2 c v ok,
    chan_of (try_make s) k = Some c -> In k (runnings (try_make s)) ->
    recv (try_make s) c = Some (s2, v, ok) ->
    handle_result s k ((if ok then s2 else mark_dead s2 k), ERan k c v ok).

Lemma handle_cases s k : wf s -> handle_result s k (handle s k).
Proof.
  intro W. unfold handle. pose proof (wf_try_make s W) as W1.
  destruct (try_make_facts s W) as (_ & _ & _ & Cs & _).
  destruct (open_head s W) as [r0 OH]. rewrite OH in Cs. simpl in Cs.
  destruct (cases (try_make s)) as [|c0 cr] eqn:EC; [discriminate|]. rewrite <- EC.
  destruct (existsb (chan_ready (try_make s)) (cases (try_make s))) eqn:EX; simpl;
    [|apply HR_idle; exact EX].
  destruct (index_of k (runnings (try_make s))) as [i|] eqn:I; [|constructor].
  apply index_of_some in I.
  destruct (cases_nth_chan _ i k W1 I) as (c & N & CO). rewrite N.
  destruct (recv (try_make s) c) as [[[s2 v] ok]|] eqn:R; [|constructor].
  apply (HR_ran s k s2 c v ok); auto. eapply nth_error_In; eauto.
Qed.

Lemma wf_handle s k : wf s -> wf (fst (handle s k)).
Proof.
  intro W. destruct (handle_cases s k W) as [| |s2 c v ok CO _ R]; simpl; auto.
  pose proof (wf_try_make s W) as W1. pose proof (wf_recv _ _ _ _ _ W1 R) as W2.
  destruct ok; [exact W2|].
  apply recv_facts in R. destruct R as [(A & _)|(_ & _ & -> & K)]; [discriminate|].
  apply (wf_mark_dead _ k c); auto.
Qed.

Lemma step_plain s o : (forall seed cfg, o <> OStress seed cfg) -> step s o = plain_step s o.
Proof. intro N. destruct o; try reflexivity. exfalso. eapply N. reflexivity. Qed.

Lemma wf_step s o : wf s -> wf (fst (step s o)).
Proof.
  intro W. destruct o as [cap| |c|c v|c|k|seed cfg]; try (apply wf_plain_prod; [exact W | discriminate]).
  - apply wf_handle. exact W.
  - exact W.
Qed.

Lemma wf_final_from ops : forall s, wf s -> wf (final_from s ops).
Proof. induction ops as [|o r IH]; intros s W; simpl; [exact W|]. apply IH. apply wf_step. exact W. Qed.

Lemma final_from_app a b : forall s, final_from s (a ++ b) = final_from (final_from s a) b.
Proof. induction a as [|o r IH]; intro s; simpl; [reflexivity|]. apply IH. Qed.

Lemma trace_from_app a b : forall s,
  trace_from s (a ++ b) = trace_from s a ++ trace_from (final_from s a) b.
Proof.
  induction a as [|o r IH]; intro s; simpl; [reflexivity|].
  destruct (step s o) as [s1 e] eqn:E. simpl. rewrite IH. reflexivity.
Qed.

Lemma run_from_final ops : forall s, fst (run_from s ops) = final_from s ops.
Proof.
  induction ops as [|o r IH]; intro s; simpl; [reflexivity|].
  destruct (step s o) as [s1 e] eqn:E. specialize (IH s1). destruct (run_from s1 r). simpl in *. exact IH.
Qed.

Lemma run_from_trace ops : forall s,
  map ob_ev (snd (run_from s ops)) = map snd (trace_from s ops).
Proof.
  induction ops as [|o r IH]; intro s; simpl; [reflexivity|].
  destruct (step s o) as [s1 e] eqn:E. specialize (IH s1). destruct (run_from s1 r). simpl in *.
  rewrite IH. reflexivity.
Qed.

Lemma run_from_snaps ops : forall s,
  length (snd (run_from s ops)) = length ops.
Proof.
  induction ops as [|o r IH]; intro s; simpl; [reflexivity|].
  destruct (step s o) as [s1 e]. specialize (IH s1). destruct (run_from s1 r). simpl in *. lia.
Qed.

Lemma final_is ops : final ops = final_from init ops.
Proof. apply run_from_final. Qed.

Lemma events_is ops : events ops = map snd (trace ops).
Proof. apply run_from_trace. Qed.

Lemma wf_final ops : wf (final ops).
Proof. rewrite final_is. apply wf_final_from. exact wf_init. Qed.

(* ------------------------------------------------------------------ selector index *)
Lemma index_ok_of_wf s : wf s -> index_ok s.
Proof.
  intro W. split.
  - pose proof (f_equal (@length _) (wf_index _ W)) as L. rewrite !map_length in L. lia.
  - intros i k H. destruct (cases_nth_chan s i k W H) as (c & N & CO).
    unfold chan_of in CO. destruct (znth (sels s) k) as [d|]; [|discriminate].
    simpl in CO. inv CO. eauto.
Qed.

Lemma selector_index ops : index_ok (final ops).
Proof. apply index_ok_of_wf. apply wf_final. Qed.

(* ------------------------------------------------------------------ owner of a handled value *)
Lemma recv_sels s c s2 v ok : recv s c = Some (s2, v, ok) -> sels s2 = sels s.
Proof.
  intro R. apply recv_facts in R.
  destruct R as [(_ & ch & r & _ & _ & ->)|(_ & _ & -> & _)]; reflexivity.
Qed.

Lemma chan_of_sels s s' k : sels s' = sels s -> chan_of s' k = chan_of s k.
Proof. unfold chan_of. intros ->. reflexivity. Qed.

Lemma try_make_sels s : sels (try_make s) = sels s.
Proof. unfold try_make. destruct (dirty s); reflexivity. Qed.

Lemma try_make_chans s : chans (try_make s) = chans s.
Proof. unfold try_make. destruct (dirty s); reflexivity. Qed.

Lemma add_selector_sels s c : sels (add_selector s c) = sels s ++ [mkSel c true].
Proof.
  unfold add_selector. destruct (znth (chans s) 0) as [d|]; [|reflexivity].
  destruct (zlen (cq d) <? ccap d); reflexivity.
Qed.

Lemma chan_of_mono s o k c : wf s -> chan_of s k = Some c -> chan_of (fst (step s o)) k = Some c.
Proof.
  intros W H. destruct o as [cap| |c0|c0 v|c0|k0|seed cfg]; simpl.
  - destruct ((1 <=? cap) && (cap <=? max_cap)); exact H.
  - exact H.
  - destruct (valid_user_chan s c0); simpl; [|exact H].
    unfold chan_of in *. rewrite add_selector_sels.
    destruct (znth (sels s) k) as [d|] eqn:E; [|discriminate]. rewrite (znth_app_l _ _ _ _ E). exact H.
  - destruct (valid_user_chan s c0); simpl; [|exact H].
    destruct (znth (chans s) c0) as [ch|]; [|exact H].
    destruct (cclosed ch); [exact H|]. destruct (ccap ch <=? zlen (cq ch)); exact H.
  - destruct (valid_user_chan s c0); simpl; [|exact H].
    destruct (znth (chans s) c0) as [ch|]; [|exact H]. destruct (cclosed ch); exact H.
  - destruct (handle_cases s k0 W) as [| |s2 c1 v ok _ _ R]; simpl; auto.
    assert (chan_of s2 k = Some c) as H2.
    { rewrite (chan_of_sels (try_make s) s2) by (eapply recv_sels; eauto).
      rewrite (chan_of_sels s (try_make s)) by apply try_make_sels. exact H. }
    destruct ok; [exact H2|]. rewrite chan_of_mark_dead. exact H2.
  - exact H.
Qed.

Lemma chan_of_final_mono ops : forall s k c,
  wf s -> chan_of s k = Some c -> chan_of (final_from s ops) k = Some c.
Proof.
  induction ops as [|o r IH]; intros s k c W H; simpl; [exact H|].
  apply IH; [apply wf_step; exact W | apply chan_of_mono; assumption].
Qed.

Lemma step_ran_owner s o k c v ok :
  wf s -> snd (step s o) = ERan k c v ok -> chan_of (fst (step s o)) k = Some c.
Proof.
  intros W E. destruct o as [cap| |c0|c0 v0|c0|k0|seed cfg]; simpl in E.
  - destruct ((1 <=? cap) && (cap <=? max_cap)); discriminate.
  - discriminate.
  - destruct (valid_user_chan s c0); discriminate.
  - destruct (valid_user_chan s c0); [|discriminate].
    destruct (znth (chans s) c0) as [ch|]; [|discriminate].
    destruct (cclosed ch); [discriminate|]. destruct (ccap ch <=? zlen (cq ch)); discriminate.
  - destruct (valid_user_chan s c0); [|discriminate].
    destruct (znth (chans s) c0) as [ch|]; [|discriminate]. destruct (cclosed ch); discriminate.
  - simpl. destruct (handle_cases s k0 W) as [| |s2 c1 v1 ok1 CO _ R]; simpl in *; try discriminate.
    inv E.
    assert (chan_of s2 k = Some c) as H2.
    { rewrite (chan_of_sels (try_make s) s2) by (eapply recv_sels; eauto). exact CO. }
    destruct ok; [exact H2|]. rewrite chan_of_mark_dead. exact H2.
  - discriminate.
Qed.

Lemma ran_owner_from ops : forall s o k c v ok,
  wf s -> In (o, ERan k c v ok) (trace_from s ops) -> chan_of (final_from s ops) k = Some c.
Proof.
  induction ops as [|o0 r IH]; intros s o k c v ok W I; simpl in *; [contradiction|].
  destruct (step s o0) as [s1 e] eqn:E.
  assert (wf s1) as W1. { pose proof (wf_step s o0 W) as X. rewrite E in X. exact X. }
  destruct I as [I|I].
  - inv I. apply chan_of_final_mono; [exact W1|].
    pose proof (step_ran_owner s o k c v ok W) as X. rewrite E in X. apply X. reflexivity.
  - eapply IH; eauto.
Qed.

Lemma ran_owner ops o k c v ok :
  In (o, ERan k c v ok) (trace ops) -> chan_of (final ops) k = Some c.
Proof. rewrite final_is. apply ran_owner_from. exact wf_init. Qed.

(* ------------------------------------------------------------------ accounting *)
Lemma znth_none {A} (l : list A) i : zlen l <= i -> znth l i = None.
Proof.
  intro H. unfold znth, zlen in *. destruct (Z.ltb_spec i 0) as [Lt|Ge]; [reflexivity|].
  apply nth_error_None. lia.
Qed.

Lemma queue_new_chan s b cap c :
  queue (set_chans s (chans s ++ [mkChan [] b cap])) c = queue s c.
Proof.
  unfold queue. simpl. destruct (Z.lt_trichotomy c (zlen (chans s))) as [L|[->|G]].
  - rewrite znth_app_lt by exact L. reflexivity.
  - rewrite znth_app_new. rewrite znth_none by lia. reflexivity.
  - rewrite !znth_none; [reflexivity | lia | rewrite zlen_app; lia].
Qed.

Lemma queue_set_same s c ch ch0 : znth (chans s) c = Some ch0 -> queue (set_chan s c ch) c = cq ch.
Proof. intro H. unfold queue. simpl. rewrite (znth_zupd_same _ _ _ _ H). reflexivity. Qed.

Lemma queue_set_other s c ch c' : c <> c' -> queue (set_chan s c ch) c' = queue s c'.
Proof. intro N. unfold queue. simpl. rewrite znth_zupd_other by exact N. reflexivity. Qed.

Lemma queue_chans s s' c : chans s' = chans s -> queue s' c = queue s c.
Proof. unfold queue. intros ->. reflexivity. Qed.

Lemma mark_dead_chans s k : chans (mark_dead s k) = chans s.
Proof. unfold mark_dead. destruct (znth (sels s) k); reflexivity. Qed.

Lemma add_selector_queue s c0 c : 0 < c -> queue (add_selector s c0) c = queue s c.
Proof.
  intro P. unfold add_selector. destruct (znth (chans s) 0) as [d|]; [|reflexivity].
  destruct (zlen (cq d) <? ccap d); [|reflexivity]. rewrite queue_set_other by lia. reflexivity.
Qed.

Lemma step_account s o c :
  wf s -> 0 < c ->
  queue s c ++ sent_step c (o, snd (step s o)) =
  handled_step c (o, snd (step s o)) ++ queue (fst (step s o)) c.
Proof.
  intros W P. unfold handled_step.
  destruct o as [cap| |c0|c0 v|c0|k0|seed cfg]; simpl.
  - destruct ((1 <=? cap) && (cap <=? max_cap)); simpl; rewrite ?queue_new_chan, app_nil_r; reflexivity.
  - rewrite queue_new_chan, app_nil_r. reflexivity.
  - destruct (valid_user_chan s c0); simpl; rewrite ?add_selector_queue by exact P;
      rewrite app_nil_r; reflexivity.
  - destruct (valid_user_chan s c0); simpl; [|rewrite app_nil_r; reflexivity].
    destruct (znth (chans s) c0) as [ch|] eqn:H; simpl; [|rewrite app_nil_r; reflexivity].
    destruct (cclosed ch); simpl; [rewrite app_nil_r; reflexivity|].
    destruct (ccap ch <=? zlen (cq ch)); simpl; [rewrite app_nil_r; reflexivity|].
    destruct (Z.eqb_spec c c0) as [->|N].
    + rewrite (queue_set_same _ _ _ _ H). simpl. unfold queue. rewrite H. reflexivity.
    + rewrite queue_set_other by congruence. rewrite app_nil_r. reflexivity.
  - destruct (valid_user_chan s c0); simpl; [|rewrite app_nil_r; reflexivity].
    destruct (znth (chans s) c0) as [ch|] eqn:H; simpl; [|rewrite app_nil_r; reflexivity].
    destruct (cclosed ch); simpl; [rewrite app_nil_r; reflexivity|].
    rewrite app_nil_r. destruct (Z.eq_dec c0 c) as [->|N].
    + rewrite (queue_set_same _ _ _ _ H). simpl. unfold queue. rewrite H. reflexivity.
    + rewrite queue_set_other by exact N. reflexivity.
  - destruct (handle_cases s k0 W) as [| |s2 c1 v ok _ _ R]; simpl; rewrite ?app_nil_r; try reflexivity.
    assert (queue (try_make s) c = queue s c) as Q0 by (apply queue_chans; apply try_make_chans).
    assert (queue (if ok then s2 else mark_dead s2 k0) c = queue s2 c) as Q2.
    { destruct ok; [reflexivity|]. apply queue_chans. apply mark_dead_chans. }
    rewrite Q2, <- Q0. apply recv_facts in R.
    destruct R as [(-> & ch & r & H & Q & ->)|(-> & -> & -> & _)]; [|reflexivity].
    destruct (Z.eqb_spec c c1) as [->|N].
    + rewrite (queue_set_same _ _ _ _ H). simpl. unfold queue. rewrite H. exact Q.
    + rewrite queue_set_other by congruence. reflexivity.
  - rewrite app_nil_r. reflexivity.
Qed.

Lemma account_from ops : forall s c,
  wf s -> 0 < c ->
  queue s c ++ sent c (trace_from s ops) =
  handled c (trace_from s ops) ++ queue (final_from s ops) c.
Proof.
  induction ops as [|o r IH]; intros s c W P; simpl.
  - rewrite app_nil_r. reflexivity.
  - pose proof (step_account s o c W P) as A. pose proof (wf_step s o W) as W1.
    destruct (step s o) as [s1 e] eqn:E. simpl in *.
    unfold sent, handled in *. simpl.
    rewrite app_assoc, A, <- !app_assoc. f_equal. apply IH; assumption.
Qed.

Lemma queue_init c : 0 < c -> queue init c = [].
Proof.
  intro P. unfold queue. rewrite znth_none; [reflexivity|]. unfold zlen. simpl. lia.
Qed.

Lemma task_accounting ops c :
  0 < c -> sent c (trace ops) = handled c (trace ops) ++ queue (final ops) c.
Proof.
  intro P. pose proof (account_from ops init c wf_init P) as A.
  rewrite queue_init in A by exact P. rewrite final_is. exact A.
Qed.

(* ------------------------------------------------------------------ progress *)
Lemma handle_eq s k i c s2 v ok :
  index_of k (runnings (try_make s)) = Some i ->
  nth_error (cases (try_make s)) i = Some c ->
  recv (try_make s) c = Some (s2, v, ok) ->
  handle s k = ((if ok then s2 else mark_dead s2 k), ERan k c v ok).
Proof.
  intros I N R. unfold handle.
  assert (existsb (chan_ready (try_make s)) (cases (try_make s)) = true) as X.
  { apply existsb_exists. exists c. split; [eapply nth_error_In; eauto | eapply recv_some_ready; eauto]. }
  rewrite X, I, N, R.
  destruct (cases (try_make s)) as [|c0 cr]; [destruct i; discriminate|]. reflexivity.
Qed.

Lemma weight_chans s s' c : chans s' = chans s -> weight s' c = weight s c.
Proof. unfold weight. intros ->. reflexivity. Qed.

Lemma mu_same s s' : chans s' = chans s -> sels s' = sels s -> mu s' = mu s.
Proof.
  intros C S. unfold mu. rewrite S. f_equal. apply map_ext. intro kc. apply weight_chans. exact C.
Qed.

Lemma in_runnings_open s k :
  wf s -> In k (runnings (try_make s)) ->
  exists c, In (k, c) (open_from 0 (sels s)) /\ chan_of (try_make s) k = Some c.
Proof.
  intros W I. destruct (try_make_facts s W) as (_ & S & _ & _ & Rn). rewrite Rn in I.
  apply in_map_iff in I. destruct I as ([k' c] & E & I). simpl in E. subst k'.
  exists c. split; [exact I|]. rewrite (chan_of_sels s) by exact S. apply chan_of_open. exact I.
Qed.

Lemma ready_ks_in s k :
  In k (ready_ks s) <-> In k (runnings s) /\ exists c, chan_of s k = Some c /\ chan_ready s c = true.
Proof.
  unfold ready_ks. rewrite filter_In. split.
  - intros [I H]. split; [exact I|]. destruct (chan_of s k) as [c|]; [eauto|discriminate].
  - intros [I (c & H1 & H2)]. split; [exact I|]. rewrite H1. exact H2.
Qed.

Lemma handle_progress s k :
  wf s -> In k (ready_ks (try_make s)) ->
  exists s' c v ok, handle s k = (s', ERan k c v ok) /\ (mu s' < mu s)%nat.
Proof.
  intros W I. apply ready_ks_in in I. destruct I as [I (c & CO & RD)].
  pose proof (wf_try_make s W) as W1.
  destruct (index_of_in _ _ I) as [i IX]. pose proof (index_of_some _ _ _ IX) as NR.
  destruct (cases_nth_chan _ i k W1 NR) as (c' & NC & CO'). rewrite CO in CO'. inv CO'.
  destruct (recv_ready _ _ RD) as [[[s2 v] ok] R].
  exists (if ok then s2 else mark_dead s2 k), c', v, ok. split; [eapply handle_eq; eauto|].
  destruct (in_runnings_open s k W I) as (c2 & IO & CO2). rewrite CO in CO2. inv CO2.
  assert (mu (try_make s) = mu s) as M1 by (apply mu_same; [apply try_make_chans | apply try_make_sels]).
  rewrite <- M1. pose proof (try_make_sels s) as S1.
  apply recv_facts in R. destruct R as [(-> & ch & r & H & Q & ->)|(-> & -> & -> & K)].
  - (* a value was received: the queue of c2 is one shorter *)
    unfold mu. simpl sels. rewrite S1.
    apply (list_sum_lt _ _ _ (k, c2)); [exact IO| |].
    + unfold weight. simpl. rewrite (znth_zupd_same _ _ _ _ H), H, Q. simpl. lia.
    + intros [k' c'] _. unfold weight. simpl. destruct (Z.eq_dec c2 c') as [<-|N].
      * rewrite (znth_zupd_same _ _ _ _ H), H, Q. simpl. lia.
      * rewrite znth_zupd_other by exact N. lia.
  - (* closed and empty: selector k leaves the open list *)
    apply open_from_0 in IO. destruct IO as (d & Hd & Od & Cd).
    unfold mark_dead. rewrite S1, Hd. unfold mu. simpl.
    pose proof (znth_range _ _ _ Hd) as Rk.
    assert (nth_error (sels s) (Z.to_nat k) = Some d) as Hn.
    { unfold znth in Hd. destruct (Z.ltb_spec k 0) as [Lt|Ge]; [lia|]. exact Hd. }
    pose proof (open_from_dead (fun kc => weight (try_make s) (snd kc)) (sels s) 0 (Z.to_nat k) d Hn Od) as E.
    simpl in E. rewrite S1.
    assert (zupd (sels s) k (mkSel (schan d) false) = upd (sels s) (Z.to_nat k) (mkSel (schan d) false)) as U.
    { unfold zupd. destruct (Z.ltb_spec k 0) as [Lt|Ge]; [lia|]. reflexivity. }
    rewrite U.
    assert (weight (try_make s) (schan d) >= 1)%nat as G.
    { destruct K as (x & Hx & Qx & Cx). unfold weight. rewrite Cd, Hx, Cx. lia. }
    assert (forall l, map (fun kc : Z * Z => weight
              {| chans := chans (try_make s); sels := upd (sels s) (Z.to_nat k) (mkSel (schan d) false);
                 dirty := true; cases := cases (try_make s); runnings := runnings (try_make s) |} (snd kc)) l =
            map (fun kc => weight (try_make s) (snd kc)) l) as ME.
    { intro l. apply map_ext. intro kc. reflexivity. }
    rewrite ME. lia.
Qed.

Lemma weight_zero_not_ready s c : weight s c = 0%nat -> chan_ready s c = false.
Proof.
  unfold weight, chan_ready. destruct (znth (chans s) c) as [ch|]; [|reflexivity].
  destruct (cq ch); simpl; [|lia]. destruct (cclosed ch); [lia | reflexivity].
Qed.

Lemma chan_ready_chans s s' c : chans s' = chans s -> chan_ready s' c = chan_ready s c.
Proof. unfold chan_ready. intros ->. reflexivity. Qed.

Lemma mu_zero_idle s k : wf s -> mu s = 0%nat -> handle s k = (s, EIdle).
Proof.
  intros W M. unfold handle. destruct (try_make_facts s W) as (C & _ & _ & Cs & _).
  destruct (open_head s W) as [r0 OH].
  destruct (cases (try_make s)) as [|c0 cr] eqn:EC.
  { rewrite OH in Cs. discriminate. }
  rewrite <- EC.
  destruct (existsb (chan_ready (try_make s)) (cases (try_make s))) eqn:X; [|reflexivity].
  exfalso. apply existsb_exists in X. destruct X as (c & I & RD). rewrite EC, Cs in I.
  apply in_map_iff in I. destruct I as ([k' c'] & E & I). simpl in E. subst c'.
  pose proof (list_sum_zero (fun kc => weight s (snd kc)) _ (k', c) M I) as Z. simpl in Z.
  apply weight_zero_not_ready in Z. rewrite (chan_ready_chans s) in RD by exact C. congruence.
Qed.

Lemma list_sum_pos {A} (f : A -> nat) l :
  list_sum (map f l) <> 0%nat -> exists x, In x l /\ f x <> 0%nat.
Proof.
  induction l as [|y r IH]; simpl; intro H; [congruence|].
  destruct (Nat.eq_dec (f y) 0) as [E|N].
  - destruct IH as (x & I & P); [lia|]. exists x. auto.
  - exists y. auto.
Qed.

Lemma weight_pos_ready s c : weight s c <> 0%nat -> chan_ready s c = true.
Proof.
  unfold weight, chan_ready. destruct (znth (chans s) c) as [ch|]; [|congruence].
  destruct (cq ch); simpl; [|reflexivity]. destruct (cclosed ch); [reflexivity | congruence].
Qed.

Lemma mu_pos_ready s : wf s -> mu s <> 0%nat -> ready_ks (try_make s) <> [].
Proof.
  intros W M. apply list_sum_pos in M. destruct M as ([k c] & I & P). simpl in P.
  destruct (try_make_facts s W) as (C & S & _ & _ & Rn).
  assert (In k (ready_ks (try_make s))) as X.
  { apply ready_ks_in. split.
    - rewrite Rn. apply in_map_iff. exists (k, c). auto.
    - exists c. split.
      + rewrite (chan_of_sels s) by exact S. apply chan_of_open. exact I.
      + rewrite (chan_ready_chans s) by exact C. apply weight_pos_ready. exact P. }
  intro E. rewrite E in X. contradiction.
Qed.

Section Progress.
  Variable choose : st -> list Z -> Z.
  Hypothesis choose_fair : fair_choice choose.

  Lemma drain_from : forall n s,
    wf s -> (mu s <= n)%nat -> mu (final_from s (auto_ops choose n s)) = 0%nat.
  Proof.
    induction n as [|n IH]; intros s W L; simpl.
    - lia.
    - destruct (Nat.eq_dec (mu s) 0) as [Z|NZ].
      + rewrite (mu_zero_idle s _ W Z). simpl. apply IH; [exact W | lia].
      + pose proof (mu_pos_ready s W NZ) as NE.
        pose proof (choose_fair (try_make s) _ NE) as I. fold (pick choose s) in I.
        destruct (handle_progress s _ W I) as (s' & c & v & ok & E & Lt).
        pose proof (wf_handle s (pick choose s) W) as W'.
        rewrite E in *. simpl in *. apply IH; [exact W' | lia].
  Qed.

  Lemma auto_no_send : forall n s c, sent c (trace_from s (auto_ops choose n s)) = [].
  Proof.
    induction n as [|n IH]; intros s c; simpl; [reflexivity|].
    destruct (handle s (pick choose s)) as [s1 e] eqn:E. simpl. unfold sent in *. simpl. apply IH.
  Qed.
End Progress.

Lemma registered_chan_of s c : registered s c <-> exists k, chan_of s k = Some c.
Proof.
  unfold registered, chan_of. split.
  - intros (k & d & H & E). exists k. rewrite H. simpl. congruence.
  - intros (k & H). destruct (znth (sels s) k) as [d|] eqn:E; [|discriminate].
    simpl in H. inv H. eauto.
Qed.

Lemma registered_final_mono ops s c : wf s -> registered s c -> registered (final_from s ops) c.
Proof.
  intros W R. apply registered_chan_of in R. destruct R as [k H].
  apply registered_chan_of. exists k. apply chan_of_final_mono; assumption.
Qed.

Lemma mu_zero_queue s c : wf s -> mu s = 0%nat -> registered s c -> queue s c = [].
Proof.
  intros W M (k & d & H & E). destruct (sopen d) eqn:O.
  - assert (In (k, c) (open_from 0 (sels s))) as I by (apply open_from_0; eauto).
    pose proof (list_sum_zero (fun kc => weight s (snd kc)) _ (k, c) M I) as Z. simpl in Z.
    unfold weight in Z. unfold queue. destruct (znth (chans s) c) as [ch|]; [|reflexivity].
    destruct (cq ch); [reflexivity | simpl in Z; lia].
  - destruct (wf_dead _ W k d H O) as (ch & Hc & Q & _). unfold queue. rewrite <- E, Hc. exact Q.
Qed.

Lemma no_task_lost choose ops c :
  fair_choice choose -> 0 < c -> registered (final ops) c ->
  handled c (trace (ops ++ auto_ops choose (mu (final ops)) (final ops))) = sent c (trace ops).
Proof.
  intros F P R. set (d := auto_ops choose (mu (final ops)) (final ops)).
  pose proof (task_accounting (ops ++ d) c P) as A.
  unfold trace in *. rewrite trace_from_app in A. unfold sent in A. rewrite flat_map_app in A.
  fold (sent c (trace_from init ops)) in A.
  fold (sent c (trace_from (final_from init ops) d)) in A.
  rewrite <- final_is in A. unfold d in A at 1. rewrite auto_no_send, app_nil_r in A.
  assert (queue (final (ops ++ d)) c = []) as Q.
  { rewrite final_is, final_from_app, <- final_is. apply mu_zero_queue.
    - apply wf_final_from. apply wf_final.
    - apply drain_from; [exact F | apply wf_final | lia].
    - apply registered_final_mono; [apply wf_final | exact R]. }
  rewrite Q, app_nil_r in A. rewrite A, trace_from_app, <- final_is. reflexivity.
Qed.

Lemma task_enabled ops c v rest k d :
  queue (final ops) c = v :: rest ->
  znth (sels (final ops)) k = Some d -> sopen d = true -> schan d = c ->
  exists s', step (final ops) (OHandle k) = (s', ERan k c v true) /\ queue s' c = rest.
Proof.
  intros Q H O E. pose proof (wf_final ops) as W. set (s := final ops) in *.
  pose proof (wf_try_make s W) as W1.
  destruct (try_make_facts s W) as (C & S & _ & _ & Rn).
  assert (In k (runnings (try_make s))) as I.
  { rewrite Rn. apply in_map_iff. exists (k, c). split; [reflexivity|]. apply open_from_0. eauto. }
  destruct (index_of_in _ _ I) as [i IX]. pose proof (index_of_some _ _ _ IX) as NR.
  destruct (cases_nth_chan _ i k W1 NR) as (c' & NC & CO).
  assert (c' = c) as ->.
  { unfold chan_of in CO. rewrite S, H in CO. simpl in CO. congruence. }
  unfold queue in Q. destruct (znth (chans s) c) as [ch|] eqn:Hc; [|discriminate].
  assert (recv (try_make s) c =
          Some (set_chan (try_make s) c (mkChan rest (cclosed ch) (ccap ch)), v, true)) as R.
  { unfold recv. rewrite C, Hc, Q. reflexivity. }
  eexists. split.
  - simpl. eapply handle_eq; eauto.
  - simpl. rewrite (queue_set_same _ _ _ ch) by (rewrite C; exact Hc). reflexivity.
Qed.

(* the len(cases) == 0 branch of HandleOnce is dead code *)
Lemma never_sleep ops : ~ In ESleep (events ops).
Proof.
  rewrite events_is. unfold trace. generalize wf_init. generalize init.
  induction ops as [|o r IH]; intros s W I; simpl in *; [contradiction|].
  pose proof (wf_step s o W) as W1. destruct (step s o) as [s1 e] eqn:E. simpl in *.
  destruct I as [I|I]; [|eapply IH; eauto]. subst e.
  destruct o as [cap| |c0|c0 v|c0|k0|seed cfg]; simpl in E.
  - destruct ((1 <=? cap) && (cap <=? max_cap)); discriminate.
  - discriminate.
  - destruct (valid_user_chan s c0); discriminate.
  - destruct (valid_user_chan s c0); [|discriminate].
    destruct (znth (chans s) c0) as [ch|]; [|discriminate].
    destruct (cclosed ch); [discriminate|]. destruct (ccap ch <=? zlen (cq ch)); discriminate.
  - destruct (valid_user_chan s c0); [|discriminate].
    destruct (znth (chans s) c0) as [ch|]; [|discriminate]. destruct (cclosed ch); discriminate.
  - destruct (handle_cases s k0 W); discriminate.
  - discriminate.
Qed.

(* ------------------------------------------------------------------ interleaving model *)
Definition pc_ok (s : st) (p : pc) : Prop :=
  match p with
  | PTop => True
  | PSel lc => lc = cases s /\ In 0 lc /\ (dirty s = true -> queue s 0 <> [])
  | PRun k c v ok => chan_of s k = Some c /\ (ok = false -> chan_dead s c)
  | PDead k => exists c, chan_of s k = Some c /\ chan_dead s c
  | PPanic => False
  end.

Definition inv1 (x : ist) : Prop := wf (sh x) /\ exists p, pcs x = [p] /\ pc_ok (sh x) p.

Lemma add_selector_dirt_nonempty s c : wf s -> queue (add_selector s c) 0 <> [].
Proof.
  intro W. unfold add_selector. destruct (wf_dirt_chan _ W) as [q E]. rewrite E. simpl.
  destruct (Z.ltb_spec (zlen q) dirt_cap) as [Lt|Ge].
  - rewrite (queue_set_same _ _ _ (mkChan q false dirt_cap)) by exact E. simpl.
    destruct q; discriminate.
  - unfold queue. simpl. rewrite E. simpl. unfold zlen, dirt_cap in Ge. destruct q; simpl in *; [lia|discriminate].
Qed.

Lemma chan_dead_new s ch c : chan_dead s c -> chan_dead (set_chans s (chans s ++ [ch])) c.
Proof. intros (x & H & Q & C). exists x. simpl. rewrite (znth_app_l _ _ _ _ H). auto. Qed.

Lemma chan_dead_chans s s' c : chans s' = chans s -> chan_dead s c -> chan_dead s' c.
Proof. unfold chan_dead. intros ->. auto. Qed.

Lemma pstep_frame s o :
  wf s ->
  let s' := pstep s o in
  cases s' = cases s /\ runnings s' = runnings s /\
  (forall c, chan_dead s c -> chan_dead s' c) /\
  (forall k c, chan_of s k = Some c -> chan_of s' k = Some c) /\
  ((dirty s = true -> queue s 0 <> []) -> dirty s' = true -> queue s' 0 <> []).
Proof.
  intro W. destruct o as [cap| |c0|c0 v|c0|k0|seed cfg]; simpl.
  - destruct ((1 <=? cap) && (cap <=? max_cap)); simpl; repeat split; auto.
    + intros c K. apply chan_dead_new. exact K.
    + rewrite queue_new_chan. auto.
  - repeat split; auto.
    + intros c K. apply chan_dead_new. exact K.
    + rewrite queue_new_chan. auto.
  - destruct (valid_user_chan s c0) eqn:V; simpl; [|repeat split; auto].
    pose proof (chan_of_mono s (OAdd c0)) as CM. simpl in CM. rewrite V in CM. simpl in CM.
    repeat split.
    + unfold add_selector. destruct (znth (chans s) 0) as [d|]; [|reflexivity].
      destruct (zlen (cq d) <? ccap d); reflexivity.
    + unfold add_selector. destruct (znth (chans s) 0) as [d|]; [|reflexivity].
      destruct (zlen (cq d) <? ccap d); reflexivity.
    + intros c K. assert (c <> 0) as N by (intros ->; exact (dirt_not_dead _ W K)).
      unfold add_selector. destruct (znth (chans s) 0) as [d|]; [|exact K].
      destruct (zlen (cq d) <? ccap d); [|exact K].
      apply chan_dead_set_other; [exact K | exact N].
    + intros k c. apply CM. exact W.
    + intros _ _. apply add_selector_dirt_nonempty. exact W.
  - destruct (valid_user_chan s c0) eqn:V; simpl; [|repeat split; auto].
    destruct (znth (chans s) c0) as [ch|] eqn:H; [|repeat split; auto].
    destruct (cclosed ch) eqn:C; [repeat split; auto|].
    destruct (ccap ch <=? zlen (cq ch)); simpl; repeat split; auto.
    + intros c K. apply chan_dead_set_other; [exact K|]. intros ->.
      destruct K as (x & Hx & _ & Cx). rewrite H in Hx. inv Hx. congruence.
    + apply valid_user_chan_spec in V. rewrite queue_set_other by lia. auto.
  - destruct (valid_user_chan s c0) eqn:V; simpl; [|repeat split; auto].
    destruct (znth (chans s) c0) as [ch|] eqn:H; [|repeat split; auto].
    destruct (cclosed ch) eqn:C; simpl; repeat split; auto.
    + intros c K. apply chan_dead_set_other; [exact K|]. intros ->.
      destruct K as (x & Hx & _ & Cx). rewrite H in Hx. inv Hx. congruence.
    + apply valid_user_chan_spec in V. rewrite queue_set_other by lia. auto.
  - repeat split; auto.
  - repeat split; auto.
Qed.

Lemma wf_pstep s o : wf s -> wf (pstep s o).
Proof.
  intro W. destruct o as [cap| |c0|c0 v|c0|k0|seed cfg]; try exact W;
    apply (wf_plain_prod s _ W); discriminate.
Qed.

Lemma pc_ok_pstep s o p : wf s -> pc_ok s p -> pc_ok (pstep s o) p.
Proof.
  intros W P. destruct (pstep_frame s o W) as (Cs & Rn & KD & CO & DQ).
  destruct p as [|lc|k c v ok|k|]; simpl in *; auto.
  - destruct P as (-> & I0 & D). rewrite Cs. auto.
  - destruct P as [H D]. split; [apply CO; exact H | intro E; apply KD; apply D; exact E].
  - destruct P as (c & H & K). exists c. split; [apply CO; exact H | apply KD; exact K].
Qed.

Lemma map_eq_nth_rev {A B} (f : A -> B) (g : Z -> B) l1 l2 i c :
  map g l1 = map f l2 -> nth_error l2 i = Some c ->
  exists k, nth_error l1 i = Some k /\ g k = f c.
Proof.
  revert l2 i. induction l1 as [|x r IH]; intros [|y r2] [|i] E H; simpl in *; try discriminate.
  - inv H. inv E. eauto.
  - inv E. eapply IH; eauto.
Qed.

Lemma recv_runnings s c s2 v ok : recv s c = Some (s2, v, ok) -> runnings s2 = runnings s /\ cases s2 = cases s.
Proof.
  intro R. apply recv_facts in R.
  destruct R as [(_ & ch & r & _ & _ & ->)|(_ & _ & -> & _)]; auto.
Qed.

Lemma cstep_inv s p i s1 p1 :
  wf s -> pc_ok s p -> cstep s p i = Some (s1, p1) -> wf s1 /\ pc_ok s1 p1.
Proof.
  intros W P E. destruct p as [|lc|k c v ok|k|]; simpl in E.
  - (* tryMakeCases *)
    pose proof (wf_try_make s W) as W1. destruct (try_make_facts s W) as (_ & _ & D & Cs & _).
    destruct (open_head s W) as [r0 OH].
    destruct (cases (try_make s)) as [|c0 cr] eqn:EC; inv E; split; auto; simpl; auto.
    rewrite OH in Cs. simpl in Cs. inv Cs. repeat split; auto; try (left; reflexivity). congruence.
  - (* reflect.Select returned case i *)
    destruct P as (-> & _ & _).
    destruct (nth_error (cases s) i) as [c|] eqn:N; [|discriminate].
    destruct (recv s c) as [[[s2 v] ok]|] eqn:R; [|discriminate].
    pose proof (wf_recv _ _ _ _ _ W R) as W2.
    destruct (map_eq_nth_rev Some (chan_of s) _ _ i c (wf_index _ W) N) as (k & NR & CO).
    destruct (recv_runnings _ _ _ _ _ R) as [RR _]. rewrite RR, NR in E. inv E.
    split; [exact W2|]. simpl. split.
    + rewrite (chan_of_sels s) by (eapply recv_sels; eauto). exact CO.
    + intros ->. apply recv_facts in R. destruct R as [(X & _)|(_ & _ & -> & K)]; [discriminate | exact K].
  - (* DoTask returned *)
    inv E. split; [exact W|]. destruct P as [H D]. destruct ok; simpl; auto. exists c. auto.
  - (* handleDeadChan *)
    inv E. destruct P as (c & H & K). split; [|exact I]. apply (wf_mark_dead s k c); assumption.
  - discriminate.
Qed.

Lemma istep_inv1 x a : inv1 x -> inv1 (istep x a).
Proof.
  intros [W (p & EP & P)]. destruct a as [o|j i]; simpl.
  - split; simpl; [apply wf_pstep; exact W|]. exists p. split; [exact EP | apply pc_ok_pstep; assumption].
  - rewrite EP. destruct j as [|j]; simpl.
    + destruct (cstep (sh x) p i) as [[s1 p1]|] eqn:E.
      * destruct (cstep_inv _ _ _ _ _ W P E) as [W1 P1]. split; simpl; [exact W1|].
        exists p1. auto.
      * split; [exact W|]. exists p. auto.
    + destruct j; simpl; (split; [exact W|]); exists p; auto.
Qed.

Lemma irun_inv1 l : forall x, inv1 x -> inv1 (irun x l).
Proof.
  induction l as [|a r IH]; intros x I; simpl; [exact I|]. apply IH. apply istep_inv1. exact I.
Qed.

Lemma inv1_init : inv1 (init_i 1).
Proof. split; simpl; [exact wf_init|]. exists PTop. simpl. auto. Qed.

Lemma one_at_a_time l :
  let x := irun (init_i 1) l in
  (running x <= 1)%nat /\
  (forall j k c v ok, nth_error (pcs x) j = Some (PRun k c v ok) ->
      j = 0%nat /\ chan_of (sh x) k = Some c) /\
  ~ In PPanic (pcs x).
Proof.
  intro x. destruct (irun_inv1 l _ inv1_init) as [W (p & EP & P)]. fold x in W, EP, P.
  split; [|split].
  - unfold running. rewrite EP. simpl. destruct (is_running p); simpl; lia.
  - intros j k c v ok Hj. rewrite EP in Hj.
    destruct j as [|[|j]]; simpl in Hj; try discriminate. inv Hj. split; [reflexivity | exact (proj1 P)].
  - rewrite EP. intros [E|[]]. subst p. exact P.
Qed.

Lemma no_missed_wakeup l lc :
  let x := irun (init_i 1) l in
  pcs x = [PSel lc] ->
  (exists k d, znth (sels (sh x)) k = Some d /\ sopen d = true /\ chan_ready (sh x) (schan d) = true) ->
  existsb (chan_ready (sh x)) lc = true.
Proof.
  intros x EP (k & d & H & O & RD). destruct (irun_inv1 l _ inv1_init) as [W (p & EP' & P)].
  fold x in W, EP', P. rewrite EP in EP'. inv EP'. destruct P as (-> & I0 & D).
  apply existsb_exists. destruct (dirty (sh x)) eqn:DD.
  - exists 0. split; [exact I0|]. specialize (D eq_refl). unfold queue in D. unfold chan_ready.
    destruct (znth (chans (sh x)) 0) as [ch|]; [|congruence]. destruct (cq ch); [congruence | reflexivity].
  - exists (schan d). split; [|exact RD]. destruct (wf_fresh _ W DD) as [Cs _]. rewrite Cs.
    apply in_map_iff. exists (k, schan d). split; [reflexivity|]. apply open_from_0. eauto.
Qed.

(* the sequential HandleOnce is the consumer's atomic steps with nothing in between *)
Lemma handle_refines s k s' c v ok :
  handle s k = (s', ERan k c v ok) ->
  exists i, irun (mkI s [PTop]) (repeat (ACons 0 i) (if ok then 3 else 4)) = mkI s' [PTop].
Proof.
  unfold handle. destruct (cases (try_make s)) as [|c0 cr] eqn:EC; [discriminate|]. rewrite <- EC.
  destruct (existsb (chan_ready (try_make s)) (cases (try_make s))); simpl; [|discriminate].
  destruct (index_of k (runnings (try_make s))) as [i|] eqn:I; [|discriminate].
  destruct (nth_error (cases (try_make s)) i) as [c1|] eqn:N; [|discriminate].
  destruct (recv (try_make s) c1) as [[[s2 v1] ok1]|] eqn:R; [|discriminate].
  intro E. inv E. exists i. apply index_of_some in I.
  destruct (recv_runnings _ _ _ _ _ R) as [RR _].
  assert (istep (mkI s [PTop]) (ACons 0 i) = mkI (try_make s) [PSel (cases (try_make s))]) as S1.
  { simpl. rewrite EC. reflexivity. }
  assert (istep (mkI (try_make s) [PSel (cases (try_make s))]) (ACons 0 i) = mkI s2 [PRun k c v ok]) as S2.
  { simpl. rewrite N, R, RR, I. reflexivity. }
  destruct ok; unfold irun; cbn [repeat fold_left]; rewrite S1, S2; reflexivity.
Qed.

(* ------------------------------------------------------------------ funnels *)
Lemma service_chan_of f : chan_of (final_from init service_ops) (funnel_chan f) = Some (funnel_chan f).
Proof. destruct f; vm_compute; reflexivity. Qed.

Lemma funnel_chan_pos f : 0 < funnel_chan f.
Proof. destruct f; simpl; lia. Qed.

Lemma funnel_registered tail f : registered (final (service_ops ++ tail)) (funnel_chan f).
Proof.
  rewrite final_is, final_from_app. apply registered_final_mono.
  - apply wf_final_from. exact wf_init.
  - apply registered_chan_of. exists (funnel_chan f). apply service_chan_of.
Qed.

Lemma registered_valid s c : wf s -> registered s c -> 0 < c -> valid_user_chan s c = true.
Proof.
  intros W (k & d & H & E) P. pose proof (wf_sel_chan _ W k d H). unfold valid_user_chan. lia.
Qed.

Lemma funnel_total choose tail k :
  fair_choice choose ->
  let ops := service_ops ++ tail in
  let c := funnel_chan (funnel_of k) in
  registered (final ops) c /\
  snd (step (final ops) (submit k)) <> EBad /\
  handled c (trace (ops ++ auto_ops choose (mu (final ops)) (final ops))) = sent c (trace ops).
Proof.
  intros F ops c. pose proof (funnel_registered tail (funnel_of k)) as R. fold ops c in R.
  pose proof (funnel_chan_pos (funnel_of k)) as P. fold c in P.
  repeat split.
  - exact R.
  - unfold submit. fold c. simpl. rewrite (registered_valid _ c (wf_final ops) R P).
    destruct R as (k0 & d & H & E). pose proof (wf_sel_chan _ (wf_final ops) k0 d H) as V. rewrite E in V.
    destruct (znth_some (chans (final ops)) c V) as [ch ->].
    destruct (cclosed ch); [discriminate|]. destruct (ccap ch <=? zlen (cq ch)); discriminate.
  - apply no_task_lost; assumption.
Qed.

Lemma funnel_of_total k : In (funnel_of k) [FDisp; FSche; FTimer; FEvent].
Proof. destruct k; simpl; auto. Qed.

(* the model's prediction for a stress case: everything produced is executed *)
Lemma expected_len cfg : length (expected cfg) = length all_kinds.
Proof. reflexivity. Qed.

(* producers - including sends on full queues, which are no-ops (blocked) - never run a
   handler and never move a consumer: while the consumer is inside a handler, whatever is
   produced, it stays the only thing running *)
Lemma producers_never_run prods : forall x,
  pcs (irun x (map AProd prods)) = pcs x.
Proof.
  induction prods as [|o r IH]; intro x; simpl; [reflexivity|]. rewrite IH. reflexivity.
Qed.

(* a running handler is never interrupted or nested: from PRun the only move of that
   consumer process is the handler's own end *)
Lemma handler_runs_to_completion x a j k c v ok p' :
  nth_error (pcs x) j = Some (PRun k c v ok) ->
  nth_error (pcs (istep x a)) j = Some p' ->
  p' = PRun k c v ok \/ p' = PTop \/ p' = PDead k.
Proof.
  intros H H'. destruct a as [o|j0 i]; simpl in H'.
  - rewrite H in H'. inv H'. auto.
  - destruct (nth_error (pcs x) j0) as [p0|] eqn:E0; [|rewrite H in H'; inv H'; auto].
    destruct (cstep (sh x) p0 i) as [[s1 p1]|] eqn:EC; [|rewrite H in H'; inv H'; auto].
    simpl in H'. destruct (Nat.eq_dec j0 j) as [->|N].
    + rewrite H in E0. inv E0. simpl in EC. inv EC.
      rewrite (nth_error_upd_same _ _ _ _ H) in H'. inv H'. destruct ok; auto.
    + rewrite nth_error_upd_other in H' by exact N. rewrite H in H'. inv H'. auto.
Qed.

Lemma full_send_blocks s c v : snd (step s (OSend c v)) = EFull -> fst (step s (OSend c v)) = s.
Proof.
  simpl. destruct (valid_user_chan s c); [|discriminate].
  destruct (znth (chans s) c) as [ch|]; [|discriminate].
  destruct (cclosed ch); [discriminate|]. destruct (ccap ch <=? zlen (cq ch)); [reflexivity | discriminate].
Qed.

Lemma run_is_trace ops :
  events ops = map snd (trace ops) /\ final ops = final_from init ops /\
  length (run ops) = length ops.
Proof. repeat split; [apply events_is | apply final_is | apply run_from_snaps]. Qed.

(* ------------------------------------------------------------------ the monitor accepts the model *)
Definition qz (cs : list chan) (c : Z) : list Z :=
  match znth cs c with Some ch => cq ch | None => [] end.

Record relSC (ss : list seld) (cs : list chan) (m : mst) : Prop := mkRel {
  r_sels : m_sels m = map schan ss;
  r_dead : forall k, zmem k (m_dead m) = true <-> exists d, znth ss k = Some d /\ sopen d = false;
  r_len : length (m_q m) = length cs;
  r_q : forall c, 0 < c -> qget m c = qz cs c;
  r_closed : forall c, zmem c (m_closed m) = true <->
                       (0 < c /\ exists ch, znth cs c = Some ch /\ cclosed ch = true);
  r_pos : forall k d, znth ss k = Some d -> k <> 0 -> 0 < schan d;
  r_dirt : forall v, In v (qz cs 0) -> v = 1
}.

Definition rel (s : st) (m : mst) : Prop := wf s /\ relSC (sels s) (chans s) m.

Lemma znth_map {A B} (f : A -> B) l i : znth (map f l) i = option_map f (znth l i).
Proof.
  unfold znth. destruct (i <? 0); [reflexivity|]. apply nth_error_map.
Qed.

Lemma zmem_cons x y l : zmem x (y :: l) = Z.eqb x y || zmem x l.
Proof. reflexivity. Qed.

Lemma qget_qset_same m c q q0 : znth (m_q m) c = Some q0 -> qget (qset m c q) c = q.
Proof. intro H. unfold qget, qset. simpl. rewrite (znth_zupd_same _ _ _ _ H). reflexivity. Qed.

Lemma qget_qset_other m c c' q : c <> c' -> qget (qset m c q) c' = qget m c'.
Proof. intro N. unfold qget, qset. simpl. rewrite znth_zupd_other by exact N. reflexivity. Qed.

Lemma qz_zupd_same cs c ch ch0 : znth cs c = Some ch0 -> qz (zupd cs c ch) c = cq ch.
Proof. intro H. unfold qz. rewrite (znth_zupd_same _ _ _ _ H). reflexivity. Qed.

Lemma qz_zupd_other cs c ch c' : c <> c' -> qz (zupd cs c ch) c' = qz cs c'.
Proof. intro N. unfold qz. rewrite znth_zupd_other by exact N. reflexivity. Qed.

Lemma length_zupd {A} (l : list A) i x : length (zupd l i x) = length l.
Proof. unfold zupd. destruct (i <? 0); [reflexivity | apply length_upd]. Qed.

Lemma mq_some ss cs m c : relSC ss cs m -> 0 <= c < zlen cs -> exists q, znth (m_q m) c = Some q.
Proof.
  intros R H. apply znth_some. unfold zlen in *. rewrite (r_len _ _ _ R). exact H.
Qed.

(* (A) a new channel *)
Lemma rel_new_chan ss cs m cap :
  relSC ss cs m ->
  relSC ss (cs ++ [mkChan [] false cap]) (mkM (m_sels m) (m_dead m) (m_q m ++ [[]]) (m_closed m)).
Proof.
  intro R. constructor; simpl.
  - exact (r_sels _ _ _ R).
  - exact (r_dead _ _ _ R).
  - rewrite !app_length, (r_len _ _ _ R). reflexivity.
  - intros c P. unfold qget, qz. simpl.
    assert (zlen (m_q m) = zlen cs) as L by (unfold zlen; rewrite (r_len _ _ _ R); reflexivity).
    destruct (Z.lt_trichotomy c (zlen cs)) as [Lt|[->|Gt]].
    + rewrite !znth_app_lt by lia. exact (r_q _ _ _ R c P).
    + rewrite znth_app_new. rewrite <- L, znth_app_new. reflexivity.
    + rewrite !znth_none; [reflexivity | rewrite zlen_app; lia | rewrite zlen_app; lia].
  - intro c. rewrite (r_closed _ _ _ R c). split; intros [P (ch & H & C)]; split; auto.
    + exists ch. split; [apply znth_app_l; exact H | exact C].
    + apply znth_app_inv in H. destruct H as [H|[_ ->]]; [eauto | discriminate].
  - exact (r_pos _ _ _ R).
  - intros v I. apply (r_dirt _ _ _ R). unfold qz in *.
    destruct (znth cs 0) as [ch|] eqn:E.
    + rewrite (znth_app_l _ _ _ _ E) in I. exact I.
    + assert (zlen cs <= 0) as Z0.
      { destruct (Z_lt_le_dec 0 (zlen cs)) as [L|L]; [|exact L].
        destruct (znth_some cs 0) as [a Ha]; [lia | congruence]. }
      pose proof (znth_app_inv cs (mkChan [] false cap) 0) as X.
      destruct (znth (cs ++ [mkChan [] false cap]) 0) as [ch|] eqn:E2; [|exact I].
      destruct (X ch eq_refl) as [H|[_ ->]]; [congruence | exact I].
Qed.

(* (B) a new selector *)
Lemma rel_add_sel ss cs m c :
  relSC ss cs m -> 0 < c ->
  relSC (ss ++ [mkSel c true]) cs (mkM (m_sels m ++ [c]) (m_dead m) (m_q m) (m_closed m)).
Proof.
  intros R P. constructor; simpl.
  - rewrite map_app, (r_sels _ _ _ R). reflexivity.
  - intro k. rewrite (r_dead _ _ _ R k). split; intros (d & H & O).
    + exists d. split; [apply znth_app_l; exact H | exact O].
    + apply znth_app_inv in H. destruct H as [H|[_ ->]]; [eauto | discriminate].
  - exact (r_len _ _ _ R).
  - exact (r_q _ _ _ R).
  - exact (r_closed _ _ _ R).
  - intros k d H N. apply znth_app_inv in H. destruct H as [H|[_ ->]].
    + exact (r_pos _ _ _ R k d H N).
    + exact P.
  - exact (r_dirt _ _ _ R).
Qed.

(* (C) the queue of a user channel changes *)
Lemma rel_set_q ss cs m c ch ch' :
  relSC ss cs m -> znth cs c = Some ch -> 0 < c -> cclosed ch' = cclosed ch ->
  relSC ss (zupd cs c ch') (qset m c (cq ch')).
Proof.
  intros R H P C. pose proof (znth_range _ _ _ H) as Rg.
  destruct (mq_some _ _ _ c R ltac:(lia)) as [q0 Hq].
  constructor; simpl.
  - exact (r_sels _ _ _ R).
  - exact (r_dead _ _ _ R).
  - rewrite !length_zupd. exact (r_len _ _ _ R).
  - intros c' P'. destruct (Z.eq_dec c c') as [<-|N].
    + rewrite (qget_qset_same _ _ _ _ Hq), (qz_zupd_same _ _ _ _ H). reflexivity.
    + rewrite qget_qset_other, qz_zupd_other by exact N. exact (r_q _ _ _ R c' P').
  - intro c'. rewrite (r_closed _ _ _ R c'). destruct (Z.eq_dec c c') as [<-|N].
    + rewrite (znth_zupd_same _ _ _ _ H), H.
      split; intros [P' (x & E & Cx)]; (split; [exact P'|]); inv E; eexists; (split; [reflexivity | congruence]).
    + rewrite znth_zupd_other by exact N. tauto.
  - exact (r_pos _ _ _ R).
  - rewrite qz_zupd_other by lia. exact (r_dirt _ _ _ R).
Qed.

(* (D) the wake-up channel changes *)
Lemma rel_set_dirt ss cs m ch ch' :
  relSC ss cs m -> znth cs 0 = Some ch -> (forall v, In v (cq ch') -> v = 1) ->
  relSC ss (zupd cs 0 ch') m.
Proof.
  intros R H D. constructor; simpl.
  - exact (r_sels _ _ _ R).
  - exact (r_dead _ _ _ R).
  - rewrite length_zupd. exact (r_len _ _ _ R).
  - intros c P. rewrite qz_zupd_other by lia. exact (r_q _ _ _ R c P).
  - intro c. rewrite (r_closed _ _ _ R c). split; intros [P X]; split; auto.
    + rewrite znth_zupd_other by lia. exact X.
    + rewrite znth_zupd_other in X by lia. exact X.
  - exact (r_pos _ _ _ R).
  - rewrite (qz_zupd_same _ _ _ _ H). exact D.
Qed.

(* (E) close *)
Lemma rel_close ss cs m c ch :
  relSC ss cs m -> znth cs c = Some ch -> 0 < c ->
  relSC ss (zupd cs c (mkChan (cq ch) true (ccap ch)))
        (mkM (m_sels m) (m_dead m) (m_q m) (c :: m_closed m)).
Proof.
  intros R H P. constructor; cbn [m_sels m_dead m_q m_closed].
  - exact (r_sels _ _ _ R).
  - exact (r_dead _ _ _ R).
  - rewrite length_zupd. exact (r_len _ _ _ R).
  - intros c' P'. unfold qget. simpl. fold (qget m c'). rewrite (r_q _ _ _ R c' P').
    destruct (Z.eq_dec c c') as [<-|N].
    + rewrite (qz_zupd_same _ _ _ _ H). unfold qz. rewrite H. reflexivity.
    + rewrite qz_zupd_other by exact N. reflexivity.
  - intro c'. rewrite zmem_cons, orb_true_iff, (r_closed _ _ _ R c'). destruct (Z.eq_dec c c') as [<-|N].
    + rewrite (znth_zupd_same _ _ _ _ H). split.
      * intros _. split; [exact P|]. eexists. split; reflexivity.
      * intros _. left. apply Z.eqb_refl.
    + rewrite znth_zupd_other by exact N. split.
      * intros [E|X]; [apply Z.eqb_eq in E; congruence | exact X].
      * intro X. right. exact X.
  - exact (r_pos _ _ _ R).
  - rewrite qz_zupd_other by lia. exact (r_dirt _ _ _ R).
Qed.

(* (F) a selector is marked dead *)
Lemma rel_dead ss cs m k d :
  relSC ss cs m -> znth ss k = Some d ->
  relSC (zupd ss k (mkSel (schan d) false)) cs
        (mkM (m_sels m) (k :: m_dead m) (m_q m) (m_closed m)).
Proof.
  intros R H. constructor; cbn [m_sels m_dead m_q m_closed].
  - rewrite (r_sels _ _ _ R). clear R. unfold zupd, znth in *.
    destruct (Z.ltb_spec k 0) as [Lt|Ge]; [discriminate|]. revert H. generalize (Z.to_nat k). clear.
    induction ss as [|y r IH]; intros [|n] H; simpl in *; try discriminate; auto.
    + inv H. reflexivity.
    + f_equal. apply IH. exact H.
  - intro j. rewrite zmem_cons, orb_true_iff, (r_dead _ _ _ R j). destruct (Z.eq_dec k j) as [<-|N].
    + rewrite (znth_zupd_same _ _ _ _ H). split.
      * intros _. eexists. split; reflexivity.
      * intros _. left. apply Z.eqb_refl.
    + rewrite znth_zupd_other by exact N. split.
      * intros [E|X]; [apply Z.eqb_eq in E; congruence | exact X].
      * intro X. right. exact X.
  - exact (r_len _ _ _ R).
  - exact (r_q _ _ _ R).
  - exact (r_closed _ _ _ R).
  - intros j d' Hj Nj. destruct (Z.eq_dec k j) as [<-|N].
    + rewrite (znth_zupd_same _ _ _ _ H) in Hj. inv Hj. simpl. exact (r_pos _ _ _ R k d H Nj).
    + rewrite znth_zupd_other in Hj by exact N. exact (r_pos _ _ _ R j d' Hj Nj).
  - exact (r_dirt _ _ _ R).
Qed.

Lemma rel_same s s' m : wf s' -> sels s' = sels s -> chans s' = chans s -> rel s m -> rel s' m.
Proof. intros W S C [_ R]. split; [exact W|]. rewrite S, C. exact R. Qed.

Lemma user_chan_valid s m c : relSC (sels s) (chans s) m -> user_chan m c = valid_user_chan s c.
Proof. intro R. unfold user_chan, valid_user_chan, zlen. rewrite (r_len _ _ _ R). reflexivity. Qed.

Lemma not_closed_mem ss cs m c ch :
  relSC ss cs m -> znth cs c = Some ch -> cclosed ch = false -> zmem c (m_closed m) = false.
Proof.
  intros R H C. destruct (zmem c (m_closed m)) eqn:E; [|reflexivity].
  apply (r_closed _ _ _ R) in E. destruct E as [_ (x & Hx & Cx)]. congruence.
Qed.

Lemma open_not_dead ss cs m k d :
  relSC ss cs m -> znth ss k = Some d -> sopen d = true -> zmem k (m_dead m) = false.
Proof.
  intros R H O. destruct (zmem k (m_dead m)) eqn:E; [|reflexivity].
  apply (r_dead _ _ _ R) in E. destruct E as (x & Hx & Ox). congruence.
Qed.

Lemma seq_z_in n : forall i k, In k (seq_z i n) <-> i <= k < i + Z.of_nat n.
Proof.
  induction n as [|n IH]; intros i k; simpl.
  - lia.
  - rewrite IH. lia.
Qed.

Lemma drained_sound s m :
  rel s m -> existsb (chan_ready (try_make s)) (cases (try_make s)) = false -> drained m = true.
Proof.
  intros [W R] EX. unfold drained. apply forallb_forall. intros k I. apply seq_z_in in I.
  rewrite (r_sels _ _ _ R), map_length in I.
  destruct (znth_some (sels s) k) as [d Hd]; [unfold zlen; lia|].
  rewrite (r_sels _ _ _ R), znth_map, Hd. simpl.
  destruct (sopen d) eqn:O.
  - assert (0 < schan d) as P by (apply (r_pos _ _ _ R k d Hd); lia).
    destruct (try_make_facts s W) as (C & _ & _ & Cs & _).
    assert (chan_ready (try_make s) (schan d) = false) as NR.
    { destruct (chan_ready (try_make s) (schan d)) eqn:E; [|reflexivity].
      assert (existsb (chan_ready (try_make s)) (cases (try_make s)) = true) as X; [|congruence].
      apply existsb_exists. exists (schan d). split; [|exact E]. rewrite Cs.
      apply in_map_iff. exists (k, schan d). split; [reflexivity|]. apply open_from_0. eauto. }
    rewrite (chan_ready_chans s) in NR by exact C.
    pose proof (wf_sel_chan _ W k d Hd) as V. destruct (znth_some (chans s) (schan d) V) as [ch Hc].
    unfold chan_ready in NR. rewrite Hc in NR. apply orb_false_iff in NR. destruct NR as [N1 N2].
    rewrite (r_q _ _ _ R _ P). unfold qz. rewrite Hc.
    rewrite (not_closed_mem _ _ _ _ _ R Hc N2).
    destruct (cq ch); [|discriminate]. apply orb_true_r.
  - assert (zmem k (m_dead m) = true) as X by (apply (r_dead _ _ _ R); eauto). rewrite X. reflexivity.
Qed.

Lemma mon_step_sound s m o :
  rel s m -> (forall a b, o <> OStress a b) -> snd (step s o) <> EBadChoice ->
  exists m', mon_step m o (snd (step s o)) = Some m' /\ rel (fst (step s o)) m'.
Proof.
  intros RL NS NB. pose proof RL as [W R]. pose proof (wf_step s o W) as W'.
  destruct o as [cap| |c|c v|c|k|seed cfg].
  - (* ONewChan *)
    simpl in *. destruct ((1 <=? cap) && (cap <=? max_cap)); simpl in *.
    + eexists. split; [reflexivity|]. split; [exact W'|]. apply rel_new_chan. exact R.
    + exists m. auto.
  - (* ONewSche *)
    simpl in *. eexists. split; [reflexivity|]. split; [exact W'|]. apply rel_new_chan. exact R.
  - (* OAdd *)
    simpl in *. rewrite (user_chan_valid s m c R). destruct (valid_user_chan s c) eqn:V; simpl in *.
    + eexists. split; [reflexivity|]. split; [exact W'|].
      apply valid_user_chan_spec in V.
      pose proof (rel_add_sel _ _ _ c R ltac:(lia)) as R1.
      unfold add_selector in *. destruct (wf_dirt_chan _ W) as [q E]. rewrite E in *. simpl in *.
      destruct (zlen q <? dirt_cap); simpl in *; [|exact R1].
      apply (rel_set_dirt _ _ _ (mkChan q false dirt_cap)); [exact R1 | exact E|].
      simpl. intros x I. apply in_app_or in I. destruct I as [I|[<-|[]]]; [|reflexivity].
      apply (r_dirt _ _ _ R). unfold qz. rewrite E. exact I.
    + exists m. auto.
  - (* OSend *)
    simpl in *. rewrite (user_chan_valid s m c R). destruct (valid_user_chan s c) eqn:V; simpl in *;
      [|exists m; auto].
    apply valid_user_chan_spec in V.
    destruct (znth (chans s) c) as [ch|] eqn:H; simpl in *; [|exists m; auto].
    destruct (cclosed ch) eqn:C; simpl in *.
    + assert (zmem c (m_closed m) = true) as X by (apply (r_closed _ _ _ R); split; [lia | eauto]).
      rewrite X. exists m. auto.
    + destruct (ccap ch <=? zlen (cq ch)); simpl in *; [exists m; auto|].
      rewrite (not_closed_mem _ _ _ _ _ R H C). simpl.
      eexists. split; [reflexivity|]. split; [exact W'|]. simpl.
      rewrite (r_q _ _ _ R c ltac:(lia)). unfold qz. rewrite H.
      apply (rel_set_q _ _ _ c ch (mkChan (cq ch ++ [v]) false (ccap ch))); auto; lia.
  - (* OClose *)
    simpl in *. rewrite (user_chan_valid s m c R). destruct (valid_user_chan s c) eqn:V; simpl in *;
      [|exists m; auto].
    apply valid_user_chan_spec in V.
    destruct (znth (chans s) c) as [ch|] eqn:H; simpl in *; [|exists m; auto].
    destruct (cclosed ch) eqn:C; simpl in *.
    + assert (zmem c (m_closed m) = true) as X by (apply (r_closed _ _ _ R); split; [lia | eauto]).
      rewrite X. exists m. auto.
    + rewrite (not_closed_mem _ _ _ _ _ R H C). simpl.
      eexists. split; [reflexivity|]. split; [exact W'|]. simpl.
      apply rel_close; [exact R | exact H | lia].
  - (* OHandle *)
    change (step s (OHandle k)) with (handle s k) in *.
    destruct (handle_cases s k W) as [EX| |s2 c v ok CO IK RC]; simpl in *.
    + rewrite (drained_sound s m RL EX). exists m. auto.
    + congruence.
    + pose proof (try_make_sels s) as S1. pose proof (try_make_chans s) as C1.
      destruct (in_runnings_open s k W IK) as (c2 & IO & CO2). rewrite CO in CO2. inv CO2.
      apply open_from_0 in IO. destruct IO as (d & Hd & Od & Cd). subst c2.
      apply recv_facts in RC. destruct RC as [(-> & ch & r & H & Q & ->)|(-> & -> & -> & K)].
      * (* a value *)
        rewrite C1 in H. destruct (Z.eqb_spec k 0) as [->|NK].
        -- rewrite (wf_dirt_sel _ W) in Hd. inv Hd. simpl in *.
           assert (v = 1) as -> by (apply (r_dirt _ _ _ R); unfold qz; rewrite H, Q; left; reflexivity).
           simpl. exists m. split; [reflexivity|]. split; [exact W'|]. simpl. rewrite S1, C1.
           apply (rel_set_dirt _ _ _ ch); [exact R | exact H|]. simpl. intros x I.
           apply (r_dirt _ _ _ R). unfold qz. rewrite H, Q. right. exact I.
        -- assert (0 < schan d) as P by exact (r_pos _ _ _ R k d Hd NK).
           rewrite (r_sels _ _ _ R), znth_map, Hd. simpl.
           rewrite (r_q _ _ _ R _ P). unfold qz at 1. rewrite H, Q.
           rewrite !Z.eqb_refl, (open_not_dead _ _ _ _ _ R Hd Od). simpl.
           eexists. split; [reflexivity|]. split; [exact W'|]. simpl. rewrite S1, C1.
           apply (rel_set_q _ _ _ (schan d) ch (mkChan r (cclosed ch) (ccap ch))); auto.
      * (* closed and drained *)
        destruct K as (ch & H & Q & C). rewrite C1 in H.
        assert (k <> 0) as NK.
        { intros ->. rewrite (wf_dirt_sel _ W) in Hd. inv Hd. simpl in *.
          destruct (wf_dirt_chan _ W) as [q E]. rewrite E in H. inv H. discriminate. }
        assert (0 < schan d) as P by exact (r_pos _ _ _ R k d Hd NK).
        rewrite (r_sels _ _ _ R), znth_map, Hd. simpl.
        assert (zmem (schan d) (m_closed m) = true) as X by (apply (r_closed _ _ _ R); eauto).
        rewrite (r_q _ _ _ R _ P). unfold qz. rewrite H, Q, X, Z.eqb_refl.
        rewrite (open_not_dead _ _ _ _ _ R Hd Od).
        destruct (Z.eqb_spec k 0) as [E0|_]; [contradiction|]. simpl.
        eexists. split; [reflexivity|]. split; [exact W'|].
        unfold mark_dead. rewrite S1, Hd. simpl. rewrite C1, <- (r_sels _ _ _ R). apply rel_dead; assumption.
  - exfalso. eapply NS. reflexivity.
Qed.

Lemma znth_forallb2 s : forall cs rs,
  map (chan_of s) rs = map Some cs ->
  forallb2 (fun c k => match znth (map (fun d => (schan d, sopen d)) (sels s)) k with
                       | Some (c', _) => Z.eqb c c' | None => false end) cs rs = true.
Proof.
  induction cs as [|c cr IH]; intros [|k rr] E; simpl in *; try discriminate; [reflexivity|].
  injection E as E1 E2. rewrite (IH rr E2), andb_true_r.
  rewrite znth_map. unfold chan_of in E1. destruct (znth (sels s) k) as [d|]; [|discriminate].
  simpl in *. inv E1. apply Z.eqb_refl.
Qed.

Lemma snap_ok s m :
  rel s m ->
  snap_index_ok (snap_of s) = true /\ zlist_eqb (snap_sels (snap_of s)) (m_sels m) = true.
Proof.
  intros [W R]. split.
  - simpl. apply znth_forallb2. exact (wf_index _ W).
  - apply zlist_eqb_spec. simpl. rewrite map_map, (r_sels _ _ _ R). reflexivity.
Qed.

Lemma mon_from_sound ops : forall s m,
  rel s m -> (forall a b, ~ In (OStress a b) ops) ->
  ~ In EBadChoice (map snd (trace_from s ops)) ->
  mon_from m ops (snd (run_from s ops)) = true.
Proof.
  induction ops as [|o r IH]; intros s m RL NS NB; simpl; [reflexivity|].
  assert (forall a b, o <> OStress a b) as NS0.
  { intros a b E. apply (NS a b). left. exact E. }
  simpl in NB. destruct (step s o) as [s1 e] eqn:E. simpl in NB.
  assert (e <> EBadChoice) as NB0 by (intro X; apply NB; left; exact X).
  pose proof (mon_step_sound s m o RL NS0) as MS. rewrite E in MS. simpl in MS.
  destruct (MS NB0) as (m1 & M1 & R1).
  specialize (IH s1 m1 R1). destruct (run_from s1 r) as [s2 bs] eqn:RF.
  cbn [snd mon_from] in *. rewrite M1. destruct (snap_ok s1 m1 R1) as [A B]. rewrite A, B.
  cbn [andb]. apply IH.
  - intros a b I. apply (NS a b). right. exact I.
  - intro I. apply NB. right. exact I.
Qed.

Lemma rel_init : rel init m_init.
Proof.
  split; [exact wf_init|]. constructor; simpl.
  - reflexivity.
  - intro k. split; [discriminate|]. intros (d & H & O).
    pose proof (znth_range _ _ _ H) as Rg. unfold zlen in Rg. simpl in Rg.
    assert (k = 0) by lia. subst. inv H. discriminate.
  - reflexivity.
  - intros c P. unfold qget, qz. rewrite !znth_none; [reflexivity | unfold zlen; simpl; lia | unfold zlen; simpl; lia].
  - intro c. split; [discriminate|]. intros [P (ch & H & _)].
    pose proof (znth_range _ _ _ H) as Rg. unfold zlen in Rg. simpl in Rg. lia.
  - intros k d H N. pose proof (znth_range _ _ _ H) as Rg. unfold zlen in Rg. simpl in Rg. lia.
  - intros v [<-|[]]. reflexivity.
Qed.

Lemma monitor_sound ops :
  (forall a b, ~ In (OStress a b) ops) -> ~ In EBadChoice (events ops) ->
  monitor (ops, run ops) = true.
Proof.
  intros NS NB. unfold monitor, run. simpl. apply mon_from_sound; [exact rel_init | exact NS|].
  rewrite events_is in NB. exact NB.
Qed.

(* ------------------------------------------------------------------ many actors, one dispatcher *)
Lemma irun_app x l1 l2 : irun (irun x l1) l2 = irun x (l1 ++ l2).
Proof. unfold irun. rewrite fold_left_app. reflexivity. Qed.

Lemma ist_eta x : mkI (sh x) (pcs x) = x.
Proof. destruct x. reflexivity. Qed.

Lemma dcons_proj y i : exists l, di (dcons y i) = irun (di y) l.
Proof.
  unfold dcons. destruct (dexit y); [exists []; reflexivity|].
  exists [ACons 0 i]. cbn [irun fold_left].
  destruct (nth_error (pcs (di y)) 0) as [p0|]; [|reflexivity].
  destruct (nth_error (pcs (istep (di y) (ACons 0 i))) 0) as [p1|] eqn:E1; [|destruct p0; reflexivity].
  destruct p1 as [|lc1|k1 c1 v1 ok1|k1|].
  - destruct p0 as [|lc|k c v ok|k|]; try reflexivity. destruct ok; [|reflexivity].
    destruct (if c =? disp_chan then znth (boxes y) v else None); reflexivity.
  - destruct p0; reflexivity.
  - destruct p0 as [|lc|k c v ok|k|]; try reflexivity. destruct ok1; [|reflexivity].
    destruct (if c1 =? disp_chan then znth (boxes y) v1 else None); reflexivity.
  - destruct p0; reflexivity.
  - destruct p0; reflexivity.
Qed.

Lemma dstep_proj y a : exists l, di (dstep y a) = irun (di y) l.
Proof.
  destruct a as [a m|a|i|o|]; unfold dstep.
  - exists []. destruct (znth (boxes y) a); reflexivity.
  - destruct (znth (boxes y) a) as [b|]; [|exists []; reflexivity].
    destruct (bst b); try (exists []; reflexivity).
    destruct (plain_step (sh (di y)) (OSend disp_chan a)) as [s1 e] eqn:E.
    destruct e as [| | |[|]| | | | | | | |]; try (exists []; reflexivity).
    exists [AProd (OSend disp_chan a)]. cbn [di with_di with_boxes irun fold_left istep pstep]. rewrite E. reflexivity.
  - apply dcons_proj.
  - assert (exists l, istep (di y) (AProd o) = irun (di y) l) as G by (exists [AProd o]; reflexivity).
    destruct o as [cap| |c|c v|c|k|seed cfg]; cbn [di with_di]; try exact G.
    + destruct (c =? disp_chan); [exists []; reflexivity|].
      destruct (dstopped y && (c =? timer_chan)); [exists []; reflexivity | exact G].
    + destruct (c =? disp_chan); [exists []; reflexivity | exact G].
  - destruct (dstopped y); [exists []; reflexivity|]. eexists. reflexivity.
Qed.

Lemma drun_proj acts : forall y, exists l, di (drun y acts) = irun (di y) l.
Proof.
  induction acts as [|a r IH]; intro y; simpl.
  - exists []. reflexivity.
  - destruct (IH (dstep y a)) as [l2 E2]. destruct (dstep_proj y a) as [l1 E1].
    exists (l1 ++ l2). unfold drun in *. rewrite E2, E1. apply irun_app.
Qed.

Lemma dinit_reach n : di (dinit n) = irun (init_i 1) (map AProd service_ops).
Proof. vm_compute. reflexivity. Qed.

Lemma dispatcher_one_at_a_time n acts :
  let x := di (drun (dinit n) acts) in
  (running x <= 1)%nat /\
  (forall j k c v ok, nth_error (pcs x) j = Some (PRun k c v ok) ->
      j = 0%nat /\ chan_of (sh x) k = Some c) /\
  ~ In PPanic (pcs x).
Proof.
  destruct (drun_proj acts (dinit n)) as [l E]. rewrite dinit_reach, irun_app in E.
  intro x. unfold x. rewrite E. apply one_at_a_time.
Qed.

Lemma blocked_schedule_is_noop y a :
  snd (plain_step (sh (di y)) (OSend disp_chan a)) = EFull -> dstep y (DSched a) = y.
Proof.
  intro H. unfold dstep. destruct (znth (boxes y) a) as [b|]; [|reflexivity].
  destruct (bst b); try reflexivity.
  destruct (plain_step (sh (di y)) (OSend disp_chan a)) as [s1 e]. simpl in H. subst e. reflexivity.
Qed.

(* ---- teardown ---- *)
Lemma istep_pcs_length x a : length (pcs (istep x a)) = length (pcs x).
Proof.
  destruct a as [o|j i]; simpl; [reflexivity|].
  destruct (nth_error (pcs x) j) as [p|]; [|reflexivity].
  destruct (cstep (sh x) p i) as [[s1 p1]|]; [|reflexivity]. simpl. apply length_upd.
Qed.

Lemma irun_prods_pcs x l : pcs (irun x (map AProd l)) = pcs x.
Proof. apply producers_never_run. Qed.

(* every action other than a consumer step leaves the consumer where it is *)
Lemma dstep_pcs y a : (forall i, a <> DCons i) -> pcs (di (dstep y a)) = pcs (di y).
Proof.
  intro N. destruct a as [a m|a|i|o|]; unfold dstep.
  - destruct (znth (boxes y) a); reflexivity.
  - destruct (znth (boxes y) a) as [b|]; [|reflexivity]. destruct (bst b); try reflexivity.
    destruct (plain_step (sh (di y)) (OSend disp_chan a)) as [s1 e].
    destruct e as [| | |[|]| | | | | | | |]; reflexivity.
  - exfalso. exact (N i eq_refl).
  - destruct o as [cap| |c|c v|c|k|seed cfg]; try reflexivity.
    + destruct (c =? disp_chan); [reflexivity|].
      destruct (dstopped y && (c =? timer_chan)); reflexivity.
    + destruct (c =? disp_chan); reflexivity.
  - destruct (dstopped y); reflexivity.
Qed.

Definition exit_inv (y : dst) : Prop :=
  length (pcs (di y)) = 1%nat /\ (dexit y = true -> pcs (di y) = [PTop]).

Lemma dexit_other y a : (forall i, a <> DCons i) -> dexit (dstep y a) = dexit y.
Proof.
  intro N. destruct a as [a m|a|i|o|]; unfold dstep.
  - destruct (znth (boxes y) a); reflexivity.
  - destruct (znth (boxes y) a) as [b|]; [|reflexivity]. destruct (bst b); try reflexivity.
    destruct (plain_step (sh (di y)) (OSend disp_chan a)) as [s1 e].
    destruct e as [| | |[|]| | | | | | | |]; reflexivity.
  - exfalso. exact (N i eq_refl).
  - destruct o as [cap| |c|c v|c|k|seed cfg]; try reflexivity.
    + destruct (c =? disp_chan); [reflexivity|].
      destruct (dstopped y && (c =? timer_chan)); reflexivity.
    + destruct (c =? disp_chan); reflexivity.
  - destruct (dstopped y); reflexivity.
Qed.

Lemma dcons_exit_inv y i : exit_inv y -> exit_inv (dcons y i).
Proof.
  intros [L E]. unfold dcons. destruct (dexit y) eqn:X; [split; auto|].
  assert (length (pcs (istep (di y) (ACons 0 i))) = 1%nat) as L1 by (rewrite istep_pcs_length; exact L).
  destruct (nth_error (pcs (di y)) 0) as [p0|] eqn:E0.
  2:{ split; simpl; [exact L1 | congruence]. }
  destruct (nth_error (pcs (istep (di y) (ACons 0 i))) 0) as [p1|] eqn:E1.
  2:{ destruct p0; (split; simpl; [exact L1 | congruence]). }
  assert (p1 = PTop -> pcs (istep (di y) (ACons 0 i)) = [PTop]) as T.
  { intros ->. destruct (pcs (istep (di y) (ACons 0 i))) as [|q [|q2 r]]; simpl in *; try discriminate.
    inv E1. reflexivity. }
  destruct p1 as [|lc1|k1 c1 v1 ok1|k1|].
  - (* back at the top *)
    destruct p0 as [|lc|k c v ok|k|]; cbn [di dexit with_di with_boxes];
      try (split; [exact L1 | intros _; exact (T eq_refl)]).
    destruct ok; [|split; [exact L1 | intros _; exact (T eq_refl)]].
    destruct (if c =? disp_chan then znth (boxes y) v else None); cbn [di dexit with_di];
      (split; [exact L1 | intros _; exact (T eq_refl)]).
  - destruct p0; (split; simpl; [exact L1 | congruence]).
  - destruct p0 as [|lc|k c v ok|k|]; try (split; simpl; [exact L1 | congruence]).
    destruct ok1; [|split; simpl; [exact L1 | congruence]].
    destruct (if c1 =? disp_chan then znth (boxes y) v1 else None); (split; simpl; [exact L1 | congruence]).
  - destruct p0; (split; simpl; [exact L1 | congruence]).
  - destruct p0; (split; simpl; [exact L1 | congruence]).
Qed.

Lemma dstep_exit_inv y a : exit_inv y -> exit_inv (dstep y a).
Proof.
  intro I. destruct a as [a m|a|i|o|]; try apply (dcons_exit_inv y i I);
    (destruct I as [L E]; split;
     [rewrite dstep_pcs by discriminate; exact L
     | rewrite dexit_other by discriminate; rewrite dstep_pcs by discriminate; exact E]).
Qed.

Lemma drun_exit_inv acts : forall y, exit_inv y -> exit_inv (drun y acts).
Proof.
  induction acts as [|a r IH]; intros y I; simpl; [exact I|]. apply IH. apply dstep_exit_inv. exact I.
Qed.

Lemma dinit_exit_inv n : exit_inv (dinit n).
Proof. split; simpl; [reflexivity | discriminate]. Qed.

Lemma dexit_sticky acts : forall y, dexit y = true -> dexit (drun y acts) = true /\ pcs (di (drun y acts)) = pcs (di y).
Proof.
  induction acts as [|a r IH]; intros y X; simpl; [auto|].
  assert (dexit (dstep y a) = true /\ pcs (di (dstep y a)) = pcs (di y)) as [X1 P1].
  { destruct a as [a m|a|i|o|]; try (split; [rewrite dexit_other by discriminate; exact X
                                              | apply dstep_pcs; discriminate]).
    unfold dstep, dcons. rewrite X. auto. }
  destruct (IH _ X1) as [X2 P2]. split; [exact X2 | congruence].
Qed.

Lemma dlog_after_exit more : forall y, dexit y = true -> dlog (drun y more) = dlog y.
Proof.
  induction more as [|a r IH]; intros y X; simpl; [reflexivity|].
    assert (dexit (dstep y a) = true /\ dlog (dstep y a) = dlog y) as [X1 L1].
    { destruct a as [a m|a|i|o|]; unfold dstep.
      - destruct (znth (boxes y) a); auto.
      - destruct (znth (boxes y) a) as [b|]; auto. destruct (bst b); auto.
        destruct (plain_step (sh (di y)) (OSend disp_chan a)) as [s1 e].
        destruct e as [| | |[|]| | | | | | | |]; auto.
      - unfold dcons. rewrite X. auto.
      - destruct o as [cap| |c|c v|c|k|seed cfg]; auto.
        + destruct (c =? disp_chan); auto. destruct (dstopped y && (c =? timer_chan)); auto.
        + destruct (c =? disp_chan); auto.
      - destruct (dstopped y); auto. }
    rewrite (IH _ X1). exact L1.
Qed.

(* once the loop has ended nothing of the service runs any more, whatever is produced *)
Lemma after_exit n acts more :
  let y := drun (dinit n) acts in
  dexit y = true ->
  let z := drun y more in
  dexit z = true /\ pcs (di z) = [PTop] /\ running (di z) = 0%nat /\ dlog z = dlog y.
Proof.
  intros y X z. destruct (drun_exit_inv acts _ (dinit_exit_inv n)) as [_ E]. fold y in E.
  destruct (dexit_sticky more y X) as [X2 P2]. fold z in X2, P2.
  assert (pcs (di z) = [PTop]) as PZ by (rewrite P2; apply E; exact X).
  repeat split; auto.
  - unfold running. rewrite PZ. reflexivity.
  - apply dlog_after_exit. exact X.
Qed.

(* a send on a closed channel (Post after Sche.Stop) is dropped: nothing changes *)
Lemma closed_send_dropped s c v : snd (step s (OSend c v)) = ESent false -> fst (step s (OSend c v)) = s.
Proof.
  simpl. destruct (valid_user_chan s c); [|discriminate].
  destruct (znth (chans s) c) as [ch|]; [|discriminate].
  destruct (cclosed ch); [reflexivity|]. destruct (ccap ch <=? zlen (cq ch)); discriminate.
Qed.
