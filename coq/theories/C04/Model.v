(* C04 - model of utils/sche.MultiSelector (the select loop every service runs on), of the
   channels it drains, of the consumer process of runservice.RunService.loop, and the
   funnel table of a service.  No proofs in this file.

   Go -> model (utils/sche/selector.go, with hooks/C04-fix-addselector-nonblocking-wakeup):
     MultiSelector.selectors []*SelectorData   sels : list seld; a *SelectorData is its
                                               position (the slice is append-only)
     SelectorData.selector.GetChannel()        schan : channel id (position in chans)
     SelectorData.open                         sopen
     MultiSelector.dirty                       dirty
     MultiSelector.cases []reflect.SelectCase  cases : list Z      channel id per case
     MultiSelector.runnings []*SelectorData    runnings : list Z   selector id per case
     MultiSelector.chanDirt (cap 10)           channel 0, selector 0 ("__dirt__")
     a Go channel                              chan: FIFO of values, closed flag, capacity
   reflect.Select picks SOME ready case: the choice is an input ([OHandle k]: the case of
   selector k was chosen; the harness fills k in from what it observed).
   Go panics / blocking are values: a send on a closed channel does not enqueue
   ([ESent false]), a send on a full channel or a Select with nothing ready would block
   ([EFull]/[EIdle]: the sequential driver does not perform the call). *)
From Cell2V Require Import Common.Tac Common.ListX.

(* ---- lists addressed by Z positions ---- *)
Definition zlen {A} (l : list A) : Z := Z.of_nat (length l).
Definition znth {A} (l : list A) (i : Z) : option A :=
  if i <? 0 then None else nth_error l (Z.to_nat i).
Fixpoint upd {A} (l : list A) (n : nat) (x : A) : list A :=
  match l, n with
  | [], _ => []
  | _ :: r, O => x :: r
  | y :: r, S m => y :: upd r m x
  end.
Definition zupd {A} (l : list A) (i : Z) (x : A) : list A :=
  if i <? 0 then l else upd l (Z.to_nat i) x.

(* ---- state ---- *)
Record chan := mkChan { cq : list Z; cclosed : bool; ccap : Z }.
Record seld := mkSel { schan : Z; sopen : bool }.
Record st := mkSt {
  chans : list chan;
  sels : list seld;
  dirty : bool;
  cases : list Z;
  runnings : list Z
}.

Definition dirt_cap : Z := 10.
Definition max_cap : Z := 999.

(* NewMultiSelector(): AddSelector("__dirt__", chanDirt) already ran once *)
Definition init : st :=
  mkSt [mkChan [1] false dirt_cap] [mkSel 0 true] true [] [].

Definition set_chans (s : st) (cs : list chan) : st :=
  mkSt cs (sels s) (dirty s) (cases s) (runnings s).
Definition set_chan (s : st) (c : Z) (ch : chan) : st := set_chans s (zupd (chans s) c ch).

Definition queue (s : st) (c : Z) : list Z :=
  match znth (chans s) c with Some ch => cq ch | None => [] end.
Definition chan_of (s : st) (k : Z) : option Z := option_map schan (znth (sels s) k).

(* ---- makeCases / tryMakeCases (under the mutex) ---- *)
Fixpoint open_from (i : Z) (l : list seld) : list (Z * Z) :=   (* (selector id, channel id) *)
  match l with
  | [] => []
  | d :: r => if sopen d then (i, schan d) :: open_from (i + 1) r else open_from (i + 1) r
  end.

Definition make_cases (s : st) : st :=
  let l := open_from 0 (sels s) in
  mkSt (chans s) (sels s) (dirty s) (map snd l) (map fst l).

Definition try_make (s : st) : st :=
  if dirty s then
    let s1 := make_cases s in mkSt (chans s1) (sels s1) false (cases s1) (runnings s1)
  else s.

(* handleDeadChan (under the mutex) *)
Definition mark_dead (s : st) (k : Z) : st :=
  match znth (sels s) k with
  | Some d => mkSt (chans s) (zupd (sels s) k (mkSel (schan d) false)) true (cases s) (runnings s)
  | None => s
  end.

(* ---- channels ---- *)
Definition is_nil {A} (l : list A) : bool := match l with [] => true | _ => false end.

Definition chan_ready (s : st) (c : Z) : bool :=
  match znth (chans s) c with
  | Some ch => negb (is_nil (cq ch)) || cclosed ch
  | None => false
  end.

(* receive on a ready channel: buffered values first, then (zero, false) once closed *)
Definition recv (s : st) (c : Z) : option (st * Z * bool) :=
  match znth (chans s) c with
  | Some ch =>
      match cq ch with
      | v :: r => Some (set_chan s c (mkChan r (cclosed ch) (ccap ch)), v, true)
      | [] => if cclosed ch then Some (s, 0, false) else None
      end
  | None => None
  end.

Fixpoint index_of (k : Z) (l : list Z) : option nat :=
  match l with
  | [] => None
  | x :: r => if Z.eqb k x then Some O else option_map S (index_of k r)
  end.

(* ---- operations of the sequential machine ---- *)
Inductive op :=
| ONewChan (cap : Z)            (* make(chan T, cap), 1 <= cap <= 999 *)
| ONewSche                      (* sche.NewSche(): its chanTask, capacity 999 *)
| OAdd (c : Z)                  (* AddSelector(name, NewFuncSelector(chan c, handler)) *)
| OSend (c v : Z)               (* producer: chan c <- v   /  Sche.Post(closure v) *)
| OClose (c : Z)                (* close(chan c)           /  Sche.Stop() *)
| OHandle (k : Z)               (* HandleOnce(); reflect.Select chose the case of selector k *)
| OStress (seed : Z) (cfg : list Z).   (* measurement on a running service, see below *)

Inductive ev :=
| EUnit
| EBad                          (* the operation names something that does not exist: not performed *)
| EFull                         (* the send would block: not performed *)
| ESent (enqueued : bool)       (* false: send on a closed channel (Go panics) *)
| EClosed (first : bool)        (* false: already closed (Go panics), not performed twice *)
| ERan (k c v : Z) (ok : bool)  (* handler of selector k ran with value v received from channel c / recvOk *)
| EIdle                         (* no case ready: HandleOnce would block, not called *)
| ESleep                        (* len(cases) == 0 branch *)
| EBadChoice                    (* the named choice is not a ready case *)
| EStuck                        (* a call did not return (watchdog) - never produced by the model *)
| EPanic                        (* a call panicked (e.g. runnings[chosen] out of range) - never produced by the model *)
| EStress (off : list Z) (one : bool) (produced executed : list Z).
    (* off: per work kind (+ one slot for everything else) 1 if some entry ran off the loop goroutine *)

Definition valid_user_chan (s : st) (c : Z) : bool := (0 <? c) && (c <? zlen (chans s)).

Definition add_selector (s : st) (c : Z) : st :=
  let s1 := mkSt (chans s) (sels s ++ [mkSel c true]) true (cases s) (runnings s) in
  match znth (chans s) 0 with
  | Some d =>
      (* select { case chanDirt <- 1: default: } *)
      if zlen (cq d) <? ccap d then set_chan s1 0 (mkChan (cq d ++ [1]) (cclosed d) (ccap d)) else s1
  | None => s1
  end.

Definition handle (s : st) (k : Z) : st * ev :=
  let s1 := try_make s in
  match cases s1 with
  | [] => (s1, ESleep)
  | _ :: _ =>
      if negb (existsb (chan_ready s1) (cases s1)) then (s, EIdle)
      else
        match index_of k (runnings s1) with
        | None => (s, EBadChoice)
        | Some i =>
            match nth_error (cases s1) i with
            | None => (s, EBadChoice)
            | Some c =>
                match recv s1 c with
                | None => (s, EBadChoice)
                | Some (s2, v, ok) =>
                    ((if ok then s2 else mark_dead s2 k), ERan k c v ok)
                end
            end
        end
  end.

(* ---- the funnel table of a service ---- *)
Inductive kind :=
| KRequest | KNotify | KResponse | KTimeout | KTimer | KPost
| KLocalEvent | KGlobalEvent | KSessAdd | KSessRemove | KSessMsg.

Inductive funnel :=
| FDisp      (* scheDisp.chanTask: protoactor mailbox runs (requests, notifications, responses) *)
| FSche      (* Sche.chanTask: Post-ed closures, SessionsImpl create/close/message *)
| FTimer     (* timer.Mgr.queue: expired timer objects (user timers, the request-expiry scan) *)
| FEvent.    (* LocalEventCenter.chanEvent: local (useChan) and global events *)

Definition funnel_of (k : kind) : funnel :=
  match k with
  | KRequest | KNotify | KResponse => FDisp
  | KTimeout | KTimer => FTimer
  | KPost | KSessAdd | KSessRemove | KSessMsg => FSche
  | KLocalEvent | KGlobalEvent => FEvent
  end.

(* NewServicePropsWithNewScheDisp: disp.Start() = addFunSelector, then
   StandardRunService.Start() = scheduler, close, (go loop), timer, event *)
Definition service_ops : list op :=
  [ONewChan 9; OAdd 1;        (* "scheDisp"  chanTask, capacity 9 *)
   ONewSche; OAdd 2;          (* "sheduler"  Sche.chanTask *)
   ONewChan 1; OAdd 3;        (* "__close__" *)
   ONewChan 999; OAdd 4;      (* "timer"     Mgr.queue *)
   ONewChan 999; OAdd 5].     (* "event"     chanEvent *)

Definition funnel_chan (f : funnel) : Z :=
  match f with FDisp => 1 | FSche => 2 | FTimer => 4 | FEvent => 5 end.

Definition all_kinds : list kind :=
  [KRequest; KNotify; KResponse; KTimeout; KTimer; KPost;
   KLocalEvent; KGlobalEvent; KSessAdd; KSessRemove; KSessMsg].

Definition kind_code (k : kind) : Z :=
  match k with
  | KRequest => 0 | KNotify => 1 | KResponse => 2 | KTimeout => 3 | KTimer => 4 | KPost => 5
  | KLocalEvent => 6 | KGlobalEvent => 7 | KSessAdd => 8 | KSessRemove => 9 | KSessMsg => 10
  end.

Definition submit (k : kind) : op := OSend (funnel_chan (funnel_of k)) (kind_code k).

(* what a stress configuration produces, per kind (same order as all_kinds):
   cfg = [peers; reqPerPeer; notifyPerPeer; responses; timeouts; timerProducers; perTimerProducer;
          posters; perPoster; publishers; localPerPublisher; globalPerPublisher; conns; msgsPerConn;
          mode;                       0 plain | 1 the service actor is crashed and restarted first
                                      | 2 the same props is spawned twice (two actors, one run service)
          ovLocal; ovGlobal; ovPost; ovTimer; ovSessMsg; ovRequest;
          edgeRounds;                 (see below)
          siblings; direct; teardown] (direct, teardown: see direct_mode below)
   siblings:                          that many MORE actors are spawned from the same props (they share
                                      dispatcher and run service; see "many actors on one dispatcher");
                                      the counts do not depend on it
   edgeRounds:                        rounds of boundary work: timers that are already due (delay 0,
                                      negative), 1ns, repeating; work produced from INSIDE a posted
                                      closure / timer callback / listener / request handler of the
                                      service itself.  Per round: 1 request, 18 timer callbacks,
                                      5 posted closures, 5 local events, 1 global event.
   A timer's delay does not appear in the model: whatever it is, the expired timer object
   is enqueued on FTimer; work produced from inside a handler is an ordinary producer action
   taken while the consumer is at PRun (C04_producers_never_run_handlers,
   C04_handler_runs_to_completion).
   The ov* entries are an OVERFLOW phase that comes first: the service is held inside a handler
   while foreign goroutines produce that many items of the kind - more than the queue holds
   (event queue, scheduler queue, timer queue: 999).  Producers block on a full queue, except
   GlobalEventCenter.Publish, which drops (the property allows that); local and global events
   share one queue, so only one of them overflows in a case (ovLocal wins). *)
Definition cfgn (cfg : list Z) (i : nat) : Z := Z.max 0 (nth i cfg 0).
(* cfg 23: the service's event centre is in DIRECT mode (SetLocalUseChan(false)): a local
   Publish is then a synchronous call of the listeners by the publishing piece itself, not a
   piece of work of its own, and only the service may publish locally - the measurement
   produces no local events then; global events still have to arrive through the channel.
   cfg 24: a TEARDOWN phase ends the case (1: the service stops its run service from inside a
   handler and keeps working, 2: a foreign goroutine stops it): three more sessions are added
   before; what is produced after the stop may be dropped and is not counted. *)
(* cfg 25: rounds in which a SECOND instrumented service arms 16 timers of its own while 8
   expired timers of the first one are cancelled in its queue; the counts are the sum over both
   services, a callback on the other service's loop goroutine is off-loop.  (Session messages
   are sent with all four client message types; that changes no count.) *)
Definition direct_mode (cfg : list Z) : bool := 0 <? cfgn cfg 23.
Definition ov_local (cfg : list Z) : Z := if direct_mode cfg then 0 else cfgn cfg 15.
Definition ov_global (cfg : list Z) : Z :=
  if 0 <? ov_local cfg then 0 else cfgn cfg 16.
Definition ov_sess (cfg : list Z) : Z := if 0 <? cfgn cfg 19 then 1 else 0.
Definition td_sess (cfg : list Z) : Z := if 0 <? cfgn cfg 24 then 3 else 0.

Definition base_counts (cfg : list Z) : list Z :=
  let n := cfgn cfg in
  let e := n 21%nat in
  let d := direct_mode cfg in
  [n 0%nat * n 1%nat + e; n 0%nat * n 2%nat; n 3%nat; n 4%nat;
   n 5%nat * n 6%nat + (if d then 16 else 18) * e + 16 * n 25%nat;
   n 7%nat * n 8%nat + n 3%nat + n 4%nat + (if d then 4 else 5) * e;
   (if d then 0 else n 9%nat * n 10%nat + 5 * e); n 9%nat * n 11%nat + e;
   n 12%nat + td_sess cfg; n 12%nat; n 12%nat * n 13%nat].

Definition ov_counts (cfg : list Z) : list Z :=
  let n := cfgn cfg in
  [n 20%nat; 0; 0; 0; n 18%nat; n 17%nat; ov_local cfg; ov_global cfg; ov_sess cfg; ov_sess cfg; n 19%nat].

Fixpoint zip_add (a b : list Z) : list Z :=
  match a, b with
  | x :: ar, y :: br => (x + y) :: zip_add ar br
  | _, _ => []
  end.

(* calls made by the producers *)
Definition produced (cfg : list Z) : list Z := zip_add (base_counts cfg) (ov_counts cfg).

(* ---- step / run ---- *)
(* selectors whose case is ready in the current cases *)
Definition ready_ks (s : st) : list Z :=
  filter (fun k => match chan_of s k with Some c => chan_ready s c | None => false end)
         (runnings s).

Definition first_ready (s : st) : Z :=
  match ready_ks (try_make s) with
  | k :: _ => k
  | [] => -1
  end.

Definition plain_step (s : st) (o : op) : st * ev :=
  match o with
  | ONewChan cap =>
      if (1 <=? cap) && (cap <=? max_cap)
      then (set_chans s (chans s ++ [mkChan [] false cap]), EUnit) else (s, EBad)
  | ONewSche => (set_chans s (chans s ++ [mkChan [] false max_cap]), EUnit)
  | OAdd c => if valid_user_chan s c then (add_selector s c, EUnit) else (s, EBad)
  | OSend c v =>
      if valid_user_chan s c then
        match znth (chans s) c with
        | Some ch =>
            if cclosed ch then (s, ESent false)
            else if ccap ch <=? zlen (cq ch) then (s, EFull)
            else (set_chan s c (mkChan (cq ch ++ [v]) false (ccap ch)), ESent true)
        | None => (s, EBad)
        end
      else (s, EBad)
  | OClose c =>
      if valid_user_chan s c then
        match znth (chans s) c with
        | Some ch =>
            if cclosed ch then (s, EClosed false)
            else (set_chan s c (mkChan (cq ch) true (ccap ch)), EClosed true)
        | None => (s, EBad)
        end
      else (s, EBad)
  | OHandle k => handle s k
  | OStress _ _ => (s, EUnit)
  end.

Fixpoint plain_from (s : st) (ops : list op) : st * list ev :=
  match ops with
  | [] => (s, [])
  | o :: r =>
      let '(s1, e) := plain_step s o in
      let '(s2, es) := plain_from s1 r in
      (s2, e :: es)
  end.

(* the service machine of a stress case: build the service, drain the wake-up tokens;
   overflow phase: the consumer does not run while the items are submitted - a submission
   that finds its funnel full is a blocked producer (a dropped event for KGlobalEvent);
   after the release the consumer runs, and every time it has taken a value from a channel
   one producer blocked on that channel gets through;
   then every remaining item is submitted on its funnel and the consumer runs once *)
Fixpoint drain_first (n : nat) (s : st) : st :=
  match n with
  | O => s
  | S m => drain_first m (fst (handle s (first_ready s)))
  end.

Definition is_global (k : kind) : bool := match k with KGlobalEvent => true | _ => false end.

Fixpoint held_submit (s : st) (items blocked : list kind) : st * list kind :=
  match items with
  | [] => (s, rev blocked)
  | k :: r =>
      let '(s1, e) := plain_step s (submit k) in
      match e with
      | EFull => held_submit s r (if is_global k then blocked else k :: blocked)
      | _ => held_submit s1 r blocked
      end
  end.

(* the first producer blocked on channel c gets through *)
Fixpoint unblock (s : st) (c : Z) (blocked : list kind) : st * list kind :=
  match blocked with
  | [] => (s, [])
  | k :: r =>
      if Z.eqb (funnel_chan (funnel_of k)) c
      then (fst (plain_step s (submit k)), r)
      else let '(s1, b) := unblock s c r in (s1, k :: b)
  end.

Fixpoint release (fuel : nat) (s : st) (blocked : list kind) : list Z * st :=
  match fuel with
  | O => ([], s)
  | S f =>
      let '(s1, e) := handle s (first_ready s) in
      match e with
      | ERan _ c v true =>
          let '(s2, b) := unblock s1 c blocked in
          let '(l, s3) := release f s2 b in
          ((if Z.eqb c 0 then l else v :: l), s3)
      | _ => ([], s1)
      end
  end.

Fixpoint feed (s : st) (items : list kind) : list Z :=   (* the values handled, in order *)
  match items with
  | [] => []
  | k :: r =>
      let s1 := fst (plain_step s (submit k)) in
      let '(s2, e) := handle s1 (first_ready s1) in
      match e with
      | ERan _ _ v true => v :: feed s2 r
      | _ => feed s2 r
      end
  end.

Fixpoint items_of (ks : list kind) (ns : list Z) : list kind :=
  match ks, ns with
  | k :: kr, n :: nr => repeat k (Z.to_nat n) ++ items_of kr nr
  | _, _ => []
  end.

Definition zcountZ (x : Z) (l : list Z) : Z := Z.of_nat (zcount x l).

Definition stress_executed (cfg : list Z) : list Z :=
  let s0 := drain_first 12 (fst (plain_from init service_ops)) in
  let ov := items_of all_kinds (ov_counts cfg) in
  let '(s1, blocked) := held_submit s0 ov [] in
  let '(done1, s2) := release (S (length ov)) s1 blocked in
  let done2 := feed s2 (items_of all_kinds (base_counts cfg)) in
  map (fun k => zcountZ (kind_code k) (done1 ++ done2)) all_kinds.

(* the same numbers in closed form: everything produced, minus the global events dropped
   on the full queue *)
Definition expected (cfg : list Z) : list Z :=
  zip_add (base_counts cfg)
          (map (fun kn => if is_global (fst kn) then Z.min (snd kn) max_cap else snd kn)
               (combine all_kinds (ov_counts cfg))).

Arguments stress_executed : simpl never.
Arguments produced : simpl never.
Arguments expected : simpl never.

Definition step (s : st) (o : op) : st * ev :=
  match o with
  | OStress _ cfg => (s, EStress (repeat 0 12) true (produced cfg) (stress_executed cfg))
  | _ => plain_step s o
  end.

(* ---- observations ---- *)
Inductive snap :=
| Snap (dirty : bool) (sels : list (Z * bool)) (cases runnings lens : list Z).
Inductive obs := Ob (e : ev) (sn : snap).

Definition snap_of (s : st) : snap :=
  Snap (dirty s) (map (fun d => (schan d, sopen d)) (sels s)) (cases s) (runnings s)
       (map (fun ch => zlen (cq ch)) (chans s)).

Fixpoint run_from (s : st) (ops : list op) : st * list obs :=
  match ops with
  | [] => (s, [])
  | o :: r =>
      let '(s1, e) := step s o in
      let '(s2, bs) := run_from s1 r in
      (s2, Ob e (snap_of s1) :: bs)
  end.

Definition run (ops : list op) : list obs := snd (run_from init ops).
Definition final (ops : list op) : st := fst (run_from init ops).
Definition ob_ev (b : obs) : ev := match b with Ob e _ => e end.
Definition events (ops : list op) : list ev := map ob_ev (run ops).

(* ---- the interleaving model: producers and consumer processes ---- *)
Inductive pc :=
| PTop                              (* top of HandleOnce, before tryMakeCases *)
| PSel (lc : list Z)                (* `cases := s.cases` taken; inside reflect.Select *)
| PRun (k c v : Z) (ok : bool)      (* data.selector.DoTask running *)
| PDead (k : Z)                     (* DoTask returned with !recvOk; before handleDeadChan *)
| PPanic.                           (* s.runnings[chosen]: index out of range *)

Record ist := mkI { sh : st; pcs : list pc }.

Inductive act :=
| AProd (o : op)                    (* one atomic producer action (channel operation / mutex section) *)
| ACons (j : nat) (i : nat).        (* consumer process j takes its next atomic step; at PSel, case i is chosen *)

Definition cstep (s : st) (p : pc) (i : nat) : option (st * pc) :=
  match p with
  | PTop =>
      let s1 := try_make s in
      match cases s1 with
      | [] => Some (s1, PTop)
      | _ :: _ => Some (s1, PSel (cases s1))
      end
  | PSel lc =>
      match nth_error lc i with
      | None => None
      | Some c =>
          match recv s c with
          | None => None                       (* that case is not ready *)
          | Some (s2, v, ok) =>
              match nth_error (runnings s2) i with   (* getSelectorByIndex(chosen) *)
              | None => Some (s2, PPanic)
              | Some k => Some (s2, PRun k c v ok)
              end
          end
      end
  | PRun k c v ok => Some (s, if ok then PTop else PDead k)
  | PDead k => Some (mark_dead s k, PTop)
  | PPanic => None
  end.

Definition pstep (s : st) (o : op) : st :=
  match o with
  | OHandle _ | OStress _ _ => s
  | _ => fst (plain_step s o)
  end.

Definition istep (x : ist) (a : act) : ist :=
  match a with
  | AProd o => mkI (pstep (sh x) o) (pcs x)
  | ACons j i =>
      match nth_error (pcs x) j with
      | None => x
      | Some p =>
          match cstep (sh x) p i with
          | None => x                          (* not enabled: blocked *)
          | Some (s1, p1) => mkI s1 (upd (pcs x) j p1)
          end
      end
  end.

Definition irun (x : ist) (l : list act) : ist := fold_left istep l x.
Definition init_i (consumers : nat) : ist := mkI init (repeat PTop consumers).

Definition is_running (p : pc) : bool := match p with PRun _ _ _ _ => true | _ => false end.
Definition running (x : ist) : nat := length (filter is_running (pcs x)).

(* ---- many actors on one dispatcher ----
   Every actor spawned from one NewServicePropsWithNewScheDisp props shares the scheDisp and
   the run service.  Each has its own protoactor mailbox (actorex/mailbox); a mailbox hands
   its batch (processMessages) to the dispatcher at most once at a time:
     PostUserMessage: push; if the status is idle, CAS idle->running and Schedule(batch)
     scheDisp.Schedule: chanTask <- batch           blocking send, capacity 9
     the batch runs as ONE task of the selector (channel 1), handles what is queued, sets idle
   The layer below keeps the mailboxes next to the interleaving model [ist]; the batch token
   on channel 1 is the actor's number.  (The window in which processMessages re-schedules
   itself is the mailbox model of property C09 and is not repeated here: the batch end is
   atomic.) *)
Inductive mstat :=
| MIdle
| MWant        (* CAS won; the poster is inside Schedule (blocked while the queue is full) *)
| MQueued      (* the batch token is in chanTask *)
| MRunning.    (* the batch is the task the consumer is running *)

Record mbox := mkBox { bq : list Z; bst : mstat }.
Record dst := mkD {
  di : ist;
  boxes : list mbox;
  dlog : list (Z * Z);        (* handled (actor, message) *)
  dstopped : bool;            (* StandardRunService.Stop() has been called *)
  dexit : bool                (* the loop has seen the close signal and ended: `for r.running` *)
}.

Definition disp_chan : Z := 1.   (* funnel_chan FDisp: scheDisp.chanTask, capacity 9 *)
Definition sche_chan : Z := 2.   (* Sche.chanTask *)
Definition close_chan : Z := 3.  (* RunService.chanClose, selector "__close__" *)
Definition timer_chan : Z := 4.  (* timer.Mgr.queue *)

Inductive dact :=
| DPost (a m : Z)     (* any goroutine: PostUserMessage(m) on the mailbox of actor a *)
| DSched (a : Z)      (* that goroutine's Schedule call completes - not enabled while chanTask is full *)
| DCons (i : nat)     (* the consumer's next atomic step (case i at Select) *)
| DOther (o : op)     (* any other producer action on the service's channels *)
| DStop.              (* any goroutine, also a handler of the service itself: StandardRunService.Stop():
                         TimerMgr.Stop (expiring timers are dropped from now on), Sche.Stop (closes the
                         task queue: Post is dropped), close(chanClose) *)

Definition with_di (y : dst) (x : ist) : dst := mkD x (boxes y) (dlog y) (dstopped y) (dexit y).
Definition with_boxes (y : dst) (bs : list mbox) : dst := mkD (di y) bs (dlog y) (dstopped y) (dexit y).

(* the piece that just ended was the "__close__" handler: r.running = false, the loop ends *)
Definition ends_loop (s : st) (p : pc) : bool :=
  match p with
  | PRun _ c _ true => Z.eqb c close_chan
  | PDead k => match chan_of s k with Some c => Z.eqb c close_chan | None => false end
  | _ => false
  end.

Definition dcons (y : dst) (i : nat) : dst :=
  if dexit y then y else
  let x1 := istep (di y) (ACons 0 i) in
  match nth_error (pcs (di y)) 0, nth_error (pcs x1) 0 with
  | Some (PSel _), Some (PRun _ c v true) =>
      match (if Z.eqb c disp_chan then znth (boxes y) v else None) with
      | Some b => with_boxes (with_di y x1) (zupd (boxes y) v (mkBox (bq b) MRunning))
      | None => with_di y x1
      end
  | Some p0, Some PTop =>
      let y1 :=
        match p0 with
        | PRun _ c v true =>
            match (if Z.eqb c disp_chan then znth (boxes y) v else None) with
            | Some b => mkD x1 (zupd (boxes y) v (mkBox [] MIdle)) (dlog y ++ map (pair v) (bq b))
                            (dstopped y) (dexit y)
            | None => with_di y x1
            end
        | _ => with_di y x1
        end in
      mkD (di y1) (boxes y1) (dlog y1) (dstopped y1) (ends_loop (sh (di y)) p0)
  | _, _ => with_di y x1
  end.

Definition dstep (y : dst) (a : dact) : dst :=
  match a with
  | DPost a m =>
      match znth (boxes y) a with
      | Some b =>
          with_boxes y (zupd (boxes y) a
                          (mkBox (bq b ++ [m]) (match bst b with MIdle => MWant | st => st end)))
      | None => y
      end
  | DSched a =>
      match znth (boxes y) a with
      | Some b =>
          match bst b with
          | MWant =>
              match plain_step (sh (di y)) (OSend disp_chan a) with
              | (s1, ESent true) =>
                  with_boxes (with_di y (mkI s1 (pcs (di y)))) (zupd (boxes y) a (mkBox (bq b) MQueued))
              | _ => y                     (* queue full: the caller stays blocked in Schedule *)
              end
          | _ => y
          end
      | None => y
      end
  | DCons i => dcons y i
  | DOther o =>
      match o with
      | OSend c _ =>
          if Z.eqb c disp_chan then y        (* chanTask is private to the dispatcher *)
          else if dstopped y && Z.eqb c timer_chan then y   (* `if !m.running { return }` *)
          else with_di y (istep (di y) (AProd o))
      | OClose c =>
          if Z.eqb c disp_chan then y else with_di y (istep (di y) (AProd o))
      | _ => with_di y (istep (di y) (AProd o))
      end
  | DStop =>
      if dstopped y then y      (* a second Stop panics (close of closed channel): not modelled *)
      else
        mkD (irun (di y) [AProd (OClose sche_chan); AProd (OClose close_chan)])
            (boxes y) (dlog y) true (dexit y)
  end.

Definition drun (y : dst) (l : list dact) : dst := fold_left dstep l y.

(* a service (service_ops) with n actors spawned from its props, all mailboxes idle *)
Definition dinit (n : nat) : dst :=
  mkD (mkI (fst (plain_from init service_ops)) [PTop]) (repeat (mkBox [] MIdle) n) [] false false.

Definition count_stat (st : mstat) (y : dst) : nat :=
  length (filter (fun b => match bst b, st with
                           | MIdle, MIdle | MWant, MWant | MQueued, MQueued | MRunning, MRunning => true
                           | _, _ => false end) (boxes y)).
