(* C04 - property theorems only.  Each is closed by [exact] of a lemma from Proofs.v and
   followed by Print Assumptions.

   PARTIAL: these theorems are about the selector machine (one consumer draining every
   registered channel) and its interleaving with concurrent producers.  That the Go entry
   points really enqueue on those channels, and that the consumer is one goroutine, is
   measured on the running code (OStress cases), not proved. *)
From Cell2V Require Import Common.Tac Common.ListX C04.Model C04.Spec C04.Proofs C04.Corr.

(* After ANY sequence of NewChan / AddSelector / send / close / HandleOnce events (with any
   Select choices): cases and runnings have the same length and runnings[i] is the
   selector whose channel is cases[i] - so HandleOnce's runnings[chosen] is the owner. *)
Theorem C04_selector_index : forall ops, index_ok (final ops).
Proof. exact selector_index. Qed.
Print Assumptions C04_selector_index.

(* ... and every handler invocation in every history was for a value received from the
   channel the handler's selector was registered with. *)
Theorem C04_handler_owns_channel : forall ops o k c v ok,
  In (o, ERan k c v ok) (trace ops) -> chan_of (final ops) k = Some c.
Proof. exact ran_owner. Qed.
Print Assumptions C04_handler_owns_channel.

(* Accounting, every history, every user channel: what was enqueued is exactly what was
   handed to handlers (in order) followed by what is still queued.  Nothing is dropped,
   nothing runs twice, per-channel order is kept. *)
Theorem C04_task_accounting : forall ops c,
  0 < c -> sent c (trace ops) = handled c (trace ops) ++ queue (final ops) c.
Proof. exact task_accounting. Qed.
Print Assumptions C04_task_accounting.

(* A queued task on a channel with an open selector is always selectable: choosing that
   selector's case hands exactly the head task to that selector's handler. *)
Theorem C04_task_enabled : forall ops c v rest k d,
  queue (final ops) c = v :: rest ->
  znth (sels (final ops)) k = Some d -> sopen d = true -> schan d = c ->
  exists s', step (final ops) (OHandle k) = (s', ERan k c v true) /\ queue s' c = rest.
Proof. exact task_enabled. Qed.
Print Assumptions C04_task_enabled.

(* Progress: after any history, if the consumer keeps calling HandleOnce (mu steps suffice)
   with reflect.Select resolved by ANY scheduler that picks some ready case, then on every
   registered channel everything that was enqueued has been handed to a handler, exactly
   once and in order.  (Producers are quiescent during the drain; eventual handling while
   producers keep enqueueing forever needs fairness of reflect.Select - not proved.) *)
Theorem C04_no_task_lost : forall choose ops c,
  fair_choice choose -> 0 < c -> registered (final ops) c ->
  handled c (trace (ops ++ auto_ops choose (mu (final ops)) (final ops))) = sent c (trace ops).
Proof. exact no_task_lost. Qed.
Print Assumptions C04_no_task_lost.

(* Interleaving model, ONE consumer process, any number of producer actions between its
   atomic steps, every schedule: at most one task is running, it is run by the consumer,
   its handler owns the channel the value came from, and runnings[chosen] never indexes
   out of range. *)
Theorem C04_one_at_a_time : forall sched,
  let x := irun (init_i 1) sched in
  (running x <= 1)%nat /\
  (forall j k c v ok, nth_error (pcs x) j = Some (PRun k c v ok) ->
      j = 0%nat /\ chan_of (sh x) k = Some c) /\
  ~ In PPanic (pcs x).
Proof. exact one_at_a_time. Qed.
Print Assumptions C04_one_at_a_time.

(* Same model: the consumer is never parked in reflect.Select on stale cases while a
   registered live channel has work - either its cases are current or the wake-up channel
   (chanDirt) is ready.  This is what AddSelector-while-running relies on. *)
Theorem C04_no_missed_wakeup : forall sched lc,
  let x := irun (init_i 1) sched in
  pcs x = [PSel lc] ->
  (exists k d, znth (sels (sh x)) k = Some d /\ sopen d = true /\
               chan_ready (sh x) (schan d) = true) ->
  existsb (chan_ready (sh x)) lc = true.
Proof. exact no_missed_wakeup. Qed.
Print Assumptions C04_no_missed_wakeup.

(* The sequential HandleOnce used in the histories above is exactly the consumer's atomic
   steps of the interleaving model with no producer action in between. *)
Theorem C04_handle_refines : forall s k s' c v ok,
  handle s k = (s', ERan k c v ok) ->
  exists i, irun (mkI s [PTop]) (repeat (ACons 0 i) (if ok then 3 else 4)) = mkI s' [PTop].
Proof. exact handle_refines. Qed.
Print Assumptions C04_handle_refines.

(* Funnel table: every work kind named by the property is mapped to one of the four
   channels of a service; in every history that starts with the service's construction
   that channel is registered, a submission is never rejected as unknown, and everything
   enqueued on it is executed by the single consumer (exactly once, in order).
   TRUE BY CONSTRUCTION of the table: that the Go entry points use these channels is
   what the OStress measurement checks. *)
Theorem C04_funnel_total : forall choose tail k,
  fair_choice choose ->
  let ops := service_ops ++ tail in
  let c := funnel_chan (funnel_of k) in
  registered (final ops) c /\
  snd (step (final ops) (submit k)) <> EBad /\
  handled c (trace (ops ++ auto_ops choose (mu (final ops)) (final ops))) = sent c (trace ops).
Proof. exact funnel_total. Qed.
Print Assumptions C04_funnel_total.

(* Overflow: a send that finds its queue full changes nothing (the producer is blocked; the
   sequential driver reports EFull), and in the interleaving model NO sequence of producer
   actions - whatever the queues hold - moves a consumer process: while the consumer is inside
   a handler, a burst of any size from other goroutines cannot make a second piece run. *)
Theorem C04_full_send_blocks : forall s c v,
  snd (step s (OSend c v)) = EFull -> fst (step s (OSend c v)) = s.
Proof. exact full_send_blocks. Qed.
Print Assumptions C04_full_send_blocks.

Theorem C04_producers_never_run_handlers : forall prods x,
  pcs (irun x (map AProd prods)) = pcs x.
Proof. exact producers_never_run. Qed.
Print Assumptions C04_producers_never_run_handlers.

(* No nesting: whatever happens while a handler runs (producers, the handler itself arming
   timers / posting / publishing = producer actions, other consumer processes), that consumer
   process stays in that handler until the handler ends; the next piece is only ever started
   from the top of the loop. *)
Theorem C04_handler_runs_to_completion : forall x a j k c v ok p',
  nth_error (pcs x) j = Some (PRun k c v ok) ->
  nth_error (pcs (istep x a)) j = Some p' ->
  p' = PRun k c v ok \/ p' = PTop \/ p' = PDead k.
Proof. exact handler_runs_to_completion. Qed.
Print Assumptions C04_handler_runs_to_completion.

(* Many actors on ONE dispatcher (all spawned from one props): n mailboxes are the producers of
   the dispatcher queue (capacity 9), each with at most one batch in flight.  For every n and
   every schedule of posts, Schedule calls, consumer steps and other producer actions: at most
   one task runs, on the consumer, by the handler that owns the channel; a Schedule call that
   finds the queue full changes nothing (the poster stays blocked - nothing runs elsewhere). *)
Theorem C04_dispatcher_one_at_a_time : forall n acts,
  let x := di (drun (dinit n) acts) in
  (running x <= 1)%nat /\
  (forall j k c v ok, nth_error (pcs x) j = Some (PRun k c v ok) ->
      j = 0%nat /\ chan_of (sh x) k = Some c) /\
  ~ In PPanic (pcs x).
Proof. exact dispatcher_one_at_a_time. Qed.
Print Assumptions C04_dispatcher_one_at_a_time.

Theorem C04_blocked_schedule_is_noop : forall y a,
  snd (plain_step (sh (di y)) (OSend disp_chan a)) = EFull -> dstep y (DSched a) = y.
Proof. exact blocked_schedule_is_noop. Qed.
Print Assumptions C04_blocked_schedule_is_noop.

(* Teardown.  DStop = StandardRunService.Stop() by anyone, also by a handler of the service
   itself: the task queue and the close channel are closed, expiring timers are dropped.  The
   property says WHERE a piece runs, not that it must run: what is produced after the stop
   may be dropped, but it may not run anywhere else.
   - every action that is not a step of the consumer - DStop and everything produced before or
     after it - leaves the consumer process where it is: it starts no piece;
   - a send on a closed queue (Post after Stop) changes nothing;
   - the one-at-a-time theorem above (C04_dispatcher_one_at_a_time) covers schedules with DStop;
   - once the loop has seen the close signal and ended, no schedule whatsoever runs anything. *)
Theorem C04_only_the_consumer_starts_pieces : forall y a,
  (forall i, a <> DCons i) -> pcs (di (dstep y a)) = pcs (di y).
Proof. exact dstep_pcs. Qed.
Print Assumptions C04_only_the_consumer_starts_pieces.

Theorem C04_post_after_stop_dropped : forall s c v,
  snd (step s (OSend c v)) = ESent false -> fst (step s (OSend c v)) = s.
Proof. exact closed_send_dropped. Qed.
Print Assumptions C04_post_after_stop_dropped.

Theorem C04_nothing_runs_after_the_loop_ended : forall n acts more,
  let y := drun (dinit n) acts in
  dexit y = true ->
  let z := drun y more in
  dexit z = true /\ pcs (di z) = [PTop] /\ running (di z) = 0%nat /\ dlog z = dlog y.
Proof. exact after_exit. Qed.
Print Assumptions C04_nothing_runs_after_the_loop_ended.

(* The len(cases) == 0 branch of HandleOnce is never taken. *)
Theorem C04_cases_never_empty : forall ops, ~ In ESleep (events ops).
Proof. exact never_sleep. Qed.
Print Assumptions C04_cases_never_empty.

(* [run] (what is compared with the implementation) and [trace]/[final] (what the theorems
   speak about) are the same execution. *)
Theorem C04_run_is_trace : forall ops,
  events ops = map snd (trace ops) /\ final ops = final_from init ops /\
  length (run ops) = length ops.
Proof. exact run_is_trace. Qed.
Print Assumptions C04_run_is_trace.

(* The monitor run on implementation traces (Corr.v) accepts every trace the proven model can
   produce with admissible Select choices: a monitor failure on the real code is a deviation
   from the model the theorems above are about, not an artefact of the monitor. *)
Theorem C04_monitor_sound : forall ops,
  (forall a b, ~ In (OStress a b) ops) -> ~ In EBadChoice (events ops) ->
  monitor (ops, run ops) = true.
Proof. exact monitor_sound. Qed.
Print Assumptions C04_monitor_sound.

(* ---- non-vacuity ---- *)

(* a history with AddSelector while running, a closed channel, a dropped dead selector,
   a double registration and a send on a closed channel; the monitor accepts it *)
Example C04_example_events :
  events ex_ops =
  [EUnit; EUnit; ESent true; ERan 0 0 1 true; ERan 1 1 7 true; EUnit; EUnit; EUnit; ESent true;
   ESent true; ERan 3 2 9 true; EClosed true; ERan 1 1 0 false; ERan 2 2 10 true; ESent false;
   ERan 0 0 1 true; ERan 0 0 1 true; ERan 0 0 1 true; EIdle].
Proof. vm_compute. reflexivity. Qed.

Example C04_example_final :
  snap_of (final ex_ops) =
  Snap false [(0, true); (1, false); (2, true); (2, true)] [0; 2; 2] [0; 2; 3] [0; 0; 0].
Proof. vm_compute. reflexivity. Qed.

Example C04_example_monitor : monitor (ex_ops, run ex_ops) = true /\ agree (ex_ops, run ex_ops) = true.
Proof. vm_compute. split; reflexivity. Qed.

(* the premises of C04_no_task_lost / C04_task_enabled are met with pending work *)
Example C04_example_pending :
  let ops := [ONewChan 4; OAdd 1; OSend 1 7; OSend 1 8; OClose 1] in
  queue (final ops) 1 = [7; 8] /\ mu (final ops) = 5%nat /\
  handled 1 (trace (ops ++ auto_ops (fun _ l => last l 0) 5 (final ops))) = [7; 8].
Proof. vm_compute. repeat split; reflexivity. Qed.

(* the single-consumer premise matters: with TWO consumer processes two tasks overlap, ... *)
Example C04_two_consumers_overlap :
  running (irun (init_i 2)
    [ACons 0 0; ACons 0 0; AProd (ONewChan 1); AProd (OAdd 1); ACons 1 0; ACons 1 0]) = 2%nat.
Proof. vm_compute. reflexivity. Qed.

(* ... a handler is run for another selector's channel, and runnings[chosen] can panic *)
Example C04_two_consumers_wrong_handler :
  nth_error (pcs (irun (init_i 2) (two_sched [AProd (OAdd 3)]))) 0 = Some (PRun 3 2 7 true).
Proof. vm_compute. reflexivity. Qed.

Example C04_two_consumers_panic :
  nth_error (pcs (irun (init_i 2) (two_sched []))) 0 = Some PPanic.
Proof. vm_compute. reflexivity. Qed.

(* 12 actors, consumer held in a handler, a message for each of the other 11: nine batches fill
   the dispatcher queue, two posters are blocked in Schedule, only the held handler runs; after
   the release all 11 messages are handled by the consumer and every mailbox is idle again *)
Example C04_example_many_actors :
  let y := drun (dinit 12) (many_hold ++ many_posts) in
  pcs (di y) = [PRun 2 2 5 true] /\ running (di y) = 1%nat /\
  queue (sh (di y)) disp_chan = [1; 2; 3; 4; 5; 6; 7; 8; 9] /\
  count_stat MQueued y = 9%nat /\ count_stat MWant y = 2%nat /\ dlog y = [] /\
  let z := drun y many_drain in
  dlog z = [(1, 101); (2, 102); (3, 103); (4, 104); (5, 105); (6, 106); (7, 107); (8, 108);
            (9, 109); (10, 110); (11, 111)] /\
  count_stat MIdle z = 12%nat /\ queue (sh (di z)) disp_chan = [].
Proof. vm_compute. repeat split; reflexivity. Qed.

(* teardown from inside a handler: the Post and the timer after the stop are dropped, the event
   stays queued; the handler ends, the loop takes the close signal and ends; afterwards neither
   the queued event nor anything produced later is ever run *)
Example C04_example_teardown :
  let y := drun (dinit 1) td_stop in
  pcs (di y) = [PRun 2 2 5 true] /\ dstopped y = true /\ dexit y = false /\
  queue (sh (di y)) sche_chan = [] /\ queue (sh (di y)) timer_chan = [] /\ queue (sh (di y)) 5 = [7] /\
  let z := drun y td_end in
  dexit z = true /\ pcs (di z) = [PTop] /\
  let w := drun z td_more in
  pcs (di w) = [PTop] /\ running (di w) = 0%nat /\ queue (sh (di w)) 5 = [7; 10] /\ dlog w = [].
Proof. vm_compute. repeat split; reflexivity. Qed.

(* a service machine: one item of every kind is executed by the consumer; with an overflow
   phase (1100 local events, 1050 posts, 1010 timers, 30 session messages, 300 requests against
   queues of 999) everything is still executed; overflowing global events are dropped beyond 999 *)
Example C04_example_funnels :
  stress_executed [1; 1; 1; 1; 1; 1; 1; 1; 1; 1; 1; 1; 1; 1] = expected [1; 1; 1; 1; 1; 1; 1; 1; 1; 1; 1; 1; 1; 1]
  /\ produced [2; 3; 4; 5; 6; 2; 3; 8; 10; 2; 5; 5; 3; 4] = [6; 8; 5; 6; 6; 91; 10; 10; 3; 3; 12]
  /\ stress_executed [1; 2; 0; 1; 0; 1; 2; 1; 3; 1; 2; 2; 1; 2; 0; 1100; 0; 1050; 1010; 30; 300]
     = produced [1; 2; 0; 1; 0; 1; 2; 1; 3; 1; 2; 2; 1; 2; 0; 1100; 0; 1050; 1010; 30; 300]
  /\ stress_executed [0; 0; 0; 0; 0; 0; 0; 0; 0; 0; 0; 0; 0; 0; 0; 0; 0; 0; 0; 0; 0; 2] = [2; 0; 0; 0; 36; 10; 10; 2; 0; 0; 0]
  /\ stress_executed [0; 0; 0; 0; 0; 0; 0; 0; 0; 1; 0; 3; 0; 0; 0; 0; 1200] = [0; 0; 0; 0; 0; 0; 0; 1002; 0; 0; 0]
  /\ produced [0; 0; 0; 0; 0; 0; 0; 0; 0; 1; 0; 3; 0; 0; 0; 0; 1200] = [0; 0; 0; 0; 0; 0; 0; 1203; 0; 0; 0]
  /\ expected [0; 0; 0; 0; 0; 0; 0; 0; 0; 1; 0; 3; 0; 0; 0; 0; 1200] = [0; 0; 0; 0; 0; 0; 0; 1002; 0; 0; 0].
Proof. vm_compute. repeat split; reflexivity. Qed.
