From Cell2V Require Import Common.Tac Common.ListX C11.Model C11.Spec.

(* ====================================================================================== *)
(* Part A - traces: the automaton implies the declarative statements                       *)
(* ====================================================================================== *)

Lemma arun_app q t1 t2 :
  arun q (t1 ++ t2) = match arun q t1 with Some q' => arun q' t2 | None => None end.
Proof.
  revert q. induction t1 as [|x t IH]; intro q; simpl; [reflexivity|].
  destruct (astep q x) as [q'|]; [apply IH | reflexivity].
Qed.

Lemma pend_from_app p t1 t2 :
  pend_from p (t1 ++ t2) = match pend_from p t1 with Some p' => pend_from p' t2 | None => None end.
Proof.
  revert p. induction t1 as [|x t IH]; intro p; simpl; [reflexivity|].
  destruct x as [i|i b|b]; try apply IH.
  destruct (zmem i p); [apply IH | reflexivity].
Qed.

Lemma entered_app t1 t2 : entered (t1 ++ t2) = entered t1 ++ entered t2.
Proof. induction t1 as [|x t IH]; simpl; [reflexivity|]. destruct x; simpl; rewrite IH; reflexivity. Qed.
Lemma fins_app t1 t2 : fins (t1 ++ t2) = fins t1 ++ fins t2.
Proof. induction t1 as [|x t IH]; simpl; [reflexivity|]. destruct x; simpl; rewrite IH; reflexivity. Qed.
Lemma outcomes_app t1 t2 : outcomes (t1 ++ t2) = outcomes t1 ++ outcomes t2.
Proof. induction t1 as [|x t IH]; simpl; [reflexivity|]. destruct x; simpl; rewrite IH; reflexivity. Qed.

Lemma arun_done t q : arun Done t = Some q -> t = [] /\ q = Done.
Proof. destruct t as [|x t]; simpl; intro H; [inv H; auto|]. destruct x; discriminate. Qed.

(* inversion of one automaton step *)
Lemma astep_inv q x q' :
  astep q x = Some q' ->
  (exists i rest, q = Idle (i :: rest) /\ x = TEnter i /\ q' = Wait i rest) \/
  (q = Idle [] /\ x = TFin true /\ q' = Done) \/
  (exists i rest, q = Wait i rest /\ x = TNext i true /\ q' = Idle rest) \/
  (exists i rest, q = Wait i rest /\ x = TNext i false /\ q' = Failed) \/
  (q = Failed /\ x = TFin false /\ q' = Done).
Proof.
  destruct q as [[|i rest]|i rest| |]; destruct x as [j|j b|b]; simpl; intro H; try discriminate.
  - destruct b; [|discriminate]. inv H. auto.
  - destruct (Z.eqb_spec i j) as [->|]; [|discriminate]. inv H. left. eauto.
  - destruct (Z.eqb_spec i j) as [->|]; [|discriminate]. inv H.
    destruct b; [right; right; left | right; right; right; left]; eauto.
  - destruct b; [discriminate|]. inv H. right. right. right. right. auto.
Qed.

(* entries are a prefix of the order *)
Lemma entered_prefix t : forall q q', arun q t = Some q' ->
  match q with
  | Idle rest | Wait _ rest => exists k, entered t = firstn k rest
  | _ => entered t = []
  end.
Proof.
  induction t as [|x t IH]; intros q q' H; simpl in H.
  - destruct q; simpl; try reflexivity; exists 0%nat; reflexivity.
  - destruct (astep q x) as [q1|] eqn:E; [|discriminate].
    specialize (IH _ _ H).
    apply astep_inv in E.
    destruct E as [(i & rest & -> & -> & ->) | [(-> & -> & ->) | [(i & rest & -> & -> & ->) |
                  [(i & rest & -> & -> & ->) | (-> & -> & ->)]]]]; simpl in *.
    + destruct IH as [k IH]. exists (S k). simpl. rewrite IH. reflexivity.
    + exists 0%nat. rewrite IH. reflexivity.
    + exact IH.
    + exists 0%nat. rewrite IH. reflexivity.
    + exact IH.
Qed.

(* what precedes an entry *)
Definition pred_ok (q : ast) (p : list tev) (i : Z) : Prop :=
  match q with
  | Idle rest => (p = [] /\ exists l, rest = i :: l) \/
                 (exists p' j, p = p' ++ [TNext j true] /\ adjacent j i rest)
  | Wait c rest => exists p' j, p = p' ++ [TNext j true] /\ adjacent j i (c :: rest)
  | _ => False
  end.

Lemma adjacent_cons c j i l : adjacent j i l -> adjacent j i (c :: l).
Proof. intros (l1 & l2 & ->). exists (c :: l1), l2. reflexivity. Qed.

Lemma entry_pred p : forall q q' i s, arun q (p ++ TEnter i :: s) = Some q' -> pred_ok q p i.
Proof.
  induction p as [|x p IH]; intros q q' i s H; simpl in H.
  - destruct (astep q (TEnter i)) as [q1|] eqn:E; [|discriminate].
    apply astep_inv in E.
    destruct E as [(j & rest & -> & E & ->) | [(_ & E & _) | [(j & rest & _ & E & _) |
                  [(j & rest & _ & E & _) | (_ & E & _)]]]]; try discriminate.
    inv E. simpl. left. split; [reflexivity | eauto].
  - destruct (astep q x) as [q1|] eqn:E; [|discriminate].
    specialize (IH _ _ _ _ H).
    apply astep_inv in E.
    destruct E as [(c & rest & -> & -> & ->) | [(-> & -> & ->) | [(c & rest & -> & -> & ->) |
                  [(c & rest & -> & -> & ->) | (-> & -> & ->)]]]]; simpl in *; try contradiction.
    + destruct IH as (p' & j & -> & A). right. exists (TEnter c :: p'), j. split; [reflexivity | exact A].
    + destruct IH as [[-> (l & ->)] | (p' & j & -> & A)].
      * exists [], c. split; [reflexivity|]. exists [], l. reflexivity.
      * exists (TNext c true :: p'), j. split; [reflexivity|]. apply adjacent_cons. exact A.
Qed.

Lemma in_order_of_conforms ord t q : arun (Idle ord) t = Some q -> in_order ord t.
Proof.
  intro H. split.
  - exact (entered_prefix _ _ _ H).
  - intros p i s ->. exact (entry_pred _ _ _ _ _ H).
Qed.

(* the first failure ends the run *)
Lemma failure_stops_of_conforms q0 t q :
  arun q0 t = Some q -> settled q = true -> failure_stops t.
Proof.
  intros H S p i s ->. rewrite arun_app in H.
  destruct (arun q0 p) as [q1|]; [|discriminate]. simpl in H.
  destruct (astep q1 (TNext i false)) as [q2|] eqn:E; [|discriminate].
  apply astep_inv in E.
  destruct E as [(j & rest & _ & E & _) | [(_ & E & _) | [(j & rest & _ & E & _) |
                [(j & rest & _ & _ & ->) | (_ & E & _)]]]]; try discriminate.
  destruct s as [|x s]; simpl in H.
  - inv H. discriminate.
  - destruct x as [k|k b|b]; try discriminate. destruct b; [discriminate|].
    apply arun_done in H. destruct H as [-> _]. reflexivity.
Qed.

(* no finish has been seen as long as the automaton is not in Done *)
Lemma fins_none t : forall q q', arun q t = Some q' -> q' <> Done -> fins t = [].
Proof.
  induction t as [|x t IH]; intros q q' H N; simpl in *; [reflexivity|].
  destruct (astep q x) as [q1|] eqn:E; [|discriminate].
  apply astep_inv in E.
  destruct E as [(c & rest & -> & -> & ->) | [(-> & -> & ->) | [(c & rest & -> & -> & ->) |
                [(c & rest & -> & -> & ->) | (-> & -> & ->)]]]]; simpl; eauto.
  - apply arun_done in H. destruct H as [_ ->]. contradiction.
  - apply arun_done in H. destruct H as [_ ->]. contradiction.
Qed.

Definition all_true (l : list bool) : bool := forallb (fun x => x) l.

(* reaching "everything visited" means every outcome was a success and everything was entered *)
Lemma reach_idle_nil t : forall q, arun q t = Some (Idle []) ->
  match q with
  | Idle rest => all_true (outcomes t) = true /\ entered t = rest /\ length (outcomes t) = length rest
  | Wait _ rest => all_true (outcomes t) = true /\ entered t = rest /\ length (outcomes t) = S (length rest)
  | _ => False
  end.
Proof.
  induction t as [|x t IH]; intros q H; simpl in H.
  - inv H. simpl. auto.
  - destruct (astep q x) as [q1|] eqn:E; [|discriminate].
    specialize (IH _ H).
    apply astep_inv in E.
    destruct E as [(c & rest & -> & -> & ->) | [(-> & -> & ->) | [(c & rest & -> & -> & ->) |
                  [(c & rest & -> & -> & ->) | (-> & -> & ->)]]]]; simpl in *; try contradiction.
    + destruct IH as (A & B & C). rewrite A, B, C. auto.
    + destruct IH as (A & B & C). unfold all_true in *. simpl. rewrite A, B, C. auto.
Qed.

Lemma reach_failed t : forall q, arun q t = Some Failed -> q <> Failed -> all_true (outcomes t) = false.
Proof.
  induction t as [|x t IH]; intros q H N; simpl in H.
  - inv H. contradiction.
  - destruct (astep q x) as [q1|] eqn:E; [|discriminate].
    apply astep_inv in E.
    destruct E as [(c & rest & -> & -> & ->) | [(-> & -> & ->) | [(c & rest & -> & -> & ->) |
                  [(c & rest & -> & -> & ->) | (-> & -> & ->)]]]]; simpl.
    + apply (IH _ H). discriminate.
    + apply arun_done in H. destruct H as [_ H]. discriminate.
    + unfold all_true in *. simpl. apply (IH _ H). discriminate.
    + reflexivity.
    + contradiction.
Qed.

Lemma finish_of_conforms ord t q : arun (Idle ord) t = Some q -> finish_last_with_outcome ord t.
Proof.
  intros H p b s ->. rewrite arun_app in H.
  destruct (arun (Idle ord) p) as [q1|] eqn:Ep; [|discriminate]. simpl in H.
  destruct (astep q1 (TFin b)) as [q2|] eqn:E; [|discriminate].
  apply astep_inv in E.
  destruct E as [(j & rest & _ & E & _) | [(-> & E & ->) | [(j & rest & _ & E & _) |
                [(j & rest & _ & E & _) | (-> & E & ->)]]]]; try discriminate; inv E.
  - apply arun_done in H. destruct H as [-> _].
    split; [reflexivity|]. split; [apply (fins_none _ _ _ Ep); discriminate|].
    pose proof (reach_idle_nil _ _ Ep) as (A & B & C). simpl in *.
    split; [symmetry; exact A|]. intros _. auto.
  - apply arun_done in H. destruct H as [-> _].
    split; [reflexivity|]. split; [apply (fins_none _ _ _ Ep); discriminate|].
    split; [|discriminate]. symmetry. apply (reach_failed _ _ Ep). discriminate.
Qed.

Lemma fins_done t : forall q, arun q t = Some Done -> q <> Done -> exists b, fins t = [b].
Proof.
  induction t as [|x t IH]; intros q H N; simpl in H.
  - inv H. contradiction.
  - destruct (astep q x) as [q1|] eqn:E; [|discriminate].
    apply astep_inv in E.
    destruct E as [(c & rest & -> & -> & ->) | [(-> & -> & ->) | [(c & rest & -> & -> & ->) |
                  [(c & rest & -> & -> & ->) | (-> & -> & ->)]]]]; simpl.
    + apply (IH _ H). discriminate.
    + apply arun_done in H. destruct H as [-> _]. eauto.
    + apply (IH _ H). discriminate.
    + apply (IH _ H). discriminate.
    + apply arun_done in H. destruct H as [-> _]. eauto.
Qed.

(* the two monitors agree on who is being waited for *)
Definition pend_of (q : ast) : list Z := match q with Wait i _ => [i] | _ => [] end.

Lemma pend_arun t : forall q q' P,
  arun q t = Some q' -> pend_from (pend_of q) t = Some P -> P = pend_of q'.
Proof.
  induction t as [|x t IH]; intros q q' P H HP; simpl in *.
  - inv H. inv HP. reflexivity.
  - destruct (astep q x) as [q1|] eqn:E; [|discriminate].
    apply astep_inv in E.
    destruct E as [(c & rest & -> & -> & ->) | [(-> & -> & ->) | [(c & rest & -> & -> & ->) |
                  [(c & rest & -> & -> & ->) | (-> & -> & ->)]]]]; simpl in *.
    + eapply IH; eauto.
    + eapply IH; eauto.
    + rewrite Z.eqb_refl in HP. simpl in HP. eapply IH; eauto.
    + rewrite Z.eqb_refl in HP. simpl in HP. eapply IH; eauto.
    + eapply IH; eauto.
Qed.

(* the counting form of the hypothesis *)
Lemma n_enter_app i t1 t2 : n_enter i (t1 ++ t2) = (n_enter i t1 + n_enter i t2)%nat.
Proof. induction t1 as [|x t IH]; simpl; [reflexivity|]. destruct x; simpl; rewrite IH; lia. Qed.
Lemma n_next_app i t1 t2 : n_next i (t1 ++ t2) = (n_next i t1 + n_next i t2)%nat.
Proof. induction t1 as [|x t IH]; simpl; [reflexivity|]. destruct x; simpl; rewrite IH; lia. Qed.

Lemma zcount_remove_first_le i j p : (zcount i (remove_first j p) <= zcount i p)%nat.
Proof.
  destruct (Z.eq_dec i j) as [->|N].
  - rewrite zcount_remove_first_same. lia.
  - rewrite zcount_remove_first_other by exact N. lia.
Qed.

(* pending multiset = entries minus completions *)
Lemma pend_from_count t : forall p P i, pend_from p t = Some P ->
  (zcount i P + n_next i t = zcount i p + n_enter i t)%nat.
Proof.
  induction t as [|x t IH]; intros p P i H; simpl in H.
  - inv H. simpl. lia.
  - destruct x as [j|j b|b]; simpl.
    + rewrite (IH _ _ i H). simpl. destruct (Z.eqb i j); lia.
    + destruct (zmem j p) eqn:M; [|discriminate].
      rewrite Nat.add_assoc, (Nat.add_comm (zcount i P)), <- Nat.add_assoc, (IH _ _ i H).
      destruct (Z.eqb_spec i j) as [->|N].
      * rewrite zcount_remove_first_same.
        apply zmem_In, zcount_In in M. lia.
      * rewrite zcount_remove_first_other by exact N. lia.
    + apply IH. exact H.
Qed.

Lemma at_most_once_counts t : at_most_once t -> at_most_once_counting t.
Proof.
  unfold at_most_once, pending. intros H p s -> i.
  rewrite pend_from_app in H.
  destruct (pend_from [] p) as [P|] eqn:E; [|contradiction].
  pose proof (pend_from_count _ _ _ i E) as C. simpl in C. lia.
Qed.

Lemma counts_at_most_once t : at_most_once_counting t -> at_most_once t.
Proof.
  unfold at_most_once, pending. intro H.
  assert (G : forall t0 p, (forall p1 s, t0 = p1 ++ s -> forall i, (n_next i p1 <= zcount i p + n_enter i p1)%nat) ->
                           pend_from p t0 <> None).
  { induction t0 as [|x t0 IH]; intros p C; simpl; [discriminate|].
    destruct x as [j|j b|b].
    - apply IH. intros p1 s -> i. specialize (C (TEnter j :: p1) s eq_refl i). simpl in C.
      simpl. destruct (Z.eqb i j); lia.
    - destruct (zmem j p) eqn:M.
      + apply IH. intros p1 s -> i. specialize (C (TNext j b :: p1) s eq_refl i). simpl in C.
        destruct (Z.eqb_spec i j) as [E0|N].
        * subst i. rewrite zcount_remove_first_same. apply zmem_In, zcount_In in M. lia.
        * rewrite zcount_remove_first_other by exact N. lia.
      + exfalso. specialize (C [TNext j b] t0 eq_refl j). simpl in C. rewrite Z.eqb_refl in C.
        assert (ZC : (zcount j p = 0)%nat).
        { destruct (zcount j p) eqn:Z0; [reflexivity|].
          assert (Ij : In j p) by (apply zcount_In; lia). apply zmem_In in Ij. congruence. }
        lia.
    - apply IH. intros p1 s -> i. exact (C (TFin b :: p1) s eq_refl i). }
  apply G. intros p1 s -> i. simpl. apply (H p1 s eq_refl).
Qed.

(* ====================================================================================== *)
(* Part B - one run: invariants of the work-list machine                                   *)
(* ====================================================================================== *)

Lemma zseq_snoc k : forall a, zseq a (S k) = zseq a k ++ [a + Z.of_nat k].
Proof.
  induction k as [|k IH]; intro a.
  - simpl. f_equal. lia.
  - change (zseq a (S (S k))) with (a :: zseq (a + 1) (S k)). rewrite IH.
    change (zseq a (S k)) with (a :: zseq (a + 1) k). rewrite Nat2Z.inj_succ.
    cbn [app]. f_equal. f_equal. f_equal. lia.
Qed.

Lemma proj_app r l1 l2 : proj r (l1 ++ l2) = proj r l1 ++ proj r l2.
Proof. unfold proj. apply flat_map_app. Qed.

Definition is_do (a : act) : bool := match a with ADo => true | _ => false end.
Definition head_do (wl : list act) : bool := match wl with a :: _ => is_do a | [] => false end.
Definition no_do (l : list act) : bool := forallb (fun a => negb (is_do a)) l.
Definition wl_ok (wl : list act) : Prop := no_do (tl wl) = true.

Lemma no_do_head wl : no_do wl = true -> head_do wl = false.
Proof. destruct wl as [|a wl]; simpl; [reflexivity|]. destruct a; simpl; intro H; congruence. Qed.
Lemma no_do_tl wl : no_do wl = true -> no_do (tl wl) = true.
Proof. destruct wl as [|a wl]; simpl; [auto|]. intro H. apply andb_true_iff in H. tauto. Qed.
Lemma no_do_calls i cs p wl : no_do wl = true -> no_do (map (ANx i) cs ++ AEnd i p :: wl) = true.
Proof. intro H. induction cs as [|c cs IH]; simpl; [exact H | exact IH]. Qed.
Lemma head_do_calls i cs p wl : head_do (map (ANx i) cs ++ AEnd i p :: wl) = false.
Proof. destruct cs; reflexivity. Qed.

Definition wt (a : act) : nat := match a with ADo => 1 | ANx _ _ => 2 | AEnd _ _ => 1 end.
Definition sumwt (l : list act) : nat := fold_right (fun a s => (wt a + s)%nat) 0%nat l.

Lemma sumwt_calls i cs p wl :
  sumwt (map (ANx i) cs ++ AEnd i p :: wl) = (2 * length cs + 1 + sumwt wl)%nat.
Proof. induction cs as [|c cs IH]; simpl; [reflexivity|]. simpl in IH. rewrite IH. lia. Qed.

Definition tag_is (r : Z) (x : ev) : Prop :=
  match x with
  | EEnter r' _ | ENext r' _ _ | EFin r' _ | ERaise r' _ | EAbort r' _ | EEscape r' | EDeadlock r' => r' = r
  | _ => False
  end.

Lemma proj_other r r' evs : Forall (tag_is r) evs -> r' <> r -> proj r' evs = [].
Proof.
  intros F N. induction F as [|x l H F IH]; [reflexivity|].
  unfold proj in *. simpl. rewrite IH, app_nil_r.
  destruct x; simpl in *; try reflexivity; subst;
    (destruct (Z.eqb_spec r' r); [contradiction | reflexivity]).
Qed.

(* behaviours of the shipped modules make at most one call *)
Lemma calls_bound e fwd live bound prov half k :
  (length (calls_of (entry_beh e fwd live bound prov half k)) <= maxcalls k)%nat.
Proof.
  destruct k as [[c1 p1] [c2 p2]| | |]; simpl.
  - destruct fwd; simpl; lia.
  - destruct fwd; simpl; lia.
  - destruct fwd; [destruct (info_ok e), (listen_ok e bound) | destruct live]; simpl; lia.
  - destruct fwd;
      [destruct (e_enable e), (new_ok e), (init_ok e), (fetch_ok e), (watch_ok e), (register_ok e), (keepalive_ok e)
      | destruct prov, half, (delete_ok e)]; simpl; lia.
Qed.

Lemma cmax_in k ms : In k ms -> (maxcalls k <= cmax ms)%nat.
Proof.
  induction ms as [|x ms IH]; simpl; [tauto|]. intros [->|H]; [lia|].
  specialize (IH H). lia.
Qed.

(* the three outcomes of a completion callback: nothing accepted, stuck behind the lock, suspended *)
Lemma on_callback_cases e locked r fwd s wl evs k :
  on_callback e locked r fwd s wl evs k = k \/
  (exists req, on_callback e locked r fwd s wl evs k = (with_dead s req, [], evs ++ [EDeadlock r])) \/
  (exists req, on_callback e locked r fwd s wl evs k = (with_susp s wl req, [], evs)).
Proof.
  unfold on_callback. destruct (request e fwd) as [req|]; [|auto].
  destruct (accepted (b_app s) req); [|auto]. destruct locked; eauto.
Qed.

Ltac split_callback H :=
  match type of H with
  | on_callback ?e ?l ?r ?f ?a ?b ?c ?k = _ =>
      let K := fresh "K" in
      destruct (on_callback_cases e l r f a b c k) as [K | [[?req K] | [?req K]]]; rewrite K in H; clear K
  end.

Section Run.
  Variables (e : env) (locked : bool) (r : Z) (fwd : bool).

  Definition near (idx : Z) : Prop := if fwd then 0 <= idx else idx <= nmods e - 1.
  Definition remaining (idx : Z) : list Z :=
    if fwd then zseq idx (Z.to_nat (nmods e - idx)) else rev (zseq 0 (Z.to_nat (idx + 1))).
  Definition ord : list Z := order fwd (length (e_mods e)).

  Lemma remaining_first : remaining (first_idx e fwd) = ord.
  Proof.
    unfold remaining, first_idx, ord, order, nmods. destruct fwd.
    - f_equal. lia.
    - do 2 f_equal. lia.
  Qed.

  Lemma remaining_past idx : past_end e fwd idx = true -> remaining idx = [].
  Proof.
    unfold remaining, past_end. destruct fwd; intro H.
    - replace (Z.to_nat (nmods e - idx)) with 0%nat by lia. reflexivity.
    - replace (Z.to_nat (idx + 1)) with 0%nat by lia. reflexivity.
  Qed.

  Lemma remaining_cons idx :
    near idx -> past_end e fwd idx = false -> remaining idx = idx :: remaining (advance fwd idx).
  Proof.
    unfold remaining, past_end, near, advance. destruct fwd; intros N H.
    - replace (Z.to_nat (nmods e - idx)) with (S (Z.to_nat (nmods e - (idx + 1)))) by lia. reflexivity.
    - replace (Z.to_nat (idx + 1)) with (S (Z.to_nat idx)) by lia.
      rewrite zseq_snoc, rev_app_distr. simpl.
      replace (idx - 1 + 1) with idx by lia. f_equal. lia.
  Qed.

  Lemma in_range idx : near idx -> past_end e fwd idx = false ->
    ((idx <? 0) || (nmods e <=? idx)) = false /\ (Z.to_nat idx < length (e_mods e))%nat.
  Proof.
    unfold near, past_end, nmods. destruct fwd; intros N H; split; lia.
  Qed.

  Lemma near_advance idx : near idx -> near (advance fwd idx).
  Proof. unfold near, advance. destruct fwd; lia. Qed.

  Lemma near_first : near (first_idx e fwd).
  Proof. unfold near, first_idx. destruct fwd; lia. Qed.

  (* ---- unwinding ---- *)
  Lemma unwind_spec wl : forall wl' x, unwind r wl = (wl', x) ->
    (no_do wl = true -> no_do wl' = true) /\ (sumwt wl' <= sumwt wl)%nat /\
    ((exists i, x = EAbort r i) \/ x = EEscape r).
  Proof.
    induction wl as [|a wl IH]; intros wl' x H; simpl in H.
    - inv H. simpl. auto.
    - destruct a as [|i b|i p].
      + destruct (IH _ _ H) as (A & B & C). simpl. repeat split; auto; lia.
      + destruct (IH _ _ H) as (A & B & C). simpl. repeat split; auto; lia.
      + inv H. simpl. repeat split; eauto; lia.
  Qed.

  (* ---- potential ---- *)
  Definition left_of (idx : Z) : nat := if fwd then Z.to_nat (nmods e - 1 - idx) else Z.to_nat idx.
  Definition slot (idx : Z) (wl : list act) : nat :=
    if head_do wl && negb (past_end e fwd idx) then 1%nat else 0%nat.
  Definition phi (idx : Z) (wl : list act) : nat :=
    (sumwt wl + (left_of idx + slot idx wl) * weight e)%nat.

  Lemma slot_no_do idx wl : no_do wl = true -> slot idx wl = 0%nat.
  Proof. intro H. unfold slot. rewrite (no_do_head _ H). reflexivity. Qed.

  Lemma left_advance idx :
    (left_of (advance fwd idx) + (if negb (past_end e fwd (advance fwd idx)) then 1 else 0) <= left_of idx)%nat.
  Proof.
    unfold left_of, advance, past_end. destruct fwd.
    - destruct (nmods e <=? idx + 1) eqn:E; simpl; lia.
    - destruct (idx - 1 <? 0) eqn:E; simpl; lia.
  Qed.

  Definition Good (s : bst) (wl : list act) : Prop := near (b_idx s) /\ wl_ok wl.

  Lemma step_good s a wl s' wl' evs :
    Good s (a :: wl) -> step e locked r fwd a s wl = (s', wl', evs) ->
    Good s' wl' /\ (phi (b_idx s') wl' < phi (b_idx s) (a :: wl))%nat /\ Forall (tag_is r) evs.
  Proof.
    intros [N W] H. unfold wl_ok in W. simpl in W. unfold step in H.
    destruct a as [|i b|i p].
    - (* ADo *)
      destruct (past_end e fwd (b_idx s)) eqn:P.
      + destruct (finish_effect (e_mode e) fwd true (b_app s) (b_cleaned s)) as [[app cl] pan].
        split_callback H.
        * destruct pan.
          -- destruct (unwind r wl) as [wl1 x] eqn:U. inv H. simpl.
             destruct (unwind_spec _ _ _ U) as (A & B & C).
             split; [split; [exact N | apply no_do_tl; auto]|].
             split.
             ++ unfold phi. rewrite (slot_no_do _ _ (A W)). unfold slot. simpl. rewrite P. simpl. lia.
             ++ repeat constructor. destruct C as [[i ->] | ->]; reflexivity.
          -- inv H. simpl.
             split; [split; [exact N | apply no_do_tl; auto]|].
             split.
             ++ unfold phi. rewrite (slot_no_do _ _ W). unfold slot. simpl. rewrite P. simpl. lia.
             ++ repeat constructor.
        * inv H. simpl. split; [split; [exact N | reflexivity]|]. split.
          -- unfold phi, slot. simpl. rewrite P. simpl. lia.
          -- repeat constructor.
        * inv H. simpl. split; [split; [exact N | reflexivity]|]. split.
          -- unfold phi, slot. simpl. rewrite P. simpl. lia.
          -- repeat constructor.
      + destruct (in_range _ N P) as [R L]. rewrite R in H. inv H. simpl.
        set (k := nth (Z.to_nat (b_idx s)) (e_mods e) KWelcome).
        set (bh := entry_beh e fwd (b_live s) (b_bound s) (zmem (b_idx s) (b_prov s)) (zmem (b_idx s) (b_half s)) k).
        split; [split; [exact N | apply no_do_tl, no_do_calls; exact W]|].
        split.
        * unfold phi. rewrite sumwt_calls. unfold slot at 1. rewrite head_do_calls. simpl andb. cbv iota.
          unfold slot. simpl head_do. rewrite P. simpl andb. cbv iota.
          assert (C : (length (calls_of bh) <= cmax (e_mods e))%nat).
          { etransitivity; [apply calls_bound|]. apply cmax_in. apply nth_In. exact L. }
          unfold weight. simpl sumwt.
          rewrite Nat.add_0_r, Nat.mul_add_distr_r, Nat.mul_1_l. lia.
        * repeat constructor.
    - (* ANx *)
      destruct b.
      + inv H. simpl.
        split; [split; [apply near_advance; exact N | exact W]|].
        split.
        * unfold phi. unfold slot at 2. simpl head_do. simpl andb. cbv iota.
          unfold slot. simpl head_do. simpl andb.
          pose proof (left_advance (b_idx s)) as LA.
          assert (M : ((left_of (advance fwd (b_idx s)) +
                       (if negb (past_end e fwd (advance fwd (b_idx s))) then 1 else 0)) * weight e
                       <= left_of (b_idx s) * weight e)%nat) by (apply Nat.mul_le_mono_r; exact LA).
          simpl sumwt. rewrite Nat.add_0_r. lia.
        * repeat constructor.
      + split_callback H.
        * inv H.
          split; [split; [exact N | apply no_do_tl; exact W]|].
          split.
          -- unfold phi. rewrite (slot_no_do _ _ W). unfold slot. simpl. lia.
          -- repeat constructor.
        * inv H. simpl. split; [split; [exact N | reflexivity]|]. split.
          -- unfold phi, slot. simpl. lia.
          -- repeat constructor.
        * inv H. simpl. split; [split; [exact N | reflexivity]|]. split.
          -- unfold phi, slot. simpl. lia.
          -- repeat constructor.
    - (* AEnd *)
      inv H.
      split; [split; [exact N | apply no_do_tl; exact W]|].
      split.
      + unfold phi. rewrite (slot_no_do _ _ W). unfold slot. simpl. lia.
      + destruct p; repeat constructor.
  Qed.

  Lemma phi_pos a wl idx : (0 < phi idx (a :: wl))%nat.
  Proof. unfold phi. simpl. destruct a; simpl; lia. Qed.

  (* generic preservation principle: enough fuel, so only [step]s happen *)
  Lemma exec_preserves (I : bst -> list act -> list ev -> Prop) :
    (forall s a wl acc s' wl' evs, Good s (a :: wl) -> I s (a :: wl) acc ->
        step e locked r fwd a s wl = (s', wl', evs) -> I s' wl' (acc ++ evs)) ->
    forall f s wl acc s' evs, (phi (b_idx s) wl <= f)%nat -> Good s wl -> I s wl acc ->
        exec e locked r fwd f s wl = (s', evs) -> I s' [] (acc ++ evs).
  Proof.
    intro HS. induction f as [|f IH]; intros s wl acc s' evs F G HI H.
    - destruct wl as [|a wl].
      + simpl in H. inv H. rewrite app_nil_r. exact HI.
      + pose proof (phi_pos a wl (b_idx s)). lia.
    - destruct wl as [|a wl].
      + simpl in H. inv H. rewrite app_nil_r. exact HI.
      + simpl in H.
        destruct (step e locked r fwd a s wl) as [[s1 wl1] e1] eqn:E1.
        destruct (exec e locked r fwd f s1 wl1) as [s2 e2] eqn:E2. inv H.
        destruct (step_good _ _ _ _ _ _ G E1) as (G1 & D & _).
        rewrite app_assoc. apply (IH s1 wl1 (acc ++ e1) s' e2); [lia | exact G1 | | exact E2].
        exact (HS s a wl acc s1 wl1 e1 G HI E1).
  Qed.

  Lemma exec_tagged f s wl s' evs :
    (phi (b_idx s) wl <= f)%nat -> Good s wl -> exec e locked r fwd f s wl = (s', evs) ->
    Forall (tag_is r) evs /\ near (b_idx s').
  Proof.
    intros F G H.
    refine (exec_preserves (fun s _ acc => Forall (tag_is r) acc /\ near (b_idx s)) _ f s wl [] s' evs F G _ H).
    - intros s0 a wl0 acc s1 wl1 evs1 G0 [A N] E.
      destruct (step_good _ _ _ _ _ _ G0 E) as ([N1 _] & _ & T).
      split; [apply Forall_app; auto | exact N1].
    - split; [constructor | apply G].
  Qed.

  (* ---- the link between the machine and the discipline automaton ---- *)
  Definition mlink (q : ast) (idx : Z) (wl : list act) : Prop :=
    match q with
    | Idle rest => rest = remaining idx /\ head_do wl = true
    | Wait i rest => i = idx /\ rest = remaining (advance fwd idx) /\ head_do wl = false
    | Failed => False
    | Done => head_do wl = false
    end.

  Definition Link (t : list tev) (idx : Z) (wl : list act) : Prop :=
    forall P, pending t = Some P -> exists q, arun (Idle ord) t = Some q /\ mlink q idx wl.

  Lemma projone_self_enter i : proj_one r (EEnter r i) = [TEnter i].
  Proof. simpl. rewrite Z.eqb_refl. reflexivity. Qed.
  Lemma projone_self_next i b : proj_one r (ENext r i b) = [TNext i b].
  Proof. simpl. rewrite Z.eqb_refl. reflexivity. Qed.
  Lemma projone_self_fin b : proj_one r (EFin r b) = [TFin b].
  Proof. simpl. rewrite Z.eqb_refl. reflexivity. Qed.

  Lemma link_extend t u idx wl idx' wl' :
    Link t idx wl ->
    (forall q P0 P, arun (Idle ord) t = Some q -> mlink q idx wl -> P0 = pend_of q ->
        pend_from P0 u = Some P -> exists q', arun q u = Some q' /\ mlink q' idx' wl') ->
    Link (t ++ u) idx' wl'.
  Proof.
    intros L H P HP. unfold pending in HP. rewrite pend_from_app in HP.
    destruct (pend_from [] t) as [P0|] eqn:E0; [|discriminate].
    destruct (L _ E0) as (q & A & M).
    assert (EQ : P0 = pend_of q) by (eapply pend_arun; [exact A | exact E0]).
    destruct (H _ _ _ A M EQ HP) as (q' & A' & M').
    exists q'. split; [|exact M']. rewrite arun_app, A. exact A'.
  Qed.

  Lemma step_link s a wl acc s' wl' evs :
    Good s (a :: wl) -> Link (proj r acc) (b_idx s) (a :: wl) ->
    step e locked r fwd a s wl = (s', wl', evs) -> Link (proj r (acc ++ evs)) (b_idx s') wl'.
  Proof.
    intros [N W] L H. unfold wl_ok in W. simpl in W. rewrite proj_app. unfold step in H.
    destruct a as [|i b|i p].
    - (* ADo *)
      destruct (past_end e fwd (b_idx s)) eqn:P.
      + assert (exists x, evs = EFin r true :: x /\ proj r x = [] /\ no_do wl' = true /\ b_idx s' = b_idx s)
          as (x & -> & Px & Nd & Ei).
        { destruct (finish_effect (e_mode e) fwd true (b_app s) (b_cleaned s)) as [[app cl] pan].
          split_callback H.
          - destruct pan.
            + destruct (unwind r wl) as [wl1 x] eqn:U.
              destruct (unwind_spec _ _ _ U) as (A & _ & C). inv H.
              exists [x]. repeat split; auto.
              destruct C as [[i ->] | ->]; reflexivity.
            + inv H. exists []. repeat split; auto.
          - inv H. exists [EDeadlock r]. repeat split; auto.
          - inv H. exists []. repeat split; auto. }
        rewrite Ei. eapply link_extend; [exact L|].
        intros q P0 P1 A M -> HP.
        change (proj r (EFin r true :: x)) with (proj_one r (EFin r true) ++ proj r x) in *.
        rewrite projone_self_fin, Px in *. simpl in *.
        destruct q as [rest|c rest| |]; simpl in M.
        * destruct M as [-> _]. rewrite (remaining_past _ P). simpl.
          eexists. split; [reflexivity|]. simpl. apply no_do_head. exact Nd.
        * destruct M as (_ & _ & M). discriminate.
        * contradiction.
        * discriminate.
      + destruct (in_range _ N P) as [R _]. rewrite R in H. inv H. simpl b_idx.
        eapply link_extend; [exact L|].
        intros q P0 P1 A M -> HP.
        change (proj r [EEnter r (b_idx s)]) with (proj_one r (EEnter r (b_idx s)) ++ []) in *.
        rewrite projone_self_enter in *. simpl in *.
        destruct q as [rest|c rest| |]; simpl in M.
        * destruct M as [-> _]. rewrite (remaining_cons _ N P). simpl. rewrite Z.eqb_refl.
          eexists. split; [reflexivity|]. simpl. repeat split. apply head_do_calls.
        * destruct M as (_ & _ & M). discriminate.
        * contradiction.
        * discriminate.
    - (* ANx *)
      destruct b.
      + inv H. simpl b_idx.
        eapply link_extend; [exact L|].
        intros q P0 P1 A M -> HP.
        change (proj r [ENext r i true]) with (proj_one r (ENext r i true) ++ []) in *.
        rewrite projone_self_next in *. simpl app in *.
        destruct q as [rest|c rest| |]; simpl in M; try contradiction.
        * destruct M as [_ M]. discriminate.
        * simpl in HP. destruct (Z.eqb_spec i c) as [E0|NE]; [subst i | discriminate].
          destruct M as (M1 & M2 & _). subst c rest. simpl. rewrite Z.eqb_refl.
          eexists. split; [reflexivity|]. simpl. auto.
        * simpl in HP. discriminate.
      + assert (exists x, evs = ENext r i false :: EFin r false :: x /\ proj r x = [] /\ no_do wl' = true /\ b_idx s' = b_idx s)
          as (x & -> & Px & Nd & Ei).
        { split_callback H; inv H; [exists [] | exists [EDeadlock r] | exists []]; repeat split; auto. }
        rewrite Ei.
        eapply link_extend; [exact L|].
        intros q P0 P1 A M -> HP.
        change (proj r (ENext r i false :: EFin r false :: x))
          with (proj_one r (ENext r i false) ++ proj_one r (EFin r false) ++ proj r x) in *.
        rewrite projone_self_next, projone_self_fin, Px in *. simpl app in *.
        destruct q as [rest|c rest| |]; simpl in M; try contradiction.
        * destruct M as [_ M]. discriminate.
        * simpl in HP. destruct (Z.eqb_spec i c) as [E0|NE]; [subst i | discriminate].
          simpl. rewrite Z.eqb_refl.
          eexists. split; [reflexivity|]. simpl. apply no_do_head. exact Nd.
        * simpl in HP. discriminate.
    - (* AEnd *)
      inv H.
      eapply link_extend; [exact L|].
      intros q P0 P1 A M -> HP.
      assert (proj r (if p then [ERaise r i] else []) = []) as -> by (destruct p; reflexivity).
      simpl. exists q. split; [reflexivity|].
      destruct q as [rest|c rest| |]; simpl in *.
      + destruct M as [_ M]. discriminate.
      + destruct M as (A1 & A2 & _). repeat split; auto. apply no_do_head. exact W.
      + contradiction.
      + apply no_do_head. exact W.
  Qed.

  Lemma exec_link f s wl acc s' evs :
    (phi (b_idx s) wl <= f)%nat -> Good s wl -> Link (proj r acc) (b_idx s) wl ->
    exec e locked r fwd f s wl = (s', evs) -> Link (proj r (acc ++ evs)) (b_idx s') [].
  Proof.
    intros F G L H.
    refine (exec_preserves (fun s wl acc => Link (proj r acc) (b_idx s) wl) _ f s wl acc s' evs F G L H).
    intros. eapply step_link; eauto.
  Qed.
End Run.


(* ---- unconditional invariants of a run: bookkeeping and monotone entries ---- *)
Definition b2n (b : bool) : nat := if b then 1%nat else 0%nat.

Lemma increasing_snoc l y : increasing l -> (forall x, In x l -> x < y) -> increasing (l ++ [y]).
Proof.
  induction l as [|a l IH]; intros I B; simpl; [auto|].
  destruct I as [I1 I2]. split.
  - destruct l as [|b l]; simpl; [apply B; left; reflexivity | exact I1].
  - apply IH; [exact I2 | intros x Hx; apply B; right; exact Hx].
Qed.

Lemma decreasing_snoc l y : decreasing l -> (forall x, In x l -> y < x) -> decreasing (l ++ [y]).
Proof.
  induction l as [|a l IH]; intros I B; simpl; [auto|].
  destruct I as [I1 I2]. split.
  - destruct l as [|b l]; simpl; [apply B; left; reflexivity | exact I1].
  - apply IH; [exact I2 | intros x Hx; apply B; right; exact Hx].
Qed.

Section Run2.
  Variables (e : env) (locked : bool) (r : Z) (fwd : bool).

  Lemma step_cases s a wl s' wl' evs :
    Good e fwd s (a :: wl) -> step e locked r fwd a s wl = (s', wl', evs) ->
    (a = ADo /\ past_end e fwd (b_idx s) = true /\ proj r evs = [TFin true] /\ b_idx s' = b_idx s /\ no_do wl' = true) \/
    (a = ADo /\ past_end e fwd (b_idx s) = false /\ proj r evs = [TEnter (b_idx s)] /\ b_idx s' = b_idx s /\ no_do wl' = true) \/
    (exists i, a = ANx i true /\ proj r evs = [TNext i true] /\ b_idx s' = advance fwd (b_idx s) /\ wl' = ADo :: wl) \/
    (exists i, a = ANx i false /\ proj r evs = [TNext i false; TFin false] /\ b_idx s' = b_idx s /\ no_do wl' = true) \/
    (exists i p, a = AEnd i p /\ proj r evs = [] /\ b_idx s' = b_idx s /\ wl' = wl).
  Proof.
    intros [N W] H. unfold wl_ok in W. simpl in W. unfold step in H.
    destruct a as [|i b|i p].
    - destruct (past_end e fwd (b_idx s)) eqn:P.
      + left. destruct (finish_effect (e_mode e) fwd true (b_app s) (b_cleaned s)) as [[app cl] pan].
        split_callback H.
        * destruct pan.
          -- destruct (unwind r wl) as [wl1 x] eqn:U.
             destruct (unwind_spec _ _ _ _ U) as (A & _ & C). inv H.
             repeat split; auto. unfold proj. simpl. rewrite Z.eqb_refl.
             destruct C as [[i ->] | ->]; reflexivity.
          -- inv H. repeat split; auto. unfold proj. simpl. rewrite Z.eqb_refl. reflexivity.
        * inv H. repeat split; auto. unfold proj. simpl. rewrite Z.eqb_refl. reflexivity.
        * inv H. repeat split; auto. unfold proj. simpl. rewrite Z.eqb_refl. reflexivity.
      + right. left. destruct (in_range _ _ _ N P) as [R _]. rewrite R in H. inv H.
        repeat split; auto.
        * unfold proj. simpl. rewrite Z.eqb_refl. reflexivity.
        * apply no_do_calls. exact W.
    - destruct b.
      + right. right. left. inv H. exists i. repeat split; auto.
        unfold proj. simpl. rewrite Z.eqb_refl. reflexivity.
      + right. right. right. left. exists i.
        split_callback H; inv H; repeat split; auto; unfold proj; simpl; rewrite Z.eqb_refl; reflexivity.
    - right. right. right. right. inv H. exists i, p. repeat split; auto.
      destruct p; reflexivity.
  Qed.

  (* every doNow yields exactly one entry or one finish(true); every next(false) one finish(false) *)
  Definition Acct (t : list tev) (wl : list act) : Prop :=
    (length (entered t) + length (fins t) + b2n (head_do wl) = 1 + length (outcomes t))%nat.

  Lemma step_acct s a wl acc s' wl' evs :
    Good e fwd s (a :: wl) -> Acct (proj r acc) (a :: wl) ->
    step e locked r fwd a s wl = (s', wl', evs) -> Acct (proj r (acc ++ evs)) wl'.
  Proof.
    intros G A H. pose proof G as [_ W]. unfold wl_ok in W. simpl in W.
    unfold Acct in *. rewrite proj_app, entered_app, fins_app, outcomes_app, !app_length.
    destruct (step_cases _ _ _ _ _ _ G H) as
      [(-> & _ & -> & _ & Nd) | [(-> & _ & -> & _ & Nd) | [(i & -> & -> & _ & ->) |
       [(i & -> & -> & _ & Nd) | (i & p & -> & -> & _ & ->)]]]]; simpl in *;
      try rewrite (no_do_head _ Nd); try rewrite (no_do_head _ W); simpl; lia.
  Qed.

  (* a run never enters a module twice and never goes backwards, whatever the modules do *)
  Definition Mono (t : list tev) (idx : Z) (wl : list act) : Prop :=
    (if fwd then increasing (entered t) else decreasing (entered t)) /\
    forall x, In x (entered t) ->
      if fwd then (if head_do wl then x < idx else x <= idx)
      else (if head_do wl then idx < x else idx <= x).

  Lemma step_mono s a wl acc s' wl' evs :
    Good e fwd s (a :: wl) -> Mono (proj r acc) (b_idx s) (a :: wl) ->
    step e locked r fwd a s wl = (s', wl', evs) -> Mono (proj r (acc ++ evs)) (b_idx s') wl'.
  Proof.
    intros G [M1 M2] H. pose proof G as [_ W]. unfold wl_ok in W. simpl in W.
    unfold Mono. rewrite proj_app, entered_app.
    destruct (step_cases _ _ _ _ _ _ G H) as
      [(-> & _ & -> & -> & Nd) | [(-> & _ & -> & -> & Nd) | [(i & -> & -> & -> & ->) |
       [(i & -> & -> & -> & Nd) | (i & p & -> & -> & -> & ->)]]]]; simpl entered; simpl head_do in *;
      rewrite ?app_nil_r.
    - split; [exact M1|]. intros x Hx. specialize (M2 x Hx). rewrite (no_do_head _ Nd).
      destruct fwd; lia.
    - split.
      + destruct fwd; [apply increasing_snoc | apply decreasing_snoc]; auto.
      + intros x Hx. rewrite (no_do_head _ Nd). apply in_app_or in Hx. destruct Hx as [Hx|[<-|[]]].
        * specialize (M2 x Hx). destruct fwd; lia.
        * destruct fwd; lia.
    - split; [exact M1|]. intros x Hx. specialize (M2 x Hx). unfold advance. destruct fwd; lia.
    - split; [exact M1|]. intros x Hx. specialize (M2 x Hx). rewrite (no_do_head _ Nd). exact M2.
    - split; [exact M1|]. intros x Hx. specialize (M2 x Hx). rewrite (no_do_head _ W). exact M2.
  Qed.

  (* the per-run invariant *)
  Definition RunInv (t : list tev) (idx : Z) (wl : list act) : Prop :=
    Link e fwd t idx wl /\ Acct t wl /\ Mono t idx wl.

  Lemma exec_runinv f s wl acc s' evs :
    (phi e fwd (b_idx s) wl <= f)%nat -> Good e fwd s wl -> RunInv (proj r acc) (b_idx s) wl ->
    exec e locked r fwd f s wl = (s', evs) -> RunInv (proj r (acc ++ evs)) (b_idx s') [].
  Proof.
    intros F G L H.
    refine (exec_preserves e locked r fwd (fun s wl acc => RunInv (proj r acc) (b_idx s) wl) _ f s wl acc s' evs F G L H).
    intros s0 a wl0 acc0 s1 wl1 evs1 G0 (A & B & C) E. split; [|split].
    - eapply step_link; eauto.
    - eapply step_acct; eauto.
    - eapply step_mono; eauto.
  Qed.

  Lemma runinv_wl t idx wl wl' : head_do wl = head_do wl' -> RunInv t idx wl -> RunInv t idx wl'.
  Proof.
    intros H (A & B & C). split; [|split].
    - intros P HP. destruct (A _ HP) as (q & R & M). exists q. split; [exact R|].
      destruct q; simpl in *; intuition congruence.
    - unfold Acct in *. rewrite <- H. exact B.
    - destruct C as [C1 C2]. split; [exact C1|]. intros x Hx. specialize (C2 x Hx). rewrite <- H. exact C2.
  Qed.

  Lemma runinv_init : RunInv [] (first_idx e fwd) [ADo].
  Proof.
    split; [|split].
    - intros P HP. exists (Idle (ord e fwd)). split; [reflexivity|].
      simpl. split; [symmetry; apply remaining_first | reflexivity].
    - reflexivity.
    - split; [destruct fwd; exact I | intros x []].
  Qed.
End Run2.

(* ====================================================================================== *)
(* Part C - whole histories                                                                *)
(* ====================================================================================== *)

Lemma length_upd_nth {A} (l : list A) : forall k x, length (upd_nth k x l) = length l.
Proof. induction l as [|h t IH]; intros [|k] x; simpl; auto. Qed.

Lemma nth_error_upd_same {A} (l : list A) : forall k x, (k < length l)%nat -> nth_error (upd_nth k x l) k = Some x.
Proof.
  induction l as [|h t IH]; intros [|k] x H; simpl in *; try lia; [reflexivity|].
  apply IH. lia.
Qed.

Lemma nth_error_upd_other {A} (l : list A) : forall k k' x, k <> k' -> nth_error (upd_nth k x l) k' = nth_error l k'.
Proof.
  induction l as [|h t IH]; intros [|k] [|k'] x H; simpl; try reflexivity; try congruence.
  apply IH. congruence.
Qed.

Definition tag_lt (k : Z) (x : ev) : Prop :=
  match x with
  | EEnter r _ | ENext r _ _ | EFin r _ | ERaise r _ | EAbort r _ | EEscape r | EDeadlock r => 0 <= r < k
  | _ => False
  end.

Lemma tag_lt_weaken k k' log : k <= k' -> Forall (tag_lt k) log -> Forall (tag_lt k') log.
Proof.
  intros L F. eapply Forall_impl; [|exact F]. intros x H. destruct x; simpl in *; lia.
Qed.

Lemma tag_is_lt r k evs : 0 <= r < k -> Forall (tag_is r) evs -> Forall (tag_lt k) evs.
Proof.
  intros R F. eapply Forall_impl; [|exact F]. intros x H. destruct x; simpl in *; subst; auto.
Qed.

Lemma proj_fresh k log : Forall (tag_lt k) log -> proj k log = [].
Proof.
  intro F. induction F as [|x l H F IH]; [reflexivity|].
  unfold proj in *. simpl. rewrite IH, app_nil_r.
  destruct x; simpl in *; try reflexivity;
    (destruct (Z.eqb_spec k r); [lia | reflexivity]).
Qed.

Definition caps_ok (caps : list (Z * Z)) : Prop := Forall (fun c => 0 <= fst c) caps.

(* what one step does to the fields that are not about the position *)
Lemma step_frame e locked r fwd a s wl s' wl' evs :
  step e locked r fwd a s wl = (s', wl', evs) ->
  (b_caps s' = b_caps s \/ exists i, b_caps s' = b_caps s ++ [(r, i)]) /\
  (b_susp s' = b_susp s \/ (exists req, b_susp s' = Some (wl, req) /\ wl' = [] /\ locked = false /\ b_idx s' = b_idx s /\
                                         accepted (b_app s') req = true)) /\
  (b_dead s' = b_dead s \/ (b_dead s' = true /\ wl' = [] /\ locked = true /\ (b_app s' = 2 \/ b_app s' = 4) /\
                             is_app (e_mode e) = true)).
Proof.
  intro H.
  assert (CB : forall s0 evs0 k,
            on_callback e locked r fwd s0 wl evs0 k = (s', wl', evs) ->
            (k = (s', wl', evs)) \/
            (b_caps s' = b_caps s0 /\ b_susp s' = b_susp s0 /\ b_dead s' = true /\ wl' = [] /\ locked = true /\
             ((b_app s' = 2 \/ b_app s' = 4) /\ is_app (e_mode e) = true)) \/
            (b_caps s' = b_caps s0 /\ b_dead s' = b_dead s0 /\ exists req, b_susp s' = Some (wl, req) /\ wl' = [] /\
             locked = false /\ b_idx s' = b_idx s0 /\ accepted (b_app s') req = true)).
  { intros s0 evs0 k HC. unfold on_callback in HC. destruct (request e fwd) as [req|] eqn:RQ; [|auto].
    assert (IA : is_app (e_mode e) = true) by (unfold request in RQ; destruct (is_app (e_mode e)); [reflexivity | discriminate]).
    destruct (accepted (b_app s0) req) eqn:AC; [|auto].
    destruct locked; inv HC; simpl.
    - right. left. repeat split; auto. destruct req; auto.
    - right. right. repeat split; auto. exists req. repeat split; auto. }
  unfold step in H. destruct a as [|i b|i p].
  - destruct (past_end e fwd (b_idx s)).
    + destruct (finish_effect (e_mode e) fwd true (b_app s) (b_cleaned s)) as [[app cl] pan].
      destruct (CB _ _ _ H) as [K | [(A & B & C & D & E & F) | (A & B & req & C & D & E & F & G)]].
      * destruct pan; [destruct (unwind r wl)|]; inv K; simpl; auto.
      * simpl in *. split; [left; exact A|]. split; [left; exact B|]. right. auto.
      * simpl in *. split; [left; exact A|]. split; [|left; exact B]. right. exists req. auto.
    + destruct ((b_idx s <? 0) || (nmods e <=? b_idx s)).
      * destruct (unwind r wl). inv H. auto.
      * inv H. simpl. split; [right; eexists; reflexivity | auto].
  - destruct b.
    + inv H. simpl. auto.
    + destruct (CB _ _ _ H) as [K | [(A & B & C & D & E & F) | (A & B & req & C & D & E & F & G)]].
      * inv K. auto.
      * split; [left; exact A|]. split; [left; exact B|]. right. auto.
      * split; [left; exact A|]. split; [|left; exact B]. right. exists req. auto.
  - inv H. auto.
Qed.

Lemma exec_caps e locked r fwd f s wl s' evs :
  0 <= r -> (phi e fwd (b_idx s) wl <= f)%nat -> Good e fwd s wl -> caps_ok (b_caps s) ->
  exec e locked r fwd f s wl = (s', evs) -> caps_ok (b_caps s').
Proof.
  intros R F G C H.
  refine (exec_preserves e locked r fwd (fun s _ _ => caps_ok (b_caps s)) _ f s wl [] s' evs F G C H).
  intros s0 a wl0 acc s1 wl1 evs1 G0 C0 E.
  destruct (step_frame _ _ _ _ _ _ _ _ _ _ E) as ([-> | [i ->]] & _); [exact C0|].
  apply Forall_app. split; [exact C0|]. repeat constructor. exact R.
Qed.

Lemma phi_rest e fwd idx a wl : no_do wl = true -> (phi e fwd idx wl < phi e fwd idx (a :: wl))%nat.
Proof.
  intro W. unfold phi. rewrite (slot_no_do _ _ _ _ W). simpl sumwt. destruct a; simpl; lia.
Qed.

(* a burst that ends suspended: the rest of the work list still satisfies the run's invariant *)
Lemma exec_susp e locked r fwd f s wl acc s' evs B :
  (phi e fwd (b_idx s) wl <= f)%nat -> Good e fwd s wl -> b_susp s = None ->
  RunInv e fwd (proj r acc) (b_idx s) wl -> (phi e fwd (b_idx s) wl <= B)%nat ->
  exec e locked r fwd f s wl = (s', evs) ->
  match b_susp s' with
  | None => True
  | Some (wl0, _) => RunInv e fwd (proj r (acc ++ evs)) (b_idx s') wl0 /\ no_do wl0 = true /\
                     (phi e fwd (b_idx s') wl0 < B)%nat /\ locked = false
  end.
Proof.
  intros F G SN L PB H.
  assert (X : match b_susp s' with
              | None => RunInv e fwd (proj r (acc ++ evs)) (b_idx s') [] /\ (phi e fwd (b_idx s') [] <= B)%nat
              | Some (wl0, _) => [] = @nil act /\ RunInv e fwd (proj r (acc ++ evs)) (b_idx s') wl0 /\ no_do wl0 = true /\
                                 (phi e fwd (b_idx s') wl0 < B)%nat /\ locked = false
              end).
  { refine (exec_preserves e locked r fwd
              (fun s wl acc => match b_susp s with
                 | None => RunInv e fwd (proj r acc) (b_idx s) wl /\ (phi e fwd (b_idx s) wl <= B)%nat
                 | Some (wl0, _) => wl = [] /\ RunInv e fwd (proj r acc) (b_idx s) wl0 /\ no_do wl0 = true /\
                                    (phi e fwd (b_idx s) wl0 < B)%nat /\ locked = false
                 end) _ f s wl acc s' evs F G _ H).
    - intros s0 a wl0 acc0 s1 wl1 evs1 G0 I0 E.
      destruct (b_susp s0) as [[w q]|] eqn:S0; [destruct I0 as [X _]; discriminate|].
      destruct I0 as [(A & Bc & C) PB0].
      assert (R1 : RunInv e fwd (proj r (acc0 ++ evs1)) (b_idx s1) wl1).
      { split; [|split]; [eapply step_link | eapply step_acct | eapply step_mono]; eauto. }
      destruct (step_good _ _ _ _ _ _ _ _ _ _ G0 E) as (G1 & D & _).
      pose proof G0 as [_ W0]. unfold wl_ok in W0. simpl in W0.
      destruct (step_frame _ _ _ _ _ _ _ _ _ _ E) as (_ & [SS | (req & SS & -> & LK & EI & _)] & _).
      + rewrite SS, S0. split; [exact R1 | lia].
      + rewrite SS. split; [reflexivity|]. split.
        * eapply runinv_wl; [|exact R1]. simpl. symmetry. apply no_do_head. exact W0.
        * split; [exact W0|]. split; [|exact LK]. rewrite EI.
          pose proof (phi_rest e fwd (b_idx s0) a wl0 W0). lia.
    - rewrite SN. split; assumption. }
  destruct (b_susp s') as [[w q]|]; [|exact I]. tauto.
Qed.

Lemma exec_accepted e locked r fwd f s wl s' evs :
  (phi e fwd (b_idx s) wl <= f)%nat -> Good e fwd s wl -> b_susp s = None ->
  exec e locked r fwd f s wl = (s', evs) ->
  match b_susp s' with Some (_, q) => accepted (b_app s') q = true | None => True end.
Proof.
  intros F G SN H.
  assert (X : match b_susp s' with Some (_, q) => [] = @nil act /\ accepted (b_app s') q = true | None => True end).
  { refine (exec_preserves e locked r fwd
              (fun s wl _ => match b_susp s with Some (_, q) => wl = [] /\ accepted (b_app s) q = true | None => True end)
              _ f s wl [] s' evs F G _ H).
    - intros s0 a wl0 acc0 s1 wl1 evs1 G0 I0 E.
      destruct (b_susp s0) as [[w q]|] eqn:S0; [destruct I0; discriminate|].
      destruct (step_frame _ _ _ _ _ _ _ _ _ _ E) as (_ & [SS | (req & SS & -> & _ & _ & AC)] & _).
      + rewrite SS, S0. exact I.
      + rewrite SS. auto.
    - rewrite SN. exact I. }
  destruct (b_susp s') as [[w q]|]; [tauto | exact I].
Qed.

Lemma exec_dead e locked r fwd f s wl s' evs :
  (phi e fwd (b_idx s) wl <= f)%nat -> Good e fwd s wl -> b_dead s = false ->
  exec e locked r fwd f s wl = (s', evs) -> b_dead s' = true -> b_app s' = 2 \/ b_app s' = 4.
Proof.
  intros F G DN H D.
  refine (proj2 (exec_preserves e locked r fwd
            (fun s wl _ => b_dead s = true -> wl = [] /\ (b_app s = 2 \/ b_app s = 4))
            _ f s wl [] s' evs F G _ H D)).
  - intros s0 a wl0 acc0 s1 wl1 evs1 G0 I0 E D1.
    destruct (b_dead s0) eqn:D0; [destruct (I0 eq_refl); discriminate|].
    destruct (step_frame _ _ _ _ _ _ _ _ _ _ E) as (_ & _ & [X | (_ & -> & _ & A & _)]); [congruence | auto].
  - intro X. congruence.
Qed.

Lemma exec_dead_app e locked r fwd f s wl s' evs :
  (phi e fwd (b_idx s) wl <= f)%nat -> Good e fwd s wl -> b_dead s = false ->
  exec e locked r fwd f s wl = (s', evs) -> b_dead s' = true -> is_app (e_mode e) = true.
Proof.
  intros F G DN H D.
  refine (proj2 (exec_preserves e locked r fwd
            (fun s wl _ => b_dead s = true -> wl = [] /\ is_app (e_mode e) = true)
            _ f s wl [] s' evs F G _ H D)).
  - intros s0 a wl0 acc0 s1 wl1 evs1 G0 I0 E D1.
    destruct (b_dead s0) eqn:D0; [destruct (I0 eq_refl); discriminate|].
    destruct (step_frame _ _ _ _ _ _ _ _ _ _ E) as (_ & _ & [X | (_ & -> & _ & _ & A)]); [congruence | auto].
  - intro X. congruence.
Qed.

Definition GInv (e : env) (g : st) (log : list ev) : Prop :=
  caps_ok (s_caps g) /\
  Forall (tag_lt (Z.of_nat (length (s_runs g)))) log /\
  (forall k fwd idx, nth_error (s_runs g) k = Some (fwd, idx) ->
     near e fwd idx /\ RunInv e fwd (proj (Z.of_nat k) log) idx []) /\
  s_susp g = None.

Lemma left_bound e fwd idx : near e fwd idx -> (left_of e fwd idx <= length (e_mods e))%nat.
Proof. unfold near, left_of, nmods. destruct fwd; lia. Qed.

Lemma phi_start e fwd : (phi e fwd (first_idx e fwd) [ADo] <= fuel_for e)%nat.
Proof.
  unfold phi, fuel_for. simpl sumwt.
  assert ((left_of e fwd (first_idx e fwd) + slot e fwd (first_idx e fwd) [ADo] <= length (e_mods e))%nat).
  { unfold left_of, slot, first_idx, past_end, nmods. simpl head_do. destruct fwd.
    - destruct (Z.of_nat (length (e_mods e)) <=? 0) eqn:E; simpl; lia.
    - destruct (Z.of_nat (length (e_mods e)) - 1 <? 0) eqn:E; simpl; lia. }
  apply (Nat.mul_le_mono_r _ _ (weight e)) in H. lia.
Qed.

Lemma phi_fire e fwd idx i b : near e fwd idx -> (phi e fwd idx [ANx i b] <= fuel_for e)%nat.
Proof.
  intro N. unfold phi, fuel_for. simpl sumwt. unfold slot. simpl head_do. simpl andb. cbv iota.
  pose proof (left_bound _ _ _ N) as L.
  apply (Nat.mul_le_mono_r _ _ (weight e)) in L. lia.
Qed.

(* one burst of run r; the other runs may have work pending (Wf), it is not touched *)
Lemma burst_inv e locked g log (Wf : nat -> list act) r fwd idx0 idx wl g' evs :
  0 <= r -> caps_ok (s_caps g) ->
  Forall (tag_lt (Z.of_nat (length (s_runs g)))) log ->
  (forall k fwd' idx', k <> Z.to_nat r -> nth_error (s_runs g) k = Some (fwd', idx') ->
     near e fwd' idx' /\ RunInv e fwd' (proj (Z.of_nat k) log) idx' (Wf k)) ->
  nth_error (s_runs g) (Z.to_nat r) = Some (fwd, idx0) ->
  near e fwd idx -> wl_ok wl -> (phi e fwd idx wl <= fuel_for e)%nat ->
  RunInv e fwd (proj r log) idx wl ->
  burst e locked g r fwd idx wl = (g', evs) ->
  caps_ok (s_caps g') /\
  Forall (tag_lt (Z.of_nat (length (s_runs g')))) (log ++ evs) /\
  (forall k fwd' idx', nth_error (s_runs g') k = Some (fwd', idx') ->
     near e fwd' idx' /\
     RunInv e fwd' (proj (Z.of_nat k) (log ++ evs)) idx' (if Nat.eqb k (Z.to_nat r) then [] else Wf k)) /\
  Forall (tag_is r) evs /\ length (s_runs g') = length (s_runs g) /\
  (forall k, k <> Z.to_nat r -> nth_error (s_runs g') k = nth_error (s_runs g) k) /\
  match s_susp g' with
  | None => True
  | Some (r1, wl1, _) =>
      r1 = r /\ locked = false /\ no_do wl1 = true /\
      exists idx1, nth_error (s_runs g') (Z.to_nat r) = Some (fwd, idx1) /\
                   RunInv e fwd (proj r (log ++ evs)) idx1 wl1 /\ (phi e fwd idx1 wl1 < phi e fwd idx wl)%nat
  end /\
  match s_susp g' with Some (_, _, q) => accepted (s_app g') q = true | None => True end.
Proof.
  intros R CK T O Hn N W F L H. unfold burst in H.
  set (s0 := {| b_idx := idx; b_app := s_app g; b_cleaned := s_cleaned g; b_live := s_live g; b_bound := s_bound g; b_pub := s_pub g;
                b_prov := s_prov g; b_half := s_half g; b_caps := s_caps g; b_susp := None; b_dead := false |}) in *.
  destruct (exec e locked r fwd (fuel_for e) s0 wl) as [s1 evs1] eqn:E. inv H. simpl.
  assert (G0 : Good e fwd s0 wl) by (split; assumption).
  destruct (exec_tagged e locked r fwd (fuel_for e) s0 wl s1 evs F G0 E) as [TG N1].
  pose proof (exec_runinv e locked r fwd (fuel_for e) s0 wl log s1 evs F G0 L E) as L1.
  pose proof (exec_susp e locked r fwd (fuel_for e) s0 wl log s1 evs (phi e fwd idx wl) F G0 eq_refl L (le_n _) E) as SU.
  pose proof (exec_accepted e locked r fwd (fuel_for e) s0 wl s1 evs F G0 eq_refl E) as AC.
  assert (K : (Z.to_nat r < length (s_runs g))%nat) by (apply nth_error_Some; congruence).
  rewrite !length_upd_nth.
  split; [exact (exec_caps e locked r fwd (fuel_for e) s0 wl s1 evs R F G0 CK E)|].
  split; [apply Forall_app; split; [exact T|]; apply (tag_is_lt r); [lia | exact TG]|].
  split.
  { intros k fwd' idx' Hk.
    destruct (Nat.eq_dec (Z.to_nat r) k) as [<-|NE].
    + rewrite nth_error_upd_same in Hk by exact K. inv Hk.
      rewrite Z2Nat.id by lia. rewrite Nat.eqb_refl. split; [exact N1 | exact L1].
    + rewrite nth_error_upd_other in Hk by exact NE.
      destruct (O _ _ _ (not_eq_sym NE) Hk) as [A B]. split; [exact A|].
      assert (NZ : Z.of_nat k <> r) by (intro X; apply NE; rewrite <- X; apply Nat2Z.id).
      rewrite proj_app, (proj_other r _ _ TG NZ), app_nil_r.
      destruct (Nat.eqb_spec k (Z.to_nat r)); [congruence | exact B]. }
  split; [exact TG|]. split; [reflexivity|].
  split; [intros k NE; apply nth_error_upd_other; congruence|].
  destruct (b_susp s1) as [[w q]|]; [|split; exact I].
  destruct SU as (A & B & C & D). split; [|exact AC].
  split; [reflexivity|]. split; [exact D|]. split; [exact B|].
  exists (b_idx s1). split; [apply nth_error_upd_same; exact K|]. split; [exact A | exact C].
Qed.

Lemma new_run_invW e g log (Wf : nat -> list act) fwd g' evs :
  caps_ok (s_caps g) -> Forall (tag_lt (Z.of_nat (length (s_runs g)))) log ->
  (forall k fwd' idx', nth_error (s_runs g) k = Some (fwd', idx') ->
     near e fwd' idx' /\ RunInv e fwd' (proj (Z.of_nat k) log) idx' (Wf k)) ->
  new_run e g fwd = (g', evs) ->
  caps_ok (s_caps g') /\
  Forall (tag_lt (Z.of_nat (length (s_runs g')))) (log ++ evs) /\
  (forall k fwd' idx', nth_error (s_runs g') k = Some (fwd', idx') ->
     near e fwd' idx' /\
     RunInv e fwd' (proj (Z.of_nat k) (log ++ evs)) idx' (if Nat.eqb k (length (s_runs g)) then [] else Wf k)) /\
  Forall (tag_is (Z.of_nat (length (s_runs g)))) evs /\
  length (s_runs g') = S (length (s_runs g)) /\
  (forall k, (k < length (s_runs g))%nat -> nth_error (s_runs g') k = nth_error (s_runs g) k) /\
  s_susp g' = None.
Proof.
  intros CK T O H. unfold new_run in H.
  eapply (burst_inv e true (push_run g (fwd, first_idx e fwd)) log Wf) in H; simpl.
  - destruct H as (A & B & C & D & E & F & G & _). simpl in *. rewrite app_length in *. simpl in *. rewrite Nat2Z.id in *.
    split; [exact A|]. split; [exact B|]. split; [exact C|]. split; [exact D|].
    split; [lia|]. split.
    + intros k Hk. rewrite F by lia. apply nth_error_app1. exact Hk.
    + destruct (s_susp g') as [[[r1 w1] q1]|]; [|reflexivity]. destruct G as (_ & X & _). discriminate.
  - lia.
  - exact CK.
  - simpl. eapply tag_lt_weaken; [|exact T]. rewrite app_length. simpl. lia.
  - simpl. intros k fwd' idx' NE Hk. rewrite Nat2Z.id in NE.
    assert (KL : (k < length (s_runs g))%nat).
    { assert (KL' : (k < length (s_runs g ++ [(fwd, first_idx e fwd)]))%nat) by (apply nth_error_Some; congruence).
      rewrite app_length in KL'. simpl in KL'. lia. }
    rewrite nth_error_app1 in Hk by exact KL. apply O. exact Hk.
  - simpl. rewrite Nat2Z.id, nth_error_app2 by lia. rewrite Nat.sub_diag. reflexivity.
  - apply near_first.
  - reflexivity.
  - apply phi_start.
  - rewrite (proj_fresh _ _ T). apply runinv_init.
Qed.

Lemma new_run_inv e g log fwd g' evs :
  GInv e g log -> new_run e g fwd = (g', evs) ->
  GInv e g' (log ++ evs) /\ Forall (tag_is (Z.of_nat (length (s_runs g)))) evs /\
  length (s_runs g') = S (length (s_runs g)).
Proof.
  intros (CK & T & O & _) H.
  destruct (new_run_invW e g log (fun _ => []) fwd g' evs CK T O H) as (A & B & C & D & E & _ & G).
  split; [|split; assumption].
  split; [exact A|]. split; [exact B|]. split; [|exact G].
  intros k fwd' idx' Hk. destruct (C _ _ _ Hk) as [X Y]. split; [exact X|].
  destruct (Nat.eqb k (length (s_runs g))); exact Y.
Qed.

Lemma ginv_set_app e g log a : GInv e g log -> GInv e (set_app g a) log.
Proof. intro H. exact H. Qed.

(* what is pending behind an accepted request *)
Definition pend (g : st) : option (Z * list act) :=
  match s_susp g with Some (r, wl, _) => Some (r, wl) | None => None end.

(* the state between two bursts of one operation *)
Definition SInv (e : env) (n : nat) (g : st) (log : list ev) : Prop :=
  caps_ok (s_caps g) /\ Forall (tag_lt (Z.of_nat (length (s_runs g)))) log /\
  match s_susp g with
  | None => forall k fwd idx, nth_error (s_runs g) k = Some (fwd, idx) ->
              near e fwd idx /\ RunInv e fwd (proj (Z.of_nat k) log) idx []
  | Some (r, wl, q) =>
      0 <= r /\ no_do wl = true /\ accepted (s_app g) q = true /\
      (forall k fwd idx, nth_error (s_runs g) k = Some (fwd, idx) ->
         near e fwd idx /\ RunInv e fwd (proj (Z.of_nat k) log) idx (if Nat.eqb k (Z.to_nat r) then wl else [])) /\
      exists fwd idx, nth_error (s_runs g) (Z.to_nat r) = Some (fwd, idx) /\ (phi e fwd idx wl < n)%nat /\
                      (phi e fwd idx wl <= fuel_for e)%nat
  end.

(* one round of [settle]: the requested run, then the rest of the suspended burst *)
Lemma settle_step e n g log r wl q g1 e1 :
  SInv e (S n) g log -> s_susp g = Some (r, wl, q) ->
  new_run e (set_app g (if q then 2 else 4)) q = (g1, e1) ->
  exists fwd idx,
    nth_error (s_runs g) (Z.to_nat r) = Some (fwd, idx) /\ nth_error (s_runs g1) (Z.to_nat r) = Some (fwd, idx) /\
    0 <= r /\ near e fwd idx /\ no_do wl = true /\ (phi e fwd idx wl <= fuel_for e)%nat /\
    accepted (s_app g) q = true /\
    GInv e g1 (log ++ e1) /\
    forall g2 e2, burst e false g1 r fwd idx wl = (g2, e2) -> SInv e n g2 ((log ++ e1) ++ e2).
Proof.
  intros (CK & T & S) SG E1. rewrite SG in S.
  destruct S as (R & ND & AC & O & fwd & idx & Hr & PL & PF).
  assert (KR : (Z.to_nat r < length (s_runs g))%nat) by (apply nth_error_Some; congruence).
  destruct (new_run_invW e (set_app g (if q then 2 else 4)) log
              (fun k => if Nat.eqb k (Z.to_nat r) then wl else []) q g1 e1 CK T O E1)
    as (CK1 & T1 & O1 & TG1 & L1 & KP1 & SN1).
  simpl in *.
  assert (NR : Nat.eqb (Z.to_nat r) (length (s_runs g)) = false) by (apply Nat.eqb_neq; lia).
  assert (DROP : forall k fwd' idx', nth_error (s_runs g1) k = Some (fwd', idx') ->
                   near e fwd' idx' /\ RunInv e fwd' (proj (Z.of_nat k) (log ++ e1)) idx' []).
  { intros k fwd' idx' Hk. destruct (O1 _ _ _ Hk) as [X Y]. split; [exact X|].
    destruct (Nat.eqb k (length (s_runs g))); [exact Y|].
    destruct (Nat.eqb k (Z.to_nat r)); [|exact Y].
    eapply runinv_wl; [|exact Y]. simpl. apply no_do_head. exact ND. }
  assert (Hr1 : nth_error (s_runs g1) (Z.to_nat r) = Some (fwd, idx)) by (rewrite (KP1 _ KR); exact Hr).
  exists fwd, idx. split; [exact Hr|]. split; [exact Hr1|]. split; [exact R|].
  split; [exact (proj1 (O _ _ _ Hr))|]. split; [exact ND|]. split; [exact PF|]. split; [exact AC|].
  split; [exact (conj CK1 (conj T1 (conj DROP SN1)))|].
  intros g2 e2 E2.
  assert (RI : RunInv e fwd (proj r (log ++ e1)) idx wl).
  { destruct (O1 _ _ _ Hr1) as [_ Y]. rewrite NR, Nat.eqb_refl, Z2Nat.id in Y by exact R. exact Y. }
  destruct (burst_inv e false g1 (log ++ e1) (fun _ => []) r fwd idx idx wl g2 e2 R CK1 T1
              (fun k f i _ Hk => DROP k f i Hk) Hr1 (proj1 (O _ _ _ Hr)) (no_do_tl _ ND) PF RI E2)
    as (CK2 & T2 & O2 & _ & L2 & KP2 & SU2 & AC2).
  split; [exact CK2|]. split; [exact T2|].
  destruct (s_susp g2) as [[[r2 w2] q2]|].
  + destruct SU2 as (-> & _ & ND2 & idx2 & Hr2 & RI2 & PD). split; [exact R|]. split; [exact ND2|].
    split; [exact AC2|]. split.
    * intros k f i Hk. destruct (O2 _ _ _ Hk) as [X Y]. split; [exact X|].
      destruct (Nat.eqb_spec k (Z.to_nat r)) as [->|]; [|exact Y].
      rewrite Hr2 in Hk. inv Hk. rewrite Z2Nat.id by exact R. exact RI2.
    * exists fwd, idx2. split; [exact Hr2|]. split; lia.
  + intros k f i Hk. destruct (O2 _ _ _ Hk) as [X Y]. split; [exact X|].
    destruct (Nat.eqb k (Z.to_nat r)); exact Y.
Qed.

Lemma sinv_none e n g log : SInv e n g log -> s_susp g = None -> GInv e g log.
Proof. intros (CK & T & S) SG. rewrite SG in S. exact (conj CK (conj T (conj S SG))). Qed.

Lemma sinv_fuel e g log r wl q : SInv e 0 g log -> s_susp g = Some (r, wl, q) -> False.
Proof. intros (_ & _ & S) SG. rewrite SG in S. destruct S as (_ & _ & _ & _ & fwd & idx & _ & X & _). lia. Qed.

(* the requests accepted outside the lock are carried out; afterwards nothing is suspended.
   Q: any further invariant that survives the requested run (HA) and the rest of the
   suspended burst (HB); its first argument is the pending work *)
Lemma settle_ind e (Q : option (Z * list act) -> st -> list ev -> Prop)
  (HD : forall p g log, Q (Some p) g log -> Q None g log)
  (HA : forall g log r wl q g1 e1,
      Q (Some (r, wl)) g log -> s_susp g = Some (r, wl, q) -> accepted (s_app g) q = true ->
      (exists fwd idx, nth_error (s_runs g) (Z.to_nat r) = Some (fwd, idx)) ->
      new_run e (set_app g (if q then 2 else 4)) q = (g1, e1) -> Q (Some (r, wl)) g1 (log ++ e1))
  (HB : forall g log r fwd idx wl g2 e2,
      Q (Some (r, wl)) g log -> 0 <= r -> nth_error (s_runs g) (Z.to_nat r) = Some (fwd, idx) ->
      near e fwd idx -> no_do wl = true -> (phi e fwd idx wl <= fuel_for e)%nat -> GInv e g log ->
      burst e false g r fwd idx wl = (g2, e2) -> Q (pend g2) g2 (log ++ e2)) :
  forall n g log g' evs,
  SInv e n g log -> Q (pend g) g log ->
  settle n e g = (g', evs) -> GInv e g' (log ++ evs) /\ Q None g' (log ++ evs).
Proof.
  induction n as [|n IH]; intros g log g' evs S HQ H.
  - simpl in H. destruct (s_susp g) as [[[r wl] q]|] eqn:SG.
    + destruct (sinv_fuel _ _ _ _ _ _ S SG).
    + inv H. rewrite app_nil_r. split; [exact (sinv_none _ _ _ _ S SG)|].
      unfold pend in HQ. rewrite SG in HQ. exact HQ.
  - simpl in H. destruct (s_susp g) as [[[r wl] q]|] eqn:SG.
    2:{ inv H. rewrite app_nil_r. split; [exact (sinv_none _ _ _ _ S SG)|].
        unfold pend in HQ. rewrite SG in HQ. exact HQ. }
    unfold pend in HQ. rewrite SG in HQ.
    destruct (new_run e (set_app g (if q then 2 else 4)) q) as [g1 e1] eqn:E1.
    destruct (settle_step e n g log r wl q g1 e1 S SG E1)
      as (fwd & idx & Hr & Hr1 & R & N & ND & PF & AC & G1 & NEXT).
    pose proof (HA g log r wl q g1 e1 HQ SG AC (ex_intro _ fwd (ex_intro _ idx Hr)) E1) as Q1.
    destruct (s_dead g1).
    { inv H. split; [exact G1|]. eapply HD. exact Q1. }
    rewrite Hr1 in H.
    destruct (burst e false g1 r fwd idx wl) as [g2 e2] eqn:E2.
    destruct (settle n e g2) as [g3 e3] eqn:E3. inv H.
    pose proof (HB g1 (log ++ e1) r fwd idx wl g2 e2 Q1 R Hr1 N ND PF G1 E2) as Q2.
    rewrite !app_assoc.
    eapply IH; [exact (NEXT _ _ eq_refl) | exact Q2 | exact E3].
Qed.

(* a fired continuation: the burst, then whatever it left suspended *)
Lemma fire_sinv e g log r fwd idx i b g1 e1 :
  GInv e g log -> 0 <= r -> nth_error (s_runs g) (Z.to_nat r) = Some (fwd, idx) ->
  burst e false g r fwd idx [ANx i b] = (g1, e1) -> SInv e (fuel_for e) g1 (log ++ e1).
Proof.
  intros (CK & T & O & SN) NN Hr E1. destruct (O _ _ _ Hr) as [N L].
  assert (RI : RunInv e fwd (proj r log) idx [ANx i b]).
  { rewrite Z2Nat.id in L by exact NN. eapply runinv_wl; [|exact L]. reflexivity. }
  destruct (burst_inv e false g log (fun _ => []) r fwd idx idx [ANx i b] g1 e1 NN CK T
              (fun k f i' _ Hk => O k f i' Hk) Hr N eq_refl (phi_fire e fwd idx i b N) RI E1)
    as (CK1 & T1 & O1 & _ & L1 & KP1 & SU1 & AC1).
  split; [exact CK1|]. split; [exact T1|].
  pose proof (phi_fire e fwd idx i b N) as PF.
  destruct (s_susp g1) as [[[r1 w1] q1]|].
  + destruct SU1 as (-> & _ & ND1 & idx1 & Hr1 & RI1 & PD). split; [exact NN|]. split; [exact ND1|].
    split; [exact AC1|]. split.
    * intros k' f i' Hk. destruct (O1 _ _ _ Hk) as [X Y]. split; [exact X|].
      destruct (Nat.eqb_spec k' (Z.to_nat r)) as [->|]; [|exact Y].
      rewrite Hr1 in Hk. inv Hk. rewrite Z2Nat.id by exact NN. exact RI1.
    * exists fwd, idx1. split; [exact Hr1|]. split; lia.
  + intros k' f i' Hk. destruct (O1 _ _ _ Hk) as [X Y]. split; [exact X|].
    destruct (Nat.eqb k' (Z.to_nat r)); exact Y.
Qed.

Lemma settle_inv e n g log g' evs :
  SInv e n g log -> settle n e g = (g', evs) -> GInv e g' (log ++ evs).
Proof.
  intros S H.
  refine (proj1 (settle_ind e (fun _ _ _ => True) _ _ _ n g log g' evs S I H)); auto.
Qed.

Lemma do_op_inv e g log o g' evs :
  GInv e g log -> do_op e g o = (g', evs) -> GInv e g' (log ++ evs).
Proof.
  intros G H. unfold do_op in H.
  destruct (s_dead g); [inv H; rewrite app_nil_r; exact G|].
  destruct o as [m|a en et|k|ft|cf cq| | |k b];
    try (inv H; rewrite app_nil_r; exact G).
  - destruct (is_app (e_mode e)).
    + destruct (s_app g =? 1); [|inv H; rewrite app_nil_r; exact G].
      exact (proj1 (new_run_inv e (set_app g 2) log true g' evs G H)).
    + exact (proj1 (new_run_inv e g log true g' evs G H)).
  - destruct (is_app (e_mode e)).
    + destruct (s_app g =? 3); [|inv H; rewrite app_nil_r; exact G].
      exact (proj1 (new_run_inv e (set_app g 4) log false g' evs G H)).
    + exact (proj1 (new_run_inv e g log false g' evs G H)).
  - destruct (k <? 0); [inv H; rewrite app_nil_r; exact G|].
    destruct (nth_error (s_caps g) (Z.to_nat k)) as [[r i]|] eqn:Hc; [|inv H; rewrite app_nil_r; exact G].
    destruct (nth_error (s_runs g) (Z.to_nat r)) as [[fwd idx]|] eqn:Hr; [|inv H; rewrite app_nil_r; exact G].
    assert (NN : 0 <= r).
    { destruct G as (CK & _). apply nth_error_In in Hc. unfold caps_ok in CK. rewrite Forall_forall in CK. apply (CK _ Hc). }
    destruct (burst e false g r fwd idx [ANx i b]) as [g1 e1] eqn:E1.
    destruct (settle (fuel_for e) e g1) as [g2 e2] eqn:E2. inv H.
    rewrite app_assoc. eapply settle_inv; [|exact E2]. eapply fire_sinv; eauto.
Qed.


Lemma run_from_inv e ops : forall g log g' xs,
  GInv e g log -> run_from e g ops = (g', xs) -> GInv e g' (log ++ concat xs).
Proof.
  induction ops as [|o ops IH]; intros g log g' xs G H; simpl in H.
  - inv H. simpl. rewrite app_nil_r. exact G.
  - destruct (do_op e g o) as [g1 x] eqn:E1. destruct (run_from e g1 ops) as [g2 xs2] eqn:E2. inv H.
    simpl. rewrite app_assoc. eapply IH; [|exact E2]. eapply do_op_inv; eauto.
Qed.

Lemma ginv_init e : GInv e (init e) [].
Proof.
  split; [constructor|]. split; [constructor|]. split; [|reflexivity]. intros k fwd idx H. destruct k; discriminate.
Qed.

Lemma ginv_final ops : GInv (env_of ops) (final ops) (concat (run ops)).
Proof.
  unfold final, run.
  destruct (run_from (env_of ops) (init (env_of ops)) ops) as [g xs] eqn:E. simpl.
  apply (run_from_inv _ _ _ [] _ _ (ginv_init _) E).
Qed.

Lemma run_link ops r fwd idx :
  run_info ops r = Some (fwd, idx) ->
  near (env_of ops) fwd idx /\ RunInv (env_of ops) fwd (trace ops r) idx [].
Proof.
  unfold run_info, trace. destruct (Z.ltb_spec r 0) as [|NN]; [discriminate|]. intro H.
  destruct (ginv_final ops) as (_ & _ & O & _). specialize (O _ _ _ H).
  rewrite Z2Nat.id in O by exact NN. exact O.
Qed.

(* the master statement: under the at-most-once hypothesis the trace of every run follows the
   one-at-a-time discipline, no call is left in progress, and with exactly-once it is over *)
Lemma discipline ops r fwd idx :
  run_info ops r = Some (fwd, idx) -> at_most_once (trace ops r) ->
  exists q, arun (Idle (order fwd (nmods_of ops))) (trace ops r) = Some q /\ settled q = true /\
            (exactly_once (trace ops r) -> q = Done).
Proof.
  intros H A. destruct (run_link _ _ _ _ H) as [_ [L _]].
  unfold at_most_once in A. destruct (pending (trace ops r)) as [P|] eqn:EP; [|contradiction].
  destruct (L _ EP) as (q & R & M). exists q. split; [exact R|].
  assert (S : settled q = true).
  { destruct q; simpl in *; try reflexivity; [destruct M; discriminate | contradiction]. }
  split; [exact S|]. unfold exactly_once. intro X. rewrite EP in X. inv X.
  pose proof (pend_arun _ _ _ _ R EP) as Q. simpl in Q.
  destruct q; simpl in Q, S; try discriminate; reflexivity.
Qed.

Lemma start_stop_order ops r fwd idx :
  run_info ops r = Some (fwd, idx) -> at_most_once (trace ops r) ->
  in_order (order fwd (nmods_of ops)) (trace ops r).
Proof.
  intros H A. destruct (discipline _ _ _ _ H A) as (q & R & _). eapply in_order_of_conforms; eauto.
Qed.

Lemma first_failure ops r fwd idx :
  run_info ops r = Some (fwd, idx) -> at_most_once (trace ops r) -> failure_stops (trace ops r).
Proof.
  intros H A. destruct (discipline _ _ _ _ H A) as (q & R & S & _).
  eapply failure_stops_of_conforms; eauto.
Qed.

Lemma finish_once ops r fwd idx :
  run_info ops r = Some (fwd, idx) -> at_most_once (trace ops r) ->
  finish_last_with_outcome (order fwd (nmods_of ops)) (trace ops r) /\
  (length (fins (trace ops r)) <= 1)%nat /\
  (exactly_once (trace ops r) -> finished_once (trace ops r)).
Proof.
  intros H A. destruct (discipline _ _ _ _ H A) as (q & R & S & X).
  split; [eapply finish_of_conforms; eauto|]. split.
  - destruct q; try (rewrite (fins_none _ _ _ R) by discriminate; simpl; lia).
    destruct (fins_done _ _ R) as [b ->]; [discriminate | simpl; lia].
  - intro E. rewrite (X E) in R. apply (fins_done _ _ R). discriminate.
Qed.

(* a run whose current module never completes never finishes *)
Lemma stalled_no_finish ops r fwd idx i P :
  run_info ops r = Some (fwd, idx) -> pending (trace ops r) = Some (i :: P) -> fins (trace ops r) = [].
Proof.
  intros H EP. destruct (run_link _ _ _ _ H) as [_ [L _]].
  destruct (L _ EP) as (q & R & M).
  pose proof (pend_arun _ _ _ _ R EP) as Q. simpl in Q.
  destruct q; simpl in Q; try discriminate. eapply fins_none; [exact R | discriminate].
Qed.

(* ---- unconditional consequences ---- *)
Lemma accounting_all ops r fwd idx :
  run_info ops r = Some (fwd, idx) -> accounting (trace ops r).
Proof.
  intro H. destruct (run_link _ _ _ _ H) as [_ (_ & A & _)].
  unfold Acct in A. simpl in A. unfold accounting. lia.
Qed.

Lemma monotone_all ops r fwd idx :
  run_info ops r = Some (fwd, idx) ->
  if fwd then increasing (entered (trace ops r)) else decreasing (entered (trace ops r)).
Proof.
  intro H. destruct (run_link _ _ _ _ H) as [_ (_ & _ & [M _])]. exact M.
Qed.

Lemma no_artifacts ops x :
  In x (concat (run ops)) -> x <> EOutOfFuel /\ x <> EHang /\ forall r, x <> EIndexPanic r.
Proof.
  intro H. destruct (ginv_final ops) as (_ & T & _).
  rewrite Forall_forall in T. specialize (T _ H).
  destruct x; simpl in T; try contradiction; repeat split; try discriminate; intros; discriminate.
Qed.

(* ====================================================================================== *)
(* Part D - App.Start / App.Stop guards                                                    *)
(* ====================================================================================== *)

Lemma n_fin_true_app t1 t2 : n_fin_true (t1 ++ t2) = (n_fin_true t1 + n_fin_true t2)%nat.
Proof. unfold n_fin_true. rewrite fins_app, filter_app, app_length. reflexivity. Qed.

Section RunApp.
  Variables (e : env) (locked : bool) (r : Z) (fwd : bool).

  Definition app_started (a : Z) : Prop := a <> 0 /\ a <> 1.

  Lemma step_app s a wl s' wl' evs :
    step e locked r fwd a s wl = (s', wl', evs) ->
    (app_started (b_app s) -> app_started (b_app s')) /\
    (b2n (Z.eqb (b_app s') 3) <= b2n (Z.eqb (b_app s) 3) + (if fwd then n_fin_true (proj r evs) else 0))%nat.
  Proof.
    intro H. unfold step in H. destruct a as [|i b|i p].
    - destruct (past_end e fwd (b_idx s)).
      + unfold finish_effect in H. rewrite andb_true_r in H.
        destruct (is_app (e_mode e)).
        * destruct fwd.
          -- split_callback H.
             ++ inv H. simpl. split; [intros _; split; discriminate|].
                unfold proj. simpl. rewrite Z.eqb_refl. simpl. unfold n_fin_true. simpl. lia.
             ++ inv H. simpl. split; [intros _; destruct req; split; discriminate|].
                unfold proj. simpl. rewrite Z.eqb_refl. simpl. unfold n_fin_true. simpl. destruct req; simpl; lia.
             ++ inv H. simpl. split; [intros _; split; discriminate|].
                unfold proj. simpl. rewrite Z.eqb_refl. simpl. unfold n_fin_true. simpl. lia.
          -- split_callback H.
             ++ destruct (b_cleaned s); [destruct (unwind r wl)|]; inv H; simpl;
                  (split; [intros _; split; discriminate | lia]).
             ++ inv H. simpl. split; [intros _; destruct req; split; discriminate | destruct req; simpl; lia].
             ++ inv H. simpl. split; [intros _; split; discriminate | lia].
        * split_callback H; inv H; simpl; try (split; [auto | lia]).
          split; [intros _; destruct req; split; discriminate | destruct req; simpl; lia].
      + destruct ((b_idx s <? 0) || (nmods e <=? b_idx s)).
        * destruct (unwind r wl). inv H. split; [auto | lia].
        * inv H. simpl. split; [auto | lia].
    - destruct b.
      + inv H; simpl; (split; [auto | lia]).
      + split_callback H; inv H; simpl; try (split; [auto | lia]).
        split; [intros _; destruct req; split; discriminate | destruct req; simpl; lia].
    - inv H. split; [auto | lia].
  Qed.

  Lemma exec_app f s wl s' evs :
    (phi e fwd (b_idx s) wl <= f)%nat -> Good e fwd s wl -> exec e locked r fwd f s wl = (s', evs) ->
    (app_started (b_app s) -> app_started (b_app s')) /\
    (b2n (Z.eqb (b_app s') 3) <= b2n (Z.eqb (b_app s) 3) + (if fwd then n_fin_true (proj r evs) else 0))%nat.
  Proof.
    intros F G H.
    refine (exec_preserves e locked r fwd
              (fun s1 _ acc => (app_started (b_app s) -> app_started (b_app s1)) /\
                 (b2n (Z.eqb (b_app s1) 3) <= b2n (Z.eqb (b_app s) 3) + (if fwd then n_fin_true (proj r acc) else 0))%nat)
              _ f s wl [] s' evs F G _ H).
    - intros s0 a wl0 acc s1 wl1 evs1 _ [A B] E.
      destruct (step_app _ _ _ _ _ _ E) as [A1 B1]. split; [auto|].
      rewrite proj_app, n_fin_true_app. destruct fwd; lia.
    - split; [auto|]. destruct fwd; simpl; lia.
  Qed.
End RunApp.

Lemma burst_app e locked g r fwd idx wl g' evs :
  near e fwd idx -> wl_ok wl -> (phi e fwd idx wl <= fuel_for e)%nat ->
  burst e locked g r fwd idx wl = (g', evs) ->
  (exists idx', s_runs g' = upd_nth (Z.to_nat r) (fwd, idx') (s_runs g)) /\
  (app_started (s_app g) -> app_started (s_app g')) /\
  (b2n (Z.eqb (s_app g') 3) <= b2n (Z.eqb (s_app g) 3) + (if fwd then n_fin_true (proj r evs) else 0))%nat /\
  (s_dead g' = true -> s_app g' = 2 \/ s_app g' = 4).
Proof.
  intros N W F H. unfold burst in H.
  set (s0 := {| b_idx := idx; b_app := s_app g; b_cleaned := s_cleaned g; b_live := s_live g; b_bound := s_bound g; b_pub := s_pub g;
                b_prov := s_prov g; b_half := s_half g; b_caps := s_caps g; b_susp := None; b_dead := false |}) in *.
  destruct (exec e locked r fwd (fuel_for e) s0 wl) as [s1 evs1] eqn:E. inv H. simpl.
  assert (G0 : Good e fwd s0 wl) by (split; assumption).
  destruct (exec_app e locked r fwd (fuel_for e) s0 wl s1 evs F G0 E) as [A B].
  split; [eexists; reflexivity|]. split; [exact A|]. split; [exact B|].
  exact (exec_dead e locked r fwd (fuel_for e) s0 wl s1 evs F G0 eq_refl E).
Qed.

Lemma n_runs_app d l x : n_runs d (l ++ [x]) = (n_runs d l + b2n (Bool.eqb (fst x) d))%nat.
Proof.
  unfold n_runs. rewrite filter_app, app_length. simpl. destruct (Bool.eqb (fst x) d); reflexivity.
Qed.

Lemma n_runs_upd d l : forall k f i i', nth_error l k = Some (f, i) -> n_runs d (upd_nth k (f, i') l) = n_runs d l.
Proof.
  induction l as [|x l IH]; intros [|k] f i i' H; simpl in *; try discriminate.
  - inv H. unfold n_runs. simpl. destruct (Bool.eqb f d); reflexivity.
  - unfold n_runs in *. simpl. specialize (IH _ _ _ i' H).
    destruct (Bool.eqb (fst x) d); simpl; rewrite IH; reflexivity.
Qed.

Lemma n_runs_ge1 d l : forall k i, nth_error l k = Some (d, i) -> (1 <= n_runs d l)%nat.
Proof.
  induction l as [|x l IH]; intros [|k] i H; simpl in *; try discriminate.
  - inv H. unfold n_runs. simpl. rewrite Bool.eqb_reflx. simpl. lia.
  - specialize (IH _ _ H). unfold n_runs in *. simpl. destruct (Bool.eqb (fst x) d); simpl; lia.
Qed.

Lemma n_runs_unique d l : forall k k' i i',
  (n_runs d l <= 1)%nat -> nth_error l k = Some (d, i) -> nth_error l k' = Some (d, i') -> k = k'.
Proof.
  induction l as [|x l IH]; intros [|k] [|k'] i i' L H H'; simpl in *; try discriminate; try reflexivity.
  - inv H. pose proof (n_runs_ge1 _ _ _ _ H'). unfold n_runs in *. simpl in L.
    rewrite Bool.eqb_reflx in L. simpl in L. lia.
  - inv H'. pose proof (n_runs_ge1 _ _ _ _ H). unfold n_runs in *. simpl in L.
    rewrite Bool.eqb_reflx in L. simpl in L. lia.
  - f_equal. eapply IH; eauto. unfold n_runs in *. simpl in L.
    destruct (Bool.eqb (fst x) d); simpl in L; lia.
Qed.

Definition AInv (g : st) (log : list ev) : Prop :=
  ((s_app g = 0 \/ s_app g = 1) -> s_runs g = []) /\
  (app_started (s_app g) -> n_runs true (s_runs g) = 1%nat) /\
  (forall k idx, nth_error (s_runs g) k = Some (true, idx) ->
     (n_runs false (s_runs g) + b2n (Z.eqb (s_app g) 3) <= n_fin_true (proj (Z.of_nat k) log))%nat) /\
  (s_dead g = true -> s_app g = 2 \/ s_app g = 4).

Lemma started_dec a : app_started a \/ (a = 0 \/ a = 1).
Proof. unfold app_started. lia. Qed.

(* an accepted Stop: a new stop run, paid for by the finish(true) that made the state Normal *)
Lemma stop_run_ainv e g log g' evs :
  AInv g log -> s_app g = 3 -> new_run e (set_app g 4) false = (g', evs) -> AInv g' (log ++ evs).
Proof.
  intros A0 E3 H. pose proof A0 as (Ab & Ad & Ac & _).
  assert (T1 : n_runs true (s_runs g) = 1%nat) by (apply Ad; split; lia).
  unfold new_run in H. simpl in H.
  apply burst_app in H; [|apply near_first | reflexivity | apply phi_start].
  destruct H as ([idx' R] & S & B & DD). cbn [s_runs s_app set_app push_run] in *.
  change (nmods e - 1) with (first_idx e false) in *. change (4 =? 3) with false in B. simpl in B.
  assert (S' : app_started (s_app g')) by (apply S; split; discriminate).
  rewrite Nat2Z.id in R.
  assert (Hlast : nth_error (s_runs g ++ [(false, first_idx e false)]) (length (s_runs g)) = Some (false, first_idx e false)).
  { rewrite nth_error_app2 by lia. rewrite Nat.sub_diag. reflexivity. }
  split; [|split; [|split; [|exact DD]]].
  + intros [X|X]; destruct S'; contradiction.
  + intros _. rewrite R, (n_runs_upd _ _ _ _ _ _ Hlast), n_runs_app. simpl. lia.
  + intros k idx Hk. rewrite R in Hk.
    destruct (Nat.eq_dec (length (s_runs g)) k) as [<-|NE].
    * rewrite nth_error_upd_same in Hk by (rewrite app_length; simpl; lia). discriminate.
    * rewrite nth_error_upd_other in Hk by exact NE.
      assert (KL : (k < length (s_runs g))%nat).
      { assert (KL' : (k < length (s_runs g ++ [(false, first_idx e false)]))%nat) by (apply nth_error_Some; congruence).
        rewrite app_length in KL'. simpl in KL'. lia. }
      rewrite nth_error_app1 in Hk by exact KL.
      specialize (Ac _ _ Hk). rewrite E3 in Ac. simpl in Ac.
      rewrite R, (n_runs_upd _ _ _ _ _ _ Hlast), n_runs_app. simpl.
      rewrite proj_app, n_fin_true_app. lia.
Qed.

(* a burst of an existing run *)
Lemma fire_ainv e locked g log r fwd idx wl g' evs :
  AInv g log -> 0 <= r -> nth_error (s_runs g) (Z.to_nat r) = Some (fwd, idx) ->
  near e fwd idx -> wl_ok wl -> (phi e fwd idx wl <= fuel_for e)%nat ->
  burst e locked g r fwd idx wl = (g', evs) -> AInv g' (log ++ evs).
Proof.
  intros (Ab & Ad & Ac & _) NN Hr N W PF H.
  apply burst_app in H; [|exact N | exact W | exact PF].
  destruct H as ([idx' R] & S & B & DD).
  assert (S0 : app_started (s_app g)).
  { destruct (started_dec (s_app g)) as [X|X]; [exact X|]. rewrite (Ab X) in Hr. destruct (Z.to_nat r); discriminate. }
  pose proof (Ad S0) as T1.
  split; [|split; [|split; [|exact DD]]].
  + intros X. destruct (S S0). destruct X; contradiction.
  + intros _. rewrite R, (n_runs_upd _ _ _ _ _ _ Hr). exact T1.
  + intros k' idx'' Hk. rewrite R in Hk. rewrite R, (n_runs_upd _ _ _ _ _ _ Hr).
    rewrite proj_app, n_fin_true_app.
    destruct (Nat.eq_dec (Z.to_nat r) k') as [<-|NE].
    * rewrite nth_error_upd_same in Hk by (apply nth_error_Some; congruence). inv Hk.
      specialize (Ac _ _ Hr). rewrite Z2Nat.id in * by exact NN. lia.
    * rewrite nth_error_upd_other in Hk by exact NE.
      specialize (Ac _ _ Hk).
      destruct fwd.
      -- exfalso. apply NE. eapply n_runs_unique; [|exact Hr | exact Hk]. lia.
      -- lia.
Qed.

Lemma settle_ainv e n g log g' evs :
  SInv e n g log -> AInv g log -> settle n e g = (g', evs) -> AInv g' (log ++ evs).
Proof.
  intros S A H.
  refine (proj2 (settle_ind e (fun _ g log => AInv g log) _ _ _ n g log g' evs S A H)).
  - auto.
  - intros g0 log0 r wl q g1 e1 A0 SG AC (fwd & idx & Hr) E1.
    destruct q; simpl in AC.
    + exfalso. destruct A0 as (Ab & _). apply Z.eqb_eq in AC.
      rewrite (Ab (or_intror AC)) in Hr. destruct (Z.to_nat r); discriminate.
    + apply Z.eqb_eq in AC. eapply stop_run_ainv; eauto.
  - intros g0 log0 r fwd idx wl g2 e2 A0 R Hr N ND PF _ E2.
    eapply fire_ainv; eauto. apply no_do_tl. exact ND.
Qed.

Lemma do_op_ainv e g log o g' evs :
  is_app (e_mode e) = true -> GInv e g log -> AInv g log ->
  do_op e g o = (g', evs) -> AInv g' (log ++ evs).
Proof.
  intros M G A0 H. pose proof A0 as (Ab & Ad & Ac & Ae). unfold do_op in H.
  destruct (s_dead g); [inv H; rewrite app_nil_r; exact A0|].
  destruct o as [m|a en et|k|ft|cf cq| | |k b];
    try (inv H; rewrite app_nil_r; exact A0); rewrite ?M in H.
  - (* OStart *)
    destruct (Z.eqb_spec (s_app g) 1) as [E1|]; [|inv H; rewrite app_nil_r; exact A0].
    assert (R0 : s_runs g = []) by (apply Ab; auto).
    unfold new_run in H. simpl in H. rewrite R0 in H. simpl in H.
    apply burst_app in H; [|apply near_first | reflexivity | apply phi_start].
    destruct H as ([idx' R] & S & B & DD). simpl in *. rewrite R0 in R. simpl in R.
    assert (S' : app_started (s_app g')) by (apply S; split; discriminate).
    unfold AInv. rewrite R. split; [|split; [|split; [|exact DD]]].
    + intros [X|X]; destruct S'; contradiction.
    + intros _. reflexivity.
    + intros [|k] idx Hk; simpl in Hk; [|destruct k; discriminate].
      simpl. rewrite proj_app, n_fin_true_app. unfold n_runs. simpl. lia.
  - (* OStop *)
    destruct (Z.eqb_spec (s_app g) 3) as [E3|]; [|inv H; rewrite app_nil_r; exact A0].
    eapply stop_run_ainv; eauto.
  - (* OFire *)
    destruct (k <? 0); [inv H; rewrite app_nil_r; exact A0|].
    destruct (nth_error (s_caps g) (Z.to_nat k)) as [[r i]|] eqn:Hc; [|inv H; rewrite app_nil_r; exact A0].
    destruct (nth_error (s_runs g) (Z.to_nat r)) as [[fwd idx]|] eqn:Hr; [|inv H; rewrite app_nil_r; exact A0].
    pose proof G as (CK & T & O & SN). destruct (O _ _ _ Hr) as [N _].
    assert (NN : 0 <= r).
    { apply nth_error_In in Hc. unfold caps_ok in CK. rewrite Forall_forall in CK. apply (CK _ Hc). }
    destruct (burst e false g r fwd idx [ANx i b]) as [g1 e1] eqn:E1.
    destruct (settle (fuel_for e) e g1) as [g2 e2] eqn:E2. inv H.
    rewrite app_assoc. eapply settle_ainv; [eapply fire_sinv; eauto | | exact E2].
    eapply fire_ainv; eauto. reflexivity. apply phi_fire. exact N.
Qed.

Lemma run_from_ainv e ops : forall g log g' xs,
  is_app (e_mode e) = true -> GInv e g log -> AInv g log ->
  run_from e g ops = (g', xs) -> AInv g' (log ++ concat xs).
Proof.
  induction ops as [|o ops IH]; intros g log g' xs M G A H; simpl in H.
  - inv H. simpl. rewrite app_nil_r. exact A.
  - destruct (do_op e g o) as [g1 x] eqn:E1. destruct (run_from e g1 ops) as [g2 xs2] eqn:E2. inv H.
    simpl. rewrite app_assoc. eapply IH; [exact M | | | exact E2].
    + eapply do_op_inv; eauto.
    + eapply do_op_ainv; eauto.
Qed.

Lemma ainv_final ops :
  is_app (e_mode (env_of ops)) = true -> AInv (final ops) (concat (run ops)).
Proof.
  intro M. unfold final, run.
  destruct (run_from (env_of ops) (init (env_of ops)) ops) as [g xs] eqn:E. simpl.
  apply (run_from_ainv _ _ _ [] _ _ M (ginv_init _)) in E; [exact E|].
  unfold init. split; [reflexivity|]. split; [|split].
  - intros [A B]. simpl in *. destruct (e_mode (env_of ops)) as [|[|]| |]; simpl in *; lia.
  - intros k idx H. destruct k; discriminate.
  - discriminate.
Qed.

Lemma app_single_start ops :
  is_app (e_mode (env_of ops)) = true -> (n_runs true (s_runs (final ops)) <= 1)%nat.
Proof.
  intro M. destruct (ainv_final _ M) as (Ab & Ad & _).
  destruct (started_dec (s_app (final ops))) as [X|X].
  - rewrite (Ad X). lia.
  - rewrite (Ab X). unfold n_runs. simpl. lia.
Qed.

Lemma app_stop_needs_success ops :
  is_app (e_mode (env_of ops)) = true ->
  (forall r idx, run_info ops r = Some (true, idx) ->
     (n_runs false (s_runs (final ops)) + b2n (Z.eqb (s_app (final ops)) 3) <= n_fin_true (trace ops r))%nat) /\
  (n_runs true (s_runs (final ops)) = 0%nat ->
     n_runs false (s_runs (final ops)) = 0%nat /\ s_app (final ops) <> 3).
Proof.
  intro M. destruct (ainv_final _ M) as (Ab & Ad & Ac & _). split.
  - intros r idx H. unfold run_info in H. destruct (Z.ltb_spec r 0); [discriminate|].
    specialize (Ac _ _ H). rewrite Z2Nat.id in Ac by lia. exact Ac.
  - intro Z0. destruct (started_dec (s_app (final ops))) as [X|X].
    + rewrite (Ad X) in Z0. discriminate.
    + rewrite (Ab X). unfold n_runs. simpl. split; [reflexivity | lia].
Qed.

Lemma app_single_stop ops r idx :
  is_app (e_mode (env_of ops)) = true ->
  run_info ops r = Some (true, idx) -> at_most_once (trace ops r) ->
  (n_runs false (s_runs (final ops)) <= 1)%nat.
Proof.
  intros M H A. destruct (app_stop_needs_success _ M) as [S _]. specialize (S _ _ H).
  destruct (finish_once _ _ _ _ H A) as (_ & L & _).
  assert (n_fin_true (trace ops r) <= length (fins (trace ops r)))%nat.
  { unfold n_fin_true. generalize (fins (trace ops r)). intro l.
    induction l as [|b l IH]; simpl; [lia|]. destruct b; simpl; lia. }
  lia.
Qed.

(* the guard as a frame condition: a refused Start/Stop changes nothing and emits nothing *)
Lemma run_from_app e ops1 : forall g ops2,
  run_from e g (ops1 ++ ops2) =
  (fst (run_from e (fst (run_from e g ops1)) ops2),
   snd (run_from e g ops1) ++ snd (run_from e (fst (run_from e g ops1)) ops2)).
Proof.
  induction ops1 as [|o ops1 IH]; intros g ops2; simpl.
  - destruct (run_from e g ops2); reflexivity.
  - destruct (do_op e g o) as [g1 x]. rewrite IH.
    destruct (run_from e g1 ops1) as [g2 xs]. simpl.
    destruct (run_from e g2 ops2); reflexivity.
Qed.

Lemma final_snoc pre o :
  decl (env_of pre) o = env_of pre ->
  final (pre ++ [o]) = fst (do_op (env_of pre) (final pre) o) /\
  run (pre ++ [o]) = run pre ++ [snd (do_op (env_of pre) (final pre) o)].
Proof.
  intro D. unfold final, run.
  assert (E : env_of (pre ++ [o]) = env_of pre) by (unfold env_of; rewrite fold_left_app; exact D).
  rewrite E, run_from_app. simpl.
  destruct (do_op (env_of pre) (fst (run_from (env_of pre) (init (env_of pre)) pre)) o); auto.
Qed.

Lemma app_guard pre :
  is_app (e_mode (env_of pre)) = true ->
  (s_app (final pre) <> 1 ->
     final (pre ++ [OStart]) = final pre /\ run (pre ++ [OStart]) = run pre ++ [[]]) /\
  (s_app (final pre) <> 3 ->
     final (pre ++ [OStop]) = final pre /\ run (pre ++ [OStop]) = run pre ++ [[]]) /\
  (s_app (final pre) = 1 ->
     s_runs (final pre) = [] /\ length (s_runs (final (pre ++ [OStart]))) = 1%nat /\
     run_info (pre ++ [OStart]) 0 <> None /\ s_app (final (pre ++ [OStart])) <> 1) /\
  (s_app (final pre) = 3 ->
     length (s_runs (final (pre ++ [OStop]))) = S (length (s_runs (final pre))) /\
     s_app (final (pre ++ [OStop])) <> 3).
Proof.
  intro M.
  assert (ND : s_app (final pre) = 1 \/ s_app (final pre) = 3 -> s_dead (final pre) = false).
  { intro X. destruct (ainv_final _ M) as (_ & _ & _ & Ae).
    destruct (s_dead (final pre)); [|reflexivity]. destruct (Ae eq_refl); lia. }
  split; [|split; [|split]].
  - intro N. destruct (final_snoc pre OStart eq_refl) as [A B]. rewrite A, B. unfold do_op.
    destruct (s_dead (final pre)); [auto|]. rewrite M.
    destruct (Z.eqb_spec (s_app (final pre)) 1); [contradiction|]. auto.
  - intro N. destruct (final_snoc pre OStop eq_refl) as [A B]. rewrite A, B. unfold do_op.
    destruct (s_dead (final pre)); [auto|]. rewrite M.
    destruct (Z.eqb_spec (s_app (final pre)) 3); [contradiction|]. auto.
  - intro E1. destruct (ainv_final _ M) as (Ab & _ & _).
    assert (R0 : s_runs (final pre) = []) by (apply Ab; auto).
    split; [exact R0|].
    destruct (final_snoc pre OStart eq_refl) as [A _].
    unfold run_info. rewrite A. unfold do_op. rewrite (ND (or_introl E1)), M, E1. simpl.
    destruct (new_run (env_of pre) (set_app (final pre) 2) true) as [g' evs] eqn:E.
    pose proof (ginv_final pre) as G.
    destruct (new_run_inv _ _ _ _ _ _ (ginv_set_app _ _ _ 2 G) E) as (_ & _ & L).
    simpl in L. rewrite R0 in L. simpl in L. simpl.
    split; [exact L|]. split.
    + destruct (s_runs g') as [|x l]; [discriminate | simpl; discriminate].
    + unfold new_run in E. apply burst_app in E; [|apply near_first | reflexivity | apply phi_start].
      destruct E as (_ & S & _). simpl in S. destruct S as [_ S]; [split; discriminate | exact S].
  - intro E3.
    destruct (final_snoc pre OStop eq_refl) as [A _]. rewrite A. unfold do_op. rewrite (ND (or_intror E3)), M, E3. simpl.
    destruct (new_run (env_of pre) (set_app (final pre) 4) false) as [g' evs] eqn:E.
    pose proof (ginv_final pre) as G.
    destruct (new_run_inv _ _ _ _ _ _ (ginv_set_app _ _ _ 4 G) E) as (_ & _ & L).
    simpl in L. simpl. split; [exact L|].
    unfold new_run in E. apply burst_app in E; [|apply near_first | reflexivity | apply phi_start].
    destruct E as (_ & _ & B & _). simpl in B. change (4 =? 3) with false in B. simpl in B.
    destruct (Z.eqb_spec (s_app g') 3); [simpl in B; lia | assumption].
Qed.

(* ====================================================================================== *)
(* Part E - the shipped modules                                                            *)
(* ====================================================================================== *)

Lemma welcome_once :
  reports_once (beh_of welcome_start_prog) true /\ reports_once (beh_of welcome_stop_prog) true.
Proof. split; reflexivity. Qed.

Lemma actor_start_once info listen :
  reports_once (beh_of (actor_start_prog info listen)) (info && listen).
Proof. destruct info, listen; reflexivity. Qed.

Lemma actor_stop_once : reports_once (beh_of (actor_stop_prog true)) true.
Proof. reflexivity. Qed.

(* what StartMember returns: an error exactly when one of its synchronous steps fails; the
   outcomes of the two goroutines it starts do not enter *)
Lemma start_member_spec init fetch watch register keepalive :
  failed (start_member init fetch watch register keepalive) = negb (init && fetch && register) /\
  (start_member init fetch watch register keepalive = Some MInit <-> init = false) /\
  (start_member init fetch watch register keepalive = Some MFetch <-> init = true /\ fetch = false) /\
  (start_member init fetch watch register keepalive = Some MRegister <-> init = true /\ fetch = true /\ register = false).
Proof. destruct init, fetch, watch, register, keepalive; simpl; repeat split; intros; try tauto; try discriminate; intuition discriminate. Qed.

Lemma cluster_start_once enable new init fetch watch register keepalive :
  reports_once (beh_of (cluster_start_prog enable new init fetch watch register keepalive))
               (negb enable || (new && init && fetch && register)).
Proof. destruct enable, new, init, fetch, watch, register, keepalive; reflexivity. Qed.

(* Stop: a provider exists (and is not half made) or not, the Delete works or not *)
Lemma cluster_stop_once prov delete : reports_once (beh_of (cluster_stop_prog prov false delete)) true.
Proof. destruct prov, delete; reflexivity. Qed.

(* the asynchronous fault points are frame conditions: they change nothing *)
Lemma cluster_async_frame enable new init fetch watch register keepalive watch' keepalive' :
  beh_of (cluster_start_prog enable new init fetch watch register keepalive) =
  beh_of (cluster_start_prog enable new init fetch watch' register keepalive').
Proof. destruct enable, new, init, fetch, watch, register, keepalive, watch', keepalive'; reflexivity. Qed.

(* as plugged into the list machine, in every environment (any set of declared faults) *)
Lemma shipped_entry_once e fwd live bound prov half k :
  shipped k = true -> (k = KActor -> fwd = false -> live = true) ->
  (k = KCluster -> fwd = false -> half = false) ->
  exists b, entry_beh e fwd live bound prov half k = Beh [b] false.
Proof.
  intros S L Hh. destruct k as [st sp| | |]; try discriminate; simpl.
  - destruct fwd; eexists; reflexivity.
  - destruct fwd.
    + destruct (info_ok e), (listen_ok e bound); eexists; reflexivity.
    + rewrite (L eq_refl eq_refl). eexists; reflexivity.
  - destruct fwd.
    + destruct (e_enable e), (new_ok e), (init_ok e), (fetch_ok e), (watch_ok e), (register_ok e), (keepalive_ok e);
        eexists; reflexivity.
    + rewrite (Hh eq_refl eq_refl). destruct prov, (delete_ok e); eexists; reflexivity.
Qed.

(* ====================================================================================== *)
(* the executable monitor is exactly the statement                                         *)
(* ====================================================================================== *)
Lemma run_ok_b_iff ord t :
  run_ok_b ord t = true <->
  (at_most_once t -> exists q, arun (Idle ord) t = Some q /\ settled q = true /\ (exactly_once t -> q = Done)).
Proof.
  unfold run_ok_b, at_most_once, exactly_once.
  destruct (pending t) as [P|]; [|split; [intros _ X; contradiction | reflexivity]].
  split.
  - intros H _. destruct (arun (Idle ord) t) as [q|]; [|discriminate].
    apply andb_true_iff in H. destruct H as [S D]. exists q. split; [reflexivity|]. split; [exact S|].
    intro X. inv X. destruct q; simpl in D; try discriminate. reflexivity.
  - intro H. destruct H as (q & -> & S & D); [discriminate|]. rewrite S. simpl.
    destruct P as [|i P]; [|reflexivity]. rewrite (D eq_refl). reflexivity.
Qed.

Lemma model_passes_monitor ops r fwd idx :
  run_info ops r = Some (fwd, idx) -> run_ok_b (order fwd (nmods_of ops)) (trace ops r) = true.
Proof. intro H. apply run_ok_b_iff. intro A. eapply discipline; eauto. Qed.

(* ---- bundles used by Props.v ---- *)
Lemma stop_reverse ops r idx :
  run_info ops r = Some (false, idx) -> at_most_once (trace ops r) ->
  in_order (rev (zseq 0 (nmods_of ops))) (trace ops r) /\
  failure_stops (trace ops r) /\
  finish_last_with_outcome (rev (zseq 0 (nmods_of ops))) (trace ops r) /\
  (length (fins (trace ops r)) <= 1)%nat /\
  (exactly_once (trace ops r) -> finished_once (trace ops r)).
Proof.
  intros H A.
  split; [exact (start_stop_order _ _ _ _ H A)|].
  split; [exact (first_failure _ _ _ _ H A)|].
  exact (finish_once _ _ _ _ H A).
Qed.

Lemma hypothesis_iff t : at_most_once t <-> at_most_once_counting t.
Proof. split; [apply at_most_once_counts | apply counts_at_most_once]. Qed.

Lemma shipped_once :
  reports_once (beh_of welcome_start_prog) true /\
  reports_once (beh_of welcome_stop_prog) true /\
  (forall info_ok listen_ok, reports_once (beh_of (actor_start_prog info_ok listen_ok)) (info_ok && listen_ok)) /\
  reports_once (beh_of (actor_stop_prog true)) true /\
  (forall enable new_ok init_ok fetch_ok watch_ok register_ok keepalive_ok,
     reports_once (beh_of (cluster_start_prog enable new_ok init_ok fetch_ok watch_ok register_ok keepalive_ok))
                  (negb enable || (new_ok && init_ok && fetch_ok && register_ok))) /\
  (forall prov delete_ok, reports_once (beh_of (cluster_stop_prog prov false delete_ok)) true).
Proof.
  split; [apply welcome_once|]. split; [apply welcome_once|].
  split; [exact actor_start_once|]. split; [exact actor_stop_once|].
  split; [exact cluster_start_once | exact cluster_stop_once].
Qed.

(* ====================================================================================== *)
(* Part F - every call of a shipped module completes exactly once, on the whole log        *)
(* ====================================================================================== *)

(* next() calls of module i still on the work list *)
Fixpoint cnt (i : Z) (wl : list act) : nat :=
  match wl with
  | [] => 0%nat
  | ANx j _ :: wl' => ((if Z.eqb i j then 1 else 0) + cnt i wl')%nat
  | _ :: wl' => cnt i wl'
  end.

Lemma cnt_app i l1 l2 : cnt i (l1 ++ l2) = (cnt i l1 + cnt i l2)%nat.
Proof. induction l1 as [|a l IH]; simpl; [reflexivity|]. destruct a; simpl; rewrite IH; lia. Qed.
Lemma cnt_tl i l : (cnt i (tl l) <= cnt i l)%nat.
Proof. destruct l as [|a l]; simpl; [lia|]. destruct a; simpl; lia. Qed.
Lemma cnt_calls_other i j cs : i <> j -> cnt i (map (ANx j) cs) = 0%nat.
Proof. intro N. induction cs as [|c cs IH]; simpl; [reflexivity|]. destruct (Z.eqb_spec i j); [contradiction | exact IH]. Qed.
Lemma cnt_unwind r i wl : forall wl' x, unwind r wl = (wl', x) -> (cnt i wl' <= cnt i wl)%nat.
Proof.
  induction wl as [|a wl IH]; intros wl' x H; simpl in H.
  - inv H. simpl. lia.
  - destruct a as [|j b|j p].
    + specialize (IH _ _ H). simpl. lia.
    + specialize (IH _ _ H). simpl. lia.
    + inv H. simpl. lia.
Qed.

(* the environment state that [unclaimed] replays, after a log *)
Fixpoint ustate (e : env) (dirs : list bool) (live : bool) (half : list Z) (log : list ev) : bool * list Z :=
  match log with
  | [] => (live, half)
  | EEnter r i :: log' =>
      match dir_at dirs r, kind_at e i with
      | Some fwd, Some k => ustate e dirs (entry_live e fwd live k) (entry_half e fwd i half k) log'
      | _, _ => ustate e dirs live half log'
      end
  | _ :: log' => ustate e dirs live half log'
  end.

Lemma ustate_app e dirs l1 : forall live half l2,
  ustate e dirs live half (l1 ++ l2) =
  ustate e dirs (fst (ustate e dirs live half l1)) (snd (ustate e dirs live half l1)) l2.
Proof.
  induction l1 as [|x l1 IH]; intros live half l2; simpl; [reflexivity|].
  destruct x; try apply IH. destruct (dir_at dirs r), (kind_at e i); apply IH.
Qed.

Lemma unclaimed_app e dirs l1 : forall live half l2,
  unclaimed e dirs live half (l1 ++ l2) =
  unclaimed e dirs live half l1 ++
  unclaimed e dirs (fst (ustate e dirs live half l1)) (snd (ustate e dirs live half l1)) l2.
Proof.
  induction l1 as [|x l1 IH]; intros live half l2; simpl; [reflexivity|].
  destruct x; try apply IH.
  destruct (dir_at dirs r), (kind_at e i); simpl; try (rewrite IH; reflexivity).
  rewrite <- app_assoc. rewrite IH. reflexivity.
Qed.

Definition not_enter (x : ev) : Prop := match x with EEnter _ _ => False | _ => True end.

Lemma ustate_quiet e dirs evs : Forall not_enter evs -> forall live half, ustate e dirs live half evs = (live, half).
Proof. induction 1 as [|x l H F IH]; intros; simpl; [reflexivity|]. destruct x; simpl in H; try contradiction; apply IH. Qed.
Lemma unclaimed_quiet e dirs evs : Forall not_enter evs -> forall live half, unclaimed e dirs live half evs = [].
Proof. induction 1 as [|x l H F IH]; intros; simpl; [reflexivity|]. destruct x; simpl in H; try contradiction; apply IH. Qed.
Lemma caps_of_app l1 l2 : caps_of (l1 ++ l2) = caps_of l1 ++ caps_of l2.
Proof. unfold caps_of. apply flat_map_app. Qed.
Lemma caps_of_quiet evs : Forall not_enter evs -> caps_of evs = [].
Proof. induction 1 as [|x l H F IH]; simpl; [reflexivity|]. destruct x; simpl in H; try contradiction; exact IH. Qed.

Lemma pair_mem_app r i l1 l2 : pair_mem r i (l1 ++ l2) = pair_mem r i l1 || pair_mem r i l2.
Proof. unfold pair_mem. apply existsb_app. Qed.

Lemma kind_at_nth e idx :
  ((idx <? 0) || (nmods e <=? idx)) = false ->
  kind_at e idx = Some (nth (Z.to_nat idx) (e_mods e) KWelcome).
Proof.
  unfold kind_at, nmods. intro H. destruct (Z.ltb_spec idx 0); [simpl in H; discriminate|].
  simpl in H. apply nth_error_nth'. lia.
Qed.

Lemma shipped_calls e fwd live bound prov half k :
  shipped k = true -> (length (calls_of (entry_beh e fwd live bound prov half k)) <= 1)%nat.
Proof. intro S. pose proof (calls_bound e fwd live bound prov half k) as B. destruct k; simpl in *; try discriminate; exact B. Qed.

Section Calls.
  Variables (e : env) (df : list bool) (r0 i0 : Z) (k0 : kind).
  Hypothesis Hk0 : kind_at e i0 = Some k0.
  Hypothesis Hs0 : shipped k0 = true.

  Definition un (log : list ev) : list (Z * Z) := unclaimed e df false [] log.
  Definition nn (log : list ev) : nat := n_next i0 (proj r0 log).
  Definition ne (log : list ev) : nat := n_enter i0 (proj r0 log).

  Lemma nn_app l1 l2 : nn (l1 ++ l2) = (nn l1 + nn l2)%nat.
  Proof. unfold nn. rewrite proj_app. apply n_next_app. Qed.
  Lemma ne_app l1 l2 : ne (l1 ++ l2) = (ne l1 + ne l2)%nat.
  Proof. unfold ne. rewrite proj_app. apply n_enter_app. Qed.

  (* inside one burst of run r *)
  Definition quiet_rest (wl0 : list act) : Prop :=
    forall i k, kind_at e i = Some k -> shipped k = true -> cnt i wl0 = 0%nat.
  Definition CI (F : nat) (r : Z) (s : bst) (wl : list act) (acc : list ev) : Prop :=
    b_caps s = caps_of acc /\
    ustate e df false [] acc = (b_live s, b_half s) /\
    quiet_rest (tl wl) /\
    (pair_mem r0 i0 (un acc) = false ->
     (nn acc + (if Z.eqb r r0 then cnt i0 wl else 0) = ne acc + F)%nat) /\
    match b_susp s with Some (wl0, _) => quiet_rest wl0 | None => True end.

  Lemma ci_quiet F r s a wl acc s' wl' evs :
    CI F r s (a :: wl) acc ->
    Forall not_enter evs -> b_caps s' = b_caps s -> b_live s' = b_live s -> b_half s' = b_half s ->
    (b_susp s' = b_susp s \/ exists q, b_susp s' = Some (wl, q)) ->
    quiet_rest (tl wl') ->
    (nn evs + (if Z.eqb r r0 then cnt i0 wl' else 0) = (if Z.eqb r r0 then cnt i0 (a :: wl) else 0))%nat -> ne evs = 0%nat ->
    CI F r s' wl' (acc ++ evs).
  Proof.
    intros (C1 & C2 & C3 & C4 & C5) Q E1 E2 E3 E4 H3 HN HE.
    split; [|split; [|split; [|split]]].
    - rewrite E1, C1, caps_of_app, (caps_of_quiet _ Q), app_nil_r. reflexivity.
    - rewrite ustate_app, C2. simpl. rewrite (ustate_quiet _ _ _ Q), E2, E3. reflexivity.
    - exact H3.
    - unfold un. rewrite unclaimed_app, C2. simpl. rewrite (unclaimed_quiet _ _ _ Q), app_nil_r.
      intro U. specialize (C4 U). rewrite nn_app, ne_app, HE. lia.
    - destruct E4 as [-> | [q ->]]; [exact C5 | exact C3].
  Qed.

  Lemma step_ci locked F r fwd s a wl acc s' wl' evs :
    dir_at df r = Some fwd ->
    Good e fwd s (a :: wl) -> CI F r s (a :: wl) acc ->
    step e locked r fwd a s wl = (s', wl', evs) -> CI F r s' wl' (acc ++ evs).
  Proof.
    intros HD [N W] HC H. pose proof HC as (C1 & C2 & C3 & C4 & C5). simpl tl in C3. unfold step in H.
    assert (Z0 : cnt i0 wl = 0%nat) by (apply (C3 i0 k0 Hk0 Hs0)).
    destruct a as [|i b|i p].
    - (* ADo *)
      destruct (past_end e fwd (b_idx s)) eqn:P.
      + destruct (finish_effect (e_mode e) fwd true (b_app s) (b_cleaned s)) as [[app cl] pan].
        split_callback H.
        * destruct pan.
          -- destruct (unwind r wl) as [wl1 x] eqn:U.
             destruct (unwind_spec _ _ _ _ U) as (_ & _ & C). injection H as <- <- <-.
             eapply ci_quiet; [exact HC | | reflexivity | reflexivity | reflexivity | left; reflexivity | | |].
             ++ repeat constructor. destruct C as [[j ->] | ->]; exact I.
             ++ intros j k Hk Hs. pose proof (cnt_tl j wl1). pose proof (cnt_unwind r j _ _ _ U).
                specialize (C3 j k Hk Hs). lia.
             ++ pose proof (cnt_unwind r i0 _ _ _ U) as L.
                unfold nn, proj. simpl. destruct (r0 =? r); destruct C as [[j ->] | ->]; simpl;
                  destruct (r =? r0); simpl; try rewrite Z.eqb_refl; simpl;
                  try destruct (r0 =? r); simpl; lia.
             ++ unfold ne, proj. simpl. destruct C as [[j ->] | ->]; simpl; destruct (r0 =? r); reflexivity.
          -- inv H.
             eapply ci_quiet; [exact HC | | reflexivity | reflexivity | reflexivity | left; reflexivity | | |].
             ++ repeat constructor.
             ++ intros j k Hk Hs. pose proof (cnt_tl j wl'). specialize (C3 j k Hk Hs). lia.
             ++ unfold nn, proj. simpl. destruct (r0 =? r); simpl; destruct (r =? r0); lia.
             ++ unfold ne, proj. simpl. destruct (r0 =? r); reflexivity.
        * inv H.
          eapply ci_quiet; [exact HC | | reflexivity | reflexivity | reflexivity | left; reflexivity | | |].
          -- repeat constructor.
          -- intros j k Hk Hs. reflexivity.
          -- unfold nn, proj. simpl. destruct (r0 =? r); simpl; destruct (r =? r0); lia.
          -- unfold ne, proj. simpl. destruct (r0 =? r); reflexivity.
        * inv H.
          eapply ci_quiet; [exact HC | | reflexivity | reflexivity | reflexivity | right; eexists; reflexivity | | |].
          -- repeat constructor.
          -- intros j k Hk Hs. reflexivity.
          -- unfold nn, proj. simpl. destruct (r0 =? r); simpl; destruct (r =? r0); lia.
          -- unfold ne, proj. simpl. destruct (r0 =? r); reflexivity.
      + destruct (in_range _ _ _ N P) as [R L]. rewrite R in H. inv H.
        set (idx := b_idx s) in *.
        set (k := nth (Z.to_nat idx) (e_mods e) KWelcome) in *.
        set (bh := entry_beh e fwd (b_live s) (b_bound s) (zmem idx (b_prov s)) (zmem idx (b_half s)) k) in *.
        assert (HK : kind_at e idx = Some k) by (apply kind_at_nth; exact R).
        assert (US : ustate e df false [] (acc ++ [EEnter r idx]) =
                     (entry_live e fwd (b_live s) k, entry_half e fwd idx (b_half s) k)).
        { rewrite ustate_app, C2. simpl. rewrite HD, HK. reflexivity. }
        split; [|split; [|split; [|split]]]; simpl b_caps; simpl b_live; simpl b_half; simpl b_susp.
        * rewrite C1, caps_of_app. reflexivity.
        * exact US.
        * intros j kj Hk Hs.
          destruct (Z.eq_dec j idx) as [->|NE].
          -- assert (kj = k) by congruence. subst kj.
             pose proof (shipped_calls e fwd (b_live s) (b_bound s) (zmem idx (b_prov s)) (zmem idx (b_half s)) k Hs) as B.
             fold bh in B. destruct (calls_of bh) as [|c [|c2 cs]]; simpl in *; try lia; apply (C3 idx k HK Hs).
          -- pose proof (cnt_tl j (map (ANx idx) (calls_of bh) ++ AEnd idx (panics_of bh) :: wl)) as T.
             rewrite cnt_app, (cnt_calls_other _ _ _ NE) in T. simpl in T. specialize (C3 j kj Hk Hs). lia.
        * unfold un. rewrite unclaimed_app, C2. simpl. rewrite HD, HK. rewrite app_nil_r, pair_mem_app.
          intro U. apply orb_false_iff in U. destruct U as [U1 U2]. specialize (C4 U1).
          rewrite nn_app, ne_app. unfold nn at 2, ne at 2, proj. simpl. rewrite app_nil_r.
          destruct (Z.eqb_spec r0 r) as [ER|NR].
          -- assert (ER' : (r =? r0) = true) by (apply Z.eqb_eq; auto). rewrite ER' in *. simpl in C4. simpl. rewrite cnt_app. simpl.
             destruct (Z.eqb_spec i0 idx) as [EI|NI].
             ++ assert (k0 = k) by (rewrite EI in Hk0; congruence).
                destruct (needs_missing fwd (b_live s) (b_half s) idx k) eqn:NM.
                { simpl in U2. rewrite ER, EI, !Z.eqb_refl in U2. discriminate. }
                assert (exists b, bh = Beh [b] false) as [b EB].
                { apply shipped_entry_once; [congruence | |].
                  - intros EK ->. rewrite EK in NM. simpl in NM. destruct (b_live s); [reflexivity | discriminate].
                  - intros EK ->. rewrite EK in NM. simpl in NM. exact NM. }
                rewrite EB. simpl. rewrite EI, Z.eqb_refl. rewrite EI in Z0. rewrite EI in C4. lia.
             ++ rewrite (cnt_calls_other _ _ _ NI). simpl. lia.
          -- destruct (Z.eqb_spec r r0) as [X|_]; [congruence|]. simpl. lia.
        * exact C5.
    - (* ANx *)
      destruct b.
      + inv H. simpl b_idx.
        eapply ci_quiet; [exact HC | | reflexivity | reflexivity | reflexivity | left; reflexivity | | |].
        * repeat constructor.
        * exact C3.
        * unfold nn, proj. simpl. destruct (Z.eqb_spec r0 r) as [ER|NR].
          -- assert (ER' : (r =? r0) = true) by (apply Z.eqb_eq; auto). rewrite ER'. simpl. destruct (i0 =? i); simpl; lia.
          -- destruct (Z.eqb_spec r r0); [congruence|]. simpl. lia.
        * unfold ne, proj. simpl. destruct (r0 =? r); reflexivity.
      + assert (NN : forall x, (x = [] \/ x = [EDeadlock r]) ->
                  (nn ([ENext r i false; EFin r false] ++ x) + (if Z.eqb r r0 then 0 else 0) =
                   (if Z.eqb r r0 then cnt i0 (ANx i false :: wl) else 0))%nat /\
                  ne ([ENext r i false; EFin r false] ++ x) = 0%nat).
        { intros x Hx. split.
          - unfold nn, proj. destruct Hx as [-> | ->]; simpl; destruct (Z.eqb_spec r0 r) as [ER|NR].
            + assert (ER' : (r =? r0) = true) by (apply Z.eqb_eq; auto). rewrite ER'. simpl. destruct (i0 =? i); simpl; lia.
            + destruct (Z.eqb_spec r r0); [congruence|]. simpl. lia.
            + assert (ER' : (r =? r0) = true) by (apply Z.eqb_eq; auto). rewrite ER'. simpl. destruct (i0 =? i); simpl; lia.
            + destruct (Z.eqb_spec r r0); [congruence|]. simpl. lia.
          - unfold ne, proj. destruct Hx as [-> | ->]; simpl; destruct (r0 =? r); reflexivity. }
        split_callback H; inv H.
        * eapply ci_quiet; [exact HC | | reflexivity | reflexivity | reflexivity | left; reflexivity | | |].
          -- repeat constructor.
          -- intros j k Hk Hs. pose proof (cnt_tl j wl'). specialize (C3 j k Hk Hs). lia.
          -- destruct (NN [] (or_introl eq_refl)) as [X _]. rewrite app_nil_r in X. rewrite Z0. destruct (r =? r0); lia.
          -- destruct (NN [] (or_introl eq_refl)) as [_ X]. rewrite app_nil_r in X. exact X.
        * eapply ci_quiet; [exact HC | | reflexivity | reflexivity | reflexivity | left; reflexivity | | |].
          -- repeat constructor.
          -- intros j k Hk Hs. reflexivity.
          -- destruct (NN [EDeadlock r] (or_intror eq_refl)) as [X _]. simpl cnt at 1. exact X.
          -- destruct (NN [EDeadlock r] (or_intror eq_refl)) as [_ X]. exact X.
        * eapply ci_quiet; [exact HC | | reflexivity | reflexivity | reflexivity | right; eexists; reflexivity | | |].
          -- repeat constructor.
          -- intros j k Hk Hs. reflexivity.
          -- destruct (NN [] (or_introl eq_refl)) as [X _]. rewrite app_nil_r in X. simpl cnt at 1. exact X.
          -- destruct (NN [] (or_introl eq_refl)) as [_ X]. rewrite app_nil_r in X. exact X.
    - (* AEnd *)
      inv H.
      eapply ci_quiet; [exact HC | | reflexivity | reflexivity | reflexivity | left; reflexivity | | |].
      + destruct p; repeat constructor.
      + intros j k Hk Hs. pose proof (cnt_tl j wl'). specialize (C3 j k Hk Hs). lia.
      + unfold nn, proj. destruct p; simpl; destruct (r =? r0); simpl; lia.
      + unfold ne, proj. destruct p; reflexivity.
  Qed.

  Lemma exec_ci locked F r fwd f s wl acc s' evs :
    dir_at df r = Some fwd ->
    (phi e fwd (b_idx s) wl <= f)%nat -> Good e fwd s wl -> CI F r s wl acc ->
    exec e locked r fwd f s wl = (s', evs) -> CI F r s' [] (acc ++ evs).
  Proof.
    intros HD Fu G C H.
    refine (exec_preserves e locked r fwd (fun s wl acc => CI F r s wl acc) _ f s wl acc s' evs Fu G C H).
    intros. eapply step_ci; eauto.
  Qed.

  (* between operations (and between the bursts of one operation) *)
  Definition DirOK (g : st) : Prop :=
    forall k fwd idx, nth_error (s_runs g) k = Some (fwd, idx) -> nth_error df k = Some fwd.

  Definition CG (g : st) (log : list ev) (F : nat) : Prop :=
    s_caps g = caps_of log /\
    ustate e df false [] log = (s_live g, s_half g) /\
    (pair_mem r0 i0 (un log) = false -> nn log = (ne log + F)%nat).

  Lemma burst_cg locked g log F r fwd idx wl g' evs :
    dir_at df r = Some fwd ->
    near e fwd idx -> wl_ok wl -> (phi e fwd idx wl <= fuel_for e)%nat ->
    quiet_rest (tl wl) ->
    CG g log F -> burst e locked g r fwd idx wl = (g', evs) ->
    CG g' (log ++ evs) (F + (if Z.eqb r r0 then cnt i0 wl else 0)) /\
    match s_susp g' with Some (_, wl1, _) => quiet_rest wl1 | None => True end.
  Proof.
    intros HD N W Fu HO (C1 & C2 & C3) H. unfold burst in H.
    set (s0 := {| b_idx := idx; b_app := s_app g; b_cleaned := s_cleaned g; b_live := s_live g; b_bound := s_bound g; b_pub := s_pub g;
                  b_prov := s_prov g; b_half := s_half g; b_caps := s_caps g; b_susp := None; b_dead := false |}) in *.
    destruct (exec e locked r fwd (fuel_for e) s0 wl) as [s1 evs1] eqn:E. inv H.
    assert (G0 : Good e fwd s0 wl) by (split; assumption).
    assert (I0 : CI (F + (if Z.eqb r r0 then cnt i0 wl else 0)) r s0 wl log).
    { split; [exact C1|]. split; [exact C2|]. split; [exact HO|]. split; [|exact I]. intro U. specialize (C3 U). lia. }
    destruct (exec_ci locked _ r fwd (fuel_for e) s0 wl log s1 evs HD Fu G0 I0 E) as (D1 & D2 & _ & D4 & D5).
    split.
    - split; [exact D1|]. split; [exact D2|]. intro U. specialize (D4 U).
      simpl in D4. destruct (r =? r0); lia.
    - simpl. destruct (b_susp s1) as [[w q]|]; [exact D5 | exact I].
  Qed.

  (* completions the environment delivers to (r0, i0) with one operation *)
  Definition hit (caps : list (Z * Z)) (k : Z) : bool :=
    if Z.ltb k 0 then false else
    match nth_error caps (Z.to_nat k) with
    | Some (r', i') => Z.eqb r0 r' && Z.eqb i0 i'
    | None => false
    end.
  Definition fire1 (o : op) (evs : list ev) (caps : list (Z * Z)) : nat :=
    match o, evs with
    | OFire k _, _ :: _ => if hit caps k then 1%nat else 0%nat
    | _, _ => 0%nat
    end.

  Lemma burst_dir locked g r fwd idx wl g' evs :
    (Z.to_nat r < length (s_runs g))%nat -> burst e locked g r fwd idx wl = (g', evs) ->
    exists idx', nth_error (s_runs g') (Z.to_nat r) = Some (fwd, idx').
  Proof.
    intros L H. unfold burst in H.
    destruct (exec e locked r fwd (fuel_for e) _ wl) as [s1 evs1]. inv H. simpl.
    eexists. apply nth_error_upd_same. exact L.
  Qed.

  Lemma new_run_cg g log F fwd g' evs :
    DirOK g' -> CG g log F -> new_run e g fwd = (g', evs) -> CG g' (log ++ evs) F.
  Proof.
    intros D C H. unfold new_run in H.
    set (g1 := push_run g (fwd, first_idx e fwd)) in *.
    set (r := Z.of_nat (length (s_runs g))) in *.
    assert (L : (Z.to_nat r < length (s_runs g1))%nat).
    { unfold r. rewrite Nat2Z.id. simpl. rewrite app_length. simpl. lia. }
    destruct (burst_dir _ _ _ _ _ _ _ _ L H) as [idx' Hr].
    assert (HD : dir_at df r = Some fwd).
    { unfold dir_at. destruct (Z.ltb_spec r 0); [unfold r in *; lia|]. exact (D _ _ _ Hr). }
    replace F with (F + (if Z.eqb r r0 then cnt i0 [ADo] else 0))%nat by (simpl; destruct (r =? r0); lia).
    assert (QT : quiet_rest (tl [ADo])) by (intros i k _ _; reflexivity).
    exact (proj1 (burst_cg true g1 log F r fwd _ [ADo] g' evs HD (near_first e fwd) eq_refl (phi_start e fwd) QT C H)).
  Qed.

  Lemma exec_fire_nonempty locked r fwd f s i b wl s' evs :
    exec e locked r fwd (S f) s (ANx i b :: wl) = (s', evs) -> exists x l, evs = x :: l.
  Proof.
    intro H. cbn [exec] in H.
    destruct (step e locked r fwd (ANx i b) s wl) as [[s1 wl1] e1] eqn:E.
    destruct (exec e locked r fwd f s1 wl1) as [s2 e2]. inv H.
    assert (exists x l, e1 = x :: l) as (x & l & ->).
    { unfold step in E. destruct b; [inv E; eauto|]. split_callback E; inv E; simpl; eauto. }
    simpl. eauto.
  Qed.

  (* directions of existing runs never change *)
  Lemma upd_dirs (l : list (bool * Z)) k fwd idx0 idx' :
    nth_error l k = Some (fwd, idx0) ->
    forall j f i, nth_error l j = Some (f, i) -> exists i', nth_error (upd_nth k (fwd, idx') l) j = Some (f, i').
  Proof.
    intros H j f i Hj. destruct (Nat.eq_dec k j) as [<-|NE].
    - rewrite H in Hj. inv Hj. eexists. apply nth_error_upd_same. apply nth_error_Some. congruence.
    - rewrite nth_error_upd_other by exact NE. eauto.
  Qed.

  Lemma burst_dirs locked g r fwd idx0 idx wl g' evs :
    nth_error (s_runs g) (Z.to_nat r) = Some (fwd, idx0) -> burst e locked g r fwd idx wl = (g', evs) ->
    forall j f i, nth_error (s_runs g) j = Some (f, i) -> exists i', nth_error (s_runs g') j = Some (f, i').
  Proof.
    intros Hr H. unfold burst in H.
    destruct (exec e locked r fwd (fuel_for e) _ wl) as [s1 evs1]. inv H. simpl.
    eapply upd_dirs. exact Hr.
  Qed.

  Lemma new_run_dirs g fwd g' evs :
    new_run e g fwd = (g', evs) ->
    forall j f i, nth_error (s_runs g) j = Some (f, i) -> exists i', nth_error (s_runs g') j = Some (f, i').
  Proof.
    intros H j f i Hj. unfold new_run in H.
    eapply burst_dirs in H.
    - exact H.
    - simpl. rewrite Nat2Z.id, nth_error_app2 by lia. rewrite Nat.sub_diag. reflexivity.
    - simpl. rewrite nth_error_app1; [exact Hj|]. apply nth_error_Some. congruence.
  Qed.

  Lemma settle_dirs : forall n g g' evs,
    settle n e g = (g', evs) ->
    forall j f i, nth_error (s_runs g) j = Some (f, i) -> exists i', nth_error (s_runs g') j = Some (f, i').
  Proof.
    induction n as [|n IH]; intros g g' evs H j f i Hj; simpl in H.
    - destruct (s_susp g) as [[[r wl] q]|]; inv H; eauto.
    - destruct (s_susp g) as [[[r wl] q]|]; [|inv H; eauto].
      destruct (new_run e (set_app g (if q then 2 else 4)) q) as [g1 e1] eqn:E1.
      destruct (new_run_dirs _ _ _ _ E1 _ _ _ Hj) as [i1 H1].
      destruct (s_dead g1); [inv H; eauto|].
      destruct (nth_error (s_runs g1) (Z.to_nat r)) as [[fwd idx]|] eqn:Hr; [|inv H; eauto].
      destruct (burst e false g1 r fwd idx wl) as [g2 e2] eqn:E2.
      destruct (settle n e g2) as [g3 e3] eqn:E3. inv H.
      destruct (burst_dirs _ _ _ _ _ _ _ _ _ Hr E2 _ _ _ H1) as [i2 H2].
      eapply IH; eauto.
  Qed.

  Lemma dirok_of g g' :
    (forall j f i, nth_error (s_runs g) j = Some (f, i) -> exists i', nth_error (s_runs g') j = Some (f, i')) ->
    DirOK g' -> DirOK g.
  Proof. intros M D k fwd idx Hk. destruct (M _ _ _ Hk) as [i' Hk']. exact (D _ _ _ Hk'). Qed.

  (* the requests carried out after a burst add no completion to (r0, i0) *)
  Lemma settle_cg F : forall n g log g' evs,
    SInv e n g log -> DirOK g' -> CG g log F ->
    match s_susp g with Some (_, wl, _) => quiet_rest wl | None => True end ->
    settle n e g = (g', evs) -> CG g' (log ++ evs) F.
  Proof.
    induction n as [|n IH]; intros g log g' evs S D C QR H.
    - simpl in H. destruct (s_susp g) as [[[r wl] q]|] eqn:SG.
      + destruct (sinv_fuel _ _ _ _ _ _ S SG).
      + inv H. rewrite app_nil_r. exact C.
    - simpl in H. destruct (s_susp g) as [[[r wl] q]|] eqn:SG.
      2:{ inv H. rewrite app_nil_r. exact C. }
      destruct (new_run e (set_app g (if q then 2 else 4)) q) as [g1 e1] eqn:E1.
      destruct (settle_step e n g log r wl q g1 e1 S SG E1)
        as (fwd & idx & Hr & Hr1 & R & N & ND & PF & AC & G1 & NEXT).
      destruct (s_dead g1) eqn:DD.
      { inv H. eapply new_run_cg; [exact D | | exact E1]. exact C. }
      rewrite Hr1 in H.
      destruct (burst e false g1 r fwd idx wl) as [g2 e2] eqn:E2.
      destruct (settle n e g2) as [g3 e3] eqn:E3. inv H.
      assert (D2 : DirOK g2) by (eapply dirok_of; [eapply settle_dirs; exact E3 | exact D]).
      assert (D1 : DirOK g1) by (eapply dirok_of; [eapply burst_dirs; [exact Hr1 | exact E2] | exact D2]).
      assert (C1 : CG g1 (log ++ e1) F) by (eapply new_run_cg; [exact D1 | | exact E1]; exact C).
      assert (KR : (Z.to_nat r < length (s_runs g1))%nat) by (apply nth_error_Some; congruence).
      destruct (burst_dir _ _ _ _ _ _ _ _ KR E2) as [idx2 Hr2].
      assert (HD : dir_at df r = Some fwd).
      { unfold dir_at. destruct (Z.ltb_spec r 0); [lia|]. exact (D2 _ _ _ Hr2). }
      assert (QT : quiet_rest (tl wl)).
      { intros i k Hk Hs. pose proof (cnt_tl i wl). specialize (QR i k Hk Hs). lia. }
      destruct (burst_cg false g1 (log ++ e1) F r fwd idx wl g2 e2 HD N (no_do_tl _ ND) PF QT C1 E2) as [C2 QR2].
      rewrite (QR i0 k0 Hk0 Hs0) in C2.
      replace (F + (if Z.eqb r r0 then 0 else 0))%nat with F in C2 by (destruct (Z.eqb r r0); lia).
      rewrite !app_assoc.
      eapply IH; [exact (NEXT _ _ eq_refl) | exact D | exact C2 | | exact E3].
      destruct (s_susp g2) as [[[r2 w2] q2]|]; [exact QR2 | exact I].
  Qed.

  Lemma do_op_cg g log F o g' evs :
    GInv e g log -> DirOK g' -> CG g log F -> do_op e g o = (g', evs) ->
    CG g' (log ++ evs) (F + fire1 o evs (s_caps g)).
  Proof.
    intros G D C H. unfold do_op in H.
    assert (Triv : forall o', fire1 o' [] (s_caps g) = 0%nat) by (intros []; reflexivity).
    destruct (s_dead g); [inv H; rewrite app_nil_r, Triv, Nat.add_0_r; exact C|].
    destruct o as [m|a en et|k|ft|cf cq| | |k b];
      try (inv H; rewrite app_nil_r, Triv, Nat.add_0_r; exact C).
    - simpl fire1. rewrite Nat.add_0_r. destruct (is_app (e_mode e)).
      + destruct (s_app g =? 1); [|inv H; rewrite app_nil_r; exact C].
        eapply new_run_cg; [exact D | | exact H]. exact C.
      + eapply new_run_cg; eauto.
    - simpl fire1. rewrite Nat.add_0_r. destruct (is_app (e_mode e)).
      + destruct (s_app g =? 3); [|inv H; rewrite app_nil_r; exact C].
        eapply new_run_cg; [exact D | | exact H]. exact C.
      + eapply new_run_cg; eauto.
    - destruct (Z.ltb_spec k 0) as [KN|KP]; [inv H; rewrite app_nil_r, Triv, Nat.add_0_r; exact C|].
      destruct (nth_error (s_caps g) (Z.to_nat k)) as [[r i]|] eqn:Hc; [|inv H; rewrite app_nil_r, Triv, Nat.add_0_r; exact C].
      destruct (nth_error (s_runs g) (Z.to_nat r)) as [[fwd idx]|] eqn:Hr; [|inv H; rewrite app_nil_r, Triv, Nat.add_0_r; exact C].
      pose proof G as (CK & T & O & SN). destruct (O _ _ _ Hr) as [N _].
      assert (NN : 0 <= r).
      { apply nth_error_In in Hc. unfold caps_ok in CK. rewrite Forall_forall in CK. apply (CK _ Hc). }
      destruct (burst e false g r fwd idx [ANx i b]) as [g1 e1] eqn:E1.
      destruct (settle (fuel_for e) e g1) as [g2 e2] eqn:E2. inv H.
      assert (D1 : DirOK g1) by (eapply dirok_of; [eapply settle_dirs; exact E2 | exact D]).
      assert (L : (Z.to_nat r < length (s_runs g))%nat) by (apply nth_error_Some; congruence).
      destruct (burst_dir _ _ _ _ _ _ _ _ L E1) as [idx' Hr'].
      assert (HD : dir_at df r = Some fwd).
      { unfold dir_at. destruct (Z.ltb_spec r 0); [lia|]. exact (D1 _ _ _ Hr'). }
      assert (NE : exists x l, e1 = x :: l).
      { unfold burst in E1. destruct (exec e false r fwd (fuel_for e) _ [ANx i b]) as [s1 evs1] eqn:E. inv E1.
        exact (exec_fire_nonempty false r fwd (S (length (e_mods e) * weight e)) _ i b [] _ _ E). }
      destruct NE as (x & l & ->).
      assert (EQ : fire1 (OFire k b) ((x :: l) ++ e2) (s_caps g) = (if Z.eqb r r0 then cnt i0 [ANx i b] else 0)%nat).
      { simpl. unfold hit. destruct (Z.ltb_spec k 0); [lia|]. rewrite Hc. simpl.
        rewrite (Z.eqb_sym r0 r). destruct (r =? r0); simpl; [destruct (i0 =? i); reflexivity | reflexivity]. }
      rewrite EQ.
      destruct (burst_cg false g log F r fwd idx [ANx i b] g1 (x :: l) HD N eq_refl (phi_fire e fwd idx i b N)
                  (fun _ _ _ _ => eq_refl) C E1) as [C1 QR1].
      rewrite app_assoc.
      eapply settle_cg; [eapply fire_sinv; eauto | exact D | exact C1 | | exact E2].
      destruct (s_susp g1) as [[[r1 w1] q1]|]; [exact QR1 | exact I].
  Qed.

  Lemma do_op_dirs g o g' evs :
    do_op e g o = (g', evs) ->
    forall j f i, nth_error (s_runs g) j = Some (f, i) -> exists i', nth_error (s_runs g') j = Some (f, i').
  Proof.
    intros H j f i Hj. unfold do_op in H.
    destruct (s_dead g); [inv H; eauto|].
    destruct o as [m|a en et|k|ft|cf cq| | |k b]; try (inv H; eauto; fail).
    - destruct (is_app (e_mode e)).
      + destruct (s_app g =? 1); [|inv H; eauto]. eapply (new_run_dirs (set_app g 2)); eauto.
      + eapply new_run_dirs; eauto.
    - destruct (is_app (e_mode e)).
      + destruct (s_app g =? 3); [|inv H; eauto]. eapply (new_run_dirs (set_app g 4)); eauto.
      + eapply new_run_dirs; eauto.
    - destruct (k <? 0); [inv H; eauto|].
      destruct (nth_error (s_caps g) (Z.to_nat k)) as [[r i']|]; [|inv H; eauto].
      destruct (nth_error (s_runs g) (Z.to_nat r)) as [[fwd idx]|] eqn:Hr; [|inv H; eauto].
      destruct (burst e false g r fwd idx [ANx i' b]) as [g1 e1] eqn:E1.
      destruct (settle (fuel_for e) e g1) as [g2 e2] eqn:E2. inv H.
      destruct (burst_dirs _ _ _ _ _ _ _ _ _ Hr E1 _ _ _ Hj) as [i1 H1].
      eapply settle_dirs; eauto.
  Qed.

  Lemma dirok_back g o g' evs : do_op e g o = (g', evs) -> DirOK g' -> DirOK g.
  Proof. intros H D. eapply dirok_of; [eapply do_op_dirs; exact H | exact D]. Qed.

  Lemma run_from_dirok : forall ops g g' xs, run_from e g ops = (g', xs) -> DirOK g' -> DirOK g.
  Proof.
    induction ops as [|o ops IH]; intros g g' xs H D; simpl in H.
    - inv H. exact D.
    - destruct (do_op e g o) as [g1 x] eqn:E1. destruct (run_from e g1 ops) as [g2 xs2] eqn:E2. inv H.
      eapply dirok_back; [exact E1|]. eapply IH; eauto.
  Qed.

  Lemma fire_hits g o g' x cf :
    do_op e g o = (g', x) -> (exists suf, cf = s_caps g ++ suf) ->
    forall ops xs, fires_to (o :: ops) (x :: xs) cf r0 i0 = (fire1 o x (s_caps g) + fires_to ops xs cf r0 i0)%nat.
  Proof.
    intros H [suf ->] ops xs.
    destruct o as [m|a en et|k|ft|cf cq| | |k b]; try reflexivity.
    destruct x as [|x0 x]; [reflexivity|].
    unfold do_op in H. simpl. unfold hit.
    destruct (s_dead g); [inv H|].
    destruct (Z.ltb_spec k 0) as [KN|KP]; [inv H|].
    destruct (nth_error (s_caps g) (Z.to_nat k)) as [[r i]|] eqn:Hc; [|inv H].
    rewrite nth_error_app1 by (apply nth_error_Some; congruence). rewrite Hc.
    destruct ((r0 =? r) && (i0 =? i)); reflexivity.
  Qed.

  Lemma run_from_cg : forall ops g log F g' xs,
    GInv e g log -> DirOK g' -> CG g log F -> run_from e g ops = (g', xs) ->
    forall suf, CG g' (log ++ concat xs) (F + fires_to ops xs (caps_of (log ++ concat xs) ++ suf) r0 i0).
  Proof.
    induction ops as [|o ops IH]; intros g log F g' xs G D C H suf; simpl in H.
    - inv H. simpl. rewrite app_nil_r, Nat.add_0_r. exact C.
    - destruct (do_op e g o) as [g1 x] eqn:E1. destruct (run_from e g1 ops) as [g2 xs2] eqn:E2. inv H.
      assert (D1 : DirOK g1) by (eapply run_from_dirok; eauto).
      pose proof (do_op_cg _ _ _ _ _ _ G D1 C E1) as C1.
      pose proof (do_op_inv _ _ _ _ _ _ G E1) as G1.
      specialize (IH _ _ _ _ _ G1 D C1 E2 suf).
      simpl concat. rewrite app_assoc.
      erewrite fire_hits; [|exact E1|].
      + rewrite Nat.add_assoc. exact IH.
      + destruct C as (Cc & _ & _). rewrite Cc, <- app_assoc, !caps_of_app, <- app_assoc. eauto.
  Qed.
End Calls.

Lemma shipped_calls_once_model ops :
  shipped_calls_once ops (run ops) (map fst (s_runs (final ops))).
Proof.
  intros r i fwd k _ Hk Hs U.
  unfold call_once. unfold final, run in *.
  destruct (run_from (env_of ops) (init (env_of ops)) ops) as [g xs] eqn:E. simpl in *.
  assert (D : DirOK (map fst (s_runs g)) g).
  { intros j f idx Hj. rewrite nth_error_map, Hj. reflexivity. }
  assert (C0 : CG (env_of ops) (map fst (s_runs g)) r i (init (env_of ops)) [] 0).
  { split; [reflexivity|]. split; [reflexivity|]. intros _. reflexivity. }
  pose proof (run_from_cg (env_of ops) (map fst (s_runs g)) r i k Hk Hs ops (init (env_of ops)) [] 0%nat g xs
                          (ginv_init _) D C0 E []) as (_ & _ & C).
  simpl in C. rewrite app_nil_r in C. exact (C U).
Qed.

Lemma call_once_b_iff ops obs r i : call_once_b ops obs r i = true <-> call_once ops obs r i.
Proof. unfold call_once_b, call_once. apply Nat.eqb_eq. Qed.

(* ---- deadlock ---- *)
Lemma after_deadlock pre o :
  s_dead (final pre) = true -> decl (env_of pre) o = env_of pre ->
  final (pre ++ [o]) = final pre /\ run (pre ++ [o]) = run pre ++ [[]].
Proof.
  intros D E. destruct (final_snoc pre o E) as [A B]. rewrite A, B. unfold do_op. rewrite D. auto.
Qed.

Definition DInv (e : env) (g : st) : Prop :=
  s_dead g = true -> is_app (e_mode e) = true /\ (s_app g = 2 \/ s_app g = 4).

Lemma burst_dinv e locked g r fwd idx wl g' evs :
  near e fwd idx -> wl_ok wl -> (phi e fwd idx wl <= fuel_for e)%nat ->
  burst e locked g r fwd idx wl = (g', evs) -> DInv e g'.
Proof.
  intros N W F H D. unfold burst in H.
  set (s0 := {| b_idx := idx; b_app := s_app g; b_cleaned := s_cleaned g; b_live := s_live g; b_bound := s_bound g; b_pub := s_pub g;
                b_prov := s_prov g; b_half := s_half g; b_caps := s_caps g; b_susp := None; b_dead := false |}) in *.
  destruct (exec e locked r fwd (fuel_for e) s0 wl) as [s1 evs1] eqn:E. inv H. simpl in *.
  assert (G0 : Good e fwd s0 wl) by (split; assumption).
  split; [exact (exec_dead_app e locked r fwd _ s0 wl s1 evs F G0 eq_refl E D)
         | exact (exec_dead e locked r fwd _ s0 wl s1 evs F G0 eq_refl E D)].
Qed.

Lemma do_op_dinv e g log o g' evs :
  GInv e g log -> DInv e g -> do_op e g o = (g', evs) -> DInv e g'.
Proof.
  intros G D H. unfold do_op in H.
  destruct (s_dead g) eqn:DG; [inv H; exact D|].
  assert (NR : forall g0 fwd, new_run e g0 fwd = (g', evs) -> DInv e g').
  { intros g0 fwd X. unfold new_run in X.
    exact (burst_dinv e true _ _ fwd _ [ADo] g' evs (near_first e fwd) eq_refl (phi_start e fwd) X). }
  destruct o as [m|a en et|k|ft|cf cq| | |k b]; try (inv H; exact D).
  - destruct (is_app (e_mode e)); [destruct (s_app g =? 1); [|inv H; exact D]|]; eapply NR; eauto.
  - destruct (is_app (e_mode e)); [destruct (s_app g =? 3); [|inv H; exact D]|]; eapply NR; eauto.
  - destruct (k <? 0); [inv H; exact D|].
    destruct (nth_error (s_caps g) (Z.to_nat k)) as [[r i]|] eqn:Hc; [|inv H; exact D].
    destruct (nth_error (s_runs g) (Z.to_nat r)) as [[fwd idx]|] eqn:Hr; [|inv H; exact D].
    pose proof G as (CK & T & O & SN). destruct (O _ _ _ Hr) as [N _].
    assert (NN : 0 <= r).
    { apply nth_error_In in Hc. unfold caps_ok in CK. rewrite Forall_forall in CK. apply (CK _ Hc). }
    destruct (burst e false g r fwd idx [ANx i b]) as [g1 e1] eqn:E1.
    destruct (settle (fuel_for e) e g1) as [g2 e2] eqn:E2. inv H.
    refine (proj2 (settle_ind e (fun _ g _ => DInv e g) _ _ _ (fuel_for e) g1 (log ++ e1) g' e2 _ _ E2)).
    + auto.
    + intros g0 log0 r1 wl q g3 e3 _ _ _ _ X. unfold new_run in X.
      exact (burst_dinv e true _ _ q _ [ADo] g3 e3 (near_first e q) eq_refl (phi_start e q) X).
    + intros g0 log0 r1 f1 i1 wl g3 e3 _ _ _ N1 ND PF _ X.
      exact (burst_dinv e false _ _ f1 i1 wl g3 e3 N1 (no_do_tl _ ND) PF X).
    + eapply fire_sinv; eauto.
    + exact (burst_dinv e false _ _ fwd idx [ANx i b] g1 e1 N eq_refl (phi_fire e fwd idx i b N) E1).
Qed.

Lemma deadlock_only_accepted ops :
  s_dead (final ops) = true ->
  is_app (e_mode (env_of ops)) = true /\ (s_app (final ops) = 2 \/ s_app (final ops) = 4).
Proof.
  unfold final.
  assert (X : forall ops0 e g log g' xs, GInv e g log -> DInv e g -> run_from e g ops0 = (g', xs) -> DInv e g').
  { induction ops0 as [|o ops0 IH]; intros e g log g' xs G D H; simpl in H.
    - inv H. exact D.
    - destruct (do_op e g o) as [g1 x] eqn:E1. destruct (run_from e g1 ops0) as [g2 xs2] eqn:E2. inv H.
      eapply IH; [eapply do_op_inv; eauto | eapply do_op_dinv; eauto | exact E2]. }
  destruct (run_from (env_of ops) (init (env_of ops)) ops) as [g xs] eqn:E. simpl.
  eapply X; [apply ginv_init | | exact E]. intro D. discriminate.
Qed.
