(* C11 - model of baseapp/module.ModList.Filter (the continuation machine behind
   ModList.Start / ModList.Stop), of baseapp.App.Start / App.Stop (state guards, finish
   wrappers, Cleanup) and of the start/stop paths of the modules shipped with the framework
   (welcome, actor system, cluster).  No proofs in this file.

   Go -> model
     ModList.mods                       e_mods : list kind        (fixed once a run exists)
     one call of ModList.Filter         a "run": (fwd, index); [next] and [doNow] are the two
                                        closures over [index]; every run has its own pair
     next(succ)                         action [ANx i succ]  (i = the module that calls it)
     doNow()                            action [ADo]
     doFunc's frame with its recover    action [AEnd i p] marks where module i's Start/Stop
                                        returns (p: the module itself panics there)
     synchronous nesting of Go calls    a work list of actions, executed depth first
     a module's Start/Stop              a behaviour [Beh calls panics]: the next(b) calls it
                                        makes before returning, then optionally a panic; the
                                        continuation it received stays callable afterwards:
     the environment completing later   [OFire k b]: the continuation received at the k-th
                                        module entry of the history is invoked with b - any
                                        order, any number of times, also for other runs
     App.state                          s_app (Go constants 0..5)
     App.Cleanup (rs.Stop, closes a     s_cleaned; a second Cleanup panics (close of a closed
       channel)                           channel), Cleanup of a never prepared App panics (nil)
     actormodule's package var system   s_live: a system exists and is not shut down
     what survives a life cycle         s_bound: the node's fixed port is still bound by the remote of an
                                        earlier actor system (the framework never closes that listener);
                                        s_pub: the actor system published to the node (app.SetActorSystem)
     the owner's completion callbacks   e_cbs / e_cbp: the App-level request (Start / Stop) made from INSIDE
                                        the start / stop completion callback; ModList.Filter holds the
                                        list's lock while its first chain of synchronous modules runs, so
                                        an accepted request made there never returns ([EDeadlock], the
                                        history is over); made from a later completion it runs right
                                        there, as a new run, before the caller's frames continue
     ClusterModule.provider             s_prov: modules whose provider is not nil; s_half: those whose
                                        provider was never initialised (StartMember failed in init)
     the etcd operations under the      e_faults: which of them fail (fault); each step of
       cluster module                     ClusterModule.Start / Stop is a parameter of its program

   Go panics are values: [ERaise] (raised by a module, recovered by ModList.Start/Stop),
   [EAbort] (a panic raised inside a finish callback unwinds to the innermost module frame,
   whose remaining calls are skipped), [EEscape] (no module frame below: the panic reaches
   whoever called next / Start / Stop), [EIndexPanic] (m.mods[index] out of range).  [EOutOfFuel]
   is the only totalisation artefact; [EHang] is never produced by the model (the harness
   reports a call that did not return).  Proofs.v shows that the model never emits
   [EOutOfFuel], [EIndexPanic] or [EHang]. *)
From Cell2V Require Import Common.Tac Common.ListX.

(* ---- module behaviours ---- *)
Inductive beh := Beh (calls : list bool) (panics : bool).
Definition calls_of (b : beh) : list bool := let 'Beh c _ := b in c.
Definition panics_of (b : beh) : bool := let 'Beh _ p := b in p.

(* ---- the shipped modules as straight-line programs with early returns ---- *)
Inductive simple := Next (b : bool) | Return | Panic.
Inductive stmt := Do (s : simple) | If (c : bool) (body : list simple).
Inductive outcome := Running | Returned | Panicked.

Fixpoint run_simple (l : list simple) (acc : list bool) : list bool * outcome :=
  match l with
  | [] => (acc, Running)
  | Next b :: l' => run_simple l' (acc ++ [b])
  | Return :: _ => (acc, Returned)
  | Panic :: _ => (acc, Panicked)
  end.

Fixpoint run_stmts (p : list stmt) (acc : list bool) : list bool * outcome :=
  match p with
  | [] => (acc, Returned)
  | Do s :: p' =>
      match run_simple [s] acc with
      | (acc', Running) => run_stmts p' acc'
      | r => r
      end
  | If c body :: p' =>
      if c then
        match run_simple body acc with
        | (acc', Running) => run_stmts p' acc'
        | r => r
        end
      else run_stmts p' acc
  end.

Definition beh_of (p : list stmt) : beh :=
  let '(cs, o) := run_stmts p [] in
  Beh cs (match o with Panicked => true | _ => false end).

(* node/modules/welcome/welcome.go *)
Definition welcome_start_prog : list stmt := [Do (Next true)].
Definition welcome_stop_prog : list stmt := [Do (Next true)].

(* node/modules/actor/actor.go.  info_ok: app.GetNodeInfo() != nil; listen_ok: remote.Start
   could listen.  Repaired code (hooks/C11-fix-actor-start-listen-panic.patch). *)
Definition actor_start_prog (info_ok listen_ok : bool) : list stmt :=
  [ If (negb info_ok) [Next false; Return];
    If (negb listen_ok) [Next false; Return];
    Do (Next true) ].
(* before the repair remote.Start's panic left Start without any next() *)
Definition actor_start_prog_unrepaired (info_ok listen_ok : bool) : list stmt :=
  [ If (negb info_ok) [Next false; Return];
    If (negb listen_ok) [Panic];
    Do (Next true) ].
(* system.Shutdown() closes a channel: nil system or second close panics *)
Definition actor_stop_prog (live : bool) : list stmt :=
  [ If (negb live) [Panic]; Do (Next true) ].

(* node/modules/cluster/cluster.go with node/cluster/clusterproviders/etcd (StartMember and
   Shutdown inlined).  Every step that can fail is an explicit parameter:
     enable        cfg.Enable (false: self cluster, no provider)
     new_ok        etcd.NewWithConfig err == nil (clientv3.New accepts the endpoint)
     init_ok       StartMember -> init: the node address splits into host:port
     fetch_ok      StartMember -> fetchNodes: the Get succeeds and every listed value is a Node
     watch_ok      StartMember -> startWatching: the goroutine's watch stream comes up (if not it
                   logs, records clusterError and tries again; Start is not told)
     register_ok   StartMember -> registerService: lease Grant and Put succeed
     keepalive_ok  StartMember -> startKeepAlive: the goroutine's Grant / Put / keep-alive stream
                   work (if not it sleeps and tries again; Start is not told)
   StartMember returns the error of the first failing synchronous step; Start reports it.
   Repaired code (hooks/C11-fix-cluster-start-return.patch): the Return after the StartMember
   failure was missing (F5). *)
Inductive mstep := MInit | MFetch | MRegister.
Definition start_member (init_ok fetch_ok watch_ok register_ok keepalive_ok : bool) : option mstep :=
  if negb init_ok then Some MInit
  else if negb fetch_ok then Some MFetch
  else (* startWatching: a goroutine; watch_ok = false is its business *)
    if negb register_ok then Some MRegister
    else (* startKeepAlive: a goroutine; keepalive_ok = false is its business *) None.
Definition failed (x : option mstep) : bool := match x with Some _ => true | None => false end.

Definition cluster_start_prog (enable new_ok init_ok fetch_ok watch_ok register_ok keepalive_ok : bool) : list stmt :=
  [ If (negb enable) [Next true; Return];
    If (negb new_ok) [Next false; Return];
    If (failed (start_member init_ok fetch_ok watch_ok register_ok keepalive_ok)) [Next false; Return];
    Do (Next true) ].
Definition cluster_start_prog_unrepaired (enable new_ok init_ok fetch_ok watch_ok register_ok keepalive_ok : bool) : list stmt :=
  [ If (negb enable) [Next true; Return];
    If (negb new_ok) [Next false; Return];
    If (failed (start_member init_ok fetch_ok watch_ok register_ok keepalive_ok)) [Next false];
    Do (Next true) ].
(* Stop.  prov: c.provider != nil, then provider.Shutdown(true):
     half          the provider was created but StartMember failed inside init, so provider.self
                   is nil and Shutdown (getEtcdKey) panics
     delete_ok     Shutdown -> deregisterService: the Delete succeeds (if not Shutdown returns the
                   error, leaves the watch running, and Stop ignores it) *)
Definition cluster_stop_prog (prov half delete_ok : bool) : list stmt :=
  [ If (prov && half) [Panic];
    If (prov && negb delete_ok) [];
    Do (Next true) ].
(* the slip that F5 was in Start, made in Stop: the Shutdown error is reported and control falls
   through to the final next(true) (never in the repository; the monitor's reference mistake) *)
Definition cluster_stop_prog_fallthrough (prov half delete_ok : bool) : list stmt :=
  [ If (prov && half) [Panic];
    If (prov && negb delete_ok) [Next false];
    Do (Next true) ].

(* the node's published actor system (app.Node.GetActorSystem()) relative to the module's own:
   none yet / the same object as the package variable / an older one (alive or shut down).
   Stop shuts the package variable down, whatever is published; the reference mistake of doing
   it the other way round: *)
Inductive pubst := PNone | PSame | POld (alive : bool).
Definition actor_stop_prog_published (pub : pubst) (live : bool) : list stmt :=
  [ If (match pub with PNone => true | PSame => negb live | POld a => negb a end) [Panic]; Do (Next true) ].

(* ---- configuration ---- *)
(* node address: bindable on a fresh port each time / port in use / not host:port / one fixed free
   port (bindable until a remote has bound it: no Stop closes that listener) *)
Inductive addr := AFree | ABusy | ABad | AFixed.
Inductive mode :=
| MList                   (* bare ModList.Start / ModList.Stop; the node has no node info *)
| MApp (prepared : bool)  (* baseapp.App through LaunchAppWithMode / App.Stop *)
| MNode                   (* node App through StartNode / StopNode (node info present) *)
| MListNode.              (* bare ModList on a node that has its node info (no App guard in the way) *)
Inductive kind := KScript (st sp : beh) | KWelcome | KActor | KCluster.
(* the etcd operation that fails (harness/c11/etcdfake.go); several may be declared *)
Inductive fault :=
| FNew         (* etcd.NewWithConfig: the endpoint is rejected *)
| FGet         (* fetchNodes: the Get fails *)
| FGarbage     (* fetchNodes: a listed value does not deserialise *)
| FWatch       (* startWatching: the first watch streams are cancelled by the server *)
| FGrant       (* registerService: the lease Grant fails *)
| FPut         (* registerService: the Put fails *)
| FKaGrant     (* keepAliveForever: its Grant fails *)
| FKaPut       (* keepAliveForever: its Put fails *)
| FKaStream    (* keepAliveForever: the first keep-alive answer says the lease expired *)
| FDelete.     (* Shutdown -> deregisterService: the Delete fails *)

Inductive op :=
| OMode (m : mode)                          (* declarations: collected from the whole list *)
| OEnv (a : addr) (enable etcd : bool)
| OMod (k : kind)
| OFault (f : fault)
| OCallback (fwd req : bool)               (* the start (fwd) / stop completion callback requests App.Start (req) / App.Stop *)
| OStart | OStop
| OFire (k : Z) (b : bool).

Record env := { e_mode : mode; e_addr : addr; e_enable : bool; e_etcd : bool; e_faults : list fault;
                e_cbs : option bool; e_cbp : option bool; e_mods : list kind }.

Definition env0 : env :=
  {| e_mode := MList; e_addr := AFree; e_enable := false; e_etcd := false; e_faults := []; e_cbs := None; e_cbp := None; e_mods := [] |}.

Definition decl (e : env) (o : op) : env :=
  match o with
  | OMode m => {| e_mode := m; e_addr := e_addr e; e_enable := e_enable e; e_etcd := e_etcd e; e_faults := e_faults e;
                  e_cbs := e_cbs e; e_cbp := e_cbp e; e_mods := e_mods e |}
  | OEnv a en et => {| e_mode := e_mode e; e_addr := a; e_enable := en; e_etcd := et; e_faults := e_faults e;
                       e_cbs := e_cbs e; e_cbp := e_cbp e; e_mods := e_mods e |}
  | OMod k => {| e_mode := e_mode e; e_addr := e_addr e; e_enable := e_enable e; e_etcd := e_etcd e; e_faults := e_faults e;
                 e_cbs := e_cbs e; e_cbp := e_cbp e; e_mods := e_mods e ++ [k] |}
  | OFault f => {| e_mode := e_mode e; e_addr := e_addr e; e_enable := e_enable e; e_etcd := e_etcd e; e_faults := f :: e_faults e;
                   e_cbs := e_cbs e; e_cbp := e_cbp e; e_mods := e_mods e |}
  | OCallback fwd req =>
      {| e_mode := e_mode e; e_addr := e_addr e; e_enable := e_enable e; e_etcd := e_etcd e; e_faults := e_faults e;
         e_cbs := if fwd then Some req else e_cbs e; e_cbp := if fwd then e_cbp e else Some req; e_mods := e_mods e |}
  | _ => e
  end.

Definition env_of (ops : list op) : env := fold_left decl ops env0.

Definition info_ok (e : env) : bool := match e_mode e with MNode | MListNode => true | _ => false end.
(* remote.Start can listen.  bound: the fixed port is held by an earlier remote *)
Definition listen_ok (e : env) (bound : bool) : bool :=
  match e_addr e with ABusy => false | AFixed => negb bound | _ => true end.

(* outcome of each step of the cluster module in this environment.  e_etcd: something answers on
   the configured endpoint (false: the first request, the Get, does not succeed) *)
Definition fault_eqb (a b : fault) : bool :=
  match a, b with
  | FNew, FNew | FGet, FGet | FGarbage, FGarbage | FWatch, FWatch | FGrant, FGrant | FPut, FPut
  | FKaGrant, FKaGrant | FKaPut, FKaPut | FKaStream, FKaStream | FDelete, FDelete => true
  | _, _ => false
  end.
Definition fails (e : env) (f : fault) : bool := existsb (fault_eqb f) (e_faults e).
Definition new_ok (e : env) : bool := negb (fails e FNew).
Definition init_ok (e : env) : bool := match e_addr e with ABad => false | _ => true end.
Definition fetch_ok (e : env) : bool := e_etcd e && negb (fails e FGet) && negb (fails e FGarbage).
Definition watch_ok (e : env) : bool := negb (fails e FWatch).
Definition register_ok (e : env) : bool := negb (fails e FGrant) && negb (fails e FPut).
Definition keepalive_ok (e : env) : bool :=
  negb (fails e FKaGrant) && negb (fails e FKaPut) && negb (fails e FKaStream).
Definition delete_ok (e : env) : bool := negb (fails e FDelete).

(* behaviour of a module when it is entered *)
Definition entry_beh (e : env) (fwd live bound prov half : bool) (k : kind) : beh :=
  match k with
  | KScript st sp => if fwd then st else sp
  | KWelcome => beh_of (if fwd then welcome_start_prog else welcome_stop_prog)
  | KActor => beh_of (if fwd then actor_start_prog (info_ok e) (listen_ok e bound) else actor_stop_prog live)
  | KCluster => beh_of (if fwd then cluster_start_prog (e_enable e) (new_ok e) (init_ok e) (fetch_ok e) (watch_ok e)
                                                         (register_ok e) (keepalive_ok e)
                        else cluster_stop_prog prov half (delete_ok e))
  end.

(* ClusterModule.provider of module i after the entry: Start assigns the new provider before
   StartMember; with an address that is not host:port StartMember fails inside init (the provider
   stays half made).  Stop sets it to nil after Shutdown - unless Shutdown panicked *)
Definition init_fails (e : env) : bool := e_enable e && new_ok e && negb (init_ok e).
Definition entry_half (e : env) (fwd : bool) (i : Z) (half : list Z) (k : kind) : list Z :=
  match k with
  | KCluster => if fwd && init_fails e && negb (zmem i half) then i :: half else half
  | _ => half
  end.
Definition entry_prov (e : env) (fwd : bool) (i : Z) (prov half : list Z) (k : kind) : list Z :=
  match k with
  | KCluster =>
      if fwd then (if e_enable e && new_ok e && negb (zmem i prov) then i :: prov else prov)
      else if zmem i half then prov else filter (fun j => negb (j =? i)) prov
  | _ => prov
  end.

(* actormodule.system after the entry: Start assigns a fresh system before remote.Start,
   Stop shuts the current one down (or panics) *)
Definition entry_live (e : env) (fwd live : bool) (k : kind) : bool :=
  match k with
  | KActor => if fwd then (if info_ok e then true else live) else false
  | _ => live
  end.

(* the fixed port after the entry: a Start that gets as far as remote.Start binds it (or finds it
   bound); nothing ever releases it *)
Definition entry_bound (e : env) (fwd bound : bool) (k : kind) : bool :=
  match k with
  | KActor => bound || (fwd && info_ok e && match e_addr e with AFixed => true | _ => false end)
  | _ => bound
  end.
(* the published system after the entry: Start replaces the package variable (what was the same
   object becomes an older one) and publishes the new system only when the remote is up *)
Definition entry_pub (e : env) (fwd live bound : bool) (pub : pubst) (k : kind) : pubst :=
  match k with
  | KActor =>
      if fwd && info_ok e then
        if listen_ok e bound then PSame else match pub with PSame => POld live | p => p end
      else pub
  | _ => pub
  end.

(* ---- events ---- *)
Inductive ev :=
| EEnter (r i : Z)             (* run r entered Start/Stop of module i *)
| ENext (r i : Z) (b : bool)   (* module i invoked run r's next(b) *)
| EFin (r : Z) (b : bool)      (* run r's finish callback invoked with b *)
| ERaise (r i : Z)
| EAbort (r i : Z)
| EEscape (r : Z)
| EIndexPanic (r : Z)
| EDeadlock (r : Z)            (* run r's completion callback made a request that was accepted while the list lock is held *)
| EOutOfFuel
| EHang.

(* App states, baseapp/state.go *)
Notation SState0 := 0 (only parsing).
Notation SPrepared := 1 (only parsing).
Notation SStarting := 2 (only parsing).
Notation SNormal := 3 (only parsing).
Notation SStoping := 4 (only parsing).
Notation SStopped := 5 (only parsing).

Definition is_app (m : mode) : bool := match m with MList | MListNode => false | _ => true end.

(* what App.Start's / App.Stop's finish wrapper does around the user's finish(succ):
   new state, new cleaned flag, and whether Cleanup panicked.  Bare ModList: nothing. *)
Definition finish_effect (m : mode) (fwd succ : bool) (app : Z) (cleaned : bool) : Z * bool * bool :=
  if is_app m && succ then
    if fwd then (SNormal, cleaned, false)
    else (SStopped, true, cleaned)
  else (app, cleaned, false).

(* ---- one run: the work-list machine ---- *)
Inductive act := ADo | ANx (i : Z) (b : bool) | AEnd (i : Z) (p : bool).

(* b_susp: the completion callback made a request that was accepted while no list lock is held -
   the rest of this burst's work list waits until the requested run's first chain has returned.
   b_dead: it was accepted while the lock is held - the call never returns *)
Record bst := { b_idx : Z; b_app : Z; b_cleaned : bool; b_live : bool; b_bound : bool; b_pub : pubst;
                b_prov : list Z; b_half : list Z; b_caps : list (Z * Z);
                b_susp : option (list act * bool); b_dead : bool }.

Definition with_idx (s : bst) (idx : Z) : bst :=
  {| b_idx := idx; b_app := b_app s; b_cleaned := b_cleaned s; b_live := b_live s; b_bound := b_bound s; b_pub := b_pub s;
     b_prov := b_prov s; b_half := b_half s; b_caps := b_caps s; b_susp := b_susp s; b_dead := b_dead s |}.
Definition with_app (s : bst) (app : Z) (cl : bool) : bst :=
  {| b_idx := b_idx s; b_app := app; b_cleaned := cl; b_live := b_live s; b_bound := b_bound s; b_pub := b_pub s;
     b_prov := b_prov s; b_half := b_half s; b_caps := b_caps s; b_susp := b_susp s; b_dead := b_dead s |}.
Definition with_susp (s : bst) (wl : list act) (req : bool) : bst :=
  {| b_idx := b_idx s; b_app := b_app s; b_cleaned := b_cleaned s; b_live := b_live s; b_bound := b_bound s; b_pub := b_pub s;
     b_prov := b_prov s; b_half := b_half s; b_caps := b_caps s; b_susp := Some (wl, req); b_dead := b_dead s |}.
(* App.Start / App.Stop set Starting / Stoping before they call into the module list *)
Definition with_dead (s : bst) (req : bool) : bst :=
  {| b_idx := b_idx s; b_app := if req then SStarting else SStoping; b_cleaned := b_cleaned s; b_live := b_live s;
     b_bound := b_bound s; b_pub := b_pub s;
     b_prov := b_prov s; b_half := b_half s; b_caps := b_caps s; b_susp := b_susp s; b_dead := true |}.

(* App.Start is honoured in state Prepared only, App.Stop in state Normal only *)
Definition accepted (app : Z) (req : bool) : bool := if req then app =? SPrepared else app =? SNormal.

Section Burst.
  (* locked: this burst is the first chain of a Filter call, which holds the list's lock *)
  Variables (e : env) (locked : bool) (r : Z) (fwd : bool).

  Definition nmods : Z := Z.of_nat (length (e_mods e)).
  Definition past_end (idx : Z) : bool := if fwd then nmods <=? idx else idx <? 0.
  Definition advance (idx : Z) : Z := if fwd then idx + 1 else idx - 1.
  Definition first_idx : Z := if fwd then 0 else nmods - 1.

  (* a panic unwinds to the innermost module frame *)
  Fixpoint unwind (wl : list act) : list act * ev :=
    match wl with
    | [] => ([], EEscape r)
    | AEnd i _ :: wl' => (wl', EAbort r i)
    | _ :: wl' => unwind wl'
    end.

  (* what the owner's completion callback of this run asks of the App (App modes only) *)
  Definition request : option bool :=
    if is_app (e_mode e) then (if fwd then e_cbs e else e_cbp e) else None.
  (* the callback has just been invoked in state s (events evs): an accepted request either never
     returns or suspends the rest of the work list; otherwise the burst goes on as [k] says *)
  Definition on_callback (s : bst) (wl : list act) (evs : list ev) (k : bst * list act * list ev) : bst * list act * list ev :=
    match request with
    | Some req =>
        if accepted (b_app s) req then
          if locked then (with_dead s req, [], evs ++ [EDeadlock r]) else (with_susp s wl req, [], evs)
        else k
    | None => k
    end.

  Definition step (a : act) (s : bst) (wl : list act) : bst * list act * list ev :=
    match a with
    | ANx i b =>
        if b then (with_idx s (advance (b_idx s)), ADo :: wl, [ENext r i true])
        else (* the App wrappers do nothing on failure *)
          on_callback s wl [ENext r i false; EFin r false] (s, wl, [ENext r i false; EFin r false])
    | ADo =>
        if past_end (b_idx s) then
          (* App wrapper: new state, the owner's callback, then (Stop) Cleanup.  In state Stopped no
             request is accepted, so the callback never stands between a stop run and its Cleanup *)
          let '(app, cl, pan) := finish_effect (e_mode e) fwd true (b_app s) (b_cleaned s) in
          let s' := with_app s app cl in
          on_callback s' wl [EFin r true]
            (if pan then let '(wl', x) := unwind wl in (s', wl', [EFin r true; x])
             else (s', wl, [EFin r true]))
        else if (b_idx s <? 0) || (nmods <=? b_idx s) then
          let '(wl', x) := unwind wl in (s, wl', [EIndexPanic r; x])
        else
          let k := nth (Z.to_nat (b_idx s)) (e_mods e) KWelcome in
          let bh := entry_beh e fwd (b_live s) (b_bound s) (zmem (b_idx s) (b_prov s)) (zmem (b_idx s) (b_half s)) k in
          ({| b_idx := b_idx s; b_app := b_app s; b_cleaned := b_cleaned s;
              b_live := entry_live e fwd (b_live s) k;
              b_bound := entry_bound e fwd (b_bound s) k;
              b_pub := entry_pub e fwd (b_live s) (b_bound s) (b_pub s) k;
              b_prov := entry_prov e fwd (b_idx s) (b_prov s) (b_half s) k;
              b_half := entry_half e fwd (b_idx s) (b_half s) k;
              b_caps := b_caps s ++ [(r, b_idx s)];
              b_susp := b_susp s; b_dead := b_dead s |},
           map (ANx (b_idx s)) (calls_of bh) ++ AEnd (b_idx s) (panics_of bh) :: wl,
           [EEnter r (b_idx s)])
    | AEnd i p => (s, wl, if p then [ERaise r i] else [])
    end.

  Fixpoint exec (fuel : nat) (s : bst) (wl : list act) : bst * list ev :=
    match wl with
    | [] => (s, [])
    | a :: wl' =>
        match fuel with
        | O => (s, [EOutOfFuel])
        | S f =>
            let '(s1, wl1, e1) := step a s wl' in
            let '(s2, e2) := exec f s1 wl1 in
            (s2, e1 ++ e2)
        end
    end.
End Burst.

(* enough for any burst (Proofs.exec_enough) *)
Definition maxcalls (k : kind) : nat :=
  match k with
  | KScript st sp => Nat.max (length (calls_of st)) (length (calls_of sp))
  | _ => 1%nat
  end.
Definition cmax (ms : list kind) : nat := fold_right (fun k m => Nat.max (maxcalls k) m) 0%nat ms.
Definition weight (e : env) : nat := 2 + 2 * cmax (e_mods e).
Definition fuel_for (e : env) : nat := 2 + length (e_mods e) * weight e.

(* ---- the whole history ---- *)
(* s_susp: run r's burst is suspended with that work list behind an accepted request (only inside
   one operation); s_dead: a call never returned - nothing happens any more *)
Record st := { s_runs : list (bool * Z); s_caps : list (Z * Z); s_app : Z; s_cleaned : bool; s_live : bool;
               s_bound : bool; s_pub : pubst; s_prov : list Z; s_half : list Z;
               s_susp : option (Z * list act * bool); s_dead : bool }.

Definition init (e : env) : st :=
  {| s_runs := []; s_caps := [];
     s_app := match e_mode e with MApp false => SState0 | _ => SPrepared end;
     s_cleaned := match e_mode e with MApp false => true | _ => false end;
     s_live := false; s_bound := false; s_pub := PNone; s_prov := []; s_half := []; s_susp := None; s_dead := false |}.

Fixpoint upd_nth {A} (n : nat) (x : A) (l : list A) : list A :=
  match l, n with
  | [], _ => []
  | _ :: t, O => x :: t
  | h :: t, S n' => h :: upd_nth n' x t
  end.

Definition burst (e : env) (locked : bool) (g : st) (r : Z) (fwd : bool) (idx : Z) (wl : list act) : st * list ev :=
  let s0 := {| b_idx := idx; b_app := s_app g; b_cleaned := s_cleaned g; b_live := s_live g; b_bound := s_bound g; b_pub := s_pub g;
               b_prov := s_prov g; b_half := s_half g; b_caps := s_caps g; b_susp := None; b_dead := false |} in
  let '(s1, evs) := exec e locked r fwd (fuel_for e) s0 wl in
  ({| s_runs := upd_nth (Z.to_nat r) (fwd, b_idx s1) (s_runs g); s_caps := b_caps s1;
      s_app := b_app s1; s_cleaned := b_cleaned s1; s_live := b_live s1; s_bound := b_bound s1; s_pub := b_pub s1;
      s_prov := b_prov s1; s_half := b_half s1;
      s_susp := match b_susp s1 with Some (wl', req) => Some (r, wl', req) | None => None end;
      s_dead := b_dead s1 |}, evs).

Definition set_app (g : st) (a : Z) : st :=
  {| s_runs := s_runs g; s_caps := s_caps g; s_app := a; s_cleaned := s_cleaned g; s_live := s_live g;
     s_bound := s_bound g; s_pub := s_pub g; s_prov := s_prov g; s_half := s_half g; s_susp := s_susp g; s_dead := s_dead g |}.
Definition push_run (g : st) (x : bool * Z) : st :=
  {| s_runs := s_runs g ++ [x]; s_caps := s_caps g; s_app := s_app g; s_cleaned := s_cleaned g; s_live := s_live g;
     s_bound := s_bound g; s_pub := s_pub g; s_prov := s_prov g; s_half := s_half g; s_susp := s_susp g; s_dead := s_dead g |}.

(* a new Filter call: index := 0 / len-1; doNow() - under the list's lock *)
Definition new_run (e : env) (g : st) (fwd : bool) : st * list ev :=
  let r := Z.of_nat (length (s_runs g)) in
  burst e true (push_run g (fwd, first_idx e fwd)) r fwd (first_idx e fwd) [ADo].

(* after an unlocked burst: while a request stands accepted, carry it out (App.Start / App.Stop set
   the state and call into the list: a new run) and then give the suspended run the rest of its
   work list.  If the new run's call never returns, neither does anything else. *)
Fixpoint settle (n : nat) (e : env) (g : st) : st * list ev :=
  match s_susp g with
  | None => (g, [])
  | Some (r, wl, req) =>
      match n with
      | O => (g, [EOutOfFuel])
      | S n' =>
          let '(g1, e1) := new_run e (set_app g (if req then SStarting else SStoping)) req in
          if s_dead g1 then (g1, e1) else
          match nth_error (s_runs g1) (Z.to_nat r) with
          | Some (fwd, idx) =>
              let '(g2, e2) := burst e false g1 r fwd idx wl in
              let '(g3, e3) := settle n' e g2 in
              (g3, e1 ++ e2 ++ e3)
          | None => (g1, e1)
          end
      end
  end.

Definition do_op (e : env) (g : st) (o : op) : st * list ev :=
  if s_dead g then (g, []) else
  match o with
  | OStart =>
      if is_app (e_mode e) then
        if s_app g =? SPrepared then new_run e (set_app g SStarting) true else (g, [])
      else new_run e g true
  | OStop =>
      if is_app (e_mode e) then
        if s_app g =? SNormal then new_run e (set_app g SStoping) false else (g, [])
      else new_run e g false
  | OFire k b =>
      if k <? 0 then (g, []) else
      match nth_error (s_caps g) (Z.to_nat k) with
      | Some (r, i) =>
          match nth_error (s_runs g) (Z.to_nat r) with
          | Some (fwd, idx) =>
              let '(g1, e1) := burst e false g r fwd idx [ANx i b] in
              let '(g2, e2) := settle (fuel_for e) e g1 in
              (g2, e1 ++ e2)
          | None => (g, [])
          end
      | None => (g, [])
      end
  | _ => (g, [])
  end.

Fixpoint run_from (e : env) (g : st) (ops : list op) : st * list (list ev) :=
  match ops with
  | [] => (g, [])
  | o :: rest =>
      let '(g1, x) := do_op e g o in
      let '(g2, xs) := run_from e g1 rest in
      (g2, x :: xs)
  end.

(* one list of events per operation *)
Definition run (ops : list op) : list (list ev) := snd (run_from (env_of ops) (init (env_of ops)) ops).
Definition final (ops : list op) : st := fst (run_from (env_of ops) (init (env_of ops)) ops).
